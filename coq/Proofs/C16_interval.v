(* C16 -- transposition by an Interval OBJECT after any history of operations on it
   (Model/C12_Interval.v): the note moves by the staff steps AND the semitones of the interval the
   object denotes NOW -- the diatonic specification tr_spec at the table size of its current
   (number, quality), in its current direction.  A machine that memoises the size on the object (not
   the code) moves the step by the new interval and the alteration by the old size. *)
From PV Require Import Lib.Base Lib.Py Proofs.T1_core Proofs.C16_t1 Proofs.C12_interval.
From PV Require Model.C12 Model.C16 Gen.T1_music.
From PV Require Import Model.T1_spec Model.C12_Interval.
#[local] Open Scope Z_scope.

Lemma interval_history_transpose_lemma (f0 : PyInterval) (ops : list iop) n q sem up i a o :
  let s := final_code ops f0 in
  i_number s = n -> i_quality s = q -> i_direction s = dir_name up ->
  C12.interval_semitones n q = Some sem -> 0 <= i <= 6 ->
  tr_code s (mk_note (step_name i) (Some a) o) = Some (note_of_pitch (C16.tr_spec n sem up (i, a, o))) /\
  tn_code s (step_name i) a =
    match C16.tn_note n sem up i a with Some (i', a') => Some (step_name i', a') | None => None end.
Proof.
  cbv zeta. generalize (final_code ops f0) as s. intros [n' q' d']. cbn [i_number i_quality i_direction].
  intros -> -> -> Hs Hi. unfold tr_code, tn_code. split.
  - apply t1_transpose_inplace_spec; assumption.
  - apply t1_transpose_note_spec; assumption.
Qed.

(* whole parts: every note of the list (transpose() visits every note of the copy) *)
Lemma interval_history_transpose_all_lemma (f0 : PyInterval) (ops : list iop) n q sem up (l : list (Z * Z * Z)) :
  let s := final_code ops f0 in
  i_number s = n -> i_quality s = q -> i_direction s = dir_name up ->
  C12.interval_semitones n q = Some sem -> Forall (fun x : Z * Z * Z => 0 <= fst (fst x) <= 6) l ->
  snd (step_code (OpTr (map note_of_pitch l)) s) = ObNotes (Some (map (fun x => note_of_pitch (C16.tr_spec n sem up x)) l)) /\
  fst (step_code (OpTr (map note_of_pitch l)) s) = s.
Proof.
  cbv zeta. intros Hn Hq Hd Hs Hl. split; [|reflexivity]. cbn [step_code snd]. f_equal.
  induction Hl as [|[[i a] o] l Hi Hl IH]; cbn [map map_opt]; [reflexivity|].
  cbn [fst] in Hi. rewrite IH.
  destruct (interval_history_transpose_lemma f0 ops n q sem up i a o Hn Hq Hd Hs Hi) as [E _].
  unfold note_of_pitch at 1. rewrite E. reflexivity.
Qed.

(* the memoising variant: a major sixth up used once, lowered to a minor sixth, used again:
   C4 goes to A natural (the old size 9) where the minor sixth above C4 is A flat (8 semitones) *)
Lemma interval_history_transpose_memo_refuted_lemma :
  let c4 := mk_note "C" (Some 0) 4 in
  let s := snd (run step_memo m_iv [OpTr [c4]; OpCq (-1)] (memo_init (mk_interval 6 "M" "up"))) in
  m_iv s = mk_interval 6 "m" "up" /\
  snd (step_memo (OpTr [c4]) s) = ObNotes (Some [mk_note "A" (Some 0) 4]) /\
  C12.interval_semitones 6 "m" = Some 8 /\
  note_of_pitch (C16.tr_spec 6 8 true (0, 0, 4)) = mk_note "A" (Some (-1)) 4 /\
  history_ok step_memo m_iv [OpTr [c4]; OpCq (-1); OpTr [c4]] (memo_init (mk_interval 6 "M" "up")) = false.
Proof. vm_compute. repeat split. Qed.
