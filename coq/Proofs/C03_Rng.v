(* C03 -- proofs, part 6: the numbers the exporter gives to slurs / tuplets are a faithful encoding of their
   identity: load_musicxml's pairing BY NUMBER of the written elements (sorted per note, start-key / stop-key,
   stop-before-start, rogue test) yields the pairs that pairing BY IDENTITY yields on the score itself. *)
From PV Require Import Lib.Base Model.C03_Rng.
From Coq Require Import Permutation.
#[local] Open Scope Z_scope.

(* ------------------------------------------------------------------ equivalence of reader states *)

Definition seq (s s' : ost) : Prop :=
  (forall k, o_start s k = o_start s' k) /\ (forall k, o_stop s k = o_stop s' k) /\
  Permutation (fin s) (fin s').

Lemma seq_refl s : seq s s.
Proof. repeat split; reflexivity. Qed.
Lemma seq_sym s s' : seq s s' -> seq s' s.
Proof. intros (A & B & C). repeat split; intros; try symmetry; auto. Qed.
Lemma seq_trans a b c : seq a b -> seq b c -> seq a c.
Proof.
  intros (A & B & C) (A' & B' & C'). repeat split; intros.
  - rewrite A; apply A'.
  - rewrite B; apply B'.
  - eapply Permutation_trans; eassumption.
Qed.

Lemma upd_same f k v : upd f k v k = v.
Proof. unfold upd. rewrite Z.eqb_refl. reflexivity. Qed.
Lemma upd_other f k v k' : k' <> k -> upd f k v k' = f k'.
Proof. intros H. unfold upd. destruct (k' =? k) eqn:E; [lia|reflexivity]. Qed.

Lemma ostep_unfold rogue x e s a' b' out :
  kstep rogue x (snd e) (o_start s (fst e)) (o_stop s (fst e)) = (a', b', out) ->
  ostep rogue x e s = mkO (upd (o_start s) (fst e) a') (upd (o_stop s) (fst e) b') (out ++ fin s).
Proof. intros H. unfold ostep. rewrite H. reflexivity. Qed.

Lemma ostep_seq rogue x e s s' : seq s s' -> seq (ostep rogue x e s) (ostep rogue x e s').
Proof.
  intros (A & B & C). unfold ostep. rewrite <- (A (fst e)), <- (B (fst e)).
  destruct (kstep rogue x (snd e) (o_start s (fst e)) (o_stop s (fst e))) as [[a' b'] out].
  repeat split; simpl.
  - intros k. unfold upd. destruct (k =? fst e); auto.
  - intros k. unfold upd. destruct (k =? fst e); auto.
  - apply Permutation_app_head. exact C.
Qed.

Lemma ostep_other rogue x e s k :
  k <> fst e -> o_start (ostep rogue x e s) k = o_start s k /\ o_stop (ostep rogue x e s) k = o_stop s k.
Proof.
  intros H. unfold ostep.
  destruct (kstep rogue x (snd e) (o_start s (fst e)) (o_stop s (fst e))) as [[a' b'] out]. simpl.
  split; apply upd_other; exact H.
Qed.

Lemma ostep_comm rogue x1 x2 e1 e2 s :
  fst e1 <> fst e2 ->
  seq (ostep rogue x1 e1 (ostep rogue x2 e2 s)) (ostep rogue x2 e2 (ostep rogue x1 e1 s)).
Proof.
  intros H.
  destruct (kstep rogue x1 (snd e1) (o_start s (fst e1)) (o_stop s (fst e1))) as [[a1 b1] out1] eqn:K1.
  destruct (kstep rogue x2 (snd e2) (o_start s (fst e2)) (o_stop s (fst e2))) as [[a2 b2] out2] eqn:K2.
  rewrite (ostep_unfold rogue x2 e2 s a2 b2 out2 K2), (ostep_unfold rogue x1 e1 s a1 b1 out1 K1).
  rewrite (ostep_unfold rogue x1 e1 _ a1 b1 out1); [|simpl; rewrite !upd_other by exact H; exact K1].
  rewrite (ostep_unfold rogue x2 e2 _ a2 b2 out2); [|simpl; rewrite !upd_other by (intros E; apply H; symmetry; exact E); exact K2].
  repeat split; simpl.
  - intros k. unfold upd. destruct (k =? fst e1) eqn:E1, (k =? fst e2) eqn:E2; try reflexivity. lia.
  - intros k. unfold upd. destruct (k =? fst e1) eqn:E1, (k =? fst e2) eqn:E2; try reflexivity. lia.
  - rewrite !app_assoc. apply Permutation_app_tail. apply Permutation_app_comm.
Qed.

(* ------------------------------------------------------------------ runs *)

Lemma orun_cons rogue x e l s : orun rogue x (e :: l) s = orun rogue x l (ostep rogue x e s).
Proof. reflexivity. Qed.

Lemma orun_app rogue x a b s : orun rogue x (a ++ b) s = orun rogue x b (orun rogue x a s).
Proof. unfold orun. apply fold_left_app. Qed.

Lemma orun_seq rogue x : forall l s s', seq s s' -> seq (orun rogue x l s) (orun rogue x l s').
Proof.
  induction l as [|e r IH]; intros s s' H; [exact H|].
  rewrite !orun_cons. apply IH. apply ostep_seq. exact H.
Qed.

Lemma orun_other rogue x k : forall l s,
  ~ In k (map fst l) ->
  o_start (orun rogue x l s) k = o_start s k /\ o_stop (orun rogue x l s) k = o_stop s k.
Proof.
  induction l as [|e r IH]; intros s H; [split; reflexivity|].
  rewrite orun_cons. simpl in H.
  destruct (IH (ostep rogue x e s)) as [A B]; [intros Hin; apply H; right; exact Hin|].
  destruct (ostep_other rogue x e s k) as [A' B']; [intros E; apply H; left; symmetry; exact E|].
  split; congruence.
Qed.

(* a stable sort by number only swaps events with different numbers *)
Lemma orun_ins_num rogue x e : forall l s,
  seq (orun rogue x (ins_num e l) s) (orun rogue x (e :: l) s).
Proof.
  induction l as [|y r IH]; intros s; simpl ins_num; [apply seq_refl|].
  destruct (fst e <=? fst y) eqn:E; [apply seq_refl|].
  rewrite orun_cons. eapply seq_trans; [apply IH|].
  rewrite !orun_cons. apply orun_seq. apply ostep_comm. lia.
Qed.

Lemma orun_sort_num rogue x : forall l s, seq (orun rogue x (sort_num l) s) (orun rogue x l s).
Proof.
  induction l as [|e r IH]; intros s; [apply seq_refl|].
  simpl sort_num. eapply seq_trans; [apply orun_ins_num|].
  rewrite !orun_cons. apply IH.
Qed.

Lemma orun_perm rogue x : forall l l', Permutation l l' -> NoDup (map fst l) ->
  forall s, seq (orun rogue x l s) (orun rogue x l' s).
Proof.
  induction 1 as [|e l l' P IH|a b l|l l' l'' P1 IH1 P2 IH2]; intros Hn s.
  - apply seq_refl.
  - rewrite !orun_cons. apply IH. simpl in Hn. inversion Hn; assumption.
  - rewrite !orun_cons. apply orun_seq. apply ostep_comm.
    simpl in Hn. inversion Hn as [|? ? Hna _]; subst. intros E. apply Hna. left. exact E.
  - eapply seq_trans; [apply IH1; exact Hn|]. apply IH2.
    eapply Permutation_NoDup; [apply Permutation_map; exact P1|exact Hn].
Qed.

(* the elements of a note are written stops first: the importer's sort by type leaves them in place *)
Lemma sort_type_starts : forall l : list (Z * Z),
  sort_type (map (fun p => (fst p, true)) l) = map (fun p => (fst p, true)) l.
Proof.
  induction l as [|p r IH]; [reflexivity|]. simpl. rewrite IH.
  destruct r; reflexivity.
Qed.

Lemma sort_type_written : forall sp st, sort_type (written_events sp st) = written_events sp st.
Proof.
  unfold written_events. induction sp as [|p r IH]; intros st; simpl.
  - apply sort_type_starts.
  - rewrite IH. destruct r as [|q r']; simpl.
    + destruct st; reflexivity.
    + reflexivity.
Qed.

Lemma ins_num_map {A} (b : bool) (x : Z * A) : forall l,
  map (fun p => (fst p, b)) (ins_num x l) = ins_num (fst x, b) (map (fun p => (fst p, b)) l).
Proof.
  induction l as [|y r IH]; [reflexivity|]. simpl.
  destruct (fst x <=? fst y); simpl; [reflexivity|]. rewrite IH. reflexivity.
Qed.

Lemma sort_num_map {A} (b : bool) : forall l : list (Z * A),
  map (fun p => (fst p, b)) (sort_num l) = sort_num (map (fun p => (fst p, b)) l).
Proof.
  induction l as [|x r IH]; [reflexivity|]. simpl. rewrite ins_num_map, IH. reflexivity.
Qed.

(* the importer's reading of one note = reading its elements in the order of the exporter's calls *)
Lemma import_note_calls rogue x l l' s :
  seq (import_note rogue x (written_events (sort_num l) (sort_num l')) s)
      (orun rogue x (map (fun p => (fst p, true)) l')
         (orun rogue x (map (fun p => (fst p, false)) l) s)).
Proof.
  unfold import_note. rewrite sort_type_written.
  eapply seq_trans; [apply orun_sort_num|].
  unfold written_events. rewrite orun_app, !sort_num_map.
  eapply seq_trans; [apply orun_sort_num|].
  apply orun_seq. apply orun_sort_num.
Qed.

(* ------------------------------------------------------------------ the exporter's counter *)

Lemma zmem_true a l : zmem a l = true <-> In a l.
Proof.
  unfold zmem. rewrite existsb_exists. split.
  - intros (y & Hy & E). apply Z.eqb_eq in E. subst. exact Hy.
  - intros H. exists a. split; [exact H|apply Z.eqb_refl].
Qed.

(* number of used numbers >= n: the loop `while number in used: number += 1` ends within that many steps *)
Definition cnt (n : Z) (used : list Z) : nat := List.length (filter (fun u => n <=? u) used).

Lemma cnt_le n used : (cnt (n + 1) used <= cnt n used)%nat.
Proof.
  unfold cnt. induction used as [|u r IH]; simpl; [lia|].
  destruct (n + 1 <=? u) eqn:E1; destruct (n <=? u) eqn:E2; simpl; lia.
Qed.

Lemma cnt_lt n used : In n used -> (cnt (n + 1) used < cnt n used)%nat.
Proof.
  induction used as [|u r IH]; intros H; [contradiction|].
  pose proof (cnt_le n r) as Hle. unfold cnt in *. simpl.
  destruct H as [->|H].
  - destruct (n + 1 <=? n) eqn:E1; [lia|]. destruct (n <=? n) eqn:E2; [|lia]. simpl. lia.
  - specialize (IH H). destruct (n + 1 <=? u) eqn:E1; destruct (n <=? u) eqn:E2; simpl; lia.
Qed.

Lemma cnt_pos n used : In n used -> (0 < cnt n used)%nat.
Proof.
  intros H. unfold cnt.
  assert (Hin : In n (filter (fun u => n <=? u) used)) by (apply filter_In; split; [exact H|lia]).
  destruct (filter (fun u => n <=? u) used); [contradiction|simpl; lia].
Qed.

Lemma cnt_length n used : (cnt n used <= List.length used)%nat.
Proof.
  unfold cnt. induction used as [|u r IH]; simpl; [lia|].
  destruct (n <=? u); simpl; lia.
Qed.

Lemma free_from_free : forall fuel n used, (cnt n used <= fuel)%nat -> ~ In (free_from fuel n used) used.
Proof.
  induction fuel as [|f IH]; intros n used H; simpl.
  - intros Hin. pose proof (cnt_pos n used Hin). lia.
  - destruct (zmem n used) eqn:E.
    + apply IH. apply zmem_true in E. pose proof (cnt_lt n used E). lia.
    + intros Hin. apply zmem_true in Hin. congruence.
Qed.

Lemma smallest_free_free used : ~ In (smallest_free used) used.
Proof. unfold smallest_free. apply free_from_free. apply cnt_length. Qed.

Definition cinj (c : counter) : Prop := NoDup (map fst c) /\ NoDup (map snd c).

Lemma zlookup_none : forall (c : counter) r, zlookup r c = None <-> ~ In r (map fst c).
Proof.
  induction c as [|[r0 k0] t IH]; intros r; simpl.
  - split; [intros _ []|reflexivity].
  - destruct (r =? r0) eqn:E.
    + split; [discriminate|]. intros H. exfalso. apply H. left. lia.
    + rewrite IH. split; intros H.
      * intros [E'|Hin]; [lia|contradiction].
      * intros Hin. apply H. right. exact Hin.
Qed.

Lemma zlookup_in : forall (c : counter) r k, zlookup r c = Some k -> In r (map fst c) /\ In k (map snd c).
Proof.
  induction c as [|[r0 k0] t IH]; intros r k H; simpl in *; [discriminate|].
  destruct (r =? r0) eqn:E.
  - inversion H; subst. split; left; [lia|reflexivity].
  - destruct (IH r k H) as [A B]. split; right; assumption.
Qed.

Lemma cremove_spec : forall c r k, cinj c -> zlookup r c = Some k ->
  cinj (cremove r c) /\ zlookup r (cremove r c) = None /\
  (forall r', r' <> r -> zlookup r' (cremove r c) = zlookup r' c) /\
  ~ In k (map snd (cremove r c)) /\
  (forall k', In k' (map snd c) <-> k' = k \/ In k' (map snd (cremove r c))) /\
  (forall r', In r' (map fst (cremove r c)) -> In r' (map fst c)).
Proof.
  induction c as [|[r0 k0] t IH]; intros r k [Hf Hs] H; simpl in *; [discriminate|].
  inversion Hf as [|? ? Hf1 Hf2]; subst. inversion Hs as [|? ? Hs1 Hs2]; subst.
  destruct (r =? r0) eqn:E.
  - inversion H; subst k0. assert (r = r0) by lia. subst r0.
    repeat split; try assumption.
    + apply zlookup_none. exact Hf1.
    + intros r' Hr. destruct (r' =? r) eqn:E'; [lia|reflexivity].
    + intros [->|Hin]; [left; reflexivity|right; exact Hin].
    + intros [->|Hin]; [left; reflexivity|right; exact Hin].
    + intros r' Hin. right. exact Hin.
  - destruct (IH r k (conj Hf2 Hs2) H) as ((C1 & C2) & L0 & L1 & L2 & L3 & L4).
    destruct (zlookup_in t r k H) as [_ Hk].
    simpl. rewrite E. repeat split.
    + constructor; [|exact C1]. intros Hin. apply Hf1. apply L4. exact Hin.
    + constructor; [|exact C2]. intros Hin. apply Hs1. apply L3. right. exact Hin.
    + exact L0.
    + intros r' Hr. destruct (r' =? r0); [reflexivity|apply L1; exact Hr].
    + intros [->|Hin]; [apply Hs1; exact Hk|apply L2; exact Hin].
    + intros [->|Hin].
      * right. left. reflexivity.
      * apply L3 in Hin. destruct Hin as [->|Hin]; [left; reflexivity|right; right; exact Hin].
    + intros [->|[->|Hin]].
      * right. apply L3. left. reflexivity.
      * left. reflexivity.
      * right. apply L3. right. exact Hin.
    + intros r' [->|Hin]; [left; reflexivity|right; apply L4; exact Hin].
Qed.

(* ------------------------------------------------------------------ numbers encode identities *)

Definition waiting (a b : option nref) : Prop := (a <> None /\ b = None) \/ (a = None /\ b <> None).

(* si: the importer's state (keyed by number); ss: the reader keyed by identity *)
Definition Rel (c : counter) (si ss : ost) : Prop :=
  cinj c /\
  (forall r k, zlookup r c = Some k ->
     o_start si k = o_start ss r /\ o_stop si k = o_stop ss r /\ waiting (o_start ss r) (o_stop ss r)) /\
  (forall k, ~ In k (map snd c) -> o_start si k = None /\ o_stop si k = None) /\
  (forall r, zlookup r c = None -> o_start ss r = None /\ o_stop ss r = None) /\
  Permutation (fin si) (fin ss).

Lemma Rel_seq c si ss si' ss' : seq si si' -> seq ss ss' -> Rel c si ss -> Rel c si' ss'.
Proof.
  intros (A1 & A2 & A3) (B1 & B2 & B3) (H0 & H1 & H2 & H3 & H4).
  split; [exact H0|]. split; [|split; [|split]].
  - intros r k Hl. destruct (H1 r k Hl) as (X & Y & W).
    rewrite <- A1, <- A2, <- B1, <- B2. repeat split; assumption.
  - intros k Hk. rewrite <- A1, <- A2. apply H2. exact Hk.
  - intros r Hr. rewrite <- B1, <- B2. apply H3. exact Hr.
  - eapply Permutation_trans; [apply Permutation_sym; exact A3|].
    eapply Permutation_trans; [exact H4|exact B3].
Qed.

Lemma rel_step rogue x r kind c si ss :
  Rel c si ss -> ok_event rogue ss x (r, kind) ->
  Rel (snd (toggle r c)) (ostep rogue x (fst (toggle r c), kind) si) (ostep rogue x (r, kind) ss).
Proof.
  intros (Hc & H1 & H2 & H3 & H4) Hok. unfold toggle.
  destruct (zlookup r c) as [k|] eqn:L.
  - (* second event of the range: it settles the pair, the number is released *)
    destruct (H1 r k L) as (E1 & E2 & W).
    destruct (cremove_spec c r k Hc L) as (C0 & L0 & L1 & L2 & L3 & L4).
    cbn [fst snd].
    unfold ok_event in Hok. cbn [fst snd] in Hok.
    assert (K : exists out,
               kstep rogue x kind (o_start ss r) (o_stop ss r) = (None, None, out)).
    { destruct (o_start ss r) as [[zi zt]|] eqn:A, (o_stop ss r) as [[yi yt]|] eqn:B.
      - contradiction.
      - destruct Hok as [-> Ht]. simpl.
        destruct (rogue && (zt >? snd x)) eqn:R; [apply andb_true_iff in R as [R0 R]; specialize (Ht R0); lia|].
        eexists; reflexivity.
      - destruct Hok as [-> Ht]. simpl.
        destruct (rogue && (yt <? snd x)) eqn:R; [apply andb_true_iff in R as [R0 R]; specialize (Ht R0); lia|].
        eexists; reflexivity.
      - destruct W as [[W _]|[_ W]]; congruence. }
    destruct K as (out & K).
    rewrite (ostep_unfold rogue x (r, kind) ss None None out K).
    rewrite (ostep_unfold rogue x (k, kind) si None None out); [|cbn [fst snd]; rewrite E1, E2; exact K].
    cbn [fst snd].
    split; [exact C0|]. split; [|split; [|split]]; simpl.
    + intros r' k' Hl.
      assert (Hr : r' <> r) by (intros ->; congruence).
      rewrite (L1 r' Hr) in Hl.
      assert (Hk : k' <> k).
      { intros ->. apply L2. destruct (zlookup_in (cremove r c) r' k) as [_ X]; [rewrite (L1 r' Hr); exact Hl|exact X]. }
      rewrite !upd_other by assumption. apply H1. exact Hl.
    + intros k' Hk'. destruct (Z.eq_dec k' k) as [->|Hne].
      * rewrite !upd_same. split; reflexivity.
      * rewrite !upd_other by exact Hne. apply H2. intros Hin. apply L3 in Hin as [E|Hin]; [exact (Hne E)|exact (Hk' Hin)].
    + intros r' Hl. destruct (Z.eq_dec r' r) as [->|Hne].
      * rewrite !upd_same. split; reflexivity.
      * rewrite !upd_other by exact Hne. apply H3. rewrite <- (L1 r' Hne). exact Hl.
    + apply Permutation_app_head. exact H4.
  - (* first event of the range: a number no open range uses *)
    set (k := smallest_free (map snd c)).
    assert (Hk : ~ In k (map snd c)) by apply smallest_free_free.
    destruct (H3 r L) as [A B]. destruct (H2 k Hk) as [A' B'].
    cbn [fst snd].
    assert (K : exists a' b', kstep rogue x kind None None = (a', b', []) /\ waiting a' b').
    { destruct kind; simpl; eexists; eexists; (split; [reflexivity|]); [left|right]; split; congruence. }
    destruct K as (a' & b' & K & W).
    rewrite (ostep_unfold rogue x (r, kind) ss a' b' []); [|cbn [fst snd]; rewrite A, B; exact K].
    rewrite (ostep_unfold rogue x (k, kind) si a' b' []); [|cbn [fst snd]; rewrite A', B'; exact K].
    cbn [fst snd].
    destruct Hc as [Hf Hs].
    split; [|split; [|split; [|split]]]; simpl.
    + split; constructor; try assumption. apply zlookup_none. exact L.
    + intros r' k' Hl. destruct (r' =? r) eqn:E.
      * inversion Hl; subst k'. assert (r' = r) by lia. subst r'.
        rewrite !upd_same. repeat split. exact W.
      * assert (Hr : r' <> r) by lia.
        assert (Hk' : k' <> k) by (intros ->; apply Hk; apply (zlookup_in c r' k Hl)).
        rewrite !upd_other by assumption. apply H1. exact Hl.
    + intros k' Hk'. assert (k' <> k) by (intros ->; apply Hk'; left; reflexivity).
      rewrite !upd_other by assumption. apply H2. intros Hin. apply Hk'. right. exact Hin.
    + intros r' Hl. destruct (r' =? r) eqn:E; [discriminate|].
      rewrite !upd_other by lia. apply H3. exact Hl.
    + exact H4.
Qed.

Lemma ok_event_other rogue x x' e e' s :
  fst e <> fst e' -> ok_event rogue (ostep rogue x' e' s) x e <-> ok_event rogue s x e.
Proof.
  intros H. unfold ok_event. destruct (ostep_other rogue x' e' s (fst e) H) as [A B].
  rewrite A, B. reflexivity.
Qed.

Lemma ok_event_seq rogue s s' x e : seq s s' -> ok_event rogue s x e -> ok_event rogue s' x e.
Proof. intros (A & B & _). unfold ok_event. rewrite <- A, <- B. auto. Qed.

(* a list of calls of one kind at one note *)
Lemma rel_run rogue x kind : forall rs c si ss,
  Rel c si ss -> NoDup rs -> Forall (fun r => ok_event rogue ss x (r, kind)) rs ->
  Rel (snd (toggle_all rs c))
      (orun rogue x (map (fun p => (fst p, kind)) (fst (toggle_all rs c))) si)
      (orun rogue x (map (fun r => (r, kind)) rs) ss).
Proof.
  induction rs as [|r t IH]; intros c si ss HR Hn Hok; [exact HR|].
  inversion Hn as [|? ? Hnr Hnt]; subst. inversion Hok as [|? ? Hr Ht]; subst.
  pose proof (rel_step rogue x r kind c si ss HR Hr) as HS.
  simpl toggle_all. destruct (toggle r c) as [n c1] eqn:T. cbn [fst snd] in HS.
  specialize (IH c1 (ostep rogue x (n, kind) si) (ostep rogue x (r, kind) ss) HS Hnt).
  destruct (toggle_all t c1) as [l c2] eqn:TA. cbn [fst snd] in *.
  simpl map. rewrite !orun_cons. apply IH.
  apply Forall_forall. intros r' Hin. rewrite Forall_forall in Ht.
  apply ok_event_other; [|apply Ht; exact Hin].
  cbn [fst]. intros ->. exact (Hnr Hin).
Qed.

Lemma call_order_perm rs c : Permutation (call_order rs c) rs.
Proof.
  unfold call_order. induction rs as [|x r IH]; simpl; [reflexivity|].
  destruct (is_open c x); simpl.
  - eapply Permutation_trans; [apply Permutation_sym, Permutation_middle|]. apply perm_skip, IH.
  - apply perm_skip, IH.
Qed.

Lemma map_fst_tag {A} (b : bool) (l : list A) : map fst (map (fun r => (r, b)) l) = l.
Proof. rewrite map_map. simpl. apply map_id. Qed.

(* one kind of call at one note, from the score's list of ranges *)
Lemma rel_kind rogue x kind rs c si ss :
  Rel c si ss -> NoDup rs -> Forall (fun r => ok_event rogue ss x (r, kind)) rs ->
  Rel (snd (toggle_all (call_order rs c) c))
      (orun rogue x (map (fun p => (fst p, kind)) (fst (toggle_all (call_order rs c) c))) si)
      (orun rogue x (map (fun r => (r, kind)) rs) ss).
Proof.
  intros HR Hn Hok.
  pose proof (call_order_perm rs c) as P.
  assert (Hn' : NoDup (call_order rs c)) by (eapply Permutation_NoDup; [apply Permutation_sym; exact P|exact Hn]).
  assert (Hok' : Forall (fun r => ok_event rogue ss x (r, kind)) (call_order rs c))
    by (eapply Permutation_Forall; [apply Permutation_sym; exact P|exact Hok]).
  eapply Rel_seq; [apply seq_refl| |apply (rel_run rogue x kind _ c si ss HR Hn' Hok')].
  apply orun_perm; [apply Permutation_map; exact P|].
  rewrite map_fst_tag. exact Hn'.
Qed.

Lemma rel_note rogue rn c si ss :
  Rel c si ss -> ok_note rogue ss rn ->
  Rel (snd (export_note rn c))
      (import_note rogue (rn_ref rn) (fst (export_note rn c)) si)
      (orun rogue (rn_ref rn) (range_events rn) ss).
Proof.
  intros HR (N1 & N2 & O1 & O2). unfold export_note, numbers_at, range_events.
  pose proof (rel_kind rogue (rn_ref rn) false (rn_stops rn) c si ss HR N1 O1) as R1.
  destruct (toggle_all (call_order (rn_stops rn) c) c) as [l c1] eqn:T1. cbn [fst snd] in R1.
  pose proof (rel_kind rogue (rn_ref rn) true (rn_starts rn) c1 _ _ R1 N2 O2) as R2.
  destruct (toggle_all (call_order (rn_starts rn) c1) c1) as [l' c2] eqn:T2. cbn [fst snd] in *.
  rewrite orun_app.
  eapply Rel_seq; [apply seq_sym, import_note_calls|apply seq_refl|exact R2].
Qed.

Lemma Rel_start : Rel [] ost0 ost0.
Proof.
  unfold Rel, cinj, ost0; simpl. repeat split; try constructor; try discriminate; reflexivity.
Qed.

Lemma roundtrip_rel rogue : forall ns c si ss,
  Rel c si ss -> ok_notes rogue ns ss ->
  exists c', Rel c' (roundtrip rogue ns c si) (spec_run rogue ns ss).
Proof.
  induction ns as [|rn r IH]; intros c si ss HR Hok; simpl.
  - exists c. exact HR.
  - destruct Hok as [H1 H2].
    pose proof (rel_note rogue rn c si ss HR H1) as HN.
    destruct (export_note rn c) as [w c1]. cbn [fst snd] in HN.
    exact (IH c1 _ _ HN H2).
Qed.

(* saving and loading pairs the slur / tuplet elements of a part as pairing by identity does *)
Lemma range_numbers_roundtrip_lemma : forall rogue ns,
  ok_notes rogue ns ost0 ->
  Permutation (fin (roundtrip rogue ns [] ost0)) (fin (spec_run rogue ns ost0)).
Proof.
  intros rogue ns H.
  destruct (roundtrip_rel rogue ns [] ost0 ost0 Rel_start H) as (c' & _ & _ & _ & _ & P).
  exact P.
Qed.

(* ------------------------------------------------------------------ the decidable form of the hypothesis *)

Lemma ok_event_b_true rogue s x e : ok_event_b rogue s x e = true -> ok_event rogue s x e.
Proof.
  unfold ok_event_b, ok_event.
  destruct (o_start s (fst e)) as [[zi zt]|], (o_stop s (fst e)) as [[yi yt]|]; intros H;
    try discriminate; try exact I.
  - apply andb_true_iff in H as [H1 H2]. split; [destruct (snd e); [discriminate|reflexivity]|].
    intros ->. simpl in H2. lia.
  - apply andb_true_iff in H as [H1 H2]. split; [exact H1|]. intros ->. simpl in H2. lia.
Qed.

Lemma nodup_b_true : forall l, nodup_b l = true -> NoDup l.
Proof.
  induction l as [|x r IH]; intros H; [constructor|].
  simpl in H. apply andb_true_iff in H as [H1 H2]. constructor; [|apply IH; exact H2].
  intros Hin. apply zmem_true in Hin. rewrite Hin in H1. discriminate.
Qed.

Lemma ok_note_b_true rogue s rn : ok_note_b rogue s rn = true -> ok_note rogue s rn.
Proof.
  unfold ok_note_b, ok_note. intros H.
  apply andb_true_iff in H as [H H4]. apply andb_true_iff in H as [H H3]. apply andb_true_iff in H as [H1 H2].
  repeat split.
  - apply nodup_b_true; exact H1.
  - apply nodup_b_true; exact H2.
  - apply Forall_forall. intros r Hr. rewrite forallb_forall in H3. apply ok_event_b_true, H3, Hr.
  - apply Forall_forall. intros r Hr. rewrite forallb_forall in H4. apply ok_event_b_true, H4, Hr.
Qed.

Lemma ok_notes_b_true rogue : forall ns s, ok_notes_b rogue ns s = true -> ok_notes rogue ns s.
Proof.
  induction ns as [|rn r IH]; intros s H; simpl in *; [exact I|].
  apply andb_true_iff in H as [H1 H2]. split; [apply ok_note_b_true; exact H1|apply IH; exact H2].
Qed.

(* ------------------------------------------------------------------ within one note all numbers differ *)

Lemma toggle_fresh r c : zlookup r c = None ->
  toggle r c = (smallest_free (map snd c), (r, smallest_free (map snd c)) :: c).
Proof. intros H. unfold toggle. rewrite H. reflexivity. Qed.

Lemma toggle_open r c k : zlookup r c = Some k -> toggle r c = (k, cremove r c).
Proof. intros H. unfold toggle. rewrite H. reflexivity. Qed.

(* calls for ranges that are not open: the numbers are new, pairwise different, and nothing is released *)
Lemma toggle_all_fresh : forall rs c,
  NoDup rs -> Forall (fun r => zlookup r c = None) rs -> cinj c ->
  let (l, c') := toggle_all rs c in
  NoDup (map fst l) /\ (forall k, In k (map fst l) -> ~ In k (map snd c)) /\ cinj c' /\
  (forall r, ~ In r rs -> zlookup r c' = zlookup r c) /\
  (forall k, In k (map snd c) -> In k (map snd c')).
Proof.
  induction rs as [|r t IH]; intros c Hn Hf Hc; simpl.
  - repeat split; try constructor; try (destruct Hc; assumption); intros; try contradiction; auto.
  - inversion Hn as [|? ? Hnr Hnt]; subst. inversion Hf as [|? ? Hr Ht]; subst.
    rewrite (toggle_fresh r c Hr).
    set (k := smallest_free (map snd c)).
    assert (Hk : ~ In k (map snd c)) by apply smallest_free_free.
    assert (Hc1 : cinj ((r, k) :: c)).
    { destruct Hc as [A B]. split; simpl; constructor; try assumption. apply zlookup_none. exact Hr. }
    assert (Hf1 : Forall (fun r' => zlookup r' ((r, k) :: c) = None) t).
    { apply Forall_forall. intros r' Hin. simpl. destruct (r' =? r) eqn:E.
      - exfalso. apply Hnr. assert (r' = r) by lia. subst. exact Hin.
      - rewrite Forall_forall in Ht. apply Ht. exact Hin. }
    specialize (IH ((r, k) :: c) Hnt Hf1 Hc1).
    destruct (toggle_all t ((r, k) :: c)) as [l c'].
    destruct IH as (I1 & I2 & I3 & I4 & I5). simpl.
    repeat split.
    + constructor; [|exact I1]. intros Hin. apply (I2 k Hin). left. reflexivity.
    + intros k' [<-|Hin]; [exact Hk|]. intros Hc'. apply (I2 k' Hin). right. exact Hc'.
    + destruct I3; assumption.
    + destruct I3; assumption.
    + intros r' Hr'. rewrite I4 by (intros Hin; apply Hr'; right; exact Hin).
      simpl. destruct (r' =? r) eqn:E; [exfalso; apply Hr'; left; lia|reflexivity].
    + intros k' Hk'. apply I5. right. exact Hk'.
Qed.

(* calls for open ranges: each releases the number it holds *)
Lemma toggle_all_open : forall rs c,
  NoDup rs -> Forall (fun r => zlookup r c <> None) rs -> cinj c ->
  let (l, c') := toggle_all rs c in
  NoDup (map fst l) /\ (forall k, In k (map fst l) -> exists r, In r rs /\ zlookup r c = Some k).
Proof.
  induction rs as [|r t IH]; intros c Hn Hf Hc; simpl.
  - split; [constructor|intros k []].
  - inversion Hn as [|? ? Hnr Hnt]; subst. inversion Hf as [|? ? Hr Ht]; subst.
    destruct (zlookup r c) as [k|] eqn:L; [|congruence].
    rewrite (toggle_open r c k L).
    destruct (cremove_spec c r k Hc L) as (C0 & L0 & L1 & L2 & L3 & L4).
    assert (Hf1 : Forall (fun r' => zlookup r' (cremove r c) <> None) t).
    { apply Forall_forall. intros r' Hin. rewrite L1 by (intros ->; exact (Hnr Hin)).
      rewrite Forall_forall in Ht. apply Ht. exact Hin. }
    specialize (IH (cremove r c) Hnt Hf1 C0).
    destruct (toggle_all t (cremove r c)) as [l c'].
    destruct IH as (I1 & I2). simpl. split.
    + constructor; [|exact I1]. intros Hin. destruct (I2 k Hin) as (r' & Hr' & Hl).
      apply L2. apply (zlookup_in _ r' k Hl).
    + intros k' [<-|Hin].
      * exists r. split; [left; reflexivity|exact L].
      * destruct (I2 k' Hin) as (r' & Hr' & Hl). exists r'. split; [right; exact Hr'|].
        rewrite <- L1; [exact Hl|]. intros ->. exact (Hnr Hr').
Qed.

Lemma toggle_all_app : forall a b c,
  toggle_all (a ++ b) c =
  let (l1, c1) := toggle_all a c in let (l2, c2) := toggle_all b c1 in (l1 ++ l2, c2).
Proof.
  induction a as [|r t IH]; intros b c; simpl.
  - destruct (toggle_all b c). reflexivity.
  - destruct (toggle r c) as [n c1]. rewrite IH.
    destruct (toggle_all t c1) as [l1 c2]. destruct (toggle_all b c2) as [l2 c3]. reflexivity.
Qed.

Lemma ins_num_perm {A} (x : Z * A) l : Permutation (ins_num x l) (x :: l).
Proof.
  induction l as [|y r IH]; simpl; [reflexivity|].
  destruct (fst x <=? fst y); [reflexivity|].
  eapply Permutation_trans; [apply perm_skip, IH|apply perm_swap].
Qed.
Lemma sort_num_perm {A} (l : list (Z * A)) : Permutation (sort_num l) l.
Proof.
  induction l as [|x r IH]; simpl; [reflexivity|].
  eapply Permutation_trans; [apply ins_num_perm|apply perm_skip, IH].
Qed.

Lemma nodup_app_intro (a b : list Z) :
  NoDup a -> NoDup b -> (forall x, In x a -> In x b -> False) -> NoDup (a ++ b).
Proof.
  induction a as [|x r IH]; intros Ha Hb H; simpl; [exact Hb|].
  inversion Ha as [|? ? Hx Hr]; subst. constructor.
  - intros Hin. apply in_app_or in Hin as [Hin|Hin]; [exact (Hx Hin)|apply (H x); [left; reflexivity|exact Hin]].
  - apply IH; try assumption. intros y Hy Hy'. apply (H y); [right; exact Hy|exact Hy'].
Qed.

(* range_numbers_at_note: because the ranges that are not open are numbered before the open ones release
   their numbers, all numbers written at one note for one kind (stops, or starts) differ *)
Lemma numbers_at_distinct_lemma : forall rs c,
  cinj c -> NoDup rs -> NoDup (map fst (fst (numbers_at rs c))).
Proof.
  intros rs c Hc Hn. unfold numbers_at, call_order.
  set (F := filter (fun r => negb (is_open c r)) rs). set (O := filter (is_open c) rs).
  assert (HnF : NoDup F) by (apply NoDup_filter; exact Hn).
  assert (HnO : NoDup O) by (apply NoDup_filter; exact Hn).
  assert (HF : Forall (fun r => zlookup r c = None) F).
  { apply Forall_forall. intros r Hr. apply filter_In in Hr as [_ Hr]. unfold is_open in Hr.
    destruct (zlookup r c); [discriminate|reflexivity]. }
  assert (HO : forall r, In r O -> zlookup r c <> None /\ ~ In r F).
  { intros r Hr. apply filter_In in Hr as [_ Hr]. unfold is_open in Hr. split.
    - destruct (zlookup r c); [discriminate|discriminate].
    - intros Hin. apply filter_In in Hin as [_ Hin]. unfold is_open in Hin.
      destruct (zlookup r c); discriminate. }
  rewrite toggle_all_app.
  pose proof (toggle_all_fresh F c HnF HF Hc) as H1.
  destruct (toggle_all F c) as [l1 c1]. destruct H1 as (A1 & A2 & A3 & A4 & A5).
  assert (HO1 : Forall (fun r => zlookup r c1 <> None) O).
  { apply Forall_forall. intros r Hr. destruct (HO r Hr) as [X Y]. rewrite A4 by exact Y. exact X. }
  pose proof (toggle_all_open O c1 HnO HO1 A3) as H2.
  destruct (toggle_all O c1) as [l2 c2]. destruct H2 as (B1 & B2). cbn [fst].
  eapply Permutation_NoDup; [apply Permutation_map, Permutation_sym, sort_num_perm|].
  rewrite map_app. apply nodup_app_intro; try assumption.
  intros k Hk1 Hk2. destruct (B2 k Hk2) as (r & Hr & Hl). destruct (HO r Hr) as [_ Y].
  rewrite A4 in Hl by exact Y. apply (A2 k Hk1). apply (zlookup_in c r k Hl).
Qed.

(* ------------------------------------------------------------------ instances *)

(* document order A B C (voice 1, onsets 0 4 8), D E (voice 2, onsets 0 6); slur 10: A-C, 11: B-E (crosses
   voices), 12: D-C (its stop at C is written BEFORE its start at D: stop-before-start).  At C the range 12 is
   numbered (3) before 10 releases 1. *)
Definition rng_ex : list rnote :=
  [mkRN (0, 0) [] [10]; mkRN (1, 4) [] [11]; mkRN (2, 8) [10; 12] []; mkRN (3, 0) [] [12]; mkRN (4, 6) [11] []].

Example rng_ex_ok : ok_notes true rng_ex ost0.
Proof. apply ok_notes_b_true. vm_compute. reflexivity. Qed.

Example rng_ex_written :
  export_notes rng_ex [] =
  [[(1, true)]; [(2, true)]; [(1, false); (3, false)]; [(3, true)]; [(2, false)]].
Proof. vm_compute. reflexivity. Qed.

Example rng_ex_loaded : fin (roundtrip true rng_ex [] ost0) = [(1, 4); (3, 2); (0, 2)].
Proof. vm_compute. reflexivity. Qed.

(* boundary of the hypothesis: a slur that runs backwards in time is rogue for the importer and is lost;
   boundary of the algorithm: numbering the ranges of a note in list order (releasing 1 before 12 is numbered)
   writes the same number twice at one note *)
Example rng_backwards_lost :
  ok_notes_b true [mkRN (0, 8) [] [10]; mkRN (1, 0) [10] []] ost0 = false /\
  fin (roundtrip true [mkRN (0, 8) [] [10]; mkRN (1, 0) [10] []] [] ost0) = [].
Proof. split; vm_compute; reflexivity. Qed.

Example rng_list_order_collides :
  map fst (fst (toggle_all [10; 12] [(10, 1)])) = [1; 1] /\
  map fst (fst (numbers_at [10; 12] [(10, 1)])) = [1; 2].
Proof. split; vm_compute; reflexivity. Qed.

(* ------------------------------------------------------------------ wedges and dashes *)

(* where no stop is waiting, the wedge reader is the slur/tuplet reader without the rogue test, except that it
   ignores a stop without a start *)
Lemma wstep_as_ostep x e s :
  o_stop s (fst e) = None -> (snd e = true \/ o_start s (fst e) <> None) ->
  seq (wstep x e s) (ostep false (x, x) e s).
Proof.
  intros Hs Hk. unfold wstep, ostep, kstep. rewrite Hs. destruct (snd e) eqn:K.
  - repeat split; simpl; intros; try reflexivity.
    unfold upd. destruct (k =? fst e) eqn:E; [|reflexivity]. assert (k = fst e) by lia. subst. exact Hs.
  - destruct Hk as [Hk|Hk]; [discriminate|].
    destruct (o_start s (fst e)) as [[a at_]|]; [|congruence]. simpl.
    repeat split; simpl; intros; try reflexivity.
    unfold upd. destruct (k =? fst e) eqn:E; [|reflexivity]. assert (k = fst e) by lia. subst. exact Hs.
Qed.

Definition no_stops (s : ost) : Prop := forall k, o_stop s k = None.

Lemma wstep_no_stops x e s : no_stops s -> no_stops (wstep x e s).
Proof.
  intros H k. unfold wstep. destruct (snd e); simpl; [apply H|].
  destruct (o_start s (fst e)) as [[a t]|]; simpl; apply H.
Qed.

Lemma wrel_step x r (kind : bool) c si ss :
  Rel c si ss -> no_stops si -> no_stops ss ->
  (if kind return Prop then o_start ss r = None else o_start ss r <> None) ->
  Rel (snd (toggle r c)) (wstep x (fst (toggle r c), kind) si) (wstep x (r, kind) ss).
Proof.
  intros HR Ni Ns Hk.
  assert (Hok : ok_event false ss (x, x) (r, kind)).
  { unfold ok_event. cbn [fst snd]. rewrite (Ns r). destruct kind.
    - rewrite Hk. exact I.
    - destruct (o_start ss r) as [[z zt]|]; [split; [reflexivity|discriminate]|congruence]. }
  pose proof (rel_step false (x, x) r kind c si ss HR Hok) as H.
  eapply Rel_seq; [apply seq_sym, wstep_as_ostep|apply seq_sym, wstep_as_ostep|exact H].
  - apply Ni.
  - (* the importer's entry under the number = the entry of the range *)
    cbn [fst snd]. destruct kind; [left; reflexivity|right].
    destruct HR as (_ & H1 & _ & H3 & _). unfold toggle.
    destruct (zlookup r c) as [k|] eqn:L; cbn [fst].
    + destruct (H1 r k L) as (E & _). rewrite E. exact Hk.
    + destruct (H3 r L) as [A _]. congruence.
  - apply Ns.
  - cbn [fst snd]. destruct kind; [left; reflexivity|right; exact Hk].
Qed.

Lemma wroundtrip_rel : forall evs c si ss,
  Rel c si ss -> no_stops si -> no_stops ss -> ok_wevents evs ss ->
  exists c', Rel c' (wroundtrip evs c si) (wspec evs ss).
Proof.
  induction evs as [|[[x r] kind] t IH]; intros c si ss HR Ni Ns Hok; simpl.
  - exists c. exact HR.
  - destruct Hok as [H1 H2].
    pose proof (wrel_step x r kind c si ss HR Ni Ns H1) as HS.
    destruct (toggle r c) as [k c1]. cbn [fst snd] in HS.
    apply (IH c1 _ _ HS); [apply wstep_no_stops; exact Ni|apply wstep_no_stops; exact Ns|exact H2].
Qed.

(* saving and loading pairs the wedge (dashes) stops with their starts as pairing by identity does *)
Lemma wedge_numbers_roundtrip_lemma : forall evs,
  ok_wevents evs ost0 ->
  Permutation (fin (wroundtrip evs [] ost0)) (fin (wspec evs ost0)).
Proof.
  intros evs H.
  destruct (wroundtrip_rel evs [] ost0 ost0 Rel_start (fun _ => eq_refl) (fun _ => eq_refl) H)
    as (c' & _ & _ & _ & _ & P).
  exact P.
Qed.

Lemma ok_wevents_b_true : forall evs s, ok_wevents_b evs s = true -> ok_wevents evs s.
Proof.
  induction evs as [|[[x r] kind] t IH]; intros s H; simpl in *; [exact I|].
  apply andb_true_iff in H as [H1 H2]. split; [|apply IH; exact H2].
  destruct (o_start s r); destruct kind; try discriminate; congruence.
Qed.

(* two overlapping wedges, the first crossing a barline (the shape of the repaired defects 65e5d66 / a5e2056):
   wedge 20 over [0, 20], wedge 21 over [18, 30]; then wedge 22 over [30, 40] re-uses number 1 *)
Definition wedge_ex : list wevent :=
  [(0, 20, true); (18, 21, true); (20, 20, false); (30, 21, false); (30, 22, true); (40, 22, false)].

Example wedge_ex_ok : ok_wevents wedge_ex ost0.
Proof. apply ok_wevents_b_true. vm_compute. reflexivity. Qed.

Example wedge_ex_run :
  wexport wedge_ex [] = [(1, true); (2, true); (1, false); (2, false); (1, true); (1, false)] /\
  fin (wroundtrip wedge_ex [] ost0) = [(30, 40); (18, 30); (0, 20)].
Proof. split; vm_compute; reflexivity. Qed.
