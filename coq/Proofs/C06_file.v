(* C06 -- loading any MIDI file: the tempo changes the loader collects are those of every track of the file,
   the same with and without merge_tracks, and the seconds of a tick are their integral in tick order *)
From PV Require Import Lib.Base Lib.Round Model.C12 Model.C06 Model.C06_file Proofs.C06_lib Proofs.C06 Proofs.C06_pair Proofs.C06_save Proofs.C06_merge Proofs.C06_sec.
From Coq Require Import QArith Qabs Sorted Permutation.
#[local] Open Scope Z_scope.

(* ---- a map that keeps the tick commutes with the stable sort by tick *)
Section MapSort.
  Context {A B : Type} (g : Z * A -> Z * B).
  Hypothesis g_tick : forall e, fst (g e) = fst e.
  Lemma map_insert_tick x l :
    map g (insert_le (fun a b : Z * A => fst a <=? fst b) x l) = insert_le (fun a b : Z * B => fst a <=? fst b) (g x) (map g l).
  Proof.
    induction l as [|y r IH]; [reflexivity|]. cbn [insert_le map]. rewrite !g_tick.
    destruct (fst x <=? fst y); cbn [map]; [reflexivity|]. rewrite IH. reflexivity.
  Qed.
  Lemma map_sort_by_tick l : map g (sort_by_tick l) = sort_by_tick (map g l).
  Proof.
    unfold sort_by_tick, sort_le. induction l as [|x r IH]; [reflexivity|].
    cbn [fold_right map]. rewrite map_insert_tick, IH. reflexivity.
  Qed.
End MapSort.

Lemma sort_by_tick_idem {A} (l : list (Z * A)) : sort_by_tick (sort_by_tick l) = sort_by_tick l.
Proof.
  unfold sort_by_tick. apply (sort_le_id (@tick_leb A)).
  apply (sort_le_sorted (@tick_leb A)); [apply tick_leb_total|apply tick_leb_trans].
Qed.
Lemma sort_by_tick_cons_sorted {A} (x : Z * A) l : sort_by_tick (x :: sort_by_tick l) = sort_by_tick (x :: l).
Proof.
  unfold sort_by_tick at 1 3. unfold sort_le. cbn [fold_right].
  change (fold_right (insert_le (fun a b : Z * A => fst a <=? fst b)) [] (sort_by_tick l)) with (sort_by_tick (sort_by_tick l)).
  rewrite sort_by_tick_idem. reflexivity.
Qed.

Lemma tempo_events_sort l : tempo_events (sort_by_tick l) = sort_by_tick (tempo_events l).
Proof.
  rewrite !tempo_events_sel. unfold sel. rewrite filter_sort_by_tick.
  apply map_sort_by_tick. intros e. reflexivity.
Qed.
Lemma tempo_events_app a b : tempo_events (a ++ b) = tempo_events a ++ tempo_events b.
Proof. rewrite !tempo_events_sel, sel_app, map_app. reflexivity. Qed.
Lemma tempo_events_flat_map {A} (g : A -> list (Z * msg)) l :
  tempo_events (flat_map g l) = flat_map (fun x => tempo_events (g x)) l.
Proof. induction l as [|x r IH]; [reflexivity|]. cbn [flat_map]. rewrite tempo_events_app, IH. reflexivity. Qed.
Lemma tempo_events_strip l : tempo_events (strip_eot l) = tempo_events l.
Proof. rewrite !tempo_events_sel, sel_strip_eot; reflexivity. Qed.

(* the set_tempo events of the track mido.merge_tracks makes of the tracks ARE those of the tracks, ordered by
   tick, equal ticks in the order track by track (not only as a multiset: the sort is stable) *)
Lemma file_tempi_merge ts : file_tempi [merge_tracks ts] = sort_by_tick (file_tempi ts).
Proof.
  unfold file_tempi. cbn [flat_map]. rewrite app_nil_r. unfold merge_tracks.
  change (filter (fun e : Z * msg => negb (msg_eqb (snd e) EndOfTrack))) with strip_eot.
  destruct (undelta_app (deltas 0 (sort_by_tick (flat_map (fun t => strip_eot (undelta 0 t)) ts))) [(0, EndOfTrack)] 0) as (t' & E).
  rewrite E, tempo_events_app, undelta_deltas. cbn [undelta tempo_events]. rewrite app_nil_r.
  rewrite tempo_events_sort, tempo_events_flat_map. f_equal.
  apply flat_map_ext. intros t. apply tempo_events_strip.
Qed.

Lemma tempo_list_cons_sorted x l : tempo_list (x :: sort_by_tick l) = tempo_list (x :: l).
Proof. unfold tempo_list. rewrite sort_by_tick_cons_sorted. reflexivity. Qed.

Lemma load_tempo_file_lemma dmpq (ml : bool) tracks :
  snd (load dmpq ml tracks) = tempo_list ((0, dmpq) :: file_tempi tracks).
Proof.
  rewrite load_collected. destruct ml; [|reflexivity].
  change (TE [merge_tracks tracks]) with (file_tempi [merge_tracks tracks]).
  rewrite file_tempi_merge. apply tempo_list_cons_sorted.
Qed.

Lemma load_tempo_merge_invariant_lemma dmpq tracks : snd (load dmpq true tracks) = snd (load dmpq false tracks).
Proof. rewrite !load_tempo_file_lemma. reflexivity. Qed.

(* ---- absolute ticks of a file without negative delta times are not negative *)
Lemma undelta_nonneg : forall l t, 0 <= t -> Forall (fun e : Z * msg => 0 <= fst e) l ->
  Forall (fun e : Z * msg => 0 <= fst e) (undelta t l).
Proof.
  induction l as [|[d m] r IH]; intros t Ht H; [constructor|].
  inversion H as [|? ? Hd Hr]; subst. cbn [fst] in Hd. cbn [undelta]. constructor; [cbn [fst]; lia|].
  apply IH; [lia|exact Hr].
Qed.
Lemma tempo_events_nonneg l : Forall (fun e : Z * msg => 0 <= fst e) l -> Forall (fun e : Z * Z => 0 <= fst e) (tempo_events l).
Proof.
  induction 1 as [|[t m] r H HF IH]; [constructor|]. destruct m; cbn [tempo_events]; try exact IH.
  constructor; [exact H|exact IH].
Qed.
Lemma file_tempi_nonneg tracks : nonneg_deltas tracks = true -> Forall (fun e : Z * Z => 0 <= fst e) (file_tempi tracks).
Proof.
  unfold nonneg_deltas, file_tempi. intros H. rewrite forallb_forall in H.
  apply Forall_forall. intros e He. apply in_flat_map in He as (t & Ht & He).
  specialize (H t Ht). rewrite forallb_forall in H.
  assert (F : Forall (fun e : Z * msg => 0 <= fst e) t).
  { apply Forall_forall. intros x Hx. specialize (H x Hx). lia. }
  pose proof (tempo_events_nonneg _ (undelta_nonneg t 0 (Z.le_refl 0) F)) as G.
  rewrite Forall_forall in G. exact (G e He).
Qed.

Lemma load_file_seconds_lemma ppq dmpq (ml : bool) tracks k :
  nonneg_deltas tracks = true -> 0 <= k ->
  adjust_time ppq (snd (load dmpq ml tracks)) k = file_seconds ppq dmpq tracks k /\
  file_seconds ppq dmpq tracks k = seconds_spec ppq (file_tempo_map dmpq tracks) k.
Proof.
  intros Hn Hk. rewrite load_tempo_file_lemma. split; [reflexivity|].
  unfold file_seconds, file_tempo_map. apply load_seconds_spec_lemma; [|exact Hk].
  constructor; [cbn [fst]; lia|]. apply file_tempi_nonneg. exact Hn.
Qed.

(* the order of the property: the changes by tick; a change in a later track at an earlier tick comes first *)
Lemma file_tempo_map_order_lemma dmpq tracks :
  tick_sorted (file_tempo_map dmpq tracks) /\ Permutation (file_tempo_map dmpq tracks) ((0, dmpq) :: file_tempi tracks).
Proof. split; [apply sort_by_tick_sorted|apply sort_by_tick_perm]. Qed.

(* ---- non-vacuity and the variants.  Three tracks (ppq 480): the first has no set_tempo at all, the second
   one at tick 960 and a repeat of the default at 1200, the third one at tick 240 (earlier, read later) and one at
   tick 960 (same tick as the second track's: the later track wins) *)
Definition fx_tracks : list (list (Z * msg)) :=
  [[(0, NoteOn 0 60 64); (1440, NoteOff 0 60 0)];
   [(960, Tempo 600000); (240, Tempo 500000); (0, CC 0 64 127)];
   [(240, Tempo 250000); (720, Tempo 400000); (0, NoteOn 1 62 50); (480, NoteOn 1 62 0)]].

Lemma load_file_seconds_example_lemma :
  nonneg_deltas fx_tracks = true /\
  file_tempo_map 500000 fx_tracks = [(0, 500000); (240, 250000); (960, 600000); (960, 400000); (1200, 500000)] /\
  snd (load 500000 false fx_tracks) = [(0, 500000); (240, 250000); (960, 600000); (960, 400000); (1200, 500000)] /\
  snd (load 500000 true fx_tracks) = snd (load 500000 false fx_tracks) /\
  (file_seconds 480 500000 fx_tracks 1440 == 1075 # 1000)%Q.
Proof. vm_compute. repeat split; reflexivity. Qed.

Definition differs_at (ppq : Z) (tc : list (Z * Z)) (dmpq : Z) (tracks : list (list (Z * msg))) (k : Z) : Prop :=
  ~ (adjust_time ppq tc k == seconds_spec ppq (file_tempo_map dmpq tracks) k)%Q.

Lemma qneq_by_bool (a b : Q) : Qeq_bool a b = false -> ~ (a == b)%Q.
Proof. intros H E. apply Qeq_bool_iff in E. congruence. Qed.

Lemma tempo_first_track_refuted_lemma : exists ppq dmpq tracks k,
  nonneg_deltas tracks = true /\ 0 <= k /\ differs_at ppq (tempo_first_track dmpq tracks) dmpq tracks k.
Proof.
  exists 480, 500000, fx_tracks, 1440. split; [reflexivity|]. split; [lia|].
  apply qneq_by_bool. vm_compute. reflexivity.
Qed.
Lemma tempo_dedup_reading_refuted_lemma : exists ppq dmpq tracks k,
  nonneg_deltas tracks = true /\ 0 <= k /\ differs_at ppq (tempo_dedup_reading dmpq tracks) dmpq tracks k.
Proof.
  (* track 1: 600000 at tick 960; track 2: 600000 at 240 -- a repeat of the value read last, but a change at its
     tick -- and 250000 at 480 *)
  exists 480, 500000, [[(960, Tempo 600000)]; [(240, Tempo 600000); (240, Tempo 250000); (0, NoteOn 0 60 1); (960, NoteOff 0 60 0)]], 1440.
  split; [reflexivity|]. split; [lia|]. apply qneq_by_bool. vm_compute. reflexivity.
Qed.
Lemma tempo_reading_order_refuted_lemma : exists ppq dmpq tracks k,
  nonneg_deltas tracks = true /\ 0 <= k /\ differs_at ppq (tempo_reading_order dmpq tracks) dmpq tracks k.
Proof.
  exists 480, 500000, fx_tracks, 1000. split; [reflexivity|]. split; [lia|].
  apply qneq_by_bool. vm_compute. reflexivity.
Qed.

(* what the checker establishes for a compared file: every observed time is, up to the float tolerance, the
   integral of the tempo changes of all tracks in tick order -- in both merge modes *)
Lemma check_anyfile_sound_lemma ppq dmpq tracks obs_u obs_m :
  check_anyfile (ppq, dmpq, tracks, obs_u, obs_m) = true ->
  forall x, In x (obs_u ++ obs_m) -> 0 <= fst x ->
    q_close9 (seconds_spec ppq (file_tempo_map dmpq tracks) (fst x)) (snd x) = true.
Proof.
  unfold check_anyfile. intros H x Hx H0.
  apply andb_prop in H as [H _]. apply andb_prop in H as [H Hm]. apply andb_prop in H as [Hn Hu].
  destruct (load_file_seconds_lemma ppq dmpq false tracks (fst x) Hn H0) as [_ <-].
  rewrite forallb_forall in Hu, Hm. apply in_app_or in Hx as [Hx|Hx]; [apply Hu|apply Hm]; exact Hx.
Qed.

(* =====================================================================================
   the notes of ANY file whose (channel, pitch) keys live in one track each: reading the merged track pairs exactly
   the notes the tracks pair one by one *)
Lemma note_keys_undelta : forall l t, note_keys (undelta t l) = note_keys l.
Proof. induction l as [|[d m] r IH]; intros t; [reflexivity|]. cbn [undelta note_keys]. rewrite IH. reflexivity. Qed.

Lemma proj_nokey k : forall l, zmem k (note_keys l) = false -> proj k l = [].
Proof.
  induction l as [|[t m] r IH]; intros H; [reflexivity|]. unfold proj in *. cbn [filter snd]. cbn [note_keys] in H.
  destruct m; cbn [msg_key is_note_ev] in *; try (apply IH; exact H);
    cbn [zmem] in H; apply orb_false_iff in H as [H1 H2];
    (destruct (note_hash ch pitch =? k) eqn:E; [lia|apply IH; exact H2]).
Qed.

Lemma undelta_from : forall l t, Forall (fun e : Z * msg => 0 <= fst e) l ->
  Forall (fun e : Z * msg => t <= fst e) (undelta t l) /\ StronglySorted (le_of (@tick_leb msg)) (undelta t l).
Proof.
  induction l as [|[d m] r IH]; intros t H; [split; constructor|].
  inversion H as [|? ? Hd Hr]; subst. cbn [fst] in Hd. cbn [undelta].
  destruct (IH (t + d) Hr) as (F & S). split.
  - constructor; [cbn [fst]; lia|]. eapply Forall_impl; [|exact F]. cbn beta. intros e He. lia.
  - constructor; [exact S|]. eapply Forall_impl; [|exact F]. intros e He. cbn beta in He. unfold le_of, tick_leb. cbn [fst]. apply Z.leb_le. exact He.
Qed.

Lemma StronglySorted_filter' {A} (R : A -> A -> Prop) (p : A -> bool) l : StronglySorted R l -> StronglySorted R (filter p l).
Proof.
  induction 1 as [|x r S IH F]; [constructor|]. cbn [filter]. destruct (p x); [|exact IH].
  constructor; [exact IH|]. apply Forall_forall. intros y Hy. apply filter_In in Hy as [Hy _].
  rewrite Forall_forall in F. auto.
Qed.

Lemma proj_track_sorted k t : Forall (fun e : Z * msg => 0 <= fst e) t ->
  sort_by_tick (proj k (undelta 0 t)) = proj k (undelta 0 t).
Proof.
  intros H. unfold sort_by_tick. apply (sort_le_id (@tick_leb msg)).
  unfold proj. apply StronglySorted_filter'. apply (undelta_from t 0 H).
Qed.

Lemma filter_flat_map' {A B} (p : B -> bool) (g : A -> list B) l : filter p (flat_map g l) = flat_map (fun x => filter p (g x)) l.
Proof. induction l as [|x r IH]; [reflexivity|]. cbn [flat_map]. rewrite filter_app, IH. reflexivity. Qed.

Lemma flat_map_all_nil {A B} (g : A -> list B) l : (forall x, In x l -> g x = []) -> flat_map g l = [].
Proof. induction l as [|x r IH]; intros H; [reflexivity|]. cbn [flat_map]. rewrite (H x (or_introl eq_refl)), IH; [reflexivity|]. intros y Hy. apply H. right. exact Hy. Qed.

Lemma merged_key k : forall ts, nonneg_deltas ts = true -> keys_exclusive ts = true ->
  pair_notes [] (sort_by_tick (flat_map (fun t => proj k (undelta 0 t)) ts))
  = flat_map (fun t => pair_notes [] (proj k (undelta 0 t))) ts.
Proof.
  induction ts as [|t r IH]; intros Hn Hx; [reflexivity|].
  cbn [nonneg_deltas forallb] in Hn. apply andb_prop in Hn as [Hn0 Hn]. fold (nonneg_deltas r) in Hn.
  cbn [keys_exclusive] in Hx. apply andb_prop in Hx as [Hx0 Hx].
  cbn [flat_map]. destruct (zmem k (note_keys t)) eqn:Ek.
  - (* the key lives in this track: no other track has it *)
    assert (G : forall u, In u r -> proj k (undelta 0 u) = []).
    { intros u Hu. apply proj_nokey. rewrite note_keys_undelta.
      rewrite forallb_forall in Hx0. specialize (Hx0 u Hu). rewrite forallb_forall in Hx0.
      apply zmem_In in Ek. specialize (Hx0 k Ek). destruct (zmem k (note_keys u)); [discriminate|reflexivity]. }
    rewrite (flat_map_all_nil _ r G), app_nil_r.
    rewrite (flat_map_all_nil (fun t0 => pair_notes [] (proj k (undelta 0 t0))) r), app_nil_r.
    + rewrite proj_track_sorted; [reflexivity|].
      rewrite forallb_forall in Hn0. apply Forall_forall. intros e He. specialize (Hn0 e He). lia.
    + intros u Hu. rewrite (G u Hu). reflexivity.
  - rewrite (proj_nokey k (undelta 0 t)) by (rewrite note_keys_undelta; exact Ek).
    cbn [app pair_notes]. apply IH; assumption.
Qed.

Lemma load_merge_notes_lemma tracks : nonneg_deltas tracks = true -> keys_exclusive tracks = true ->
  Permutation (file_notes_merged tracks) (file_notes_separate tracks).
Proof.
  intros Hn Hx. unfold file_notes_merged, file_notes_separate.
  apply (filter_perm_perm key_of). intros k.
  change (fun x : lnote => key_of x =? k) with (on_key k).
  rewrite pair_notes_key. change (restrict [] k) with (@nil (Z * (Z * Z))).
  rewrite proj_merge, filter_flat_map'.
  rewrite (flat_map_ext _ (fun t => pair_notes [] (proj k (undelta 0 t)))).
  - rewrite merged_key by assumption. reflexivity.
  - intros t. rewrite pair_notes_key. reflexivity.
Qed.

(* the loaded parts: the single part of the merged reading holds, in id order, a permutation of the notes of all the
   parts of the unmerged reading (parts dropped for having no notes, controls and programs hold no notes) *)
Lemma lp_notes_dropped p : nonempty_part p = false -> lp_notes p = [].
Proof. unfold nonempty_part. destruct (lp_notes p); [reflexivity|discriminate]. Qed.

Lemma flat_map_filter_nil {A B} (p : A -> bool) (g : A -> list B) l :
  (forall x, p x = false -> g x = []) -> flat_map g (filter p l) = flat_map g l.
Proof.
  intros H. induction l as [|x r IH]; [reflexivity|]. cbn [filter flat_map]. destruct (p x) eqn:E.
  - cbn [flat_map]. rewrite IH. reflexivity.
  - rewrite (H x E), IH. reflexivity.
Qed.

Lemma number_from_notes : forall (l : list (list (Z * msg))) k,
  flat_map lp_notes (map (fun x => read_track (fst x) (snd x)) (number_from k l)) = flat_map (fun t => sort_notes (pair_notes [] t)) l.
Proof. induction l as [|t r IH]; intros k; [reflexivity|]. cbn [number_from map flat_map read_track lp_notes fst snd]. rewrite IH. reflexivity. Qed.

Lemma Permutation_flat_map_pw' {A B} (F G : A -> list B) l :
  (forall x, Permutation (F x) (G x)) -> Permutation (flat_map F l) (flat_map G l).
Proof. intros H. induction l as [|x r IH]; [constructor|]. cbn [flat_map]. apply Permutation_app; [apply H|exact IH]. Qed.

Lemma load_parts_merge_notes_lemma dmpq tracks : nonneg_deltas tracks = true -> keys_exclusive tracks = true ->
  Permutation (flat_map lp_notes (fst (load dmpq true tracks))) (flat_map lp_notes (fst (load dmpq false tracks))).
Proof.
  intros Hn Hx. unfold load. cbn [fst].
  rewrite !(flat_map_filter_nil nonempty_part lp_notes) by exact lp_notes_dropped.
  rewrite !number_from_notes. cbn [flat_map]. rewrite app_nil_r.
  unfold sort_notes at 1. rewrite sort_le_perm.
  fold (file_notes_merged tracks). rewrite (load_merge_notes_lemma tracks Hn Hx).
  unfold file_notes_separate. rewrite flat_map_map'.
  apply Permutation_flat_map_pw'. intros t. symmetry. unfold sort_notes. apply sort_le_perm.
Qed.

(* non-vacuity: fx_tracks has its two keys in two tracks; a zero-length note and a re-strike at the tick a note ends *)
Definition fy_tracks : list (list (Z * msg)) :=
  [[(0, NoteOn 0 60 64); (480, NoteOff 0 60 0); (0, NoteOn 0 60 30); (0, NoteOn 0 60 0); (0, EndOfTrack)];
   [(240, Tempo 250000); (0, NoteOn 1 60 70); (240, NoteOn 1 60 0); (0, NoteOn 0 61 9); (100, NoteOff 0 61 0)]].
Lemma load_merge_notes_example_lemma :
  nonneg_deltas fy_tracks = true /\ keys_exclusive fy_tracks = true /\
  file_notes_separate fy_tracks = [mkLN 60 64 0 0 480; mkLN 60 30 0 480 480; mkLN 60 70 1 240 480; mkLN 61 9 0 480 580] /\
  file_notes_merged fy_tracks = [mkLN 60 64 0 0 480; mkLN 60 30 0 480 480; mkLN 60 70 1 240 480; mkLN 61 9 0 480 580].
Proof. vm_compute. repeat split; reflexivity. Qed.

(* with an unstable merge (messages of one tick reversed) a zero-length note is lost *)
Lemma merge_unstable_refuted_lemma : exists tracks,
  nonneg_deltas tracks = true /\ keys_exclusive tracks = true /\
  ~ Permutation (pair_notes [] (undelta 0 (merge_tracks_unstable tracks))) (file_notes_separate tracks).
Proof.
  exists [[(10, NoteOn 0 60 64); (0, NoteOff 0 60 0)]; [(0, NoteOn 1 62 1); (5, NoteOff 1 62 0)]].
  split; [reflexivity|]. split; [reflexivity|]. intros P. apply Permutation_length in P. vm_compute in P. discriminate.
Qed.
(* without the hypothesis on the keys the statement fails: one key sounding in two tracks at once *)
Lemma load_merge_notes_needs_exclusive_lemma : exists tracks,
  nonneg_deltas tracks = true /\ keys_exclusive tracks = false /\
  ~ Permutation (file_notes_merged tracks) (file_notes_separate tracks).
Proof.
  exists [[(0, NoteOn 0 60 64); (480, NoteOff 0 60 0)]; [(240, NoteOn 0 60 50); (480, NoteOff 0 60 0)]].
  split; [reflexivity|]. split; [reflexivity|]. intros P. apply Permutation_length in P. vm_compute in P. discriminate.
Qed.

Lemma check_anyfile_notes_sound_lemma tracks obs_u obs_m :
  check_anyfile_notes (tracks, obs_u, obs_m) = true ->
  Permutation (file_notes_merged tracks) (file_notes_separate tracks).
Proof.
  unfold check_anyfile_notes. intros H. repeat (apply andb_prop in H as [H ?]).
  apply load_merge_notes_lemma; assumption.
Qed.
