(* C14 -- proofs about Model/C14.v *)
From PV Require Import Lib.Base Lib.Round Model.C12 Model.C14.
From Coq Require Import QArith Qminmax Qabs Lqa.
#[local] Open Scope Q_scope.

Lemma no_pedal_identity_lemma thr ns cs :
  pedal_events cs = [] -> sound_offs thr ns cs = map n_off ns.
Proof. intros H. unfold sound_offs, sorted_pedal. rewrite H. reflexivity. Qed.
