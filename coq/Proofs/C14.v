(* C14 -- setter, note array, from_note_array, track renumbering; examples *)
From PV Require Import Lib.Base Lib.Round Model.C12 Model.C14 Model.C14_Spec
  Proofs.C14_lib Proofs.C14_pedal Proofs.C14_so Proofs.C14_spec.
From Coq Require Import QArith Qminmax Qabs Lqa Sorted Permutation.
#[local] Open Scope Q_scope.

(* ---- the setter recomputes: the sound_off column depends only on notes, controls and the
        last assigned threshold, whatever was assigned before *)
Lemma set_threshold_keeps p t :
  p_notes (set_threshold p t) = p_notes p /\ p_ctrls (set_threshold p t) = p_ctrls p /\ p_thr (set_threshold p t) = t.
Proof. unfold set_threshold. destruct (p_notes p) eqn:E; simpl; auto. Qed.

Lemma sound_offs_nil thr cs : sound_offs thr [] cs = [].
Proof. unfold sound_offs. destruct (sorted_pedal cs); reflexivity. Qed.

Lemma set_threshold_so p t :
  p_so (set_threshold p t) = match p_notes p with [] => p_so p | _ => sound_offs t (p_notes p) (p_ctrls p) end.
Proof. unfold set_threshold. destruct (p_notes p); reflexivity. Qed.

Lemma new_part_so thr ns cs : p_so (new_part thr ns cs) = sound_offs thr ns cs.
Proof.
  unfold new_part. rewrite set_threshold_so. simpl. destruct ns; [|reflexivity].
  rewrite sound_offs_nil. reflexivity.
Qed.

Lemma fold_set_threshold_keeps ts : forall p,
  p_notes (fold_left set_threshold ts p) = p_notes p /\ p_ctrls (fold_left set_threshold ts p) = p_ctrls p /\
  (p_notes p = [] -> p_so (fold_left set_threshold ts p) = p_so p).
Proof.
  induction ts as [|t r IH]; intros p; simpl; auto.
  destruct (IH (set_threshold p t)) as (A & B & C).
  destruct (set_threshold_keeps p t) as (A' & B' & _).
  rewrite A, B, A', B'. repeat split; auto.
  intros E. rewrite C by congruence. rewrite set_threshold_so, E. reflexivity.
Qed.

Lemma setter_recomputes_lemma thr0 ns cs ts t :
  let p := fold_left set_threshold (ts ++ [t]) (new_part thr0 ns cs) in
  p_so p = sound_offs t ns cs /\ p_thr p = t /\ p_notes p = ns /\ p_ctrls p = cs.
Proof.
  simpl. rewrite fold_left_app. simpl.
  set (q := fold_left set_threshold ts (new_part thr0 ns cs)).
  destruct (fold_set_threshold_keeps ts (new_part thr0 ns cs)) as (A & B & C). fold q in A, B, C.
  assert (An : p_notes (new_part thr0 ns cs) = ns).
  { unfold new_part. destruct (set_threshold_keeps (mkPart ns cs thr0 (map n_off ns)) thr0) as (X & _). exact X. }
  assert (Ac : p_ctrls (new_part thr0 ns cs) = cs).
  { unfold new_part. destruct (set_threshold_keeps (mkPart ns cs thr0 (map n_off ns)) thr0) as (_ & X & _). exact X. }
  destruct (set_threshold_keeps q t) as (A' & B' & C').
  rewrite A', B', C', A, B, An, Ac. repeat split; auto.
  rewrite set_threshold_so, A, B, An, Ac.
  destruct ns as [|n r]; [|reflexivity].
  rewrite C by exact An. rewrite new_part_so. rewrite !sound_offs_nil. reflexivity.
Qed.

(* ---- note array: seconds and ticks agree under ppq / mpq *)
Lemma onset_tick_agrees_lemma ppq mpq x :
  Qabs (inject_Z (1000000 * ppq) * r_on (na_row ppq mpq x) / inject_Z mpq
        - inject_Z (r_on_tick (na_row ppq mpq x))) <= 1 # 2.
Proof. unfold na_row, sec_to_tick. cbn [r_on r_on_tick]. apply round_half_even_near. Qed.

Lemma duration_tick_agrees_lemma ppq mpq x :
  snd x == n_off (fst x) ->
  Qabs (inject_Z (1000000 * ppq) * r_dur (na_row ppq mpq x) / inject_Z mpq
        - inject_Z (r_dur_tick (na_row ppq mpq x))) <= 1.
Proof.
  intros E. unfold na_row, sec_to_tick. cbn [r_dur r_dur_tick].
  set (K := inject_Z (1000000 * ppq)). set (M := inject_Z mpq).
  pose proof (round_half_even_near (K * n_on (fst x) / M)) as Ha.
  pose proof (round_half_even_near (K * n_off (fst x) / M)) as Hb.
  apply Qabs_Qle_condition in Ha. apply Qabs_Qle_condition in Hb. apply Qabs_Qle_condition.
  unfold half in *. unfold Z.sub. rewrite inject_Z_plus, inject_Z_opp. rewrite E.
  unfold Qdiv in *.
  set (ta := inject_Z (round_half_even (K * n_on (fst x) * / M))) in *.
  set (tb := inject_Z (round_half_even (K * n_off (fst x) * / M))) in *.
  set (a := K * n_on (fst x) * / M) in *. set (b := K * n_off (fst x) * / M) in *.
  assert (R : K * (n_off (fst x) - n_on (fst x)) * / M == b - a) by (unfold a, b; ring).
  rewrite R. split; lra.
Qed.

(* ---- from_note_array (note_array p) keeps pitch, velocity, onset and sounding end *)
Lemma new_part_no_ctrl thr ns : p_so (new_part thr ns []) = map n_off ns /\ p_notes (new_part thr ns []) = ns.
Proof.
  split.
  - rewrite new_part_so. apply no_pedal_identity_lemma. reflexivity.
  - unfold new_part. destruct (set_threshold_keeps (mkPart ns [] thr (map n_off ns)) thr) as (X & _). exact X.
Qed.

Lemma from_note_array_roundtrip_lemma ppq mpq p :
  List.length (p_notes p) = List.length (p_so p) ->
  let q := from_note_array (note_array ppq mpq p) in
  Forall2 (fun n m => n_pitch m = n_pitch n /\ n_vel m = n_vel n /\ n_on m = n_on n) (p_notes p) (p_notes q) /\
  Forall2 (fun so so' => so' == so) (p_so p) (p_so q).
Proof.
  intros HL. simpl. unfold from_note_array, note_array.
  destruct (new_part_no_ctrl 64 (map note_of_row (map (na_row ppq mpq) (combine (p_notes p) (p_so p))))) as [E1 E2].
  rewrite E1, E2. clear E1 E2.
  revert HL. generalize (p_so p) as so. generalize (p_notes p) as ns.
  induction ns as [|n r IH]; intros [|s so] HL; simpl in HL; try discriminate; simpl.
  - split; constructor.
  - destruct (IH so) as [A B]; [lia|]. split; constructor; auto.
    unfold na_row, note_of_row. simpl. ring.
Qed.

(* ---- track renumbering *)
Lemma pair_eqb_eq a b : pair_eqb a b = true <-> a = b.
Proof.
  unfold pair_eqb. destruct a, b; simpl. rewrite andb_true_iff, !Z.eqb_eq. split.
  - intros [-> ->]. reflexivity.
  - intros H. inversion H. auto.
Qed.

Lemma index_of_pair_nth a l k : index_of_pair a l = Some k ->
  (0 <= k < Z.of_nat (List.length l))%Z /\ nth_error l (Z.to_nat k) = Some a.
Proof.
  revert k. induction l as [|b r IH]; intros k H; simpl in H; [discriminate|].
  destruct (pair_eqb a b) eqn:E.
  - inversion H; subst. apply pair_eqb_eq in E. subst. simpl. split; [lia|reflexivity].
  - destruct (index_of_pair a r) as [k'|] eqn:E'; [|discriminate]. inversion H; subst.
    destruct (IH k' eq_refl) as [A B]. split.
    + simpl List.length. lia.
    + replace (Z.to_nat (k' + 1)) with (S (Z.to_nat k')) by lia. exact B.
Qed.

Lemma index_of_pair_In a l : In a l -> exists k, index_of_pair a l = Some k.
Proof.
  induction l as [|b r IH]; intros H; [destruct H|]. simpl.
  destruct (pair_eqb a b) eqn:E; [eauto|].
  destruct H as [->|H].
  - assert (pair_eqb a a = true) by (apply pair_eqb_eq; reflexivity). congruence.
  - destruct (IH H) as [k ->]. eauto.
Qed.

Lemma mem_pair_In a l : mem_pair a l = true <-> In a l.
Proof.
  induction l as [|b r IH]; simpl; [split; [discriminate|tauto]|].
  rewrite orb_true_iff, IH, pair_eqb_eq. split; intros [H|H]; auto.
Qed.

Lemma dedup_In a l : forall seen, In a l -> In a (dedup l seen) \/ In a seen.
Proof.
  induction l as [|b r IH]; intros seen H; [destruct H|]. simpl.
  destruct (mem_pair b seen) eqn:E.
  - destruct H as [->|H]; [right; apply mem_pair_In; exact E|]. apply IH; exact H.
  - destruct H as [->|H]; [left; left; reflexivity|].
    destruct (IH (b :: seen) H) as [H'|[->|H']]; auto; left; [right|left]; auto.
Qed.

Lemma track_renumber_lemma pairs :
  (forall a, In a pairs -> exists k, track_map pairs a = Some k /\ (0 <= k < Z.of_nat (List.length (track_ids pairs)))%Z) /\
  (forall a b k, track_map pairs a = Some k -> track_map pairs b = Some k -> a = b).
Proof.
  unfold track_map. split.
  - intros a H. destruct (dedup_In a pairs [] H) as [H'|[]].
    destruct (index_of_pair_In a _ H') as [k Hk]. exists k. split; auto.
    apply index_of_pair_nth in Hk. tauto.
  - intros a b k Ha Hb. apply index_of_pair_nth in Ha as [_ Ha]. apply index_of_pair_nth in Hb as [_ Hb]. congruence.
Qed.

(* the form stated in Props: every pair gets a number and different pairs get different numbers
   (which numbers are used is not part of the property) *)
Lemma track_renumber_total_injective pairs :
  (forall a, In a pairs -> exists k, track_map pairs a = Some k) /\
  (forall a b k, track_map pairs a = Some k -> track_map pairs b = Some k -> a = b).
Proof.
  destruct (track_renumber_lemma pairs) as [A B]. split; [|exact B].
  intros a Ha. destruct (A a Ha) as (k & E & _). exists k. exact E.
Qed.

(* the closing moment used by the checkers is the one of the element form of sound_offs *)
Lemma closing_time_is_closing ns cs : closing_time ns cs = closing ns cs.
Proof. reflexivity. Qed.

(* ---- the hypotheses of sound_off_is_spec are satisfiable by a state in which the pedal
        extends one note up to a re-strike and another up to the pedal release *)
Definition ex_notes : list note := [mkNote 60 64 0 1; mkNote 60 70 3 4; mkNote 62 50 (1#2) 6].
Definition ex_ctrls : list ctrl := [mkCtrl 64 5 0; mkCtrl 7 2 100; mkCtrl 64 (1#2) 100].

Lemma example_lemma :
  sound_offs 64 ex_notes ex_ctrls = [3; 5; 6] /\ sound_offs 100 ex_notes ex_ctrls = [1; 4; 6] /\
  distinct_pedal_times ex_ctrls /\ no_zero_length_tie ex_notes /\ released_after_onset ex_notes.
Proof.
  split; [vm_compute; reflexivity|]. split; [vm_compute; reflexivity|]. split; [|split].
  - unfold distinct_pedal_times. simpl. constructor; [|constructor; constructor].
    constructor; [|constructor]. simpl. intros C. discriminate C.
  - intros i n j m Hij Hi Hj Hp Hz. exfalso.
    destruct i as [|[|[|i]]]; simpl in Hi; inversion Hi; subst; simpl in Hz; try discriminate Hz.
    destruct i; discriminate.
  - intros n [<-|[<-|[<-|[]]]]; simpl; discriminate.
Qed.
