(* C10 -- proofs about histories of the composite map objects (Model/C10_Obj.v: clef_map's collator, metrical_position_map's
   int_interp1d): for ANY history of edits, map requests, calls and in-place writes into returned arrays
     - a call through a map object returns what the closure built from the part AS IT WAS WHEN THE OBJECT WAS REQUESTED returns;
     - the arrays the caller holds are independent values: array k holds what call k returned with the caller's own writes into
       k applied -- later calls, writes into other arrays, edits and other map objects never change it;
     - a map requested now answers for the part as it is now (composed with impl_clef_spec / impl_metpos_spec: the clef in force
       per staff / the position in the measure).
   The buffer-sharing and the memoising variants are refuted. *)
From PV Require Import Lib.Base Lib.Round Model.C02 Model.C10 Model.C10_Impl Model.C10_Hist Model.C10_Obj Proofs.C10 Proofs.C10_Impl Proofs.C10_Hist.
#[local] Open Scope Z_scope.

Lemma nth_error_seq' : forall n s k b, nth_error (seq s n) k = Some b -> b = (s + k)%nat /\ (k < n)%nat.
Proof.
  induction n as [|n IH]; intros s k b H.
  - destruct k; discriminate.
  - destruct k; simpl in H.
    + inversion H. lia.
    + apply IH in H. lia.
Qed.

Lemma upd_length {X} (f : X -> X) : forall l n, List.length (upd n f l) = List.length l.
Proof. induction l as [|x r IH]; destruct n; simpl; auto. Qed.

Lemma upd_map {X Y} (g : X -> Y) (f : X -> X) (f' : Y -> Y) : (forall x, g (f x) = f' (g x)) ->
  forall l n, map g (upd n f l) = upd n f' (map g l).
Proof. intros H. induction l as [|x r IH]; destruct n; simpl; auto; rewrite ?H, ?IH; reflexivity. Qed.

Lemma upd_ge {X} (f : X -> X) : forall l n, (List.length l <= n)%nat -> upd n f l = l.
Proof. induction l as [|x r IH]; destruct n; simpl; intros; auto; [lia|]. rewrite IH; auto. lia. Qed.

Lemma held_seq {X Y} (f : X -> Y) : forall l pre,
  map (fun b => option_map f (nth_error (pre ++ l) b)) (seq (List.length pre) (List.length l)) = map Some (map f l).
Proof.
  induction l as [|a l IH]; intros pre; [reflexivity|].
  simpl. rewrite nth_error_app2, Nat.sub_diag by lia. simpl. f_equal.
  specialize (IH (pre ++ [a])). rewrite <- app_assoc in IH. simpl in IH.
  rewrite app_length in IH. simpl in IH. rewrite Nat.add_1_r in IH. exact IH.
Qed.

Section ObjProofs.
Context {P T R V : Type}.
Variable build : P -> T.
Variable ans : T -> query -> R.
Variable wr : V -> R -> R.
Variable same_shape : R -> R -> bool.

Notation orun' := (orun build ans wr same_shape false false).
Notation oend' := (oend build ans wr same_shape false false).

(* invariant of the code as it is: every map object holds what was built from the part when it was requested; every
   returned array has its own buffer *)
Theorem obj_history_gen : forall ops (s : ostate P T R) gets,
  o_objs s = map build gets -> o_arrs s = seq 0 (List.length (o_bufs s)) ->
  orun' s ops = ospec_obs build ans (o_part s) gets ops /\
  oheld (oend' s ops) = map Some (ospec_held build ans wr (o_part s) gets (map snd (o_bufs s)) ops).
Proof.
  induction ops as [|o r IH]; intros s gets Hm Ha.
  - split; [reflexivity|]. simpl. unfold oheld. rewrite Ha. apply (held_seq snd (o_bufs s) []).
  - destruct o as [p| |i q|k v]; simpl.
    + apply (IH (mk_ostate p (o_memo s) (o_objs s) (o_bufs s) (o_arrs s)) gets); auto.
    + apply (IH (mk_ostate (o_part s) None (o_objs s ++ [build (o_part s)]) (o_bufs s) (o_arrs s)) (gets ++ [o_part s])); simpl; auto.
      rewrite Hm, map_app. reflexivity.
    + rewrite Hm, nth_error_map'. destruct (nth_error gets i) as [pi|]; simpl.
      * destruct (IH (mk_ostate (o_part s) (o_memo s) (map build gets) (o_bufs s ++ [(i, ans (build pi) q)])
                                (o_arrs s ++ [List.length (o_bufs s)])) gets) as [H1 H2]; simpl; auto.
        { rewrite Ha, app_length. simpl. rewrite Nat.add_1_r, seq_S. reflexivity. }
        simpl in H1, H2. rewrite map_app in H2. simpl in H2. rewrite <- Hm in *. split; [f_equal; exact H1|exact H2].
      * apply IH; auto.
    + destruct (nth_error (o_arrs s) k) as [b|] eqn:E; simpl.
      * rewrite Ha in E. apply nth_error_seq' in E. destruct E as [Eb Hk]. simpl in Eb. subst b.
        destruct (IH (mk_ostate (o_part s) (o_memo s) (o_objs s) (upd k (fun x => (fst x, wr v (snd x))) (o_bufs s)) (o_arrs s)) gets)
          as [H1 H2]; simpl; auto.
        { rewrite upd_length. exact Ha. }
        simpl in H1, H2. rewrite (upd_map snd _ (wr v)) in H2 by reflexivity. split; assumption.
      * apply nth_error_None in E. rewrite Ha, seq_length in E.
        rewrite upd_ge by (rewrite map_length; exact E). apply IH; auto.
Qed.

Theorem obj_history_spec : forall p ops,
  orun' (oinit p) ops = ospec_obs build ans p [] ops /\
  oheld (oend' (oinit p) ops) = map Some (ospec_held build ans wr p [] [] ops).
Proof. intros. apply (obj_history_gen ops (oinit p) []); reflexivity. Qed.

Lemma ospec_app_fresh : forall (ops : list (oop P V)) p gets q,
  ospec_obs build ans p gets (ops ++ [OGet; OQuery (List.length gets + ogets ops) q]) =
  ospec_obs build ans p gets ops ++ [ans (build (ocur p ops)) q].
Proof.
  induction ops as [|o r IH]; intros p gets q.
  - simpl. rewrite Nat.add_0_r, nth_error_app2, Nat.sub_diag; auto.
  - destruct o as [p'| |i q'|k v]; simpl.
    + apply IH.
    + replace (List.length gets + S (ogets r))%nat with (List.length (gets ++ [p]) + ogets r)%nat
        by (rewrite app_length; simpl; lia).
      apply IH.
    + destruct (nth_error gets i); simpl; rewrite IH; reflexivity.
    + apply IH.
Qed.

(* observation = f (current state) *)
Theorem obj_history_current : forall p ops q,
  orun' (oinit p) (ops ++ [OGet; OQuery (ogets ops) q]) = orun' (oinit p) ops ++ [ans (build (ocur p ops)) q].
Proof.
  intros. rewrite (proj1 (obj_history_spec p _)), (proj1 (obj_history_spec p ops)). apply (ospec_app_fresh ops p [] q).
Qed.

(* a history in which the caller writes nothing: every array it holds at the end is what the call returned -- no later
   call (of any map object), no edit changes a returned array *)
Lemma ospec_held_no_writes : forall ops p gets arrs, no_writes ops = true ->
  ospec_held build ans wr p gets arrs ops = arrs ++ ospec_obs build ans p gets ops.
Proof.
  induction ops as [|o r IH]; intros p gets arrs H; simpl.
  - rewrite app_nil_r. reflexivity.
  - destruct o as [p'| |i q|k v]; simpl in H; try discriminate; try (apply IH; exact H).
    destruct (nth_error gets i); [|apply IH; exact H].
    rewrite IH by exact H. rewrite <- app_assoc. reflexivity.
Qed.

Theorem obj_held_unchanged : forall p ops, no_writes ops = true ->
  oheld (oend' (oinit p) ops) = map Some (orun' (oinit p) ops).
Proof.
  intros. rewrite (proj2 (obj_history_spec p ops)), (proj1 (obj_history_spec p ops)).
  rewrite ospec_held_no_writes by assumption. reflexivity.
Qed.

End ObjProofs.

(* ---- the two composite maps: what the closures compute is the code-level map of Model/C10_Impl.v *)
Lemma clef_ans_impl : forall cp q, clef_ans (clef_build cp) q = impl_clef cp q.
Proof. intros. unfold clef_ans, clef_build, impl_clef. rewrite map_map. reflexivity. Qed.

Lemma mp_ans_impl : forall cp q, mp_ans (mp_build cp) q = impl_metpos cp q.
Proof.
  intros. unfold mp_ans, mp_build, impl_metpos, impl_metpos_of.
  destruct (List.length (map fst (c_meas cp)) <? 2)%nat; reflexivity.
Qed.

(* after ANY history, clef_map requested now: one result per staff 1..number_of_staves of the part as it is now, each the
   clef in force on that staff (clef_map_spec says which that is) *)
Theorem clef_history_current : forall cp ops q, q_ge (c_first (ocur cp ops)) q ->
  orun clef_build clef_ans clef_wr clef_shape false false (oinit cp) (ops ++ [OGet; OQuery (ogets ops) q]) =
  orun clef_build clef_ans clef_wr clef_shape false false (oinit cp) ops ++
    [map (fun s => lift (clef_staff (ocur cp ops) s) q) (zrange 1 (Z.to_nat (c_nstaves (ocur cp ops))))].
Proof.
  intros. rewrite obj_history_current. f_equal. f_equal. rewrite clef_ans_impl.
  apply (Proofs.C10_Impl.impl_clef_spec (ocur cp ops) q H).
Qed.

(* ... metrical_position_map requested now: (t - barline, bar length) of the part as it is now *)
Theorem metpos_history_current : forall cp ops q k0 v0 r, meas_wf (c_meas (ocur cp ops)) ->
  meas_tbl (ocur cp ops) = (k0, v0) :: r -> q_ge k0 q ->
  orun mp_build mp_ans mp_wr res_same_shape false false (oinit cp) (ops ++ [OGet; OQuery (ogets ops) q]) =
  orun mp_build mp_ans mp_wr res_same_shape false false (oinit cp) ops ++ [lift (metpos (ocur cp ops)) q].
Proof.
  intros. rewrite obj_history_current. f_equal. f_equal. rewrite mp_ans_impl.
  apply (Proofs.C10_Impl.impl_metpos_spec (ocur cp ops) q k0 v0 r); assumption.
Qed.

(* ---- non-vacuity and the variants *)
Definition ex10_3staves : cpart :=
  mk_cpart (c_part ex10) false (c_kss ex10) 3 (c_clefs ex10) (c_meas ex10).

(* a history with every kind of step on the worked part: scalar and vector calls, a write, an edit (a third staff), a second
   map object; the first array holds the caller's value, the others what was returned *)
Example obj_history_example :
  let ops := [OGet; OQuery 0 (QScalar 2); OQuery 0 (QVec [25; 2]); OWrite 0 (-7); OEdit ex10_3staves; OGet;
              OQuery 1 (QScalar 2); OQuery 0 (QScalar 2)] in
  orun clef_build clef_ans clef_wr clef_shape false false (oinit ex10) ops =
    [[RScalar (Some (1, 0, 2, 0)); RScalar (Some (2, 6, 0, 0))];
     [RVec [Some (1, 1, 4, 0); Some (1, 0, 2, 0)]; RVec [Some (2, 6, 0, 0); Some (2, 6, 0, 0)]];
     [RScalar (Some (1, 0, 2, 0)); RScalar (Some (2, 6, 0, 0)); RScalar (Some (3, 6, 0, 0))];
     [RScalar (Some (1, 0, 2, 0)); RScalar (Some (2, 6, 0, 0))]] /\
  nth 0 (oheld (oend clef_build clef_ans clef_wr clef_shape false false (oinit ex10) ops)) None =
    Some [RScalar (Some (-7, -7, -7, -7)); RScalar (Some (-7, -7, -7, -7))] /\
  orun mp_build mp_ans mp_wr res_same_shape false false (oinit ex10) [OGet; OQuery 0 (QScalar 2); OQuery 0 (QVec [25; 2])] =
    [RScalar (Some (14, 16)); RVec [Some (5, 16); Some (14, 16)]].
Proof. vm_compute. repeat split; reflexivity. Qed.

(* one output buffer per result shape: the second scalar call overwrites the array the caller got from the first one --
   obj_held_unchanged fails for that variant, and holds for the code as it is *)
Example obj_share_refuted :
  let ops := [OGet; OQuery 0 (QScalar 2); OQuery 0 (QScalar 25)] in
  no_writes ops = true /\
  orun clef_build clef_ans clef_wr clef_shape false true (oinit ex10) ops =
    [[RScalar (Some (1, 0, 2, 0)); RScalar (Some (2, 6, 0, 0))]; [RScalar (Some (1, 1, 4, 0)); RScalar (Some (2, 6, 0, 0))]] /\
  oheld (oend clef_build clef_ans clef_wr clef_shape false true (oinit ex10) ops) =
    [Some [RScalar (Some (1, 1, 4, 0)); RScalar (Some (2, 6, 0, 0))]; Some [RScalar (Some (1, 1, 4, 0)); RScalar (Some (2, 6, 0, 0))]] /\
  oheld (oend clef_build clef_ans clef_wr clef_shape false false (oinit ex10) ops) =
    map Some (orun clef_build clef_ans clef_wr clef_shape false false (oinit ex10) ops).
Proof. vm_compute. repeat split; reflexivity. Qed.

(* what the access captures cached on the part (the list of interpolators, hence the number of staves): the clef map
   requested after a third staff appeared still has two rows *)
Example obj_memo_refuted :
  let ops := [OGet; OQuery 0 (QScalar 2); OEdit ex10_3staves; OGet; OQuery 1 (QScalar 2)] in
  nth 1 (orun clef_build clef_ans clef_wr clef_shape true false (oinit ex10) ops) [] =
    [RScalar (Some (1, 0, 2, 0)); RScalar (Some (2, 6, 0, 0))] /\
  nth 1 (ospec_obs clef_build clef_ans ex10 [] ops) [] =
    [RScalar (Some (1, 0, 2, 0)); RScalar (Some (2, 6, 0, 0)); RScalar (Some (3, 6, 0, 0))] /\
  orun clef_build clef_ans clef_wr clef_shape false false (oinit ex10) ops = ospec_obs clef_build clef_ans ex10 [] ops.
Proof. vm_compute. repeat split; reflexivity. Qed.

(* ---- the four simple maps are objects of the same machine: build = the sample table, ans = the interp1d wrapper.  The
   history machine of Model/C10_Hist.v (which has the view switch of the single-sample branch) and the object machine agree on
   every history, so obj_history_spec / obj_held_unchanged speak about all six maps *)
Lemma hspec_ospec {P A} (rows : P -> list (Z * A)) : forall ops p gets,
  hspec rows p gets ops = ospec_obs rows (@wrap_prev A) p gets (map hop_oop ops).
Proof.
  induction ops as [|o r IH]; intros p gets; [reflexivity|].
  destruct o as [p'| |i q|k v]; simpl; auto.
  destruct (nth_error gets i); simpl; rewrite ?IH; reflexivity.
Qed.

Theorem hist_machines_agree : forall (P A : Type) (rows : P -> list (Z * A)) (shape : res (option A) -> res (option A) -> bool) p ops,
  hrun rows false false (hinit p) ops =
  orun rows (@wrap_prev A) (@fill A) shape false false (oinit p) (map hop_oop ops).
Proof.
  intros. rewrite Proofs.C10_Hist.history_spec.
  rewrite (proj1 (obj_history_spec rows (@wrap_prev A) (@fill A) shape p (map hop_oop ops))).
  apply hspec_ospec.
Qed.

(* the arrays returned by a simple map (time/key signature, measure, measure number) are independent values as well *)
Theorem simple_held_unchanged : forall (P A : Type) (rows : P -> list (Z * A)) shape p (ops : list (hop P A)),
  no_writes (map hop_oop ops) = true ->
  oheld (oend rows (@wrap_prev A) (@fill A) shape false false (oinit p) (map hop_oop ops)) =
  map Some (hrun rows false false (hinit p) ops).
Proof.
  intros. rewrite (hist_machines_agree P A rows shape). apply obj_held_unchanged. assumption.
Qed.
