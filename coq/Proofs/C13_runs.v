(* C13 (round j extension) -- pianoroll_to_notearray on ANY roll: the returned notes are exactly the maximal
   runs of equal non-zero value of the rows (both decoders of the model, i.e. also the code's column scan). *)
From PV Require Import Lib.Base Lib.Round Model.C13 Model.C13_Runs.
From Coq Require Import QArith Qround Qabs Permutation.
From PV Require Import Proofs.C13_lib Proofs.C13 Proofs.C13_round Proofs.C13_scan.
#[local] Open Scope Z_scope.

(* (v, a, b) is a maximal run of the row f of length n *)
Definition maxrun (f : Z -> Z) (n : Z) (v a b : Z) : Prop :=
  0 <= a /\ a < b /\ b <= n /\ v <> 0 /\ (forall i, a <= i < b -> f i = v) /\
  (a = 0 \/ f (a - 1) <> v) /\ (b = n \/ f b <> v).

(* ---------- the run-length step, generalised to every state (j, cur) ---------- *)
Definition okcur (j : Z) (cur : option (Z * Z)) : Prop :=
  match cur with None => True | Some (v0, a0) => v0 <> 0 /\ a0 < j end.

Definition lbnd (f : Z -> Z) (j : Z) (cur : option (Z * Z)) (v a : Z) : Prop :=
  (a = j /\ match cur with None => True | Some (v0, _) => v <> v0 end) \/ (j < a /\ f (a - 1) <> v).

Definition newrun (f : Z -> Z) (j : Z) (n : nat) (cur : option (Z * Z)) (v a b : Z) : Prop :=
  j <= a /\ a < b /\ b <= j + Z.of_nat n /\ v <> 0 /\ (forall i, a <= i < b -> f i = v) /\
  lbnd f j cur v a /\ (b = j + Z.of_nat n \/ f b <> v).

Definition contrun (f : Z -> Z) (j : Z) (n : nat) (cur : option (Z * Z)) (v a b : Z) : Prop :=
  match cur with
  | None => False
  | Some (v0, a0) => v = v0 /\ a = a0 /\ j <= b /\ b <= j + Z.of_nat n /\
                     (forall i, j <= i < b -> f i = v0) /\ (b = j + Z.of_nat n \/ f b <> v0)
  end.

Lemma range_ext (P : Z -> Prop) j b : P j -> (forall i, j + 1 <= i < b -> P i) -> forall i, j <= i < b -> P i.
Proof. intros Hj H i Hi. destruct (Z.eq_dec i j) as [->|N]; [exact Hj | apply H; lia]. Qed.

Lemma rle_in f v a b : forall n j cur, okcur j cur ->
  (In (v, a, b) (rle f n j cur) <-> contrun f j n cur v a b \/ newrun f j n cur v a b).
Proof.
  induction n as [|n IH]; intros j cur Hok.
  - destruct cur as [[v0 a0]|]; cbn [rle In contrun].
    + split.
      * intros [E|[]]. inversion E; subst. left. repeat split; try lia.
      * intros [[-> [-> [H1 [H2 _]]]]|[H1 [H2 [H3 _]]]]; [|lia]. left. f_equal. lia.
    + split; [intros []|]. intros [[]|[H1 [H2 [H3 _]]]]. lia.
  - cbn [rle]. replace (j + Z.of_nat (S n)) with (j + 1 + Z.of_nat n) by lia.
    destruct cur as [[v0 a0]|].
    + destruct Hok as [Hv0 Ha0].
      destruct (f j =? v0) eqn:Ex.
      * (* the run goes on *)
        assert (Fj : f j = v0) by lia.
        rewrite (IH (j + 1) (Some (v0, a0))) by (simpl; lia).
        unfold contrun, newrun, lbnd.
        replace (j + Z.of_nat (S n)) with (j + 1 + Z.of_nat n) by lia.
        split.
        -- intros [[-> [-> [H1 [H2 [H3 H4]]]]]|[H1 [H2 [H3 [H4 [H5 [H6 H7]]]]]]].
           ++ left. repeat split; try lia. apply range_ext; assumption.
           ++ right. repeat split; try lia; try assumption.
              right. destruct H6 as [[-> H6]|[H6 H6']]; [split; [lia|] | split; [lia | exact H6']].
              replace (j + 1 - 1) with j by lia. congruence.
        -- intros [[-> [-> [H1 [H2 [H3 H4]]]]]|[H1 [H2 [H3 [H4 [H5 [H6 H7]]]]]]].
           ++ destruct (Z.eq_dec b j) as [->|Nb].
              ** exfalso. destruct H4 as [H4|H4]; [lia | congruence].
              ** left. repeat split; try lia.
           ++ destruct H6 as [[-> H6]|[H6 H6']].
              ** exfalso. apply H6. rewrite <- Fj. symmetry. apply H5. lia.
              ** right. repeat split; try lia; try assumption.
                 destruct (Z.eq_dec a (j + 1)) as [->|Na].
                 --- left. split; [reflexivity|]. replace (j + 1 - 1) with j in H6' by lia. congruence.
                 --- right. split; [lia | exact H6'].
      * (* the run ends at j *)
        assert (Fj : f j <> v0) by lia.
        cbn [In].
        rewrite (IH (j + 1) (if f j =? 0 then None else Some (f j, j)))
          by (destruct (f j =? 0) eqn:E0; simpl; lia).
        unfold contrun at 2. unfold newrun at 2. unfold lbnd.
        replace (j + Z.of_nat (S n)) with (j + 1 + Z.of_nat n) by lia.
        split.
        -- intros [E|H].
           ++ inversion E; subst. left. repeat split; try lia.
           ++ right. destruct (f j =? 0) eqn:E0.
              ** destruct H as [[]|[H1 [H2 [H3 [H4 [H5 [H6 H7]]]]]]].
                 repeat split; try lia; try assumption.
                 right. split; [lia|]. destruct H6 as [[-> _]|[_ H6]]; [|exact H6].
                 replace (j + 1 - 1) with j by lia. lia.
              ** destruct H as [[-> [-> [H1 [H2 [H3 H4]]]]]|[H1 [H2 [H3 [H4 [H5 [H6 H7]]]]]]].
                 --- repeat split; try lia. apply range_ext; [reflexivity | exact H3].

                 --- repeat split; try lia; try assumption.
                     right. split; [lia|]. destruct H6 as [[-> H6]|[_ H6]]; [|exact H6].
                     replace (j + 1 - 1) with j by lia. congruence.
        -- intros [[-> [-> [H1 [H2 [H3 H4]]]]]|[H1 [H2 [H3 [H4 [H5 [H6 H7]]]]]]].
           ++ left. f_equal. destruct (Z.eq_dec b j) as [->|Nb]; [reflexivity|].
              exfalso. apply Fj. apply H3. lia.
           ++ right. destruct (f j =? 0) eqn:E0.
              ** right. unfold newrun, lbnd.
                 destruct H6 as [[-> H6]|[H6 H6']].
                 --- exfalso. apply H4. rewrite <- (H5 j) by lia. lia.
                 --- repeat split; try lia; try assumption.

              ** destruct H6 as [[-> H6]|[H6 H6']].
                 --- left. unfold contrun. assert (Fv : f j = v) by (apply H5; lia).
                     repeat split; try lia.

                 --- right. unfold newrun, lbnd. repeat split; try lia; try assumption.
                     destruct (Z.eq_dec a (j + 1)) as [->|Na].
                     +++ left. split; [reflexivity|]. replace (j + 1 - 1) with j in H6' by lia. congruence.
                     +++ right. split; [lia | exact H6'].
    + (* no run open *)
      rewrite (IH (j + 1) (if f j =? 0 then None else Some (f j, j)))
        by (destruct (f j =? 0) eqn:E0; simpl; lia).
      unfold contrun at 2. unfold newrun at 2. unfold lbnd.
      replace (j + Z.of_nat (S n)) with (j + 1 + Z.of_nat n) by lia.
      split.
      * intros H. right. destruct (f j =? 0) eqn:E0.
        -- destruct H as [[]|[H1 [H2 [H3 [H4 [H5 [H6 H7]]]]]]].
           repeat split; try lia; try assumption.
           right. split; [lia|]. destruct H6 as [[-> _]|[_ H6]]; [|exact H6].
           replace (j + 1 - 1) with j by lia. lia.
        -- destruct H as [[-> [-> [H1 [H2 [H3 H4]]]]]|[H1 [H2 [H3 [H4 [H5 [H6 H7]]]]]]].
           ++ repeat split; try lia. apply range_ext; [reflexivity | exact H3].

           ++ repeat split; try lia; try assumption.
              right. split; [lia|]. destruct H6 as [[-> H6]|[_ H6]]; [|exact H6].
              replace (j + 1 - 1) with j by lia. congruence.
      * intros [[]|[H1 [H2 [H3 [H4 [H5 [H6 H7]]]]]]].
        destruct (f j =? 0) eqn:E0.
        -- right. unfold newrun, lbnd.
           destruct H6 as [[-> H6]|[H6 H6']].
           ++ exfalso. apply H4. rewrite <- (H5 j) by lia. lia.
           ++ repeat split; try lia; try assumption.

        -- destruct H6 as [[-> H6]|[H6 H6']].
           ++ left. unfold contrun. assert (Fv : f j = v) by (apply H5; lia).
              repeat split; try lia.

           ++ right. unfold newrun, lbnd. repeat split; try lia; try assumption.
              destruct (Z.eq_dec a (j + 1)) as [->|Na].
              ** left. split; [reflexivity|]. replace (j + 1 - 1) with j in H6' by lia. congruence.
              ** right. split; [lia | exact H6'].
Qed.

(* ---------- a row: the runs returned are exactly the maximal runs ---------- *)
Lemma rle_maxrun f n v a b : In (v, a, b) (rle f n 0 None) <-> maxrun f (Z.of_nat n) v a b.
Proof.
  rewrite (rle_in f v a b n 0 None I). unfold contrun, newrun, lbnd, maxrun. rewrite Z.add_0_l.
  split.
  - intros [[]|[H1 [H2 [H3 [H4 [H5 [H6 H7]]]]]]]. repeat split; try lia; try assumption.

  - intros [H1 [H2 [H3 [H4 [H5 [H6 H7]]]]]]. right. repeat split; try lia; try assumption.


Qed.

Lemma row_runs_in m cols p' p a b v : 0 <= cols ->
  (In (p, a, b, v) (row_runs m cols p') <-> p = p' /\ maxrun (cell_at m p) cols v a b).
Proof.
  intros Hc. unfold row_runs. rewrite in_map_iff. split.
  - intros [[[v1 a1] b1] [E H]]. inversion E; subst. split; [reflexivity|].
    apply rle_maxrun in H. rewrite Z2Nat.id in H by lia. exact H.
  - intros [-> H]. exists (v, a, b). split; [reflexivity|].
    apply rle_maxrun. rewrite Z2Nat.id by lia. exact H.
Qed.

Lemma decode_frames_in rows cols m p a b v : 0 <= cols ->
  (In (p, a, b, v) (decode_frames rows cols m) <-> 0 <= p < rows /\ maxrun (cell_at m p) cols v a b).
Proof.
  intros Hc. unfold decode_frames. split.
  - intros H. apply (Permutation_in _ (sort_dn_perm _)) in H.
    apply in_flat_map in H as [p' [Hp H]]. apply row_runs_in in H as [-> H]; [|exact Hc].
    apply In_zrange in Hp. split; [lia | exact H].
  - intros [Hp H]. apply (Permutation_in _ (Permutation_sym (sort_dn_perm _))).
    apply in_flat_map. exists p. split; [apply zrange_In; lia|].
    apply row_runs_in; [exact Hc | split; [reflexivity | exact H]].
Qed.

(* the code's own column scan *)
Lemma scan_frames_in rows cols m p a b v : 0 <= cols ->
  (In (p, a, b, v) (scan_frames rows cols m) <-> 0 <= p < rows /\ maxrun (cell_at m p) cols v a b).
Proof.
  intros Hc. rewrite <- (decode_frames_in rows cols m p a b v Hc). split; intros H.
  - exact (Permutation_in _ (scan_frames_perm rows cols m) H).
  - exact (Permutation_in _ (Permutation_sym (scan_frames_perm rows cols m)) H).
Qed.

(* ---------- every non-zero cell lies in exactly one maximal run ---------- *)
Lemma ext_left (f : Z -> Z) (v : Z) : forall k j, j = Z.of_nat k -> f j = v ->
  exists a, 0 <= a <= j /\ (forall i, a <= i <= j -> f i = v) /\ (a = 0 \/ f (a - 1) <> v).
Proof.
  induction k as [|k IH]; intros j Hj Hf.
  - exists 0. repeat split; try lia. intros i Hi. replace i with j by lia. exact Hf.
  - destruct (Z.eq_dec (f (j - 1)) v) as [E|E].
    + destruct (IH (j - 1) ltac:(lia) E) as [a [H1 [H2 H3]]]. exists a. repeat split; try lia; try exact H3.
      intros i Hi. destruct (Z.eq_dec i j) as [->|N]; [exact Hf | apply H2; lia].
    + exists j. repeat split; try lia. intros i Hi. replace i with j by lia. exact Hf.
Qed.

Lemma ext_right (f : Z -> Z) (v n : Z) : forall k j, n - 1 - j = Z.of_nat k -> f j = v ->
  exists b, j < b <= n /\ (forall i, j <= i < b -> f i = v) /\ (b = n \/ f b <> v).
Proof.
  induction k as [|k IH]; intros j Hj Hf.
  - exists n. repeat split; try lia. intros i Hi. replace i with j by lia. exact Hf.
  - destruct (Z.eq_dec (f (j + 1)) v) as [E|E].
    + destruct (IH (j + 1) ltac:(lia) E) as [b [H1 [H2 H3]]]. exists b. repeat split; try lia; try exact H3.
      intros i Hi. destruct (Z.eq_dec i j) as [->|N]; [exact Hf | apply H2; lia].
    + exists (j + 1). repeat split; try lia. intros i Hi. replace i with j by lia. exact Hf.
Qed.

Lemma maxrun_exists (f : Z -> Z) (n j : Z) : 0 <= j < n -> f j <> 0 ->
  exists a b, maxrun f n (f j) a b /\ a <= j < b.
Proof.
  intros Hj Hv.
  destruct (ext_left f (f j) (Z.to_nat j) j ltac:(lia) eq_refl) as [a [A1 [A2 A3]]].
  destruct (ext_right f (f j) n (Z.to_nat (n - 1 - j)) j ltac:(lia) eq_refl) as [b [B1 [B2 B3]]].
  exists a, b. split; [|lia]. unfold maxrun. repeat split; try lia; try assumption.

Qed.

Lemma maxrun_value f n v a b j : maxrun f n v a b -> a <= j < b -> f j = v /\ v <> 0.
Proof. intros [H1 [H2 [H3 [H4 [H5 _]]]]] Hj. split; [apply H5; exact Hj | exact H4]. Qed.

Lemma maxrun_unique f n v a b v' a' b' j :
  maxrun f n v a b -> maxrun f n v' a' b' -> a <= j < b -> a' <= j < b' -> v' = v /\ a' = a /\ b' = b.
Proof.
  intros [H1 [H2 [H3 [H4 [H5 [H6 H7]]]]]] [G1 [G2 [G3 [G4 [G5 [G6 G7]]]]]] Hj Gj.
  assert (Ev : v' = v) by (rewrite <- (H5 j Hj); symmetry; apply G5; exact Gj). subst v'.
  split; [reflexivity|]. split.
  - destruct (Z_lt_ge_dec a a') as [L|L].
    + exfalso. destruct G6 as [G6|G6]; [lia|]. apply G6. apply H5. lia.
    + destruct (Z_lt_ge_dec a' a) as [L'|L']; [|lia].
      exfalso. destruct H6 as [H6|H6]; [lia|]. apply H6. apply G5. lia.
  - destruct (Z_lt_ge_dec b b') as [L|L].
    + exfalso. destruct H7 as [H7|H7]; [lia|]. apply H7. apply G5. lia.
    + destruct (Z_lt_ge_dec b' b) as [L'|L']; [|lia].
      exfalso. destruct G7 as [G7|G7]; [lia|]. apply G7. apply H5. lia.
Qed.

(* the decoded notes of a roll cover exactly its non-zero cells, each cell once, with the cell's value *)
Lemma scan_covers rows cols m p j : 0 <= p < rows -> 0 <= j < cols ->
  (cell_at m p j <> 0 ->
     exists a b, In (p, a, b, cell_at m p j) (scan_frames rows cols m) /\ a <= j < b /\
       forall a' b' v', In (p, a', b', v') (scan_frames rows cols m) -> a' <= j < b' ->
                        v' = cell_at m p j /\ a' = a /\ b' = b) /\
  (forall a b v, In (p, a, b, v) (scan_frames rows cols m) -> a <= j < b -> cell_at m p j = v /\ v <> 0).
Proof.
  intros Hp Hj. split.
  - intros Hv. destruct (maxrun_exists (cell_at m p) cols j Hj Hv) as [a [b [M Hab]]].
    exists a, b. split; [apply scan_frames_in; [lia | split; assumption]|]. split; [exact Hab|].
    intros a' b' v' H Hj'. apply scan_frames_in in H as [_ M']; [|lia].
    exact (maxrun_unique _ _ _ _ _ _ _ _ j M M' Hab Hj').
  - intros a b v H Hab. apply scan_frames_in in H as [_ M]; [|lia].
    exact (maxrun_value _ _ _ _ _ j M Hab).
Qed.

(* the note array returned: (pitch, onset, duration, velocity) rows = the maximal runs, in time units *)
Definition init_pitch (rows : Z) : Z := if rows =? 128 then 0 else 21.

Lemma notearray_scan_in rows cols m td l q on du v : 0 <= cols ->
  pianoroll_to_notearray_scan rows cols m td = Some l ->
  (In (q, on, du, v) l <->
   exists p a b, 0 <= p < rows /\ maxrun (cell_at m p) cols v a b /\ q = p + init_pitch rows /\
                 on = (inject_Z a / inject_Z td)%Q /\ du = (inject_Z (b - a) / inject_Z td)%Q).
Proof.
  intros Hc. unfold pianoroll_to_notearray_scan, init_pitch.
  assert (K : forall init,
    In (q, on, du, v)
       (map (fun x : dnote => let '(p, a, b, v) := x in
               (p + init, (inject_Z a / inject_Z td)%Q, (inject_Z (b - a) / inject_Z td)%Q, v))
            (scan_frames rows cols m)) <->
    exists p a b, 0 <= p < rows /\ maxrun (cell_at m p) cols v a b /\ q = p + init /\
                  on = (inject_Z a / inject_Z td)%Q /\ du = (inject_Z (b - a) / inject_Z td)%Q).
  { intros init. rewrite in_map_iff. split.
    - intros [[[[p a] b] v1] [E H]]. inversion E; subst. apply scan_frames_in in H as [Hp M]; [|exact Hc].
      exists p, a, b. split; [lia|]. split; [exact M|]. repeat split.
    - intros [p [a [b [Hp [M [-> [-> ->]]]]]]]. exists (p, a, b, v). split; [reflexivity|].
      apply scan_frames_in; [exact Hc | split; assumption]. }
  destruct (rows =? 128) eqn:E1.
  - intros E; inversion E; subst. apply K.
  - destruct (rows =? 88) eqn:E2; [|discriminate]. intros E; inversion E; subst. apply K.
Qed.

(* ---------- non-vacuity and discrimination ---------- *)
(* a row with two touching runs of different velocity, a re-struck pitch and a run reaching the last frame *)
Definition runs_row (j : Z) : Z := nth (Z.to_nat j) [0; 5; 5; 3; 0; 3; 7; 7] 0.

Example runs_example :
  rle runs_row 8 0 None = [(5, 1, 3); (3, 3, 4); (3, 5, 6); (7, 6, 8)] /\
  maxrun runs_row 8 3 3 4 /\ maxrun runs_row 8 5 1 3.
Proof.
  split; [reflexivity|]. split; apply rle_maxrun with (n := 8%nat); vm_compute; tauto.
Qed.

(* the variant that starts a new note only when the velocity rises returns (5, 1, 4): frame 3 holds 3, not 5,
   so the statement of `rle_maxrun` fails for it *)
Example rle_rise_refuted :
  In (5, 1, 4) (rle_rise runs_row 8 0 None) /\ ~ maxrun runs_row 8 5 1 4.
Proof.
  split; [vm_compute; tauto|]. intros [_ [_ [_ [_ [H _]]]]]. specialize (H 3 ltac:(lia)). vm_compute in H. lia.
Qed.

(* the boolean form evaluated by the correspondence on the implementation's output IS the statement *)
Lemma maxrun_b_spec f n v a b : maxrun_b f n v a b = true <-> maxrun f n v a b.
Proof.
  unfold maxrun_b, maxrun. rewrite !andb_true_iff, forallb_forall. split.
  - intros [[[[[[H1 H2] H3] H4] H5] H6] H7]. repeat split; try lia.
    intros i Hi. assert (In i (zrange a (Z.to_nat (b - a)))) as Hin by (apply zrange_In; lia).
    apply H5 in Hin. lia.
  - intros [H1 [H2 [H3 [H4 [H5 [H6 H7]]]]]]. repeat split; try lia.
    intros i Hi. apply In_zrange in Hi. rewrite H5 by lia. apply Z.eqb_refl.
Qed.

(* ---------- no note is returned twice ---------- *)
Lemma rle_start f n j cur v a b : okcur j cur -> In (v, a, b) (rle f n j cur) ->
  match cur with Some (_, a0) => a = a0 \/ j <= a | None => j <= a end.
Proof.
  intros Hok H. apply (rle_in f v a b n j cur Hok) in H. unfold contrun, newrun in H.
  destruct cur as [[v0 a0]|].
  - destruct H as [[_ [-> _]]|[H _]]; [left; reflexivity | right; exact H].
  - destruct H as [[]|[H _]]. exact H.
Qed.

Lemma rle_NoDup f : forall n j cur, okcur j cur -> NoDup (rle f n j cur).
Proof.
  induction n as [|n IH]; intros j cur Hok.
  - destruct cur as [[v0 a0]|]; cbn [rle]; [constructor; [intros []|constructor] | constructor].
  - cbn [rle]. destruct cur as [[v0 a0]|].
    + destruct Hok as [Hv0 Ha0]. destruct (f j =? v0) eqn:Ex.
      * apply IH. simpl. lia.
      * assert (Hok' : okcur (j + 1) (if f j =? 0 then None else Some (f j, j)))
          by (destruct (f j =? 0) eqn:E0; simpl; lia).
        constructor; [|apply IH; exact Hok'].
        intros H. apply rle_start in H; [|exact Hok'].
        destruct (f j =? 0); [lia | destruct H; lia].
    + apply IH. destruct (f j =? 0) eqn:E0; simpl; lia.
Qed.

Lemma NoDup_app_disj {A} (l l' : list A) : NoDup l -> NoDup l' -> (forall x, In x l -> ~ In x l') -> NoDup (l ++ l').
Proof.
  induction l as [|x l IH]; intros H1 H2 H3; [exact H2|].
  inversion H1; subst. simpl. constructor.
  - intros H. apply in_app_or in H as [H|H]; [contradiction | exact (H3 x (or_introl eq_refl) H)].
  - apply IH; [assumption | assumption | intros y Hy; apply H3; right; exact Hy].
Qed.

Lemma row_runs_NoDup m cols p : NoDup (row_runs m cols p).
Proof.
  unfold row_runs. apply FinFun.Injective_map_NoDup; [|apply rle_NoDup; exact I].
  intros [[v a] b] [[v' a'] b'] E. inversion E; subst. reflexivity.
Qed.

Lemma row_runs_row m cols p x : In x (row_runs m cols p) -> d_row x = p.
Proof.
  unfold row_runs. intros H. apply in_map_iff in H as [[[v a] b] [<- _]]. reflexivity.
Qed.

Lemma flat_rows_NoDup m cols : forall R, NoDup R -> NoDup (flat_map (row_runs m cols) R).
Proof.
  induction R as [|r R IH]; intros H; [constructor|]. inversion H; subst. simpl.
  apply NoDup_app_disj; [apply row_runs_NoDup | apply IH; assumption|].
  intros x Hx Hx'. apply row_runs_row in Hx. apply in_flat_map in Hx' as [r' [Hr' Hx']].
  apply row_runs_row in Hx'. congruence.
Qed.

Lemma scan_frames_NoDup rows cols m : NoDup (scan_frames rows cols m) /\ NoDup (decode_frames rows cols m).
Proof.
  assert (D : NoDup (decode_frames rows cols m)).
  { unfold decode_frames. eapply Permutation_NoDup; [apply Permutation_sym, sort_dn_perm|].
    apply flat_rows_NoDup, zrange_NoDup. }
  split; [|exact D].
  eapply Permutation_NoDup; [apply Permutation_sym, scan_frames_perm | exact D].
Qed.
