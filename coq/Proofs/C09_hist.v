(* C09 -- state carried between calls: every call of a history reads the marks the part has at that
   moment (Model/C09_hist.v).  Proofs. *)
From PV Require Import Lib.Base Model.C09 Model.C09_api Model.C09_hist.
From Coq Require Import ZArith List Bool Lia.
Import ListNotations.
#[local] Open Scope Z_scope.

(* reg = segments are registered; then they are the segments of the marks of this moment *)
Definition Inv (reg : bool) (s : pst) : Prop :=
  if reg then p_reg s = make_segments (p_marks s) else p_reg s = [].

Lemma inv_cur : forall reg s, Inv reg s -> cur_segments s = make_segments (p_marks s).
Proof.
  intros reg s H. unfold cur_segments. destruct reg; simpl in H.
  - rewrite H. destruct (make_segments (p_marks s)); reflexivity.
  - rewrite H. reflexivity.
Qed.

Lemma inv_add : forall reg s f, Inv reg s -> Inv true (step s (OAddSegments f)).
Proof.
  intros reg s f H. unfold Inv, step. destruct reg; simpl in H.
  - destruct (p_reg s) eqn:E.
    + reflexivity.
    + destruct f; simpl; [reflexivity | exact (eq_trans E H)].
  - rewrite H. reflexivity.
Qed.

Lemma inv_refresh : forall s, Inv true (step s (OAddSegments true)).
Proof. intros s. unfold Inv, step. destruct (p_reg s); reflexivity. Qed.

Lemma history_lemma_n : forall n h, (length h <= n)%nat -> forall reg s, Inv reg s -> disciplined reg h = true ->
  observed s h = current s h /\ cur_segments (run s h) = make_segments (p_marks (run s h)).
Proof.
  induction n as [|n IH]; intros h Hl reg s HI HD.
  - destruct h; [|simpl in Hl; lia]. simpl. split; [reflexivity | exact (inv_cur _ _ HI)].
  - destruct h as [|o r].
    + simpl. split; [reflexivity | exact (inv_cur _ _ HI)].
    + simpl in Hl. destruct o as [v m | f | | ].
      * (* OEdit *)
        destruct reg.
        -- simpl in HD. destruct r as [|o2 r']; [discriminate|].
           destruct o2 as [v2 m2 | f2 | | ]; try discriminate.
           ++ destruct f2; [|discriminate].
              simpl in Hl.
              assert (HI2 : Inv true (step (step s (OEdit v m)) (OAddSegments true))) by apply inv_refresh.
              destruct (IH r' ltac:(lia) true _ HI2 HD) as [A B].
              split; [exact A | exact B].
           ++ simpl in Hl.
              assert (HI2 : Inv false (step (step s (OEdit v m)) ODropSegments)) by reflexivity.
              destruct (IH r' ltac:(lia) false _ HI2 HD) as [A B].
              split; [exact A | exact B].
        -- simpl in HD.
           assert (HI2 : Inv false (step s (OEdit v m))) by (simpl in HI; simpl; exact HI).
           destruct (IH r ltac:(lia) false _ HI2 HD) as [A B].
           split; [exact A | exact B].
      * simpl in HD.
        assert (HD' : disciplined true r = true) by (destruct reg; exact HD).
        destruct (IH r ltac:(lia) true _ (inv_add reg s f HI) HD') as [A B].
        split; [exact A | exact B].
      * simpl in HD.
        assert (HD' : disciplined false r = true) by (destruct reg; exact HD).
        assert (HI2 : Inv false (step s ODropSegments)) by reflexivity.
        destruct (IH r ltac:(lia) false _ HI2 HD') as [A B].
        split; [exact A | exact B].
      * simpl in HD.
        assert (HD' : disciplined reg r = true) by (destruct reg; exact HD).
        destruct (IH r ltac:(lia) reg s HI HD') as [A B].
        split; [|exact B].
        simpl. rewrite A, (inv_cur _ _ HI). reflexivity.
Qed.

Lemma history_reads_current_marks_lemma : forall m0 h,
  disciplined false h = true ->
  observed (mkPst m0 []) h = current (mkPst m0 []) h /\
  cur_segments (run (mkPst m0 []) h) = make_segments (p_marks (run (mkPst m0 []) h)).
Proof.
  intros m0 h HD. apply (history_lemma_n (length h) h (le_n _) false); [reflexivity | exact HD].
Qed.

(* a history without add_segments is always within the documented use *)
Definition no_registration (h : list op) : bool :=
  forallb (fun o => match o with OAddSegments _ => false | _ => true end) h.

Lemma no_registration_disciplined : forall h, no_registration h = true -> disciplined false h = true.
Proof.
  induction h as [|o r IH]; intros H; [reflexivity|].
  simpl in H. apply andb_true_iff in H. destruct H as [Ho Hr].
  destruct o; simpl; try discriminate; auto.
Qed.

Lemma unregistered_history_lemma : forall m0 h,
  no_registration h = true ->
  observed (mkPst m0 []) h = current (mkPst m0 []) h.
Proof.
  intros m0 h H. apply history_reads_current_marks_lemma, no_registration_disciplined, H.
Qed.

Lemma fresh_cur : forall s, cur_segments (fresh s) = make_segments (p_marks s).
Proof. reflexivity. Qed.

Lemma history_entry_points_lemma : forall m0 h,
  disciplined false h = true ->
  let s := run (mkPst m0 []) h in
  (forall nr ar ign, obs_paths s nr ar ign = obs_paths (fresh s) nr ar ign) /\
  (forall objs ign, obs_maximal s objs ign = obs_maximal (fresh s) objs ign) /\
  (forall objs, obs_minimal s objs = obs_minimal (fresh s) objs) /\
  (forall objs, obs_iter s objs = obs_iter (fresh s) objs) /\
  (forall objs want, obs_alignment s objs want = obs_alignment (fresh s) objs want).
Proof.
  intros m0 h HD s.
  destruct (history_reads_current_marks_lemma m0 h HD) as [_ E]. fold s in E.
  unfold obs_paths, obs_maximal, obs_minimal, obs_iter, obs_alignment.
  rewrite (fresh_cur s), E. repeat split; reflexivity.
Qed.

(* ---- examples ---- *)
(* |: m1 m2 [1. m3 :| [2. m4 | m5 ||  (measures of 4), then "1" -> "1, 2" and "2" -> "3" *)
Definition ex_m1 : marks := mkMarks 0 20 [(0, 12)] [(8, 12, [1]); (12, 16, [2])] [] [] [] [] [] [].
Definition ex_m2 : marks := mkMarks 0 20 [(0, 12)] [(8, 12, [1; 2]); (12, 16, [3])] [] [] [] [] [] [].
Definition ex_hist (via_part : bool) : list op := [OCall; OEdit via_part ex_m2; OCall].

Definition second (l : list (list seg)) : list seg := nth 1 l [].

Lemma memoising_variant_refuted_lemma :
  disciplined false (ex_hist false) = true /\
  (* the real reading follows the new numbers: three passes *)
  get_paths FUEL (second (observed (mkPst ex_m1 []) (ex_hist false))) false true true = Some [[0; 1; 0; 1; 0; 2; 3]] /\
  second (observed (mkPst ex_m1 []) (ex_hist false)) = second (current (mkPst ex_m1 []) (ex_hist false)) /\
  (* segments kept until Part.add / Part.remove: the second unfolding still plays two passes *)
  get_paths FUEL (second (memo_observed (mkMst ex_m1 None) (ex_hist false))) false true true = Some [[0; 1; 0; 2; 3]] /\
  list_eqb seg_eqb (second (memo_observed (mkMst ex_m1 None) (ex_hist false)))
                   (second (current (mkPst ex_m1 []) (ex_hist false))) = false /\
  (* ... and the same variant is right when the change goes through Part.add / Part.remove *)
  memo_observed (mkMst ex_m1 None) (ex_hist true) = current (mkPst ex_m1 []) (ex_hist true).
Proof. vm_compute. repeat split; reflexivity. Qed.

(* registered segments are not refreshed by a change of the marks (documented: force_new) -- the
   hypothesis `disciplined` cannot be dropped *)
Lemma discipline_needed_lemma :
  let h := [OAddSegments false; OCall; OEdit true ex_m2; OCall] in
  disciplined false h = false /\
  get_paths FUEL (second (observed (mkPst ex_m1 []) h)) false true true = Some [[0; 1; 0; 2; 3]] /\
  get_paths FUEL (second (current (mkPst ex_m1 []) h)) false true true = Some [[0; 1; 0; 1; 0; 2; 3]] /\
  let h' := [OAddSegments false; OCall; OEdit true ex_m2; OAddSegments true; OCall] in
  disciplined false h' = true /\
  get_paths FUEL (second (observed (mkPst ex_m1 []) h')) false true true = Some [[0; 1; 0; 1; 0; 2; 3]].
Proof. vm_compute. repeat split; reflexivity. Qed.

(* ---- known finding C09-K3 in the model: |: m0 m1 [1. m2 :| [2, 3. m3 :| To Coda m4 m5 D.C. al Coda | Coda m6 m7
   (measures of 4).  The segment of the last bracket ends at the To Coda mark, so it is a "leap_start" segment
   and its repeat back to the beginning counts as a leap: the maximal unfolding plays the first ending again
   in the third pass and then goes To Coda (A-B-A-C-A-B-A-C-E: m4 m5 are never played), where the notation
   says A-B-A-C-A-C-D-E ---- *)
Definition ex_k3 : marks :=
  mkMarks 0 32 [(0, 12); (0, 16)] [(8, 12, [1]); (12, 16, [2; 3])] [24] [16] [24] [] [] [].
Lemma tocoda_after_repeated_last_bracket_refuted_lemma :
  get_paths FUEL (make_segments ex_k3) false true true = Some [[0; 1; 0; 2; 0; 1; 0; 2; 4]] /\
  (* with the To Coda one measure later the reading is the notated one *)
  get_paths FUEL (make_segments (mkMarks 0 32 [(0, 12); (0, 16)] [(8, 12, [1]); (12, 16, [2; 3])] [24] [20] [24] [] [] []))
            false true true = Some [[0; 1; 0; 2; 0; 2; 3; 4; 5]].
Proof. vm_compute. split; reflexivity. Qed.
