(* C02_hist -- proofs about the history model (Model/C02_Hist.v): set_quarter_duration as a
   step on the change table (sortedness, the step function after a call, last write wins),
   parts built by ANY history of public-API calls are well-formed (so every map theorem of
   Proofs/C02.v applies to them), and the map theorems on the whole keypoint range. *)
From PV Require Import Lib.Base Model.C02 Model.C02_Hist Proofs.C02_lib Proofs.C02.
From Coq Require Import QArith Qfield Lqa.
#[local] Open Scope Z_scope.

(* ------------------------------------------------------------ keys_incr *)
Lemma keys_incr_cons_all {A} (k : Z) (v : A) r :
  keys_incr r -> (forall k' v', In (k', v') r -> k < k') -> keys_incr ((k, v) :: r).
Proof.
  intros Hr Hall. simpl. split; auto. destruct r as [|[k1 v1] r]; auto.
  apply (Hall k1 v1). left; auto.
Qed.

(* ------------------------------------------------- set_quarter_duration *)
Lemma setqd_from_In t q : forall tbl prev k v,
  In (k, v) (setqd_from prev t q tbl) -> (k = t /\ v = q) \/ In (k, v) tbl.
Proof.
  induction tbl as [|[k0 v0] r IH]; intros prev k v H; simpl in H.
  - destruct prev as [pv|]; [destruct (pv =? q)|]; simpl in H; try tauto;
      destruct H as [E|[]]; inversion E; auto.
  - destruct (t <? k0) eqn:E1.
    + destruct prev as [pv|]; [destruct (pv =? q)|]; auto;
        destruct H as [E|H]; auto; inversion E; auto.
    + destruct (t =? k0) eqn:E2.
      * destruct H as [E|H]; [inversion E; subst; left; lia|right; right; auto].
      * destruct H as [E|H]; [right; left; auto|].
        apply IH in H as [H|H]; auto. right; right; auto.
Qed.

Lemma setqd_from_keys_kept t q : forall tbl prev k v,
  In (k, v) tbl -> exists v', In (k, v') (setqd_from prev t q tbl).
Proof.
  induction tbl as [|[k0 v0] r IH]; intros prev k v H; [inversion H|]. simpl.
  destruct (t <? k0) eqn:E1.
  - destruct prev as [pv|]; [destruct (pv =? q)|]; exists v; simpl; auto.
  - destruct (t =? k0) eqn:E2.
    + destruct H as [E|H]; [inversion E; subst; exists q; left; auto|exists v; right; auto].
    + destruct H as [E|H]; [exists v; left; auto|].
      destruct (IH (Some v0) k v H) as [v' Hv']. exists v'; right; auto.
Qed.

Lemma setqd_from_incr t q : forall tbl prev, keys_incr tbl -> keys_incr (setqd_from prev t q tbl).
Proof.
  induction tbl as [|[k0 v0] r IH]; intros prev Hs; simpl.
  - destruct prev as [pv|]; [destruct (pv =? q)|]; simpl; auto.
  - destruct (t <? k0) eqn:E1.
    + destruct prev as [pv|]; [destruct (pv =? q)|]; auto; apply keys_incr_cons_all; auto;
        intros k' v' [E|H]; try (inversion E; lia); pose proof (keys_incr_gt _ _ _ Hs _ _ H); lia.
    + destruct (t =? k0) eqn:E2.
      * apply keys_incr_cons_all; [eapply keys_incr_tail; eauto|].
        intros k' v' H. exact (keys_incr_gt _ _ _ Hs _ _ H).
      * apply keys_incr_cons_all; [apply IH; eapply keys_incr_tail; eauto|].
        intros k' v' H. apply setqd_from_In in H as [[-> _]|H]; [lia|].
        exact (keys_incr_gt _ _ _ Hs _ _ H).
Qed.

Theorem setqd_sorted t q tbl : keys_incr tbl -> keys_incr (setqd t q tbl).
Proof. apply setqd_from_incr. Qed.

(* the step function after the call *)
Lemma setqd_from_lookup t q s : forall tbl prev d,
  (forall pv, prev = Some pv -> pv = d) -> keys_incr tbl ->
  prev_lookup (setqd_from prev t q tbl) s d =
  if (t <=? s) && before_next t tbl s then q else prev_lookup tbl s d.
Proof.
  induction tbl as [|[k v] r IH]; intros prev d Hp Hs.
  - unfold before_next; simpl. rewrite andb_true_r.
    destruct prev as [pv|].
    + rewrite (Hp pv eq_refl). destruct (d =? q) eqn:E; simpl.
      * destruct (t <=? s); auto. lia.
      * reflexivity.
    + reflexivity.
  - simpl setqd_from. unfold before_next. simpl next_key.
    destruct (t <? k) eqn:E1.
    + assert (L : prev_lookup ((t, q) :: (k, v) :: r) s d =
                  if (t <=? s) && (s <? k) then q else prev_lookup ((k, v) :: r) s d).
      { simpl. destruct (t <=? s) eqn:A; destruct (k <=? s) eqn:B; destruct (s <? k) eqn:C; simpl; auto; lia. }
      destruct prev as [pv|]; auto.
      rewrite (Hp pv eq_refl). destruct (d =? q) eqn:E; auto.
      assert (d = q) by lia. subst d.
      simpl. destruct (t <=? s) eqn:A; destruct (k <=? s) eqn:B; destruct (s <? k) eqn:C; simpl; auto; lia.
    + destruct (t =? k) eqn:E2.
      * assert (t = k) by lia. subst k.
        change (match next_key t r with Some n => s <? n | None => true end) with (before_next t r s).
        simpl. destruct (t <=? s) eqn:A; simpl; auto.
        destruct r as [|[k1 v1] r1]; [reflexivity|].
        assert (t < k1) by (apply (keys_incr_gt _ _ _ Hs k1 v1); left; auto).
        unfold before_next. simpl. replace (t <? k1) with true by lia.
        destruct (k1 <=? s) eqn:B; destruct (s <? k1) eqn:C; auto; lia.
      * change (match next_key t r with Some n => s <? n | None => true end) with (before_next t r s).
        simpl. destruct (k <=? s) eqn:B.
        -- apply IH; [intros pv E; inversion E; auto|eapply keys_incr_tail; eauto].
        -- replace (t <=? s) with false by lia. reflexivity.
Qed.

Theorem setqd_lookup t q tbl s d : keys_incr tbl ->
  prev_lookup (setqd t q tbl) s d =
  if (t <=? s) && before_next t tbl s then q else prev_lookup tbl s d.
Proof. intros Hs. apply setqd_from_lookup; auto. intros pv E; discriminate. Qed.

Lemma dict_set_lookup t q s : forall tbl d, keys_incr tbl ->
  prev_lookup (dict_set t q tbl) s d =
  if (t <=? s) && before_next t tbl s then q else prev_lookup tbl s d.
Proof.
  induction tbl as [|[k v] r IH]; intros d Hs.
  - unfold before_next; simpl. rewrite andb_true_r. reflexivity.
  - simpl dict_set. unfold before_next. simpl next_key.
    destruct (t <? k) eqn:E1.
    + simpl. destruct (t <=? s) eqn:A; destruct (k <=? s) eqn:B; destruct (s <? k) eqn:C; simpl; auto; lia.
    + destruct (t =? k) eqn:E2.
      * assert (t = k) by lia. subst k.
        change (match next_key t r with Some n => s <? n | None => true end) with (before_next t r s).
        simpl. destruct (t <=? s) eqn:A; simpl; auto.
        destruct r as [|[k1 v1] r1]; [reflexivity|].
        assert (t < k1) by (apply (keys_incr_gt _ _ _ Hs k1 v1); left; auto).
        unfold before_next. simpl. replace (t <? k1) with true by lia.
        destruct (k1 <=? s) eqn:B; destruct (s <? k1) eqn:C; auto; lia.
      * change (match next_key t r with Some n => s <? n | None => true end) with (before_next t r s).
        simpl. destruct (k <=? s) eqn:B.
        -- apply IH. eapply keys_incr_tail; eauto.
        -- replace (t <=? s) with false by lia. reflexivity.
Qed.

(* one call acts on what is in force exactly like the plain change table ("last write wins") *)
Theorem setqd_as_dict t q tbl s d : keys_incr tbl ->
  prev_lookup (setqd t q tbl) s d = prev_lookup (dict_set t q tbl) s d.
Proof. intros Hs. rewrite setqd_lookup, dict_set_lookup; auto. Qed.

Theorem setqd_keys t q tbl k v : In (k, v) (setqd t q tbl) -> (k = t /\ v = q) \/ In (k, v) tbl.
Proof. apply setqd_from_In. Qed.

Theorem setqd_keys_kept t q tbl k v : In (k, v) tbl -> exists v', In (k, v') (setqd t q tbl).
Proof. apply setqd_from_keys_kept. Qed.

(* the entry at division 0 that Part.__init__ creates stays the first one *)
Lemma setqd_head0 t q v0 r : 0 <= t -> exists v0' r', setqd t q ((0, v0) :: r) = (0, v0') :: r'.
Proof.
  intros Ht. unfold setqd. simpl. replace (t <? 0) with false by lia.
  destruct (t =? 0); eauto.
Qed.

(* ------------------------------------------------------ Part.add(TimeSignature) *)
Definition tkey (ts : tsig) : Z * tsig := (ts_t ts, ts).

Lemma insert_ts_In x : forall l y, In y (insert_ts x l) <-> y = x \/ In y l.
Proof.
  induction l as [|z r IH]; intros y; simpl; [intuition|].
  destruct (ts_t x <? ts_t z); simpl; [intuition|]. rewrite IH. intuition.
Qed.

Lemma insert_ts_incr x : forall l, keys_incr (map tkey l) ->
  (forall y, In y l -> ts_t y <> ts_t x) -> keys_incr (map tkey (insert_ts x l)).
Proof.
  induction l as [|z r IH]; intros Hs Hne; simpl; auto.
  destruct (ts_t x <? ts_t z) eqn:E.
  - change (keys_incr (tkey x :: map tkey (z :: r))). unfold tkey at 1.
    apply keys_incr_cons_all; auto.
    intros k' v' H. apply in_map_iff in H as [y [Ey Hy]]. inversion Ey; subst.
    destruct Hy as [->|Hy]; [lia|].
    pose proof (keys_incr_gt _ _ _ Hs (ts_t v') v' ltac:(apply in_map_iff; exists v'; auto)). lia.
  - change (keys_incr (tkey z :: map tkey (insert_ts x r))). unfold tkey at 1.
    apply keys_incr_cons_all.
    + apply IH; [eapply keys_incr_tail; eauto|]. intros y Hy. apply Hne. right; auto.
    + intros k' v' H. apply in_map_iff in H as [y [Ey Hy]]. inversion Ey; subst.
      apply insert_ts_In in Hy as [->|Hy].
      * pose proof (Hne z (or_introl eq_refl)). lia.
      * exact (keys_incr_gt _ _ _ Hs (ts_t v') v' ltac:(apply in_map_iff; exists v'; auto)).
Qed.

(* ------------------------------------------------------------ histories *)
Definition tab_of (op : beat_op) : list (Z * Z * Z) :=
  match op with SetPerTs tab => tab | UseMusical tab => tab | UseNotated => [] end.

(* what the harness generates: non-negative times, positive quarter durations, positive
   numerators / denominators / user-supplied musical beats, at most one signature per time *)
Definition hop_ok (op : hop) : Prop :=
  match op with
  | HSetQ t q => 0 <= t /\ 0 < q
  | HAddTs t b bt => 0 <= t /\ 0 < b /\ 0 < bt
  | HBeat op => forall b bt v, In (b, bt, v) (tab_of op) -> 0 < v
  end.

Definition hist_ok (h : list hop) : Prop := (forall op, In op h -> hop_ok op) /\ NoDup (ts_times h).

Definition hinv (st : hstate) : Prop :=
  keys_incr (h_qs st) /\ (forall k q, In (k, q) (h_qs st) -> 0 < q) /\
  (exists v0 r, h_qs st = (0, v0) :: r) /\
  keys_incr (map tkey (h_tss st)) /\ (forall ts, In ts (h_tss st) -> ts_ok ts /\ 0 <= ts_t ts).

Lemma musical_default_pos b : 0 < b -> 0 < musical_default b.
Proof. intros H. rewrite musical_default_spec. destruct (b =? 6), (b =? 9), (b =? 12); lia. Qed.

Lemma tab_lookup_In b bt : forall tab v, tab_lookup b bt tab = Some v -> exists b' bt', In (b', bt', v) tab.
Proof.
  induction tab as [|[[b' bt'] v'] r IH]; intros v H; simpl in H; [discriminate|].
  destruct ((b =? b') && (bt =? bt')).
  - inversion H; subst. exists b', bt'. left; auto.
  - destruct (IH v H) as [b2 [bt2 Hin]]. exists b2, bt2. right; auto.
Qed.

Lemma set_mus_ok tab ts : (forall b bt v, In (b, bt, v) tab -> 0 < v) -> ts_ok ts -> ts_ok (set_mus tab ts).
Proof.
  intros Htab [Hb [Ht Hm]]. unfold ts_ok, set_mus; simpl. repeat split; auto.
  destruct (tab_lookup (ts_beats ts) (ts_type ts) tab) as [v|] eqn:E.
  - apply tab_lookup_In in E as [b' [bt' Hin]]. eauto.
  - apply musical_default_pos; auto.
Qed.

Lemma map_set_mus_keys tab l : map tkey (map (set_mus tab) l) = map (fun ts => (ts_t ts, set_mus tab ts)) l.
Proof. rewrite map_map. reflexivity. Qed.

Lemma map_set_mus_incr tab l : keys_incr (map tkey l) -> keys_incr (map tkey (map (set_mus tab) l)).
Proof. intros H. rewrite map_set_mus_keys. exact (keys_incr_map (set_mus tab) ts_t l H). Qed.

Lemma map_set_mus_ok tab l : (forall b bt v, In (b, bt, v) tab -> 0 < v) ->
  (forall ts, In ts l -> ts_ok ts) -> forall ts, In ts (map (set_mus tab) l) -> ts_ok ts.
Proof.
  intros Htab H ts Hin. apply in_map_iff in Hin as [y [<- Hy]]. apply set_mus_ok; auto.
Qed.

Lemma map_set_mus_times tab l ts : In ts (map (set_mus tab) l) -> exists y, In y l /\ ts_t y = ts_t ts.
Proof. intros Hin. apply in_map_iff in Hin as [y [<- Hy]]. exists y; auto. Qed.

(* the signature times of a state do not change under the musical-beat switches *)
Lemma beat_step_inv flag tss op :
  (forall b bt v, In (b, bt, v) (tab_of op) -> 0 < v) ->
  keys_incr (map tkey tss) -> (forall ts, In ts tss -> ts_ok ts) ->
  let '(f, tss') := beat_step (flag, tss) op in
  keys_incr (map tkey tss') /\ (forall ts, In ts tss' -> ts_ok ts) /\
  (forall ts, In ts tss' -> exists y, In y tss /\ ts_t y = ts_t ts).
Proof.
  intros Htab Hs Hok.
  assert (Same : keys_incr (map tkey tss) /\ (forall ts, In ts tss -> ts_ok ts) /\
                 (forall ts, In ts tss -> exists y, In y tss /\ ts_t y = ts_t ts))
    by (split; [auto|split; [auto|intros ts0 H0; exists ts0; auto]]).
  assert (Mapped : forall tab, (forall b bt v, In (b, bt, v) tab -> 0 < v) ->
            keys_incr (map tkey (map (set_mus tab) tss)) /\
            (forall ts, In ts (map (set_mus tab) tss) -> ts_ok ts) /\
            (forall ts, In ts (map (set_mus tab) tss) -> exists y, In y tss /\ ts_t y = ts_t ts)).
  { intros tab Ht. split; [apply map_set_mus_incr; auto|]. split; [apply map_set_mus_ok; auto|apply map_set_mus_times]. }
  destruct op as [tab|tab|]; simpl in *.
  - apply Mapped; auto.
  - destruct flag; auto. destruct tab; auto; apply Mapped; auto.
  - destruct flag; auto; apply Mapped; intros b bt v [].
Qed.

Lemma hstep_inv st op : hinv st -> hop_ok op ->
  (forall t b bt, op = HAddTs t b bt -> forall ts, In ts (h_tss st) -> ts_t ts <> t) ->
  hinv (hstep st op) /\
  (forall ts, In ts (h_tss (hstep st op)) ->
     (exists y, In y (h_tss st) /\ ts_t y = ts_t ts) \/ (exists t b bt, op = HAddTs t b bt /\ ts_t ts = t)).
Proof.
  intros [Hq [Hpos [[v0 [r0 Hhd]] [Hts Hok]]]] Hop Hfresh.
  assert (Hok1 : forall ts, In ts (h_tss st) -> ts_ok ts) by (intros ts H; apply Hok; auto).
  destruct op as [t q|t b bt|op].
  - simpl in *. split; [|intros ts Hin; left; exists ts; auto].
    destruct Hop as [Ht Hq0]. unfold hinv; simpl.
    refine (conj _ (conj _ (conj _ (conj Hts Hok)))).
    + apply setqd_sorted; auto.
    + intros k q' Hin. apply setqd_keys in Hin as [[_ ->]|Hin]; eauto.
    + rewrite Hhd. apply setqd_head0; auto.
  - simpl in *. destruct Hop as [Ht [Hb Hbt]]. split.
    + unfold hinv; simpl.
      refine (conj Hq (conj Hpos (conj _ (conj _ _)))).
      * eauto.
      * apply insert_ts_incr; auto. intros y Hy. simpl. apply (Hfresh t b bt eq_refl y Hy).
      * intros ts Hin. apply insert_ts_In in Hin as [->|Hin]; auto.
        unfold ts_ok; simpl. repeat split; auto. apply musical_default_pos; auto.
    + intros ts Hin. apply insert_ts_In in Hin as [->|Hin]; [right; exists t, b, bt; auto|left; exists ts; auto].
  - simpl in Hop. unfold hstep.
    pose proof (beat_step_inv (h_flag st) (h_tss st) op Hop Hts Hok1) as B.
    destruct (beat_step (h_flag st, h_tss st) op) as [f tss'] eqn:E. simpl.
    destruct B as [B1 [B2 B3]]. split.
    + unfold hinv; simpl.
      refine (conj Hq (conj Hpos (conj _ (conj B1 _)))).
      * eauto.
      * intros ts Hin. split; auto. destruct (B3 ts Hin) as [y [Hy Ey]]. rewrite <- Ey. apply Hok; auto.
    + intros ts Hin. left; auto.
Qed.

Lemma hrun_inv : forall h st, hinv st -> (forall op, In op h -> hop_ok op) -> NoDup (ts_times h) ->
  (forall ts, In ts (h_tss st) -> ~ In (ts_t ts) (ts_times h)) -> hinv (fold_left hstep h st).
Proof.
  induction h as [|op h IH]; intros st Hinv Hops Hnd Hdis; simpl; auto.
  assert (Hop : hop_ok op) by (apply Hops; left; auto).
  assert (Hfresh : forall t b bt, op = HAddTs t b bt -> forall ts, In ts (h_tss st) -> ts_t ts <> t).
  { intros t b bt -> ts Hin E. apply (Hdis ts Hin). simpl. left; auto. }
  destruct (hstep_inv st op Hinv Hop Hfresh) as [Hinv' Hfrom].
  assert (Hnd' : NoDup (ts_times h)).
  { destruct op; simpl in Hnd; auto. inversion Hnd; auto. }
  apply IH; auto.
  - intros op' Hin. apply Hops. right; auto.
  - intros ts Hin Hmem. destruct (Hfrom ts Hin) as [[y [Hy Ey]]|[t [b [bt [-> Et]]]]].
    + apply (Hdis y Hy). rewrite Ey. destruct op; simpl; auto.
    + simpl in Hnd. inversion Hnd; subst. congruence.
Qed.

Lemma hinit_inv q0 : 0 < q0 -> hinv (hinit q0).
Proof.
  intros H. unfold hinv, hinit; simpl. split; auto. split.
  - intros k q [E|[]]; inversion E; lia.
  - split; [eauto|]. split; auto. intros ts [].
Qed.

Lemma hist_inv q0 h : 0 < q0 -> hist_ok h -> hinv (hrun q0 h).
Proof.
  intros Hq0 [Hops Hnd]. apply hrun_inv; auto; try (apply hinit_inv; auto); try (intros ts []).
Qed.

(* every part the public API can build from a fresh Part(quarter_duration=q0) satisfies the
   hypothesis of the map theorems *)
Theorem hist_wf first last q0 h m1 : 0 < q0 -> hist_ok h -> first < last -> wf (hpart first last q0 h m1).
Proof.
  intros Hq0 Hok Hfl.
  destruct (hist_inv q0 h Hq0 Hok) as [Hq [Hpos [_ [Hts Hok']]]].
  unfold wf, hpart; simpl. split; auto. split; auto. split; auto. split; auto.
  intros ts Hin. apply Hok'; auto.
Qed.

(* ... and its change table starts at division 0, so division 0 is the smallest keypoint *)
Theorem hist_kp_min m first last q0 h m1 : 0 < q0 -> hist_ok h -> 0 <= first < last ->
  kp_min m (hpart first last q0 h m1) = 0.
Proof.
  intros Hq0 Hok Hfl.
  pose proof (hist_wf first last q0 h m1 Hq0 Hok ltac:(lia)) as Hwf.
  destruct (hist_inv q0 h Hq0 Hok) as [Hq [Hpos [[v0 [r0 Hhd]] [Hts Hok']]]].
  destruct (xs_shape m _ Hwf) as [x0 [rest [E [Hne [Hinc [Hf [Hl Hmin]]]]]]].
  rewrite Hmin.
  assert (Hin0 : In 0 (kp_xs m (hpart first last q0 h m1))).
  { apply (kp_qkey m _ 0 v0). unfold hpart; simpl. rewrite Hhd. left; auto. }
  assert (Hx0 : In x0 (kp_xs m (hpart first last q0 h m1))) by (rewrite E; left; auto).
  assert (Hge : 0 <= x0).
  { unfold kp_xs in Hx0. apply (proj1 (zsort_dedup_In _ _)) in Hx0.
    destruct Hx0 as [Ex|[Ex|Hx0]]; [unfold hpart in Ex; simpl in Ex; lia|unfold hpart in Ex; simpl in Ex; lia|].
    apply in_app_or in Hx0 as [Hx0|Hx0].
    - apply in_map_iff in Hx0 as [[k q] [Ek Hk]]. simpl in Ek. subst k.
      unfold hpart in Hk; simpl in Hk. rewrite Hhd in Hk. destruct Hk as [Ek|Hk]; [inversion Ek; lia|].
      rewrite Hhd in Hq. pose proof (keys_incr_gt _ _ _ Hq _ _ Hk). lia.
    - apply in_map_iff in Hx0 as [[k f] [Ek Hk]]. simpl in Ek. subst k.
      apply bt_table_In in Hk as [ts [Hin [-> _]]]. apply Hok'; auto. }
  rewrite E in Hin0. destruct Hin0 as [->|Hin0]; auto.
  destruct (zincr_inv _ _ Hinc) as [Hlt _]. specialize (Hlt 0 Hin0). lia.
Qed.

(* ------------------------------------- the maps on the whole keypoint range *)
Lemma last_lastz : forall rest x0 d, last (x0 :: rest) d = lastz x0 rest.
Proof. induction rest as [|x1 r IH]; intros x0 d; [reflexivity|]. simpl lastz. rewrite <- (IH x1 d). reflexivity. Qed.

Section Range.
  Variable m : tmode.
  Variable p : part.
  Hypothesis Hwf : wf p.

  Lemma kp_range_timeline : kp_min m p <= p_first p /\ p_last p <= kp_max m p.
  Proof.
    destruct (xs_shape m p Hwf) as [x0 [rest [E [Hne [Hinc [Hf [Hl Hmin]]]]]]].
    unfold kp_max. rewrite E, last_lastz. lia.
  Qed.

  (* every change point (and both ends of the timeline) lies in the range *)
  Lemma kp_range_In k : In k (kp_xs m p) -> kp_min m p <= k <= kp_max m p.
  Proof.
    destruct (xs_shape m p Hwf) as [x0 [rest [E [Hne [Hinc [Hf [Hl Hmin]]]]]]].
    unfold kp_max. rewrite E, last_lastz, Hmin. intros Hin. split.
    - destruct Hin as [->|Hin]; [lia|]. destruct (zincr_inv _ _ Hinc) as [Hlt _]. specialize (Hlt k Hin). lia.
    - apply chainZ_le_last; auto. apply zincr_chain; auto.
  Qed.

  Lemma base_value_all t : kp_min m p <= t <= kp_max m p ->
    exists v, interp (base_pts m p) (inject_Z t) = Some v /\ (v == Fint m p t)%Q.
  Proof.
    intros Ht. destruct (xs_shape m p Hwf) as [x0 [rest [E [Hne [Hinc [Hf [Hl Hmin]]]]]]].
    unfold kp_max in Ht. rewrite E, last_lastz, Hmin in Ht.
    unfold base_pts, Fint. rewrite E, Hmin. simpl.
    assert (Hb : Qle_bool (inject_Z x0) (inject_Z t) = true).
    { apply Qle_bool_iff. apply inject_Z_le. lia. }
    rewrite Hb.
    destruct (interp_cum (rate m p) rest x0 0%Q t) as [v [Hv Heq]]; auto.
    - apply zincr_chain; auto.
    - apply (steps_const_of_keys (rate m p) (x0 :: rest)); auto.
      intros a k Hak Hno. apply rate_change; auto. rewrite E; auto.
    - exists v. split; auto. rewrite Heq. ring.
  Qed.

  Theorem tmap_value_all t : kp_min m p <= t <= kp_max m p ->
    exists v, tmapz m p t = Some v /\ (v == Fint m p t - pickup_shift m p)%Q.
  Proof.
    intros Ht. destruct (base_value_all t Ht) as [a [Ha Heq]].
    pose proof (shift_value m p (inject_Z t)) as H. rewrite Ha in H. unfold tmapz.
    destruct (tmap m p (inject_Z t)) as [b|]; [|contradiction].
    exists b. split; auto. rewrite H, Heq. reflexivity.
  Qed.

  Theorem tmap_diff_all a b va vb : kp_min m p <= a <= b /\ b <= kp_max m p ->
    tmapz m p a = Some va -> tmapz m p b = Some vb -> (vb - va == beats_between m p a b)%Q.
  Proof.
    intros [Hab Hb] Ha Hvb.
    destruct (tmap_value_all a ltac:(lia)) as [va' [Ea Hva]].
    destruct (tmap_value_all b ltac:(lia)) as [vb' [Eb Hvb']].
    rewrite Ha in Ea. rewrite Hvb in Eb. inversion Ea; inversion Eb; subst.
    rewrite Hva, Hvb'. rewrite <- (Fint_diff m p a b) by lia. ring.
  Qed.

  Theorem tmap_strict_all a b va vb : kp_min m p <= a < b /\ b <= kp_max m p ->
    tmapz m p a = Some va -> tmapz m p b = Some vb -> (va < vb)%Q.
  Proof.
    intros H Ha Hb. pose proof (tmap_diff_all a b va vb ltac:(lia) Ha Hb) as D.
    assert (0 < beats_between m p a b)%Q.
    { apply sum_steps_pos; [lia|]. intros k _. apply rate_pos; auto. }
    lra.
  Qed.

  (* outside the keypoint range the maps are undefined (scipy's nan) *)
  Theorem tmap_outside t : t < kp_min m p -> tmapz m p t = None.
  Proof.
    intros Ht. destruct (xs_shape m p Hwf) as [x0 [rest [E [Hne [Hinc [Hf [Hl Hmin]]]]]]].
    unfold tmapz, tmap, time_pts, base_pts. rewrite E. simpl.
    destruct (Qle_bool (inject_Z x0) (inject_Z t)) eqn:B; auto.
    apply Qle_bool_iff in B. rewrite <- Zle_Qle in B. lia.
  Qed.
End Range.

(* ---------------------------------------- calls in time order (the usual way) *)
Lemma last_default_irrelevant {A} : forall (l : list A) a d d', last (a :: l) d = last (a :: l) d'.
Proof. induction l as [|b r IH]; intros a d d'; [reflexivity|]. simpl in *. apply (IH b). Qed.

(* appending a change later than every recorded one *)
Lemma setqd_from_append t q : forall tbl prev, (forall k v, In (k, v) tbl -> k < t) ->
  setqd_from prev t q tbl =
  tbl ++ (if match last (map (fun kv => Some (snd kv)) tbl) prev with Some pv => pv =? q | None => false end
          then [] else [(t, q)]).
Proof.
  induction tbl as [|[k v] r IH]; intros prev Hlt.
  - simpl. destruct prev as [pv|]; auto; destruct (pv =? q); auto.
  - simpl setqd_from. pose proof (Hlt k v (or_introl eq_refl)).
    replace (t <? k) with false by lia. replace (t =? k) with false by lia.
    rewrite IH by (intros k' v' Hin; apply (Hlt k' v'); right; auto).
    simpl app. f_equal.
    destruct r as [|[k1 v1] r1]; [reflexivity|].
    change (map (fun kv : Z * Z => Some (snd kv)) ((k, v) :: (k1, v1) :: r1))
      with (Some v :: map (fun kv : Z * Z => Some (snd kv)) ((k1, v1) :: r1)).
    simpl map. rewrite (last_default_irrelevant _ _ (Some v) prev). reflexivity.
Qed.

(* entering changes in increasing time order, every value different from the one before, leaves
   exactly the list entered: the list "in force" (what the check assumed before histories) *)
Fixpoint chain_changes (k0 v0 : Z) (l : list (Z * Z)) : Prop :=
  match l with
  | [] => True
  | (k, v) :: r => k0 < k /\ v <> v0 /\ chain_changes k v r
  end.

Lemma fold_setqd_time_order : forall l pre k0 v0,
  (forall k v, In (k, v) pre -> k < k0) -> chain_changes k0 v0 l ->
  fold_left (fun tbl w => setqd (fst w) (snd w) tbl) l (pre ++ [(k0, v0)]) = pre ++ (k0, v0) :: l.
Proof.
  induction l as [|[k v] r IH]; intros pre k0 v0 Hpre Hch; simpl; auto.
  destruct Hch as [Hk [Hv Hch]].
  unfold setqd at 2. rewrite setqd_from_append.
  - rewrite map_app. simpl map. rewrite last_last.
    replace (v0 =? v) with false by lia.
    rewrite <- app_assoc. simpl app.
    replace (pre ++ (k0, v0) :: [(k, v)]) with ((pre ++ [(k0, v0)]) ++ [(k, v)]) by (rewrite <- app_assoc; reflexivity).
    rewrite IH; auto.
    + rewrite <- app_assoc. reflexivity.
    + intros k' v' Hin. apply in_app_or in Hin as [Hin|[E|[]]]; [specialize (Hpre k' v' Hin); lia|inversion E; lia].
  - intros k' v' Hin. apply in_app_or in Hin as [Hin|[E|[]]]; [specialize (Hpre k' v' Hin); lia|inversion E; lia].
Qed.

Theorem setq_time_order q0 l : chain_changes 0 q0 l ->
  fold_left (fun tbl w => setqd (fst w) (snd w) tbl) l [(0, q0)] = (0, q0) :: l.
Proof. intros H. apply (fold_setqd_time_order l [] 0 q0); auto. intros k v []. Qed.

(* "before the next change": s is earlier than every recorded change later than t *)
Lemma before_next_spec t s : forall tbl, keys_incr tbl ->
  (before_next t tbl s = true <-> forall k v, In (k, v) tbl -> t < k -> s < k).
Proof.
  unfold before_next. induction tbl as [|[k v] r IH]; intros Hs; simpl.
  - split; auto. intros _ k v [].
  - destruct (t <? k) eqn:E.
    + split.
      * intros H k' v' [Ein|Hin] Hlt; [inversion Ein; subst; lia|].
        pose proof (keys_incr_gt _ _ _ Hs _ _ Hin). lia.
      * intros H. specialize (H k v (or_introl eq_refl)). lia.
    + rewrite (IH (keys_incr_tail _ _ _ Hs)). split.
      * intros H k' v' [Ein|Hin] Hlt; [inversion Ein; subst; lia|eauto].
      * intros H k' v' Hin Hlt. apply (H k' v'); auto; right; auto.
Qed.

(* ------------------------------------------------------------- an example *)
(* the later change entered first, the earlier one with the same value afterwards; a signature
   added after the musical beats were set (it keeps the constructor's default) *)
Definition ex_hist : list hop :=
  [HSetQ 32 8; HAddTs 0 6 8; HBeat (UseMusical [(6, 8, 3); (5, 8, 2)]); HSetQ 16 8; HAddTs 24 5 8; HSetQ 16 2; HSetQ 16 8].

Lemma ex_hist_ok : hist_ok ex_hist.
Proof.
  split.
  - intros op H. simpl in H.
    repeat (destruct H as [<-|H]; [simpl; try lia|]); try contradiction.
    intros b bt v [E|[E|[]]]; inversion E; lia.
  - simpl. repeat constructor; simpl; intuition lia.
Qed.

Example ex_hist_values :
  h_qs (hrun 4 ex_hist) = [(0, 4); (16, 8); (32, 8)] /\
  map ts_mus (h_tss (hrun 4 ex_hist)) = [3; 5] /\ hmode 4 ex_hist = Musical /\
  (exists v, tmapz Quarter (hpart 0 48 4 ex_hist None) 48 = Some v /\ (v == 8)%Q) /\
  (exists v, tmapz (hmode 4 ex_hist) (hpart 0 48 4 ex_hist None) 48 = Some v /\ (v == 11)%Q).
Proof.
  split; [reflexivity|]. split; [reflexivity|]. split; [reflexivity|].
  split; eexists; (split; [vm_compute; reflexivity|reflexivity]).
Qed.

(* ------------------------------------------------- statements for Props/C02.v *)
Theorem setqd_change_times t q tbl k v :
  (In (k, v) (setqd t q tbl) -> (k = t /\ v = q) \/ In (k, v) tbl) /\
  (In (k, v) tbl -> exists v', In (k, v') (setqd t q tbl)).
Proof. split; [apply setqd_keys|apply setqd_keys_kept]. Qed.

Theorem change_points_in_range m p : wf p ->
  (kp_min m p <= p_first p /\ p_last p <= kp_max m p) /\
  (forall k q, In (k, q) (p_qs p) -> kp_min m p <= k <= kp_max m p) /\
  (forall k f, In (k, f) (bt_table m p) -> kp_min m p <= k <= kp_max m p).
Proof.
  intros Hwf. split; [apply kp_range_timeline; auto|]. split.
  - intros k q H. apply kp_range_In; auto. eapply kp_qkey; eauto.
  - intros k f H. apply kp_range_In; auto. eapply kp_btkey; eauto.
Qed.

Theorem hist_maps first last q0 h m1 : 0 < q0 -> hist_ok h -> 0 <= first < last ->
  let p := hpart first last q0 h m1 in let m := hmode q0 h in
  (forall a b va vb, 0 <= a <= b /\ b <= kp_max Quarter p ->
     tmapz Quarter p a = Some va -> tmapz Quarter p b = Some vb -> (vb - va == quarters_between p a b)%Q) /\
  (forall a b va vb, 0 <= a <= b /\ b <= kp_max m p ->
     tmapz m p a = Some va -> tmapz m p b = Some vb -> (vb - va == beats_between m p a b)%Q) /\
  (forall (t v : Q), tmap m p t = Some v -> exists t', tinv m p v = Some t' /\ (t' == t)%Q) /\
  (forall (t v : Q), tmap Quarter p t = Some v -> exists t', tinv Quarter p v = Some t' /\ (t' == t)%Q).
Proof.
  intros Hq0 Hok Hfl p m.
  assert (Hwf : wf p) by (apply hist_wf; auto; lia).
  split; [|split; [|split]].
  - intros a b va vb Hab Ha Hb. rewrite quarters_are_beats_between.
    apply (tmap_diff_all Quarter p Hwf a b va vb); auto.
    unfold p. rewrite hist_kp_min; auto.
  - intros a b va vb Hab Ha Hb. apply (tmap_diff_all m p Hwf a b va vb); auto.
    unfold p. rewrite hist_kp_min; auto.
  - intros t v. apply inv_fwd; auto.
  - intros t v. apply inv_fwd; auto.
Qed.
