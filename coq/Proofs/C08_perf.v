(* C08 proofs, part 3: performed notes over one and two legs, pedal stream *)
From PV Require Import Lib.Base Lib.Round Model.C12 Model.C08 Proofs.C08 Proofs.C08_lines.
From Coq Require Import QArith Qround Qabs Lqa Sorting.Sorted Sorting.Permutation.
#[local] Open Scope Z_scope.

(* ---------------- rounding is monotone ---------------- *)

Lemma Qfloor_mono a b : (a <= b)%Q -> Qfloor a <= Qfloor b.
Proof. apply Qfloor_resp_le. Qed.

Lemma rhe_lo q : Qfloor q <= round_half_even q.
Proof.
  unfold round_half_even. destruct (Qcompare _ _); [destruct (Z.even _)| |]; lia.
Qed.
Lemma rhe_hi q : round_half_even q <= Qfloor q + 1.
Proof.
  unfold round_half_even. destruct (Qcompare _ _); [destruct (Z.even _)| |]; lia.
Qed.

Lemma round_half_even_mono a b : (a <= b)%Q -> round_half_even a <= round_half_even b.
Proof.
  intros H. pose proof (Qfloor_mono a b H) as Hf.
  destruct (Z.eq_dec (Qfloor a) (Qfloor b)) as [E|NE].
  - unfold round_half_even. rewrite <- E.
    set (f := Qfloor a).
    assert (Hr : (a - inject_Z f <= b - inject_Z f)%Q).
    { apply Qplus_le_compat; [exact H | apply Qle_refl]. }
    destruct (Qcompare (a - inject_Z f) half) eqn:Ca;
      [apply Qeq_alt in Ca | apply Qlt_alt in Ca | apply Qgt_alt in Ca];
      (destruct (Qcompare (b - inject_Z f) half) eqn:Cb;
       [apply Qeq_alt in Cb | apply Qlt_alt in Cb | apply Qgt_alt in Cb]);
      try (destruct (Z.even f)); try lia; exfalso; unfold half in *; lra.
  - pose proof (rhe_hi a). pose proof (rhe_lo b). lia.
Qed.

(* ---------------- seconds <-> ticks ---------------- *)

Lemma injZ_pos z : 0 < z -> (0 < inject_Z z)%Q.
Proof. intros H. unfold Qlt. simpl. lia. Qed.

Lemma sec_to_tick_mono ppq mpq t1 t2 :
  0 < ppq -> 0 < mpq -> (t1 <= t2)%Q -> sec_to_tick ppq mpq t1 <= sec_to_tick ppq mpq t2.
Proof.
  intros Hp Hm H. unfold sec_to_tick. apply round_half_even_mono.
  pose proof (injZ_pos (1000000 * ppq) ltac:(lia)) as HA.
  pose proof (injZ_pos mpq Hm) as HM.
  unfold Qdiv. apply Qmult_le_compat_r.
  - apply Qmult_le_l; assumption.
  - apply Qlt_le_weak. apply Qinv_lt_0_compat. exact HM.
Qed.

Lemma tick_to_sec_mono ppq mpq k1 k2 :
  0 < ppq -> 0 < mpq -> k1 <= k2 -> (tick_to_sec ppq mpq k1 <= tick_to_sec ppq mpq k2)%Q.
Proof.
  intros Hp Hm H. unfold tick_to_sec.
  pose proof (injZ_pos (1000000 * ppq) ltac:(lia)) as HA.
  unfold Qdiv. apply Qmult_le_compat_r.
  - rewrite <- Zle_Qle. nia.
  - apply Qlt_le_weak. apply Qinv_lt_0_compat. exact HA.
Qed.

Lemma sec_near ppq mpq t :
  0 < ppq -> 0 < mpq ->
  (Qabs (tick_to_sec ppq mpq (sec_to_tick ppq mpq t) - t) <= half_tick ppq mpq)%Q.
Proof.
  intros Hp Hm.
  pose proof (tick_nearest_c08 ppq mpq t) as N.
  set (k := sec_to_tick ppq mpq t) in *.
  unfold tick_to_sec, half_tick.
  rewrite (inject_Z_mult mpq k), (inject_Z_mult 2 (1000000 * ppq)).
  set (A := inject_Z (1000000 * ppq)) in *. set (M := inject_Z mpq) in *.
  assert (HA : (0 < A)%Q) by (apply injZ_pos; lia).
  assert (HM : (0 < M)%Q) by (apply injZ_pos; lia).
  assert (NA : ~ (A == 0)%Q) by (intros C; rewrite C in HA; discriminate).
  assert (NM : ~ (M == 0)%Q) by (intros C; rewrite C in HM; discriminate).
  assert (E : (M * inject_Z k / A - t == - (A * t / M - inject_Z k) * (M / A))%Q) by (field; split; assumption).
  rewrite E, Qabs_Qmult, Qabs_opp.
  assert (HMA : (0 <= M / A)%Q).
  { apply Qlt_le_weak. unfold Qdiv. apply Qmult_lt_0_compat; [exact HM | apply Qinv_lt_0_compat; exact HA]. }
  rewrite (Qabs_pos (M / A) HMA).
  assert (E2 : (M / (inject_Z 2 * A) == (1 # 2) * (M / A))%Q) by (change (inject_Z 2) with 2%Q; field; exact NA).
  rewrite E2. apply Qmult_le_compat_r; assumption.
Qed.

(* ---------------- one leg, two legs ---------------- *)

Lemma leg_note_lemma ppq mpq p :
  0 < ppq -> 0 < mpq ->
  let r := leg ppq mpq p in
  let kon := sec_to_tick ppq mpq (p_on p) in
  let koff := sec_to_tick ppq mpq (p_off p) in
  p_pitch r = p_pitch p /\ p_vel r = p_vel p /\
  p_stored r = Some (kon, koff) /\
  p_on r = tick_to_sec ppq mpq kon /\ p_off r = tick_to_sec ppq mpq koff /\
  (Qabs (inject_Z (1000000 * ppq) * p_on p / inject_Z mpq - inject_Z kon) <= 1 # 2)%Q /\
  (Qabs (inject_Z (1000000 * ppq) * p_off p / inject_Z mpq - inject_Z koff) <= 1 # 2)%Q /\
  (Qabs (p_on r - p_on p) <= half_tick ppq mpq)%Q /\
  (Qabs (p_off r - p_off p) <= half_tick ppq mpq)%Q.
Proof.
  intros Hp Hm. cbv zeta. unfold leg, imp_note, exp_note. cbn [p_pitch p_vel p_stored p_on p_off f_pitch f_vel f_on f_off].
  repeat split; try reflexivity.
  - apply tick_nearest_c08.
  - apply tick_nearest_c08.
  - apply sec_near; assumption.
  - apply sec_near; assumption.
Qed.

Lemma leg_ignores_stored_lemma ppq mpq pi ve on off st st' :
  leg ppq mpq (mkP pi ve on off st) = leg ppq mpq (mkP pi ve on off st').
Proof. reflexivity. Qed.

Lemma leg_order_lemma ppq mpq p :
  0 < ppq -> 0 < mpq -> (p_on p <= p_off p)%Q ->
  sec_to_tick ppq mpq (p_on p) <= sec_to_tick ppq mpq (p_off p) /\
  (p_on (leg ppq mpq p) <= p_off (leg ppq mpq p))%Q.
Proof.
  intros Hp Hm H. pose proof (sec_to_tick_mono ppq mpq _ _ Hp Hm H) as K.
  split; [exact K|]. unfold leg, imp_note, exp_note. cbn [p_on p_off f_on f_off].
  apply tick_to_sec_mono; assumption.
Qed.

Lemma leg_fixpoint_lemma ppq mpq p :
  0 < ppq -> 0 < mpq -> leg ppq mpq (leg ppq mpq p) = leg ppq mpq p.
Proof.
  intros Hp Hm. unfold leg, imp_note, exp_note. cbn [p_pitch p_vel p_on p_off f_pitch f_vel f_on f_off].
  rewrite !tick_roundtrip_c08 by assumption. reflexivity.
Qed.

Lemma two_legs_close_lemma ppq1 mpq1 ppq2 mpq2 p :
  0 < ppq1 -> 0 < mpq1 -> 0 < ppq2 -> 0 < mpq2 ->
  let r := leg ppq2 mpq2 (leg ppq1 mpq1 p) in
  (Qabs (p_on r - p_on p) <= half_tick ppq1 mpq1 + half_tick ppq2 mpq2)%Q /\
  (Qabs (p_off r - p_off p) <= half_tick ppq1 mpq1 + half_tick ppq2 mpq2)%Q.
Proof.
  intros H1 H2 H3 H4. cbv zeta.
  destruct (leg_note_lemma ppq1 mpq1 p H1 H2) as (_ & _ & _ & _ & _ & _ & _ & A1 & B1).
  destruct (leg_note_lemma ppq2 mpq2 (leg ppq1 mpq1 p) H3 H4) as (_ & _ & _ & _ & _ & _ & _ & A2 & B2).
  split.
  - setoid_replace (p_on (leg ppq2 mpq2 (leg ppq1 mpq1 p)) - p_on p)%Q
      with ((p_on (leg ppq1 mpq1 p) - p_on p) + (p_on (leg ppq2 mpq2 (leg ppq1 mpq1 p)) - p_on (leg ppq1 mpq1 p)))%Q by ring.
    eapply Qle_trans; [apply Qabs_triangle|]. apply Qplus_le_compat; assumption.
  - setoid_replace (p_off (leg ppq2 mpq2 (leg ppq1 mpq1 p)) - p_off p)%Q
      with ((p_off (leg ppq1 mpq1 p) - p_off p) + (p_off (leg ppq2 mpq2 (leg ppq1 mpq1 p)) - p_off (leg ppq1 mpq1 p)))%Q by ring.
    eapply Qle_trans; [apply Qabs_triangle|]. apply Qplus_le_compat; assumption.
Qed.

(* ---------------- pedal stream ---------------- *)

Lemma ins_tick_In e l x : In x (ins_tick e l) <-> x = e \/ In x l.
Proof.
  induction l as [|y r IH]; simpl; [intuition congruence|].
  destruct (ped_tick e <=? ped_tick y); simpl; [intuition congruence|].
  rewrite IH. intuition congruence.
Qed.

Lemma ins_tick_perm e l : Permutation (e :: l) (ins_tick e l).
Proof.
  induction l as [|y r IH]; simpl; [apply Permutation_refl|].
  destruct (ped_tick e <=? ped_tick y); [apply Permutation_refl|].
  eapply perm_trans; [apply perm_swap|]. apply perm_skip. exact IH.
Qed.

Lemma sort_tick_perm l : Permutation l (sort_tick l).
Proof.
  induction l as [|x r IH]; simpl; [constructor|].
  eapply perm_trans; [apply perm_skip; exact IH | apply ins_tick_perm].
Qed.

Lemma ins_tick_sorted e l :
  StronglySorted tick_le l -> StronglySorted tick_le (ins_tick e l).
Proof.
  induction l as [|y r IH]; intros S; simpl.
  - constructor; [constructor | constructor].
  - inversion S as [|? ? Sr Hy]; subst.
    destruct (ped_tick e <=? ped_tick y) eqn:C.
    + apply Z.leb_le in C. constructor; [exact S|].
      constructor; [exact C|]. rewrite Forall_forall in *. intros z Hz. specialize (Hy z Hz).
      unfold tick_le in *. lia.
    + apply Z.leb_gt in C. constructor; [apply IH; exact Sr|].
      rewrite Forall_forall in *. intros z Hz. apply ins_tick_In in Hz as [->|Hz].
      * unfold tick_le. lia.
      * apply Hy; exact Hz.
Qed.

Lemma sort_tick_sorted l : StronglySorted tick_le (sort_tick l).
Proof. induction l as [|x r IH]; simpl; [constructor | apply ins_tick_sorted; exact IH]. Qed.

(* in front of a list whose elements are all at or after e, e stays in front *)
Lemma ins_tick_front e l : (forall z, In z l -> tick_le e z) -> ins_tick e l = e :: l.
Proof.
  destruct l as [|y r]; intros H; simpl; [reflexivity|].
  pose proof (H y (or_introl eq_refl)) as Hy. unfold tick_le in Hy.
  apply Z.leb_le in Hy. rewrite Hy. reflexivity.
Qed.

(* stability: selecting a sub-stream commutes with the sort *)
Lemma filter_ins_tick (p : ped -> bool) e l :
  StronglySorted tick_le l ->
  filter p (ins_tick e l) = if p e then ins_tick e (filter p l) else filter p l.
Proof.
  induction l as [|y r IH]; intros S.
  - simpl. destruct (p e); reflexivity.
  - inversion S as [|? ? Sr Hy]; subst. rewrite Forall_forall in Hy.
    cbn [ins_tick]. destruct (ped_tick e <=? ped_tick y) eqn:C.
    + apply Z.leb_le in C.
      change (filter p (e :: y :: r)) with (if p e then e :: filter p (y :: r) else filter p (y :: r)).
      destruct (p e); [|reflexivity].
      symmetry. apply ins_tick_front. intros z Hz. apply filter_In in Hz as [Hz _].
      destruct Hz as [<-|Hz]; [exact C|]. specialize (Hy z Hz). unfold tick_le in *. lia.
    + pose proof C as C'. apply Z.leb_gt in C.
      change (filter p (y :: ins_tick e r)) with (if p y then y :: filter p (ins_tick e r) else filter p (ins_tick e r)).
      rewrite (IH Sr).
      change (filter p (y :: r)) with (if p y then y :: filter p r else filter p r).
      destruct (p y), (p e); try reflexivity.
      cbn [ins_tick]. rewrite C'. reflexivity.
Qed.

Lemma filter_sort_tick (p : ped -> bool) l : filter p (sort_tick l) = sort_tick (filter p l).
Proof.
  induction l as [|x r IH]; [reflexivity|].
  cbn [sort_tick]. rewrite filter_ins_tick by apply sort_tick_sorted.
  rewrite IH. simpl. destruct (p x); reflexivity.
Qed.

(* first occurrence of every line *)
Lemma ped_eqb_eq a b : ped_eqb a b = true <-> a = b.
Proof.
  destruct a as [[a1 a2] a3], b as [[b1 b2] b3]. unfold ped_eqb, ped_num, ped_tick, ped_val. simpl.
  rewrite !andb_true_iff, !Z.eqb_eq. split; [intros [[-> ->] ->]; reflexivity | intros E; injection E; auto].
Qed.

Lemma pmem_In x l : pmem x l = true <-> In x l.
Proof.
  induction l as [|y r IH]; simpl; [split; [discriminate|contradiction]|].
  rewrite orb_true_iff, IH, ped_eqb_eq. split; intros [H|H]; auto.
Qed.

Lemma pmem_filter (p : ped -> bool) x seen : p x = true -> pmem x (filter p seen) = pmem x seen.
Proof.
  intros P. apply Bool.eq_true_iff_eq. rewrite !pmem_In, filter_In. tauto.
Qed.

Lemma filter_ped_first_aux (p : ped -> bool) seen l :
  filter p (ped_first_aux seen l) = ped_first_aux (filter p seen) (filter p l).
Proof.
  revert seen; induction l as [|x r IH]; intros seen; [reflexivity|].
  cbn [ped_first_aux filter]. destruct (p x) eqn:P.
  - cbn [ped_first_aux]. rewrite (pmem_filter p x seen P).
    destruct (pmem x seen); [apply IH|].
    cbn [filter]. rewrite P, IH. cbn [filter]. rewrite P. reflexivity.
  - destruct (pmem x seen); [apply IH|].
    cbn [filter]. rewrite P, IH. cbn [filter]. rewrite P. reflexivity.
Qed.

Lemma ped_first_aux_In seen l x :
  In x (ped_first_aux seen l) <-> In x l /\ ~ In x seen.
Proof.
  revert seen; induction l as [|y r IH]; intros seen; simpl; [tauto|].
  destruct (pmem y seen) eqn:M.
  - apply pmem_In in M. rewrite IH. split.
    + intros [H1 H2]; auto.
    + intros [[->|H1] H2]; [contradiction | auto].
  - assert (~ In y seen) by (intros C; apply pmem_In in C; congruence).
    simpl. rewrite IH. simpl. split.
    + intros [<-|[H1 H2]]; auto.
    + intros [[<-|H1] H2]; auto.
      destruct (ped_eqb y x) eqn:E; [apply ped_eqb_eq in E; auto|].
      right. split; auto. intros [C|C]; auto.
      subst. rewrite (proj2 (ped_eqb_eq x x) eq_refl) in E. discriminate.
Qed.

Lemma ped_first_aux_id seen l :
  NoDup l -> (forall x, In x l -> ~ In x seen) -> ped_first_aux seen l = l.
Proof.
  revert seen; induction l as [|y r IH]; intros seen ND H; [reflexivity|].
  inversion ND as [|? ? Hn ND']; subst. cbn [ped_first_aux].
  destruct (pmem y seen) eqn:M.
  - apply pmem_In in M. exfalso. exact (H y (or_introl eq_refl) M).
  - f_equal. apply IH; [exact ND'|]. intros x Hx [C|C].
    + subst. contradiction.
    + exact (H x (or_intror Hx) C).
Qed.

Lemma ped_first_aux_sorted seen l :
  StronglySorted tick_le l -> StronglySorted tick_le (ped_first_aux seen l).
Proof.
  revert seen; induction l as [|y r IH]; intros seen S; [constructor|].
  inversion S as [|? ? Sr Hy]; subst. cbn [ped_first_aux].
  destruct (pmem y seen); [apply IH; exact Sr|].
  constructor; [apply IH; exact Sr|].
  rewrite Forall_forall in *. intros z Hz. apply ped_first_aux_In in Hz as [Hz _]. apply Hy; exact Hz.
Qed.

(* controllers *)
Lemma filter_none {A} (p q : A -> bool) l :
  (forall x, p x = true -> q x = false) -> filter p (filter q l) = [].
Proof.
  intros H. induction l as [|x r IH]; simpl; [reflexivity|].
  destruct (q x) eqn:Q; [|exact IH]. simpl.
  destruct (p x) eqn:P; [rewrite (H x P) in Q; discriminate | exact IH].
Qed.

Lemma filter_idem {A} (p : A -> bool) l : filter p (filter p l) = filter p l.
Proof.
  induction l as [|x r IH]; simpl; [reflexivity|].
  destruct (p x) eqn:P; simpl; [rewrite P, IH; reflexivity | exact IH].
Qed.

Lemma filter_map_sec ppq mpq n l :
  filter (cnum_is n) (map (ped_sec ppq mpq) l) = map (ped_sec ppq mpq) (filter (num_is n) l).
Proof.
  induction l as [|x r IH]; simpl; [reflexivity|].
  change (cnum_is n (ped_sec ppq mpq x)) with (num_is n x).
  destruct (num_is n x); simpl; rewrite IH; reflexivity.
Qed.

Lemma filter_sustain_soft n l :
  n = 64 \/ n = 67 ->
  filter (num_is n) (filter (num_is 64) l ++ filter (num_is 67) l) = filter (num_is n) l.
Proof.
  intros [-> | ->]; rewrite filter_app.
  - rewrite filter_idem, (filter_none (num_is 64) (num_is 67)), app_nil_r; [reflexivity|].
    intros x H. unfold num_is in *. apply Z.eqb_eq in H. rewrite H. reflexivity.
  - rewrite filter_idem, (filter_none (num_is 67) (num_is 64)); [reflexivity|].
    intros x H. unfold num_is in *. apply Z.eqb_eq in H. rewrite H. reflexivity.
Qed.

Lemma filter_ped_of1 ppq mpq n c :
  n = 64 \/ n = 67 ->
  filter (num_is n) (ped_of ppq mpq c) = if cnum_is n c then ped_of ppq mpq c else [].
Proof.
  intros Hn. destruct c as [[m t] v]. unfold cnum_is, ctrl_num, ped_of. cbn [fst].
  destruct (m =? n) eqn:E.
  - apply Z.eqb_eq in E. subst m.
    assert (is_pedal n = true) as -> by (destruct Hn as [-> | ->]; reflexivity).
    cbn [filter]. unfold num_is, ped_num. cbn [fst]. rewrite Z.eqb_refl. reflexivity.
  - destruct (is_pedal m); [|reflexivity].
    cbn [filter]. unfold num_is, ped_num. cbn [fst]. rewrite E. reflexivity.
Qed.

Lemma filter_ped_of ppq mpq n cs :
  n = 64 \/ n = 67 ->
  filter (num_is n) (flat_map (ped_of ppq mpq) cs) = flat_map (ped_of ppq mpq) (filter (cnum_is n) cs).
Proof.
  intros Hn. induction cs as [|c r IH]; [reflexivity|].
  cbn [flat_map filter]. rewrite filter_app, IH, (filter_ped_of1 ppq mpq n c Hn).
  destruct (cnum_is n c); reflexivity.
Qed.

(* what is loaded for one controller depends on that controller's events only: ticks of the
   file's clock, stable order by tick, exact repetitions once, seconds of the file's clock *)
Lemma pedal_per_controller_lemma ppq mpq cs n :
  n = 64 \/ n = 67 ->
  filter (cnum_is n) (ped_roundtrip ppq mpq cs)
  = map (ped_sec ppq mpq) (ped_read (ped_lines ppq mpq (filter (cnum_is n) cs))).
Proof.
  intros Hn. unfold ped_roundtrip, ped_load, ped_lines, ped_read.
  rewrite filter_map_sec, (filter_sustain_soft n _ Hn).
  rewrite filter_ped_first_aux. cbn [filter].
  rewrite filter_sort_tick, (filter_ped_of ppq mpq n cs Hn). reflexivity.
Qed.

Lemma pedal_only_pedals_lemma ppq mpq cs c :
  In c (ped_roundtrip ppq mpq cs) -> ctrl_num c = 64 \/ ctrl_num c = 67.
Proof.
  unfold ped_roundtrip, ped_load. intros H. apply in_map_iff in H as [e [<- H]].
  change (ctrl_num (ped_sec ppq mpq e)) with (ped_num e).
  apply in_app_or in H as [H|H]; apply filter_In in H as [_ H]; unfold num_is in H; apply Z.eqb_eq in H; auto.
Qed.

Lemma pedal_file_sorted_lemma ppq mpq cs :
  StronglySorted tick_le (ped_read (ped_lines ppq mpq cs)).
Proof. unfold ped_read, ped_lines. apply ped_first_aux_sorted, sort_tick_sorted. Qed.

(* nothing is lost, nothing invented *)
Lemma pedal_events_lemma ppq mpq cs e :
  In e (ped_read (ped_lines ppq mpq cs)) <-> In e (flat_map (ped_of ppq mpq) cs).
Proof.
  unfold ped_read, ped_lines. rewrite ped_first_aux_In. split.
  - intros [H _]. eapply Permutation_in; [apply Permutation_sym, sort_tick_perm | exact H].
  - intros H. split; [|intros []]. eapply Permutation_in; [apply sort_tick_perm | exact H].
Qed.

Lemma pedal_event_of_control_lemma ppq mpq n t v e cs :
  In (n, t, v) cs -> n = 64 \/ n = 67 -> e = (n, sec_to_tick ppq mpq t, v) ->
  In e (ped_read (ped_lines ppq mpq cs)).
Proof.
  intros H Hn ->. apply pedal_events_lemma. apply in_flat_map. exists (n, t, v). split; [exact H|].
  unfold ped_of. assert (is_pedal n = true) as -> by (destruct Hn as [-> | ->]; reflexivity).
  left; reflexivity.
Qed.

(* without exact repetitions the file holds every event once *)
Lemma pedal_perm_lemma ppq mpq cs :
  NoDup (flat_map (ped_of ppq mpq) cs) ->
  Permutation (flat_map (ped_of ppq mpq) cs) (ped_read (ped_lines ppq mpq cs)).
Proof.
  intros ND. unfold ped_read, ped_lines.
  rewrite ped_first_aux_id.
  - apply sort_tick_perm.
  - eapply Permutation_NoDup; [apply sort_tick_perm | exact ND].
  - intros x _ [].
Qed.
