(* C13 -- the column scan of pianoroll_to_notearray (one pass over the time steps with a dictionary of
   sounding notes) returns the same notes as the row-wise run-length decoder, for every roll. *)
From PV Require Import Lib.Base Lib.Round Model.C13.
From Coq Require Import QArith Qround Qabs Permutation.
From PV Require Import Proofs.C13_lib Proofs.C13 Proofs.C13_decode Proofs.C13_round.
#[local] Open Scope Z_scope.

Definition keys (a : active) : list Z := map fst a.
Definition d_row (x : dnote) : Z := let '(p, _, _, _) := x in p.
Definition is_row (r : Z) (x : dnote) : bool := d_row x =? r.

Lemma NoDup_app_one {A} (l : list A) x : NoDup l -> ~ In x l -> NoDup (l ++ [x]).
Proof.
  intros ND Hn. induction ND as [|y l Hy ND IH]; simpl; [constructor; [intros [] | constructor]|].
  constructor.
  - intros H. apply in_app_or in H as [H|[H|[]]]; [exact (Hy H)|]. subst. apply Hn. left. reflexivity.
  - apply IH. intros H. apply Hn. right. exact H.
Qed.

(* ---------- the dictionary ---------- *)
Lemma act_find_none r a : ~ In r (keys a) -> act_find r a = None.
Proof.
  induction a as [|[r' x] t IH]; simpl; intros H; [reflexivity|].
  destruct (r =? r') eqn:E; [exfalso; apply H; left; lia|]. apply IH. tauto.
Qed.

Lemma act_find_in r a x : act_find r a = Some x -> In (r, x) a.
Proof.
  induction a as [|[r' y] t IH]; simpl; [discriminate|].
  destruct (r =? r') eqn:E.
  - intros H. injection H as ->. left. f_equal. lia.
  - intros H. right. apply IH, H.
Qed.

Lemma act_find_key r a : act_find r a <> None -> In r (keys a).
Proof.
  intros H. destruct (act_find r a) as [x|] eqn:E; [|congruence].
  apply act_find_in in E. apply (in_map fst) in E. exact E.
Qed.

Lemma act_find_app r a b :
  act_find r (a ++ b) = match act_find r a with Some x => Some x | None => act_find r b end.
Proof.
  induction a as [|[r' x] t IH]; simpl; [reflexivity|]. destruct (r =? r'); [reflexivity | exact IH].
Qed.

Lemma act_find_remove_other r r' a : r <> r' -> act_find r (act_remove r' a) = act_find r a.
Proof.
  intros N. induction a as [|[k x] t IH]; simpl; [reflexivity|].
  destruct (r' =? k) eqn:E1; simpl.
  - destruct (r =? k) eqn:E2; [exfalso; lia | reflexivity].
  - destruct (r =? k); [reflexivity | exact IH].
Qed.

Lemma keys_remove_in r a k : In k (keys (act_remove r a)) -> In k (keys a).
Proof.
  induction a as [|[k' x] t IH]; simpl; [auto|].
  destruct (r =? k'); simpl; [auto|]. intros [H|H]; [left; exact H | right; apply IH, H].
Qed.

Lemma in_remove_in r a e : In e (act_remove r a) -> In e a.
Proof.
  induction a as [|[k' x] t IH]; simpl; [auto|].
  destruct (r =? k'); simpl; [auto|]. intros [H|H]; [left; exact H | right; apply IH, H].
Qed.

Lemma remove_NoDup r a : NoDup (keys a) -> NoDup (keys (act_remove r a)) /\ ~ In r (keys (act_remove r a)).
Proof.
  induction a as [|[k x] t IH]; simpl; intros H; [split; [constructor | tauto]|].
  inversion H as [|? ? Hn Ht]; subst. destruct (r =? k) eqn:E.
  - assert (r = k) by lia. subst k. split; assumption.
  - destruct (IH Ht) as [I1 I2]. simpl. split.
    + constructor; [|exact I1]. intros G. apply Hn. apply (keys_remove_in r t k G).
    + intros [G|G]; [lia | exact (I2 G)].
Qed.

Lemma act_find_filter (p : Z -> bool) r a :
  act_find r (filter (fun e : Z * (Z * Z) => p (fst e)) a) = if p r then act_find r a else None.
Proof.
  induction a as [|[k x] t IH]; simpl; [destruct (p r); reflexivity|].
  destruct (r =? k) eqn:E.
  - assert (r = k) by lia. subst k. destruct (p r) eqn:Ep; simpl.
    + rewrite Z.eqb_refl. reflexivity.
    + rewrite IH. rewrite ?Ep. reflexivity.
  - destruct (p k); simpl; [rewrite E|]; exact IH.
Qed.

Lemma keys_filter_in (p : Z * (Z * Z) -> bool) a k : In k (keys (filter p a)) -> In k (keys a).
Proof.
  unfold keys. intros H. apply in_map_iff in H as [e [E He]]. apply filter_In in He as [He _].
  apply in_map_iff. exists e. auto.
Qed.

Lemma filter_keys_NoDup (p : Z * (Z * Z) -> bool) a : NoDup (keys a) -> NoDup (keys (filter p a)).
Proof.
  induction a as [|e t IH]; simpl; intros H; [constructor|].
  inversion H as [|? ? Hn Ht]; subst. destruct (p e); simpl; [|apply IH, Ht].
  constructor; [|apply IH, Ht]. intros G. apply Hn. exact (keys_filter_in p t _ G).
Qed.

(* the notes of row r among those leaving the dictionary *)
Lemma ended_filter (q : Z -> bool) ts r a : NoDup (keys a) ->
  filter (is_row r) (map (ended ts) (filter (fun e : Z * (Z * Z) => q (fst e)) a)) =
  if q r then match act_find r a with Some (v, s) => [(r, s, ts, v)] | None => [] end else [].
Proof.
  induction a as [|[k [v s]] t IH]; simpl; intros H; [destruct (q r); reflexivity|].
  inversion H as [|? ? Hn Ht]; subst. specialize (IH Ht).
  destruct (r =? k) eqn:E.
  - assert (r = k) by lia. subst k. rewrite (act_find_none r t Hn) in IH.
    destruct (q r) eqn:Eq; simpl.
    + unfold is_row at 1. simpl. rewrite Z.eqb_refl. rewrite IH. reflexivity.
    + exact IH.
  - destruct (q k); simpl; [|exact IH].
    unfold is_row at 1. simpl. destruct (k =? r) eqn:E2; [exfalso; lia | exact IH].
Qed.

(* ---------- one row, one column: the step of the row-wise decoder ---------- *)
Definition rstep (x j : Z) (cur : option (Z * Z)) : list run * option (Z * Z) :=
  match cur with
  | None => ([], if x =? 0 then None else Some (x, j))
  | Some (v, a) => if x =? v then ([], cur) else ([(v, a, j)], if x =? 0 then None else Some (x, j))
  end.

Definition flush (j : Z) (cur : option (Z * Z)) : list run :=
  match cur with Some (v, a) => [(v, a, j)] | None => [] end.

Definition rnext (f : Z -> Z) (ts : Z) (s : list run * option (Z * Z)) : list run * option (Z * Z) :=
  let '(e, c) := s in let '(e', c') := rstep (f ts) ts c in (e ++ e', c').

Fixpoint rscan (f : Z -> Z) (n : nat) (ts : Z) (s : list run * option (Z * Z)) : list run * option (Z * Z) :=
  match n with O => s | S k => rscan f k (ts + 1) (rnext f ts s) end.

Lemma rle_step f n j cur :
  rle f (S n) j cur = fst (rstep (f j) j cur) ++ rle f n (j + 1) (snd (rstep (f j) j cur)).
Proof.
  cbn [rle]. unfold rstep. destruct cur as [[v a]|].
  - destruct (f j =? v); reflexivity.
  - reflexivity.
Qed.

Lemma rle_rscan f : forall n ts e c,
  fst (rscan f n ts (e, c)) ++ flush (ts + Z.of_nat n) (snd (rscan f n ts (e, c))) = e ++ rle f n ts c.
Proof.
  induction n as [|n IH]; intros ts e c.
  - cbn [rscan rle fst snd]. rewrite Z.add_0_r. destruct c as [[v a]|]; reflexivity.
  - cbn [rscan]. unfold rnext. destruct (rstep (f ts) ts c) as [e1 c1] eqn:E.
    rewrite rle_step, E. cbn [fst snd]. rewrite app_assoc, <- IH. f_equal. f_equal. lia.
Qed.

(* ---------- invariants of the scan ---------- *)
Section Scan.
  Variable R : list Z.
  Hypothesis R_nodup : NoDup R.

  (* global: distinct keys, keys and finished notes belong to rows of R, stored velocities non-zero *)
  Definition G (s : active * list dnote) : Prop :=
    NoDup (keys (fst s)) /\ (forall k, In k (keys (fst s)) -> In k R) /\
    (forall r v a, In (r, (v, a)) (fst s) -> v <> 0) /\ (forall x, In x (snd s) -> In (d_row x) R).

  (* row r of the scan state is the state (e, c) of the row-wise decoder *)
  Definition P (r : Z) (s : active * list dnote) (t : list run * option (Z * Z)) : Prop :=
    act_find r (fst s) = snd t /\ filter (is_row r) (snd s) = map (box_dn r) (fst t).

  Lemma scan_row_G col ts s r : In r R -> G s -> G (scan_row col ts s r).
  Proof.
    intros Hr [G1 [G2 [G3 G4]]]. unfold scan_row. destruct (col r =? 0) eqn:E0; [repeat split; assumption|].
    destruct s as [ac ou]. cbn [fst snd] in *.
    destruct (act_find r ac) as [[v' a]|] eqn:F.
    - destruct (col r =? v') eqn:Ev; [repeat split; assumption|].
      destruct (remove_NoDup r ac G1) as [N1 N2]. unfold G. cbn [fst snd]. repeat split.
      + unfold keys. rewrite map_app. simpl. apply NoDup_app_one; assumption.
      + intros k Hk. unfold keys in Hk. rewrite map_app in Hk. apply in_app_or in Hk as [Hk|[<-|[]]]; [|exact Hr].
        apply G2. exact (keys_remove_in r ac k Hk).
      + intros r0 v a0 Hin. apply in_app_or in Hin as [Hin|[Hin|[]]].
        * apply (G3 r0 v a0). exact (in_remove_in r ac _ Hin).
        * injection Hin as <- <- <-. lia.
      + intros x Hx. apply in_app_or in Hx as [Hx|[<-|[]]]; [apply G4, Hx | exact Hr].
    - unfold G. cbn [fst snd]. repeat split.
      + unfold keys. rewrite map_app. simpl. apply NoDup_app_one; [exact G1|].
        intros Hk. assert (act_find r ac <> None) as C; [|congruence].
        clear -Hk. induction ac as [|[k x] t IH]; simpl in *; [destruct Hk|].
        destruct (r =? k) eqn:E; [discriminate|]. apply IH. destruct Hk as [Hk|Hk]; [lia | exact Hk].
      + intros k Hk. unfold keys in Hk. rewrite map_app in Hk. apply in_app_or in Hk as [Hk|[<-|[]]]; [apply G2, Hk | exact Hr].
      + intros r0 v a0 Hin. apply in_app_or in Hin as [Hin|[Hin|[]]]; [apply (G3 r0 v a0 Hin)|].
        injection Hin as <- <- <-. lia.
      + exact G4.
  Qed.

  Lemma scan_row_other col ts s r r' : r <> r' ->
    act_find r (fst (scan_row col ts s r')) = act_find r (fst s) /\
    filter (is_row r) (snd (scan_row col ts s r')) = filter (is_row r) (snd s).
  Proof.
    intros N. unfold scan_row. destruct (col r' =? 0); [split; reflexivity|].
    destruct s as [ac ou]. cbn [fst snd].
    destruct (act_find r' ac) as [[v' a]|].
    - destruct (col r' =? v'); [split; reflexivity|]. cbn [fst snd]. split.
      + rewrite act_find_app, (act_find_remove_other r r' ac N). simpl.
        destruct (r =? r') eqn:E; [exfalso; lia|]. destruct (act_find r ac); reflexivity.
      + rewrite filter_app. simpl. unfold is_row at 2. simpl.
        destruct (r' =? r) eqn:E; [exfalso; lia|]. apply app_nil_r.
    - cbn [fst snd]. split; [|reflexivity].
      rewrite act_find_app. simpl. destruct (r =? r') eqn:E; [exfalso; lia|].
      destruct (act_find r ac); reflexivity.
  Qed.

  Lemma fold_others col ts r : forall L s, (forall r', In r' L -> r' <> r /\ In r' R) -> G s ->
    G (fold_left (scan_row col ts) L s) /\
    act_find r (fst (fold_left (scan_row col ts) L s)) = act_find r (fst s) /\
    filter (is_row r) (snd (fold_left (scan_row col ts) L s)) = filter (is_row r) (snd s).
  Proof.
    induction L as [|r' L IH]; intros s HL Gs; simpl; [repeat split; try reflexivity; apply Gs|].
    destruct (HL r' (or_introl eq_refl)) as [N Hr'].
    destruct (scan_row_other col ts s r r' (not_eq_sym N)) as [A1 A2].
    destruct (IH (scan_row col ts s r') (fun x Hx => HL x (or_intror Hx)) (scan_row_G col ts s r' Hr' Gs)) as [B0 [B1 B2]].
    split; [exact B0|]. split; congruence.
  Qed.

  (* the row itself, after the first phase of the column *)
  Lemma scan_row_self col ts s r c : NoDup (keys (fst s)) -> col r <> 0 -> act_find r (fst s) = c ->
    act_find r (fst (scan_row col ts s r)) = snd (rstep (col r) ts c) /\
    filter (is_row r) (snd (scan_row col ts s r)) =
      filter (is_row r) (snd s) ++ map (box_dn r) (fst (rstep (col r) ts c)).
  Proof.
    destruct s as [ac ou]. cbn [fst snd].
    intros ND Hx F. unfold scan_row, rstep. destruct (col r =? 0) eqn:E0; [exfalso; lia|].
    rewrite F. destruct c as [[v' a]|].
    - destruct (col r =? v') eqn:Ev; cbn [fst snd].
      + split; [exact F | symmetry; apply app_nil_r].
      + destruct (remove_NoDup r ac ND) as [_ N2]. split.
        * rewrite act_find_app, (act_find_none _ _ N2). simpl. rewrite Z.eqb_refl. reflexivity.
        * rewrite filter_app. simpl. unfold is_row at 2. simpl. rewrite Z.eqb_refl. reflexivity.
    - cbn [fst snd]. split; [|symmetry; apply app_nil_r].
      rewrite act_find_app, F. simpl. rewrite Z.eqb_refl. reflexivity.
  Qed.

  Lemma scan_col_step col ts s r t : In r R -> G s -> P r s t ->
    G (scan_col R col ts s) /\ P r (scan_col R col ts s) (fst t ++ fst (rstep (col r) ts (snd t)), snd (rstep (col r) ts (snd t))).
  Proof.
    intros Hr Gs [P1 P2]. destruct s as [act out]. destruct t as [e c]. cbn [fst snd] in *.
    destruct Gs as [G1 [G2 [G3 G4]]]. cbn [fst snd] in *.
    unfold scan_col.
    set (kept := filter (fun e0 : Z * (Z * Z) => negb (col (fst e0) =? 0)) act).
    set (gone := filter (fun e0 : Z * (Z * Z) => col (fst e0) =? 0) act).
    set (s1 := ((kept, out ++ map (ended ts) gone) : active * list dnote)).
    assert (G1s : G s1).
    { unfold s1, G. cbn [fst snd]. repeat split.
      - apply filter_keys_NoDup, G1.
      - intros k Hk. apply G2. exact (keys_filter_in _ act k Hk).
      - intros r0 v a Hin. apply filter_In in Hin as [Hin _]. exact (G3 r0 v a Hin).
      - intros x Hx. apply in_app_or in Hx as [Hx|Hx]; [apply G4, Hx|].
        apply in_map_iff in Hx as [[k [v a]] [<- He]]. apply filter_In in He as [He _].
        simpl. apply G2. apply (in_map fst) in He. exact He. }
    assert (F1 : act_find r kept = if negb (col r =? 0) then c else None).
    { unfold kept. rewrite (act_find_filter (fun k => negb (col k =? 0))), P1. reflexivity. }
    assert (O1 : filter (is_row r) (snd s1) =
                 map (box_dn r) e ++ (if col r =? 0 then map (box_dn r) (flush ts c) else [])).
    { unfold s1. cbn [snd]. rewrite filter_app, P2. f_equal.
      unfold gone. rewrite (ended_filter (fun k => col k =? 0) ts r act G1), P1.
      destruct (col r =? 0); [|reflexivity]. destruct c as [[v a]|]; reflexivity. }
    apply in_split in Hr as [L1 [L2 EL]].
    assert (N1 : forall r', In r' L1 -> r' <> r /\ In r' R).
    { intros r' H. split; [|rewrite EL; apply in_or_app; left; exact H].
      intros ->. rewrite EL in R_nodup. apply NoDup_remove_2 in R_nodup. apply R_nodup, in_or_app. left. exact H. }
    assert (N2 : forall r', In r' L2 -> r' <> r /\ In r' R).
    { intros r' H. split; [|rewrite EL; apply in_or_app; right; right; exact H].
      intros ->. rewrite EL in R_nodup. apply NoDup_remove_2 in R_nodup. apply R_nodup, in_or_app. right. exact H. }
    assert (HrR : In r R) by (rewrite EL; apply in_or_app; right; left; reflexivity).
    rewrite EL, fold_left_app. cbn [fold_left].
    destruct (fold_others col ts r L1 s1 N1 G1s) as [Ga [Fa Oa]].
    change (fst s1) with kept in Fa.
    set (sa := fold_left (scan_row col ts) L1 s1) in *.
    pose proof (scan_row_G col ts sa r HrR Ga) as Gb.
    destruct (fold_others col ts r L2 (scan_row col ts sa r) N2 Gb) as [Gc [Fc Oc]].
    split; [exact Gc|]. unfold P. cbn [fst snd]. rewrite Fc, Oc.
    destruct (col r =? 0) eqn:E0.
    - (* the row is silent in this column: scan_row does nothing; phase one did the work *)
      assert (col r = 0) as Z0 by lia.
      assert (Hsame : scan_row col ts sa r = sa) by (unfold scan_row; rewrite E0; reflexivity).
      rewrite Hsame, Fa, Oa, F1, O1. rewrite ?E0. cbn [negb]. rewrite Z0. unfold rstep.
      destruct c as [[v a]|]; cbn [fst snd flush map].
      + assert (v <> 0) by (apply (G3 r v a), act_find_in, P1).
        destruct (0 =? v) eqn:Ev; [exfalso; lia|]. cbn [fst snd Z.eqb map]. split; [reflexivity|]. rewrite map_app. reflexivity.
      + cbn [Z.eqb]. split; [reflexivity | rewrite !app_nil_r; reflexivity].
    - destruct (scan_row_self col ts sa r c) as [S1 S2].
      + apply Ga.
      + lia.
      + rewrite Fa, F1. rewrite ?E0. reflexivity.
      + split; [exact S1|]. rewrite S2, Oa, O1. rewrite ?E0. rewrite app_nil_r, map_app. reflexivity.
  Qed.

  Lemma scan_rscan f : forall n ts s (st : Z -> list run * option (Z * Z)),
    G s -> (forall r, In r R -> P r s (st r)) ->
    G (scan R f n ts s) /\ forall r, In r R -> P r (scan R f n ts s) (rscan (f r) n ts (st r)).
  Proof.
    induction n as [|n IH]; intros ts s st Gs Ps; cbn [scan rscan]; [split; assumption|].
    apply (IH (ts + 1) (scan_col R (fun r => f r ts) ts s) (fun r => rnext (f r) ts (st r))).
    - destruct R as [|r0 R'] eqn:ER.
      + (* no rows: nothing is ever stored *)
        destruct s as [act out]. destruct Gs as [G1 [G2 [G3 G4]]]. cbn [fst snd] in *.
        destruct act as [|[k x] t]; [|exfalso; pose proof (G2 k (or_introl eq_refl)) as X; try rewrite ER in X; exact X].
        unfold scan_col. simpl. rewrite app_nil_r. repeat split; simpl; try tauto; try constructor.
      + rewrite <- ER in *. assert (H0 : In r0 R) by (rewrite ER; left; reflexivity).
        exact (proj1 (scan_col_step (fun r => f r ts) ts s r0 (st r0) H0 Gs (Ps r0 H0))).
    - intros r Hr. unfold rnext. destruct (st r) as [e c] eqn:E.
      pose proof (proj2 (scan_col_step (fun r => f r ts) ts s r (st r) Hr Gs (Ps r Hr))) as Q.
      rewrite E in Q. cbn [fst snd] in Q.
      destruct (rstep (f r ts) ts c) as [e' c']. exact Q.
  Qed.
End Scan.

(* ---------- a list of notes is the union of its rows ---------- *)
Lemma single_hit_list {B} (x : B) (t : Z) R : NoDup R -> In t R ->
  flat_map (fun r => if t =? r then [x] else []) R = [x].
Proof.
  induction R as [|r R IH]; intros ND Hin; [destruct Hin|].
  inversion ND as [|? ? Hn ND']; subst. cbn [flat_map].
  destruct (t =? r) eqn:E.
  - assert (t = r) by lia. subst r.
    replace (flat_map _ R) with (@nil B); [reflexivity|].
    clear -Hn. induction R as [|r R IH]; [reflexivity|]. cbn [flat_map].
    destruct (t =? r) eqn:E; [exfalso; apply Hn; left; lia|]. apply IH. intros H. apply Hn. right. exact H.
  - destruct Hin as [Hin|Hin]; [exfalso; lia|]. exact (IH ND' Hin).
Qed.

Lemma rows_union R : NoDup R -> forall L : list dnote, (forall x, In x L -> In (d_row x) R) ->
  Permutation L (flat_map (fun r => filter (is_row r) L) R).
Proof.
  intros ND. induction L as [|x L IH]; intros H.
  - replace (flat_map _ R) with (@nil dnote); [constructor|].
    clear. induction R as [|r R' IHR]; [reflexivity | cbn [flat_map filter app]; exact IHR].
  - eapply Permutation_trans; [|apply Permutation_sym;
      rewrite (flat_map_ext _ (fun r => (if d_row x =? r then [x] else []) ++ filter (is_row r) L));
      [apply flat_map_app_perm|]].
    + rewrite (single_hit_list x (d_row x) R ND (H x (or_introl eq_refl))).
      cbn [app]. apply perm_skip, IH. intros y Hy. apply H. right. exact Hy.
    + intros r. cbn [filter]. unfold is_row at 1. destruct (d_row x =? r); reflexivity.
Qed.

Lemma zrange_NoDup : forall n lo, NoDup (zrange lo n).
Proof.
  induction n as [|n IH]; intros lo; simpl; constructor; [|apply IH].
  intros H. apply In_zrange in H. lia.
Qed.

Lemma ended_all ts r a : NoDup (keys a) ->
  filter (is_row r) (map (ended ts) a) = map (box_dn r) (flush ts (act_find r a)).
Proof.
  intros ND. pose proof (ended_filter (fun _ => true) ts r a ND) as H. cbv beta in H.
  replace (filter (fun e : Z * (Z * Z) => true) a) with a in H.
  - rewrite H. destruct (act_find r a) as [[v s]|]; reflexivity.
  - clear. induction a as [|e t IH]; simpl; [reflexivity | f_equal; exact IH].
Qed.

(* ---------- the column scan and the row-wise decoder return the same notes ---------- *)
Lemma scan_frames_perm rows cols m :
  Permutation (scan_frames rows cols m) (decode_frames rows cols m).
Proof.
  unfold scan_frames, decode_frames.
  set (R := zrange 0 (Z.to_nat rows)). set (N := Z.to_nat cols).
  pose proof (zrange_NoDup (Z.to_nat rows) 0) as ND. fold R in ND.
  destruct (scan_rscan R ND (cell_at m) N 0 ([], []) (fun _ => ([], None))) as [Gs Ps].
  { unfold G. simpl. repeat split; try tauto. constructor. }
  { intros r _. split; reflexivity. }
  destruct (scan R (cell_at m) N 0 ([], [])) as [act out] eqn:E.
  eapply Permutation_trans; [apply sort_dn_perm|].
  eapply Permutation_trans; [|apply Permutation_sym, sort_dn_perm].
  destruct Gs as [G1 [G2 [G3 G4]]]. cbn [fst snd] in *.
  eapply Permutation_trans.
  { apply (rows_union R ND). intros x Hx. apply in_app_or in Hx as [Hx|Hx]; [apply G4, Hx|].
    apply in_map_iff in Hx as [[k [v a]] [<- He]]. simpl. apply G2. apply (in_map fst) in He. exact He. }
  rewrite (flat_map_ext_In _ (row_runs m cols) R); [apply Permutation_refl|].
  intros r Hr. destruct (Ps r Hr) as [P1 P2]. cbn [fst snd] in *.
  rewrite filter_app, P2, (ended_all _ r act G1), P1, <- map_app.
  pose proof (rle_rscan (cell_at m r) N 0 [] None) as Q. cbn [app] in Q.
  rewrite Z.add_0_l in Q. rewrite Q. reflexivity.
Qed.

Lemma notearray_scan_perm rows cols m td :
  match pianoroll_to_notearray_scan rows cols m td, pianoroll_to_notearray rows cols m td with
  | Some l, Some l' => Permutation l l'
  | None, None => True
  | _, _ => False
  end.
Proof.
  unfold pianoroll_to_notearray_scan, pianoroll_to_notearray.
  destruct (rows =? 128); [apply Permutation_map, scan_frames_perm|].
  destruct (rows =? 88); [apply Permutation_map, scan_frames_perm | exact I].
Qed.
