(* C04 -- proofs about Model/C04.v (score -> MIDI -> score).  See Props/C04.v for the statements. *)
From PV Require Import Lib.Base Lib.Round Model.C04.
From Coq Require Import QArith Qround Permutation.
#[local] Open Scope Z_scope.


(* ---------------- ppq *)
Lemma lcm_list_pos l : (forall q, In q l -> 0 < q) -> 0 < lcm_list l.
Proof.
  induction l as [|a l IH]; simpl; intros H; [lia|].
  assert (0 < a) by (apply H; auto).
  assert (0 < lcm_list l) by (apply IH; intros; apply H; auto).
  pose proof (Z.lcm_nonneg a (lcm_list l)).
  assert (Z.lcm a (lcm_list l) <> 0) by (intro E; apply Z.lcm_eq_0 in E; lia).
  lia.
Qed.

Lemma lcm_list_divide l q : In q l -> (q | lcm_list l).
Proof.
  induction l as [|a l IH]; simpl; intros H; [contradiction|].
  destruct H as [->|H].
  - apply Z.divide_lcm_l.
  - eapply Z.divide_trans; [apply IH; exact H | apply Z.divide_lcm_r].
Qed.

Lemma lcm_list_least l m : (forall q, In q l -> (q | m)) -> (lcm_list l | m).
Proof.
  induction l as [|a l IH]; simpl; intros H.
  - apply Z.divide_1_l.
  - apply Z.lcm_least; [apply H; auto | apply IH; intros; apply H; auto].
Qed.

Lemma double_until_spec fuel : forall ppq mn r,
  double_until fuel ppq mn = Some r -> mn <= r /\ (ppq | r) /\ exists k, r = ppq * 2 ^ (Z.of_nat k).
Proof.
  induction fuel as [|f IH]; intros ppq mn r; cbn [double_until].
  - destruct (mn <=? ppq) eqn:E; intros H; inversion H; subst.
    split; [lia|]. split; [apply Z.divide_refl|]. exists 0%nat. simpl. lia.
  - destruct (mn <=? ppq) eqn:E; intros H.
    + inversion H; subst. split; [lia|]. split; [apply Z.divide_refl|]. exists 0%nat. simpl. lia.
    + apply IH in H as (H1 & H2 & k & H3). split; [exact H1|]. split.
      * eapply Z.divide_trans; [|exact H2]. exists 2. lia.
      * exists (S k). rewrite H3. rewrite Nat2Z.inj_succ, Z.pow_succ_r by lia. lia.
Qed.

Lemma double_until_total fuel : forall ppq mn,
  1 <= ppq -> mn <= ppq + Z.of_nat fuel -> double_until fuel ppq mn <> None.
Proof.
  induction fuel as [|f IH]; intros ppq mn Hp Hm; cbn [double_until].
  - destruct (mn <=? ppq) eqn:E; [discriminate | lia].
  - destruct (mn <=? ppq) eqn:E; [discriminate|].
    apply IH; lia.
Qed.

(* the smallest doubling: below the minimum before the last doubling *)
Lemma double_until_minimal fuel : forall ppq mn r,
  double_until fuel ppq mn = Some r -> r = ppq \/ r / 2 < mn.
Proof.
  induction fuel as [|f IH]; intros ppq mn r; cbn [double_until].
  - destruct (mn <=? ppq); intros H; inversion H; auto.
  - destruct (mn <=? ppq) eqn:E; intros H; [inversion H; auto|].
    apply IH in H as [->|H]; right; [|exact H].
    replace (2 * ppq / 2) with ppq by (rewrite Z.mul_comm, Z.div_mul; lia). lia.
Qed.

Theorem ppq_spec qdurs mn :
  (forall q, In q qdurs -> 0 < q) ->
  exists ppq, model_ppq qdurs mn = Some ppq /\ mn <= ppq /\ 0 < ppq /\
              (forall q, In q qdurs -> (q | ppq)) /\
              (exists k, ppq = lcm_list qdurs * 2 ^ Z.of_nat k) /\
              (ppq = lcm_list qdurs \/ ppq / 2 < mn).
Proof.
  intros Hpos. unfold model_ppq.
  pose proof (lcm_list_pos _ Hpos) as Hl.
  destruct (double_until (Z.to_nat mn) (lcm_list qdurs) mn) as [r|] eqn:E.
  - exists r. split; [reflexivity|].
    pose proof (double_until_minimal _ _ _ _ E) as Hmin.
    apply double_until_spec in E as (H1 & H2 & k & H3).
    split; [exact H1|]. split.
    + rewrite H3. apply Z.mul_pos_pos; [lia|]. apply Z.pow_pos_nonneg; lia.
    + split; [|split; [exists k; exact H3 | exact Hmin]].
      intros q Hq. eapply Z.divide_trans; [apply lcm_list_divide; exact Hq | exact H2].
  - exfalso. revert E. apply double_until_total; lia.
Qed.


Lemma seg_integral a q ppq : 0 < q -> (q | ppq) ->
  (inject_Z ppq * seg a q == inject_Z (a * (ppq / q)))%Q.
Proof.
  intros Hq [c Hc]. subst ppq. rewrite Z.div_mul by lia.
  unfold seg, Qeq, inject_Z, Qmult. cbn [Qnum Qden].
  rewrite Pos.mul_1_l. rewrite Z2Pos.id by lia. ring.
Qed.

Definition qd_ok (ppq : Z) (qd : list (Z * Z)) : Prop :=
  forall t0 q0, In (t0, q0) qd -> 0 < q0 /\ (q0 | ppq).

Lemma qraw_integral ppq qd : qd_ok ppq qd ->
  forall t, exists k, (inject_Z ppq * qraw qd t == inject_Z k)%Q.
Proof.
  induction qd as [|[t0 q0] rest IH]; intros Hok t.
  - exists 0. cbn [qraw]. ring.
  - assert (H0 : 0 < q0 /\ (q0 | ppq)) by (apply (Hok t0 q0); left; reflexivity).
    destruct H0 as [Hq Hd].
    assert (Hrest : qd_ok ppq rest) by (intros a b Hab; apply (Hok a b); right; exact Hab).
    cbn [qraw]. destruct rest as [|[t1 q1] rest'].
    + eexists. apply seg_integral; assumption.
    + destruct (t <=? t1).
      * eexists. apply seg_integral; assumption.
      * destruct (IH Hrest t) as [k Hk].
        exists ((t1 - t0) * (ppq / q0) + k).
        rewrite Qmult_plus_distr_r, Hk, seg_integral by assumption.
        rewrite inject_Z_plus. reflexivity.
Qed.

(* quarter_map values of a part, times ppq, are integers *)
Lemma anac_integral ppq p : qd_ok ppq (p_qd p) -> exists k, (inject_Z ppq * anac p == inject_Z k)%Q.
Proof.
  intros Hok. unfold anac. destruct (p_m1 p) as [[[e b] bt]|].
  - destruct (qlt _ _).
    + apply qraw_integral; exact Hok.
    + exists 0. ring.
  - exists 0. ring.
Qed.

Lemma quarter_integral ppq p t : qd_ok ppq (p_qd p) ->
  exists k, (inject_Z ppq * quarter p t == inject_Z k)%Q.
Proof.
  intros Hok. destruct (qraw_integral ppq _ Hok t) as [k1 H1].
  destruct (anac_integral ppq p Hok) as [k2 H2].
  exists (k1 - k2). unfold quarter.
  setoid_replace (inject_Z ppq * (qraw (p_qd p) t - anac p))%Q
    with (inject_Z ppq * qraw (p_qd p) t - inject_Z ppq * anac p)%Q by ring.
  rewrite H1, H2. unfold Zminus. rewrite inject_Z_plus, inject_Z_opp. reflexivity.
Qed.

Lemma min_first_in ps : ps <> [] -> exists p, In p ps /\ min_first ps = q_first p.
Proof.
  induction ps as [|p r IH]; intros H; [congruence|].
  destruct r as [|p' r'].
  - exists p. split; [left; reflexivity | reflexivity].
  - destruct IH as [p0 [Hin Hq]]; [discriminate|].
    change (min_first (p :: p' :: r')) with (qmin (q_first p) (min_first (p' :: r'))).
    unfold qmin. destruct (Qle_bool _ _).
    + exists p. split; [left; reflexivity | reflexivity].
    + exists p0. split; [right; exact Hin | exact Hq].
Qed.

Definition parts_ok (ppq : Z) (ps : list part) : Prop := forall p, In p ps -> qd_ok ppq (p_qd p).

(* a full bar of the signature in force at 0 is a whole number of ticks *)
Definition bar_ok (ppq : Z) (p : part) : Prop := (snd (p_ts0 p) | 4 * fst (p_ts0 p) * ppq) /\ 0 < snd (p_ts0 p).

Lemma arg_first_in m ps p : arg_first m ps = Some p -> In p ps.
Proof.
  induction ps as [|a r IH]; cbn [arg_first]; [discriminate|].
  destruct (Qeq_bool _ _); intros H; [inversion H; left; reflexivity | right; auto].
Qed.

Lemma ftp_integral ppq an ps : parts_ok ppq ps -> (forall p, In p ps -> bar_ok ppq p) ->
  exists k, (inject_Z ppq * ftp an ps == inject_Z k)%Q.
Proof.
  intros Hok Hbar. unfold ftp.
  destruct (qlt (min_first ps) 0).
  - destruct (an =? 2).
    + destruct (arg_first (min_first ps) ps) as [p|] eqn:E; [|exists 0; ring].
      apply arg_first_in in E. destruct (Hbar p E) as [[c Hc] Hpos].
      destruct (p_ts0 p) as [b bt]. cbn [fst snd] in *.
      exists (- c). unfold Qeq, inject_Z, Qmult, Qopp. cbn [Qnum Qden].
      rewrite Pos.mul_1_l, Z2Pos.id by lia. lia.
    + destruct ps as [|p0 r].
      * exists 0. cbn. ring.
      * destruct (min_first_in (p0 :: r)) as [p [Hin Hq]]; [discriminate|].
        rewrite Hq. unfold q_first. apply quarter_integral. apply Hok; exact Hin.
  - exists 0. ring.
Qed.

(* O2: the exact tick is an integer, and the conversion used by the code returns it *)
Theorem tick_integral ppq an ps p t :
  parts_ok ppq ps -> (forall p, In p ps -> bar_ok ppq p) -> In p ps ->
  exists k, (tick_q ppq (ftp an ps) p t == inject_Z k)%Q /\ tick ppq (ftp an ps) p t = k.
Proof.
  intros Hok Hbar Hin.
  destruct (quarter_integral ppq p t (Hok p Hin)) as [k1 H1].
  destruct (ftp_integral ppq an ps Hok Hbar) as [k2 H2].
  exists (k1 - k2).
  assert (E : (tick_q ppq (ftp an ps) p t == inject_Z (k1 - k2))%Q).
  { unfold tick_q.
    setoid_replace (inject_Z ppq * (quarter p t - ftp an ps))%Q
      with (inject_Z ppq * quarter p t - inject_Z ppq * ftp an ps)%Q by ring.
    rewrite H1, H2. unfold Zminus. rewrite inject_Z_plus, inject_Z_opp. reflexivity. }
  split; [exact E|]. unfold tick. rewrite E. apply round_half_even_Z.
Qed.


(* ---------------- delta times *)
Lemma undelta_delta_from a ts : undelta_from a (delta_from a ts) = ts.
Proof.
  revert a; induction ts as [|t r IH]; intros a; cbn [delta_from undelta_from]; [reflexivity|].
  replace (a + (t - a)) with t by lia. rewrite IH. reflexivity.
Qed.
Theorem undelta_delta ts : undelta (delta ts) = ts.
Proof. apply undelta_delta_from. Qed.

Lemma delta_undelta_from a ds : delta_from a (undelta_from a ds) = ds.
Proof.
  revert a; induction ds as [|d r IH]; intros a; cbn [delta_from undelta_from]; [reflexivity|].
  rewrite IH. f_equal. lia.
Qed.

Fixpoint nondecreasing_from (a : Z) (ts : list Z) : Prop :=
  match ts with [] => True | t :: r => a <= t /\ nondecreasing_from t r end.

Lemma delta_nonneg_from a ts : nondecreasing_from a ts -> Forall (fun d => 0 <= d) (delta_from a ts).
Proof.
  revert a; induction ts as [|t r IH]; intros a H; cbn [delta_from]; constructor.
  - destruct H. lia.
  - apply IH. apply H.
Qed.

Lemma zinsert_nondecr x : forall l a, nondecreasing_from a l -> a <= x -> nondecreasing_from a (zinsert x l).
Proof.
  induction l as [|y r IH]; intros a H Hx; cbn [zinsert].
  - cbn. auto.
  - destruct H as [H1 H2]. destruct (x <=? y) eqn:E.
    + cbn. repeat split; try lia. exact H2.
    + cbn. split; [exact H1|]. apply IH; [exact H2 | lia].
Qed.

Lemma zsort_nondecr l a : (forall x, In x l -> a <= x) -> nondecreasing_from a (zsort l).
Proof.
  induction l as [|x r IH]; intros H; cbn [zsort fold_right]; [exact I|].
  apply zinsert_nondecr; [apply IH; intros; apply H; right; assumption | apply H; left; reflexivity].
Qed.

Lemma absolute_times_from a ms : map m_time (abs_from a ms) = undelta_from a (map m_time ms).
Proof.
  revert a; induction ms as [|m r IH]; intros a; cbn [abs_from map undelta_from]; [reflexivity|].
  rewrite IH. f_equal. destruct m as [[[[t k] x] y] z]. reflexivity.
Qed.

(* ---------------- numbering *)
Section Num.
  Context {A : Type} (eqb : A -> A -> bool).
  Hypothesis eqb_spec : forall x y, eqb x y = true <-> x = y.

  Lemma dedup_In x l : In x (dedup eqb l) <-> In x l.
  Proof.
    induction l as [|a r IH]; cbn [dedup]; [tauto|].
    split.
    - intros [->|H]; [left; reflexivity|]. apply filter_In in H as [H _]. right. apply IH. exact H.
    - intros [->|H]; [left; reflexivity|].
      destruct (eqb a x) eqn:E.
      + left. apply eqb_spec. exact E.
      + right. apply filter_In. split; [apply IH; exact H | rewrite E; reflexivity].
  Qed.

  Lemma dedup_NoDup l : NoDup (dedup eqb l).
  Proof.
    induction l as [|a r IH]; cbn [dedup]; constructor.
    - intros H. apply filter_In in H as [_ H].
      assert (eqb a a = true) by (apply eqb_spec; reflexivity). rewrite H0 in H. discriminate.
    - apply NoDup_filter. exact IH.
  Qed.

  Lemma index_of_nonneg x l : 0 <= index_of eqb x l.
  Proof. induction l as [|a r IH]; cbn [index_of]; [lia|]. destruct (eqb x a); lia. Qed.

  Lemma index_of_lt x l : In x l -> index_of eqb x l < Z.of_nat (List.length l).
  Proof.
    induction l as [|a r IH]; intros H; [contradiction|].
    cbn [index_of List.length]. destruct (eqb x a) eqn:E; [lia|].
    destruct H as [->|H]; [|specialize (IH H); lia].
    assert (eqb x x = true) by (apply eqb_spec; reflexivity). congruence.
  Qed.

  Lemma index_of_inj x y l : In x l -> In y l -> index_of eqb x l = index_of eqb y l -> x = y.
  Proof.
    induction l as [|a r IH]; intros Hx Hy; [contradiction|].
    cbn [index_of]. destruct (eqb x a) eqn:Ex, (eqb y a) eqn:Ey; intros H.
    - apply eqb_spec in Ex, Ey. congruence.
    - pose proof (index_of_nonneg y r). lia.
    - pose proof (index_of_nonneg x r). lia.
    - apply IH; [| |lia].
      + destruct Hx as [->|Hx]; [|exact Hx].
        assert (eqb x x = true) by (apply eqb_spec; reflexivity). congruence.
      + destruct Hy as [->|Hy]; [|exact Hy].
        assert (eqb y y = true) by (apply eqb_spec; reflexivity). congruence.
  Qed.

  (* setdefault numbering: equal numbers iff equal keys; numbers are 0 .. (#distinct keys - 1) *)
  Lemma number_inj x y l : In x l -> In y l -> (number eqb x l = number eqb y l <-> x = y).
  Proof.
    intros Hx Hy. split; [|intros ->; reflexivity].
    unfold number. apply index_of_inj; apply dedup_In; assumption.
  Qed.

  Lemma number_range x l : In x l -> 0 <= number eqb x l < Z.of_nat (List.length (dedup eqb l)).
  Proof.
    intros H. split; [apply index_of_nonneg|]. apply index_of_lt. apply dedup_In. exact H.
  Qed.
End Num.

Lemma zz_eqb_spec x y : zz_eqb x y = true <-> x = y.
Proof.
  destruct x as [a b], y as [c d]. unfold zz_eqb. cbn [fst snd].
  rewrite andb_true_iff, !Z.eqb_eq. split; [intros [-> ->]; reflexivity | intros H; inversion H; auto].
Qed.

Lemma key_eqb_spec x y : key_eqb x y = true <-> x = y.
Proof.
  destruct x as [a b], y as [c d]. unfold key_eqb. cbn [fst snd].
  rewrite andb_true_iff, zz_eqb_spec, Z.eqb_eq. split; [intros [-> ->]; reflexivity | intros H; inversion H; auto].
Qed.

(* the relation of each mode between (group, part, voice) keys *)
Definition mode_rel (mode : Z) (x y : key) : Prop :=
  match mode with
  | 0 => k_part x = k_part y /\ k_voice x = k_voice y
  | 1 => k_grp x = k_grp y /\ k_part x = k_part y
  | 2 => k_part x = k_part y
  | 3 => k_part x = k_part y
  | 4 => True
  | 5 => k_part x = k_part y /\ k_voice x = k_voice y
  | _ => True
  end.

Lemma in_map_filter {B} (f : key -> B) (g : key -> bool) x keys : In x keys -> g x = true -> In (f x) (map f (filter g keys)).
Proof. intros H1 H2. apply in_map. apply filter_In. split; assumption. Qed.

Theorem track_channel_share mode keys x y :
  0 <= mode <= 5 -> In x keys -> In y keys ->
  (track_channel mode keys x = track_channel mode keys y <-> mode_rel mode x y).
Proof.
  intros Hm Hx Hy.
  assert (M : mode = 0 \/ mode = 1 \/ mode = 2 \/ mode = 3 \/ mode = 4 \/ mode = 5) by lia.
  destruct M as [ -> | [ -> | [ -> | [ -> | [ -> | -> ] ] ] ] ]; unfold track_channel, mode_rel; cbv iota beta.
  - split.
    + intros H. pose proof (f_equal fst H) as H1; pose proof (f_equal snd H) as H2; cbn [fst snd] in H1, H2; clear H.
      apply (number_inj Z.eqb Z.eqb_eq) in H1; [|apply in_map; assumption..].
      split; [exact H1|]. rewrite H1 in H2.
      assert (H3 : number Z.eqb (k_voice x) (map k_voice (filter (fun x0 => k_part x0 =? k_part y) keys)) =
                   number Z.eqb (k_voice y) (map k_voice (filter (fun x0 => k_part x0 =? k_part y) keys))) by lia.
      apply (number_inj Z.eqb Z.eqb_eq) in H3; [exact H3| |]; apply in_map_filter; try assumption; lia.
    + intros [H1 H2]. rewrite H1, H2. reflexivity.
  - split.
    + intros H. pose proof (f_equal fst H) as H1; pose proof (f_equal snd H) as H2; cbn [fst snd] in H1, H2; clear H.
      apply (number_inj Z.eqb Z.eqb_eq) in H1; [|apply in_map; assumption..].
      split; [exact H1|]. rewrite H1 in H2.
      assert (H3 : number Z.eqb (k_part x) (map k_part (filter (fun x0 => k_grp x0 =? k_grp y) keys)) =
                   number Z.eqb (k_part y) (map k_part (filter (fun x0 => k_grp x0 =? k_grp y) keys))) by lia.
      apply (number_inj Z.eqb Z.eqb_eq) in H3; [exact H3| |]; apply in_map_filter; try assumption; lia.
    + intros [H1 H2]. rewrite H1, H2. reflexivity.
  - split.
    + intros H. pose proof (f_equal fst H) as H1; pose proof (f_equal snd H) as H2; cbn [fst snd] in H1, H2; clear H.
      assert (H3 : number Z.eqb (k_part x) (map k_part keys) = number Z.eqb (k_part y) (map k_part keys)) by lia.
      apply (number_inj Z.eqb Z.eqb_eq) in H3; [exact H3|apply in_map; assumption..].
    + intros H1. rewrite H1. reflexivity.
  - split.
    + intros H. pose proof (f_equal fst H) as H1; pose proof (f_equal snd H) as H2; cbn [fst snd] in H1, H2; clear H.
      apply (number_inj Z.eqb Z.eqb_eq) in H1; [exact H1|apply in_map; assumption..].
    + intros H1. rewrite H1. reflexivity.
  - tauto.
  - split.
    + intros H. pose proof (f_equal fst H) as H1; pose proof (f_equal snd H) as H2; cbn [fst snd] in H1, H2; clear H.
      apply (number_inj zz_eqb zz_eqb_spec) in H1; [|apply in_map; assumption..].
      unfold k_pv in H1. inversion H1. auto.
    + intros [H1 H2]. unfold k_pv. rewrite H1, H2. reflexivity.
Qed.


Definition import_rel (mode : Z) (x y : Z * Z) : Prop :=
  match mode with
  | 0 => x = y | 1 => x = y | 2 => fst x = fst y | 3 => fst x = fst y | 4 => True | 5 => x = y | _ => True
  end.

Theorem import_gpv_share mode tcs x y :
  0 <= mode <= 5 -> In x tcs -> In y tcs ->
  (import_gpv mode tcs x = import_gpv mode tcs y <-> import_rel mode x y).
Proof.
  intros Hm Hx Hy.
  assert (M : mode = 0 \/ mode = 1 \/ mode = 2 \/ mode = 3 \/ mode = 4 \/ mode = 5) by lia.
  destruct M as [ -> | [ -> | [ -> | [ -> | [ -> | -> ] ] ] ] ]; unfold import_gpv, import_rel; cbv iota beta.
  - split; [|intros ->; reflexivity].
    intros H. pose proof (f_equal (fun t => snd (fst t)) H) as H1; pose proof (f_equal snd H) as H2; cbn [fst snd] in H1, H2; clear H.
    apply (number_inj Z.eqb Z.eqb_eq) in H1; [|apply in_map; assumption..].
    rewrite H1 in H2.
    assert (H3 : number Z.eqb (snd x) (map snd (filter (fun x0 => fst x0 =? fst y) tcs)) =
                 number Z.eqb (snd y) (map snd (filter (fun x0 => fst x0 =? fst y) tcs))) by lia.
    apply (number_inj Z.eqb Z.eqb_eq) in H3.
    + destruct x, y; cbn [fst snd] in *; congruence.
    + apply in_map. apply filter_In. split; [assumption | lia].
    + apply in_map. apply filter_In. split; [assumption | lia].
  - split; [|intros ->; reflexivity].
    intros H. pose proof (f_equal (fun t => snd (fst t)) H) as H1; cbn [fst snd] in H1.
    apply (number_inj zz_eqb zz_eqb_spec) in H1; assumption.
  - split.
    + intros H. pose proof (f_equal snd H) as H2; cbn [fst snd] in H2.
      assert (H3 : number Z.eqb (fst x) (map fst tcs) = number Z.eqb (fst y) (map fst tcs)) by lia.
      apply (number_inj Z.eqb Z.eqb_eq) in H3; [exact H3|apply in_map; assumption..].
    + intros H. rewrite H. reflexivity.
  - split.
    + intros H. pose proof (f_equal (fun t => snd (fst t)) H) as H1; cbn [fst snd] in H1.
      apply (number_inj Z.eqb Z.eqb_eq) in H1; [exact H1|apply in_map; assumption..].
    + intros H. rewrite H. reflexivity.
  - tauto.
  - split; [|intros ->; reflexivity].
    intros H. pose proof (f_equal (fun t => snd (fst t)) H) as H1; cbn [fst snd] in H1.
    apply (number_inj zz_eqb zz_eqb_spec) in H1; assumption.
Qed.

(* export with mode k, import with mode k: two note keys end in the same (group, part, voice) iff they are
   related by mode k's relation -- for every mode except 2 *)
Theorem roundtrip_grouping mode keys tcs x y :
  0 <= mode <= 5 -> mode <> 2 -> In x keys -> In y keys ->
  In (track_channel mode keys x) tcs -> In (track_channel mode keys y) tcs ->
  (import_gpv mode tcs (track_channel mode keys x) = import_gpv mode tcs (track_channel mode keys y)
   <-> mode_rel mode x y).
Proof.
  intros Hm H2 Hx Hy Tx Ty.
  rewrite (import_gpv_share mode tcs _ _ Hm Tx Ty).
  rewrite <- (track_channel_share mode keys x y Hm Hx Hy).
  assert (M : mode = 0 \/ mode = 1 \/ mode = 3 \/ mode = 4 \/ mode = 5) by lia.
  destruct M as [ -> | [ -> | [ -> | [ -> | -> ] ] ] ]; unfold import_rel; cbv iota beta; try tauto.
  all: unfold track_channel; cbv iota beta; cbn [fst]; try tauto.
  all: split; [intros H; rewrite H; reflexivity | intros H; congruence].
Qed.

(* mode 2: export writes parts as channels of one track, import assigns voices by track and ignores the
   channel: notes of different parts end in one part and voice (known finding C04-K1) *)
Theorem mode2_grouping_refuted :
  exists keys tcs x y, In x keys /\ In y keys /\
    In (track_channel 2 keys x) tcs /\ In (track_channel 2 keys y) tcs /\
    import_gpv 2 tcs (track_channel 2 keys x) = import_gpv 2 tcs (track_channel 2 keys y) /\ ~ mode_rel 2 x y.
Proof.
  exists [(1, 1, 1); (2, 2, 1)], [(0, 1); (0, 2)], (1, 1, 1), (2, 2, 1).
  cbn. repeat split; auto. discriminate.
Qed.

Theorem mode2_grouping_coarse keys tcs x y :
  In (track_channel 2 keys x) tcs -> In (track_channel 2 keys y) tcs ->
  import_gpv 2 tcs (track_channel 2 keys x) = import_gpv 2 tcs (track_channel 2 keys y).
Proof.
  intros Tx Ty. apply (import_gpv_share 2 tcs _ _ ltac:(lia) Tx Ty). reflexivity.
Qed.

(* ---------------- pairing *)
Lemma note_hash_inj c1 p1 c2 p2 : 0 <= p1 < 128 -> 0 <= p2 < 128 ->
  note_hash c1 p1 = note_hash c2 p2 -> c1 = c2 /\ p1 = p2.
Proof. unfold note_hash. lia. Qed.

(* nhash, is_note_msg, mhash, proj: see Model/C04.v *)

(* the loop for a single key *)
Fixpoint pair_single (o : option Z) (evs : list msg) : list note :=
  match evs with
  | [] => []
  | (t, kind, ch, pitch, vel) :: r =>
      if (kind =? 1) && (0 <? vel) then pair_single (Some t) r
      else if (kind =? 0) || ((kind =? 1) && (vel =? 0)) then
        match o with
        | Some s => (ch, s, pitch, t - s) :: pair_single None r
        | None => pair_single o r
        end
      else pair_single o r
  end.

Lemma pair_notes_proj h : forall evs open,
  filter (fun n => nhash n =? h) (pair_notes open evs) = pair_single (open h) (proj h evs).
Proof.
  induction evs as [|[[[[t k] ch] p] v] r IH]; intros open; [reflexivity|].
  cbn [pair_notes proj filter is_note_msg mhash].
  destruct ((k =? 1) && (0 <? v)) eqn:Eon.
  - cbn [orb andb]. destruct (note_hash ch p =? h) eqn:Eh.
    + cbn [pair_single]. rewrite Eon. rewrite IH. rewrite Z.eqb_sym, Eh. reflexivity.
    + rewrite IH. rewrite Z.eqb_sym, Eh. reflexivity.
  - cbn [orb]. destruct ((k =? 0) || (k =? 1) && (v =? 0)) eqn:Eoff.
    + cbn [andb]. destruct (note_hash ch p =? h) eqn:Eh.
      * cbn [pair_single]. rewrite Eon, Eoff.
        assert (Hh : note_hash ch p = h) by lia. rewrite Hh.
        destruct (open h) as [s|] eqn:Eo.
        -- cbn [filter nhash]. rewrite Hh, Z.eqb_refl. f_equal. rewrite IH. rewrite Z.eqb_refl. reflexivity.
        -- rewrite IH, Eo. reflexivity.
      * destruct (open (note_hash ch p)) as [s|].
        -- cbn [filter nhash]. rewrite Eh. rewrite IH. rewrite Z.eqb_sym, Eh. reflexivity.
        -- apply IH.
    + cbn [andb]. apply IH.
Qed.

(* the stream a key must show: on, off, on, off, ... ; an "off" is a note_off or a note_on with velocity 0 *)
Definition on_msg (vel : Z) (n : note) : msg := let '(ch, s, p, d) := n in (s, 1, ch, p, vel).
Definition off_msg (as_on : bool) (n : note) : msg := let '(ch, s, p, d) := n in (s + d, if as_on then 1 else 0, ch, p, 0).
Definition bracket (vel : note -> Z) (as_on : note -> bool) (ns : list note) : list msg :=
  flat_map (fun n => [on_msg (vel n) n; off_msg (as_on n) n]) ns.

Lemma pair_single_bracket vel as_on ns : (forall n, 0 < vel n) ->
  pair_single None (bracket vel as_on ns) = ns.
Proof.
  intros Hv. induction ns as [|[[[ch s] p] d] r IH]; [reflexivity|].
  cbn [bracket flat_map app on_msg off_msg pair_single].
  assert (E1 : (1 =? 1) && (0 <? vel (ch, s, p, d)) = true) by (specialize (Hv (ch, s, p, d)); lia).
  rewrite E1.
  assert (E2 : forall b : bool, ((if b then 1 else 0) =? 1) && (0 <? 0) = false) by (intros b; destruct b; reflexivity).
  rewrite E2.
  assert (E3 : forall b : bool, ((if b then 1 else 0) =? 0) || ((if b then 1 else 0) =? 1) && (0 =? 0) = true) by (intros b; destruct b; reflexivity).
  rewrite E3. f_equal; [f_equal; lia|]. exact IH.
Qed.

Definition order_ok (vel : note -> Z) (as_on : note -> bool) (ns : list note) (evs : list msg) : Prop :=
  forall h, exists ks, Permutation ks (filter (fun n => nhash n =? h) ns) /\ proj h evs = bracket vel as_on ks.

Definition note_eq_dec (a b : note) : {a = b} + {a <> b}.
Proof. repeat decide equality. Defined.

Lemma count_occ_filter_hash (l : list note) x :
  count_occ note_eq_dec (filter (fun n => nhash n =? nhash x) l) x = count_occ note_eq_dec l x.
Proof.
  induction l as [|a r IH]; [reflexivity|].
  cbn [filter]. destruct (nhash a =? nhash x) eqn:E.
  - cbn [count_occ]. destruct (note_eq_dec a x); rewrite IH; reflexivity.
  - cbn [count_occ]. destruct (note_eq_dec a x) as [->|]; [rewrite Z.eqb_refl in E; discriminate | exact IH].
Qed.

Theorem pairing_inverts vel as_on ns evs :
  (forall n, 0 < vel n) -> order_ok vel as_on ns evs -> Permutation (pair_notes no_open evs) ns.
Proof.
  intros Hv Hok. apply (Permutation_count_occ note_eq_dec). intros x.
  rewrite <- (count_occ_filter_hash (pair_notes no_open evs) x), <- (count_occ_filter_hash ns x).
  rewrite pair_notes_proj. destruct (Hok (nhash x)) as [ks [Hp He]].
  rewrite He. unfold no_open. rewrite pair_single_bracket by exact Hv.
  apply (Permutation_count_occ note_eq_dec). exact Hp.
Qed.

(* non-overlapping notes of one key, in time order: the alternating stream is in time order *)
Fixpoint chain (a : Z) (ns : list note) : Prop :=
  match ns with
  | [] => True
  | (_, s, _, d) :: r => a <= s /\ 0 <= d /\ chain (s + d) r
  end.

Lemma bracket_time_sorted vel as_on ns a : chain a ns -> nondecreasing_from a (map m_time (bracket vel as_on ns)).
Proof.
  revert a; induction ns as [|[[[ch s] p] d] r IH]; intros a H; [exact I|].
  destruct H as (H1 & H2 & H3). cbn [bracket flat_map app map on_msg off_msg m_time nondecreasing_from].
  split; [exact H1|]. split; [lia|]. apply IH. exact H3.
Qed.

(* the hypothesis is satisfiable by a non-trivial state: two equal-pitch notes abutting at tick 4 (one of
   them ended by a note_on with velocity 0), a grace note of another pitch at tick 4, metas in between *)
Example order_ok_example :
  let ns := [(1, 0, 60, 4); (1, 4, 60, 2); (1, 4, 62, 0)] in
  let evs := [(0, 4, 500000, 0, 0); (0, 1, 1, 60, 30); (4, 1, 1, 60, 0); (4, 1, 1, 62, 30); (4, 0, 1, 62, 0);
              (4, 1, 1, 60, 30); (6, 0, 1, 60, 0)] in
  order_ok (fun _ => 30) (fun n => let '(_, s, _, _) := n in s =? 0) ns evs /\
  pair_notes no_open evs = [(1, 0, 60, 4); (1, 4, 62, 0); (1, 4, 60, 2)].
Proof.
  split; [|reflexivity].
  intros h. destruct (Z.eq_dec h (note_hash 1 60)) as [->|N1].
  - exists [(1, 0, 60, 4); (1, 4, 60, 2)]. split; reflexivity.
  - destruct (Z.eq_dec h (note_hash 1 62)) as [->|N2].
    + exists [(1, 4, 62, 0)]. split; reflexivity.
    + assert (FN : forall {A} (f : A -> bool) l, (forall x, In x l -> f x = false) -> filter f l = []).
      { intros A f l. induction l as [|a r IH]; intros H; [reflexivity|].
        cbn [filter]. rewrite (H a) by (left; reflexivity). apply IH. intros; apply H; right; assumption. }
      unfold note_hash in N1, N2.
      exists []. split.
      * rewrite FN; [reflexivity|]. intros n Hn. cbn [In] in Hn.
        destruct Hn as [<-|[<-|[<-|[]]]]; unfold nhash, note_hash; lia.
      * unfold proj. rewrite FN; [reflexivity|]. intros m Hm. cbn [In] in Hm.
        destruct Hm as [<-|[<-|[<-|[<-|[<-|[<-|[<-|[]]]]]]]]; unfold is_note_msg, mhash, note_hash; lia.
Qed.
