(* C05 -- proofs about the onset column of create_divs_from_beats (Model/C05_Shift.v): the column converts back to the
   input onsets; it is shifted only when an onset is negative. *)
From PV Require Import Lib.Base Model.C05 Model.C05_Ext Model.C05_Shift Proofs.C05_lib Proofs.C05 Proofs.C05_ext.
From Coq Require Import QArith Lia.
#[local] Open Scope Z_scope.

Lemma fold_min_le r : forall x, fold_left Z.min r x <= x /\ Forall (fun v => fold_left Z.min r x <= v) r.
Proof.
  induction r as [|y r IH]; intros x; cbn [fold_left].
  - split; [lia | constructor].
  - destruct (IH (Z.min x y)) as [A B]. split; [lia|]. constructor; [lia | exact B].
Qed.

Lemma fold_min_ge r : forall x b, b <= x -> Forall (fun v => b <= v) r -> b <= fold_left Z.min r x.
Proof.
  induction r as [|y r IH]; intros x b Hx F; cbn [fold_left]; [exact Hx|].
  inversion F; subst. apply IH; [lia | assumption].
Qed.

Lemma fold_min_in r : forall x, In (fold_left Z.min r x) (x :: r).
Proof.
  induction r as [|y r IH]; intros x; cbn [fold_left]; [left; reflexivity|].
  destruct (IH (Z.min x y)) as [E|I].
  - rewrite <- E. destruct (Z.min_spec x y) as [[_ M]|[_ M]]; rewrite M; [left | right; left]; reflexivity.
  - right; right; exact I.
Qed.

Lemma map_sub_0 l : map (fun v => v - 0) l = l.
Proof. induction l as [|x l IH]; [reflexivity|]. cbn [map]. rewrite IH, Z.sub_0_r. reflexivity. Qed.

(* the shift of the code: by one constant c <= 0, which is 0 when no entry is negative; afterwards no entry is negative,
   and a column that was shifted has an entry 0 *)
Lemma shift_nonneg_spec l : exists c,
  shift_nonneg l = map (fun v => v - c) l /\ c <= 0 /\
  (Forall (fun v => 0 <= v) l -> c = 0) /\
  Forall (fun v => 0 <= v) (shift_nonneg l) /\
  (c = 0 \/ In 0 (shift_nonneg l)).
Proof.
  destruct l as [|x r].
  - exists 0. cbn [shift_nonneg map]. split; [reflexivity|]. split; [lia|]. split; [reflexivity|]. split; [constructor | left; reflexivity].
  - cbn [shift_nonneg]. set (mn := fold_left Z.min r x).
    destruct (fold_min_le r x) as [Lx Lr]. fold mn in Lx, Lr.
    destruct (mn <? 0) eqn:E.
    + apply Z.ltb_lt in E. exists mn. split; [reflexivity|]. split; [lia|]. split; [|split].
      * intros F. exfalso. assert (0 <= mn); [|lia]. inversion F; subst. apply fold_min_ge; assumption.
      * apply Forall_forall. intros v Hv. apply in_map_iff in Hv. destruct Hv as (w & <- & Hw).
        destruct Hw as [<-|Hw]; [lia|]. rewrite Forall_forall in Lr. specialize (Lr w Hw). lia.
      * right. apply in_map_iff. exists mn. split; [lia | apply fold_min_in].
    + apply Z.ltb_ge in E. exists 0. split; [symmetry; apply map_sub_0|]. split; [lia|]. split; [reflexivity|]. split; [|left; reflexivity].
      constructor; [lia|]. apply Forall_forall. intros v Hv. rewrite Forall_forall in Lr. specialize (Lr v Hv). lia.
Qed.

Lemma to_div_nonneg d q : 0 < d -> (0 <= q)%Q -> 0 <= to_div d q.
Proof.
  intros Hd Hq. unfold to_div, qden. apply Z.quot_pos; [|lia].
  unfold Qle in Hq. cbn in Hq. nia.
Qed.

Lemma inject_Z_sub a b : (inject_Z (a - b) == inject_Z a - inject_Z b)%Q.
Proof. unfold Z.sub. rewrite inject_Z_plus, inject_Z_opp. reflexivity. Qed.

(* O7, the onset column of create_divs_from_beats for ANY admissible number of divisions (the lcm of the denominators or a
   multiple): it converts back to the input onsets up to one constant, which is zero unless an onset is negative *)
Lemma onset_column_lemma : forall onsets durs d,
  0 < d -> (divs_from_beats onsets durs | d) ->
  onset_column_ok d onsets (fst (divs_columns_at d onsets durs)).
Proof.
  intros onsets durs d Hd Hdiv. unfold divs_columns_at, onset_column_ok. cbn [fst].
  destruct (shift_nonneg_spec (map (to_div d) onsets)) as (c & E & Hc & Z0 & NN & ZZ).
  exists (beat_of_div d c). split; [|split; [|split]].
  - rewrite E, map_map.
    assert (G : forall l, (forall q, In q l -> In q onsets) ->
                Forall2 (fun t q => beat_of_div d t == q - beat_of_div d c)%Q (map (fun q => to_div d q - c) l) l).
    { induction l as [|q l IH]; intros Hl; cbn [map]; constructor.
      - unfold beat_of_div. rewrite inject_Z_sub.
        rewrite (divs_multiple_exact_lemma onsets durs d q Hdiv) by (apply in_or_app; left; apply Hl; left; reflexivity).
        field. apply inject_Z_nonzero. lia.
      - apply IH. intros q' Hq'. apply Hl. right. exact Hq'. }
    apply G. auto.
  - intros F. rewrite Z0; [unfold beat_of_div; cbn; field; apply inject_Z_nonzero; lia|].
    apply Forall_forall. intros v Hv. apply in_map_iff in Hv. destruct Hv as (q & <- & Hq).
    apply to_div_nonneg; [exact Hd|]. rewrite Forall_forall in F. apply F, Hq.
  - exact NN.
  - destruct ZZ as [->|I]; [left | right; exact I].
    unfold beat_of_div. cbn. field. apply inject_Z_nonzero. lia.
Qed.

(* not vacuous: an excerpt that begins at beat 5 keeps its onsets (10, 13, 16 at 2 divisions); a pickup is shifted to 0 *)
Example ex_shift_values :
  divs_from_beats ex_shift_late [1 # 2]%Q = 2 /\ onset_column 2 ex_shift_late = [10; 13; 16] /\
  onset_column 2 ex_shift_pickup = [0; 1; 4].
Proof. vm_compute. auto. Qed.

(* the statement discriminates: shifting whatever the sign of the minimum moves the excerpt to beat 0 *)
Lemma shift_always_refuted_lemma :
  ~ (forall onsets durs d, 0 < d -> (divs_from_beats onsets durs | d) ->
       onset_column_ok d onsets (shift_always (map (to_div d) onsets))).
Proof.
  intros H.
  destruct (H ex_shift_late [1 # 2]%Q 2) as (k & F & K & _); [lia | exists 1; reflexivity |].
  assert (K0 : (k == 0)%Q). { apply K. repeat constructor; discriminate. }
  assert (C : shift_always (map (to_div 2) ex_shift_late) = [0; 3; 6]) by (vm_compute; reflexivity).
  rewrite C in F. unfold ex_shift_late in F. inversion F as [|t q l1 l2 H1 _]; subst.
  rewrite K0 in H1. vm_compute in H1. discriminate H1.
Qed.
