(* C17 (1/3) -- proofs about the ps13 model (Model/C17_Spelling.v). *)
From PV Require Import Lib.Base Gen.C17_PS13 Gen.C17_MidiTab Model.C17_Spelling Proofs.C17_lib.
From Coq Require Import Sorting.Sorted Sorting.Permutation.
#[local] Open Scope Z_scope.

(* ------------------------------------------------------------------ *)
(* p2pn: the spelling sounds the chromatic pitch + 21, whatever the morphetic pitch *)

Lemma p2pn_sounds_lemma : forall cp mp, midi_of (p2pn cp mp) = Some (cp + 21).
Proof.
  intros cp mp. unfold midi_of, p2pn, sp_step, sp_alter, sp_octave. cbn [fst snd].
  pose proof (Z.mod_pos_bound mp 7 ltac:(lia)) as Hb.
  pose proof (Z.div_mod mp 7 ltac:(lia)) as Hd.
  assert (Hc : mp mod 7 = 0 \/ mp mod 7 = 1 \/ mp mod 7 = 2 \/ mp mod 7 = 3 \/
               mp mod 7 = 4 \/ mp mod 7 = 5 \/ mp mod 7 = 6) by lia.
  generalize dependent (mp / 7). intros q Hd.
  destruct Hc as [E|[E|[E|[E|[E|[E|E]]]]]]; rewrite E;
    match goal with |- context [step_pc (step_name ?i)] =>
      let t := eval vm_compute in (step_pc (step_name i)) in change (step_pc (step_name i)) with t end;
    match goal with |- context [ps_tbl ps_und_chroma ?i] =>
      let t := eval vm_compute in (ps_tbl ps_und_chroma i) in change (ps_tbl ps_und_chroma i) with t end;
    match goal with |- context [1 <? ?i] =>
      let t := eval vm_compute in (1 <? i) in change (1 <? i) with t end;
    cbv iota; f_equal; lia.
Qed.

(* shifting the chromatic pitch by an octave shifts the chosen morphetic pitch by 7 *)
Lemma morphetic_pitch_periodic_lemma : forall cp m, morphetic_pitch (cp + 12) m = morphetic_pitch cp m + 7.
Proof.
  intros cp m. unfold morphetic_pitch.
  replace (cp + 12) with (cp + 1 * 12) by lia.
  rewrite Z.div_add, Z.mod_add by lia. lia.
Qed.

Lemma morphetic_pitch_reduce : forall cp m,
  morphetic_pitch cp m = morphetic_pitch (cp mod 12) m + 7 * (cp / 12).
Proof.
  intros cp m. unfold morphetic_pitch.
  rewrite Z.mod_mod by lia.
  rewrite (Z.div_small (cp mod 12) 12) by (apply Z.mod_pos_bound; lia). lia.
Qed.

Lemma alter_periodic : forall cp m, sp_alter (spell_cm cp m) = sp_alter (spell_cm (cp mod 12) m).
Proof.
  intros cp m. unfold spell_cm. rewrite (morphetic_pitch_reduce cp m).
  set (mp0 := morphetic_pitch (cp mod 12) m).
  unfold p2pn, sp_alter. cbn [fst snd].
  replace (mp0 + 7 * (cp / 12)) with (mp0 + (cp / 12) * 7) by lia.
  rewrite Z.mod_add, Z.div_add by lia.
  pose proof (Z.div_mod cp 12 ltac:(lia)). lia.
Qed.

(* ------------------------------------------------------------------ *)
(* the complete sweep: 12 x 12 x 12 (first chroma, note chroma, tonic chroma) *)

Definition alter_ok (a : Z) : bool := (-2 <=? a) && (a <=? 2).

Definition sweep : bool :=
  forallb (fun c0 => forallb (fun c => forallb (fun ct =>
    alter_ok (sp_alter (spell_cm c (mftc c0 c ct)))) (zrange 0 12)) (zrange 0 12)) (zrange 0 12).

Lemma sweep_true : sweep = true.
Proof. vm_compute. reflexivity. Qed.

Lemma sweep_spec : forall c0 c ct, 0 <= c0 < 12 -> 0 <= c < 12 -> 0 <= ct < 12 ->
  -2 <= sp_alter (spell_cm c (mftc c0 c ct)) <= 2.
Proof.
  intros c0 c ct H0 H1 H2. pose proof sweep_true as S. unfold sweep in S.
  pose proof (forallb_In _ _ S c0 (zrange_In 0 12 c0 ltac:(lia))) as S1. cbv beta in S1.
  pose proof (forallb_In _ _ S1 c (zrange_In 0 12 c ltac:(lia))) as S2. cbv beta in S2.
  pose proof (forallb_In _ _ S2 ct (zrange_In 0 12 ct ltac:(lia))) as S3. cbv beta in S3.
  unfold alter_ok in S3. lia.
Qed.

(* ------------------------------------------------------------------ *)
(* the selected morph is the morph of the note under SOME tonic chroma *)

Lemma argmax_first_spec : forall f cands best,
  let r := argmax_first f cands best in
  (r = best \/ In r cands) /\ f best <= f r /\ (forall x, In x cands -> f x <= f r).
Proof.
  intros f cands. induction cands as [|x l IH]; intros best; cbn.
  - repeat split; auto; try lia; try (intros x []; fail).
  - destruct (f best <? f x) eqn:E.
    + specialize (IH x). cbv zeta in IH. destruct IH as [I1 [I2 I3]].
      repeat split.
      * destruct I1 as [->|I1]; auto.
      * zb; lia.
      * intros y [<-|Hy]; auto.
    + specialize (IH best). cbv zeta in IH. destruct IH as [I1 [I2 I3]].
      repeat split.
      * destruct I1 as [->|I1]; auto.
      * lia.
      * intros y [<-|Hy]; [zb; lia | auto].
Qed.

Lemma ps_count_nonneg : forall c w, 0 <= ps_count c w.
Proof.
  intros c w. unfold ps_count. induction w as [|x w IH]; cbn; [lia|].
  destruct (x =? c); lia.
Qed.

Lemma ps_count_In : forall c w, In c w -> 1 <= ps_count c w.
Proof.
  intros c w. induction w as [|x w IH]; [intros []|].
  change (ps_count c (x :: w)) with (if x =? c then ps_count c w + 1 else ps_count c w).
  intros [->|H].
  - rewrite Z.eqb_refl. pose proof (ps_count_nonneg c w). lia.
  - specialize (IH H). destruct (x =? c); lia.
Qed.

Definition strength_over (c0 c : Z) (w : list Z) (m : Z) (l : list Z) : Z :=
  fold_right (fun ct a => if mftc c0 c ct =? m then ps_count ct w + a else a) 0 l.

Lemma strength_over_nonneg : forall c0 c w m l, 0 <= strength_over c0 c w m l.
Proof.
  intros. unfold strength_over. induction l as [|x l IH]; cbn; [lia|].
  pose proof (ps_count_nonneg x w). destruct (mftc c0 c x =? m); lia.
Qed.

Lemma strength_over_ge : forall c0 c w m l ct,
  In ct l -> mftc c0 c ct = m -> ps_count ct w <= strength_over c0 c w m l.
Proof.
  intros c0 c w m l ct. induction l as [|x l IH]; [intros []|].
  change (strength_over c0 c w m (x :: l)) with
    (if mftc c0 c x =? m then ps_count x w + strength_over c0 c w m l else strength_over c0 c w m l).
  intros [->|H] E.
  - rewrite E, Z.eqb_refl. pose proof (strength_over_nonneg c0 c w m l). lia.
  - specialize (IH H E). pose proof (ps_count_nonneg x w).
    destruct (mftc c0 c x =? m); lia.
Qed.

Lemma strength_over_pos : forall c0 c w m l,
  0 < strength_over c0 c w m l -> exists ct, In ct l /\ mftc c0 c ct = m.
Proof.
  intros c0 c w m l. induction l as [|x l IH]; [cbn; lia|].
  change (strength_over c0 c w m (x :: l)) with
    (if mftc c0 c x =? m then ps_count x w + strength_over c0 c w m l else strength_over c0 c w m l).
  destruct (mftc c0 c x =? m) eqn:E.
  - intros _. exists x. split; [left; reflexivity | zb; lia].
  - intros H. destruct (IH H) as [ct [H1 H2]]. exists ct. split; [right|]; assumption.
Qed.

Lemma mftc_range : forall c0 c ct, 0 <= mftc c0 c ct < 7.
Proof. intros. unfold mftc. apply Z.mod_pos_bound. lia. Qed.

(* the note's own chroma is in its context, hence the winning morph has support *)
Lemma select_morph_support : forall c0 c w, 0 <= c < 12 -> In c w ->
  exists ct, 0 <= ct < 12 /\ mftc c0 c ct = select_morph c0 c w.
Proof.
  intros c0 c w Hc Hin. unfold select_morph.
  pose proof (argmax_first_spec (morph_strength c0 c w) (zrange 1 6) 0) as S. cbv zeta in S.
  set (r := argmax_first (morph_strength c0 c w) (zrange 1 6) 0) in *.
  destruct S as [S1 [S2 S3]].
  (* the morph the note has when it is the tonic itself *)
  set (m0 := mftc c0 c c).
  assert (Hm0 : 1 <= morph_strength c0 c w m0).
  { pose proof (strength_over_ge c0 c w m0 (zrange 0 12) c (zrange_In 0 12 c ltac:(lia)) eq_refl).
    pose proof (ps_count_In c w Hin). unfold morph_strength, strength_over in *. lia. }
  assert (Hle : morph_strength c0 c w m0 <= morph_strength c0 c w r).
  { pose proof (mftc_range c0 c c) as Hr. fold m0 in Hr.
    destruct (Z.eq_dec m0 0) as [E|E]; [rewrite E; exact S2|].
    apply S3. apply zrange_In. lia. }
  assert (Hpos : 0 < strength_over c0 c w r (zrange 0 12)) by (unfold morph_strength, strength_over in *; lia).
  destruct (strength_over_pos _ _ _ _ _ Hpos) as [ct [H1 H2]].
  exists ct. split; [|exact H2]. apply zrange_In_inv in H1. lia.
Qed.

(* ------------------------------------------------------------------ *)
(* list plumbing: the context window of note j contains note j *)

Lemma nth_skipn_add : forall {A} lo i (l : list A) d, nth i (skipn lo l) d = nth (lo + i) l d.
Proof.
  intros A lo. induction lo as [|lo IH]; intros i l d; cbn; [reflexivity|].
  destruct l as [|x l]; [destruct i; reflexivity | apply IH].
Qed.

Lemma nth_In_firstn : forall {A} k i (l : list A) d, (i < k)%nat -> (i < List.length l)%nat -> In (nth i l d) (firstn k l).
Proof.
  intros A k. induction k as [|k IH]; intros i l d Hk Hl; [lia|].
  destruct l as [|x l]; cbn in *; [lia|].
  destruct i as [|i]; [left; reflexivity | right; apply IH; lia].
Qed.

Lemma window_contains : forall kpre kpost cs j d, (1 <= kpost)%nat -> (j < List.length cs)%nat ->
  In (nth j cs d) (ps_window kpre kpost cs j).
Proof.
  intros kpre kpost cs j d Hk Hj. unfold ps_window.
  replace (nth j cs d) with (nth (j - (j - kpre)) (skipn (j - kpre) cs) d)
    by (rewrite nth_skipn_add; f_equal; lia).
  apply nth_In_firstn; [lia|]. rewrite skipn_length. lia.
Qed.

(* ------------------------------------------------------------------ *)
(* every entry of the table is p2pn of the row's chromatic pitch and a supported morph *)

Lemma spell_from_spec : forall kpre kpost cs c0, (1 <= kpost)%nat ->
  forall rs j,
  (forall i r, nth_error rs i = Some r ->
     (j + i < List.length cs)%nat /\ nth (j + i) cs 0 = chroma_of_pitch (r_pitch r)) ->
  forall r sp, In (r, sp) (spell_from kpre kpost cs c0 j rs) ->
  exists ct, 0 <= ct < 12 /\
    sp = spell_cm (chromatic_pitch (r_pitch r)) (mftc c0 (chromatic_pitch (r_pitch r) mod 12) ct).
Proof.
  intros kpre kpost cs c0 Hk rs. induction rs as [|r0 rs IH]; intros j Hinv r sp; cbn [spell_from In]; [intros []|].
  intros [E|Hin].
  - inversion E; subst r0 sp; clear E.
    destruct (Hinv 0%nat r eq_refl) as [H1 H2]. rewrite Nat.add_0_r in *.
    assert (Hc : 0 <= chromatic_pitch (r_pitch r) mod 12 < 12) by (apply Z.mod_pos_bound; lia).
    assert (Hw : In (chromatic_pitch (r_pitch r) mod 12) (ps_window kpre kpost cs j)).
    { change (chromatic_pitch (r_pitch r) mod 12) with (chroma_of_pitch (r_pitch r)).
      rewrite <- H2. apply window_contains; assumption. }
    destruct (select_morph_support c0 _ _ Hc Hw) as [ct [Hct Hm]].
    exists ct. split; [exact Hct|]. rewrite Hm. reflexivity.
  - apply (IH (S j)); [|exact Hin].
    intros i r' Hi. specialize (Hinv (S i) r' Hi).
    replace (S j + i)%nat with (j + S i)%nat by lia. exact Hinv.
Qed.

Lemma spell_tab_spec : forall kpre kpost rows r sp, (1 <= kpost)%nat ->
  In (r, sp) (spell_tab kpre kpost rows) ->
  exists c0 ct, 0 <= c0 < 12 /\ 0 <= ct < 12 /\
    sp = spell_cm (chromatic_pitch (r_pitch r)) (mftc c0 (chromatic_pitch (r_pitch r) mod 12) ct).
Proof.
  intros kpre kpost rows r sp Hk. unfold spell_tab.
  set (s := ps_sort rows). set (cs := map (fun r => chroma_of_pitch (r_pitch r)) s).
  intros Hin.
  assert (Hc0 : 0 <= hd 0 cs < 12).
  { subst cs. destruct s as [|x s]; cbn; [lia|]. unfold chroma_of_pitch. apply Z.mod_pos_bound. lia. }
  destruct (spell_from_spec kpre kpost cs (hd 0 cs) Hk s 0%nat) with (r := r) (sp := sp) as [ct [H1 H2]].
  - intros i r' Hi. cbn. subst cs. rewrite map_length. split.
    + apply nth_error_Some. congruence.
    + change 0 with ((fun r => chroma_of_pitch (r_pitch r)) (0, 21, 0)) at 1.
      rewrite map_nth. f_equal. f_equal. apply nth_error_nth. exact Hi.
  - exact Hin.
  - exists (hd 0 cs), ct. auto.
Qed.

Lemma ps13_alter_bounded_lemma : forall kpre kpost rows r sp, (1 <= kpost)%nat ->
  In (r, sp) (spell_tab kpre kpost rows) -> -2 <= sp_alter sp <= 2.
Proof.
  intros kpre kpost rows r sp Hk Hin.
  destruct (spell_tab_spec _ _ _ _ _ Hk Hin) as [c0 [ct [H0 [H1 ->]]]].
  rewrite alter_periodic.
  set (c := chromatic_pitch (r_pitch r) mod 12).
  assert (Hc : 0 <= c < 12) by (apply Z.mod_pos_bound; lia).
  rewrite <- (Z.mod_small c 12 Hc) at 2. fold c.
  replace (c mod 12) with c by (symmetry; apply Z.mod_small; exact Hc).
  apply sweep_spec; assumption.
Qed.

(* pitch preservation does not depend on the heuristic at all: every entry is p2pn of the row's
   chromatic pitch and SOME morphetic pitch (any context sizes, K_post = 0 included) *)
Lemma spell_from_shape : forall kpre kpost cs c0 rs j r sp,
  In (r, sp) (spell_from kpre kpost cs c0 j rs) ->
  exists mp, sp = p2pn (chromatic_pitch (r_pitch r)) mp.
Proof.
  intros kpre kpost cs c0 rs. induction rs as [|r0 rs IH]; intros j r sp; cbn [spell_from In]; [intros []|].
  intros [E|Hin].
  - inversion E; subst r0 sp. unfold spell_cm. eexists. reflexivity.
  - apply (IH (S j)). exact Hin.
Qed.

Lemma ps13_sounds_lemma : forall kpre kpost rows r sp,
  In (r, sp) (spell_tab kpre kpost rows) -> midi_of sp = Some (r_pitch r).
Proof.
  intros kpre kpost rows r sp Hin. unfold spell_tab in Hin.
  destruct (spell_from_shape _ _ _ _ _ _ _ _ Hin) as [mp ->].
  rewrite p2pn_sounds_lemma. unfold chromatic_pitch. f_equal. lia.
Qed.

(* ------------------------------------------------------------------ *)
(* the model's notion of "sounds" is partitura's own: Note(step, octave, alter).midi_pitch,
   tabulated on the complete domain a spelling of a pitch 21..108 can fall in *)

Definition midi_sweep : bool :=
  forallb (fun st => forallb (fun al => forallb (fun oc =>
    match note_midi_pitch st al oc, midi_of_name st al oc with
    | Some a, Some b => a =? b
    | _, _ => false
    end) (zrange 0 9)) (zrange (-2) 5)) ps_steps.

Lemma midi_sweep_true : midi_sweep = true.
Proof. vm_compute. reflexivity. Qed.

Lemma note_midi_pitch_spec : forall st al oc, In st ps_steps -> -2 <= al <= 2 -> 0 <= oc <= 8 ->
  note_midi_pitch st al oc = midi_of_name st al oc /\ midi_of_name st al oc <> None.
Proof.
  intros st al oc Hs Ha Ho. pose proof midi_sweep_true as H. unfold midi_sweep in H.
  pose proof (forallb_In _ _ H st Hs) as H1. cbv beta in H1.
  pose proof (forallb_In _ _ H1 al (zrange_In (-2) 5 al ltac:(lia))) as H2. cbv beta in H2.
  pose proof (forallb_In _ _ H2 oc (zrange_In 0 9 oc ltac:(lia))) as H3. cbv beta in H3.
  destruct (note_midi_pitch st al oc) as [a|]; [|discriminate].
  destruct (midi_of_name st al oc) as [b|]; [|discriminate].
  apply Z.eqb_eq in H3. subst. split; [reflexivity | discriminate].
Qed.

Lemma midi_of_as_name : forall sp, midi_of sp = midi_of_name (step_name (sp_step sp)) (sp_alter sp) (sp_octave sp).
Proof. reflexivity. Qed.

Lemma p2pn_step_range : forall cp mp, 0 <= sp_step (p2pn cp mp) < 7.
Proof. intros cp mp. unfold p2pn, sp_step. cbn [fst]. apply Z.mod_pos_bound. lia. Qed.

Lemma step_name_in : forall i, 0 <= i < 7 -> In (step_name i) ps_steps.
Proof.
  intros i H. unfold step_name. apply nth_In.
  replace (List.length ps_steps) with 7%nat by (vm_compute; reflexivity). lia.
Qed.

(* the pitch class of a step of STEPS is one of 0..11 *)
Lemma step_pc_range : forall i b, 0 <= i < 7 -> step_pc (step_name i) = Some b -> 0 <= b <= 11.
Proof.
  intros i b H.
  assert (Hc : i = 0 \/ i = 1 \/ i = 2 \/ i = 3 \/ i = 4 \/ i = 5 \/ i = 6) by lia.
  destruct Hc as [E|[E|[E|[E|[E|[E|E]]]]]]; subst i;
    match goal with |- step_pc (step_name ?i) = _ -> _ =>
      let t := eval vm_compute in (step_pc (step_name i)) in change (step_pc (step_name i)) with t end;
    intros E; inversion E; lia.
Qed.

(* a note of the piano range 21..108, spelled with any context sizes K_pre, K_post >= 1, is a note
   partitura reads back with exactly the row's MIDI pitch *)
Lemma ps13_note_midi_pitch_lemma : forall kpre kpost rows r sp, (1 <= kpost)%nat ->
  21 <= r_pitch r <= 108 -> In (r, sp) (spell_tab kpre kpost rows) ->
  note_midi_pitch (step_name (sp_step sp)) (sp_alter sp) (sp_octave sp) = Some (r_pitch r).
Proof.
  intros kpre kpost rows r sp Hk Hp Hin.
  pose proof (ps13_sounds_lemma _ _ _ _ _ Hin) as Hs.
  pose proof (ps13_alter_bounded_lemma _ _ _ _ _ Hk Hin) as Ha.
  assert (Hst : 0 <= sp_step sp < 7).
  { unfold spell_tab in Hin. destruct (spell_from_shape _ _ _ _ _ _ _ _ Hin) as [mp ->]. apply p2pn_step_range. }
  rewrite midi_of_as_name in Hs.
  assert (Ho : 0 <= sp_octave sp <= 8).
  { unfold midi_of_name in Hs. destruct (step_pc (step_name (sp_step sp))) as [b|] eqn:Eb; [|discriminate].
    pose proof (step_pc_range _ _ Hst Eb) as Hb.
    assert (Hq : 12 * (sp_octave sp + 1) + b + sp_alter sp = r_pitch r) by congruence.
    clear Hs Eb. lia. }
  destruct (note_midi_pitch_spec _ _ _ (step_name_in _ Hst) Ha Ho) as [E _].
  rewrite E. exact Hs.
Qed.

(* the bound K_post >= 1 of ps13_alter_bounded is sharp: with K_post = 0 a note is not in its own
   context, the first note has an empty one, morph 0 (the step A) wins by default: D#4 (63) alone
   is spelled as A with six sharps *)
Example ps13_alter_kpost0 :
  map named_of (spell_tab 10 0 [(0, 63, 1)]) = [((0, 63, 1), ("A", 6, 3))]%string.
Proof. vm_compute. reflexivity. Qed.

(* ------------------------------------------------------------------ *)
(* the canonical sort and order independence *)

Definition row_le (a b : row) : Prop := row_leb a b = true.

Ltac brk :=
  repeat match goal with
  | |- context [if ?a <? ?b then _ else _] => let E := fresh "E" in destruct (a <? b) eqn:E
  | H : context [if ?a <? ?b then _ else _] |- _ => let E := fresh "E" in destruct (a <? b) eqn:E
  end.

Lemma row_le_total : forall a b, row_le a b \/ row_le b a.
Proof.
  intros [[a1 a2] a3] [[b1 b2] b3]. unfold row_le, row_leb, r_onset, r_pitch, r_dur. cbn [fst snd].
  brk; try (left; reflexivity); try (right; reflexivity); lia.
Qed.

Lemma row_le_trans : forall a b c, row_le a b -> row_le b c -> row_le a c.
Proof.
  intros [[a1 a2] a3] [[b1 b2] b3] [[c1 c2] c3]. unfold row_le, row_leb, r_onset, r_pitch, r_dur. cbn [fst snd].
  intros H1 H2. brk; try reflexivity; try discriminate; lia.
Qed.

Lemma row_le_antisym : forall a b, row_le a b -> row_le b a -> a = b.
Proof.
  intros [[a1 a2] a3] [[b1 b2] b3]. unfold row_le, row_leb, r_onset, r_pitch, r_dur. cbn [fst snd].
  intros H1 H2. brk; try discriminate; zb; repeat f_equal; lia.
Qed.

Lemma ps_insert_perm : forall x l, Permutation (ps_insert x l) (x :: l).
Proof.
  intros x l. induction l as [|y l IH]; cbn; [reflexivity|].
  destruct (row_leb x y); [reflexivity|].
  rewrite IH. apply perm_swap.
Qed.

Lemma ps_sort_perm : forall l, Permutation (ps_sort l) l.
Proof.
  induction l as [|x l IH]; cbn; [reflexivity|].
  rewrite ps_insert_perm. constructor. exact IH.
Qed.

Lemma ps_insert_sorted : forall x l, StronglySorted row_le l -> StronglySorted row_le (ps_insert x l).
Proof.
  intros x l. induction l as [|y l IH]; intros S; cbn.
  - constructor; constructor.
  - inversion S as [|? ? S' F]; subst.
    destruct (row_leb x y) eqn:E.
    + constructor; [exact S|]. constructor; [exact E|].
      rewrite Forall_forall in *. intros z Hz. apply (row_le_trans x y z); [exact E | auto].
    + constructor; [apply IH; exact S'|].
      rewrite Forall_forall in *. intros z Hz.
      apply (Permutation_in _ (ps_insert_perm x l)) in Hz. destruct Hz as [<-|Hz]; [|auto].
      destruct (row_le_total x y) as [H|H]; [unfold row_le in H; congruence | exact H].
Qed.

Lemma ps_sort_sorted : forall l, StronglySorted row_le (ps_sort l).
Proof.
  induction l as [|x l IH]; cbn; [constructor | apply ps_insert_sorted; exact IH].
Qed.

Lemma sorted_perm_eq : forall l1 l2,
  StronglySorted row_le l1 -> StronglySorted row_le l2 -> Permutation l1 l2 -> l1 = l2.
Proof.
  induction l1 as [|x l1 IH]; intros l2 S1 S2 P.
  - apply Permutation_nil in P. auto.
  - destruct l2 as [|y l2]; [apply Permutation_sym, Permutation_nil in P; discriminate|].
    inversion S1 as [|? ? S1' F1]; inversion S2 as [|? ? S2' F2]; subst.
    rewrite Forall_forall in F1, F2.
    assert (x = y).
    { assert (Hx : In x (y :: l2)) by (apply (Permutation_in _ P); left; reflexivity).
      assert (Hy : In y (x :: l1)) by (apply (Permutation_in _ (Permutation_sym P)); left; reflexivity).
      destruct Hx as [->|Hx]; [reflexivity|]. destruct Hy as [->|Hy]; [reflexivity|].
      apply row_le_antisym; auto. }
    subst y. f_equal. apply IH; auto. apply Permutation_cons_inv in P. exact P.
Qed.

Lemma ps_sort_perm_eq : forall l l', Permutation l l' -> ps_sort l = ps_sort l'.
Proof.
  intros l l' P. apply sorted_perm_eq; try apply ps_sort_sorted.
  rewrite (ps_sort_perm l), P. symmetry. apply ps_sort_perm.
Qed.

Lemma ps13_perm_invariant_lemma : forall kpre kpost rows rows',
  Permutation rows rows' -> spell_tab kpre kpost rows = spell_tab kpre kpost rows'.
Proof.
  intros kpre kpost rows rows' P. unfold spell_tab. rewrite (ps_sort_perm_eq _ _ P). reflexivity.
Qed.

(* the table lists the rows themselves (in canonical order): every note is spelled *)
Lemma spell_from_fst : forall kpre kpost cs c0 rs j, map fst (spell_from kpre kpost cs c0 j rs) = rs.
Proof.
  intros kpre kpost cs c0 rs. induction rs as [|r rs IH]; intros j; cbn; [reflexivity|].
  f_equal. apply IH.
Qed.

Lemma spell_tab_fst : forall kpre kpost rows, map fst (spell_tab kpre kpost rows) = ps_sort rows.
Proof. intros. unfold spell_tab. apply spell_from_fst. Qed.

Lemma ps13_total_lemma : forall kpre kpost rows r, In r rows -> exists sp, In (r, sp) (spell_tab kpre kpost rows).
Proof.
  intros kpre kpost rows r Hin.
  assert (H : In r (map fst (spell_tab kpre kpost rows))).
  { rewrite spell_tab_fst. apply (Permutation_in _ (Permutation_sym (ps_sort_perm rows))). exact Hin. }
  apply in_map_iff in H. destruct H as [[r' sp] [E H]]. cbn in E. subst r'. exists sp. exact H.
Qed.

Lemma NoDup_map_fst_functional : forall {A B} (l : list (A * B)) a b b',
  NoDup (map fst l) -> In (a, b) l -> In (a, b') l -> b = b'.
Proof.
  intros A B l. induction l as [|[x y] l IH]; intros a b b' N H1 H2; [destruct H1|].
  cbn in N. inversion N as [|? ? N1 N2]; subst.
  destruct H1 as [E1|H1]; destruct H2 as [E2|H2].
  - congruence.
  - inversion E1; subst. exfalso. apply N1. apply in_map_iff. exists (a, b'). auto.
  - inversion E2; subst. exfalso. apply N1. apply in_map_iff. exists (a, b). auto.
  - eapply IH; eauto.
Qed.

(* rows that are pairwise different (as (onset, pitch, duration) triples): each note has ONE
   spelling, and it is the same whatever the order of the rows *)
Lemma ps13_order_independent_lemma : forall kpre kpost rows rows',
  Permutation rows rows' -> NoDup rows ->
  forall r s s', In (r, s) (spell_tab kpre kpost rows) -> In (r, s') (spell_tab kpre kpost rows') -> s = s'.
Proof.
  intros kpre kpost rows rows' P N r s s' H1 H2.
  rewrite <- (ps13_perm_invariant_lemma kpre kpost rows rows' P) in H2.
  apply (NoDup_map_fst_functional (spell_tab kpre kpost rows) r s s'); auto.
  rewrite spell_tab_fst. apply (Permutation_NoDup (Permutation_sym (ps_sort_perm rows))). exact N.
Qed.

(* hypotheses are satisfiable by a non-trivial input; the model evaluates *)
Example spell_example :
  map named_of (spell_default [(0, 61, 1); (0, 64, 1); (1, 68, 2); (1, 57, 2); (0, 61, 2)])
  = [((0, 61, 1), ("C", 1, 4)); ((0, 61, 2), ("C", 1, 4)); ((0, 64, 1), ("E", 0, 4));
     ((1, 57, 2), ("A", 0, 3)); ((1, 68, 2), ("G", 1, 4))]%string.
Proof. vm_compute. reflexivity. Qed.
