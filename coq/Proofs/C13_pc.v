(* C13 -- proofs about the pitch-class fold and its normalisation. *)
From PV Require Import Lib.Base Lib.Round Model.C13.
From Coq Require Import QArith Qround Qabs Permutation.
From PV Require Import Proofs.C13_lib Proofs.C13.
#[local] Open Scope Z_scope.

(* ---------- octave fold ---------- *)
Lemma fold_spec_lemma o ns R : make_pianoroll o ns = Some R -> r_rows R = 128 ->
  forall c j, 0 <= c < 12 ->
  pc_cell (r_cells R) c j =
  zsum (map (fun k => if c + 12 * k <? 128 then cell_spec o ns (c + 12 * k) j else 0) (zrange 0 11)).
Proof.
  intros H Hr c j Hc. unfold pc_cell, zsum. f_equal. apply map_ext_in. intros k Hk.
  destruct (c + 12 * k <? 128) eqn:E; [|reflexivity].
  apply (roll_spec_lemma _ _ _ H). rewrite Hr.
  assert (0 <= k) by (simpl in Hk; lia). lia.
Qed.

(* every row of the full roll is counted in exactly one pitch class *)
Lemma fold_partition_lemma r : 0 <= r < 128 ->
  0 <= r mod 12 < 12 /\ 0 <= r / 12 < 11 /\ r = r mod 12 + 12 * (r / 12).
Proof. intros H. lia. Qed.

(* ---------- normalisation ---------- *)
Definition qsum (l : list Q) : Q := fold_right Qplus 0%Q l.

Lemma fold_left_add l : forall a, fold_left Z.add l a = a + fold_right Z.add 0 l.
Proof. induction l as [|x l IH]; intros a; simpl; [lia | rewrite IH; lia]. Qed.

Lemma qsum_div l (q : Q) :
  (qsum (map (fun x => inject_Z x / q) l) == inject_Z (zsum l) / q)%Q.
Proof.
  unfold zsum. rewrite fold_left_add, Z.add_0_l.
  induction l as [|x l IH]; simpl.
  - unfold Qdiv. rewrite Qmult_0_l. reflexivity.
  - rewrite IH, inject_Z_plus. unfold Qdiv. ring.
Qed.

Lemma pc_values_col m b j :
  map (fun c => pc_value m b true c j) (zrange 0 12) =
  map (fun x => (inject_Z x / inject_Z (pc_norm m b j))%Q) (pc_col m b j).
Proof. unfold pc_col. rewrite map_map. reflexivity. Qed.

Lemma normalise_sum_lemma m b j : zsum (pc_col m b j) <> 0 ->
  (qsum (map (fun c => pc_value m b true c j) (zrange 0 12)) == 1)%Q.
Proof.
  intros H. rewrite pc_values_col, qsum_div. unfold pc_norm.
  destruct (zsum (pc_col m b j) =? 0) eqn:E; [lia|].
  apply Qmult_inv_r. intros Q. apply H.
  unfold Qeq in Q. simpl in Q. lia.
Qed.

Lemma normalise_empty_lemma m b j c : zsum (pc_col m b j) = 0 ->
  (pc_value m b true c j == inject_Z (pc_bin b (pc_cell m c j)))%Q.
Proof.
  intros H. unfold pc_value, pc_norm. rewrite H. simpl. unfold Qdiv. change (/ inject_Z 1)%Q with 1%Q. ring.
Qed.

Lemma pc_unnormalised_lemma m b c j : pc_value m b false c j = inject_Z (pc_bin b (pc_cell m c j)).
Proof. reflexivity. Qed.

Lemma pc_binary_lemma x : pc_bin true x = 1 \/ pc_bin true x <= 0.
Proof. unfold pc_bin. destruct (0 <? x) eqn:E; [left; reflexivity | right; lia]. Qed.

(* the source of the pitch-class roll is the full roll: 128 rows, drums removed, index rows folded *)
Lemma pc_source_lemma p a R : pc_source p a = Some R ->
  exists R0, compute_pianoroll
               (mkCopts (p_time_unit p) (p_time_div p) true
                  (mkOpts 1 (p_onset_only p) (p_note_sep p) (-1) (p_time_margin p) false
                          (p_remove_silence p) (p_end_time p) false)) a = Some R0 /\
    r_rows R = r_rows R0 /\ r_cols R = r_cols R0 /\ r_cells R = r_cells R0 /\
    r_idx R = map (fun x : idxrow => let '(r0, a0, b0, p0) := x in (r0 mod 12, a0, b0, p0)) (r_idx R0).
Proof.
  unfold pc_source. destruct (compute_pianoroll _ a) as [R0|]; [|discriminate].
  intros H. injection H as <-. exists R0. repeat split; reflexivity.
Qed.

