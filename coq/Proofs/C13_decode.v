(* C13 -- proofs about run-length decoding (pianoroll_to_notearray). *)
From PV Require Import Lib.Base Lib.Round Model.C13.
From Coq Require Import QArith Qround Qabs Permutation.
From PV Require Import Proofs.C13_lib Proofs.C13.
#[local] Open Scope Z_scope.

Lemma decode_rejects_lemma rows cols m td : rows <> 128 -> rows <> 88 ->
  pianoroll_to_notearray rows cols m td = None.
Proof.
  intros H1 H2. unfold pianoroll_to_notearray.
  destruct (rows =? 128) eqn:E1; [lia|]. destruct (rows =? 88) eqn:E2; [lia|]. reflexivity.
Qed.

(* ---------- scanning lemmas ---------- *)
Lemma rle_zeros f k : forall n j,
  (forall i, j <= i < j + Z.of_nat k -> f i = 0) ->
  rle f (k + n) j None = rle f n (j + Z.of_nat k) None.
Proof.
  induction k as [|k IH]; intros n j H.
  - simpl. f_equal. lia.
  - cbn [Nat.add rle]. rewrite (H j) by lia. cbn [Z.eqb].
    rewrite IH by (intros i Hi; apply H; lia). f_equal. lia.
Qed.

Lemma rle_run f k : forall n j v a,
  (forall i, j <= i < j + Z.of_nat k -> f i = v) ->
  rle f (k + n) j (Some (v, a)) = rle f n (j + Z.of_nat k) (Some (v, a)).
Proof.
  induction k as [|k IH]; intros n j v a H.
  - simpl. f_equal. lia.
  - cbn [Nat.add rle]. rewrite (H j) by lia. rewrite Z.eqb_refl.
    rewrite IH by (intros i Hi; apply H; lia). f_equal. lia.
Qed.

(* a row painted from runs listed in onset order *)
Fixpoint paint (bs : list run) (j : Z) : Z :=
  match bs with
  | [] => 0
  | (v, a, b) :: r => if (a <=? j) && (j <? b) then v else paint r j
  end.

(* runs in onset order inside [lo, n), non-empty, non-zero, each separated from the next by at least
   one empty frame (non-touching) *)
Fixpoint chain (lo : Z) (bs : list run) (n : Z) : Prop :=
  match bs with
  | [] => True
  | (v, a, b) :: r => lo <= a /\ a < b /\ b <= n /\ v <> 0 /\ chain (b + 1) r n
  end.

Lemma paint_before bs : forall lo n i, chain lo bs n -> i < lo -> paint bs i = 0.
Proof.
  induction bs as [|[[v a] b] r IH]; intros lo n i H Hi; [reflexivity|].
  simpl in *. destruct H as [H1 [H2 [H3 [H4 H5]]]].
  destruct ((a <=? i) && (i <? b)) eqn:E; [exfalso; lia|].
  apply (IH (b + 1) n); [exact H5 | lia].
Qed.

Lemma chain_past_end bs n lo : chain lo bs n -> n < lo -> bs = [].
Proof.
  destruct bs as [|[[v a] b] r]; [reflexivity|]. simpl. intros [H1 [H2 [H3 _]]] H. exfalso. lia.
Qed.

Lemma rle_paint_lemma f N bs : forall j,
  0 <= j <= N -> chain j bs N -> (forall i, j <= i < N -> f i = paint bs i) ->
  rle f (Z.to_nat (N - j)) j None = bs.
Proof.
  induction bs as [|[[v a] b] r IH]; intros j Hj Hc Hf.
  - replace (Z.to_nat (N - j)) with (Z.to_nat (N - j) + 0)%nat by lia.
    rewrite rle_zeros; [reflexivity|]. intros i Hi. rewrite Hf by lia. reflexivity.
  - simpl in Hc. destruct Hc as [H1 [H2 [H3 [H4 H5]]]].
    (* zeros on [j, a) *)
    replace (Z.to_nat (N - j)) with (Z.to_nat (a - j) + Z.to_nat (N - a))%nat by lia.
    rewrite rle_zeros.
    2:{ intros i Hi. rewrite Hf by lia. simpl.
        destruct ((a <=? i) && (i <? b)) eqn:E; [exfalso; lia|].
        apply (paint_before r (b + 1) N); [exact H5 | lia]. }
    replace (j + Z.of_nat (Z.to_nat (a - j))) with a by lia.
    (* the onset frame *)
    replace (Z.to_nat (N - a)) with (S (Z.to_nat (N - (a + 1)))) by lia.
    cbn [rle].
    assert (Fa : forall i, a <= i < b -> f i = v).
    { intros i Hi. rewrite Hf by lia. simpl. destruct ((a <=? i) && (i <? b)) eqn:E; [reflexivity | exfalso; lia]. }
    rewrite (Fa a) by lia. destruct (v =? 0) eqn:Ev; [exfalso; lia|].
    (* the rest of the run *)
    replace (Z.to_nat (N - (a + 1))) with (Z.to_nat (b - (a + 1)) + Z.to_nat (N - b))%nat by lia.
    rewrite rle_run by (intros i Hi; apply Fa; lia).
    replace (a + 1 + Z.of_nat (Z.to_nat (b - (a + 1)))) with b by lia.
    destruct (Z.eq_dec b N) as [->|Hb].
    + rewrite Z.sub_diag. simpl. rewrite (chain_past_end r N (N + 1) H5) by lia. reflexivity.
    + replace (Z.to_nat (N - b)) with (S (Z.to_nat (N - (b + 1)))) by lia.
      cbn [rle].
      assert (Fb : f b = 0).
      { rewrite Hf by lia. simpl. destruct ((a <=? b) && (b <? b)) eqn:E; [exfalso; lia|].
        apply (paint_before r (b + 1) N); [exact H5 | lia]. }
      rewrite Fb. destruct (0 =? v) eqn:E0; [exfalso; lia|]. cbn [Z.eqb].
      f_equal. apply IH; [lia | exact H5 |].
      intros i Hi. rewrite Hf by lia. simpl.
      destruct ((a <=? i) && (i <? b)) eqn:E; [exfalso; lia | reflexivity].
Qed.

(* decoding a row painted from non-touching runs returns exactly those runs *)
Lemma decode_row_lemma m cols p bs : 0 <= cols ->
  chain 0 bs cols -> (forall j, 0 <= j < cols -> cell_at m p j = paint bs j) ->
  row_runs m cols p = map (fun x : run => let '(v, a, b) := x in (p, a, b, v)) bs.
Proof.
  intros Hc Hch Hf. unfold row_runs. f_equal.
  replace (Z.to_nat cols) with (Z.to_nat (cols - 0)) by (f_equal; lia).
  apply rle_paint_lemma; [lia | exact Hch | exact Hf].
Qed.

(* the runs (velocity, onset frame, end frame) the notes of full row r contribute, in list order *)
Definition row_boxes (o : opts) (mt : Q) (lo : Z) (ns : list note) (r : Z) : list run :=
  flat_map (fun n => if row_full o lo n =? r then [(n_vel n, fr_on o mt n, fr_end o mt n)] else []) ns.

Lemma cov_vels_before o mt lo ns r : forall l n j,
  chain l (row_boxes o mt lo ns r) n -> j < l -> cov_vels o mt lo ns r j = [].
Proof.
  induction ns as [|x ns IH]; intros l n j H Hj; [reflexivity|].
  unfold row_boxes, cov_vels in *. cbn [flat_map] in *. unfold covers.
  destruct (row_full o lo x =? r) eqn:E.
  - cbn [app chain] in H. destruct H as [H1 [H2 [H3 [H4 H5]]]].
    destruct ((true && (fr_on o mt x <=? j)) && (j <? fr_end o mt x)) eqn:E1; [exfalso; lia|].
    simpl. apply (IH (fr_end o mt x + 1) n); [exact H5 | lia].
  - simpl in *. apply (IH l n); assumption.
Qed.

Lemma sounding_paint o mt lo ns r : forall l n j,
  chain l (row_boxes o mt lo ns r) n ->
  match vmax (cov_vels o mt lo ns r j) with Some v => v | None => 0 end = paint (row_boxes o mt lo ns r) j.
Proof.
  induction ns as [|x ns IH]; intros l n j H; [reflexivity|].
  unfold row_boxes, cov_vels in *. cbn [flat_map] in *. unfold covers.
  destruct (row_full o lo x =? r) eqn:E.
  - cbn [app chain paint] in *. destruct H as [H1 [H2 [H3 [H4 H5]]]].
    destruct ((fr_on o mt x <=? j) && (j <? fr_end o mt x)) eqn:E1.
    + replace ((true && (fr_on o mt x <=? j)) && (j <? fr_end o mt x)) with true by lia.
      pose proof (cov_vels_before o mt lo ns r (fr_end o mt x + 1) n j H5) as Z0.
      unfold cov_vels, covers, row_boxes in Z0. rewrite Z0 by lia. reflexivity.
    + replace ((true && (fr_on o mt x <=? j)) && (j <? fr_end o mt x)) with false by lia.
      simpl. apply (IH (fr_end o mt x + 1) n). exact H5.
  - simpl in *. apply (IH l n). exact H.
Qed.

(* O6, row form: if the notes of a row, in list order, are non-touching (each ends at least one frame
   before the next begins), decoding that row of their roll returns exactly their runs *)
Lemma decode_encode_row_lemma o ns R p :
  make_pianoroll o ns = Some R -> o_binary o = false -> 0 <= p < r_rows R ->
  chain 0 (row_boxes o (spec_min_time o ns) (lowest_pitch o ns) ns (p + pr_start o)) (r_cols R) ->
  row_runs (r_cells R) (r_cols R) p =
  map (fun x : run => let '(v, a, b) := x in (p, a, b, v))
      (row_boxes o (spec_min_time o ns) (lowest_pitch o ns) ns (p + pr_start o)).
Proof.
  intros H Hb Hp Hc.
  assert (Hcols : 0 <= r_cols R).
  { destruct (Z_le_gt_dec 0 (r_cols R)); [assumption|].
    destruct (row_boxes _ _ _ ns _) as [|[[v a] b] r] eqn:E.
    - (* no note in this row: any column count; use a stored cell or the empty case *)
      exfalso.
      apply make_pianoroll_inv in H. cbv zeta in H. destruct H as [Hne [_ [n [_ [Hs HR]]]]].
      rewrite fill_in_shape in Hs. rewrite forallb_forall in Hs.
      pose proof (sorted_nonempty ns Hne) as Hs0.
      destruct (map snd (sort_on ns)) as [|s0 s] eqn:Es; [congruence|].
      pose proof (fr_end_gt o (min_time o (s0 :: s)) s0) as G.
      assert (Hin : In (row_full o (lowest_pitch o ns) s0, fr_on o (min_time o (s0 :: s)) s0, n_vel s0)
                       (flat_map (note_cells o (min_time o (s0 :: s)) (lowest_pitch o ns)) (s0 :: s))).
      { apply in_flat_map. exists s0. split; [left; reflexivity|]. unfold note_cells.
        apply in_map_iff. exists (fr_on o (min_time o (s0 :: s)) s0). split; [reflexivity|].
        apply zrange_In. lia. }
      specialize (Hs _ Hin). unfold in_shape in Hs. subst R. cbn [r_cols] in *. lia.
    - simpl in Hc. lia. }
  apply decode_row_lemma; [exact Hcols | exact Hc|].
  intros j Hj. rewrite (roll_spec_lemma _ _ _ H) by exact Hp.
  unfold cell_spec, sounding_max, binarize. rewrite Hb.
  apply (sounding_paint o _ _ ns _ 0 (r_cols R)). exact Hc.
Qed.

