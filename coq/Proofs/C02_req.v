(* C02_req -- proofs about Model/C02_Req.v: the observations of ANY history of edits, requests and calls are a
   function of the state of the part at the moment of the request. *)
From PV Require Import Lib.Base Model.C02 Model.C02_Hist Model.C02_Api Model.C02_Req.
From Coq Require Import QArith.
#[local] Open Scope Z_scope.

Lemma nth_error_map' {A B} (f : A -> B) : forall l n, nth_error (map f l) n = option_map f (nth_error l n).
Proof. induction l as [|a l IH]; intros [|n]; cbn; auto. Qed.

Lemma robs_spec : forall ops s gets, r_objs s = map (fun g => make (fst g) (snd g)) gets ->
  robs false s ops = rspec (r_st s) gets ops.
Proof.
  induction ops as [|op r IH]; intros s gets Hg; [reflexivity|].
  destruct op as [e|w|j x|w x]; cbn [robs rstep rspec request].
  - apply (IH (mk_rstate (estep (r_st s) e) (r_memo s) (r_objs s)) gets). exact Hg.
  - apply (IH (mk_rstate (r_st s) (r_memo s) (r_objs s ++ [make w (r_st s)])) (gets ++ [(w, r_st s)])).
    cbn. rewrite Hg, map_app. reflexivity.
  - rewrite Hg, nth_error_map'. destruct (nth_error gets j) as [[w sj]|]; cbn [option_map fst snd].
    + f_equal. apply IH; exact Hg.
    + apply IH; exact Hg.
  - f_equal. apply (IH (mk_rstate (r_st s) (r_memo s) (r_objs s)) gets). exact Hg.
Qed.

Theorem req_current_state q0 ops : robs false (rinit q0) ops = rspec (ainit q0) [] ops.
Proof. apply (robs_spec ops (rinit q0) []). reflexivity. Qed.

Lemma rspec_snoc_ask w x : forall pre st gets,
  rspec st gets (pre ++ [RAsk w x]) = rspec st gets pre ++ [ask w (rcur st pre) x].
Proof.
  induction pre as [|op r IH]; intros st gets; [reflexivity|].
  destruct op as [e|w'|j y|w' y]; cbn [app rspec rcur].
  - apply IH.
  - apply IH.
  - destruct (nth_error gets j) as [[w2 sj]|]; [cbn [app]; f_equal|]; apply IH.
  - cbn [app]. f_equal. apply IH.
Qed.

Theorem req_ask_current q0 pre w x :
  robs false (rinit q0) (pre ++ [RAsk w x]) = robs false (rinit q0) pre ++ [ask w (rcur (ainit q0) pre) x].
Proof. rewrite !req_current_state. apply rspec_snoc_ask. Qed.

(* a call through a kept map object, with no edit since it was requested, is the call through the property *)
Lemma rspec_snoc_get_query w x : forall pre st gets,
  rspec st gets (pre ++ [RGet w; RQuery (List.length gets + count_gets pre) x]) =
  rspec st gets pre ++ [ask w (rcur st pre) x].
Proof.
  induction pre as [|op r IH]; intros st gets.
  - cbn [app rspec rcur count_gets]. rewrite Nat.add_0_r, nth_error_app2, Nat.sub_diag by auto. reflexivity.
  - destruct op as [e|w'|j y|w' y]; cbn [app rspec rcur count_gets].
    + apply IH.
    + specialize (IH st (gets ++ [(w', st)])). rewrite app_length in IH. cbn [List.length] in IH.
      replace (List.length gets + S (count_gets r))%nat with (List.length gets + 1 + count_gets r)%nat by lia. exact IH.
    + destruct (nth_error gets j) as [[w2 sj]|]; [cbn [app]; f_equal|]; apply IH.
    + cbn [app]. f_equal. apply IH.
Qed.

Theorem req_kept_object_fresh q0 pre w x :
  robs false (rinit q0) (pre ++ [RGet w; RQuery (count_gets pre) x]) =
  robs false (rinit q0) pre ++ [ask w (rcur (ainit q0) pre) x].
Proof. rewrite !req_current_state. apply (rspec_snoc_get_query w x pre (ainit q0) []). Qed.

(* ---------------------------------------------------------------- non-vacuity and the memoising variant *)
(* note 0..8 at 1 division per quarter, 6/8 at 0; the signature is rewritten in place to 3/4; the divisions become 2;
   the note is removed after a measure 0..4 and a longer note were added *)
Definition ex_req : list rev :=
  [VEdit (EApi (AAddNote 0 8)); VEdit (EApi (AAddTs 0 6 8)); VAsk WBeat 8 (Some 16%Q); VGet WBeat;
   VEdit (ETsAttr 0 3 4); VAsk WBeat 8 (Some 8%Q); VQuery 0%nat 8 (Some 16%Q);
   VEdit (EApi (ASetQ 0 2)); VAsk WQuarter 8 (Some 4%Q); VAsk WQd (7 # 2) (Some 2%Q); VAsk WInvQuarter 4 (Some 8%Q);
   VEdit (EApi (ABeat (UseMusical []))); VEdit (ETsMus 0 1); VAsk WBeat 8 (Some (4 # 3)%Q);
   VEdit (EApi (AAddNote 0 12)); VEdit (ERemNote 0 8); VAsk WQuarter 12 (Some 6%Q); VAsk WQuarter 8 (Some 4%Q)].

Lemma ex_req_ok : check_rcase (1, ex_req) = true.
Proof. vm_compute. reflexivity. Qed.

Lemma ex_req_memo : robs true (rinit 1) (map rev_op ex_req) <> rspec (ainit 1) [] (map rev_op ex_req).
Proof. intro H. vm_compute in H. discriminate H. Qed.

Theorem req_memo_refuted : exists q0 ops, robs true (rinit q0) ops <> rspec (ainit q0) [] ops.
Proof. exists 1, (map rev_op ex_req). exact ex_req_memo. Qed.

(* f (current state) is the map all theorems of Props/C02.v are about *)
Theorem req_ask_is_the_map st x :
  ask WQuarter st x = tmap Quarter (apart_of st) x /\
  ask WBeat st x = tmap (amode_of st) (apart_of st) x /\
  ask WInvQuarter st x = tinv Quarter (apart_of st) x /\
  ask WInvBeat st x = tinv (amode_of st) (apart_of st) x /\
  ask WQd st x = Some (inject_Z (qd_map_impl (p_qs (apart_of st)) x)).
Proof. repeat split; reflexivity. Qed.
