(* C17 (2/3) -- proofs about the outer layer of estimate_voices (Model/C17_Voices.v).
   Everything is proved for an arbitrary [oracle] (the VoSA search) and an arbitrary choice
   [rep] of the note that represents a chord. *)
From PV Require Import Lib.Base Model.C17_Voices Proofs.C17_lib.
#[local] Open Scope Z_scope.

(* ------------------------------------------------------------------ *)
(* rename_voices / reverse_voices: the numbers used are exactly 1..K *)

Lemma first_occ_In : forall l x, In x (first_occ l) <-> In x l.
Proof.
  induction l as [|a r IH]; intros x; cbn; [tauto|].
  rewrite filter_In, IH. split.
  - intros [H|[H _]]; auto.
  - intros [H|H]; auto. destruct (Z.eq_dec a x) as [E|E]; auto.
    right. split; auto. apply negb_true_iff. apply Z.eqb_neq. congruence.
Qed.

Lemma first_occ_NoDup : forall l, NoDup (first_occ l).
Proof.
  induction l as [|a r IH]; cbn; constructor.
  - rewrite filter_In. intros [_ H]. rewrite Z.eqb_refl in H. discriminate.
  - apply NoDup_filter. exact IH.
Qed.

Lemma index_of_range : forall v d, In v d -> 0 <= index_of v d < Z.of_nat (List.length d).
Proof.
  intros v d. induction d as [|x r IH]; [intros []|].
  intros H. cbn [index_of List.length]. destruct (x =? v) eqn:E; [lia|].
  destruct H as [H|H]; [zb; congruence|]. specialize (IH H). lia.
Qed.

Lemma index_of_nth : forall d i, NoDup d -> (i < List.length d)%nat -> index_of (nth i d 0) d = Z.of_nat i.
Proof.
  induction d as [|x r IH]; intros i N Hi; cbn in Hi; [lia|].
  inversion N as [|? ? N1 N2]; subst.
  destruct i as [|i]; cbn [nth index_of].
  - rewrite Z.eqb_refl. reflexivity.
  - destruct (x =? nth i r 0) eqn:E.
    + zb. exfalso. apply N1. rewrite E. apply nth_In. lia.
    + rewrite IH by (auto; lia). lia.
Qed.

Definition nvoices (vs : list Z) : Z := Z.of_nat (List.length (first_occ vs)).

Lemma rename_range : forall vs r, In r (rename_voices vs) -> 1 <= r <= nvoices vs.
Proof.
  intros vs r H. unfold rename_voices in H. apply in_map_iff in H. destruct H as [v [<- Hv]].
  pose proof (index_of_range v (first_occ vs) (proj2 (first_occ_In vs v) Hv)). unfold nvoices. lia.
Qed.

Lemma rename_onto : forall vs t, 1 <= t <= nvoices vs -> In t (rename_voices vs).
Proof.
  intros vs t H. unfold nvoices in H. unfold rename_voices.
  set (d := first_occ vs) in *. set (i := Z.to_nat (t - 1)).
  assert (Hi : (i < List.length d)%nat) by lia.
  apply in_map_iff. exists (nth i d 0). split.
  - rewrite index_of_nth; [lia | apply first_occ_NoDup | exact Hi].
  - apply first_occ_In. apply nth_In. exact Hi.
Qed.

Lemma zmax_list_ge : forall l x, In x l -> x <= zmax_list l.
Proof.
  induction l as [|a r IH]; intros x; [intros []|].
  change (zmax_list (a :: r)) with (Z.max a (zmax_list r)).
  intros [<-|H]; [lia|]. specialize (IH _ H). lia.
Qed.

Lemma zmax_list_le : forall l b, 0 <= b -> (forall x, In x l -> x <= b) -> zmax_list l <= b.
Proof.
  induction l as [|a r IH]; intros b Hb H; [cbn; lia|].
  change (zmax_list (a :: r)) with (Z.max a (zmax_list r)).
  pose proof (H a (or_introl eq_refl)). pose proof (IH b Hb (fun x Hx => H x (or_intror Hx))). lia.
Qed.

Lemma zmax_rename : forall vs, zmax_list (rename_voices vs) = nvoices vs.
Proof.
  intros vs. assert (H0 : 0 <= nvoices vs) by (unfold nvoices; lia).
  apply Z.le_antisymm.
  - apply zmax_list_le; [exact H0|]. intros x Hx. apply rename_range in Hx. lia.
  - destruct (Z.eq_dec (nvoices vs) 0) as [E|E].
    + rewrite E. clear. induction (rename_voices vs) as [|a r IH]; [cbn; lia|].
      change (zmax_list (a :: r)) with (Z.max a (zmax_list r)). lia.
    + apply zmax_list_ge. apply rename_onto. lia.
Qed.

Lemma voices_set : forall vs t,
  In t (reverse_voices (rename_voices vs)) <-> 1 <= t <= nvoices vs.
Proof.
  intros vs t. unfold reverse_voices. rewrite zmax_rename. rewrite in_map_iff. split.
  - intros [r [<- Hr]]. apply rename_range in Hr. lia.
  - intros H. exists (nvoices vs - t + 1). split; [lia|]. apply rename_onto. lia.
Qed.

(* ------------------------------------------------------------------ *)
(* lengths *)

Lemma all_some_map : forall {A} (l : list (option A)) l', all_some l = Some l' -> map Some l' = l.
Proof.
  intros A l. induction l as [|[x|] r IH]; intros l' H; cbn in H.
  - inversion H. reflexivity.
  - destruct (all_some r) as [r'|]; [|discriminate]. inversion H; subst. cbn. f_equal. apply IH. reflexivity.
  - discriminate.
Qed.

Lemma all_some_length : forall {A} (l : list (option A)) l', all_some l = Some l' -> List.length l' = List.length l.
Proof. intros A l l' H. apply all_some_map in H. rewrite <- H. rewrite map_length. reflexivity. Qed.

Lemma indexed_from_length : forall {A} (l : list A) i, List.length (indexed_from i l) = List.length l.
Proof. intros A l. induction l as [|x r IH]; intros i; cbn; [reflexivity|]. rewrite IH. reflexivity. Qed.

Lemma indexed_from_nth : forall {A} (l : list A) i k x,
  nth_error l k = Some x -> nth_error (indexed_from i l) k = Some (i + Z.of_nat k, x).
Proof.
  intros A l. induction l as [|a r IH]; intros i k x H; [destruct k; discriminate|].
  destruct k as [|k]; cbn in *.
  - inversion H. f_equal. f_equal. lia.
  - rewrite (IH (i + 1) k x H). f_equal. f_equal. lia.
Qed.

Lemma indexed_from_fst : forall {A} (l : list A) i, map fst (indexed_from i l) = zrange i (List.length l).
Proof. intros A l. induction l as [|a r IH]; intros i; cbn; [reflexivity|]. rewrite IH. reflexivity. Qed.

Lemma zrange_NoDup : forall n lo, NoDup (zrange lo n).
Proof.
  induction n as [|n IH]; intros lo; cbn; constructor; [|apply IH].
  intros H. apply zrange_In_inv in H. lia.
Qed.

Section Outer.
  Variable rep : list (Z * vnote) -> list Z -> Z.
  Variable oracle : list (Z * vnote) -> list (Z * Z).

  Lemma scatter_length : forall mono notes vs,
    scatter rep oracle mono notes = Some vs -> List.length vs = List.length notes.
  Proof.
    intros mono notes vs. unfold scatter.
    destruct (all_some (map _ (oracle _))) as [writes|]; [|discriminate].
    intros H. apply all_some_length in H. rewrite H, map_length, indexed_from_length. reflexivity.
  Qed.

  (* one voice per note; the voices used are exactly 1..K *)
  Lemma voices_wellformed_lemma : forall mono notes out,
    estimate_voices rep oracle mono notes = Some out ->
    List.length out = List.length notes /\
    exists K, 0 <= K /\ (notes <> [] -> 1 <= K) /\ forall t, In t out <-> 1 <= t <= K.
  Proof.
    intros mono notes out. unfold estimate_voices.
    destruct (scatter rep oracle mono notes) as [vs|] eqn:S; [|discriminate].
    intros H. inversion H; subst out; clear H. pose proof (scatter_length _ _ _ S) as L. split.
    - unfold reverse_voices, rename_voices. rewrite !map_length. exact L.
    - exists (nvoices vs). split; [unfold nvoices; lia|]. split; [|apply voices_set].
      intros Hn. unfold nvoices. destruct vs as [|v vs]; [destruct notes; [congruence | discriminate]|].
      cbn [first_occ List.length]. lia.
  Qed.

  Lemma voices_positive_lemma : forall mono notes out v,
    estimate_voices rep oracle mono notes = Some out -> In v out -> 1 <= v.
  Proof.
    intros mono notes out v H Hv. destruct (voices_wellformed_lemma _ _ _ H) as [_ [K [_ [_ HK]]]].
    apply HK in Hv. lia.
  Qed.
End Outer.

(* ------------------------------------------------------------------ *)
(* chord grouping *)

Lemma ckey_eqb_eq : forall a b, ckey_eqb a b = true <-> a = b.
Proof.
  intros [a1 a2] [b1 b2]. unfold ckey_eqb. cbn [fst snd]. rewrite andb_true_iff, !Z.eqb_eq.
  split; [intros [-> ->]; reflexivity | intros E; inversion E; auto].
Qed.

Lemma add_groups_from : forall k0 id0 gs k ids id,
  In (k, ids) (add_to_groups k0 id0 gs) -> In id ids ->
  (id = id0 /\ k = k0) \/ (exists ids', In (k, ids') gs /\ In id ids').
Proof.
  intros k0 id0 gs. induction gs as [|[k' ids'] r IH]; intros k ids id H Hid; cbn in H.
  - destruct H as [H|[]]. inversion H; subst. destruct Hid as [<-|[]]. left; auto.
  - destruct (ckey_eqb k' k0) eqn:E.
    + apply ckey_eqb_eq in E. subst k'. destruct H as [H|H].
      * inversion H; subst. apply in_app_iff in Hid. destruct Hid as [Hid|[<-|[]]].
        -- right. exists ids'. split; [left; reflexivity | exact Hid].
        -- left; auto.
      * right. exists ids. split; [right; exact H | exact Hid].
    + destruct H as [H|H].
      * inversion H; subst. right. exists ids. split; [left; reflexivity | exact Hid].
      * destruct (IH _ _ _ H Hid) as [H'|[ids'' [H1 H2]]]; [left; exact H'|].
        right. exists ids''. split; [right; exact H1 | exact H2].
Qed.

Lemma add_groups_mono : forall k0 id0 gs k ids' id,
  In (k, ids') gs -> In id ids' -> exists ids, In (k, ids) (add_to_groups k0 id0 gs) /\ In id ids.
Proof.
  intros k0 id0 gs. induction gs as [|[k' ids0] r IH]; intros k ids' id H Hid; [destruct H|].
  cbn. destruct (ckey_eqb k' k0) eqn:E.
  - destruct H as [H|H].
    + inversion H; subst. exists (ids' ++ [id0]). split; [left; reflexivity | apply in_app_iff; auto].
    + exists ids'. split; [right; exact H | exact Hid].
  - destruct H as [H|H].
    + inversion H; subst. exists ids'. split; [left; reflexivity | exact Hid].
    + destruct (IH _ _ _ H Hid) as [ids [H1 H2]]. exists ids. split; [right; exact H1 | exact H2].
Qed.

Lemma add_groups_new : forall k0 id0 gs, exists ids, In (k0, ids) (add_to_groups k0 id0 gs) /\ In id0 ids.
Proof.
  intros k0 id0 gs. induction gs as [|[k' ids0] r IH]; cbn.
  - exists [id0]. split; left; reflexivity.
  - destruct (ckey_eqb k' k0) eqn:E.
    + apply ckey_eqb_eq in E. subst k'. exists (ids0 ++ [id0]). split; [left; reflexivity|].
      apply in_app_iff. right. left. reflexivity.
    + destruct IH as [ids [H1 H2]]. exists ids. split; [right; exact H1 | exact H2].
Qed.

Lemma add_groups_key_in : forall k0 id0 gs k ids,
  In (k, ids) (add_to_groups k0 id0 gs) -> k = k0 \/ In k (map fst gs).
Proof.
  intros k0 id0 gs. induction gs as [|[k' ids0] r IH]; intros k ids H; cbn in H.
  - destruct H as [H|[]]. inversion H. left. reflexivity.
  - destruct (ckey_eqb k' k0) eqn:E.
    + destruct H as [H|H].
      * inversion H; subst. right. left. reflexivity.
      * right. right. apply in_map_iff. exists (k, ids). auto.
    + destruct H as [H|H].
      * inversion H; subst. right. left. reflexivity.
      * destruct (IH _ _ H) as [H'|H']; [left; exact H' | right; right; exact H'].
Qed.

Lemma add_groups_keys : forall k0 id0 gs, NoDup (map fst gs) -> NoDup (map fst (add_to_groups k0 id0 gs)).
Proof.
  intros k0 id0 gs. induction gs as [|[k' ids0] r IH]; intros N; cbn.
  - constructor; [intros [] | constructor].
  - cbn in N. inversion N as [|? ? N1 N2]; subst. destruct (ckey_eqb k' k0) eqn:E; cbn.
    + constructor; assumption.
    + constructor; [|apply IH; exact N2].
      intros H. apply in_map_iff in H. destruct H as [[k ids] [Ek H]]. cbn in Ek. subst k.
      assert (Hne : k' <> k0) by (intros ->; assert (ckey_eqb k0 k0 = true) by (apply ckey_eqb_eq; reflexivity); congruence).
      destruct (add_groups_key_in _ _ _ _ _ H) as [H'|H']; [congruence | exact (N1 H')].
Qed.

(* invariant of the grouping loop over the processed prefix P *)
Definition groups_ok (P : list (Z * vnote)) (gs : list (ckey * list Z)) : Prop :=
  (forall k ids id, In (k, ids) gs -> In id ids -> exists n, In (id, n) P /\ ckey_of n = k) /\
  (forall id n, In (id, n) P -> exists ids, In (ckey_of n, ids) gs /\ In id ids) /\
  NoDup (map fst gs).

Lemma group_fold_ok : forall ins P gs, groups_ok P gs ->
  groups_ok (P ++ ins) (fold_left (fun gs x => add_to_groups (ckey_of (snd x)) (fst x) gs) ins gs).
Proof.
  induction ins as [|[id0 n0] ins IH]; intros P gs G; cbn [fold_left].
  - rewrite app_nil_r. exact G.
  - replace (P ++ (id0, n0) :: ins) with ((P ++ [(id0, n0)]) ++ ins) by (rewrite <- app_assoc; reflexivity).
    apply IH. destruct G as [Ga [Gb Gc]]. cbn [fst snd]. repeat split.
    + intros k ids id H Hid. destruct (add_groups_from _ _ _ _ _ _ H Hid) as [[-> ->]|[ids' [H1 H2]]].
      * exists n0. split; [apply in_app_iff; right; left; reflexivity | reflexivity].
      * destruct (Ga _ _ _ H1 H2) as [n [Hn1 Hn2]]. exists n. split; [apply in_app_iff; left; exact Hn1 | exact Hn2].
    + intros id n H. apply in_app_iff in H. destruct H as [H|[H|[]]].
      * destruct (Gb _ _ H) as [ids' [H1 H2]]. eapply add_groups_mono; eauto.
      * inversion H; subst. apply add_groups_new.
    + apply add_groups_keys. exact Gc.
Qed.

Lemma group_notes_ok : forall ins, groups_ok ins (group_notes ins).
Proof.
  intros ins. unfold group_notes. apply (group_fold_ok ins [] []).
  repeat split; try (intros; contradiction). constructor.
Qed.

Lemma NoDup_fst_functional : forall {A B} (l : list (A * B)) a b b',
  NoDup (map fst l) -> In (a, b) l -> In (a, b') l -> b = b'.
Proof.
  intros A B l. induction l as [|[x y] l IH]; intros a b b' N H1 H2; [destruct H1|].
  cbn in N. inversion N as [|? ? N1 N2]; subst.
  destruct H1 as [E1|H1]; destruct H2 as [E2|H2].
  - congruence.
  - inversion E1; subst. exfalso. apply N1. apply in_map_iff. exists (a, b'). auto.
  - inversion E2; subst. exfalso. apply N1. apply in_map_iff. exists (a, b). auto.
  - eapply IH; eauto.
Qed.

(* two notes with the same (onset, duration) are in the same groups *)
Lemma same_key_same_groups : forall ins i j ni nj k ids,
  NoDup (map fst ins) -> In (i, ni) ins -> In (j, nj) ins -> ckey_of ni = ckey_of nj ->
  In (k, ids) (group_notes ins) -> In i ids -> In j ids.
Proof.
  intros ins i j ni nj k ids N Hi Hj Ek Hg Hin.
  destruct (group_notes_ok ins) as [Ga [Gb Gc]].
  destruct (Ga _ _ _ Hg Hin) as [n [Hn1 Hn2]].
  assert (n = ni) by (eapply NoDup_fst_functional; eauto). subst n.
  destruct (Gb _ _ Hj) as [ids' [H1 H2]].
  rewrite <- Ek, Hn2 in H1.
  assert (ids' = ids) by (eapply NoDup_fst_functional; eauto). subst ids'. exact H2.
Qed.

Lemma zlookup_In : forall {A} k (l : list (Z * A)) v, zlookup k l = Some v -> In (k, v) l.
Proof.
  intros A k l. induction l as [|[k' v'] r IH]; intros v H; cbn in H; [discriminate|].
  destruct (k =? k') eqn:E.
  - zb. inversion H; subst. left. reflexivity.
  - right. apply IH. exact H.
Qed.

Lemma mem_z_In : forall i l, mem_z i l = true <-> In i l.
Proof.
  intros i l. unfold mem_z. rewrite existsb_exists. split.
  - intros [x [H E]]. zb. subst. exact H.
  - intros H. exists i. split; [exact H | apply Z.eqb_refl].
Qed.

Lemma mem_z_ext : forall i j l, (In i l <-> In j l) -> mem_z i l = mem_z j l.
Proof.
  intros i j l H. destruct (mem_z i l) eqn:E1; destruct (mem_z j l) eqn:E2; auto.
  - apply mem_z_In in E1. apply H in E1. apply mem_z_In in E1. congruence.
  - apply mem_z_In in E2. apply H in E2. apply mem_z_In in E2. congruence.
Qed.

Lemma final_voice_ext : forall writes i j,
  (forall w, In w writes -> mem_z i (fst w) = mem_z j (fst w)) ->
  final_voice writes i = final_voice writes j.
Proof.
  intros writes i j. unfold final_voice. generalize (@None Z).
  induction writes as [|w r IH]; intros acc H; cbn [fold_left]; [reflexivity|].
  rewrite (H w (or_introl eq_refl)). apply IH. intros w' Hw'. apply H. right. exact Hw'.
Qed.

Lemma all_some_In : forall {A} (l : list (option A)) l' x, all_some l = Some l' -> In x l' -> In (Some x) l.
Proof. intros A l l' x H Hx. apply all_some_map in H. rewrite <- H. apply in_map. exact Hx. Qed.

Lemma map_nth_error_inv : forall {A B} (f : A -> B) l k y,
  nth_error (map f l) k = Some y -> exists x, nth_error l k = Some x /\ f x = y.
Proof.
  intros A B f l. induction l as [|a r IH]; intros k y H; [destruct k; discriminate|].
  destruct k as [|k]; cbn in *; [inversion H; eauto | apply IH; exact H].
Qed.

Section Chords.
  Variable rep : list (Z * vnote) -> list Z -> Z.
  Variable oracle : list (Z * vnote) -> list (Z * Z).

  Lemma scatter_chords : forall notes vs i j ni nj,
    scatter rep oracle false notes = Some vs ->
    nth_error notes i = Some ni -> nth_error notes j = Some nj ->
    ckey_of ni = ckey_of nj ->
    nth_error vs i = nth_error vs j.
  Proof.
    intros notes vs i j ni nj S Hi Hj Ek. unfold scatter in S.
    set (ins := indexed_from 0 notes) in *.
    set (eqv := equivs_with (rep ins) false ins) in *.
    destruct (all_some (map _ (oracle _))) as [writes|] eqn:W; [|discriminate].
    pose proof (all_some_map _ _ S) as M.
    assert (Ni : nth_error ins i = Some (Z.of_nat i, ni)) by (apply (indexed_from_nth notes 0 i ni Hi)).
    assert (Nj : nth_error ins j = Some (Z.of_nat j, nj)) by (apply (indexed_from_nth notes 0 j nj Hj)).
    assert (ND : NoDup (map fst ins)) by (unfold ins; rewrite indexed_from_fst; apply zrange_NoDup).
    assert (F : final_voice writes (Z.of_nat i) = final_voice writes (Z.of_nat j)).
    { apply final_voice_ext. intros [mem v] Hw. cbn [fst].
      pose proof (all_some_In _ _ _ W Hw) as Hw'. apply in_map_iff in Hw'. destruct Hw' as [[id v'] [E _]].
      cbn [fst snd] in E. destruct (zlookup id eqv) as [mem'|] eqn:Z1; [|discriminate].
      inversion E; subst mem' v'. apply zlookup_In in Z1.
      unfold eqv, equivs_with in Z1. apply in_map_iff in Z1. destruct Z1 as [[k ids] [E1 Hg]].
      cbn [fst snd] in E1. inversion E1; subst mem.
      apply mem_z_ext. split; intros H.
      - eapply (same_key_same_groups ins (Z.of_nat i) (Z.of_nat j) ni nj); eauto using nth_error_In.
      - eapply (same_key_same_groups ins (Z.of_nat j) (Z.of_nat i) nj ni); eauto using nth_error_In. }
    assert (Vi : nth_error (map Some vs) i = Some (final_voice writes (Z.of_nat i))).
    { rewrite M. erewrite map_nth_error; [|exact Ni]. reflexivity. }
    assert (Vj : nth_error (map Some vs) j = Some (final_voice writes (Z.of_nat j))).
    { rewrite M. erewrite map_nth_error; [|exact Nj]. reflexivity. }
    destruct (map_nth_error_inv _ _ _ _ Vi) as [vi [Hvi Ei]].
    destruct (map_nth_error_inv _ _ _ _ Vj) as [vj [Hvj Ej]].
    rewrite Hvi, Hvj. f_equal. congruence.
  Qed.

  Lemma chord_mode_same_voice_lemma : forall notes out i j ni nj,
    estimate_voices rep oracle false notes = Some out ->
    nth_error notes i = Some ni -> nth_error notes j = Some nj ->
    vn_onset ni = vn_onset nj -> vn_dur ni = vn_dur nj ->
    nth_error out i = nth_error out j.
  Proof.
    intros notes out i j ni nj H Hi Hj Eo Ed. unfold estimate_voices in H.
    destruct (scatter rep oracle false notes) as [vs|] eqn:S; [|discriminate].
    inversion H; subst out; clear H.
    assert (Ek : ckey_of ni = ckey_of nj) by (unfold ckey_of; congruence).
    pose proof (scatter_chords _ _ _ _ _ _ S Hi Hj Ek) as E.
    unfold reverse_voices, rename_voices.
    rewrite !nth_error_map. rewrite E. reflexivity.
  Qed.
End Chords.

(* monophonic mode: idx_equivs is the identity map *)
Lemma mono_mode_identity_map_lemma : forall rp ins, equivs_with rp true ins = map (fun x => (fst x, [fst x])) ins.
Proof. reflexivity. Qed.

(* the hypotheses are satisfiable, the model evaluates: VoSA's answer for the three
   representatives 0, 1, 3 (note 2 is in the chord of note 1; note 3 has zero duration) *)
Example voices_example :
  estimate_voices rep_of (fun _ => [(0, 0); (3, 1); (1, 1)]) false
    [(60, 0, 4); (72, 0, 2); (67, 0, 2); (74, 2, 0)] = Some [2; 1; 1; 1].
Proof. vm_compute. reflexivity. Qed.
