(* C20 -- proofs about the container protocol and the effect discipline (Model/C20.v). *)
From PV Require Import Lib.Base Model.C20.
From Coq Require Import ZArith List Bool Lia Permutation Arith.
Import ListNotations.

(* ------------------------------------------------------------------------------------ *)
(* generic facts *)

Lemma nth_error_skipn_cons {A} (l : list A) c x :
  nth_error l c = Some x -> skipn c l = x :: skipn (S c) l.
Proof.
  revert c; induction l as [|y l IH]; intros [|c] H; simpl in *; try discriminate.
  - now inversion H.
  - rewrite (IH c H). destruct l; reflexivity.
Qed.

Lemma nth_error_none_skipn {A} (l : list A) c : nth_error l c = None -> skipn c l = [].
Proof. intros H. apply skipn_all2. now apply nth_error_None. Qed.

Lemma list_nth_error_ext {A} (a b : list A) : (forall l, nth_error a l = nth_error b l) -> a = b.
Proof.
  revert b; induction a as [|x a IH]; intros [|y b] H; auto.
  - specialize (H O); discriminate.
  - specialize (H O); discriminate.
  - f_equal. { specialize (H O); now inversion H. } apply IH. intros l. exact (H (S l)).
Qed.

Section Run.
  Context {A St : Type}.
  Variable step : St -> op -> St * res A.

  Lemma run_length s h : length (run step s h) = length h.
  Proof. revert s; induction h as [|o h IH]; intros s; simpl; auto. destruct (step s o); simpl; auto. Qed.

  Lemma run_app s h1 h2 : run step s (h1 ++ h2) = run step s h1 ++ run step (final step s h1) h2.
  Proof.
    revert s; induction h1 as [|o h1 IH]; intros s; simpl; auto.
    destruct (step s o) as [s' r] eqn:E; simpl. now rewrite IH.
  Qed.

  Lemma skipn_run_app s h1 o h2 :
    skipn (S (length h1)) (run step s (h1 ++ o :: h2)) = run step (fst (step (final step s h1) o)) h2.
  Proof.
    rewrite run_app, skipn_app, run_length.
    rewrite skipn_all2 by (rewrite run_length; lia).
    replace (S (length h1) - length h1)%nat with 1%nat by lia.
    simpl. destruct (step (final step s h1) o); reflexivity.
  Qed.
End Run.

(* ------------------------------------------------------------------------------------ *)
(* (a) the fresh-cursor machine *)

Section Fresh.
  Context {A : Type}.
  Variable parts : list A.
  Variable k : nat.

  Lemma fresh_step_other cs o :
    on k o = false -> cur_get k (fst (fresh_step parts cs o)) = cur_get k cs.
  Proof.
    destruct o as [k'|k'| |i]; simpl; intros H; auto.
    - now rewrite H.
    - destruct (cur_get k' cs) as [c|]; auto. destruct (nth_error parts c); simpl; auto. now rewrite H.
  Qed.

  Lemma fresh_step_same cs1 cs2 o :
    cur_get k cs1 = cur_get k cs2 -> on k o = true ->
    snd (fresh_step parts cs1 o) = snd (fresh_step parts cs2 o) /\
    cur_get k (fst (fresh_step parts cs1 o)) = cur_get k (fst (fresh_step parts cs2 o)).
  Proof.
    intros E H. destruct o as [k'|k'| |i]; simpl in *; try discriminate.
    - rewrite H. split; reflexivity.
    - apply Nat.eqb_eq in H; subst k'. rewrite <- E.
      destruct (cur_get k cs1) as [c|] eqn:Ec; simpl; [|split; [reflexivity|congruence]].
      destruct (nth_error parts c); simpl; [rewrite Nat.eqb_refl; split; reflexivity|].
      split; [reflexivity|congruence].
  Qed.

  (* what iterator k observes in ANY interleaving equals what it observes when run alone *)
  Lemma noninterference h : forall cs1 cs2,
    cur_get k cs1 = cur_get k cs2 ->
    pick k h (run (fresh_step parts) cs1 h) = run (fresh_step parts) cs2 (filter (on k) h).
  Proof.
    induction h as [|o h IH]; intros cs1 cs2 E; simpl; auto.
    destruct (fresh_step parts cs1 o) as [cs1' r1] eqn:E1.
    destruct (on k o) eqn:Ho; simpl.
    - destruct (fresh_step parts cs2 o) as [cs2' r2] eqn:E2.
      destruct (fresh_step_same cs1 cs2 o E Ho) as [Hr Hc].
      rewrite E1, E2 in Hr, Hc; simpl in *. subst r2. f_equal. now apply IH.
    - apply IH. rewrite <- E. pose proof (fresh_step_other cs1 o Ho) as H. now rewrite E1 in H.
  Qed.

  (* one iterator alone: yields the parts from its cursor on, in order, then StopIteration for ever *)
  Lemma run_nexts n : forall c cs, cur_get k cs = Some c ->
    run (fresh_step parts) cs (repeat (Next k) n)
    = map RYield (firstn n (skipn c parts)) ++ repeat RStop (n - length (skipn c parts)).
  Proof.
    induction n as [|n IH]; intros c cs H; simpl.
    - reflexivity.
    - rewrite H. destruct (nth_error parts c) as [x|] eqn:E.
      + rewrite (nth_error_skipn_cons _ _ _ E).
        remember (skipn (S c) parts) as rest eqn:Er. simpl.
        f_equal. subst rest. apply IH. simpl. now rewrite Nat.eqb_refl.
      + rewrite (nth_error_none_skipn _ _ E). simpl.
        f_equal. rewrite (IH c cs H), (nth_error_none_skipn _ _ E). simpl.
        rewrite firstn_nil. simpl. now rewrite Nat.sub_0_r.
  Qed.

  Lemma filter_on_no_iter h : no_iter k h = true -> filter (on k) h = repeat (Next k) (count_next k h).
  Proof.
    unfold count_next. induction h as [|o h IH]; simpl; auto.
    intros H. apply andb_true_iff in H as [H1 H2]. specialize (IH H2).
    destruct o as [k'|k'| |i]; simpl in *; auto.
    - destruct (Nat.eqb k k'); simpl in *; [discriminate|auto].
    - destruct (Nat.eqb k k') eqn:Ek; simpl; auto.
      apply Nat.eqb_eq in Ek; subst k'. f_equal. exact IH.
  Qed.

  Lemma iteration_complete_lemma h1 h2 cs :
    no_iter k h2 = true ->
    pick k h2 (skipn (S (length h1)) (run_fresh parts cs (h1 ++ Iter k :: h2)))
    = map RYield (firstn (count_next k h2) parts) ++ repeat RStop (count_next k h2 - length parts).
  Proof.
    intros H. unfold run_fresh. rewrite skipn_run_app. simpl.
    rewrite (noninterference h2 _ (cur_set k 0 (final (fresh_step parts) cs h1)) eq_refl).
    rewrite (filter_on_no_iter h2 H).
    rewrite (run_nexts _ 0 _); [reflexivity|]. simpl. now rewrite Nat.eqb_refl.
  Qed.
End Fresh.

(* the nested loop over a fresh-cursor container yields the full product, in order *)
Section Nested.
  Context {A : Type}.
  Variable parts : list A.

  Lemma inner_loop_fresh fuel : forall cs c a,
    cur_get 1 cs = Some c -> (length (skipn c parts) < fuel)%nat ->
    exists cs', inner_loop (fresh_step parts) fuel cs a = (cs', map (fun b => (a, b)) (skipn c parts))
                /\ cur_get 0 cs' = cur_get 0 cs.
  Proof.
    induction fuel as [|f IH]; intros cs c a H L; [lia|].
    simpl. rewrite H. destruct (nth_error parts c) as [x|] eqn:E.
    - rewrite (nth_error_skipn_cons _ _ _ E) in *.
      remember (skipn (S c) parts) as rest eqn:Er. simpl in L.
      destruct (IH (cur_set 1 (S c) cs) (S c) a) as [cs' [E1 E2]]; [reflexivity|subst rest; lia|].
      rewrite E1. exists cs'. subst rest. split; [reflexivity|]. rewrite E2. reflexivity.
    - rewrite (nth_error_none_skipn _ _ E). exists cs. auto.
  Qed.

  Lemma outer_loop_fresh fuel : forall cs c,
    cur_get 0 cs = Some c -> (length (skipn c parts) < fuel)%nat ->
    outer_loop (fresh_step parts) fuel (S (length parts)) cs = list_prod (skipn c parts) parts.
  Proof.
    induction fuel as [|f IH]; intros cs c H L; [lia|].
    cbn [outer_loop fresh_step]. rewrite H. destruct (nth_error parts c) as [x|] eqn:E.
    - rewrite (nth_error_skipn_cons _ _ _ E) in *.
      remember (skipn (S c) parts) as rest eqn:Er. simpl in L.
      destruct (inner_loop_fresh (S (length parts)) (cur_set 1 0 (cur_set 0 (S c) cs)) 0 x)
        as [cs' [E1 E2]]; [reflexivity|simpl; lia|].
      simpl skipn in E1. rewrite E1. cbn [list_prod]. f_equal.
      subst rest. apply IH; [|lia]. rewrite E2. reflexivity.
    - rewrite (nth_error_none_skipn _ _ E). reflexivity.
  Qed.

  Lemma nested_iteration_product_lemma :
    nested_pairs (fresh_step parts) [] (length parts) = list_prod parts parts.
  Proof.
    unfold nested_pairs. cbn [fresh_step].
    apply (outer_loop_fresh (S (length parts)) (cur_set 0 0 []) 0); [reflexivity|simpl; lia].
  Qed.
End Nested.

(* the old design: the same client program loses pairs; an interleaved history makes
   iterator 0 stop before it has visited the second part *)
Lemma shared_cursor_refuted_lemma :
  (exists parts : list Z,
     nested_pairs (shared_step parts) None (length parts) = [(1, 1); (1, 2)]%Z /\
     nested_pairs (shared_step parts) None (length parts) <> list_prod parts parts) /\
  (exists (parts : list Z) (h1 h2 : list op) (k : nat),
     no_iter k h2 = true /\
     pick k h2 (skipn (S (length h1)) (run (shared_step parts) None (h1 ++ Iter k :: h2)))
     <> map RYield (firstn (count_next k h2) parts) ++ repeat RStop (count_next k h2 - length parts)).
Proof.
  split.
  - exists [1; 2]%Z. split; [vm_compute; reflexivity | vm_compute; discriminate].
  - exists [1; 2]%Z, [], [Next 0; Iter 1; Next 1; Next 1; Next 1; Next 0]%nat, 0%nat.
    split; [reflexivity | vm_compute; discriminate].
Qed.

(* len / index / iteration agree *)
Section LenIndex.
  Context {A : Type}.
  Variable parts : list A.
  #[local] Open Scope Z_scope.

  Definition len_index_spec (o : op) (r : res A) : Prop :=
    let n := Z.of_nat (length parts) in
    match o with
    | Len => r = RLen (length parts)
    | Get i => (r = RIndexError <-> ~ (- n <= i < n)) /\
               (forall x, r = RItem x -> nth_error parts (Z.to_nat (i mod n)) = Some x) /\
               (- n <= i < n -> exists x, r = RItem x)
    | _ => True
    end.

  Lemma get_res_spec i : len_index_spec (Get i) (get_res parts i).
  Proof.
    unfold len_index_spec, get_res, py_index.
    set (n := Z.of_nat (length parts)).
    destruct (Z.leb_spec 0 i), (Z.ltb_spec i n); simpl.
    - destruct (nth_error parts (Z.to_nat i)) as [x|] eqn:E.
      + split; [split; [discriminate|lia]|]. split.
        * intros x0 [= <-]. rewrite Z.mod_small by lia. exact E.
        * eauto.
      + apply nth_error_None in E. lia.
    - destruct (Z.leb_spec (- n) i), (Z.ltb_spec i 0); simpl; try lia.
      split; [split; [lia|reflexivity]|]. split; [discriminate|lia].
    - destruct (Z.leb_spec (- n) i), (Z.ltb_spec i 0); simpl; try lia.
      + destruct (nth_error parts (Z.to_nat (n + i))) as [x|] eqn:E.
        * split; [split; [discriminate|lia]|]. split.
          -- intros x0 [= <-]. replace (i mod n) with (n + i); [exact E|].
             apply (Z.mod_unique i n (-1) (n + i)); lia.
          -- eauto.
        * apply nth_error_None in E. lia.
      + split; [split; [lia|reflexivity]|]. split; [discriminate|lia].
    - lia.
  Qed.

  Lemma len_index_consistent_lemma h : forall cs,
    Forall2 len_index_spec h (run_fresh parts cs h).
  Proof.
    unfold run_fresh. induction h as [|o h IH]; intros cs; simpl; [constructor|].
    destruct (fresh_step parts cs o) as [cs' r] eqn:E. constructor; [|apply IH].
    destruct o as [k|k| |i]; simpl in *; try exact I.
    - now inversion E.
    - inversion E; subst. apply get_res_spec.
  Qed.

  (* the j-th element an iteration yields is the one indexing returns *)
  Lemma yield_is_index j x : nth_error parts j = Some x -> get_res parts (Z.of_nat j) = RItem x.
  Proof.
    intros H. unfold get_res, py_index.
    assert (j < length parts)%nat by (apply nth_error_Some; congruence).
    destruct (Z.leb_spec 0 (Z.of_nat j)), (Z.ltb_spec (Z.of_nat j) (Z.of_nat (length parts))); try lia.
    simpl. rewrite Nat2Z.id, H. reflexivity.
  Qed.
End LenIndex.

(* ------------------------------------------------------------------------------------ *)
(* (b) effect discipline *)

Definition respects_footprint (f : eop) : Prop :=
  forall s, length (fst (e_run f s)) = length s /\
            forall l, ~ In l (e_writes f) -> nth_error (fst (e_run f s)) l = nth_error s l.

Definition read_only (f : eop) : Prop := respects_footprint f /\ e_writes f = [].

Lemma read_only_id f : read_only f -> forall s, fst (e_run f s) = s.
Proof.
  intros [R W] s. destruct (R s) as [_ H]. apply list_nth_error_ext. intros l. apply H. rewrite W. auto.
Qed.

Lemma readonly_sequence_pure_lemma fs : Forall read_only fs ->
  forall s, run_seq fs s = (s, map (fun f => snd (e_run f s)) fs).
Proof.
  induction 1 as [|f fs Hf _ IH]; intros s; simpl; auto.
  pose proof (read_only_id f Hf s) as E. destruct (e_run f s) as [s1 x]; simpl in *. subst s1.
  now rewrite IH.
Qed.

Lemma repeated_calls_agree_lemma fs : Forall read_only fs ->
  forall s i j f, nth_error fs i = Some f -> nth_error fs j = Some f ->
  fst (run_seq fs s) = s /\
  nth_error (snd (run_seq fs s)) i = Some (snd (e_run f s)) /\
  nth_error (snd (run_seq fs s)) j = Some (snd (e_run f s)).
Proof.
  intros H s i j f Hi Hj. rewrite (readonly_sequence_pure_lemma fs H s). simpl.
  split; auto.
  split; [exact (map_nth_error (fun f => snd (e_run f s)) i fs Hi) | exact (map_nth_error (fun f => snd (e_run f s)) j fs Hj)].
Qed.

Lemma reordered_calls_agree_lemma fs fs' : Forall read_only fs -> Permutation fs fs' ->
  forall s, fst (run_seq fs' s) = s /\
            Permutation (combine fs (snd (run_seq fs s))) (combine fs' (snd (run_seq fs' s))).
Proof.
  intros H P s.
  assert (H' : Forall read_only fs').
  { apply Forall_forall. intros f Hf. rewrite Forall_forall in H. apply H.
    apply Permutation_sym in P. eapply Permutation_in; eauto. }
  rewrite (readonly_sequence_pure_lemma fs H s), (readonly_sequence_pure_lemma fs' H' s). simpl.
  split; auto.
  assert (C : forall l : list eop, combine l (map (fun f => snd (e_run f s)) l) = map (fun f => (f, snd (e_run f s))) l).
  { induction l; simpl; congruence. }
  rewrite !C. now apply Permutation_map.
Qed.

(* the trace checker is sound: a sequence of read-only operations whose ids determine the
   operation always produces an accepted trace ... *)
Lemma model_trace_readonly hs fs : Forall read_only (map snd fs) ->
  forall s, model_trace hs fs s = map (fun p => (fst p, hs s, hs s, snd (e_run (snd p) s))) fs.
Proof.
  induction fs as [|[i f] fs IH]; intros H s; simpl; auto.
  inversion H as [|? ? Hf Hr]; subst.
  pose proof (read_only_id f Hf s) as E. destruct (e_run f s) as [s1 x]; simpl in *. subst s1.
  now rewrite IH.
Qed.

Lemma trace_ok_sound_lemma hs fs s :
  Forall read_only (map snd fs) ->
  (forall i f g, In (i, f) fs -> In (i, g) fs -> f = g) ->
  trace_ok (hs s, model_trace hs fs s) = true.
Proof.
  intros H D. rewrite (model_trace_readonly hs fs H s). unfold trace_ok.
  apply andb_true_iff; split.
  - apply forallb_forall. intros r Hr. apply in_map_iff in Hr as [[i f] [<- _]]. simpl.
    now rewrite Z.eqb_refl.
  - apply forallb_forall. intros r1 H1. apply forallb_forall. intros r2 H2.
    apply in_map_iff in H1 as [[i f] [<- I1]]. apply in_map_iff in H2 as [[j g] [<- I2]]. simpl.
    destruct (Z.eqb_spec i j) as [->|]; simpl; auto.
    rewrite (D j f g I1 I2). apply Z.eqb_refl.
Qed.

(* ... and complete: an accepted trace is explained by a pure function of the initial store *)
Lemma trace_ok_complete_lemma init tr :
  trace_ok (init, tr) = true ->
  exists resf : Z -> Z,
    Forall (fun r : trow => let '(o, b, a, x) := r in b = init /\ a = init /\ x = resf o) tr.
Proof.
  unfold trace_ok. intros H. apply andb_true_iff in H as [H1 H2].
  exists (fun o => match find (fun r : trow => let '(o', _, _, _) := r in Z.eqb o' o) tr with
                   | Some (_, _, _, x) => x | None => 0%Z end).
  apply Forall_forall. intros [[[o b] a] x] Hin.
  rewrite forallb_forall in H1. specialize (H1 _ Hin). simpl in H1.
  apply andb_true_iff in H1 as [Hb Ha]. apply Z.eqb_eq in Hb, Ha. split; [auto|split; [auto|]].
  destruct (find _ tr) as [[[[o' b'] a'] x']|] eqn:F.
  - apply find_some in F as [Hin' Eo]. apply Z.eqb_eq in Eo. subst o'.
    rewrite forallb_forall in H2. specialize (H2 _ Hin'). rewrite forallb_forall in H2.
    specialize (H2 _ Hin). simpl in H2. rewrite Z.eqb_refl in H2. simpl in H2.
    apply Z.eqb_eq in H2. auto.
  - exfalso. eapply find_none in F; eauto. simpl in F. now rewrite Z.eqb_refl in F.
Qed.

(* hypotheses are satisfiable by non-trivial operations: a read-only operation that really reads
   the store, next to an in-place one that is NOT read-only *)
Definition ex_sum : eop := mk_eop (fun s => (s, fold_right Z.add 0%Z s)) [].
Definition ex_len : eop := mk_eop (fun s => (s, Z.of_nat (length s))) [].
Definition ex_bump : eop := mk_eop (fun s => (match s with [] => [] | x :: r => (x + 1)%Z :: r end, 0%Z)) [0%nat].

Lemma ex_sum_read_only : read_only ex_sum /\ read_only ex_len.
Proof. repeat split; auto. Qed.

Lemma ex_bump_respects : respects_footprint ex_bump /\ ~ read_only ex_bump.
Proof.
  split.
  - intros s; split; [destruct s; reflexivity|]. intros l Hl. destruct s; simpl; auto.
    destruct l; simpl in *; [tauto|auto].
  - intros [_ W]. discriminate.
Qed.

Example readonly_example :
  run_seq [ex_sum; ex_len; ex_sum] [3; 4]%Z = ([3; 4]%Z, [7; 2; 7]%Z) /\
  fst (run_seq [ex_sum; ex_bump; ex_sum] [3; 4]%Z) <> [3; 4]%Z.
Proof. split; [reflexivity | vm_compute; discriminate]. Qed.

Example iteration_example :
  run_fresh [10; 20]%Z [] [Iter 0; Next 0; Iter 1; Next 1; Len; Next 1; Get (-1); Next 1; Next 0; Next 0]%nat
  = [RIter; RYield 10; RIter; RYield 10; RLen 2; RYield 20; RItem 20; RStop; RYield 20; RStop]%Z.
Proof. reflexivity. Qed.
