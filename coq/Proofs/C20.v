(* C20 -- proofs about the container protocol and the effect discipline (Model/C20.v). *)
From PV Require Import Lib.Base Model.C20.
From Coq Require Import ZArith List Bool Lia Permutation Arith.
Import ListNotations.

(* ------------------------------------------------------------------------------------ *)
(* generic facts *)

Lemma nth_error_skipn_cons {A} (l : list A) c x :
  nth_error l c = Some x -> skipn c l = x :: skipn (S c) l.
Proof.
  revert c; induction l as [|y l IH]; intros [|c] H; simpl in *; try discriminate.
  - now inversion H.
  - rewrite (IH c H). destruct l; reflexivity.
Qed.

Lemma nth_error_none_skipn {A} (l : list A) c : nth_error l c = None -> skipn c l = [].
Proof. intros H. apply skipn_all2. now apply nth_error_None. Qed.

Lemma list_nth_error_ext {A} (a b : list A) : (forall l, nth_error a l = nth_error b l) -> a = b.
Proof.
  revert b; induction a as [|x a IH]; intros [|y b] H; auto.
  - specialize (H O); discriminate.
  - specialize (H O); discriminate.
  - f_equal. { specialize (H O); now inversion H. } apply IH. intros l. exact (H (S l)).
Qed.

Section Run.
  Context {A St : Type}.
  Variable step : St -> op -> St * res A.

  Lemma run_length s h : length (run step s h) = length h.
  Proof. revert s; induction h as [|o h IH]; intros s; simpl; auto. destruct (step s o); simpl; auto. Qed.

  Lemma run_app s h1 h2 : run step s (h1 ++ h2) = run step s h1 ++ run step (final step s h1) h2.
  Proof.
    revert s; induction h1 as [|o h1 IH]; intros s; simpl; auto.
    destruct (step s o) as [s' r] eqn:E; simpl. now rewrite IH.
  Qed.

  Lemma skipn_run_app s h1 o h2 :
    skipn (S (length h1)) (run step s (h1 ++ o :: h2)) = run step (fst (step (final step s h1) o)) h2.
  Proof.
    rewrite run_app, skipn_app, run_length.
    rewrite skipn_all2 by (rewrite run_length; lia).
    replace (S (length h1) - length h1)%nat with 1%nat by lia.
    simpl. destruct (step (final step s h1) o); reflexivity.
  Qed.
End Run.

(* ------------------------------------------------------------------------------------ *)
(* (a) the fresh-cursor machine *)

Section Fresh.
  Context {A : Type}.
  Variable parts : list A.
  Variable k : nat.

  Lemma fresh_step_other cs o :
    on k o = false -> cur_get k (fst (fresh_step parts cs o)) = cur_get k cs.
  Proof.
    destruct o as [k'|k'| |i]; simpl; intros H; auto.
    - now rewrite H.
    - destruct (cur_get k' cs) as [c|]; auto. destruct (nth_error parts c); simpl; auto. now rewrite H.
  Qed.

  Lemma fresh_step_same cs1 cs2 o :
    cur_get k cs1 = cur_get k cs2 -> on k o = true ->
    snd (fresh_step parts cs1 o) = snd (fresh_step parts cs2 o) /\
    cur_get k (fst (fresh_step parts cs1 o)) = cur_get k (fst (fresh_step parts cs2 o)).
  Proof.
    intros E H. destruct o as [k'|k'| |i]; simpl in *; try discriminate.
    - rewrite H. split; reflexivity.
    - apply Nat.eqb_eq in H; subst k'. rewrite <- E.
      destruct (cur_get k cs1) as [c|] eqn:Ec; simpl; [|split; [reflexivity|congruence]].
      destruct (nth_error parts c); simpl; [rewrite Nat.eqb_refl; split; reflexivity|].
      split; [reflexivity|congruence].
  Qed.

  (* what iterator k observes in ANY interleaving equals what it observes when run alone *)
  Lemma noninterference h : forall cs1 cs2,
    cur_get k cs1 = cur_get k cs2 ->
    pick k h (run (fresh_step parts) cs1 h) = run (fresh_step parts) cs2 (filter (on k) h).
  Proof.
    induction h as [|o h IH]; intros cs1 cs2 E; simpl; auto.
    destruct (fresh_step parts cs1 o) as [cs1' r1] eqn:E1.
    destruct (on k o) eqn:Ho; simpl.
    - destruct (fresh_step parts cs2 o) as [cs2' r2] eqn:E2.
      destruct (fresh_step_same cs1 cs2 o E Ho) as [Hr Hc].
      rewrite E1, E2 in Hr, Hc; simpl in *. subst r2. f_equal. now apply IH.
    - apply IH. rewrite <- E. pose proof (fresh_step_other cs1 o Ho) as H. now rewrite E1 in H.
  Qed.

  (* one iterator alone: yields the parts from its cursor on, in order, then StopIteration for ever *)
  Lemma run_nexts n : forall c cs, cur_get k cs = Some c ->
    run (fresh_step parts) cs (repeat (Next k) n)
    = map RYield (firstn n (skipn c parts)) ++ repeat RStop (n - length (skipn c parts)).
  Proof.
    induction n as [|n IH]; intros c cs H; simpl.
    - reflexivity.
    - rewrite H. destruct (nth_error parts c) as [x|] eqn:E.
      + rewrite (nth_error_skipn_cons _ _ _ E).
        remember (skipn (S c) parts) as rest eqn:Er. simpl.
        f_equal. subst rest. apply IH. simpl. now rewrite Nat.eqb_refl.
      + rewrite (nth_error_none_skipn _ _ E). simpl.
        f_equal. rewrite (IH c cs H), (nth_error_none_skipn _ _ E). simpl.
        rewrite firstn_nil. simpl. now rewrite Nat.sub_0_r.
  Qed.

  Lemma filter_on_no_iter h : no_iter k h = true -> filter (on k) h = repeat (Next k) (count_next k h).
  Proof.
    unfold count_next. induction h as [|o h IH]; simpl; auto.
    intros H. apply andb_true_iff in H as [H1 H2]. specialize (IH H2).
    destruct o as [k'|k'| |i]; simpl in *; auto.
    - destruct (Nat.eqb k k'); simpl in *; [discriminate|auto].
    - destruct (Nat.eqb k k') eqn:Ek; simpl; auto.
      apply Nat.eqb_eq in Ek; subst k'. f_equal. exact IH.
  Qed.

  Lemma iteration_complete_lemma h1 h2 cs :
    no_iter k h2 = true ->
    pick k h2 (skipn (S (length h1)) (run_fresh parts cs (h1 ++ Iter k :: h2)))
    = map RYield (firstn (count_next k h2) parts) ++ repeat RStop (count_next k h2 - length parts).
  Proof.
    intros H. unfold run_fresh. rewrite skipn_run_app. simpl.
    rewrite (noninterference h2 _ (cur_set k 0 (final (fresh_step parts) cs h1)) eq_refl).
    rewrite (filter_on_no_iter h2 H).
    rewrite (run_nexts _ 0 _); [reflexivity|]. simpl. now rewrite Nat.eqb_refl.
  Qed.
End Fresh.

(* the nested loop over a fresh-cursor container yields the full product, in order *)
Section Nested.
  Context {A : Type}.
  Variable parts : list A.

  Lemma inner_loop_fresh fuel : forall cs c a,
    cur_get 1 cs = Some c -> (length (skipn c parts) < fuel)%nat ->
    exists cs', inner_loop (fresh_step parts) fuel cs a = (cs', map (fun b => (a, b)) (skipn c parts))
                /\ cur_get 0 cs' = cur_get 0 cs.
  Proof.
    induction fuel as [|f IH]; intros cs c a H L; [lia|].
    simpl. rewrite H. destruct (nth_error parts c) as [x|] eqn:E.
    - rewrite (nth_error_skipn_cons _ _ _ E) in *.
      remember (skipn (S c) parts) as rest eqn:Er. simpl in L.
      destruct (IH (cur_set 1 (S c) cs) (S c) a) as [cs' [E1 E2]]; [reflexivity|subst rest; lia|].
      rewrite E1. exists cs'. subst rest. split; [reflexivity|]. rewrite E2. reflexivity.
    - rewrite (nth_error_none_skipn _ _ E). exists cs. auto.
  Qed.

  Lemma outer_loop_fresh fuel : forall cs c,
    cur_get 0 cs = Some c -> (length (skipn c parts) < fuel)%nat ->
    outer_loop (fresh_step parts) fuel (S (length parts)) cs = list_prod (skipn c parts) parts.
  Proof.
    induction fuel as [|f IH]; intros cs c H L; [lia|].
    cbn [outer_loop fresh_step]. rewrite H. destruct (nth_error parts c) as [x|] eqn:E.
    - rewrite (nth_error_skipn_cons _ _ _ E) in *.
      remember (skipn (S c) parts) as rest eqn:Er. simpl in L.
      destruct (inner_loop_fresh (S (length parts)) (cur_set 1 0 (cur_set 0 (S c) cs)) 0 x)
        as [cs' [E1 E2]]; [reflexivity|simpl; lia|].
      simpl skipn in E1. rewrite E1. cbn [list_prod]. f_equal.
      subst rest. apply IH; [|lia]. rewrite E2. reflexivity.
    - rewrite (nth_error_none_skipn _ _ E). reflexivity.
  Qed.

  Lemma nested_iteration_product_lemma :
    nested_pairs (fresh_step parts) [] (length parts) = list_prod parts parts.
  Proof.
    unfold nested_pairs. cbn [fresh_step].
    apply (outer_loop_fresh (S (length parts)) (cur_set 0 0 []) 0); [reflexivity|simpl; lia].
  Qed.
End Nested.

(* zip(c, c) over a fresh-cursor container yields every part paired with itself, in order *)
Section Zip.
  Context {A : Type}.
  Variable parts : list A.

  Lemma zip_loop_fresh fuel : forall cs c,
    cur_get 0 cs = Some c -> cur_get 1 cs = Some c -> (length (skipn c parts) < fuel)%nat ->
    zip_loop (fresh_step parts) fuel cs = map (fun x => (x, x)) (skipn c parts).
  Proof.
    induction fuel as [|f IH]; intros cs c H0 H1 L; [lia|].
    cbn [zip_loop fresh_step]. rewrite H0. destruct (nth_error parts c) as [x|] eqn:E.
    - cbn [fresh_step]. replace (cur_get 1 (cur_set 0 (S c) cs)) with (cur_get 1 cs) by reflexivity.
      rewrite H1, E. rewrite (nth_error_skipn_cons _ _ _ E) in *.
      remember (skipn (S c) parts) as rest eqn:Er. simpl in L. cbn [map]. f_equal.
      subst rest. apply (IH _ (S c)); [reflexivity | reflexivity | lia].
    - rewrite (nth_error_none_skipn _ _ E). reflexivity.
  Qed.

  Lemma zip_iteration_lemma :
    zip_pairs (fresh_step parts) [] (length parts) = map (fun x => (x, x)) parts.
  Proof.
    unfold zip_pairs. cbn [fresh_step].
    apply (zip_loop_fresh (S (length parts)) _ 0); [reflexivity | reflexivity | simpl; lia].
  Qed.
End Zip.

Lemma shared_cursor_zip_refuted_lemma :
  exists parts : list Z, zip_pairs (shared_step parts) None (length parts) = [(1, 2)]%Z /\
                         zip_pairs (shared_step parts) None (length parts) <> map (fun x => (x, x)) parts.
Proof. exists [1; 2]%Z. split; [vm_compute; reflexivity | vm_compute; discriminate]. Qed.

(* the old design: the same client program loses pairs; an interleaved history makes
   iterator 0 stop before it has visited the second part *)
Lemma shared_cursor_refuted_lemma :
  (exists parts : list Z,
     nested_pairs (shared_step parts) None (length parts) = [(1, 1); (1, 2)]%Z /\
     nested_pairs (shared_step parts) None (length parts) <> list_prod parts parts) /\
  (exists (parts : list Z) (h1 h2 : list op) (k : nat),
     no_iter k h2 = true /\
     pick k h2 (skipn (S (length h1)) (run (shared_step parts) None (h1 ++ Iter k :: h2)))
     <> map RYield (firstn (count_next k h2) parts) ++ repeat RStop (count_next k h2 - length parts)).
Proof.
  split.
  - exists [1; 2]%Z. split; [vm_compute; reflexivity | vm_compute; discriminate].
  - exists [1; 2]%Z, [], [Next 0; Iter 1; Next 1; Next 1; Next 1; Next 0]%nat, 0%nat.
    split; [reflexivity | vm_compute; discriminate].
Qed.

(* len / index / iteration agree *)
Section LenIndex.
  Context {A : Type}.
  Variable parts : list A.
  #[local] Open Scope Z_scope.

  Definition len_index_spec (o : op) (r : res A) : Prop :=
    let n := Z.of_nat (length parts) in
    match o with
    | Len => r = RLen (length parts)
    | Get i => (r = RIndexError <-> ~ (- n <= i < n)) /\
               (forall x, r = RItem x -> nth_error parts (Z.to_nat (i mod n)) = Some x) /\
               (- n <= i < n -> exists x, r = RItem x)
    | _ => True
    end.

  Lemma get_res_spec i : len_index_spec (Get i) (get_res parts i).
  Proof.
    unfold len_index_spec, get_res, py_index.
    set (n := Z.of_nat (length parts)).
    destruct (Z.leb_spec 0 i), (Z.ltb_spec i n); simpl.
    - destruct (nth_error parts (Z.to_nat i)) as [x|] eqn:E.
      + split; [split; [discriminate|lia]|]. split.
        * intros x0 [= <-]. rewrite Z.mod_small by lia. exact E.
        * eauto.
      + apply nth_error_None in E. lia.
    - destruct (Z.leb_spec (- n) i), (Z.ltb_spec i 0); simpl; try lia.
      split; [split; [lia|reflexivity]|]. split; [discriminate|lia].
    - destruct (Z.leb_spec (- n) i), (Z.ltb_spec i 0); simpl; try lia.
      + destruct (nth_error parts (Z.to_nat (n + i))) as [x|] eqn:E.
        * split; [split; [discriminate|lia]|]. split.
          -- intros x0 [= <-]. replace (i mod n) with (n + i); [exact E|].
             apply (Z.mod_unique i n (-1) (n + i)); lia.
          -- eauto.
        * apply nth_error_None in E. lia.
      + split; [split; [lia|reflexivity]|]. split; [discriminate|lia].
    - lia.
  Qed.

  Lemma len_index_consistent_lemma h : forall cs,
    Forall2 len_index_spec h (run_fresh parts cs h).
  Proof.
    unfold run_fresh. induction h as [|o h IH]; intros cs; simpl; [constructor|].
    destruct (fresh_step parts cs o) as [cs' r] eqn:E. constructor; [|apply IH].
    destruct o as [k|k| |i]; simpl in *; try exact I.
    - now inversion E.
    - inversion E; subst. apply get_res_spec.
  Qed.

  (* the j-th element an iteration yields is the one indexing returns *)
  Lemma yield_is_index j x : nth_error parts j = Some x -> get_res parts (Z.of_nat j) = RItem x.
  Proof.
    intros H. unfold get_res, py_index.
    assert (j < length parts)%nat by (apply nth_error_Some; congruence).
    destruct (Z.leb_spec 0 (Z.of_nat j)), (Z.ltb_spec (Z.of_nat j) (Z.of_nat (length parts))); try lia.
    simpl. rewrite Nat2Z.id, H. reflexivity.
  Qed.
End LenIndex.

(* ------------------------------------------------------------------------------------ *)
(* (b) effect discipline *)

Definition respects_footprint (f : eop) : Prop :=
  forall s, length (fst (e_run f s)) = length s /\
            forall l, ~ In l (e_writes f) -> nth_error (fst (e_run f s)) l = nth_error s l.

Definition read_only (f : eop) : Prop := respects_footprint f /\ e_writes f = [].

Lemma read_only_id f : read_only f -> forall s, fst (e_run f s) = s.
Proof.
  intros [R W] s. destruct (R s) as [_ H]. apply list_nth_error_ext. intros l. apply H. rewrite W. auto.
Qed.

Lemma readonly_sequence_pure_lemma fs : Forall read_only fs ->
  forall s, run_seq fs s = (s, map (fun f => snd (e_run f s)) fs).
Proof.
  induction 1 as [|f fs Hf _ IH]; intros s; simpl; auto.
  pose proof (read_only_id f Hf s) as E. destruct (e_run f s) as [s1 x]; simpl in *. subst s1.
  now rewrite IH.
Qed.

Lemma repeated_calls_agree_lemma fs : Forall read_only fs ->
  forall s i j f, nth_error fs i = Some f -> nth_error fs j = Some f ->
  fst (run_seq fs s) = s /\
  nth_error (snd (run_seq fs s)) i = Some (snd (e_run f s)) /\
  nth_error (snd (run_seq fs s)) j = Some (snd (e_run f s)).
Proof.
  intros H s i j f Hi Hj. rewrite (readonly_sequence_pure_lemma fs H s). simpl.
  split; auto.
  split; [exact (map_nth_error (fun f => snd (e_run f s)) i fs Hi) | exact (map_nth_error (fun f => snd (e_run f s)) j fs Hj)].
Qed.

Lemma reordered_calls_agree_lemma fs fs' : Forall read_only fs -> Permutation fs fs' ->
  forall s, fst (run_seq fs' s) = s /\
            Permutation (combine fs (snd (run_seq fs s))) (combine fs' (snd (run_seq fs' s))).
Proof.
  intros H P s.
  assert (H' : Forall read_only fs').
  { apply Forall_forall. intros f Hf. rewrite Forall_forall in H. apply H.
    apply Permutation_sym in P. eapply Permutation_in; eauto. }
  rewrite (readonly_sequence_pure_lemma fs H s), (readonly_sequence_pure_lemma fs' H' s). simpl.
  split; auto.
  assert (C : forall l : list eop, combine l (map (fun f => snd (e_run f s)) l) = map (fun f => (f, snd (e_run f s))) l).
  { induction l; simpl; congruence. }
  rewrite !C. now apply Permutation_map.
Qed.

(* ---- the alphabet of calls: entry point x argument kind ---- *)

Lemma entry_id_inj a b : entry_id a = entry_id b -> a = b.
Proof. destruct a, b; simpl; intros H; try reflexivity; discriminate H. Qed.

Lemma akind_id_inj a b : akind_id a = akind_id b -> a = b.
Proof. destruct a, b; simpl; intros H; try reflexivity; discriminate H. Qed.

Lemma call_eqb_eq c1 c2 : call_eqb c1 c2 = true <-> c1 = c2.
Proof.
  destruct c1 as [e1 k1], c2 as [e2 k2]. unfold call_eqb; simpl. split.
  - intros H. apply andb_true_iff in H as [H1 H2]. apply Z.eqb_eq in H1, H2.
    f_equal; [now apply entry_id_inj | now apply akind_id_inj].
  - intros [= -> ->]. now rewrite !Z.eqb_refl.
Qed.

Lemma call_eqb_refl c : call_eqb c c = true.
Proof. now apply call_eqb_eq. Qed.

Lemma sem_read_only_Forall (sem : call -> eop) cs :
  (forall c, In c cs -> read_only (sem c)) -> Forall read_only (map sem cs).
Proof.
  intros H. apply Forall_forall. intros f Hf. apply in_map_iff in Hf as [c [<- Hc]]. auto.
Qed.

(* every sequence of read-only calls (any entry points, any argument kinds, any length, any order,
   with repetitions) leaves the store unchanged, and every result is that of the same call on the
   INITIAL store *)
Lemma readonly_calls_pure_lemma (sem : call -> eop) cs :
  (forall c, In c cs -> read_only (sem c)) ->
  forall s, run_calls sem cs s = (s, map (fun c => snd (e_run (sem c) s)) cs).
Proof.
  intros H s. unfold run_calls.
  rewrite (readonly_sequence_pure_lemma _ (sem_read_only_Forall sem cs H) s). now rewrite map_map.
Qed.

Lemma repeated_call_same_result_lemma (sem : call -> eop) cs :
  (forall c, In c cs -> read_only (sem c)) ->
  forall s i j c, nth_error cs i = Some c -> nth_error cs j = Some c ->
  fst (run_calls sem cs s) = s /\
  nth_error (snd (run_calls sem cs s)) i = Some (snd (e_run (sem c) s)) /\
  nth_error (snd (run_calls sem cs s)) j = nth_error (snd (run_calls sem cs s)) i.
Proof.
  intros H s i j c Hi Hj. rewrite (readonly_calls_pure_lemma sem cs H s). simpl.
  split; auto.
  rewrite (map_nth_error (fun c => snd (e_run (sem c) s)) i cs Hi),
          (map_nth_error (fun c => snd (e_run (sem c) s)) j cs Hj). auto.
Qed.

Lemma reordered_calls_same_results_lemma (sem : call -> eop) cs cs' :
  (forall c, In c cs -> read_only (sem c)) -> Permutation cs cs' ->
  forall s, fst (run_calls sem cs' s) = s /\
            Permutation (combine cs (snd (run_calls sem cs s))) (combine cs' (snd (run_calls sem cs' s))).
Proof.
  intros H P s.
  assert (H' : forall c, In c cs' -> read_only (sem c)).
  { intros c Hc. apply H. apply Permutation_sym in P. eapply Permutation_in; eauto. }
  rewrite (readonly_calls_pure_lemma sem cs H s), (readonly_calls_pure_lemma sem cs' H' s). simpl.
  split; auto.
  assert (C : forall l : list call, combine l (map (fun c => snd (e_run (sem c) s)) l) = map (fun c => (c, snd (e_run (sem c) s))) l).
  { induction l; simpl; congruence. }
  rewrite !C. now apply Permutation_map.
Qed.

(* the observed footprint table.  A semantics RESPECTS a table when every call listed in it writes
   at most the listed locations; when the table is empty for every call of a sequence, the
   sequence is pure *)
Definition respects_table (sem : call -> eop) (t : fp_table) : Prop :=
  forall c ws, In (c, ws) t -> respects_footprint (sem c) /\ e_writes (sem c) = ws.

Lemma empty_table_pure_lemma (sem : call -> eop) (t : fp_table) :
  respects_table sem t -> table_empty t = true ->
  forall cs, (forall c, In c cs -> table_covers t c = true) ->
  forall s, run_calls sem cs s = (s, map (fun c => snd (e_run (sem c) s)) cs).
Proof.
  intros R E cs C. apply readonly_calls_pure_lemma. intros c Hc.
  specialize (C c Hc). unfold table_covers in C. apply existsb_exists in C as [[c' ws] [Hin Heq]].
  simpl in Heq. apply call_eqb_eq in Heq. subst c'.
  unfold table_empty in E. rewrite forallb_forall in E. specialize (E _ Hin). simpl in E.
  destruct ws; [|discriminate]. destruct (R c [] Hin) as [R1 R2]. split; auto.
Qed.

(* the trace checker is sound: a sequence of read-only calls always produces an accepted trace ... *)
Lemma model_trace_readonly hs (sem : call -> eop) cs : (forall c, In c cs -> read_only (sem c)) ->
  forall s, model_trace hs sem cs s = map (fun c => (c, hs s, hs s, snd (e_run (sem c) s))) cs.
Proof.
  induction cs as [|c cs IH]; intros H s; simpl; auto.
  pose proof (read_only_id (sem c) (H c (or_introl eq_refl)) s) as E.
  destruct (e_run (sem c) s) as [s1 x]; simpl in *. subst s1.
  rewrite IH; [reflexivity | intros c' Hc'; apply H; now right].
Qed.

Lemma trace_ok_sound_lemma hs (sem : call -> eop) cs s :
  (forall c, In c cs -> read_only (sem c)) ->
  trace_ok (hs s, model_trace hs sem cs s) = true.
Proof.
  intros H. rewrite (model_trace_readonly hs sem cs H s). unfold trace_ok.
  apply andb_true_iff; split.
  - apply forallb_forall. intros r Hr. apply in_map_iff in Hr as [c [<- _]]. simpl.
    now rewrite Z.eqb_refl.
  - apply forallb_forall. intros r1 H1. apply forallb_forall. intros r2 H2.
    apply in_map_iff in H1 as [c1 [<- I1]]. apply in_map_iff in H2 as [c2 [<- I2]]. simpl.
    destruct (call_eqb c1 c2) eqn:E; simpl; auto.
    apply call_eqb_eq in E. subst c2. apply Z.eqb_refl.
Qed.

(* ... and complete: an accepted trace is explained by a pure function of the call (entry point and
   argument kind) and the initial store *)
Lemma trace_ok_complete_lemma init tr :
  trace_ok (init, tr) = true ->
  exists resf : call -> Z,
    Forall (fun r : trow => let '(o, b, a, x) := r in b = init /\ a = init /\ x = resf o) tr.
Proof.
  unfold trace_ok. intros H. apply andb_true_iff in H as [H1 H2].
  exists (fun o => match find (fun r : trow => let '(o', _, _, _) := r in call_eqb o' o) tr with
                   | Some (_, _, _, x) => x | None => 0%Z end).
  apply Forall_forall. intros [[[o b] a] x] Hin.
  rewrite forallb_forall in H1. specialize (H1 _ Hin). simpl in H1.
  apply andb_true_iff in H1 as [Hb Ha]. apply Z.eqb_eq in Hb, Ha. split; [auto|split; [auto|]].
  destruct (find _ tr) as [[[[o' b'] a'] x']|] eqn:F.
  - apply find_some in F as [Hin' Eo]. apply call_eqb_eq in Eo. subst o'.
    rewrite forallb_forall in H2. specialize (H2 _ Hin'). rewrite forallb_forall in H2.
    specialize (H2 _ Hin). simpl in H2. rewrite call_eqb_refl in H2. simpl in H2.
    apply Z.eqb_eq in H2. auto.
  - exfalso. eapply find_none in F; eauto. simpl in F. now rewrite call_eqb_refl in F.
Qed.

(* hypotheses are satisfiable by non-trivial operations: a read-only operation that really reads
   the store, next to an in-place one that is NOT read-only *)
Definition ex_sum : eop := mk_eop (fun s => (s, fold_right Z.add 0%Z s)) [].
Definition ex_len : eop := mk_eop (fun s => (s, Z.of_nat (length s))) [].
Definition ex_bump : eop := mk_eop (fun s => (match s with [] => [] | x :: r => (x + 1)%Z :: r end, 0%Z)) [0%nat].

Lemma ex_sum_read_only : read_only ex_sum /\ read_only ex_len.
Proof. repeat split; auto. Qed.

Lemma ex_bump_respects : respects_footprint ex_bump /\ ~ read_only ex_bump.
Proof.
  split.
  - intros s; split; [destruct s; reflexivity|]. intros l Hl. destruct s; simpl; auto.
    destruct l; simpl in *; [tauto|auto].
  - intros [_ W]. discriminate.
Qed.

(* a semantics over the call alphabet: the result depends on the entry point, the kind and the store *)
Definition ex_sem (c : call) : eop :=
  mk_eop (fun s => (s, (fold_right Z.add 0 s + 100 * entry_id (fst c) + akind_id (snd c))%Z)) [].
Definition ex_sem_bad (c : call) : eop :=
  match c with (E_transpose, K_PartList) => ex_bump | _ => ex_sem c end.

Lemma ex_sem_read_only : forall c, read_only (ex_sem c).
Proof. intros c. repeat split; auto. Qed.

Example readonly_example :
  run_seq [ex_sum; ex_len; ex_sum] [3; 4]%Z = ([3; 4]%Z, [7; 2; 7]%Z) /\
  fst (run_seq [ex_sum; ex_bump; ex_sum] [3; 4]%Z) <> [3; 4]%Z.
Proof. split; [reflexivity | vm_compute; discriminate]. Qed.

Example calls_example :
  run_calls ex_sem [(E_transpose, K_PartList); (E_save_musicxml, K_Score); (E_transpose, K_PartList)] [3; 4]%Z
  = ([3; 4]%Z, [(7 + 100 * entry_id E_transpose + 3)%Z; 7%Z; (7 + 100 * entry_id E_transpose + 3)%Z]) /\
  fst (run_calls ex_sem_bad [(E_transpose, K_Score); (E_transpose, K_PartList)] [3; 4]%Z) <> [3; 4]%Z /\
  trace_ok (0%Z, model_trace (fold_right Z.add 0%Z) ex_sem_bad [(E_transpose, K_Score); (E_transpose, K_PartList)] [3; 4]%Z) = false.
Proof. split; [reflexivity | split; [vm_compute; discriminate | reflexivity]]. Qed.

Example iteration_example :
  run_fresh [10; 20]%Z [] [Iter 0; Next 0; Iter 1; Next 1; Len; Next 1; Get (-1); Next 1; Next 0; Next 0]%nat
  = [RIter; RYield 10; RIter; RYield 10; RLen 2; RYield 20; RItem 20; RStop; RYield 20; RStop]%Z.
Proof. reflexivity. Qed.

(* ------------------------------------------------------------------------------------ *)
(* (c) deep copy before modification *)

Lemma hset_length h : forall l v, length (hset h l v) = length h.
Proof. induction h as [|x h IH]; intros [|l] v; simpl; auto. Qed.

Lemma firstn_hset n : forall h l v, (n <= l)%nat -> firstn n (hset h l v) = firstn n h.
Proof.
  induction n as [|n IH]; intros h l v L; [reflexivity|].
  destruct h as [|x h]; [reflexivity|]. destruct l as [|l]; [lia|]. simpl. f_equal. apply IH. lia.
Qed.

Lemma modify_length f ls : forall h, length (modify f ls h) = length h.
Proof. unfold modify. induction ls as [|l ls IH]; intros h; simpl; auto. rewrite IH. apply hset_length. Qed.

Lemma firstn_modify f n ls : Forall (fun l => (n <= l)%nat) ls ->
  forall h, firstn n (modify f ls h) = firstn n h.
Proof.
  unfold modify. induction 1 as [|l ls Hl _ IH]; intros h; simpl; auto.
  rewrite IH. now apply firstn_hset.
Qed.

Lemma hset_app_mid h : forall v r x, hset (h ++ v :: r) (length h) x = h ++ x :: r.
Proof. induction h as [|y h IH]; intros v r x; simpl; auto. now rewrite IH. Qed.

Lemma hget_app_mid h v r : hget (h ++ v :: r) (length h) = v.
Proof. unfold hget. apply nth_middle. Qed.

Lemma modify_fresh f : forall vs h, modify f (seq (length h) (length vs)) (h ++ vs) = h ++ map f vs.
Proof.
  induction vs as [|v vs IH]; intros h; [reflexivity|].
  cbn [length seq]. unfold modify in *. cbn [fold_left].
  rewrite hget_app_mid, hset_app_mid.
  replace (h ++ f v :: vs) with ((h ++ [f v]) ++ vs) by (rewrite <- app_assoc; reflexivity).
  replace (S (length h)) with (length (h ++ [f v])) by (rewrite app_length; simpl; lia).
  rewrite IH. rewrite <- app_assoc. reflexivity.
Qed.

Lemma values_fresh : forall ws h, values (h ++ ws) (seq (length h) (length ws)) = ws.
Proof.
  unfold values. induction ws as [|w ws IH]; intros h; [reflexivity|].
  cbn [length seq map]. rewrite hget_app_mid. f_equal.
  replace (h ++ w :: ws) with ((h ++ [w]) ++ ws) by (rewrite <- app_assoc; reflexivity).
  replace (S (length h)) with (length (h ++ [w])) by (rewrite app_length; simpl; lia).
  apply IH.
Qed.

Lemma seq_ge n k : Forall (fun l => (n <= l)%nat) (seq n k).
Proof. apply Forall_forall. intros l H. apply in_seq in H. lia. Qed.

Lemma firstn_app_exact {A} (a b : list A) : firstn (length a) (a ++ b) = a.
Proof. rewrite firstn_app, Nat.sub_diag, firstn_all. simpl. apply app_nil_r. Qed.

(* the argument's cells (all cells that existed before the call) keep their values, and the result
   consists of cells that did not exist before *)
Lemma copy_modify_preserves_argument_lemma w f h roots : w <> WalkArgument ->
  firstn (length h) (fst (copy_modify w f h roots)) = h /\
  Forall (fun l => (length h <= l)%nat) (snd (copy_modify w f h roots)) /\
  NoDup (snd (copy_modify w f h roots)) /\
  (length h <= length (fst (copy_modify w f h roots)))%nat.
Proof.
  intros W. unfold copy_modify, deepcopy. cbn [fst snd].
  split; [|split; [apply seq_ge|split; [apply seq_NoDup|rewrite modify_length, app_length; lia]]].
  rewrite firstn_modify; [apply firstn_app_exact|].
  destruct w; [apply seq_ge|contradiction|constructor].
Qed.

(* what the result holds *)
Lemma copy_modify_result_lemma f h roots :
  values (fst (copy_modify WalkCopy f h roots)) (snd (copy_modify WalkCopy f h roots)) = map f (values h roots) /\
  values (fst (copy_modify WalkNothing f h roots)) (snd (copy_modify WalkNothing f h roots)) = values h roots.
Proof.
  unfold copy_modify, deepcopy. cbn [fst snd]. split.
  - replace (length roots) with (length (map (hget h) roots)) by apply map_length.
    rewrite modify_fresh. unfold values at 2.
    replace (length (map (hget h) roots)) with (length (map f (map (hget h) roots))) by (now rewrite !map_length).
    apply values_fresh.
  - unfold modify. cbn [fold_left].
    replace (length roots) with (length (map (hget h) roots)) by apply map_length.
    apply values_fresh.
Qed.

Lemma nth_firstn_below {A} (d : A) : forall n l (h : list A), (l < n)%nat -> nth l (firstn n h) d = nth l h d.
Proof.
  induction n as [|n IH]; intros l h L; [lia|].
  destruct h as [|x h]; [reflexivity|]. destruct l as [|l]; [reflexivity|]. simpl. apply IH. lia.
Qed.

Lemma values_firstn h h' roots :
  firstn (length h) h' = h -> Forall (fun l => (l < length h)%nat) roots -> values h' roots = values h roots.
Proof.
  intros E R. unfold values. apply map_ext_in. intros l Hl. rewrite Forall_forall in R. specialize (R l Hl).
  unfold hget. rewrite <- (nth_firstn_below 0%Z (length h) l h' R). now rewrite E.
Qed.

(* two calls in a row: the argument is still as it was and both results hold the same values *)
Lemma copy_modify_repeatable_lemma w f h roots : w <> WalkArgument ->
  Forall (fun l => (l < length h)%nat) roots ->
  firstn (length h) (fst (fst (call_twice w f h roots))) = h /\
  snd (fst (call_twice w f h roots)) = snd (call_twice w f h roots).
Proof.
  intros W R. unfold call_twice.
  destruct (copy_modify_preserves_argument_lemma w f h roots W) as [P1 [_ [_ L1]]].
  destruct (copy_modify w f h roots) as [h1 r1] eqn:E1. cbn [fst snd] in *.
  destruct (copy_modify_preserves_argument_lemma w f h1 roots W) as [P2 _].
  destruct (copy_modify w f h1 roots) as [h2 r2] eqn:E2. cbn [fst snd] in *.
  split.
  - transitivity (firstn (length h) (firstn (length h1) h2)); [rewrite firstn_firstn; f_equal; lia | rewrite P2; exact P1].
  - pose proof (copy_modify_result_lemma f h roots) as [C1 N1].
    pose proof (copy_modify_result_lemma f h1 roots) as [C2 N2].
    pose proof (values_firstn h h1 roots P1 R) as V.
    destruct w; [|contradiction|].
    + rewrite E1 in C1. rewrite E2 in C2. cbn [fst snd] in *. rewrite C1, C2, V. reflexivity.
    + rewrite E1 in N1. rewrite E2 in N2. cbn [fst snd] in *. rewrite N1, N2, V. reflexivity.
Qed.

(* the seeded slip (the loop walks the parts of the ARGUMENT): the argument is changed, the first
   result is an unmodified copy and a second call returns something else *)
Lemma walk_argument_refuted_lemma :
  exists (f : Z -> Z) (h : heap) (roots : list nat),
    Forall (fun l => (l < length h)%nat) roots /\
    firstn (length h) (fst (copy_modify WalkArgument f h roots)) <> h /\
    values (fst (copy_modify WalkArgument f h roots)) (snd (copy_modify WalkArgument f h roots)) = values h roots /\
    snd (fst (call_twice WalkArgument f h roots)) <> snd (call_twice WalkArgument f h roots).
Proof.
  exists Z.succ, [60; 64]%Z, [0; 1]%nat. split; [repeat constructor|].
  split; [vm_compute; discriminate|]. split; [reflexivity | vm_compute; discriminate].
Qed.

(* transpose: for EVERY argument kind the argument is unchanged and two calls agree *)
Lemma transpose_walk_not_argument k : transpose_walk k <> WalkArgument.
Proof. destruct k; discriminate. Qed.

Lemma transpose_every_kind_lemma (k : akind) f h roots :
  Forall (fun l => (l < length h)%nat) roots ->
  firstn (length h) (fst (copy_modify (transpose_walk k) f h roots)) = h /\
  firstn (length h) (fst (fst (call_twice (transpose_walk k) f h roots))) = h /\
  snd (fst (call_twice (transpose_walk k) f h roots)) = snd (call_twice (transpose_walk k) f h roots).
Proof.
  intros R. split.
  - apply copy_modify_preserves_argument_lemma, transpose_walk_not_argument.
  - apply copy_modify_repeatable_lemma; [apply transpose_walk_not_argument | exact R].
Qed.

Lemma list_eqb_Z_refl (l : list Z) : list_eqb Z.eqb l l = true.
Proof. induction l as [|x l IH]; simpl; auto. now rewrite Z.eqb_refl, IH. Qed.

Lemma seq_lt n : Forall (fun l => (l < n)%nat) (seq 0 n).
Proof. apply Forall_forall. intros l H. apply in_seq in H. lia. Qed.

(* the correspondence checker accepts what the model produces, for every kind, every f, every heap *)
Lemma cow_ok_sound_lemma (k : akind) f (before : list Z) :
  let '(h2, v1, v2) := call_twice (transpose_walk k) f before (seq 0 (length before)) in
  cow_ok (k, before, firstn (length before) h2, v1, v2) = true.
Proof.
  pose proof (copy_modify_repeatable_lemma (transpose_walk k) f before (seq 0 (length before))
                (transpose_walk_not_argument k) (seq_lt _)) as [A B].
  pose proof (copy_modify_repeatable_lemma (transpose_walk k) (fun x => x) before (seq 0 (length before))
                (transpose_walk_not_argument k) (seq_lt _)) as [A' _].
  destruct (call_twice (transpose_walk k) f before (seq 0 (length before))) as [[h2 v1] v2] eqn:E.
  cbn [fst snd] in *. unfold cow_ok.
  destruct (call_twice (transpose_walk k) (fun x => x) before (seq 0 (length before))) as [[h2' v1'] v2'] eqn:E'.
  cbn [fst snd] in *. rewrite A, A', B. now rewrite !list_eqb_Z_refl.
Qed.

(* and what it accepts is what the property says: argument as before, results equal *)
Lemma cow_ok_meaning_lemma k before after res1 res2 :
  cow_ok (k, before, after, res1, res2) = true -> after = before /\ res1 = res2.
Proof.
  unfold cow_ok.
  pose proof (copy_modify_repeatable_lemma (transpose_walk k) (fun x => x) before (seq 0 (length before))
                (transpose_walk_not_argument k) (seq_lt _)) as [A _].
  destruct (call_twice (transpose_walk k) (fun x => x) before (seq 0 (length before))) as [[h2 v1] v2].
  cbn [fst snd] in A. rewrite A. intros H. apply andb_true_iff in H as [H1 H2].
  split; [symmetry|]; eapply list_eqb_eq; eauto; intros x y; apply Z.eqb_eq.
Qed.

Example copy_modify_example :
  copy_modify WalkCopy (Z.add 4) [60; 64; 67]%Z [0; 2]%nat = ([60; 64; 67; 64; 71]%Z, [3; 4]%nat) /\
  copy_modify (transpose_walk K_GroupList) (Z.add 4) [60; 64; 67]%Z [0; 2]%nat = ([60; 64; 67; 60; 67]%Z, [3; 4]%nat) /\
  copy_modify WalkArgument (Z.add 4) [60; 64; 67]%Z [0; 2]%nat = ([64; 64; 71; 60; 67]%Z, [3; 4]%nat).
Proof. repeat split. Qed.
