(* C12 -- unbounded facts about the model (no generated table involved). *)
From PV Require Import Lib.Base Lib.Round Lib.Tab Model.C12.
From Coq Require Import QArith Qabs Qround Lqa Ascii NArith Decimal DecimalString DecimalN DecimalPos.
#[local] Open Scope Z_scope.

(* ---------- step letters ---------- *)
Lemma base_pc_cases s b : base_pc s = Some b ->
  In (s, b) [("C", 0); ("D", 2); ("E", 4); ("F", 5); ("G", 7); ("A", 9); ("B", 11);
             ("c", 0); ("d", 2); ("e", 4); ("f", 5); ("g", 7); ("a", 9); ("b", 11)]%string.
Proof.
  unfold base_pc. cbn [slookup].
  repeat (destruct (String.eqb s _) eqn:E;
          [apply String.eqb_eq in E; subst s; intros H; injection H as <-; cbn; tauto | clear E]).
  discriminate.
Qed.

Lemma base_pc_upper s b : base_pc s = Some b -> base_pc (upper_step s) = Some b /\ In (upper_step s) steps7.
Proof.
  intros H. apply base_pc_cases in H. cbn [In] in H.
  repeat (destruct H as [H|H]; [injection H as <- <-; cbn; tauto|]). contradiction.
Qed.

(* ---------- MIDI pitch -> spelling -> MIDI pitch, for every table the algorithm may be given ---------- *)
Lemma dummy_ok_lookup tab : dummy_ok tab = true -> forall pc, 0 <= pc < 12 ->
  exists s a, zlookup pc tab = Some (s, a) /\ base_pc s = Some (pc - a).
Proof.
  intros H pc Hpc. unfold dummy_ok in H.
  pose proof (forallb_In _ _ H pc (zrange_In 0 12 pc ltac:(simpl; lia))) as Hp. cbv beta in Hp.
  destruct (zlookup pc tab) as [[s a]|]; [|discriminate].
  exists s, a. split; [reflexivity|]. apply zopt_eqb_eq in Hp. exact Hp.
Qed.

Lemma midi_ps_roundtrip_any tab : dummy_ok tab = true -> forall m : Z,
  exists s a o, midi_to_ps_with tab m = Some (s, a, o) /\ In s steps7 /\ ps_to_midi s a o = Some m.
Proof.
  intros H m.
  destruct (dummy_ok_lookup tab H (m mod 12) (Z.mod_pos_bound m 12 ltac:(lia))) as [s [a [L B]]].
  destruct (base_pc_upper _ _ B) as [BU IU].
  exists (upper_step s), a, (m / 12 - 1). unfold midi_to_ps_with. rewrite L.
  split; [reflexivity|]. split; [exact IU|].
  unfold ps_to_midi, opt_bind. rewrite BU. f_equal.
  pose proof (Z.div_mod m 12 ltac:(lia)). lia.
Qed.

Lemma sharps_table_ok : dummy_ok sharps_table = true.
Proof. reflexivity. Qed.

(* ---------- pitch class ---------- *)
Lemma step2pc_spec s a o m : ps_to_midi s a o = Some m -> step2pc s a = Some (m mod 12).
Proof.
  unfold ps_to_midi, step2pc, opt_bind. destruct (base_pc s) as [b|]; [|discriminate].
  intros H. injection H as <-. f_equal.
  replace ((o + 1) * 12 + b + a) with ((b + a) + (o + 1) * 12) by lia.
  rewrite Z.mod_add by lia. reflexivity.
Qed.

Lemma step2pc_range s a pc : step2pc s a = Some pc -> 0 <= pc < 12.
Proof.
  unfold step2pc, opt_bind. destruct (base_pc s); [|discriminate]. intros H. injection H as <-.
  apply Z.mod_pos_bound. lia.
Qed.

(* ---------- note names: printing then reading, every octave >= 0 ---------- *)
Lemma string_of_uint_head d : d <> Nil ->
  exists c r, NilEmpty.string_of_uint d = String c r /\ is_acc_char c = false.
Proof.
  destruct d; intros H; try contradiction; cbn [NilEmpty.string_of_uint]; eexists _, _; split; reflexivity.
Qed.

Lemma N_to_uint_nonnil n : N.to_uint n <> Nil.
Proof. destruct n; [discriminate | apply Unsigned.to_uint_nonnil]. Qed.

Lemma split_acc_digits n : split_acc (digits n) = (EmptyString, digits n).
Proof.
  unfold digits. destruct (string_of_uint_head _ (N_to_uint_nonnil n)) as [c [r [E A]]].
  rewrite E. cbn [split_acc]. rewrite A. reflexivity.
Qed.

Lemma digits_nonempty n : exists c r, digits n = String c r.
Proof.
  unfold digits. destruct (string_of_uint_head _ (N_to_uint_nonnil n)) as [c [r [E _]]]. eauto.
Qed.

Lemma digits_read n : NilEmpty.uint_of_string (digits n) = Some (N.to_uint n).
Proof. unfold digits. apply NilEmpty.usu. Qed.

Lemma parse_step_digits c a n v :
  is_step_char c = true ->
  split_acc (a ++ digits n) = (a, digits n) -> sign_value a = Some v ->
  parse_name (String c EmptyString ++ a ++ digits n) = Some (String c EmptyString, v, Z.of_N n).
Proof.
  intros Hc Hs Hv. change (String c EmptyString ++ a ++ digits n)%string with (String c (a ++ digits n)). unfold parse_name. rewrite Hc, Hs. cbv beta iota zeta.
  pose proof (digits_read n) as R.
  destruct (digits_nonempty n) as [c' [r' E]]. rewrite E in *. rewrite R, Hv.
  rewrite DecimalN.Unsigned.of_to. reflexivity.
Qed.

Lemma name_roundtrip_lemma s a o : In s steps7 -> -3 <= a <= 3 -> 0 <= o ->
  parse_name (note_name s a o) = Some (s, a, o) /\ name_documented (note_name s a o) = true.
Proof.
  intros Hs Ha Ho.
  unfold note_name, print_octave. destruct (o <? 0) eqn:E; [lia|]. clear E.
  assert (Hn : o = Z.of_N (Z.to_N o)) by (rewrite Z2N.id; lia).
  set (n := Z.to_N o) in *. clearbody n. subst o.
  assert (Hsplit : forall acc, In acc [""; "#"; "x"; "###"; "b"; "bb"; "bbb"]%string ->
            split_acc (acc ++ digits n) = (acc, digits n)).
  { intros acc Hacc. cbn [In] in Hacc.
    repeat (destruct Hacc as [<-|Hacc]; [cbn [append split_acc is_acc_char]; rewrite ?split_acc_digits; reflexivity|]).
    contradiction. }
  assert (Ha' : In a [-3; -2; -1; 0; 1; 2; 3]) by (cbn [In]; lia).
  assert (Hone : forall st al, In st steps7 -> In al [-3; -2; -1; 0; 1; 2; 3] ->
            parse_name (st ++ alter_sign al ++ digits n) = Some (st, al, Z.of_N n) /\
            name_documented (st ++ alter_sign al ++ digits n) = true).
  { intros st al Hst Hal. cbn [In steps7] in Hst. cbn [In] in Hal.
    assert (Hd : forall c acc, In acc [""; "#"; "x"; "###"; "b"; "bb"; "bbb"]%string ->
              name_documented (String c EmptyString ++ acc ++ digits n) = true).
    { intros c acc Hacc. change (String c EmptyString ++ acc ++ digits n)%string with (String c (acc ++ digits n)). unfold name_documented. rewrite (Hsplit acc Hacc). cbn [fst In] in *.
      repeat (destruct Hacc as [<-|Hacc]; [reflexivity|]). contradiction. }
    destruct Hst as [<-|[<-|[<-|[<-|[<-|[<-|[<-|[]]]]]]]];
      destruct Hal as [<-|[<-|[<-|[<-|[<-|[<-|[<-|[]]]]]]]];
      (split; [ cbn [alter_sign]; apply parse_step_digits; [reflexivity | apply Hsplit; cbn; tauto | reflexivity]
              | cbn [alter_sign]; apply Hd; cbn; tauto ]). }
  apply Hone; assumption.
Qed.

Lemma note_name_injective_lemma s a o s' a' o' :
  In s steps7 -> -3 <= a <= 3 -> 0 <= o -> In s' steps7 -> -3 <= a' <= 3 -> 0 <= o' ->
  note_name s a o = note_name s' a' o' -> (s, a, o) = (s', a', o').
Proof.
  intros Hs Ha Ho Hs' Ha' Ho' E.
  destruct (name_roundtrip_lemma s a o Hs Ha Ho) as [P _].
  destruct (name_roundtrip_lemma s' a' o' Hs' Ha' Ho') as [P' _].
  rewrite E in P. congruence.
Qed.

(* whatever the grammar accepts is read by twelve-tone arithmetic: one semitone per sign *)
Lemma sign_value_app a b va vb : sign_value a = Some va -> sign_value b = Some vb ->
  sign_value (a ++ b) = Some (va + vb).
Proof.
  revert va. induction a as [|c a IH]; intros va; cbn [append sign_value].
  - intros H. injection H as <-. intros ->. f_equal.
  - unfold opt_bind. destruct (sign_char_value c) as [v|]; [|discriminate].
    destruct (sign_value a) as [w|] eqn:Ea; [|discriminate].
    intros H Hb. injection H as <-. rewrite (IH w eq_refl Hb). f_equal. lia.
Qed.

(* ---------- keys: reading a name and printing it back ---------- *)
Lemma index_of_In s l i f : index_of s l i = Some f -> i <= f < i + Z.of_nat (List.length l) /\ nth_error l (Z.to_nat (f - i)) = Some s.
Proof.
  revert i. induction l as [|x r IH]; intros i; cbn [index_of]; [discriminate|].
  destruct (String.eqb s x) eqn:E.
  - intros H. injection H as <-. apply String.eqb_eq in E. subst x.
    replace (i - i) with 0 by lia. cbn [List.length]. split; [lia | reflexivity].
  - intros H. apply IH in H as [H1 H2]. cbn [List.length]. split; [lia|].
    replace (Z.to_nat (f - i)) with (S (Z.to_nat (f - (i + 1)))) by lia. exact H2.
Qed.

Lemma key_parse_sound n f m : key_parse n = Some (f, m) -> -7 <= f <= 7 /\ key_name f m = Some n.
Proof.
  unfold key_parse.
  destruct (index_of n major_keys (-7)) as [f1|] eqn:E1.
  - intros H. injection H as <- <-. apply index_of_In in E1 as [R N1]. cbn [List.length major_keys] in R.
    split; [lia|]. unfold key_name.
    destruct ((-7 <=? f1) && (f1 <=? 7)) eqn:B; [|lia].
    replace (f1 + 7) with (f1 - -7) by lia. exact N1.
  - destruct (index_of n minor_keys (-7)) as [f2|] eqn:E2; [|discriminate].
    intros H. injection H as <- <-. apply index_of_In in E2 as [R N2]. cbn [List.length minor_keys] in R.
    split; [lia|]. unfold key_name.
    destruct ((-7 <=? f2) && (f2 <=? 7)) eqn:B; [|lia].
    replace (f2 + 7) with (f2 - -7) by lia. exact N2.
Qed.

(* ---------- tempo and ticks ---------- *)
#[local] Open Scope Q_scope.

(* a quarter note at mpq microseconds per quarter is exactly ppq ticks *)
Lemma quarter_is_ppq_ticks ppq mpq : (0 < ppq)%Z -> (0 < mpq)%Z ->
  sec_to_tick ppq mpq (inject_Z mpq / 1000000) = ppq.
Proof.
  intros Hp Hm. unfold sec_to_tick.
  assert (E : inject_Z (1000000 * ppq) * (inject_Z mpq / 1000000) / inject_Z mpq == inject_Z ppq).
  { rewrite (inject_Z_mult 1000000 ppq).
    assert (N2 : ~ inject_Z mpq == 0).
    { intros C. unfold Qeq in C. cbn [Qnum Qden inject_Z] in C. lia. }
    change (inject_Z 1000000) with 1000000. field. exact N2. }
  rewrite E. apply round_half_even_Z.
Qed.

(* rounding is monotone, hence so is the tick of a time *)
Lemma round_half_even_mono q1 q2 : q1 <= q2 -> (round_half_even q1 <= round_half_even q2)%Z.
Proof.
  intros H.
  destruct (Z_le_gt_dec (round_half_even q1) (round_half_even q2)) as [L|G]; [exact L|exfalso].
  pose proof (round_half_even_near q1) as N1. pose proof (round_half_even_near q2) as N2.
  unfold half in *.
  apply Qabs_Qle_condition in N1 as [N1a N1b]. apply Qabs_Qle_condition in N2 as [N2a N2b].
  assert (G' : inject_Z (round_half_even q2) + 1 <= inject_Z (round_half_even q1)).
  { rewrite <- (inject_Z_plus _ 1). rewrite <- Zle_Qle. lia. }
  assert (E : q1 == q2).
  { revert N1a N1b N2a N2b G'. generalize (inject_Z (round_half_even q1)) (inject_Z (round_half_even q2)). intros; apply Qle_antisym; lra. }
  rewrite E in G. lia.
Qed.

Lemma sec_to_tick_monotone ppq mpq t1 t2 : (0 < ppq)%Z -> (0 < mpq)%Z -> t1 <= t2 ->
  (sec_to_tick ppq mpq t1 <= sec_to_tick ppq mpq t2)%Z.
Proof.
  intros Hp Hm H. unfold sec_to_tick. apply round_half_even_mono.
  assert (A : 0 < inject_Z (1000000 * ppq)) by (change 0 with (inject_Z 0); rewrite <- Zlt_Qlt; lia).
  assert (B : 0 < inject_Z mpq) by (change 0 with (inject_Z 0); rewrite <- Zlt_Qlt; lia).
  unfold Qdiv. apply Qmult_le_compat_r; [|apply Qlt_le_weak, Qinv_lt_0_compat; exact B].
  rewrite !(Qmult_comm (inject_Z (1000000 * ppq))).
  apply Qmult_le_compat_r; [exact H | apply Qlt_le_weak; exact A].
Qed.

(* converting to ticks and back moves a time by at most half a tick *)
Lemma sec_tick_sec_error ppq mpq t : (0 < ppq)%Z -> (0 < mpq)%Z ->
  Qabs (tick_to_sec ppq mpq (sec_to_tick ppq mpq t) - t) <= (1 # 2) * (inject_Z mpq / inject_Z (1000000 * ppq)).
Proof.
  intros Hp Hm.
  pose proof (round_half_even_near (inject_Z (1000000 * ppq) * t / inject_Z mpq)) as N. unfold half in N.
  unfold tick_to_sec, sec_to_tick.
  set (k := round_half_even (inject_Z (1000000 * ppq) * t / inject_Z mpq)) in *.
  assert (A : 0 < inject_Z (1000000 * ppq)) by (change 0 with (inject_Z 0); rewrite <- Zlt_Qlt; lia).
  assert (B : 0 < inject_Z mpq) by (change 0 with (inject_Z 0); rewrite <- Zlt_Qlt; lia).
  set (a := inject_Z (1000000 * ppq)) in *. set (m := inject_Z mpq) in *.
  rewrite inject_Z_mult. fold m.
  assert (S : 0 < m / a) by (apply Qlt_shift_div_l; [exact A | lra]).
  assert (E : m * inject_Z k / a - t == - ((a * t / m - inject_Z k) * (m / a))).
  { field. split; lra. }
  rewrite E, Qabs_opp, Qabs_Qmult. rewrite (Qabs_pos (m / a)) by lra.
  apply Qmult_le_compat_r; [exact N | lra].
Qed.

(* the tuplet multiplier is the factor by which symbolic_to_numeric_duration scales *)
Lemma tuplet_same_type an nn u : tuplet_mult an nn u u = Some (inject_Z nn / inject_Z an).
Proof. unfold tuplet_mult. rewrite String.eqb_refl. reflexivity. Qed.

Lemma tuplet_scales_sym_dur u dots an nn divs d1 d m : (an <> 0)%Z ->
  sym_dur u dots 1 1 divs = Some d1 -> sym_dur u dots an nn divs = Some d -> tuplet_mult an nn u u = Some m ->
  d == d1 * m.
Proof.
  intros Han. unfold sym_dur. rewrite tuplet_same_type.
  destruct (label_dur u) as [l|]; [|discriminate].
  intros H1 H2 H3. injection H1 as <-. injection H2 as <-. injection H3 as <-.
  assert (N : ~ inject_Z an == 0).
  { intros C. unfold Qeq in C. cbn [Qnum Qden inject_Z] in C. lia. }
  field. exact N.
Qed.

Lemma dot_mult_values : dot_mult 0 == 1 /\ dot_mult 1 == 3 # 2 /\ dot_mult 2 == 7 # 4 /\ dot_mult 3 == 15 # 8.
Proof. repeat split; reflexivity. Qed.

(* each further dot adds half of what the previous one added *)
Lemma dot_mult_step k : (0 <= k)%Z -> dot_mult (k + 1) == dot_mult k + 1 / inject_Z (2 ^ (k + 1)).
Proof.
  intros Hk. unfold dot_mult. rewrite Z.pow_add_r by lia. change (2 ^ 1)%Z with 2%Z.
  rewrite inject_Z_mult.
  assert (N : ~ inject_Z (2 ^ k) == 0).
  { intros C. unfold Qeq in C. cbn [Qnum Qden inject_Z] in C. pose proof (Z.pow_pos_nonneg 2 k ltac:(lia) Hk). lia. }
  change (inject_Z 2) with 2. field. exact N.
Qed.
