(* C14 (round j) -- the re-strike clipping as coded (Model/C14_Strike.v: np.unique, gather, searchsorted + np.maximum
   with arange, has_next / np.minimum, in-place scatter into the array carried from pitch to pitch) refines the
   search-based description of Model/C14.v, for ALL note lists, arrays, control streams and thresholds. *)
From PV Require Import Lib.Base Model.C14 Model.C14_Spec Model.C14_Strike Proofs.C14_lib Proofs.C14_so Proofs.C14_spec.
From Coq Require Import QArith Qminmax Lqa Lia List Sorted Permutation.
#[local] Open Scope Q_scope.

(* ---- arrays: a[i] = v, a[idx] = vals *)
Lemma set_nth_length a : forall i v, List.length (set_nth a i v) = List.length a.
Proof. induction a as [|x r IH]; intros [|i] v; simpl; auto. Qed.

Lemma nth_set_nth_same a : forall i v d, (i < List.length a)%nat -> nth i (set_nth a i v) d = v.
Proof.
  induction a as [|x r IH]; intros [|i] v d H; simpl in *; try lia; auto. apply IH. lia.
Qed.

Lemma nth_set_nth_other a : forall i j v d, i <> j -> nth j (set_nth a i v) d = nth j a d.
Proof.
  induction a as [|x r IH]; intros [|i] [|j] v d H; simpl; auto; try congruence.
Qed.

Lemma scatter_cons a i r v vs : scatter a (i :: r) (v :: vs) = scatter (set_nth a i v) r vs.
Proof. reflexivity. Qed.

Lemma scatter_length idx : forall a vals, List.length (scatter a idx vals) = List.length a.
Proof.
  induction idx as [|i r IH]; intros a vals; [reflexivity|].
  destruct vals as [|v vs]; [reflexivity|]. rewrite scatter_cons, IH. apply set_nth_length.
Qed.

Lemma scatter_notin idx : forall a vals j d, ~ In j idx -> nth j (scatter a idx vals) d = nth j a d.
Proof.
  induction idx as [|i r IH]; intros a vals j d H; [reflexivity|].
  destruct vals as [|v vs]; [reflexivity|]. rewrite scatter_cons, IH.
  - apply nth_set_nth_other. intros ->. apply H. left. reflexivity.
  - intros C. apply H. right. exact C.
Qed.

Lemma scatter_in idx : forall a vals k i d,
  NoDup idx -> nth_error idx k = Some i -> (i < List.length a)%nat -> (k < List.length vals)%nat ->
  nth i (scatter a idx vals) d = nth k vals d.
Proof.
  induction idx as [|i0 r IH]; intros a vals k i d ND Hk Hi Hv.
  - destruct k; discriminate.
  - destruct vals as [|v vs]; [simpl in Hv; lia|]. rewrite scatter_cons.
    inversion ND as [|? ? Hnot ND']; subst. destruct k as [|k'].
    + simpl in Hk. injection Hk as ->. rewrite scatter_notin by assumption.
      simpl. apply nth_set_nth_same. exact Hi.
    + simpl in Hk. simpl nth at 2. apply IH; auto.
      * rewrite set_nth_length. exact Hi.
      * simpl in Hv. lia.
Qed.

Lemma nth_of_nth_error {A} (l : list A) : forall k x d, nth_error l k = Some x -> nth k l d = x.
Proof.
  induction l as [|y r IH]; intros [|k] x d H; simpl in *; try discriminate.
  - injection H as ->. reflexivity.
  - apply IH. exact H.
Qed.

Lemma nth_error_combine2 {A B} (l1 : list A) : forall (l2 : list B) k,
  nth_error (combine l1 l2) k =
  match nth_error l1 k, nth_error l2 k with Some a, Some b => Some (a, b) | _, _ => None end.
Proof.
  induction l1 as [|a l1 IH]; intros l2 k.
  - simpl. destruct k; reflexivity.
  - destruct l2 as [|b l2].
    + simpl. destruct k as [|k]; simpl; [reflexivity|]. destruct (nth_error l1 k); destruct k; reflexivity.
    + destruct k as [|k]; simpl; [reflexivity|]. apply IH.
Qed.

(* ---- the index arithmetic: on a sorted array, max(searchsorted_left(ons, off), m) is the position of the first
   entry at or after position m that is >= off (and an index past the end when there is none) *)
Section FindIdx.
  Context {A : Type} (key : A -> Q).

  Lemma ssl_head_ge (off : Q) y (r : list A) :
    sorted_by_key key (y :: r) -> off <= key y -> searchsorted_left (map key r) off = O.
  Proof.
    unfold sorted_by_key. intros S H. destruct r as [|z r']; [reflexivity|]. simpl.
    apply StronglySorted_inv in S as [_ F]. rewrite Forall_forall in F.
    assert (L : le_key key y z) by (apply F; left; reflexivity). unfold le_key in L.
    assert (E : Qltb (key z) off = false) by (apply Qltb_false; lra). rewrite E. reflexivity.
  Qed.

  Lemma find_skipn_index (off : Q) (l : list A) : forall m,
    sorted_by_key key l ->
    find (fun e => Qle_bool off (key e)) (skipn m l) =
    nth_error l (Nat.max (searchsorted_left (map key l) off) m).
  Proof.
    induction l as [|y r IH]; intros m S.
    - rewrite skipn_nil. simpl. destruct m; reflexivity.
    - assert (S1 : sorted_by_key key r).
      { unfold sorted_by_key in *. apply StronglySorted_inv in S as [S1 _]. exact S1. }
      simpl map. simpl searchsorted_left.
      destruct (Qltb (key y) off) eqn:E.
      + destruct m as [|m'].
        * simpl skipn. simpl find.
          assert (E2 : Qle_bool off (key y) = false) by (apply Qleb_false; apply Qltb_true; exact E).
          rewrite E2. rewrite Nat.max_0_r. simpl nth_error.
          specialize (IH 0%nat S1). simpl skipn in IH. rewrite IH, Nat.max_0_r. reflexivity.
        * simpl skipn. rewrite (IH m' S1). reflexivity.
      + apply Qltb_false in E. destruct m as [|m'].
        * simpl. assert (E2 : Qle_bool off (key y) = true) by (apply Qle_bool_iff; exact E).
          rewrite E2. reflexivity.
        * simpl skipn. rewrite (IH m' S1). rewrite (ssl_head_ge off y r S E). reflexivity.
  Qed.
End FindIdx.

(* the rest of the group after the note at position k *)
Lemma after_skipn g : forall k i n, NoDup (map fst g) -> nth_error g k = Some (i, n) -> after i g = skipn (S k) g.
Proof.
  induction g as [|[j m] r IH]; intros k i n ND Hk.
  - destruct k; discriminate.
  - simpl in ND. inversion ND as [|? ? Hnot ND']; subst. destruct k as [|k].
    + simpl in Hk. injection Hk as -> ->. simpl. rewrite Nat.eqb_refl. reflexivity.
    + simpl in Hk. simpl after. destruct (Nat.eqb i j) eqn:E.
      * apply Nat.eqb_eq in E. subst j. exfalso. apply Hnot.
        apply nth_error_In in Hk. apply (in_map fst) in Hk. exact Hk.
      * rewrite (IH k i n ND' Hk). reflexivity.
Qed.

(* T2  per group: the index the code computes for the k-th note of a group sorted by onset addresses exactly
   the strike the search of Model/C14.v finds (or lies past the end when the search finds none) *)
Lemma strike_index_lemma g k i n :
  sorted_by_key on_key g -> NoDup (map fst g) -> nth_error g k = Some (i, n) ->
  nth_error g (idx_code (map on_key g) k (n_off n)) =
  find (fun e => Qle_bool (n_off n) (n_on (snd e))) (after i g).
Proof.
  intros Hs ND Hk. rewrite (after_skipn g k i n ND Hk). unfold idx_code.
  symmetry. apply (find_skipn_index on_key (n_off n) g (S k) Hs).
Qed.

(* ---- gathers over a group *)
Lemma gather_map (f : note -> Q) ns (g : list (nat * note)) :
  (forall e, In e g -> nth_error ns (fst e) = Some (snd e)) ->
  gather (map f ns) (map fst g) = map (fun e => f (snd e)) g.
Proof.
  intros H. unfold gather. rewrite map_map. apply map_ext_in. intros e Hin.
  apply nth_of_nth_error. rewrite nth_error_map, (H e Hin). reflexivity.
Qed.

Lemma group_members ns p e : In e (pitch_group ns p) -> nth_error ns (fst e) = Some (snd e).
Proof. destruct e as [j m]. intros H. apply pitch_group_In in H as [H _]. exact H. Qed.

Lemma nth_error_next_strike_idx idxf sons soffs k :
  nth_error (next_strike_idx idxf sons soffs) k = option_map (fun x => idxf sons k x) (nth_error soffs k).
Proof.
  unfold next_strike_idx. rewrite nth_error_map, nth_error_indexed_from.
  destruct (nth_error soffs k); reflexivity.
Qed.

Lemma nth_error_clip_sorted sons nxt sso k :
  nth_error (clip_sorted sons nxt sso) k =
  match nth_error nxt k, nth_error sso k with
  | Some j, Some s => Some (if Nat.ltb j (List.length sons) then Qmin s (nth j sons 0) else s)
  | _, _ => None
  end.
Proof.
  unfold clip_sorted. rewrite nth_error_map, nth_error_combine2.
  destruct (nth_error nxt k); [destruct (nth_error sso k)|]; reflexivity.
Qed.

(* one pass of the loop body, position by position *)
Lemma restrike_pitch_nth ns offs p i n :
  List.length offs = List.length ns -> nth_error ns i = Some n ->
  nth i (restrike_pitch ns offs p) 0 =
  if (n_pitch n =? p)%Z then clip (nth i offs 0) (next_strike ns i n) else nth i offs 0.
Proof.
  intros Hlen Hi. unfold restrike_pitch, restrike_pitch_with, sorted_indices.
  destruct (n_pitch n =? p)%Z eqn:Ep.
  - apply Z.eqb_eq in Ep. subst p.
    set (g := pitch_group ns (n_pitch n)).
    assert (Hmem : forall e, In e g -> nth_error ns (fst e) = Some (snd e)) by (intros e; apply group_members).
    assert (Gi : In (i, n) g) by (apply pitch_group_In; auto).
    apply In_nth_error in Gi as [k Hk].
    assert (ND : NoDup (map fst g)) by apply pitch_group_NoDup.
    assert (Hs : sorted_by_key on_key g) by apply pitch_group_sorted.
    rewrite (gather_map n_on ns g Hmem), (gather_map n_off ns g Hmem).
    fold on_key. change (map (fun e : nat * note => n_on (snd e)) g) with (map on_key g).
    set (vals := clip_sorted _ _ _).
    assert (Hv : nth_error vals k = Some (clip (nth i offs 0) (next_strike ns i n))).
    { unfold vals. rewrite nth_error_clip_sorted, nth_error_next_strike_idx.
      rewrite nth_error_map, Hk. simpl option_map. unfold gather.
      rewrite nth_error_map, nth_error_map, Hk. simpl option_map. cbn [fst snd].
      f_equal. rewrite map_length.
      unfold next_strike. fold g.
      rewrite <- (strike_index_lemma g k i n Hs ND Hk).
      destruct (nth_error g (idx_code (map on_key g) k (n_off n))) as [e|] eqn:En.
      - assert (L : (idx_code (map on_key g) k (n_off n) < List.length g)%nat).
        { apply nth_error_Some. congruence. }
        apply Nat.ltb_lt in L. rewrite L. simpl.
        rewrite (nth_of_nth_error (map on_key g) _ (on_key e)); [reflexivity|].
        rewrite nth_error_map, En. reflexivity.
      - apply nth_error_None in En.
        assert (L : Nat.ltb (idx_code (map on_key g) k (n_off n)) (List.length g) = false)
          by (apply Nat.ltb_ge; exact En).
        rewrite L. reflexivity. }
    rewrite (scatter_in (map fst g) offs vals k i 0 ND).
    + apply nth_of_nth_error. exact Hv.
    + rewrite nth_error_map, Hk. reflexivity.
    + rewrite Hlen. apply nth_error_Some. congruence.
    + apply nth_error_Some. congruence.
  - apply scatter_notin. intros C. apply in_map_iff in C as ([j m] & Hj & Hin). simpl in Hj. subst j.
    apply pitch_group_In in Hin as [H1 H2]. rewrite Hi in H1. injection H1 as <-.
    apply Z.eqb_neq in Ep. contradiction.
Qed.

Lemma restrike_pitch_length ns offs p : List.length (restrike_pitch ns offs p) = List.length offs.
Proof. unfold restrike_pitch, restrike_pitch_with. apply scatter_length. Qed.

(* the loop over a list of distinct pitches *)
Lemma restrike_fold_nth ns i n : nth_error ns i = Some n ->
  forall ps offs, NoDup ps -> List.length offs = List.length ns ->
  (In (n_pitch n) ps ->
   nth i (fold_left (restrike_pitch ns) ps offs) 0 = clip (nth i offs 0) (next_strike ns i n)) /\
  (~ In (n_pitch n) ps -> nth i (fold_left (restrike_pitch ns) ps offs) 0 = nth i offs 0).
Proof.
  intros Hi. induction ps as [|p r IH]; intros offs ND Hlen.
  - split; [intros []|reflexivity].
  - inversion ND as [|? ? Hnot ND']; subst. simpl fold_left.
    assert (Hlen' : List.length (restrike_pitch ns offs p) = List.length ns)
      by (rewrite restrike_pitch_length; exact Hlen).
    destruct (IH (restrike_pitch ns offs p) ND' Hlen') as [IH1 IH2].
    pose proof (restrike_pitch_nth ns offs p i n Hlen Hi) as Hp.
    destruct (Z.eq_dec (n_pitch n) p) as [E|E].
    + split; [intros _|intros C; exfalso; apply C; left; auto].
      rewrite IH2 by (rewrite E; exact Hnot). rewrite Hp.
      apply Z.eqb_eq in E. rewrite E. reflexivity.
    + assert (Eb : (n_pitch n =? p)%Z = false) by (apply Z.eqb_neq; exact E). rewrite Eb in Hp.
      split.
      * intros [C|C]; [congruence|]. rewrite (IH1 C), Hp. reflexivity.
      * intros C. rewrite IH2 by (intros C'; apply C; right; exact C'). exact Hp.
Qed.

Lemma restrike_fold_length ns : forall ps offs,
  List.length (fold_left (restrike_pitch ns) ps offs) = List.length offs.
Proof.
  induction ps as [|p r IH]; intros offs; simpl; auto. rewrite IH. apply restrike_pitch_length.
Qed.

(* ---- np.unique *)
Lemma zinsert_In x l z : In z (zinsert x l) <-> z = x \/ In z l.
Proof.
  induction l as [|y r IH]; simpl.
  - intuition.
  - destruct (x <? y)%Z; [simpl; intuition|].
    destruct (x =? y)%Z eqn:E.
    + apply Z.eqb_eq in E. subst. simpl. intuition.
    + simpl. rewrite IH. intuition.
Qed.

Lemma zinsert_sorted x l : StronglySorted Z.lt l -> StronglySorted Z.lt (zinsert x l).
Proof.
  induction l as [|y r IH]; intros S; simpl.
  - constructor; constructor.
  - apply StronglySorted_inv in S as S'. destruct S' as [S1 F].
    destruct (x <? y)%Z eqn:E1.
    + apply Z.ltb_lt in E1. constructor; auto. constructor; auto.
      rewrite Forall_forall in *. intros z Hz. specialize (F z Hz). lia.
    + destruct (x =? y)%Z eqn:E2; auto.
      apply Z.ltb_ge in E1. apply Z.eqb_neq in E2. constructor; auto.
      rewrite Forall_forall in *. intros z Hz. apply zinsert_In in Hz as [->|Hz]; [lia|auto].
Qed.

Lemma sorted_lt_NoDup l : StronglySorted Z.lt l -> NoDup l.
Proof.
  induction l as [|y r IH]; intros S; constructor.
  - apply StronglySorted_inv in S as [_ F]. rewrite Forall_forall in F. intros C. specialize (F y C). lia.
  - apply IH. apply StronglySorted_inv in S as [S1 _]. exact S1.
Qed.

Lemma unique_pitches_sorted ns : StronglySorted Z.lt (unique_pitches ns).
Proof.
  unfold unique_pitches. induction (map n_pitch ns) as [|x r IH]; simpl; [constructor|].
  apply zinsert_sorted. exact IH.
Qed.

Lemma unique_pitches_In ns z : In z (unique_pitches ns) <-> In z (map n_pitch ns).
Proof.
  unfold unique_pitches. induction (map n_pitch ns) as [|x r IH]; simpl; [reflexivity|].
  rewrite zinsert_In, IH. intuition.
Qed.

(* T3  the whole loop on ANY array offs of the right length: position i ends with offs[i] clipped by the next
   strike of note i -- whatever the other passes wrote into the shared array before and after *)
Lemma restrike_loop_char ns offs : List.length offs = List.length ns ->
  restrike_loop ns offs =
  map (fun e => clip (nth (fst e) offs 0) (next_strike ns (fst e) (snd e))) (indexed ns).
Proof.
  intros Hlen. unfold restrike_loop, restrike_loop_with. fold restrike_pitch.
  apply (nth_ext _ _ 0 0).
  - rewrite restrike_fold_length, map_length, indexed_length. exact Hlen.
  - intros i Hi. rewrite restrike_fold_length, Hlen in Hi.
    destruct (nth_error ns i) as [n|] eqn:En; [|apply nth_error_None in En; lia].
    destruct (restrike_fold_nth ns i n En (unique_pitches ns) offs
                (sorted_lt_NoDup _ (unique_pitches_sorted ns)) Hlen) as [H1 _].
    rewrite H1.
    + symmetry. apply nth_of_nth_error. rewrite nth_error_map, nth_error_indexed, En. reflexivity.
    + apply unique_pitches_In. apply in_map. apply nth_error_In in En. exact En.
Qed.

(* T5  the order of the passes is irrelevant, and so are passes for pitches no note has: the loop over ANY list of
   distinct pitches that contains every pitch of the part (a set, a dict, another sort order) leaves the array of
   the loop over np.unique(pitches) *)
Lemma pass_order_lemma ns ps offs :
  NoDup ps -> (forall n, In n ns -> In (n_pitch n) ps) -> List.length offs = List.length ns ->
  fold_left (restrike_pitch ns) ps offs = restrike_loop ns offs.
Proof.
  intros ND Hall Hlen. rewrite (restrike_loop_char ns offs Hlen).
  apply (nth_ext _ _ 0 0).
  - rewrite restrike_fold_length, map_length, indexed_length. exact Hlen.
  - intros i Hi. rewrite restrike_fold_length, Hlen in Hi.
    destruct (nth_error ns i) as [n|] eqn:En; [|apply nth_error_None in En; lia].
    destruct (restrike_fold_nth ns i n En ps offs ND Hlen) as [H1 _].
    rewrite H1.
    + symmetry. apply nth_of_nth_error. rewrite nth_error_map, nth_error_indexed, En. reflexivity.
    + apply Hall. apply nth_error_In in En. exact En.
Qed.

(* T1  the function as coded computes the column of Model.C14.sound_offs -- all inputs *)
Lemma sound_offs_code_eq thr ns cs : sound_offs_code thr ns cs = sound_offs thr ns cs.
Proof.
  unfold sound_offs_code, sound_offs_with, sound_offs. destruct (sorted_pedal cs) as [|c sp]; [reflexivity|].
  cbv zeta. fold restrike_loop. rewrite restrike_loop_char by (rewrite !map_length; reflexivity).
  apply map_ext_in. intros [i n] Hin. apply In_indexed in Hin. cbn [fst snd]. f_equal.
  apply nth_of_nth_error. rewrite map_map, nth_error_map, Hin. reflexivity.
Qed.

(* consequences at the level of the code *)
Lemma code_ge_release thr ns cs : Forall2 (fun n so => n_off n <= so) ns (sound_offs_code thr ns cs).
Proof. rewrite sound_offs_code_eq. apply sound_off_ge_release_lemma. Qed.

Lemma code_is_spec thr ns cs :
  distinct_pedal_times cs -> no_zero_length_tie ns -> released_after_onset ns ->
  forall i n, nth_error ns i = Some n ->
  exists s, nth_error (sound_offs_code thr ns cs) i = Some s /\ sounding_end thr ns cs i n s.
Proof. rewrite sound_offs_code_eq. apply sound_off_is_spec_lemma. Qed.

(* ---- worked example and the slips *)
Definition sx_ctrls : list ctrl := [mkCtrl 64 (1#2) 100; mkCtrl 64 5 0].
(* pitch 60 struck at 0 (released 1) and again at 2 (released 3); a zero-length note of pitch 62 at 1;
   pitch 64 released at 2 and struck again exactly then; pitch 65 held by the pedal, struck again by a note
   that the pedal does not hold (released at 6, after the pedal went up) *)
Definition sx_notes : list note :=
  [mkNote 60 64 2 3; mkNote 62 64 1 1; mkNote 60 64 0 1; mkNote 64 64 0 2; mkNote 64 64 2 3;
   mkNote 65 64 0 1; mkNote 65 64 2 6].

Lemma strike_example_lemma :
  sound_offs_code 64 sx_notes sx_ctrls = [5; 5; 2; 2; 5; 2; 6] /\
  unique_pitches sx_notes = [60; 62; 64; 65]%Z /\
  sorted_indices sx_notes 60 = [2; 0]%nat /\
  next_strike_idx idx_code [0; 2] [1; 3] = [1; 2]%nat.
Proof. vm_compute. repeat split; reflexivity. Qed.

Lemma nomax_refuted_lemma :
  sound_offs_with idx_nomax 64 sx_notes sx_ctrls = [5; 1; 2; 2; 5; 2; 6] /\
  sound_offs_with idx_nomax 64 sx_notes sx_ctrls <> sound_offs 64 sx_notes sx_ctrls.
Proof. split; [vm_compute; reflexivity|vm_compute; discriminate]. Qed.

Lemma side_right_refuted_lemma :
  sound_offs_with idx_right 64 sx_notes sx_ctrls = [5; 5; 2; 5; 5; 2; 6] /\
  sound_offs_with idx_right 64 sx_notes sx_ctrls <> sound_offs 64 sx_notes sx_ctrls.
Proof. split; [vm_compute; reflexivity|vm_compute; discriminate]. Qed.

Lemma sustained_only_refuted_lemma :
  sound_offs_sustained 64 sx_notes sx_ctrls = [5; 5; 2; 2; 5; 5; 6] /\
  sound_offs_sustained 64 sx_notes sx_ctrls <> sound_offs 64 sx_notes sx_ctrls.
Proof. split; [vm_compute; reflexivity|vm_compute; discriminate]. Qed.
