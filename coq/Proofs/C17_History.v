(* C17 -- proofs about sorted inputs / fast paths and about histories of calls (Model/C17_History.v). *)
From PV Require Import Lib.Base Model.C17_Spelling Model.C17_Chroma Model.C17_History Proofs.C17_lib Proofs.C17_Spelling Proofs.C17_Chroma.
From Coq Require Import Sorting.Permutation Sorting.Sorted.
#[local] Open Scope Z_scope.

(* ---- (a) rows that are already sorted *)
Lemma row_sorted_strongly : forall l, row_sorted l = true -> StronglySorted row_le l.
Proof.
  induction l as [|a t IH]; intro H; [constructor|].
  cbn [row_sorted] in H. apply andb_prop in H. destruct H as [H1 H2].
  specialize (IH H2). constructor; [exact IH|].
  destruct t as [|b t']; [constructor|].
  inversion IH as [|? ? St Hb]; subst.
  constructor; [exact H1|].
  rewrite Forall_forall in *. intros x Hx. eapply row_le_trans; [exact H1|]. apply Hb, Hx.
Qed.

Lemma ps_sort_id_on_sorted : forall l, row_sorted l = true -> ps_sort l = l.
Proof.
  intros l H. apply sorted_perm_eq; [apply ps_sort_sorted|apply row_sorted_strongly, H|apply ps_sort_perm].
Qed.

Lemma spell_as_given_on_sorted : forall kpre kpost rows, row_sorted rows = true ->
  spell_as_given kpre kpost rows = spell_tab kpre kpost rows.
Proof.
  intros kpre kpost rows H. rewrite <- spell_tab_v_eq. unfold spell_as_given, spell_tab_v.
  rewrite (ps_sort_id_on_sorted _ H). reflexivity.
Qed.

Lemma presorted3_harmless : forall kpre kpost rows, spell_tab_presorted3 kpre kpost rows = spell_tab kpre kpost rows.
Proof.
  intros. unfold spell_tab_presorted3. destruct (row_sorted rows) eqn:E.
  - apply spell_as_given_on_sorted, E.
  - apply spell_tab_v_eq.
Qed.

(* both orders are sorted by (onset, pitch), hold the same pairwise different notes, and the fast path on two
   keys spells the eighth note B4 in one and Cb5 in the other *)
Lemma presorted_fastpath_refuted_lemma :
  Permutation fp_rows_a fp_rows_b /\ NoDup fp_rows_a /\ op_sorted fp_rows_a = true /\ op_sorted fp_rows_b = true /\
  exists r s s', In (r, s) (spell_tab_presorted 10 40 fp_rows_a) /\ In (r, s') (spell_tab_presorted 10 40 fp_rows_b) /\ s <> s'.
Proof.
  split; [|split; [|split; [|split]]].
  - unfold fp_rows_a, fp_rows_b. apply Permutation_app_head. cbn [app]. apply perm_swap.
  - assert (H : forallb (fun i => forallb (fun j => (Nat.eqb i j) || negb (row_eqb (nth i fp_rows_a (0,0,0)) (nth j fp_rows_a (0,0,0))))
                 (seq 0 19)) (seq 0 19) = true) by (vm_compute; reflexivity).
    apply (NoDup_nth fp_rows_a (0,0,0)). intros i j Hi Hj E.
    change (List.length fp_rows_a) with 19%nat in Hi, Hj.
    rewrite forallb_forall in H. specialize (H i). rewrite in_seq in H. specialize (H ltac:(lia)).
    rewrite forallb_forall in H. specialize (H j). rewrite in_seq in H. specialize (H ltac:(lia)).
    apply orb_prop in H. destruct H as [H|H]; [apply Nat.eqb_eq, H|].
    rewrite E in H. exfalso. unfold row_eqb in H. rewrite !Z.eqb_refl in H. discriminate.
  - vm_compute; reflexivity.
  - vm_compute; reflexivity.
  - exists (30, 71, 1), (1, 0, 4), (2, -1, 5). split; [|split].
    + assert (H : existsb (fun x => row_eqb (fst x) (30, 71, 1) && (sp_step (snd x) =? 1) && (sp_alter (snd x) =? 0) && (sp_octave (snd x) =? 4))
                    (spell_tab_presorted 10 40 fp_rows_a) = true) by (vm_compute; reflexivity).
      apply existsb_exists in H. destruct H as [[[[o p] d] [[a b] c]] [Hin H]].
      unfold row_eqb, r_onset, r_pitch, r_dur, sp_step, sp_alter, sp_octave in H. cbn [fst snd] in H.
      repeat (apply andb_prop in H; destruct H as [H ?]). zb. subst. exact Hin.
    + assert (H : existsb (fun x => row_eqb (fst x) (30, 71, 1) && (sp_step (snd x) =? 2) && (sp_alter (snd x) =? -1) && (sp_octave (snd x) =? 5))
                    (spell_tab_presorted 10 40 fp_rows_b) = true) by (vm_compute; reflexivity).
      apply existsb_exists in H. destruct H as [[[[o p] d] [[a b] c]] [Hin H]].
      unfold row_eqb, r_onset, r_pitch, r_dur, sp_step, sp_alter, sp_octave in H. cbn [fst snd] in H.
      repeat (apply andb_prop in H; destruct H as [H ?]). zb. subst. exact Hin.
    + discriminate.
Qed.

(* ---- (b) histories *)
Section HistoryFacts.
  Variables (Arr Opt Ans Mem : Type).
  Variable f : Opt -> Arr -> Ans.

  Lemma hcalls_app : forall (h1 h2 : list (@hstep Arr Opt)) st,
    hcalls st (h1 ++ h2) = hcalls st h1 ++ hcalls (hstate st h1) h2.
  Proof.
    induction h1 as [|[s|q] t IH]; intros h2 st; cbn; [reflexivity|apply IH|]. f_equal. apply IH.
  Qed.

  Lemma hcalls_length : forall (h : list (@hstep Arr Opt)) st, List.length (hcalls st h) = ncalls h.
  Proof. induction h as [|[s|q] t IH]; intros st; cbn; [reflexivity|apply IH|]. f_equal. apply IH. Qed.

  (* the k-th step of a history, if it is a call with options q, is answered by f q on the content the array has after
     the first k steps -- whatever was asked, and whatever the array held, before *)
  Lemma history_answer_lemma : forall (h : list (@hstep Arr Opt)) st k q,
    nth_error h k = Some (HCall q) ->
    nth_error (hrun f st h) (ncalls (firstn k h)) = Some (f q (hstate st (firstn k h))).
  Proof.
    intros h st k q H.
    destruct (nth_error_split h k H) as (h1 & h2 & -> & <-).
    rewrite firstn_app, Nat.sub_diag, firstn_all, firstn_O, app_nil_r.
    unfold hrun. rewrite hcalls_app, map_app. cbn [hcalls map fst snd].
    rewrite nth_error_app2; rewrite map_length, hcalls_length; [|lia].
    rewrite Nat.sub_diag. reflexivity.
  Qed.

  (* an implementation with a memory whose answers do not depend on that memory IS the stateless one *)
  Variable g : Opt -> Arr -> Mem -> Ans * Mem.
  Lemma oblivious_memory_lemma : (forall q s m, fst (g q s m) = f q s) ->
    forall (h : list (@hstep Arr Opt)) m st, hrun_m g m st h = hrun f st h.
  Proof.
    intros Hg. induction h as [|[s|q] t IH]; intros m st; cbn; [reflexivity|apply IH|].
    specialize (Hg q st m). destruct (g q st m) as [o m']. cbn in Hg. subst o. f_equal. apply IH.
  Qed.
End HistoryFacts.

Lemma length_keyed_memo_refuted_lemma :
  hrun_m spell_memo_len [] [(0, 60, 1)] memo_history <> hrun spell_q [(0, 60, 1)] memo_history /\
  nth_error (hrun spell_q [(0, 60, 1)] memo_history) 1 = Some (spell_tab_v 10 40 [(0, 61, 1)]).
Proof. split; [vm_compute; discriminate|reflexivity]. Qed.

Lemma history_check_example_lemma :
  history_check ([(0, 60, 1)], [HCall (10%nat, 40%nat); HSet [(0, 61, 1); (1, 66, 1)]; HCall (10%nat, 40%nat); HCall (0%nat, 1%nat)],
                 [[("C"%string, 0, 4)]; [("C"%string, 1, 4); ("F"%string, 1, 4)]; [("C"%string, 1, 4); ("F"%string, 1, 4)]]) = true.
Proof. vm_compute. reflexivity. Qed.

(* estimate_spelling along a history: the k-th step, if it is a call with (K_pre, K_post), is answered by the table of
   the rows the array holds at that moment *)
Lemma spelling_history_lemma : forall (h : list (@hstep (list row) (nat * nat))) st k kpre kpost,
  nth_error h k = Some (HCall (kpre, kpost)) ->
  nth_error (hrun spell_q st h) (ncalls (firstn k h)) = Some (spell_tab kpre kpost (hstate st (firstn k h))).
Proof.
  intros h st k kpre kpost H. rewrite (history_answer_lemma _ _ _ spell_q h st k (kpre, kpost) H).
  unfold spell_q. cbn [fst snd]. rewrite spell_tab_v_eq. reflexivity.
Qed.
