From PV Require Import Lib.Base Model.C07 Model.C07_Hist.
From Coq Require Import QArith Ascii Lia.
#[local] Open Scope string_scope.
#[local] Open Scope list_scope.
#[local] Notation concat := List.concat.

(* ------------------------------------------------------------------ lists *)

Lemma set_nth_length {A} (n : nat) (x : A) l : List.length (set_nth n x l) = List.length l.
Proof. revert n; induction l; intros [|n]; simpl; auto. Qed.

Lemma nth_set_nth_eq {A} (d : A) n x l : (n < List.length l)%nat -> nth n (set_nth n x l) d = x.
Proof. revert n; induction l; intros [|n] H; simpl in *; try lia; auto. apply IHl. lia. Qed.

Lemma nth_set_nth_neq {A} (d : A) n m x l : n <> m -> nth m (set_nth n x l) d = nth m l d.
Proof. revert n m; induction l; intros [|n] [|m] H; simpl; auto; try congruence. Qed.

Lemma nth_error_set_nth_neq {A} n m (x : A) l : n <> m -> nth_error (set_nth n x l) m = nth_error l m.
Proof. revert n m; induction l; intros [|n] [|m] H; simpl; auto; try congruence. Qed.

Lemma nth_error_set_nth_eq {A} n (x : A) l : (n < List.length l)%nat -> nth_error (set_nth n x l) n = Some x.
Proof. revert n; induction l; intros [|n] H; simpl in *; try lia; auto. apply IHl. lia. Qed.

Lemma NoDup_app_intro {A} (l1 l2 : list A) :
  NoDup l1 -> NoDup l2 -> (forall x, In x l1 -> In x l2 -> False) -> NoDup (l1 ++ l2).
Proof.
  induction l1; simpl; intros H1 H2 H; auto. inversion H1; subst. constructor.
  - intros Hin. apply in_app_or in Hin. destruct Hin; auto. eapply H; eauto.
  - apply IHl1; auto. intros x Hx. apply H. auto.
Qed.

Lemma NoDup_app_l {A} (l1 l2 : list A) : NoDup (l1 ++ l2) -> NoDup l1.
Proof. induction l1; simpl; intros H; [constructor|]. inversion H; subst. constructor; auto. intros Hin; apply H2, in_or_app; auto. Qed.
Lemma NoDup_app_r {A} (l1 l2 : list A) : NoDup (l1 ++ l2) -> NoDup l2.
Proof. induction l1; simpl; intros H; auto. inversion H; auto. Qed.
Lemma NoDup_app_disj {A} (l1 l2 : list A) x : NoDup (l1 ++ l2) -> In x l1 -> In x l2 -> False.
Proof.
  induction l1; simpl; intros H H1 H2; auto. inversion H; subst. destruct H1 as [->|H1]; auto.
  apply H4, in_or_app; auto.
Qed.

(* reading through a heap *)
Lemma map_rd_app hp vs l : Forall (fun a => (a < List.length hp)%nat) l -> map (rd (hp ++ vs)) l = map (rd hp) l.
Proof. induction 1; simpl; auto. f_equal; auto. unfold rd. apply app_nth1; auto. Qed.

Lemma map_rd_seq vs : forall hp, map (rd (hp ++ vs)) (seq (List.length hp) (List.length vs)) = vs.
Proof.
  induction vs as [|v vs IH]; intros hp; simpl; auto. f_equal.
  - unfold rd. rewrite app_nth2 by lia. rewrite Nat.sub_diag. reflexivity.
  - specialize (IH (hp ++ [v])). rewrite <- app_assoc in IH. simpl in IH. rewrite app_length in IH. simpl in IH.
    rewrite Nat.add_1_r in IH. exact IH.
Qed.

Lemma map_rd_set_notin a v hp l : ~ In a l -> map (rd (set_nth a v hp)) l = map (rd hp) l.
Proof.
  induction l; simpl; intros H; auto. f_equal.
  - unfold rd. apply nth_set_nth_neq. intros ->. apply H; auto.
  - apply IHl. intros Hin; apply H; auto.
Qed.

Lemma map_rd_set_in a v hp : (a < List.length hp)%nat -> forall o f, NoDup o -> nth_error o f = Some a ->
  map (rd (set_nth a v hp)) o = set_nth f v (map (rd hp) o).
Proof.
  intros Ha. induction o as [|x o IH]; intros [|f] Hnd H; simpl in *; try discriminate.
  - inversion H; subst. inversion Hnd; subst. f_equal.
    + unfold rd. apply nth_set_nth_eq; auto.
    + apply map_rd_set_notin; auto.
  - inversion Hnd; subst. f_equal.
    + unfold rd. apply nth_set_nth_neq. intros ->. apply H2. eapply nth_error_In; eauto.
    + apply IH; auto.
Qed.

Lemma set_nth_map {A B} (g : A -> B) n x l : set_nth n (g x) (map g l) = map g (set_nth n x l).
Proof. revert n; induction l; intros [|n]; simpl; auto. f_equal; auto. Qed.

(* ------------------------------------------------------------------ the invariant: no two slots share a cell *)

Definition sep (hs : hstate) : Prop :=
  NoDup (concat (objs hs)) /\ Forall (fun a => (a < List.length (heap hs))%nat) (concat (objs hs)).

Lemma in_concat_nth {A} (ll : list (list A)) i o x : nth_error ll i = Some o -> In x o -> In x (concat ll).
Proof. intros H Hx. apply in_concat. exists o. split; auto. eapply nth_error_In; eauto. Qed.

Section Hist.
Variable tab : keytab.

Lemma alloc_no_memo cs : forall ts hp mm,
  alloc_fields tab no_memo cs ts hp mm =
  match map2_opt (dec tab) cs ts with
  | Some vs => Some ((hp ++ vs)%list, mm, seq (List.length hp) (List.length vs))
  | None => None
  end.
Proof.
  induction cs as [|c cs IH]; intros [|t ts] hp mm; simpl; auto.
  - rewrite app_nil_r. reflexivity.
  - destruct (dec tab c t) as [v|]; auto. rewrite IH.
    destruct (map2_opt (dec tab) cs ts) as [vs|]; auto. simpl.
    rewrite <- app_assoc. simpl. rewrite app_length. simpl. rewrite Nat.add_1_r. reflexivity.
Qed.

Lemma upd_obj_cons i f v x xs : upd_obj (S i) f v (x :: xs) = x :: upd_obj i f v xs.
Proof. unfold upd_obj. simpl. destruct (nth_error xs i); reflexivity. Qed.

Lemma observe_notin a v hp ll : ~ In a (concat ll) -> map (map (rd (set_nth a v hp))) ll = map (map (rd hp)) ll.
Proof.
  induction ll as [|o ll IH]; simpl; intros H; auto. f_equal.
  - apply map_rd_set_notin. intros Hin; apply H, in_or_app; auto.
  - apply IH. intros Hin; apply H, in_or_app; auto.
Qed.

(* in-place edit of one cell: seen through the object that owns the slot, and through no other *)
Lemma observe_edit a v hp : (a < List.length hp)%nat -> forall ll i o f,
  NoDup (concat ll) -> nth_error ll i = Some o -> nth_error o f = Some a ->
  map (map (rd (set_nth a v hp))) ll = upd_obj i f v (map (map (rd hp)) ll).
Proof.
  intros Ha. induction ll as [|o0 ll IH]; intros [|i] o f Hnd Hi Hf; simpl in *; try discriminate.
  - inversion Hi; subst. unfold upd_obj. simpl. f_equal.
    + apply map_rd_set_in; auto. eapply NoDup_app_l; eauto.
    + apply observe_notin. intros Hin. eapply NoDup_app_disj; eauto. eapply nth_error_In; eauto.
  - rewrite upd_obj_cons. f_equal.
    + apply map_rd_set_notin. intros Hin. eapply NoDup_app_disj; eauto. eapply in_concat_nth; eauto. eapply nth_error_In; eauto.
    + eapply IH; eauto. eapply NoDup_app_r; eauto.
Qed.

(* assignment of a new cell to one slot *)
Lemma in_set_nth {A} (n : A) (o : list A) : forall f y, In y (set_nth f n o) -> y = n \/ In y o.
Proof.
  induction o as [|w o IHo]; intros [|f] y Hin; simpl in *; auto.
  - destruct Hin as [<-|Hin]; auto.
  - destruct Hin as [<-|Hin]; auto. destruct (IHo f y Hin); auto.
Qed.

Lemma concat_set_in {A} (n : A) (ll : list (list A)) : forall i o f y, nth_error ll i = Some o ->
  In y (concat (set_nth i (set_nth f n o) ll)) -> y = n \/ In y (concat ll).
Proof.
  induction ll as [|o0 ll IH]; intros [|i] o f y Hi Hy; simpl in *; try discriminate.
  - inversion Hi; subst. apply in_app_or in Hy. destruct Hy as [Hy|Hy].
    + destruct (in_set_nth _ _ _ _ Hy) as [->|H]; auto. right. apply in_or_app; auto.
    + right. apply in_or_app; auto.
  - apply in_app_or in Hy. destruct Hy as [Hy|Hy].
    + right. apply in_or_app; auto.
    + destruct (IH _ _ _ _ Hi Hy) as [->|H]; auto. right. apply in_or_app; auto.
Qed.

Lemma set_nth_nodup n (o : list nat) : forall f, NoDup o -> ~ In n o -> NoDup (set_nth f n o).
Proof.
  induction o as [|z o IH]; intros [|f] Hnd Hn; simpl; auto; inversion Hnd; subst.
  - constructor; auto. intros Hin; apply Hn; right; auto.
  - constructor.
    + intros Hin. assert (H: z = n \/ In z o).
      { clear -Hin. revert f Hin. induction o as [|w o IHo]; intros [|f] Hin; simpl in *; auto.
        - destruct Hin as [<-|Hin]; auto.
        - destruct Hin as [<-|Hin]; auto. destruct (IHo f Hin); auto. }
      destruct H as [->|H]; auto. apply Hn; left; auto.
    + apply IH; auto. intros Hin; apply Hn; right; auto.
Qed.

Lemma concat_set_nodup n (ll : list (list nat)) : forall i o f, nth_error ll i = Some o ->
  NoDup (concat ll) -> ~ In n (concat ll) -> NoDup (concat (set_nth i (set_nth f n o) ll)).
Proof.
  induction ll as [|o0 ll IH]; intros [|i] o f Hi Hnd Hn; simpl in *; try discriminate.
  - inversion Hi; subst. apply NoDup_app_intro.
    + apply set_nth_nodup. eapply NoDup_app_l; eauto. intros Hin; apply Hn, in_or_app; auto.
    + eapply NoDup_app_r; eauto.
    + intros x Hx Hx2. destruct (in_set_nth _ _ _ _ Hx) as [->|Hx1].
      * apply Hn, in_or_app; auto.
      * eapply NoDup_app_disj; eauto.
  - apply NoDup_app_intro.
    + eapply NoDup_app_l; eauto.
    + eapply IH; eauto. eapply NoDup_app_r; eauto. intros Hin; apply Hn, in_or_app; auto.
    + intros x Hx Hx2. destruct (concat_set_in n ll _ _ _ _ Hi Hx2) as [->|H].
      * apply Hn, in_or_app; auto.
      * eapply NoDup_app_disj; eauto.
Qed.

Lemma observe_set hp v : forall ll i o f, nth_error ll i = Some o -> (f < List.length o)%nat ->
  Forall (fun a => (a < List.length hp)%nat) (concat ll) ->
  map (map (rd (hp ++ [v]))) (set_nth i (set_nth f (List.length hp) o) ll) = upd_obj i f v (map (map (rd hp)) ll).
Proof.
  induction ll as [|o0 ll IH]; intros [|i] o f Hi Hf Hb; simpl in *; try discriminate.
  - inversion Hi; subst. unfold upd_obj. simpl. apply Forall_app in Hb. destruct Hb as [Hb1 Hb2]. f_equal.
    + clear -Hb1 Hf. revert f Hf. induction o as [|z o IHo]; intros [|f] Hf; simpl in *; try lia; inversion Hb1; subst.
      * f_equal. { unfold rd. rewrite app_nth2 by lia. rewrite Nat.sub_diag. reflexivity. } apply map_rd_app; auto.
      * f_equal. { unfold rd. apply app_nth1; auto. } apply IHo; auto. lia.
    + clear -Hb2. induction ll as [|o1 ll IHl]; simpl in *; auto. apply Forall_app in Hb2. destruct Hb2. f_equal; auto. apply map_rd_app; auto.
  - rewrite upd_obj_cons. apply Forall_app in Hb. destruct Hb as [Hb1 Hb2]. f_equal.
    + apply map_rd_app; auto.
    + apply IH; auto.
Qed.

Lemma observe_app hp vs ll : Forall (fun a => (a < List.length hp)%nat) (concat ll) ->
  map (map (rd (hp ++ vs))) ll = map (map (rd hp)) ll.
Proof.
  induction ll as [|o ll IH]; simpl; intros H; auto. apply Forall_app in H. destruct H. f_equal; auto. apply map_rd_app; auto.
Qed.

(* ------------------------------------------------------------------ one step *)

Lemma heap_step_refines ls hs s : sep hs ->
  match heap_step tab no_memo ls hs s with
  | Some hs' => sep hs' /\ pure_step tab ls (observe hs) s = Some (observe hs')
  | None => pure_step tab ls (observe hs) s = None
  end.
Proof.
  intros [Hnd Hb]. destruct s as [w|i f v|i f v|]; simpl.
  - destruct (nth_error ls w) as [[sch t]|]; auto. unfold parse_line.
    destruct (scan sch t) as [ts|]; auto. rewrite alloc_no_memo.
    destruct (map2_opt (dec tab) (codecs sch) ts) as [vs|]; auto. split.
    + split; simpl.
      * rewrite concat_app. simpl. rewrite app_nil_r. apply NoDup_app_intro; auto. { apply seq_NoDup. }
        intros x H1 H2. rewrite Forall_forall in Hb. apply Hb in H1. apply in_seq in H2. lia.
      * rewrite concat_app. simpl. rewrite app_nil_r. apply Forall_app. split.
        -- eapply Forall_impl; [|exact Hb]. simpl. intros a Ha. rewrite app_length. lia.
        -- apply Forall_forall. intros x Hx. apply in_seq in Hx. rewrite app_length. lia.
    + unfold observe. simpl. rewrite map_app. simpl. rewrite map_rd_seq. rewrite observe_app; auto.
  - destruct (nth_error (objs hs) i) as [o|] eqn:Ei.
    + destruct (nth_error o f) as [a|] eqn:Ef.
      * assert (Ha : (a < List.length (heap hs))%nat).
        { rewrite Forall_forall in Hb. apply Hb. eapply in_concat_nth; eauto. eapply nth_error_In; eauto. }
        split. { split; simpl; auto. rewrite set_nth_length. exact Hb. }
        unfold observe. simpl. f_equal. symmetry. eapply observe_edit; eauto.
      * split; [split; auto|]. f_equal. unfold upd_obj, observe. rewrite nth_error_map, Ei. simpl.
        assert (E : set_nth f v (map (rd (heap hs)) o) = map (rd (heap hs)) o).
        { clear -Ef. revert f Ef. induction o; intros [|f] Ef; simpl in *; try discriminate; auto. f_equal; auto. }
        rewrite E. clear -Ei. revert i Ei. induction (objs hs); intros [|i] Ei; simpl in *; try discriminate; auto.
        { inversion Ei; subst. reflexivity. } f_equal; auto.
    + split; [split; auto|]. f_equal. unfold upd_obj, observe. rewrite nth_error_map, Ei. reflexivity.
  - destruct (nth_error (objs hs) i) as [o|] eqn:Ei.
    + destruct (nth_error o f) as [a|] eqn:Ef.
      * assert (Hf : (f < List.length o)%nat). { apply nth_error_Some. congruence. }
        assert (Hfresh : ~ In (List.length (heap hs)) (concat (objs hs))).
        { intros Hin. rewrite Forall_forall in Hb. apply Hb in Hin. lia. }
        split.
        -- split; simpl.
           ++ apply concat_set_nodup; auto.
           ++ apply Forall_forall. intros x Hx. rewrite app_length. simpl.
              destruct (concat_set_in _ _ _ _ _ _ Ei Hx) as [->|H]; [lia|]. rewrite Forall_forall in Hb. apply Hb in H. lia.
        -- unfold observe. simpl. f_equal. symmetry. apply observe_set; auto.
      * split; [split; auto|]. f_equal. unfold upd_obj, observe. rewrite nth_error_map, Ei. simpl.
        assert (E : set_nth f v (map (rd (heap hs)) o) = map (rd (heap hs)) o).
        { clear -Ef. revert f Ef. induction o; intros [|f] Ef; simpl in *; try discriminate; auto. f_equal; auto. }
        rewrite E. clear -Ei. revert i Ei. induction (objs hs); intros [|i] Ei; simpl in *; try discriminate; auto.
        { inversion Ei; subst. reflexivity. } f_equal; auto.
    + split; [split; auto|]. f_equal. unfold upd_obj, observe. rewrite nth_error_map, Ei. reflexivity.
  - split; [split; auto|]. reflexivity.
Qed.

Theorem heap_refines_pure_from ls h : forall hs, sep hs ->
  option_map observe (heap_run tab no_memo ls hs h) = pure_run tab ls (observe hs) h.
Proof.
  induction h as [|s h IH]; intros hs Hs; simpl; auto.
  pose proof (heap_step_refines ls hs s Hs) as H.
  destruct (heap_step tab no_memo ls hs s) as [hs'|].
  - destruct H as [Hs' ->]. apply IH; auto.
  - rewrite H. reflexivity.
Qed.

Theorem heap_refines_pure ls h :
  option_map observe (heap_run tab no_memo ls hinit h) = pure_run tab ls [] h.
Proof. apply (heap_refines_pure_from ls h hinit). split; simpl; constructor. Qed.

End Hist.

(* ------------------------------------------------------------------ the statements of Props/C07.v *)

Section Statements.
Variable tab : keytab.

Lemma pure_run_app ls h1 : forall st h2,
  pure_run tab ls st (h1 ++ h2) = match pure_run tab ls st h1 with Some st' => pure_run tab ls st' h2 | None => None end.
Proof. induction h1 as [|s h1 IH]; intros st h2; simpl; auto. destruct (pure_step tab ls st s); auto. Qed.

(* whatever was parsed, edited or converted before: parsing the text of a line gives parse_line of that text *)
Theorem hist_parse_function_of_text ls h st w sch t :
  pure_run tab ls [] h = Some st -> nth_error ls w = Some (sch, t) ->
  pure_run tab ls [] (h ++ [HParse w]) = option_map (fun vs => st ++ [vs]) (parse_line tab sch t).
Proof. intros H Hw. rewrite pure_run_app, H. simpl. rewrite Hw. destruct (parse_line tab sch t); reflexivity. Qed.

(* an edit of line object i is seen through no other line object *)
Theorem hist_edit_local i f v st j : i <> j -> nth_error (upd_obj i f v st) j = nth_error st j.
Proof. intros H. unfold upd_obj. destruct (nth_error st i); auto. apply nth_error_set_nth_neq; auto. Qed.

(* the state of a line object is its own text with its own edits: the object parsed at position (length st) of a
   history keeps, through any later steps that do not name it, the value parse_line gave *)
Fixpoint names (i : nat) (h : list hstep) : bool :=
  match h with
  | [] => false
  | (HEdit j _ _ | HSet j _ _) :: r => Nat.eqb i j || names i r
  | _ :: r => names i r
  end.

Lemma pure_run_keeps ls h : forall st st' i o, names i h = false -> nth_error st i = Some o ->
  pure_run tab ls st h = Some st' -> nth_error st' i = Some o.
Proof.
  induction h as [|s h IH]; intros st st' i o Hn Hi H; simpl in *.
  - inversion H; subst; auto.
  - destruct (pure_step tab ls st s) as [st1|] eqn:E; [|discriminate].
    assert (Hi1 : nth_error st1 i = Some o /\ names i h = false).
    { destruct s as [w|j f v|j f v|]; simpl in *.
      - destruct (nth_error ls w) as [[sch t]|]; [|discriminate]. destruct (parse_line tab sch t); inversion E; subst.
        split; auto. rewrite nth_error_app1; auto. apply nth_error_Some. congruence.
      - apply orb_false_iff in Hn. destruct Hn as [Hj Hn]. apply Nat.eqb_neq in Hj. inversion E; subst. split; auto.
        rewrite hist_edit_local; auto.
      - apply orb_false_iff in Hn. destruct Hn as [Hj Hn]. apply Nat.eqb_neq in Hj. inversion E; subst. split; auto.
        rewrite hist_edit_local; auto.
      - inversion E; subst; auto. }
    destruct Hi1. eapply IH; eauto.
Qed.

Theorem hist_object_own_text ls h1 h2 st st' w sch t vs :
  pure_run tab ls [] h1 = Some st -> nth_error ls w = Some (sch, t) -> parse_line tab sch t = Some vs ->
  names (List.length st) h2 = false ->
  pure_run tab ls [] (h1 ++ HParse w :: h2) = Some st' ->
  nth_error st' (List.length st) = Some vs.
Proof.
  intros H1 Hw Hp Hn H. rewrite pure_run_app, H1 in H. simpl in H. rewrite Hw, Hp in H.
  eapply pure_run_keeps; eauto. rewrite nth_error_app2 by lia. rewrite Nat.sub_diag. reflexivity.
Qed.

End Statements.

(* ------------------------------------------------------------------ witnesses *)

Definition ex_sch : schema := [Lit "snote("; Fld "Anchor" CStr (CNot ",") 1; Lit ",["; Fld "Attrs" CListIn (CNot "]") 0; Lit "])"].
Definition ex_lines : hlines := [(ex_sch, "snote(n1,[v1,staff1])"); (ex_sch, "snote(n2,[v1,staff1])")].
(* parse n1 and n2, append an attribute to the list of n1 in place, parse n2 again *)
Definition ex_hist : list hstep := [HParse 0; HParse 1; HEdit 0 1 (VList ["v1"; "staff1"; "fermata"]); HParse 1].

Example hist_example :
  pure_run [] ex_lines [] ex_hist =
  Some [[VStr "n1"; VList ["v1"; "staff1"; "fermata"]]; [VStr "n2"; VList ["v1"; "staff1"]]; [VStr "n2"; VList ["v1"; "staff1"]]]
  /\ option_map observe (heap_run [] no_memo ex_lines hinit ex_hist) = pure_run [] ex_lines [] ex_hist.
Proof. split; vm_compute; reflexivity. Qed.

(* a parser whose list decoder is memoised on the field text: the edit of n1's list shows up in the EARLIER parse of
   n2 and in the LATER one *)
Example hist_memo_refuted :
  option_map observe (heap_run [] memo_lists ex_lines hinit ex_hist) =
  Some [[VStr "n1"; VList ["v1"; "staff1"; "fermata"]]; [VStr "n2"; VList ["v1"; "staff1"; "fermata"]]; [VStr "n2"; VList ["v1"; "staff1"; "fermata"]]]
  /\ option_map observe (heap_run [] memo_lists ex_lines hinit ex_hist) <> pure_run [] ex_lines [] ex_hist.
Proof. split; [vm_compute; reflexivity|]. vm_compute. intros H. discriminate H. Qed.

(* an assignment to a field of a line (a new object for the slot) is harmless even for the memoising parser: the
   defect needs the in-place edit *)
Example hist_memo_needs_inplace :
  option_map observe (heap_run [] memo_lists ex_lines hinit [HParse 0; HParse 1; HSet 0 1 (VList ["x"]); HParse 1]) =
  pure_run [] ex_lines [] [HParse 0; HParse 1; HSet 0 1 (VList ["x"]); HParse 1].
Proof. vm_compute. reflexivity. Qed.
