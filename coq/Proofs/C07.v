(* C07 -- proofs about the line codec of Model/C07.v *)
From PV Require Import Lib.Base Lib.Round Model.C07 Proofs.C07_lib Gen.C07_Schemas.
From Coq Require Import QArith Ascii DecimalString DecimalN DecimalPos.
#[local] Open Scope string_scope.
#[local] Open Scope Z_scope.

(* ------------------------------------------------------------------ the scanner inverts out_pattern.format *)

Lemma fill_nil_inv ts s : fill [] ts = Some s -> ts = [] /\ s = "".
Proof. destruct ts; simpl; intros H; inversion H; auto. Qed.

Lemma count_fill_rigid r : forall ts s,
  rigid r = true -> texts_ok r ts = true -> fill r ts = Some s ->
  count_char comma s = lit_commas r.
Proof.
  induction r as [|e r IH]; intros ts s Hr Ht Hf.
  - apply fill_nil_inv in Hf as [_ ->]. reflexivity.
  - destruct e as [l|nm c cl m|nm c m|nm c m]; simpl in Hr; try discriminate.
    + simpl in Hf, Ht. destruct (fill r ts) as [s'|] eqn:F; [|discriminate]. inversion Hf; subst.
      simpl. rewrite count_char_app. f_equal. eapply IH; eauto.
    + apply andb_true_iff in Hr as [Hc Hr].
      destruct ts as [|t ts']; simpl in Ht, Hf; [discriminate|].
      destruct (fill r ts') as [s'|] eqn:F; [|discriminate]. inversion Hf; subst.
      apply andb_true_iff in Ht as [Ht Ht2]. apply andb_true_iff in Ht as [Ht0 Ht1].
      rewrite count_char_app. simpl.
      rewrite (count_char_none comma (cc_in cl) t Ht0); [|apply negb_true_iff; exact Hc].
      simpl. eapply IH; eauto.
Qed.

Lemma fill_total sch : forall ts, texts_ok sch ts = true -> exists s, fill sch ts = Some s.
Proof.
  induction sch as [|e sch IH]; intros ts H.
  - destruct ts; [eexists; reflexivity | discriminate].
  - destruct e as [l|nm c cl m|nm c m|nm c m]; simpl in *.
    + destruct (IH _ H) as [s ->]. eauto.
    + destruct ts as [|t ts']; [discriminate|]. apply andb_true_iff in H as [_ H].
      destruct (IH _ H) as [s ->]. eauto.
    + destruct ts as [|t ts']; [discriminate|]. apply andb_true_iff in H as [_ H].
      destruct (IH _ H) as [s ->]. eauto.
    + destruct ts as [|t ts']; [discriminate|]. apply andb_true_iff in H as [_ H].
      destruct (IH _ H) as [s ->]. eauto.
Qed.

Lemma scan_greedy nm c m r s :
  scan (Greedy nm c m :: r) s =
  match split_k (lit_commas r) s with
  | Some (a, b) =>
      if (m <=? String.length a)%nat then
        match scan r b with Some ts => Some (a :: ts) | None => None end
      else None
  | None => None
  end.
Proof. reflexivity. Qed.

Theorem scan_fill_lemma sch : forall ts s,
  schema_wf sch = true -> texts_ok sch ts = true -> fill sch ts = Some s -> scan sch s = Some ts.
Proof.
  induction sch as [|e sch IH]; intros ts s Hwf Ht Hf.
  - apply fill_nil_inv in Hf as [-> ->]. reflexivity.
  - destruct e as [l|nm c cl m|nm c m|nm c m].
    + simpl in *. destruct (fill sch ts) as [s'|] eqn:F; [|discriminate]. inversion Hf; subst.
      rewrite strip_prefix_app. eapply IH; eauto.
    + cbn [schema_wf] in Hwf. apply andb_true_iff in Hwf as [Hwf Hwf2]. apply andb_true_iff in Hwf as [_ Hnext].
      destruct ts as [|t ts']; cbn [texts_ok fill] in Ht, Hf; [discriminate|].
      destruct (fill sch ts') as [s'|] eqn:F; [|discriminate]. inversion Hf; subst. clear Hf.
      apply andb_true_iff in Ht as [Ht Ht2]. apply andb_true_iff in Ht as [Ht0 Ht1].
      cbn [scan].
      assert (Hsp : span (cc_in cl) (t ++ s') = (t, s')).
      { apply span_app; auto.
        destruct sch as [|e2 sch2].
        - apply fill_nil_inv in F as [_ ->]. exact I.
        - destruct e2 as [l| | |]; try discriminate.
          cbn [fill] in F. destruct (fill sch2 ts') as [s2|]; [|discriminate]. inversion F; subst.
          destruct l as [|c0 l0]; [discriminate|]. simpl. simpl in Hnext. apply negb_true_iff in Hnext. exact Hnext. }
      rewrite Hsp, Ht1. rewrite (IH ts' s' Hwf2 Ht2 F). reflexivity.
    + cbn [schema_wf] in Hwf. apply andb_true_iff in Hwf as [_ Hshape].
      destruct sch as [|[l| | |] [|? ?]]; try discriminate.
      destruct ts as [|t ts']; cbn [texts_ok fill] in Ht, Hf; [discriminate|].
      apply andb_true_iff in Ht as [Ht1 Ht2].
      destruct ts'; [|discriminate]. inversion Hf; subst. clear Hf.
      cbn [scan]. rewrite app_nil_r_s, strip_suffix_app, Ht1. reflexivity.
    + cbn [schema_wf] in Hwf. apply andb_true_iff in Hwf as [Hwf Hwf2]. apply andb_true_iff in Hwf as [Hwf Hrig].
      apply andb_true_iff in Hwf as [_ Hfirst].
      destruct ts as [|t ts']; cbn [texts_ok fill] in Ht, Hf; [discriminate|].
      destruct (fill sch ts') as [s'|] eqn:F; [|discriminate]. inversion Hf; subst. clear Hf.
      apply andb_true_iff in Ht as [Ht1 Ht2].
      pose proof (count_fill_rigid sch ts' s' Hrig Ht2 F) as Hcount.
      destruct sch as [|[l| | |] sch2]; try discriminate.
      destruct l as [|c0 l0]; [discriminate|]. apply Ascii.eqb_eq in Hfirst. subst c0.
      assert (Es : exists t0, s' = String comma t0).
      { cbn [fill] in F. destruct (fill sch2 ts'); [|discriminate]. inversion F. simpl. eauto. }
      destruct Es as [t0 Es].
      assert (Hsplit : split_k (lit_commas (Lit (String comma l0) :: sch2)) (t ++ s') = Some (t, s')).
      { rewrite Es. apply split_k_app. rewrite <- Es. exact Hcount. }
      rewrite scan_greedy, Hsplit, Ht1. rewrite (IH ts' s' Hwf2 Ht2 F). reflexivity.
Qed.

(* ------------------------------------------------------------------ lines *)

Section Lines.
Variable tab : keytab.

(* the value survives its own codec (proved per codec below) *)
Definition field_rt (c : codec) (v : value) : Prop :=
  exists t, enc tab c v = Some t /\ dec tab c t = Some (norm c v).

(* "every field value its format version allows": each value fits its codec and its text fits the
   character class of the pattern *)
Definition fields_ok (sch : schema) (vs : list value) : Prop :=
  Forall2 field_rt (codecs sch) vs /\
  exists ts, map2_opt (enc tab) (codecs sch) vs = Some ts /\ texts_ok sch ts = true.

Lemma codecs_rt cs : forall vs, Forall2 field_rt cs vs ->
  exists ts, map2_opt (enc tab) cs vs = Some ts /\ map2_opt (dec tab) cs ts = Some (norm_line cs vs).
Proof.
  induction 1 as [|c v cs vs [t [He Hd]] _ [ts [Hes Hds]]].
  - exists []. split; reflexivity.
  - exists (t :: ts). simpl. rewrite He, Hes, Hd, Hds. split; reflexivity.
Qed.

Theorem line_roundtrip_lemma sch vs :
  schema_wf sch = true -> fields_ok sch vs ->
  exists s, format_line tab sch vs = Some s /\ parse_line tab sch s = Some (norm_line (codecs sch) vs).
Proof.
  intros Hwf [Hrt [ts [Hts Hok]]].
  destruct (codecs_rt _ _ Hrt) as [ts' [He Hd]]. rewrite Hts in He. inversion He; subst ts'.
  destruct (fill_total _ _ Hok) as [s Hs].
  exists s. unfold format_line, parse_line. rewrite Hts. split; [exact Hs|].
  rewrite (scan_fill_lemma sch ts s Hwf Hok Hs). exact Hd.
Qed.

Lemma enc_norm c v : enc tab c (norm c v) = enc tab c v.
Proof. destruct c; destruct v; reflexivity. Qed.

Lemma map2_enc_norm cs : forall vs, map2_opt (enc tab) cs (norm_line cs vs) = map2_opt (enc tab) cs vs.
Proof.
  induction cs as [|c cs IH]; intros [|v vs]; simpl; auto. rewrite enc_norm, IH. reflexivity.
Qed.

(* writing the parsed object again gives the identical text *)
Theorem line_fixpoint_lemma sch vs :
  schema_wf sch = true -> fields_ok sch vs ->
  exists s vs', format_line tab sch vs = Some s /\ parse_line tab sch s = Some vs' /\
                format_line tab sch vs' = Some s.
Proof.
  intros Hwf Hok. destruct (line_roundtrip_lemma sch vs Hwf Hok) as [s [Hf Hp]].
  exists s, (norm_line (codecs sch) vs). repeat split; auto.
  unfold format_line in *. rewrite map2_enc_norm. exact Hf.
Qed.

(* ------------------------------------------------------------------ codecs *)

Lemma all_digits_uint u : all_chars is_digit (NilEmpty.string_of_uint u) = true.
Proof. induction u; simpl; auto. Qed.

Lemma string_of_uint_nonempty u : u <> Decimal.Nil -> nonempty (NilEmpty.string_of_uint u) = true.
Proof. destruct u; simpl; congruence. Qed.

Lemma to_uint_nonnil n : N.to_uint n <> Decimal.Nil.
Proof. destruct n; simpl; [discriminate | apply Unsigned.to_uint_nonnil]. Qed.

Lemma print_N_digits n : all_chars is_digit (print_N n) = true.
Proof. apply all_digits_uint. Qed.
Lemma print_N_nonempty n : nonempty (print_N n) = true.
Proof. apply string_of_uint_nonempty, to_uint_nonnil. Qed.

Lemma parse_print_N n : 0 <= n -> parse_N (print_N n) = Some n.
Proof.
  intros H. unfold parse_N. rewrite print_N_nonempty, print_N_digits. simpl.
  unfold print_N. rewrite NilEmpty.usu, DecimalN.Unsigned.of_to, Z2N.id; auto.
Qed.

Lemma print_N_first n : exists c r, print_N n = String c r /\ is_digit c = true.
Proof.
  pose proof (print_N_nonempty n) as H1. pose proof (print_N_digits n) as H2.
  destruct (print_N n) as [|c r]; [discriminate|]. simpl in H2. apply andb_true_iff in H2 as [H2 _]. eauto.
Qed.

Lemma parse_print_Z z : parse_Z (print_Z z) = Some z.
Proof.
  unfold print_Z. destruct (z <? 0) eqn:E.
  - simpl. rewrite parse_print_N by lia. f_equal. lia.
  - destruct (print_N_first z) as [c [r [E1 E2]]]. unfold parse_Z. rewrite E1.
    assert (c <> "-"%char) by (intros ->; discriminate).
    rewrite <- E1.
    destruct c as [[] [] [] [] [] [] [] []]; try (rewrite E1; rewrite <- E1; apply parse_print_N; lia); congruence.
Qed.

Theorem int_codec_rt_lemma z : field_rt CInt (VInt z).
Proof. exists (print_Z z). simpl. rewrite parse_print_Z. split; reflexivity. Qed.

Theorem oct_codec_rt_lemma z : field_rt COct (VInt z) /\ field_rt COct VNone.
Proof.
  split.
  - exists (print_Z z). simpl. split; [reflexivity|].
    destruct (String.eqb (print_Z z) "-") eqn:E.
    + apply String.eqb_eq in E. pose proof (parse_print_Z z) as H. rewrite E in H. discriminate.
    + rewrite parse_print_Z. reflexivity.
  - exists "-". split; reflexivity.
Qed.

(* attribute lists of any length: items non-empty and free of commas *)
Definition items_ok (l : list string) : Prop :=
  Forall (fun s => count_char comma s = O /\ nonempty s = true) l.

Lemma dec_list_join l : items_ok l -> dec_list (join comma l) = l.
Proof.
  intros H. unfold dec_list. destruct l as [|x r]; [reflexivity|].
  assert (Hne : nonempty (join comma (x :: r)) = true).
  { inversion H as [|? ? [_ Hx] _]; subst. destruct x; [discriminate|]. destruct r; reflexivity. }
  rewrite Hne. apply split_join; [discriminate|].
  eapply Forall_impl; [|exact H]. intros a [Ha _]. exact Ha.
Qed.

Theorem list_codec_rt_lemma l : items_ok l -> field_rt CListIn (VList l) /\ field_rt CList (VList l).
Proof.
  intros H. split.
  - exists (join comma l). simpl. rewrite dec_list_join by exact H. split; reflexivity.
  - exists (String "[" (join comma l ++ "]")). simpl. split; [reflexivity|].
    unfold unbracket. rewrite strip_suffix_app, dec_list_join by exact H. reflexivity.
Qed.

Lemma no_comma_digits s : all_chars is_digit s = true -> count_char comma s = O.
Proof. intros H. eapply count_char_none; [exact H | reflexivity]. Qed.

End Lines.

(* ------------------------------------------------------------------ key signatures (complete tabulation) *)

Definition key0s : list key0 := list_prod (zrange (-7) 15) [false; true].

Lemma key0s_In f mi : -7 <= f <= 7 -> In (f, mi) key0s.
Proof.
  intros H. apply in_prod; [apply zrange_In; simpl; lia | destruct mi; simpl; auto].
Qed.

Lemma key0_eqb_eq a b : key0_eqb a b = true -> a = b.
Proof.
  destruct a, b. unfold key0_eqb. simpl. intros H. apply andb_true_iff in H as [H1 H2].
  apply Z.eqb_eq in H1. apply Bool.eqb_prop in H2. congruence.
Qed.
Lemma key1_eqb_eq a b : key1_eqb a b = true -> a = b.
Proof.
  destruct a as [a [a2|]], b as [b [b2|]]; unfold key1_eqb; simpl; intros H;
    apply andb_true_iff in H as [H1 H2]; try discriminate;
    apply key0_eqb_eq in H1; subst; [apply key0_eqb_eq in H2; subst|]; reflexivity.
Qed.

Definition key1_rt_b (fmt : Z) (k : key1) : bool :=
  match print_key1 key_tab fmt k with
  | Some t => match parse_key1 key_tab fmt t with Some k' => key1_eqb k' k | None => false end
  | None => false
  end.

Lemma key1_rt_b_spec fmt k : key1_rt_b fmt k = true ->
  exists t, print_key1 key_tab fmt k = Some t /\ parse_key1 key_tab fmt t = Some k.
Proof.
  unfold key1_rt_b. destruct (print_key1 key_tab fmt k) as [t|]; [|discriminate].
  destruct (parse_key1 key_tab fmt t) as [k'|] eqn:E; [|discriminate].
  intros H. apply key1_eqb_eq in H. subst. exists t. split; [reflexivity | exact E].
Qed.

Lemma keys_single_all :
  forallb (fun fmt => forallb (fun k => key1_rt_b fmt (k, None)) key0s) [0; 1; 3] = true.
Proof. vm_compute. reflexivity. Qed.
Lemma keys_alt_all :
  forallb (fun fmt => forallb (fun p => key1_rt_b fmt (fst p, Some (snd p))) (list_prod key0s key0s)) [1; 3] = true.
Proof. vm_compute. reflexivity. Qed.

Theorem keysig_codec_rt_lemma fmt f mi :
  In fmt [0; 1; 3] -> -7 <= f <= 7 ->
  field_rt key_tab (CKey fmt false) (VKey ((f, mi), None) []).
Proof.
  intros Hfmt Hf. pose proof keys_single_all as H. rewrite forallb_forall in H.
  specialize (H fmt Hfmt). rewrite forallb_forall in H. specialize (H (f, mi) (key0s_In f mi Hf)).
  apply key1_rt_b_spec in H as [t [H1 H2]].
  exists t. cbn [enc dec norm]. split; [exact H1|]. rewrite H2. reflexivity.
Qed.

Theorem keysig_alt_codec_rt_lemma fmt f mi f2 mi2 :
  In fmt [1; 3] -> -7 <= f <= 7 -> -7 <= f2 <= 7 ->
  field_rt key_tab (CKey fmt false) (VKey ((f, mi), Some (f2, mi2)) []).
Proof.
  intros Hfmt Hf Hf2. pose proof keys_alt_all as H. rewrite forallb_forall in H.
  specialize (H fmt Hfmt). rewrite forallb_forall in H.
  specialize (H ((f, mi), (f2, mi2)) (in_prod _ _ _ _ (key0s_In f mi Hf) (key0s_In f2 mi2 Hf2))).
  apply key1_rt_b_spec in H as [t [H1 H2]].
  exists t. cbn [enc dec norm fst snd] in *. split; [exact H1|]. rewrite H2. reflexivity.
Qed.

(* the implementation itself (its tabulated graph): every key, written in any spelling, is read back *)
Definition row_key (r : Z * Z * bool * option string * option (Z * bool)) : Z * key0 :=
  let '(fmt, f, mi, _, _) := r in (fmt, (f, mi)).
Definition row_ok (r : Z * Z * bool * option string * option (Z * bool)) : bool :=
  let '(fmt, f, mi, t, p) := r in
  match t, p with Some _, Some (f', mi') => (f' =? f) && Bool.eqb mi' mi | _, _ => false end.

Lemma key_rows_complete : map row_key key_rows = list_prod [0; 1; 3] key0s.
Proof. vm_compute. reflexivity. Qed.
Lemma key_rows_ok : forallb row_ok key_rows = true.
Proof. vm_compute. reflexivity. Qed.

Theorem keysig_bijection_30_lemma fmt f mi :
  In fmt [0; 1; 3] -> -7 <= f <= 7 ->
  exists t, In (fmt, f, mi, Some t, Some (f, mi)) key_rows.
Proof.
  intros Hfmt Hf.
  assert (Hin : In (fmt, (f, mi)) (map row_key key_rows)).
  { rewrite key_rows_complete. apply in_prod; [exact Hfmt | apply key0s_In; exact Hf]. }
  apply in_map_iff in Hin as [[[[[fmt' f'] mi'] t] p] [Hk Hin]].
  simpl in Hk. inversion Hk; subst.
  pose proof key_rows_ok as H. rewrite forallb_forall in H. specialize (H _ Hin). simpl in H.
  destruct t as [t|]; [|discriminate]. destruct p as [[f'' mi'']|]; [|discriminate].
  apply andb_true_iff in H as [H1 H2]. apply Z.eqb_eq in H1. apply Bool.eqb_prop in H2. subst.
  exists t. exact Hin.
Qed.

(* ------------------------------------------------------------------ durations *)

Lemma bound_pair_noop n d : n <= frac_bound -> d <= frac_bound -> bound_pair n d = (n, d).
Proof.
  intros Hn Hd. unfold bound_pair.
  replace (frac_bound <? n) with false by (symmetry; apply Z.ltb_ge; exact Hn).
  replace (frac_bound <? d) with false by (symmetry; apply Z.ltb_ge; exact Hd). reflexivity.
Qed.

Theorem frac_add_exact_lemma f g :
  let d1 := fden f * tdiv (ftd f) in
  let d2 := fden g * tdiv (ftd g) in
  0 < d1 -> 0 < d2 ->
  Z.lcm d1 d2 <= frac_bound ->
  (Z.lcm d1 d2 / d1) * fnum f + (Z.lcm d1 d2 / d2) * fnum g <= frac_bound ->
  (frac_value (frac_add f g) == frac_value f + frac_value g)%Q.
Proof.
  intros d1 d2 H1 H2 HL HN. unfold frac_add. fold d1 d2.
  unfold mk_frac. rewrite bound_pair_noop by assumption.
  unfold frac_value; cbn [fnum fden ftd tdiv]. fold d1 d2.
  set (L := Z.lcm d1 d2) in *.
  assert (HLpos : 0 < L).
  { pose proof (Z.lcm_nonneg d1 d2). assert (L <> 0) by (unfold L; intros E; apply Z.lcm_eq_0 in E; lia). lia. }
  destruct (Z.divide_lcm_l d1 d2) as [k1 Hk1]. destruct (Z.divide_lcm_r d1 d2) as [k2 Hk2].
  fold L in Hk1, Hk2.
  assert (E1 : L / d1 = k1) by (rewrite Hk1; apply Z.div_mul; lia).
  assert (E2 : L / d2 = k2) by (rewrite Hk2; apply Z.div_mul; lia).
  rewrite E1, E2, Z.mul_1_r.
  unfold Qeq, Qplus. cbn [Qnum Qden]. rewrite Pos2Z.inj_mul, !Z2Pos.id by lia.
  clear E1 E2 HN HL HLpos. clearbody L d1 d2.
  transitivity (fnum f * d2 * L + fnum g * d1 * L); [|ring].
  rewrite Hk1 at 1. rewrite Hk2. ring.
Qed.

(* additive components are concatenated, zero numerators dropped *)
Theorem frac_add_components_lemma f g :
  fcomps (frac_add f g) =
  Some (filter (fun c : triple => negb (fst (fst c) =? 0)) (frac_comps f ++ frac_comps g)).
Proof. unfold frac_add, mk_frac. destruct (bound_pair _ _). reflexivity. Qed.

(* the boundary: above the bound the numeric value of a sum is only approximated *)
Theorem frac_add_inexact_above_bound_lemma :
  exists f g, fnum f <= frac_bound /\ fden f <= frac_bound /\ fnum g <= frac_bound /\ fden g <= frac_bound /\
    ~ (frac_value (frac_add f g) == frac_value f + frac_value g)%Q.
Proof.
  exists (mkfrac 1 1000 None None), (mkfrac 1 999 None None).
  repeat split; vm_compute; discriminate.
Qed.

Theorem frac_bound_partial_lemma :
  bound_pair 1025 1023 = (2, 2) /\ bound_pair 2048 4 = (1024, 2) /\ bound_pair 3 2048 = (1, 128).
Proof. vm_compute. repeat split. Qed.

(* ------------------------------------------------------------------ the reflected schemas *)

Lemma reflected_schemas_wellformed_lemma :
  forallb (fun p => schema_wf (snd p)) all_schemas = true.
Proof. vm_compute. reflexivity. Qed.

(* the hypotheses are satisfiable on a reflected schema: sustain(711360,22). *)
Lemma example_sustain_fields_ok : fields_ok key_tab sch_sustain_v1_0_0 [VInt 711360; VInt 22].
Proof.
  split.
  - change (codecs sch_sustain_v1_0_0) with [CInt; CInt].
    repeat constructor; apply int_codec_rt_lemma.
  - eexists. split; vm_compute; reflexivity.
Qed.

Lemma example_sustain_lemma :
  exists s, format_line key_tab sch_sustain_v1_0_0 [VInt 711360; VInt 22] = Some s /\
            parse_line key_tab sch_sustain_v1_0_0 s = Some [VInt 711360; VInt 22].
Proof.
  apply (line_roundtrip_lemma key_tab sch_sustain_v1_0_0 [VInt 711360; VInt 22]).
  - vm_compute. reflexivity.
  - exact example_sustain_fields_ok.
Qed.
