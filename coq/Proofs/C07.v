(* C07 -- proofs (work in progress: grows below) *)
From PV Require Import Lib.Base Model.C07 Gen.C07_Schemas.
From Coq Require Import QArith Ascii.

Lemma reflected_schemas_wellformed_lemma :
  forallb (fun p => schema_wf (snd p)) all_schemas = true.
Proof. vm_compute. reflexivity. Qed.
