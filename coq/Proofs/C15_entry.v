(* C15, round j extension: the head of merge_parts (Model/C15_Entry.v) -- which inputs are rejected, in
   which order, and that everything else is the merge of Model/C15.v. *)
From PV Require Import Lib.Base Model.C05 Model.C15 Model.C15_Spec Proofs.C15 Proofs.C15_ext.
From PV Require Import Model.C15_Entry.
From Coq Require Import QArith String.
#[local] Open Scope Z_scope.

Lemma mode_of_string_none s :
  mode_of_string s = None <-> (s <> "voice" /\ s <> "staff" /\ s <> "auto")%string.
Proof.
  unfold mode_of_string.
  destruct (String.eqb s "voice") eqn:A; [apply String.eqb_eq in A; split; [discriminate|intros [H _]; contradiction]|].
  destruct (String.eqb s "staff") eqn:B; [apply String.eqb_eq in B; split; [discriminate|intros [_ [H _]]; contradiction]|].
  destruct (String.eqb s "auto") eqn:C; [apply String.eqb_eq in C; split; [discriminate|intros [_ [_ H]]; contradiction]|].
  apply String.eqb_neq in A, B, C. split; auto.
Qed.

Lemma mode_of_string_some s m :
  mode_of_string s = Some m <->
  ((s = "voice" /\ m = MVoice) \/ (s = "staff" /\ m = MStaff) \/ (s = "auto" /\ m = MAuto))%string.
Proof.
  unfold mode_of_string.
  destruct (String.eqb s "voice") eqn:A.
  { apply String.eqb_eq in A. subst. split.
    - intros H; injection H as <-; auto.
    - intros [[_ ->]|[[H _]|[H _]]]; [reflexivity|discriminate|discriminate]. }
  destruct (String.eqb s "staff") eqn:B.
  { apply String.eqb_eq in B. subst. split.
    - intros H; injection H as <-; auto.
    - intros [[H _]|[[_ ->]|[H _]]]; [discriminate|reflexivity|discriminate]. }
  destruct (String.eqb s "auto") eqn:C.
  { apply String.eqb_eq in C. subst. split.
    - intros H; injection H as <-; auto.
    - intros [[H _]|[[H _]|[_ ->]]]; [discriminate|discriminate|reflexivity]. }
  apply String.eqb_neq in A, B, C. split; [discriminate|].
  intros [[H _]|[[H _]|[H _]]]; contradiction.
Qed.

(* (1): ValueError exactly for a string that is none of the three -- whatever the argument is *)
Lemma entry_value_error_lemma s ts :
  merge_parts_entry s ts = XValueError <-> (s <> "voice" /\ s <> "staff" /\ s <> "auto")%string.
Proof.
  rewrite <- mode_of_string_none. unfold merge_parts_entry.
  destruct (mode_of_string s) as [m|]; [|split; reflexivity].
  split; [|discriminate].
  destruct (flat_map xflatten ts) as [|p [|q r]]; try discriminate;
    destruct (forallb one_division _); discriminate.
Qed.

(* (3): one part after flattening is returned as it is, whatever its quarter durations *)
Lemma entry_single_lemma s m ts p :
  mode_of_string s = Some m -> flat_map xflatten ts = [p] -> merge_parts_entry s ts = XSingle p.
Proof. intros A B. unfold merge_parts_entry. rewrite A, B. reflexivity. Qed.

(* (4): the documented exception, exactly when two or more (or no) parts are given and one of them has not
   exactly one quarter duration *)
Lemma entry_divisions_error_lemma s m ts :
  mode_of_string s = Some m ->
  (merge_parts_entry s ts = XDivisionsError <->
   List.length (flat_map xflatten ts) <> 1%nat /\
   exists p, In p (flat_map xflatten ts) /\ List.length (snd p) <> 1%nat).
Proof.
  intros A. unfold merge_parts_entry. rewrite A.
  assert (F : forall ps, forallb one_division ps = false <-> exists p, In p ps /\ List.length (snd p) <> 1%nat).
  { intros ps. split.
    - intros H. induction ps as [|q r IH]; [discriminate|]. simpl in H.
      destruct (one_division q) eqn:O.
      + destruct (IH H) as [p [P1 P2]]. exists p. split; [right; exact P1|exact P2].
      + exists q. split; [left; reflexivity|]. unfold one_division in O. apply Nat.eqb_neq in O. exact O.
    - intros [p [P1 P2]]. destruct (forallb one_division ps) eqn:E; [|reflexivity].
      rewrite forallb_forall in E. specialize (E p P1). unfold one_division in E. apply Nat.eqb_eq in E. contradiction. }
  destruct (flat_map xflatten ts) as [|p [|q r]] eqn:E.
  - simpl. split; [discriminate|]. intros [_ [p [[] _]]].
  - split; [discriminate|]. intros [H _]. exfalso. apply H. reflexivity.
  - destruct (forallb one_division (p :: q :: r)) eqn:G.
    + split; [discriminate|]. intros [_ H]. apply F in H. congruence.
    + split; [|reflexivity]. intros _. split; [simpl; lia|]. apply F. exact G.
Qed.

(* (5): everything else is the merge of Model/C15.v on the parts with their one quarter duration -- the part
   list the theorems of Props/C15.v speak about *)
Lemma entry_merges_lemma s m ts :
  mode_of_string s = Some m ->
  List.length (flat_map xflatten ts) <> 1%nat ->
  (forall p, In p (flat_map xflatten ts) -> List.length (snd p) = 1%nat) ->
  merge_parts_entry s ts = XMerge (merge_parts m (map TPart (map the_part (flat_map xflatten ts)))) /\
  flat_map flatten (map TPart (map the_part (flat_map xflatten ts))) = map the_part (flat_map xflatten ts) /\
  (forall p, In p (flat_map xflatten ts) -> snd p = [snd (the_part p)]).
Proof.
  intros A N H. split; [|split].
  - unfold merge_parts_entry. rewrite A.
    assert (G : forallb one_division (flat_map xflatten ts) = true).
    { apply forallb_forall. intros p Hp. unfold one_division. apply Nat.eqb_eq. apply H; exact Hp. }
    destruct (flat_map xflatten ts) as [|p [|q r]]; [simpl; reflexivity|exfalso; apply N; reflexivity|].
    rewrite G. reflexivity.
  - apply flatten_map_TPart.
  - intros p Hp. specialize (H p Hp). unfold the_part. simpl.
    destruct (snd p) as [|d [|d' r]]; simpl in *; try discriminate. reflexivity.
Qed.

(* the four outcomes exclude each other and cover everything: the order of the checks *)
Lemma entry_order_lemma s ts :
  match merge_parts_entry s ts with
  | XValueError => mode_of_string s = None
  | XSingle p => mode_of_string s <> None /\ flat_map xflatten ts = [p]
  | XDivisionsError => mode_of_string s <> None /\ List.length (flat_map xflatten ts) <> 1%nat /\
                       forallb one_division (flat_map xflatten ts) = false
  | XMerge r => exists m, mode_of_string s = Some m /\ List.length (flat_map xflatten ts) <> 1%nat /\
                       forallb one_division (flat_map xflatten ts) = true /\
                       r = merge_parts m (map TPart (map the_part (flat_map xflatten ts)))
  end.
Proof.
  unfold merge_parts_entry. destruct (mode_of_string s) as [m|]; [|reflexivity].
  destruct (flat_map xflatten ts) as [|p [|q r]] eqn:E.
  - simpl. exists m. repeat split; auto.
  - split; [discriminate|reflexivity].
  - destruct (forallb one_division (p :: q :: r)) eqn:G.
    + exists m. repeat split; auto. simpl; lia.
    + split; [discriminate|]. split; [simpl; lia|reflexivity].
Qed.

(* ------------------------------------------------------------------ examples and refuted variants *)

Definition en_note (oid v s e : Z) : elem := mkElem oid KNote s (Some e) (Some v) None 60 None None.
Definition en_two : xpart := ([en_note 1 1 0 4], [4; 8]).        (* the divisions change once *)
Definition en_a : xpart := ([en_note 2 1 0 2], [2]).
Definition en_b : xpart := ([en_note 3 1 0 3], [3]).

Lemma entry_examples :
  merge_parts_entry "voice" [XPart en_two] = XSingle en_two /\
  merge_parts_entry "both" [XPart en_two] = XValueError /\
  merge_parts_entry "both" [XPart en_a; XPart en_b] = XValueError /\
  merge_parts_entry "auto" [XGroup [XPart en_a; XPart en_two]] = XDivisionsError /\
  merge_parts_entry "staff" [] = XMerge RRaise /\
  (exists out, merge_parts_entry "voice" [XPart en_a; XGroup [XPart en_b]] = XMerge (RMerged 6 out) /\
     map (fun x : nat * elem => (fst x, e_oid (snd x), e_start (snd x), e_end (snd x), e_voice (snd x))) out =
     [(0%nat, 2, 0, Some 6, Some 1); (1%nat, 3, 0, Some 6, Some 2)]).
Proof. repeat split; try reflexivity. eexists. split; vm_compute; reflexivity. Qed.

(* the one-part shortcut before the check of the string: an unknown mode goes unnoticed for one part *)
Lemma identity_first_refuted :
  exists s ts p, (s <> "voice" /\ s <> "staff" /\ s <> "auto")%string /\
    merge_parts_entry s ts = XValueError /\ entry_identity_first s ts = XSingle p.
Proof.
  exists "both"%string, [XPart en_a], en_a. split; [repeat split; discriminate|]. split; reflexivity.
Qed.

(* without check (4) a part whose divisions change is merged with its first quarter duration only *)
Lemma no_divisions_check_refuted :
  exists ts L out, merge_parts_entry "voice" ts = XDivisionsError /\
    entry_no_divisions_check "voice" ts = XMerge (RMerged L out).
Proof. exists [XPart en_a; XPart en_two]. eexists. eexists. split; vm_compute; reflexivity. Qed.
