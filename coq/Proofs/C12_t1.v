(* C12 -- T1 tie: the definitions that harness/t1.py regenerates from the SOURCE TEXT of the
   conversion functions of partitura/utils/music.py and partitura/score.py on every run
   (Gen/T1_music.v) are equal to the hand model of Model/C12.v (stated through Model/T1_spec.v),
   for ALL arguments unless a guard is written in the statement; hence the unbounded theorems of
   Proofs/C12*.v hold of what the source says now.  (pitch_spelling_to_midi_pitch, step2pc,
   Interval.semitones and Interval.validate are in Proofs/T1_core.v, shared with C16.) *)
From PV Require Import Lib.Base Lib.Tab Lib.Py Proofs.T1_lib Proofs.T1_core.
From PV Require Model.C12 Model.C16 Gen.T1_music Proofs.C12_model Proofs.C12.
From PV Require Import Lib.Round.
From PV Require Import Model.T1_spec.
From Coq Require Import QArith Ascii.
#[local] Open Scope Z_scope.

Theorem t1_find_smallest_unit_eq fuel divs : T1_music.find_smallest_unit fuel divs = spec_find_smallest_unit fuel divs.
Proof.
  t1_by_stub T1_music.find_smallest_unit_is_translated ||
  (unfold T1_music.find_smallest_unit; cbv zeta;
   match goal with |- opt_bind (?f fuel divs) _ = _ => assert (L : forall fu u, f fu u = spec_find_smallest_unit fu u) end;
   [ induction fu as [|fu IH]; intros u; [reflexivity|]; cbn [spec_find_smallest_unit]; rewrite ?IH; t1_finish
   | rewrite L; destruct (spec_find_smallest_unit fuel divs); reflexivity ]).
Qed.

Theorem t1_pitch_spelling_to_note_name_eq s a o : -3 <= a <= 3 ->
  T1_music.pitch_spelling_to_note_name s a o = spec_pitch_spelling_to_note_name s a o.
Proof.
  t1_by_stub T1_music.pitch_spelling_to_note_name_is_translated ||
  (intros Ha; unfold T1_music.pitch_spelling_to_note_name, spec_pitch_spelling_to_note_name, C12.note_name;
   change (C12.print_octave o) with (py_str_Z o);
   assert (C : a = -3 \/ a = -2 \/ a = -1 \/ a = 0 \/ a = 1 \/ a = 2 \/ a = 3) by lia;
   repeat (destruct C as [->|C]; [reflexivity|]); subst; reflexivity).
Qed.

Theorem t1_key_mode_to_int_eq m : T1_music.key_mode_to_int m = spec_key_mode_to_int m.
Proof.
  t1_by_stub T1_music.key_mode_to_int_is_translated ||
  (unfold T1_music.key_mode_to_int, spec_key_mode_to_int, mode_of_pyval, py_in_vals;
   destruct m; cbn [existsb pyval_eqb orb]; t1_atoms; subst; try lia; cbn; t1_finish).
Qed.
Theorem t1_key_int_to_mode_eq m : T1_music.key_int_to_mode m = spec_key_int_to_mode m.
Proof.
  t1_by_stub T1_music.key_int_to_mode_is_translated ||
  (unfold T1_music.key_int_to_mode, spec_key_int_to_mode, mode_of_pyval, py_in_vals;
   destruct m; cbn [existsb pyval_eqb orb]; t1_atoms; subst; try lia; cbn; t1_finish).
Qed.
Theorem t1_clef_sign_to_int_eq s : T1_music.clef_sign_to_int s = spec_clef_sign_to_int s.
Proof.
  t1_by_stub T1_music.clef_sign_to_int_is_translated ||
  (unfold T1_music.clef_sign_to_int, spec_clef_sign_to_int; change T1_music.CLEF_TO_INT with clef_codes; t1_finish).
Qed.
Theorem t1_clef_int_to_sign_eq c : T1_music.clef_int_to_sign c = spec_clef_int_to_sign c.
Proof.
  t1_by_stub T1_music.clef_int_to_sign_is_translated ||
  (unfold T1_music.clef_int_to_sign, spec_clef_int_to_sign;
   change T1_music.INT_TO_CLEF with (map (fun kv : string * Z => (snd kv, fst kv)) clef_codes); t1_finish).
Qed.

Lemma nth_keys_major f : -7 <= f <= 7 -> py_nth T1_music.MAJOR_KEYS (f + 7) = nth_error C12.major_keys (Z.to_nat (f + 7)).
Proof. intros H. rewrite py_nth_range by (cbn; lia). reflexivity. Qed.
Lemma nth_keys_minor f : -7 <= f <= 7 -> option_map (fun s => (s ++ "m")%string) (py_nth T1_music.MINOR_KEYS (f + 7)) = nth_error C12.minor_keys (Z.to_nat (f + 7)).
Proof.
  intros H. rewrite py_nth_range by (cbn; lia).
  assert (C : f = -7 \/ f = -6 \/ f = -5 \/ f = -4 \/ f = -3 \/ f = -2 \/ f = -1 \/ f = 0 \/ f = 1 \/ f = 2 \/ f = 3 \/ f = 4 \/ f = 5 \/ f = 6 \/ f = 7) by lia.
  repeat (destruct C as [->|C]; [reflexivity|]). subst. reflexivity.
Qed.
Lemma app_empty_r s : (s ++ "")%string = s.
Proof. induction s; cbn; congruence. Qed.

Theorem t1_fifths_mode_to_key_name_eq f m : T1_music.fifths_mode_to_key_name f m = spec_fifths_mode_to_key_name f m.
Proof.
  t1_by_stub T1_music.fifths_mode_to_key_name_is_translated ||
  (unfold T1_music.fifths_mode_to_key_name, spec_fifths_mode_to_key_name, mode_of_pyval, C12.key_name; cbv zeta;
   destruct (py_in_vals m [PyStr "minor"; PyInt (-1)]);
   [| destruct (py_in_vals m [PyStr "major"; PyNone; PyStr "none"; PyInt 1]); [|reflexivity]];
   (destruct ((-7 <=? f) && (f <=? 7)) eqn:R; cbn [negb]; [|reflexivity]);
   (* the index expression of the source, whatever its form, is fifths + 7 *)
   repeat match goal with |- context [py_nth _ ?X] => progress replace X with (f + 7) by lia end;
   [ rewrite <- (nth_keys_minor f) by lia | rewrite <- (nth_keys_major f) by lia ];
   t1_finish; rewrite ?app_empty_r; reflexivity).
Qed.

(* finite: the 15 + 15 key names *)
Lemma key_names_agree :
  forallb (fun n => zsopt_agree (T1_music.key_name_to_fifths_mode n) (spec_key_name_to_fifths_mode n)) (C12.major_keys ++ C12.minor_keys) = true.
Proof. vm_compute. reflexivity. Qed.
Lemma zsopt_agree_eq a b : zsopt_agree a b = true -> a = b.
Proof.
  destruct a as [[x s]|], b as [[y t]|]; cbn; try discriminate; try reflexivity.
  intros H. apply andb_true_iff in H as [H1 H2]. apply String.eqb_eq in H1. apply Z.eqb_eq in H2. congruence.
Qed.
Theorem t1_key_name_to_fifths_mode_eq n : In n (C12.major_keys ++ C12.minor_keys) ->
  T1_music.key_name_to_fifths_mode n = spec_key_name_to_fifths_mode n.
Proof. intros H. apply zsopt_agree_eq. exact (forallb_In _ _ key_names_agree n H). Qed.

Lemma in_keys_midi_base_class s :
  py_in_strs (py_lower s) (skeys T1_music.MIDI_BASE_CLASS) = match C12.base_pc (py_lower s) with Some _ => true | None => false end.
Proof.
  unfold C12.base_pc. string_cases s; try (vm_compute; reflexivity).
  rewrite py_lower_cons, (py_lower_cons d). rewrite in_strs_long by reflexivity. rewrite slookup_long by reflexivity. reflexivity.
Qed.

Theorem t1_ensure_pitch_spelling_format_eq s a o :
  T1_music.ensure_pitch_spelling_format s a o = spec_ensure_pitch_spelling_format s a o.
Proof.
  t1_by_stub T1_music.ensure_pitch_spelling_format_is_translated ||
  (unfold T1_music.ensure_pitch_spelling_format, spec_ensure_pitch_spelling_format;
   rewrite ?in_keys_midi_base_class; t1_finish).
Qed.

Theorem t1_midi_pitch_to_pitch_spelling_eq m :
  T1_music.midi_pitch_to_pitch_spelling m = spec_midi_pitch_to_pitch_spelling T1_music.DUMMY_PS_BASE_CLASS m.
Proof.
  t1_by_stub T1_music.midi_pitch_to_pitch_spelling_is_translated ||
  (unfold T1_music.midi_pitch_to_pitch_spelling, spec_midi_pitch_to_pitch_spelling; cbv zeta;
   destruct (zlookup (m mod 12) T1_music.DUMMY_PS_BASE_CLASS) as [[s a]|]; t1_cbn; [|reflexivity];
   t1_rw T1_music.ensure_pitch_spelling_format_is_translated T1_music.ensure_pitch_spelling_format t1_ensure_pitch_spelling_format_eq; t1_finish).
Qed.

(* the spec is the hand model's algorithm whenever every step of the table is a letter *)
Lemma spec_midi_is_model tab m : C12.dummy_ok tab = true ->
  spec_midi_pitch_to_pitch_spelling tab m = C12.midi_to_ps_with tab m.
Proof.
  intros H. unfold spec_midi_pitch_to_pitch_spelling, C12.midi_to_ps_with.
  destruct (zlookup (m mod 12) tab) as [[s a]|] eqn:L; [|reflexivity].
  unfold C12.dummy_ok in H.
  assert (B : 0 <= m mod 12 < 0 + Z.of_nat 12) by (change (Z.of_nat 12) with 12; pose proof (Z.mod_pos_bound m 12); lia).
  pose proof (forallb_In _ _ H (m mod 12) (zrange_In 0 12 _ B)) as Hp.
  cbv beta in Hp. rewrite L in Hp. apply zopt_eqb_eq in Hp.
  unfold spec_ensure_pitch_spelling_format.
  assert (U : py_upper s = C12.upper_step s /\ C12.base_pc (py_lower s) = C12.base_pc s).
  { revert Hp. generalize (m mod 12 - a). intros b Hb. unfold C12.base_pc in *. revert Hb.
    string_cases s; try (vm_compute; (discriminate || (intros _; split; reflexivity))).
    rewrite slookup_long by reflexivity. discriminate. }
  destruct U as [U1 U2]. rewrite U2, Hp, U1. reflexivity.
Qed.

Lemma label_durs_lookup u : slookup u T1_music.LABEL_DURS = C12.label_dur u.
Proof. reflexivity. Qed.
Lemma label_dur_nonzero u l : C12.label_dur u = Some l -> Qeq_bool l 0 = false.
Proof.
  unfold C12.label_dur. cbn [slookup].
  repeat (destruct (String.eqb u _); [intros H; injection H as <-; reflexivity|]). discriminate.
Qed.

Theorem t1_Tuplet_duration_multiplier_eq t :
  qopt_equiv (T1_music.Tuplet_duration_multiplier t) (spec_Tuplet_duration_multiplier t).
Proof.
  t1_by_stub T1_music.Tuplet_duration_multiplier_is_translated ||
  (destruct t as [an nn aty nty];
   unfold T1_music.Tuplet_duration_multiplier, spec_Tuplet_duration_multiplier, C12.tuplet_mult, slookup_o; t1_cbn;
   destruct (Z.eqb_spec an 0) as [->|Han];
   [ rewrite !py_fraction_zero; t1_finish; exact I
   | destruct (py_fraction_spec nn an Han) as [f [Ef Hf]]; rewrite !Ef;
     destruct (sopt_eqb' aty nty) eqn:E; t1_cbn; [exact Hf|];
     destruct aty as [a|], nty as [b|]; t1_cbn; try discriminate E; try exact I; try (destruct (slookup a T1_music.LABEL_DURS); exact I);
     rewrite ?label_durs_lookup;
     assert (Eab : String.eqb a b = false) by exact E; rewrite Eab;
     destruct (C12.label_dur a) as [la|] eqn:La; t1_cbn; [|exact I];
     destruct (C12.label_dur b) as [lb|] eqn:Lb; t1_cbn; [|exact I];
     unfold py_qdiv; rewrite (label_dur_nonzero a la La); t1_cbn; unfold qopt_equiv; rewrite Hf; reflexivity ]).
Qed.

(* DOT_MULTIPLIERS[d]: entries 0..3 (negative indices wrap), each equal to 2 - 1/2^k *)
Lemma dot_multipliers_nth d :
  qopt_equiv (py_nth T1_music.DOT_MULTIPLIERS d)
             (let k := if d <? 0 then d + 4 else d in if (0 <=? k) && (k <=? 3) then Some (C12.dot_mult k) else None).
Proof.
  assert (C : d = -4 \/ d = -3 \/ d = -2 \/ d = -1 \/ d = 0 \/ d = 1 \/ d = 2 \/ d = 3 \/ d < -4 \/ 3 < d) by lia.
  repeat (destruct C as [->|C]; [vm_compute; reflexivity|]).
  unfold py_nth. change (Z.of_nat (List.length T1_music.DOT_MULTIPLIERS)) with 4. cbv zeta.
  replace ((0 <=? d) && (d <? 4)) with false by lia. replace ((- (4) <=? d) && (d <? 0)) with false by lia.
  destruct (d <? 0) eqn:E; [replace ((0 <=? d + 4) && (d + 4 <=? 3)) with false by lia | replace ((0 <=? d) && (d <=? 3)) with false by lia]; exact I.
Qed.

Lemma py_or_optint_1_nonzero a : Qeq_bool (inject_Z (py_or_optint a 1)) 0 = false.
Proof.
  unfold py_or_optint. destruct a as [z|]; [destruct (z =? 0) eqn:E|]; try reflexivity.
  apply not_true_is_false. intros H. apply Qeq_bool_iff in H. unfold Qeq in H. cbn in H. lia.
Qed.

Theorem t1_symbolic_to_numeric_duration_eq sd divs :
  qopt_equiv (T1_music.symbolic_to_numeric_duration sd divs) (spec_symbolic_to_numeric_duration sd divs).
Proof.
  t1_by_stub T1_music.symbolic_to_numeric_duration_is_translated ||
  (destruct sd as [[u|] dots an nn];
   unfold T1_music.symbolic_to_numeric_duration, spec_symbolic_to_numeric_duration, slookup_o, C12.sym_dur, py_qdiv; cbn [sd_type sd_dots sd_actual_notes sd_normal_notes]; [|exact I];
   rewrite ?label_durs_lookup, ?py_or_optint_1_nonzero;
   match goal with |- context [py_nth T1_music.DOT_MULTIPLIERS ?d] => pose proof (dot_multipliers_nth d) as D; cbv zeta in D;
     destruct (py_nth T1_music.DOT_MULTIPLIERS d) as [x|] end;
   match type of D with context [if ?c then _ else _] => destruct c end; cbn [qopt_equiv] in D; try contradiction;
   destruct (C12.label_dur u) as [l|]; cbn [opt_bind qopt_equiv]; try exact I;
   rewrite D; first [reflexivity | ring]).
Qed.

Theorem t1_midi_ticks_to_seconds_eq ticks mpq ppq :
  qopt_equiv (T1_music.midi_ticks_to_seconds ticks mpq ppq) (spec_midi_ticks_to_seconds ticks mpq ppq).
Proof.
  t1_by_stub T1_music.midi_ticks_to_seconds_is_translated ||
  (unfold T1_music.midi_ticks_to_seconds, spec_midi_ticks_to_seconds, C12.tick_to_sec, py_qdiv;
   autorewrite with t1q; cbn [Z.eqb orb];
   destruct (ppq =? 0); cbn [opt_bind qopt_equiv]; [exact I|];
   rewrite ?inject_Z_mult; first [reflexivity | ring | field]).
Qed.

(* ticks -> seconds -> ticks, for the translated midi_ticks_to_seconds and the model's rounding (all ppq, mpq > 0, all k) *)
Theorem t1_tick_roundtrip ppq mpq k : 0 < ppq -> 0 < mpq ->
  exists t, T1_music.midi_ticks_to_seconds k mpq ppq = Some t /\ C12.sec_to_tick ppq mpq t = k.
Proof.
  intros Hp Hm. pose proof (t1_midi_ticks_to_seconds_eq k mpq ppq) as E.
  unfold spec_midi_ticks_to_seconds in E. replace (ppq =? 0) with false in E by lia.
  destruct (T1_music.midi_ticks_to_seconds k mpq ppq) as [t|]; [|contradiction]. cbn [qopt_equiv] in E.
  exists t. split; [reflexivity|]. unfold C12.sec_to_tick.
  assert (R : (inject_Z (1000000 * ppq) * t / inject_Z mpq == inject_Z (1000000 * ppq) * C12.tick_to_sec ppq mpq k / inject_Z mpq)%Q) by (rewrite E; reflexivity).
  rewrite R. exact (Proofs.C12.tick_roundtrip_lemma ppq mpq k Hp Hm).
Qed.

Theorem t1_Note_alter_sign_eq x : T1_music.Note_alter_sign x = spec_Note_alter_sign x.
Proof.
  t1_by_stub T1_music.Note_alter_sign_is_translated ||
  (destruct x as [s [a|] o]; unfold T1_music.Note_alter_sign, spec_Note_alter_sign; t1_cbn; [|reflexivity];
   unfold T1_music.ALTER_SIGNS; cbn [olookup zopt_eqb]; z_lit_left a;
   case_int_lit 0 a; [reflexivity|]; case_int_lit 1 a; [reflexivity|]; case_int_lit 2 a; [reflexivity|];
   case_int_lit (-1) a; [reflexivity|]; case_int_lit (-2) a; [reflexivity|];
   replace ((-2 <=? a) && (a <=? 2)) with false by lia; reflexivity).
Qed.

Theorem t1_Note_midi_pitch_eq x : T1_music.Note_midi_pitch x = spec_Note_midi_pitch x.
Proof.
  t1_by_stub T1_music.Note_midi_pitch_is_translated ||
  (unfold T1_music.Note_midi_pitch, spec_Note_midi_pitch; t1_rw T1_music.pitch_spelling_to_midi_pitch_is_translated T1_music.pitch_spelling_to_midi_pitch t1_pitch_spelling_to_midi_pitch_eq; t1_finish).
Qed.

Theorem t1_KeySignature_name_eq k : T1_music.KeySignature_name k = spec_KeySignature_name k.
Proof.
  t1_by_stub T1_music.KeySignature_name_is_translated ||
  (unfold T1_music.KeySignature_name, spec_KeySignature_name; t1_rw T1_music.fifths_mode_to_key_name_is_translated T1_music.fifths_mode_to_key_name t1_fifths_mode_to_key_name_eq; t1_finish).
Qed.

(* ---------- the unbounded theorems of Proofs/C12*.v, about the translated definitions ---------- *)

(* C4 = 60; each accidental one semitone, each octave twelve -- every step string, every integer *)
Theorem t1_ps_to_midi_C4 : T1_music.pitch_spelling_to_midi_pitch "C" None 4 = Some 60.
Proof. t1_rw T1_music.pitch_spelling_to_midi_pitch_is_translated T1_music.pitch_spelling_to_midi_pitch t1_pitch_spelling_to_midi_pitch_eq. reflexivity. Qed.

Theorem t1_ps_to_midi_shift s a o m da do :
  T1_music.pitch_spelling_to_midi_pitch s (Some a) o = Some m ->
  T1_music.pitch_spelling_to_midi_pitch s (Some (a + da)) (o + do) = Some (m + da + 12 * do).
Proof.
  t1_rw T1_music.pitch_spelling_to_midi_pitch_is_translated T1_music.pitch_spelling_to_midi_pitch t1_pitch_spelling_to_midi_pitch_eq. unfold spec_pitch_spelling_to_midi_pitch, alter_or_0, C12.ps_to_midi.
  destruct (C12.base_pc s); t1_cbn; [|discriminate]. intros H. injection H as <-. f_equal. lia.
Qed.

Lemma t1_dummy_ok : C12.dummy_ok T1_music.DUMMY_PS_BASE_CLASS = true.
Proof. vm_compute. reflexivity. Qed.

(* MIDI pitch -> spelling -> MIDI pitch is the identity for EVERY integer *)
Theorem t1_midi_ps_roundtrip (m : Z) :
  exists s a o, T1_music.midi_pitch_to_pitch_spelling m = Some (s, a, o) /\ In s C12.steps7 /\
                T1_music.pitch_spelling_to_midi_pitch s (Some a) o = Some m.
Proof.
  destruct (Proofs.C12_model.midi_ps_roundtrip_any _ t1_dummy_ok m) as [s [a [o [H1 [H2 H3]]]]].
  exists s, a, o. t1_rw T1_music.midi_pitch_to_pitch_spelling_is_translated T1_music.midi_pitch_to_pitch_spelling t1_midi_pitch_to_pitch_spelling_eq; rewrite (spec_midi_is_model _ m t1_dummy_ok); t1_rw T1_music.pitch_spelling_to_midi_pitch_is_translated T1_music.pitch_spelling_to_midi_pitch t1_pitch_spelling_to_midi_pitch_eq.
  auto.
Qed.

(* the pitch class of a spelling is its MIDI pitch modulo twelve, whatever the octave *)
Theorem t1_step2pc_is_pitch_class s a o m : In s C12.steps7 ->
  T1_music.pitch_spelling_to_midi_pitch s (Some a) o = Some m -> T1_music.step2pc s a = Some (m mod 12).
Proof.
  intros Hs. t1_rw T1_music.pitch_spelling_to_midi_pitch_is_translated T1_music.pitch_spelling_to_midi_pitch t1_pitch_spelling_to_midi_pitch_eq; t1_rw T1_music.step2pc_is_translated T1_music.step2pc t1_step2pc_eq. unfold spec_step2pc, spec_pitch_spelling_to_midi_pitch, alter_or_0.
  assert (E : py_in_strs s C12.steps7 = true).
  { cbn [In C12.steps7] in Hs. repeat (destruct Hs as [<-|Hs]; [reflexivity|]). contradiction. }
  rewrite E. apply Proofs.C12_model.step2pc_spec.
Qed.


(* keys: printing then reading, all fifths -7..7, both modes; everything else is rejected *)
Theorem t1_key_name_rejects f m : ~ (-7 <= f <= 7) -> T1_music.fifths_mode_to_key_name f m = None.
Proof.
  intros H. t1_rw T1_music.fifths_mode_to_key_name_is_translated T1_music.fifths_mode_to_key_name t1_fifths_mode_to_key_name_eq. unfold spec_fifths_mode_to_key_name, C12.key_name.
  destruct (mode_of_pyval m); [|reflexivity]. replace ((-7 <=? f) && (f <=? 7)) with false by lia. reflexivity.
Qed.

Lemma key_name_In f md n : C12.key_name f md = Some n -> In n (C12.major_keys ++ C12.minor_keys).
Proof.
  unfold C12.key_name. destruct ((-7 <=? f) && (f <=? 7)); [|discriminate]. intros H. apply nth_error_In in H.
  apply in_or_app. destruct md; auto.
Qed.

Theorem t1_key_roundtrip f md : -7 <= f <= 7 ->
  exists n, T1_music.fifths_mode_to_key_name f (pyval_of_mode md) = Some n /\
            T1_music.key_name_to_fifths_mode n = Some (f, C12.mode_string md).
Proof.
  intros Hf.
  assert (Hin : In f (zrange (-7) 15)) by (apply zrange_In; change (Z.of_nat 15) with 15; lia).
  assert (K : forallb (fun f => forallb (fun md =>
      match C12.key_name f md with
      | Some n => match C12.key_parse n with
                  | Some (f', md') => Z.eqb f f' && String.eqb (C12.mode_string md) (C12.mode_string md')
                  | None => false end
      | None => false end) [C12.Major; C12.Minor]) (zrange (-7) 15) = true) by (vm_compute; reflexivity).
  pose proof (forallb_In _ _ K f Hin) as K1. cbv beta in K1.
  assert (Hm : In md [C12.Major; C12.Minor]) by (destruct md; cbn; tauto).
  pose proof (forallb_In _ _ K1 md Hm) as K2. cbv beta in K2.
  destruct (C12.key_name f md) as [n|] eqn:Kn; [|discriminate].
  exists n. split.
  - t1_rw T1_music.fifths_mode_to_key_name_is_translated T1_music.fifths_mode_to_key_name t1_fifths_mode_to_key_name_eq. unfold spec_fifths_mode_to_key_name. destruct md; exact Kn.
  - rewrite (t1_key_name_to_fifths_mode_eq n (key_name_In _ _ _ Kn)). unfold spec_key_name_to_fifths_mode.
    destruct (C12.key_parse n) as [[f' md']|]; [|discriminate].
    apply andb_true_iff in K2 as [E1 E2]. apply Z.eqb_eq in E1. apply String.eqb_eq in E2. subst f'. rewrite E2. reflexivity.
Qed.

(* mode and clef codes decode to what was encoded, for every argument *)
Theorem t1_mode_roundtrip m c : T1_music.key_mode_to_int m = Some c ->
  T1_music.key_int_to_mode (PyInt c) = T1_music.key_int_to_mode m /\ T1_music.key_int_to_mode m <> None.
Proof.
  t1_rw T1_music.key_mode_to_int_is_translated T1_music.key_mode_to_int t1_key_mode_to_int_eq; t1_rw T1_music.key_int_to_mode_is_translated T1_music.key_int_to_mode t1_key_int_to_mode_eq. unfold spec_key_mode_to_int, spec_key_int_to_mode.
  destruct (mode_of_pyval m) as [[|]|]; cbn; intros H; try discriminate; injection H as <-; split; (reflexivity || discriminate).
Qed.

Theorem t1_clef_roundtrip s c : T1_music.clef_sign_to_int s = Some c -> T1_music.clef_int_to_sign c = Some s.
Proof.
  t1_rw T1_music.clef_sign_to_int_is_translated T1_music.clef_sign_to_int t1_clef_sign_to_int_eq; t1_rw T1_music.clef_int_to_sign_is_translated T1_music.clef_int_to_sign t1_clef_int_to_sign_eq. unfold spec_clef_sign_to_int, spec_clef_int_to_sign, clef_codes.
  cbn [slookup map fst snd zlookup]. str_lit_left s.
  repeat match goal with |- context [String.eqb ?l s] => case_str_lit l s; [intros H; injection H as <-; reflexivity|] end.
  discriminate.
Qed.

(* Note.midi_pitch is the same arithmetic (alter None = unaltered) *)
Theorem t1_note_midi_pitch s a o : T1_music.Note_midi_pitch (mk_note s a o) = C12.ps_to_midi s (alter_or_0 a) o.
Proof. t1_rw T1_music.Note_midi_pitch_is_translated T1_music.Note_midi_pitch t1_Note_midi_pitch_eq. reflexivity. Qed.

(* printed names are read back by the model's reader: every octave >= 0, alterations -3..3 *)
Theorem t1_note_name_roundtrip s a o n : In s C12.steps7 -> -3 <= a <= 3 -> 0 <= o ->
  T1_music.pitch_spelling_to_note_name s a o = Some n -> C12.parse_name n = Some (s, a, o).
Proof.
  intros Hs Ha Ho. rewrite (t1_pitch_spelling_to_note_name_eq s a o Ha). unfold spec_pitch_spelling_to_note_name.
  assert (U : py_upper s = s).
  { cbn [In C12.steps7] in Hs. repeat (destruct Hs as [<-|Hs]; [reflexivity|]). contradiction. }
  rewrite U. intros H. injection H as <-. apply Proofs.C12_model.name_roundtrip_lemma; assumption.
Qed.

(* the odd part: find_smallest_unit returns u with divs = u * 2^k, u odd; it terminates for divs <> 0 *)
Theorem t1_find_smallest_unit_odd_part fuel divs u : T1_music.find_smallest_unit fuel divs = Some u ->
  u mod 2 = 1 /\ exists k, 0 <= k /\ divs = u * 2 ^ k.
Proof.
  t1_rw T1_music.find_smallest_unit_is_translated T1_music.find_smallest_unit t1_find_smallest_unit_eq. revert divs. induction fuel as [|fu IH]; intros divs; cbn [spec_find_smallest_unit]; [discriminate|].
  destruct (divs mod 2 =? 0) eqn:E.
  - intros H. destruct (IH _ H) as [O [k [Hk Hd]]]. split; [exact O|]. exists (k + 1). split; [lia|].
    rewrite Z.pow_add_r by lia. change (2 ^ 1) with 2. pose proof (Z.div_mod divs 2 ltac:(lia)). lia.
  - intros H. injection H as <-. split; [pose proof (Z.mod_pos_bound divs 2); lia|]. exists 0. split; [lia|]. cbn. lia.
Qed.
