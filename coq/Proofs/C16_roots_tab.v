(* C16 -- T2 for the local-key arithmetic: the graph of the REAL process_local_key on its whole finite domain
   (Gen/C16_Roots.v, tabulated in a fresh interpreter on every run) coincides with the model plk, and the
   module-level degree tables read from the fresh interpreter are the model's tables. *)
From PV Require Import Lib.Base Model.C16 Model.C16_Roots Proofs.C16_tab Gen.C16_RootsTab.
#[local] Open Scope Z_scope.

Lemma tab_plk_ok : plktab_ok tab_plk = true.
Proof. vm_cast_no_check (eq_refl true). Qed.

Lemma name_eqb_eq x y : name_eqb x y = true -> x = y.
Proof.
  destruct x as [[i a] l], y as [[i' a'] l']. cbn. intros H.
  apply andb_true_iff in H as [H H3]. apply andb_true_iff in H as [H1 H2].
  apply Z.eqb_eq in H1. apply Z.eqb_eq in H2. apply Bool.eqb_prop in H3. congruence.
Qed.

Lemma res_eqb_eq x y : res_eqb x y = true -> x = y.
Proof.
  destruct x, y; cbn; try discriminate; try reflexivity.
  - intros H. apply name_eqb_eq in H. congruence.
  - intros H. apply andb_true_iff in H as [H1 H2]. apply Z.eqb_eq in H1. apply Z.eqb_eq in H2. congruence.
Qed.

Lemma plkkey_eqb_eq x y : plkkey_eqb x y = true -> x = y.
Proof.
  destruct x as [[[[[[n l] c] i] a] m] r], y as [[[[[[n' l'] c'] i'] a'] m'] r']. cbn. intros H.
  repeat match goal with
  | E : _ && _ = true |- _ => apply andb_true_iff in E; destruct E
  | E : (_ =? _) = true |- _ => apply Z.eqb_eq in E
  | E : Bool.eqb _ _ = true |- _ => apply Bool.eqb_prop in E
  end; congruence.
Qed.

Lemma bool_In (b : bool) : In b [false; true].
Proof. destruct b; cbn; tauto. Qed.

Lemma dom_plk_In n lower acc ki ka kmin rsa :
  1 <= n <= 7 -> -2 <= acc <= 2 -> 0 <= ki <= 6 -> -2 <= ka <= 2 -> In (n, lower, acc, ki, ka, kmin, rsa) dom_plk.
Proof.
  intros Hn Hc Hi Ha. unfold dom_plk.
  apply in_flat_map. exists n. split; [apply zrange_In; simpl; lia|].
  apply in_flat_map. exists lower. split; [apply bool_In|].
  apply in_flat_map. exists acc. split; [apply zrange_In; simpl; lia|].
  apply in_flat_map. exists ki. split; [apply zrange_In; simpl; lia|].
  apply in_flat_map. exists ka. split; [apply zrange_In; simpl; lia|].
  apply in_flat_map. exists kmin. split; [apply bool_In|].
  apply in_map_iff. exists rsa. split; [reflexivity | apply bool_In].
Qed.

Lemma impl_local_key_domain_lemma n lower acc ki ka kmin rsa :
  1 <= n <= 7 -> -2 <= acc <= 2 -> 0 <= ki <= 6 -> -2 <= ka <= 2 ->
  In (n, lower, acc, ki, ka, kmin, rsa, plk init_tables (deg_of n lower acc) (ki, ka, kmin) rsa) tab_plk.
Proof.
  intros Hn Hc Hi Ha. pose proof tab_plk_ok as T. unfold plktab_ok in T. apply andb_true_iff in T as [K R].
  apply (list_eqb_eq plkkey_eqb plkkey_eqb_eq) in K.
  destruct (keys_In _ _ _ _ K (dom_plk_In n lower acc ki ka kmin rsa Hn Hc Hi Ha)) as [[[[[[[[n' l'] c'] i'] a'] m'] r'] out] [Hin Hk]].
  injection Hk as -> -> -> -> -> -> ->.
  pose proof (forallb_In _ _ R _ Hin) as E. unfold plk_row_ok in E. apply res_eqb_eq in E. subst out. exact Hin.
Qed.

Lemma impl_local_key_rows_lemma n lower acc ki ka kmin rsa out :
  In (n, lower, acc, ki, ka, kmin, rsa, out) tab_plk -> out = plk init_tables (deg_of n lower acc) (ki, ka, kmin) rsa.
Proof.
  intros Hin. pose proof tab_plk_ok as T. unfold plktab_ok in T. apply andb_true_iff in T as [_ R].
  pose proof (forallb_In _ _ R _ Hin) as E. unfold plk_row_ok in E. apply res_eqb_eq in E. exact E.
Qed.

Lemma tabrow_eqb_eq x y : tabrow_eqb x y = true -> x = y.
Proof.
  destruct x as [k v], y as [k' v']. unfold tabrow_eqb, ival_eqb. cbn [fst snd]. intros H.
  apply andb_true_iff in H as [H1 H2]. apply Z.eqb_eq in H1. apply zz_eqb_eq in H2. congruence.
Qed.

Lemma refl_tables_ok :
  tables_eqb refl_maj r2i_maj && tables_eqb refl_min r2i_min && tables_eqb refl_lkmaj lk_maj && tables_eqb refl_lkmin lk_min = true.
Proof. vm_compute. reflexivity. Qed.

Lemma impl_degree_tables_lemma :
  mk_tabs refl_maj refl_min refl_lkmaj refl_lkmin = init_tables.
Proof.
  pose proof refl_tables_ok as T. unfold tables_eqb in T.
  apply andb_true_iff in T as [T T4]. apply andb_true_iff in T as [T T3]. apply andb_true_iff in T as [T1 T2].
  apply (list_eqb_eq tabrow_eqb tabrow_eqb_eq) in T1, T2, T3, T4. unfold init_tables. congruence.
Qed.
