(* C03 -- proofs, part 2: (1) the model's stream always passes the DECIDING measure checker
   spec_measure_b that the correspondence evaluates on the written files; (2) after the voice
   re-assignment (remove_voice_polyphony) every voice is sequential. *)
From PV Require Import Lib.Base Model.C03 Proofs.C03.
From Coq Require Import Permutation.
#[local] Open Scope Z_scope.

(* ------------------------------------------------------------------ (1) multiset check *)

Lemma count_p_perm x l l' : Permutation l l' -> count_p x l = count_p x l'.
Proof.
  unfold count_p. induction 1; simpl.
  - reflexivity.
  - destruct (placed_eqb x x0); simpl; congruence.
  - destruct (placed_eqb x y), (placed_eqb x x0); reflexivity.
  - congruence.
Qed.

Lemma mset_eqb_perm l l' : Permutation l l' -> mset_eqb l l' = true.
Proof.
  intros P. unfold mset_eqb. apply forallb_forall. intros x _.
  apply Nat.eqb_eq. apply count_p_perm. exact P.
Qed.

Lemma lin_measure_meets_spec_lemma : forall segs ms me,
  segs_ok segs -> ms <= me ->
  Forall (fun seg => notes_le me (fst seg) /\ others_le me (snd seg)) segs ->
  spec_measure_b (segs, ms, me, lin_measure segs ms me) = true.
Proof.
  intros segs ms me Hok Hle Hin. unfold spec_measure_b.
  pose proof (measure_extent_lemma segs ms me Hok Hle Hin) as HE.
  destruct (interp_linearize_lemma segs ms me Hok) as (pl & s' & H1 & H2 & _).
  rewrite H1 in *. simpl in HE.
  apply andb_true_iff. split.
  - apply mset_eqb_perm. exact H2.
  - apply Z.eqb_eq. exact HE.
Qed.

(* ------------------------------------------------------------------ (2) sequential voices *)

(* the condition sequential_b tests for an ordered pair *)
Definition seq_pair (a b : note) : bool :=
  (if negb (grace a) && negb (grace b) && (onset a =? onset b) then dur a =? dur b else true) &&
  (if onset a <? onset b then onset a + dur a <=? onset b else true).

Lemma sequential_b_intro l :
  (forall a b, In a l -> In b l -> seq_pair a b = true) -> sequential_b l = true.
Proof.
  intros H. unfold sequential_b. apply forallb_forall. intros a Ha.
  apply forallb_forall. intros b Hb. apply (H a b Ha Hb).
Qed.

(* --- min_dur / next_onset *)

Definition md_step (o : Z) (acc : option Z) (n : note) : option Z :=
  if negb (grace n) && (onset n =? o)
  then match acc with None => Some (dur n) | Some d => Some (Z.min d (dur n)) end
  else acc.

Lemma min_dur_fold o : forall l acc,
  (exists d0, acc = Some d0) \/ (exists n, In n l /\ grace n = false /\ onset n = o) ->
  exists d, fold_left (md_step o) l acc = Some d /\
            (forall d0, acc = Some d0 -> d <= d0) /\
            (forall n, In n l -> grace n = false -> onset n = o -> d <= dur n) /\
            ((exists d0, acc = Some d0 /\ d = d0) \/ (exists n, In n l /\ dur n = d)).
Proof.
  induction l as [|x r IH]; intros acc H; simpl.
  - destruct H as [[d0 ->]|(n & [] & _)].
    exists d0. split; [reflexivity|]. split; [intros d1 E; inversion E; lia|].
    split; [intros n []|]. left. exists d0. split; reflexivity.
  - unfold md_step at 2.
    destruct (negb (grace x) && (onset x =? o)) eqn:E.
    + apply andb_true_iff in E as [Eg Eo]. apply negb_true_iff in Eg. apply Z.eqb_eq in Eo.
      destruct acc as [d0|].
      * destruct (IH (Some (Z.min d0 (dur x)))) as (d & F & A & B & C); [left; eexists; reflexivity|].
        exists d. split; [exact F|]. specialize (A _ eq_refl).
        split; [intros d1 E1; inversion E1; subst; lia|].
        split.
        -- intros n [->|Hn] Hg Ho; [lia | apply B; assumption].
        -- destruct C as [(d1 & E1 & ->)|(n & Hn & Hd)].
           ++ inversion E1; subst. destruct (Z.min_spec d0 (dur x)) as [[_ ->]|[_ ->]].
              ** left. exists d0. split; reflexivity.
              ** right. exists x. split; [left; reflexivity|reflexivity].
           ++ right. exists n. split; [right; assumption|assumption].
      * destruct (IH (Some (dur x))) as (d & F & A & B & C); [left; eexists; reflexivity|].
        exists d. split; [exact F|]. specialize (A _ eq_refl).
        split; [intros d1 E1; discriminate|].
        split.
        -- intros n [->|Hn] Hg Ho; [lia | apply B; assumption].
        -- right. destruct C as [(d1 & E1 & ->)|(n & Hn & Hd)].
           ++ inversion E1; subst. exists x. split; [left; reflexivity|reflexivity].
           ++ exists n. split; [right; assumption|assumption].
    + assert (Hx : forall n, n = x -> grace n = false -> onset n = o -> False).
      { intros n -> Hg Ho. rewrite Hg, Ho, Z.eqb_refl in E. discriminate. }
      destruct (IH acc) as (d & F & A & B & C).
      { destruct H as [H|(n & [->|Hn] & Hg & Ho)]; [left; exact H| |].
        - exfalso. eapply Hx; eauto.
        - right. exists n. repeat split; assumption. }
      exists d. split; [exact F|]. split; [exact A|]. split.
      * intros n [->|Hn] Hg Ho; [exfalso; eapply Hx; eauto | apply B; assumption].
      * destruct C as [C|(n & Hn & Hd)]; [left; exact C|].
        right. exists n. split; [right; assumption|assumption].
Qed.

Lemma min_dur_unfold o l : min_dur o l = fold_left (md_step o) l None.
Proof. reflexivity. Qed.

Lemma min_dur_spec o l :
  (exists n, In n l /\ grace n = false /\ onset n = o) ->
  exists d, min_dur o l = Some d /\
            (forall n, In n l -> grace n = false -> onset n = o -> d <= dur n) /\
            (exists n, In n l /\ dur n = d).
Proof.
  intros H. rewrite min_dur_unfold.
  destruct (min_dur_fold o l None) as (d & F & _ & B & C); [right; exact H|].
  exists d. split; [exact F|]. split; [exact B|].
  destruct C as [(d0 & E & _)|C]; [discriminate|exact C].
Qed.

Definition no_step (o : Z) (acc : option Z) (n : note) : option Z :=
  if onset n >? o
  then match acc with None => Some (onset n) | Some d => Some (Z.min d (onset n)) end
  else acc.

Lemma next_onset_fold o : forall l acc,
  match fold_left (no_step o) l acc with
  | Some o2 => (forall d0, acc = Some d0 -> o2 <= d0) /\
               (forall b, In b l -> onset b > o -> o2 <= onset b) /\
               ((exists d0, acc = Some d0 /\ o2 = d0) \/ o2 > o)
  | None => acc = None /\ forall b, In b l -> ~ onset b > o
  end.
Proof.
  induction l as [|x r IH]; intros acc; simpl.
  - destruct acc as [d0|].
    + split; [intros d1 E; inversion E; lia|]. split; [intros b []|].
      left. exists d0. split; reflexivity.
    + split; [reflexivity|intros b []].
  - unfold no_step at 2. destruct (onset x >? o) eqn:E.
    + assert (Hx : onset x > o) by lia.
      set (acc' := match acc with None => Some (onset x) | Some d => Some (Z.min d (onset x)) end).
      specialize (IH acc').
      destruct (fold_left (no_step o) r acc') as [o2|].
      * destruct IH as (A & B & C).
        split; [|split].
        -- intros d0 ->. unfold acc' in A. specialize (A _ eq_refl). lia.
        -- intros b [->|Hb] Hgt; [|apply B; assumption].
           unfold acc' in A. destruct acc as [d0|]; specialize (A _ eq_refl); lia.
        -- destruct C as [(d1 & E1 & ->)|C]; [|right; exact C].
           unfold acc' in E1. destruct acc as [d0|]; inversion E1; subst.
           ++ destruct (Z.min_spec d0 (onset x)) as [[_ ->]|[_ ->]].
              ** left. exists d0. split; reflexivity.
              ** right. lia.
           ++ right. lia.
      * destruct IH as [IH _]. unfold acc' in IH. destruct acc; discriminate.
    + specialize (IH acc).
      destruct (fold_left (no_step o) r acc) as [o2|].
      * destruct IH as (A & B & C). split; [exact A|]. split; [|exact C].
        intros b [->|Hb] Hgt; [lia|apply B; assumption].
      * destruct IH as [IH1 IH2]. split; [exact IH1|].
        intros b [->|Hb]; [lia|apply IH2; assumption].
Qed.

Lemma next_onset_unfold o l : next_onset o l = fold_left (no_step o) l None.
Proof. reflexivity. Qed.

Lemma next_onset_le o l b :
  In b l -> onset b > o -> exists o2, next_onset o l = Some o2 /\ o2 <= onset b.
Proof.
  intros Hb Hgt. rewrite next_onset_unfold.
  pose proof (next_onset_fold o l None) as H.
  destruct (fold_left (no_step o) l None) as [o2|].
  - destruct H as (_ & B & _). exists o2. split; [reflexivity|apply B; assumption].
  - destruct H as [_ H]. exfalso. apply (H b Hb Hgt).
Qed.

Lemma next_onset_gt o l o2 : next_onset o l = Some o2 -> o2 > o.
Proof.
  rewrite next_onset_unfold. intros E.
  pose proof (next_onset_fold o l None) as H. rewrite E in H.
  destruct H as (_ & _ & [(d0 & E0 & _)|H]); [discriminate|exact H].
Qed.

(* --- the notes that stay in their voice *)

Lemma kept_sequential notes :
  let kept1 := filter (fun n => negb (viol1 notes n)) notes in
  sequential_b (filter (fun n => negb (viol2 kept1 n)) kept1) = true.
Proof.
  intros kept1. apply sequential_b_intro. intros a b Ha Hb.
  apply filter_In in Ha as [Ha1 Ha2]. apply filter_In in Hb as [Hb1 Hb2].
  apply negb_true_iff in Ha2, Hb2.
  pose proof Ha1 as Ha0. pose proof Hb1 as Hb0.
  unfold kept1 in Ha0, Hb0.
  apply filter_In in Ha0 as [Ha3 Ha4]. apply filter_In in Hb0 as [Hb3 Hb4].
  apply negb_true_iff in Ha4, Hb4.
  unfold seq_pair. apply andb_true_iff. split.
  - destruct (negb (grace a) && negb (grace b) && (onset a =? onset b)) eqn:E; [|reflexivity].
    apply andb_true_iff in E as [E Eo]. apply andb_true_iff in E as [Ega Egb].
    apply negb_true_iff in Ega, Egb. apply Z.eqb_eq in Eo.
    destruct (min_dur_spec (onset a) notes) as (d & Hd & Hmin & _).
    { exists a. repeat split; assumption. }
    unfold viol1 in Ha4, Hb4. rewrite Ega in Ha4. rewrite Egb in Hb4. simpl in Ha4, Hb4.
    rewrite <- Eo in Hb4. rewrite Hd in Ha4, Hb4.
    pose proof (Hmin a Ha3 Ega eq_refl). pose proof (Hmin b Hb3 Egb (eq_sym Eo)).
    apply Z.eqb_eq. lia.
  - destruct (onset a <? onset b) eqn:E; [|reflexivity].
    destruct (next_onset_le (onset a) kept1 b Hb1) as (o2 & Ho2 & Hle); [lia|].
    unfold viol2 in Ha2. rewrite Ho2 in Ha2. lia.
Qed.

(* --- the notes that are moved: positive duration *)

Lemma viol1_pos notes n :
  durs_ok notes -> In n notes -> viol1 notes n = true -> 0 < dur n.
Proof.
  intros Hd Hn Hv. unfold viol1 in Hv. apply andb_true_iff in Hv as [Hg Hv].
  apply negb_true_iff in Hg.
  destruct (min_dur_spec (onset n) notes) as (d & Hmd & _ & (m & Hm & Hdm)).
  { exists n. repeat split; assumption. }
  rewrite Hmd in Hv. unfold durs_ok in Hd. rewrite Forall_forall in Hd.
  specialize (Hd m Hm). lia.
Qed.

Lemma viol2_pos l n : viol2 l n = true -> 0 < dur n.
Proof.
  unfold viol2. destruct (next_onset (onset n) l) as [o2|] eqn:E; [|discriminate].
  intros H. apply next_onset_gt in E. lia.
Qed.

(* --- find_free *)

Definition ff_step (s e : Z) (acc : Z) (sp : span) : Z :=
  match sp with (vs, ve, v) => if (e >? vs) && (s <? ve) then Z.max acc (v + 1) else acc end.

Lemma ff_fold s e : forall spans acc,
  acc <= fold_left (ff_step s e) spans acc /\
  forall vs ve v, In (vs, ve, v) spans -> (e >? vs) && (s <? ve) = true ->
                  v + 1 <= fold_left (ff_step s e) spans acc.
Proof.
  induction spans as [|[[vs0 ve0] v0] r IH]; intros acc; simpl.
  - split; [lia|intros ? ? ? []].
  - destruct ((e >? vs0) && (s <? ve0)) eqn:E.
    + destruct (IH (Z.max acc (v0 + 1))) as [A B]. split; [lia|].
      intros vs ve v [H|H] Ho; [inversion H; subst; lia|eapply B; eassumption].
    + destruct (IH acc) as [A B]. split; [exact A|].
      intros vs ve v [H|H] Ho; [inversion H; subst; congruence|eapply B; eassumption].
Qed.

Lemma find_free_unfold vmax spans s e :
  find_free vmax spans s e = fold_left (ff_step s e) spans (vmax + 1).
Proof. reflexivity. Qed.

Lemma find_free_above vmax spans s e vs ve v :
  In (vs, ve, v) spans -> (e >? vs) && (s <? ve) = true -> v < find_free vmax spans s e.
Proof.
  intros Hin Ho. rewrite find_free_unfold.
  destruct (ff_fold s e spans (vmax + 1)) as [_ B]. specialize (B vs ve v Hin Ho). lia.
Qed.

(* --- the invariant of the re-assignment state *)

Definition disj (a b : note) : Prop := nend a <= onset b \/ nend b <= onset a.

Fixpoint pw (l : list note) : Prop :=
  match l with [] => True | x :: r => Forall (disj x) r /\ pw r end.

Lemma pw_snoc l n : pw l -> Forall (fun x => disj x n) l -> pw (l ++ [n]).
Proof.
  induction l as [|x r IH]; intros Hp Hf; simpl.
  - split; [constructor|exact I].
  - destruct Hp as [Hx Hr]. inversion Hf as [|y z Hxn Hrn]; subst y z.
    split; [apply Forall_app; split; [exact Hx|constructor; [exact Hxn|constructor]]|].
    apply IH; assumption.
Qed.

Lemma pw_in l : pw l -> forall a b, In a l -> In b l -> a = b \/ disj a b.
Proof.
  induction l as [|x r IH]; intros Hp a b Ha Hb; [destruct Ha|].
  destruct Hp as [Hx Hr]. rewrite Forall_forall in Hx.
  destruct Ha as [->|Ha], Hb as [->|Hb].
  - left; reflexivity.
  - right. apply Hx; assumption.
  - right. specialize (Hx a Ha). unfold disj in *. tauto.
  - apply IH; assumption.
Qed.

Definition Inv (st : rstate) : Prop :=
  (forall v l n, In (v, l) (snd st) -> In n l -> In (onset n, nend n, v) (fst st) /\ 0 < dur n) /\
  (forall v l, In (v, l) (snd st) -> pw l).

Lemma in_vadd v n : forall m v' l',
  In (v', l') (vadd v n m) ->
  In (v', l') m \/ (v' = v /\ (l' = [n] \/ exists l0, In (v, l0) m /\ l' = l0 ++ [n])).
Proof.
  induction m as [|[v0 l0] r IH]; intros v' l' H; simpl in H.
  - destruct H as [H|[]]. inversion H; subst. right. split; [reflexivity|left; reflexivity].
  - destruct (v =? v0) eqn:E.
    + apply Z.eqb_eq in E. subst v0. destruct H as [H|H].
      * inversion H; subst. right. split; [reflexivity|]. right. exists l0. split; [left; reflexivity|reflexivity].
      * left. right. exact H.
    + destruct H as [H|H].
      * left. left. exact H.
      * destruct (IH _ _ H) as [H1|(-> & [->|(l1 & H1 & ->)])].
        -- left. right. exact H1.
        -- right. split; [reflexivity|left; reflexivity].
        -- right. split; [reflexivity|]. right. exists l1. split; [right; exact H1|reflexivity].
Qed.

Lemma move_step_inv vmax spans extr n :
  Inv (spans, extr) -> 0 < dur n ->
  let v := find_free vmax spans (onset n) (nend n) in
  Inv (spans ++ [(onset n, nend n, v)], vadd v n extr).
Proof.
  intros [I1 I2] Hpos v. simpl in I1, I2. split; simpl.
  - intros v' l' x Hin Hx.
    destruct (in_vadd _ _ _ _ _ Hin) as [H|(-> & [->|(l0 & H0 & ->)])].
    + destruct (I1 _ _ _ H Hx) as [A B]. split; [apply in_or_app; left; exact A|exact B].
    + destruct Hx as [<-|[]]. split; [apply in_or_app; right; left; reflexivity|exact Hpos].
    + apply in_app_or in Hx as [Hx|[<-|[]]].
      * destruct (I1 _ _ _ H0 Hx) as [A B]. split; [apply in_or_app; left; exact A|exact B].
      * split; [apply in_or_app; right; left; reflexivity|exact Hpos].
  - intros v' l' Hin.
    destruct (in_vadd _ _ _ _ _ Hin) as [H|(-> & [->|(l0 & H0 & ->)])].
    + eapply I2; eassumption.
    + simpl. split; [constructor|exact I].
    + apply pw_snoc; [eapply I2; eassumption|].
      apply Forall_forall. intros x Hx.
      destruct (I1 _ _ _ H0 Hx) as [A B].
      destruct ((nend n >? onset x) && (onset n <? nend x)) eqn:E.
      * pose proof (find_free_above vmax spans (onset n) (nend n) _ _ _ A E) as Hlt.
        fold v in Hlt. lia.
      * unfold disj. apply andb_false_iff in E. destruct E as [E|E]; lia.
Qed.

Lemma move_all_inv vmax : forall cands st,
  Inv st -> Forall (fun n => 0 < dur n) cands -> Inv (move_all vmax cands st).
Proof.
  unfold move_all. induction cands as [|n r IH]; intros [spans extr] HI Hc; simpl; [exact HI|].
  inversion Hc as [|x y Hn Hr]; subst x y.
  apply IH; [|exact Hr]. apply move_step_inv; assumption.
Qed.

Lemma rvp_single_inv vmax notes st :
  durs_ok notes -> Inv st -> Inv (snd (rvp_single vmax notes st)).
Proof.
  intros Hd HI. unfold rvp_single. simpl.
  apply move_all_inv; [apply move_all_inv; [exact HI|]|].
  - eapply Permutation_Forall; [apply Permutation_sym, sort_onset_perm|].
    apply Forall_forall. intros n Hn. apply filter_In in Hn as [Hn Hv].
    eapply viol1_pos; eassumption.
  - eapply Permutation_Forall; [apply Permutation_sym, sort_onset_perm|].
    apply Forall_forall. intros n Hn. apply filter_In in Hn as [Hn Hv].
    eapply viol2_pos; eassumption.
Qed.

Lemma rvp_single_kept vmax notes st :
  sequential_b (fst (rvp_single vmax notes st)) = true.
Proof. unfold rvp_single. simpl. apply kept_sequential. Qed.

Lemma rvp_loop_seq vmax : forall byv st,
  Forall (fun vl => durs_ok (snd vl)) byv -> Inv st ->
  Forall (fun vl => sequential_b (snd vl) = true) (fst (rvp_loop vmax byv st)) /\
  Inv (snd (rvp_loop vmax byv st)).
Proof.
  induction byv as [|[v l] r IH]; intros st Hd HI; [simpl; split; [constructor|exact HI]|].
  inversion Hd as [|x y Hd1 Hd2]; subst x y. simpl in Hd1.
  cbn [rvp_loop].
  pose proof (rvp_single_inv vmax l st Hd1 HI) as H1.
  pose proof (rvp_single_kept vmax l st) as H2.
  destruct (rvp_single vmax l st) as [kept st1]. cbn [fst snd] in H1, H2.
  destruct (IH st1 Hd2 H1) as [A B].
  destruct (rvp_loop vmax r st1) as [r' st2]. cbn [fst snd] in *.
  split; [constructor; [exact H2|exact A]|exact B].
Qed.

Lemma inv_sequential st : Inv st -> Forall (fun vl => sequential_b (snd vl) = true) (snd st).
Proof.
  intros [I1 I2]. apply Forall_forall. intros [v l] Hin. simpl.
  apply sequential_b_intro. intros a b Ha Hb.
  destruct (I1 v l a Hin Ha) as [_ Pa]. destruct (I1 v l b Hin Hb) as [_ Pb].
  unfold seq_pair.
  destruct (pw_in l (I2 v l Hin) a b Ha Hb) as [->|D].
  - rewrite Z.ltb_irrefl, !Z.eqb_refl. destruct (negb (grace b) && negb (grace b) && true); reflexivity.
  - unfold disj, nend in D. apply andb_true_iff. split.
    + destruct (negb (grace a) && negb (grace b) && (onset a =? onset b)) eqn:E; [|reflexivity].
      apply andb_true_iff in E as [_ E]. apply Z.eqb_eq in E. lia.
    + destruct (onset a <? onset b) eqn:E; [|reflexivity]. lia.
Qed.

Lemma rvp_sequential_gen byv :
  Forall (fun vl => durs_ok (snd vl)) byv ->
  Forall (fun vl => sequential_b (snd vl) = true) (rvp byv).
Proof.
  intros Hd. unfold rvp.
  set (vmax := fold_left (fun a p => Z.max a (fst p)) byv 0).
  assert (H0 : Inv ([], [])) by (split; simpl; intros; contradiction).
  destruct (rvp_loop_seq vmax byv ([], []) Hd H0) as [A B].
  destruct (rvp_loop vmax byv ([], [])) as [kept st]. cbn [fst snd] in *.
  apply Forall_app. split; [exact A|apply inv_sequential; exact B].
Qed.

Lemma partition_durs_ok ns : durs_ok ns -> Forall (fun vl => durs_ok (snd vl)) (partition_voices ns).
Proof.
  intros H. apply Forall_forall. intros [v l] Hin. simpl.
  unfold durs_ok in *. apply Forall_forall. intros n Hn.
  assert (Hf : In n (flat_map snd (partition_voices ns))).
  { apply in_flat_map. exists (v, l). split; assumption. }
  eapply Permutation_in in Hf; [|apply partition_perm].
  rewrite Forall_forall in H. auto.
Qed.

(* after remove_voice_polyphony every voice is sequential: simultaneous non-grace notes have equal
   durations (a chord the reader resolves) and no note runs past a later onset of its voice *)
Lemma rvp_sequential_lemma : forall ns,
  durs_ok ns -> Forall (fun vl => sequential_b (snd vl) = true) (rvp (partition_voices ns)).
Proof. intros ns H. apply rvp_sequential_gen, partition_durs_ok, H. Qed.

Lemma voices_sequential_lemma : forall ns,
  durs_ok ns -> Forall (fun vl => sequential_b (snd vl) = true) (voices_of ns).
Proof.
  intros ns H. unfold voices_of. destruct ns as [|n r].
  - constructor; [reflexivity|constructor].
  - eapply Permutation_Forall; [apply Permutation_sym, sort_voices_perm|].
    apply rvp_sequential_lemma. exact H.
Qed.

(* the model's own stream passes the whole measure check of the correspondence (spec + tie) *)
Lemma lin_measure_passes_check_lemma : forall segs ms me,
  segs_ok segs -> ms <= me ->
  Forall (fun seg => notes_le me (fst seg) /\ others_le me (snd seg)) segs ->
  check_measure_both (segs, ms, me, lin_measure segs ms me) = true.
Proof.
  intros segs ms me Hok Hle Hin. unfold check_measure_both.
  rewrite lin_measure_meets_spec_lemma by assumption. simpl.
  apply andb_true_iff. split.
  - generalize (lin_measure segs ms me). induction l as [|e r IH]; [reflexivity|].
    simpl. rewrite IH. destruct e; simpl; rewrite ?Z.eqb_refl, ?Bool.eqb_reflx; reflexivity.
  - apply forallb_forall. intros [ns Os] Hs. simpl.
    apply forallb_forall. intros vl Hvl.
    unfold segs_ok in Hok. rewrite Forall_forall in Hok. specialize (Hok _ Hs). simpl in Hok.
    pose proof (voices_sequential_lemma ns Hok) as HF. rewrite Forall_forall in HF. apply HF, Hvl.
Qed.
