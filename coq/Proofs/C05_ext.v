(* C05 -- proofs about the extensions of the note-array model (Model/C05_Ext.v): voices modulo the
   number chosen for notes without voice, nested part groups, uniqueness of prefixed ids, contiguous
   tie chains, divisions that are a multiple of the lcm. *)
From PV Require Import Lib.Base Model.C05 Model.C05_Spec Model.C05_Ext Proofs.C05_lib Proofs.C05_ties Proofs.C05.
From Coq Require Import QArith Qabs Sorting.Sorted Permutation.
#[local] Open Scope Z_scope.

(* ---------- voices ---------- *)

Lemma zmem_In v l : zmem v l = true <-> In v l.
Proof.
  unfold zmem. rewrite existsb_exists. split.
  - intros [x [Hx E]]. apply Z.eqb_eq in E. subst. exact Hx.
  - intros H. exists v. split; [exact H | apply Z.eqb_refl].
Qed.

Lemma stated_voices_In v sel : In v (stated_voices sel) <-> exists h, In h sel /\ n_voice h = Some v.
Proof.
  unfold stated_voices. rewrite in_flat_map. split.
  - intros [h [Hh Hv]]. exists h. split; [exact Hh|].
    destruct (n_voice h) as [w|]; [destruct Hv as [->|[]]; reflexivity | destruct Hv].
  - intros [h [Hh Hv]]. exists h. split; [exact Hh|]. rewrite Hv. left. reflexivity.
Qed.

Lemma row_matches_set_voice mp divs h d r v :
  row_matches mp divs h d r -> row_matches mp divs h d (set_voice r v).
Proof. unfold row_matches. destruct r. simpl. tauto. Qed.

(* the normalised view loses nothing the property names: a stated voice is shown as it is, a note
   without voice is shown as -1, every other column is untouched *)
Lemma norm_voice_rows ns mp divs sel rows : array_of ns mp divs sel = Some rows ->
  forall r, In r rows ->
  exists h d, In h sel /\ duration_tied ns (List.length ns) h = Some d /\
    row_matches mp divs h d (norm_voice (stated_voices sel) r) /\
    (forall v, n_voice h = Some v -> v <> -1 -> r_voice (norm_voice (stated_voices sel) r) = v) /\
    (n_voice h = None -> r_voice (norm_voice (stated_voices sel) r) = -1).
Proof.
  intros A r Hr. destruct (array_of_rows ns mp divs sel rows A r Hr) as [h [d [Hh [D [M [V1 V2]]]]]].
  exists h, d. split; [exact Hh|]. split; [exact D|]. unfold norm_voice.
  destruct (zmem (r_voice r) (stated_voices sel)) eqn:Z.
  - split; [exact M|]. split; [exact V1|].
    intros Hn. apply zmem_In, stated_voices_In in Z as [h' [Hh' Hv']].
    specialize (V2 Hn h' (r_voice r) Hh' Hv'). lia.
  - split; [apply row_matches_set_voice, M|]. split.
    + intros v Hv Hne. exfalso.
      assert (In (r_voice r) (stated_voices sel)).
      { apply stated_voices_In. exists h. split; [exact Hh|]. rewrite (V1 v Hv Hne). exact Hv. }
      apply zmem_In in H. congruence.
    + intros _. destruct r; reflexivity.
Qed.

Lemma norm_voice_spec_lemma ns mp divs rows : note_array_n ns mp divs = Some rows ->
  forall r, In r rows ->
  exists h d, In h (notes_tied (sounding ns)) /\ duration_tied ns (List.length ns) h = Some d /\
    row_matches mp divs h d r /\
    (forall v, n_voice h = Some v -> v <> -1 -> r_voice r = v) /\
    (n_voice h = None -> r_voice r = -1).
Proof.
  unfold note_array_n. destruct (note_array ns mp divs) as [rows0|] eqn:A; [|discriminate].
  simpl. intros H; injection H as <-. intros r Hr.
  apply in_map_iff in Hr as [r0 [<- Hr0]].
  exact (norm_voice_rows ns mp divs _ rows0 A r0 Hr0).
Qed.

Lemma norm_voice_rest_spec_lemma ns mp divs rows : rest_array_n ns mp divs = Some rows ->
  forall r, In r rows ->
  exists h d, In h (filter n_rest ns) /\ duration_tied ns (List.length ns) h = Some d /\
    row_matches mp divs h d r /\
    (forall v, n_voice h = Some v -> v <> -1 -> r_voice r = v) /\
    (n_voice h = None -> r_voice r = -1).
Proof.
  unfold rest_array_n. destruct (rest_array ns mp divs) as [rows0|] eqn:A; [|discriminate].
  simpl. intros H; injection H as <-. intros r Hr.
  apply in_map_iff in Hr as [r0 [<- Hr0]].
  exact (norm_voice_rows ns mp divs _ rows0 A r0 Hr0).
Qed.

(* ---------- contiguous tie chains ---------- *)


Lemma tie_chain_head_eq ns n l : tie_chain ns n l -> exists t, l = n :: t.
Proof. intros H. destruct H; eexists; reflexivity. Qed.

(* a chain whose notes follow each other without a gap (ties over barlines) is one row that lasts from
   the onset of the first note to the end of the last one *)
Lemma chain_contiguous_span_lemma ns n l : tie_chain ns n l -> contiguous l ->
  sum_dur l = n_end (last l n) - n_start n.
Proof.
  induction 1 as [n Hn | n k m l Hk Hf Hc IH]; intros C.
  - simpl. unfold n_dur. lia.
  - destruct (tie_chain_head_eq _ _ _ Hc) as [t ->].
    destruct C as [E C]. specialize (IH C).
    change (sum_dur (n :: m :: t)) with (n_dur n + sum_dur (m :: t)). rewrite IH.
    change (last (n :: m :: t) n) with (last (m :: t) n).
    assert (L : forall d1 d2, last (m :: t) d1 = last (m :: t) d2).
    { clear. revert m. induction t as [|x t IHt]; intros m d1 d2; [reflexivity|].
      change (last (m :: x :: t) d1) with (last (x :: t) d1).
      change (last (m :: x :: t) d2) with (last (x :: t) d2). apply IHt. }
    rewrite (L n m). unfold n_dur. lia.
Qed.

Lemma row_duration_contiguous_lemma ns fuel n d : duration_tied ns fuel n = Some d ->
  exists l, tie_chain ns n l /\ (contiguous l -> d = n_end (last l n) - n_start n).
Proof.
  intros D. destruct (row_duration_is_chain_sum_lemma ns fuel n d D) as [l [T ->]].
  exists l. split; [exact T|]. intros C. apply chain_contiguous_span_lemma with (ns := ns); assumption.
Qed.

(* ---------- number of rows of the score array ---------- *)

Lemma prep_part_length u L i p : List.length (prep_part u L i p) = List.length p.
Proof. unfold prep_part. destruct p; [reflexivity | apply map_length]. Qed.

Lemma prep_parts_length u L : forall parts i,
  List.length (List.concat (prep_parts u L i parts)) = List.length (List.concat parts).
Proof.
  induction parts as [|p t IH]; intros i; simpl; [reflexivity|].
  rewrite !app_length, prep_part_length, IH. reflexivity.
Qed.

Lemma score_row_count_lemma uniq parts :
  List.length (score_array uniq parts) = List.length (List.concat parts).
Proof.
  unfold score_array. rewrite <- (Permutation_length (sort_rows_perm _)). apply prep_parts_length.
Qed.

(* ---------- prefixed ids are unique ---------- *)

Lemma NoDup_app_intro {A} (l1 l2 : list A) :
  NoDup l1 -> NoDup l2 -> (forall x, In x l1 -> In x l2 -> False) -> NoDup (l1 ++ l2).
Proof.
  induction l1 as [|a l1 IH]; simpl; intros H1 H2 D; [exact H2|].
  inversion H1 as [|? ? Ha H1']; subst. constructor.
  - intros Hin. apply in_app_or in Hin as [Hin|Hin]; [exact (Ha Hin) | exact (D a (or_introl eq_refl) Hin)].
  - apply IH; [exact H1' | exact H2 | intros x Hx; apply D; right; exact Hx].
Qed.

Lemma NoDup_map_inj {A B} (f : A -> B) (l : list A) :
  (forall x y, In x l -> In y l -> f x = f y -> x = y) -> NoDup l -> NoDup (map f l).
Proof.
  induction l as [|a l IH]; simpl; intros Inj H; [constructor|].
  inversion H as [|? ? Ha H']; subst. constructor.
  - intros Hin. apply in_map_iff in Hin as [y [E Hy]].
    assert (y = a) by (apply Inj; auto). subst. exact (Ha Hy).
  - apply IH; [intros x y Hx Hy; apply Inj; auto | exact H'].
Qed.

Lemma string_app_inv_l a s t : (a ++ s = a ++ t)%string -> s = t.
Proof. induction a as [|c a IH]; simpl; intros E; [exact E | injection E as E; apply IH, E]. Qed.

Lemma r_id_rescale k r : r_id (rescale k r) = r_id r.
Proof. reflexivity. Qed.

Lemma prep_part_ids L i p :
  map r_id (prep_part true L i p) = map (fun r => (part_prefix i ++ r_id r)%string) p.
Proof.
  unfold prep_part. destruct p as [|r0 t]; [reflexivity|]. rewrite map_map. reflexivity.
Qed.

Lemma prep_parts_ids_form L : forall parts i x,
  In x (map r_id (List.concat (prep_parts true L i parts))) ->
  exists k s, i <= k < i + Z.of_nat (List.length parts) /\ x = (part_prefix k ++ s)%string.
Proof.
  induction parts as [|p t IH]; intros i x H; simpl in H; [destruct H|].
  rewrite map_app in H. apply in_app_or in H as [H|H].
  - rewrite prep_part_ids in H. apply in_map_iff in H as [r [<- _]].
    exists i, (r_id r). split; [simpl List.length; lia | reflexivity].
  - destruct (IH (i + 1) x H) as [k [s [Hk ->]]]. exists k, s. split; [simpl List.length; lia | reflexivity].
Qed.

Lemma prep_parts_ids_nodup L : forall parts i, 0 <= i -> i + Z.of_nat (List.length parts) <= 100 ->
  Forall (fun p => NoDup (map r_id p)) parts ->
  NoDup (map r_id (List.concat (prep_parts true L i parts))).
Proof.
  induction parts as [|p t IH]; intros i Hi Hn U; simpl; [constructor|].
  apply Forall_cons_iff in U as [Up Ut]. rewrite map_app. apply NoDup_app_intro.
  - rewrite prep_part_ids. rewrite <- (map_map r_id (fun s => (part_prefix i ++ s)%string)).
    apply NoDup_map_inj; [|exact Up]. intros x y _ _ E. exact (string_app_inv_l _ _ _ E).
  - apply IH; [lia | simpl List.length in Hn; lia | exact Ut].
  - intros x H1 H2. rewrite prep_part_ids in H1. apply in_map_iff in H1 as [r [<- _]].
    destruct (prep_parts_ids_form L t (i + 1) _ H2) as [k [s [Hk E]]].
    simpl List.length in Hn.
    destruct (prefix_injective_lemma i k (r_id r) s ltac:(lia) ltac:(lia) E) as [E1 _]. lia.
Qed.

Lemma prep_part_noprefix_ids L i p : map r_id (prep_part false L i p) = map r_id p.
Proof.
  unfold prep_part. destruct p as [|r0 t]; [reflexivity|]. rewrite map_map. reflexivity.
Qed.

(* with unique_id_per_part the ids of the score array are pairwise different as soon as they are within
   each part (fewer than 100 parts: the two-digit format) *)
Lemma score_ids_unique_lemma parts : (List.length parts < 100)%nat ->
  Forall (fun p => NoDup (map r_id p)) parts ->
  NoDup (map r_id (score_array true parts)).
Proof.
  intros Hn U. unfold score_array.
  eapply Permutation_NoDup; [apply Permutation_map, sort_rows_perm|].
  destruct (1 <? Z.of_nat (List.length parts)) eqn:E; simpl andb.
  - apply prep_parts_ids_nodup; [lia | lia | exact U].
  - destruct parts as [|p [|q t]]; simpl; [constructor| |simpl List.length in E; lia].
    rewrite app_nil_r, prep_part_noprefix_ids. apply Forall_cons_iff in U as [Up _]. exact Up.
Qed.

(* any prefix scheme in which no prefix is the beginning of another keeps the parts apart *)

Lemma app_eq_prefix : forall a b s t, (a ++ s = b ++ t)%string -> is_prefix a b \/ is_prefix b a.
Proof.
  induction a as [|c a IH]; intros b s t E.
  - left. exists b. reflexivity.
  - destruct b as [|c' b]; [right; exists (String c a); reflexivity|].
    simpl in E. injection E as -> E. destruct (IH b s t E) as [[x ->]|[x ->]].
    + left. exists x. reflexivity.
    + right. exists x. reflexivity.
Qed.

Lemma prefix_free_ids_distinct_lemma a b s t :
  ~ is_prefix a b -> ~ is_prefix b a -> (a ++ s)%string <> (b ++ t)%string.
Proof. intros H1 H2 E. destruct (app_eq_prefix a b s t E); tauto. Qed.

(* ---------- nested part groups ---------- *)


Fixpoint ptree_induction (P : ptree -> Prop) (HL : forall rows, P (PLeaf rows))
         (HG : forall cs, Forall P cs -> P (PGroup cs)) (t : ptree) : P t :=
  match t with
  | PLeaf rows => HL rows
  | PGroup cs =>
    HG cs ((fix go (l : list ptree) : Forall P l :=
              match l with
              | [] => Forall_nil P
              | x :: r => Forall_cons x (ptree_induction P HL HG x) (go r)
              end) cs)
  end.

Lemma string_app_assoc a b c : ((a ++ b) ++ c = a ++ (b ++ c))%string.
Proof. induction a as [|x a IH]; simpl; [reflexivity | rewrite IH; reflexivity]. Qed.

Lemma score_lcm_pos parts : Forall uniform parts -> 0 < score_lcm parts.
Proof.
  intros U. unfold score_lcm. apply lcm_list_pos. apply Forall_forall. intros x Hx.
  apply in_flat_map in Hx as [q [Hq Hx]]. destruct q as [|r2 t2]; [destruct Hx|].
  destruct Hx as [<-|[]]. rewrite Forall_forall in U. destruct (U _ Hq) as [d2 [Hd2 U2]].
  rewrite Forall_forall in U2. rewrite (U2 r2 (or_introl eq_refl)). exact Hd2.
Qed.

Lemma score_array_uniform uniq parts : Forall uniform parts -> uniform (score_array uniq parts).
Proof.
  intros U. exists (score_lcm parts). split; [apply score_lcm_pos, U|].
  apply Forall_forall. intros r Hr.
  destruct (score_rows_origin_lemma uniq parts U r Hr) as [j [p [r0 [d [_ [_ [_ [_ [E _]]]]]]]]].
  exact E.
Qed.


Lemma tree_rows_lemma uniq t : Forall uniform (leaves t) ->
  uniform (tree_array uniq t) /\
  (forall r, In r (tree_array uniq t) -> exists p r0, In p (leaves t) /\ In r0 p /\ from_leaf_row uniq r r0) /\
  (forall M, Forall (fun p => forall r0, In r0 p -> (r_divs r0 | M)) (leaves t) ->
             forall r, In r (tree_array uniq t) -> (r_divs r | M)) /\
  List.length (tree_array uniq t) = List.length (List.concat (leaves t)).
Proof.
  induction t as [rows | cs IH] using ptree_induction; intros U.
  - simpl in *. apply Forall_cons_iff in U as [U _]. split; [exact U|]. split; [|split].
    + intros r Hr. exists rows, r. split; [left; reflexivity|]. split; [exact Hr|].
      destruct U as [d [Hd Ud]]. rewrite Forall_forall in Ud. specialize (Ud r Hr).
      unfold from_leaf_row. rewrite Ud.
      split; [exact Hd|]. split; [apply Z.divide_refl|].
      split; [reflexivity|]. split; [reflexivity|]. split; [reflexivity|]. split; [reflexivity|].
      exists ""%string. split; reflexivity.
    + intros M HM r Hr. apply Forall_cons_iff in HM as [HM _]. apply HM, Hr.
    + rewrite app_nil_r. reflexivity.
  - simpl tree_array. simpl leaves in *.
    assert (UC : Forall (fun c => Forall uniform (leaves c)) cs).
    { apply Forall_forall. intros c Hc. apply Forall_forall. intros p Hp.
      rewrite Forall_forall in U. apply U. apply in_flat_map. exists c. auto. }
    assert (UA : Forall uniform (map (tree_array uniq) cs)).
    { apply Forall_forall. intros a Ha. apply in_map_iff in Ha as [c [<- Hc]].
      rewrite Forall_forall in IH, UC. exact (proj1 (IH c Hc (UC c Hc))). }
    split; [apply score_array_uniform, UA|]. split; [|split].
    + intros r Hr.
      destruct (score_rows_origin_lemma uniq _ UA r Hr)
        as [j [p [r1 [d [N [H1 [D1 [Hd [RD [Dv [Q1 [Q2 [P1 [V1 I1]]]]]]]]]]]]]].
      apply nth_error_In in N. apply in_map_iff in N as [c [<- Hc]].
      rewrite Forall_forall in IH, UC.
      destruct (proj1 (proj2 (IH c Hc (UC c Hc))) r1 H1) as [lf [r0 [Hlf [H0 F]]]].
      exists lf, r0. split; [apply in_flat_map; exists c; auto|]. split; [exact H0|].
      destruct F as [F0 [F1 [F2 [F3 [F4 [F5 [pre [F6 F7]]]]]]]].
      unfold from_leaf_row. split; [exact F0|]. split.
      { rewrite RD. etransitivity; [exact F1|]. rewrite D1. exact Dv. }
      split; [rewrite Q1, <- D1; exact F2|]. split; [rewrite Q2, <- D1; exact F3|].
      split; [congruence|]. split; [congruence|].
      destruct (uniq && (1 <? Z.of_nat (List.length (map (tree_array uniq) cs)))) eqn:E.
      * exists (part_prefix (Z.of_nat j) ++ pre)%string. split.
        { rewrite I1, F6. symmetry. apply string_app_assoc. }
        intros ->. simpl in E. discriminate.
      * exists pre. split; [rewrite I1; exact F6 | exact F7].
    + intros M HM r Hr.
      destruct (score_rows_origin_lemma uniq _ UA r Hr)
        as [j [p [r1 [d [N [H1 [D1 [Hd [RD _]]]]]]]]].
      rewrite RD. unfold score_lcm. apply lcm_list_least. apply Forall_forall. intros x Hx.
      apply in_flat_map in Hx as [a [Ha Hx]]. destruct a as [|ra ta]; [destruct Hx|].
      destruct Hx as [<-|[]]. apply in_map_iff in Ha as [c [Ec Hc]].
      rewrite Forall_forall in IH, UC.
      apply (proj1 (proj2 (proj2 (IH c Hc (UC c Hc)))) M).
      * apply Forall_forall. intros q Hq. rewrite Forall_forall in HM. apply HM.
        apply in_flat_map. exists c. auto.
      * rewrite Ec. left. reflexivity.
    + rewrite score_row_count_lemma. rewrite Forall_forall in IH, UC.
      clear -IH UC. induction cs as [|c cs IHc]; [reflexivity|].
      simpl. rewrite !app_length, concat_app, app_length.
      rewrite (proj2 (proj2 (proj2 (IH c (or_introl eq_refl) (UC c (or_introl eq_refl)))))).
      rewrite IHc; [reflexivity | intros x Hx; apply IH; right; exact Hx | intros x Hx; apply UC; right; exact Hx].
Qed.

(* ---------- inverse direction: any multiple of the lcm of the denominators ---------- *)

Lemma divs_multiple_exact_lemma onsets durs d q :
  (divs_from_beats onsets durs | d) -> In q (onsets ++ durs) ->
  inject_Z (to_div d q) == q * inject_Z d.
Proof.
  intros Hd H. apply to_div_exact. etransitivity; [|exact Hd].
  unfold divs_from_beats. apply lcm_list_divides.
  apply in_app_or in H. apply in_or_app. destruct H; [right | left]; apply in_map; assumption.
Qed.

Lemma divs_multiple_roundtrip_lemma onsets durs d q :
  0 < d -> (divs_from_beats onsets durs | d) -> In q (onsets ++ durs) ->
  beat_of_div d (to_div d q) == q.
Proof.
  intros Hp Hd H. unfold beat_of_div. rewrite (divs_multiple_exact_lemma onsets durs d q Hd H).
  field. apply inject_Z_nonzero. lia.
Qed.

(* the checker of the correspondence accepts exactly such divisions *)
Lemma inverse_case_ok_m_sound onsets durs d o du :
  inverse_case_ok_m onsets durs (d, o, du) = true ->
  0 < d /\ (divs_from_beats onsets durs | d) /\ du = map (to_div d) durs /\
  o = shift_nonneg (map (to_div d) onsets).
Proof.
  unfold inverse_case_ok_m, divs_columns_at. intros H.
  apply andb_prop in H as [H H3]. apply andb_prop in H as [H1 H2].
  apply andb_prop in H3 as [H3 H4].
  apply Z.ltb_lt in H1. apply Z.eqb_eq in H2.
  apply list_eqb_eq in H3; [|intros a b E; apply Z.eqb_eq, E].
  apply list_eqb_eq in H4; [|intros a b E; apply Z.eqb_eq, E].
  pose proof (divs_from_beats_pos onsets durs).
  repeat split; auto. apply Z.mod_divide; [lia | exact H2].
Qed.

(* ---------- examples: the hypotheses are satisfiable ---------- *)


Example ex_tree_array :
  Forall uniform (leaves ex_tree) /\
  map (fun r => (r_onset r, r_dur r, r_pitch r, r_id r, r_divs r)) (tree_array true ex_tree)
  = [ (30, 30, 64, "P01_P00_n0", 60); (30, 60, 67, "P01_P02_n0", 60); (60, 30, 60, "P00_n0", 60) ]%string.
Proof.
  split; [|vm_compute; reflexivity].
  simpl leaves. constructor; [exists 4; split; [lia | repeat constructor]|].
  constructor; [exists 6; split; [lia | repeat constructor]|].
  constructor; [exists 1; split; [lia | constructor]|].
  constructor; [exists 10; split; [lia | repeat constructor]|]. constructor.
Qed.
