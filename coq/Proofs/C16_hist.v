(* C16 -- proofs about the Score-argument state machine of Model/C16_Hist.v *)
From Coq Require Import ZArith List Lia Bool.
From PV Require Import Lib.Base Model.C16 Model.C16_Hist Proofs.C16.
Import ListNotations.
#[local] Open Scope Z_scope.

(* the state reached by any history: `parts` = the list operations applied to the initial list, the structure is
   still the one given at construction *)
Lemma sh_state_lemma : forall ops s s',
  sh_run ops s = Some s' <-> (sh_lrun ops (sh_parts s) = Some (sh_parts s') /\ sh_structure s' = sh_structure s).
Proof.
  induction ops as [|o r IH]; intros s s'; cbn [sh_run sh_lrun].
  - split.
    + intros H; inversion H; subst; auto.
    + intros [H1 H2]. inversion H1. destruct s, s'; cbn in *; subst; reflexivity.
  - assert (Hs : forall s1, sh_step s o = Some s1 ->
                 sh_lstep (sh_parts s) o = Some (sh_parts s1) /\ sh_structure s1 = sh_structure s).
    { intros s1. destruct o; cbn [sh_step sh_lstep]; unfold sh_transpose;
      try match goal with |- match ?x with _ => _ end = _ -> _ => destruct x eqn:E end;
      intros H; inversion H; subst; cbn; auto. }
    assert (Hn : sh_step s o = None -> sh_lstep (sh_parts s) o = None).
    { destruct o; cbn [sh_step sh_lstep]; unfold sh_transpose;
      try match goal with |- match ?x with _ => _ end = _ -> _ => destruct x eqn:E end;
      intros H; try discriminate; auto. }
    destruct (sh_step s o) as [s1|] eqn:E.
    + destruct (Hs s1 eq_refl) as [H1 H2]. rewrite H1. rewrite IH. rewrite H2. tauto.
    + rewrite (Hn eq_refl). split; [discriminate | intros [H _]; discriminate].
Qed.

(* forall history, observation = f (current parts) *)
Lemma sh_history_lemma : forall n q up partlist ops,
  opt_bind (sh_run ops (sh_init partlist)) (sh_view n q up) =
  opt_bind (sh_lrun ops partlist) (sh_map_opt (transpose_elems n q up)).
Proof.
  intros n q up partlist ops.
  destruct (sh_run ops (sh_init partlist)) as [s'|] eqn:E.
  - apply sh_state_lemma in E. destruct E as [E _]. cbn [sh_init sh_parts] in E. rewrite E.
    cbn [opt_bind]. unfold sh_view, sh_transpose.
    destruct (sh_map_opt (transpose_elems n q up) (sh_parts s')); reflexivity.
  - destruct (sh_lrun ops partlist) as [l|] eqn:E2; [|reflexivity].
    exfalso.
    assert (H : sh_run ops (sh_init partlist) = Some (sh_mk l partlist)).
    { apply sh_state_lemma. cbn. auto. }
    congruence.
Qed.

Lemma sh_structure_irrelevant_lemma : forall n q up s s',
  sh_parts s = sh_parts s' -> sh_view n q up s = sh_view n q up s'.
Proof. intros n q up s s' H. unfold sh_view, sh_transpose. rewrite H.
  destruct (sh_map_opt (transpose_elems n q up) (sh_parts s')); reflexivity. Qed.

Lemma sh_map_opt_Forall2 : forall {A B} (f : A -> option B) (R : A -> B -> Prop),
  (forall x y, f x = Some y -> R x y) ->
  forall l l', sh_map_opt f l = Some l' -> Forall2 R l l'.
Proof.
  intros A B f R HR. induction l as [|x r IH]; intros l' H; cbn in H.
  - inversion H. constructor.
  - destruct (f x) eqn:E; [|discriminate]. destruct (sh_map_opt f r) eqn:E2; [|discriminate].
    inversion H; subst. constructor; auto.
Qed.

(* every note of every CURRENT part is moved; nothing else changes; the argument state is not an output *)
Lemma sh_view_moves_lemma : forall n q up s v,
  sh_view n q up s = Some v -> Forall2 (fun p p' => Forall2 (moved n q up) p p') (sh_parts s) v.
Proof.
  intros n q up s v H. unfold sh_view, sh_transpose in H.
  destruct (sh_map_opt (transpose_elems n q up) (sh_parts s)) as [ps|] eqn:E; [|discriminate].
  cbn in H. inversion H; subst.
  eapply sh_map_opt_Forall2; [|exact E]. intros x y. apply transpose_elems_moved.
Qed.

(* transposing the same argument twice gives the same answer as asking each once: ShTr leaves the state alone *)
Lemma sh_tr_keeps_lemma : forall n q up s, sh_step s (ShTr n q up) = Some s.
Proof. intros. destruct s; reflexivity. Qed.
