(* C01 -- the theorems about histories: invariant in every reachable state, totality, refinement,
   set_quarter_duration semantics, "exactly the registered objects". *)
From PV Require Import Lib.Base Gen.C01_ClassTree Model.C01 Model.C01_Spec
  Proofs.C01_lib Proofs.C01_points Proofs.C01_qd Proofs.C01_inv.
From Coq Require Import Sorting.Sorted.

Lemma step_invw_lemma p o : InvW p -> valid_op p o -> InvW (fst (step p o)).
Proof. intros I V. destruct (step_ok p o I V) as [p' [E [I' _]]]. rewrite E. auto. Qed.

Lemma step_inv_lemma p o : Inv p -> valid_op p o -> strict_op p o -> Inv (fst (step p o)).
Proof.
  intros [I N] V S. destruct (step_ok p o I V) as [p' [E [I' [_ [_ [_ F]]]]]]. rewrite E. split; auto.
Qed.

Lemma step_total_lemma p o : InvW p -> valid_op p o -> snd (step p o) = OutOk.
Proof. intros I V. destruct (step_ok p o I V) as [p' [E _]]. rewrite E. auto. Qed.

Lemma run_invw_lemma ops : forall p, InvW p -> valid_run p ops -> InvW (run p ops).
Proof.
  induction ops as [|o r IH]; simpl; intros p I V; auto.
  destruct V as [V1 V2]. apply IH; auto. apply step_invw_lemma; auto.
Qed.

Lemma run_inv_lemma ops : forall p, Inv p -> valid_run p ops -> strict_run p ops -> Inv (run p ops).
Proof.
  induction ops as [|o r IH]; simpl; intros p I V S; auto.
  destruct V as [V1 V2], S as [S1 S2]. apply IH; auto. apply step_inv_lemma; auto.
Qed.

(* no operation of a valid history raises *)
Lemma run_total_lemma ops : forall p, InvW p -> valid_run p ops ->
  forall pre o post, ops = pre ++ o :: post -> snd (step (run p pre) o) = OutOk.
Proof.
  induction ops as [|x r IH]; intros p I V pre o post E.
  - destruct pre; discriminate.
  - destruct V as [V1 V2]. destruct pre as [|y pre]; simpl in E; inversion E; subst.
    + simpl. apply step_total_lemma; auto.
    + simpl. eapply IH; eauto. apply step_invw_lemma; auto.
Qed.

Lemma step_refines_lemma p o : InvW p -> valid_op p o ->
  (forall x, a_start (abs (fst (step p o))) x = spec_start (abs p) o x) /\
  (forall x, a_end (abs (fst (step p o))) x = spec_end (abs p) o x) /\
  (forall s, 0 <= s -> a_qd (abs (fst (step p o))) s = spec_qd (abs p) o s).
Proof.
  intros I V. destruct (step_ok p o I V) as [p' [E [_ [A [B [C _]]]]]]. rewrite E. simpl. auto.
Qed.

(* O4: a call that fails leaves the part exactly as it was; under the invariant the only failing calls are
   those with a negative time, and they fail with InvalidTimePointException *)
Lemma rejected_step p o : rejected o -> step p o = (p, OutInvalidTime).
Proof.
  destruct o as [ob s e | ob w | t q | t | ob s]; simpl; intros R; try contradiction.
  - unfold add. rewrite R. reflexivity.
  - assert (E : t <? 0 = true) by lia. rewrite E. reflexivity.
Qed.

Lemma add_nonneg_ok p ob s e : neg_opt s || neg_opt e = false -> snd (add p ob s e) = OutOk.
Proof.
  intros N. unfold add. rewrite N. apply orb_false_iff in N as [Ns Ne].
  assert (A : forall sd p0 v, neg_opt v = false -> snd (add_opt sd (p0, OutOk) ob v) = OutOk).
  { intros sd p0 [t|] Hv; simpl in *; [rewrite Hv|]; reflexivity. }
  destruct (add_opt SStart (p, OutOk) ob s) as [p1 o1] eqn:E1.
  pose proof (A SStart p s Ns) as H1. rewrite E1 in H1. simpl in H1. subst o1. apply A; auto.
Qed.

Lemma step_fail_unchanged_lemma p o : InvW p -> snd (step p o) <> OutOk ->
  fst (step p o) = p /\ snd (step p o) = OutInvalidTime /\ rejected o.
Proof.
  intros I H. destruct o as [ob s e | ob w | t q | t | ob s]; [| | | |exfalso; apply H; reflexivity].
  - destruct (neg_opt s || neg_opt e) eqn:N.
    + rewrite (rejected_step p (OAdd ob s e) N). auto.
    + exfalso. apply H. simpl. apply add_nonneg_ok; auto.
  - exfalso. apply H. destruct (step_ok p (ORemove ob w) I Logic.I) as [p' [E _]]. rewrite E. reflexivity.
  - exfalso. apply H. reflexivity.
  - destruct (t <? 0) eqn:E.
    + assert (R : rejected (OGetOrAdd t)) by (simpl; lia). rewrite (rejected_step p _ R). auto.
    + exfalso. apply H. simpl. rewrite E. reflexivity.
Qed.

(* ... so the invariant also holds along histories in which rejected calls are interleaved *)
Lemma mixed_run_invw_lemma ops : forall p, InvW p -> mixed_run p ops -> InvW (run p ops).
Proof.
  induction ops as [|o r IH]; simpl; intros p I V; auto.
  destruct V as [[V1|R] V2]; apply IH; auto.
  - apply step_invw_lemma; auto.
  - rewrite (rejected_step p o R). auto.
Qed.

Lemma mixed_run_inv_lemma ops : forall p, Inv p -> mixed_run p ops -> strict_run p ops -> Inv (run p ops).
Proof.
  induction ops as [|o r IH]; simpl; intros p I V S; auto.
  destruct V as [[V1|R] V2], S as [S1 S2]; apply IH; auto.
  - apply step_inv_lemma; auto.
  - rewrite (rejected_step p o R). auto.
Qed.

(* O3 *)
Definition links_and_regs (x : point) := (pt x, pprev x, pnext x, pstart x, pend x).

Lemma set_qd_spec_lemma p t q : InvW p -> 0 <= t ->
  let p' := set_quarter_duration p t q in
  (forall s, 0 <= s ->
     qd_at (qtab p') s = if in_span t (next_change t (qtab p)) s then q else qd_at (qtab p) s) /\
  (forall x, In x (points p') -> pq x = qd_at (qtab p') (pt x)) /\
  map links_and_regs (points p') = map links_and_regs (points p) /\
  ostart p' = ostart p /\ oend p' = oend p /\
  (forall e, In e (qtab p) -> In (fst e) (map fst (qtab p'))) /\
  (forall e, In e (qtab p') -> fst e = t \/ In (fst e) (map fst (qtab p))).
Proof.
  intros I Ht p'. destruct (setq_ok p t q I Ht) as [I' [A [B _]]]. fold p' in I', A, B.
  destruct (set_q_tab_qd t q (qtab p) (iw_qtab p I) Ht) as [_ [_ [C _]]].
  split; [intros s Hs; rewrite B; apply C; auto|].
  split; [intros x Hx; pose proof (iw_quarter p' I') as F; rewrite Forall_forall in F; auto|].
  assert (Hpts : map links_and_regs (points p') = map links_and_regs (points p) /\ ostart p' = ostart p /\ oend p' = oend p).
  { unfold p', set_quarter_duration. destruct (set_q_tab t q None (qtab p)) as [tab' [|]]; simpl; auto.
    split; auto. rewrite map_map. apply map_ext. intros x. destruct (in_span _ _ _); auto. }
  destruct Hpts as [P1 [P2 P3]]. split; auto. split; auto. split; auto.
  rewrite B. clear. generalize (@None Z). induction (qtab p) as [|[t' q'] r IH]; intros prevq.
  - split; [intros e []|]. simpl. destruct (same_q prevq q); simpl; [intros e []|]. intros e [<-|[]]; auto.
  - simpl set_q_tab. destruct (t' <? t) eqn:E1.
    + specialize (IH (Some q')). destruct (set_q_tab t q (Some q') r) as [r' c]. simpl in *. destruct IH as [IH1 IH2]. split.
      * intros e [<-|He]; simpl; auto.
      * intros e [<-|He]; simpl; auto. destruct (IH2 e He); auto.
    + destruct (t' =? t) eqn:E2.
      * assert (t' = t) by lia. subst t'. destruct (q' =? q); simpl; split.
        -- intros e [<-|He]; simpl; auto. right. apply in_map; auto.
        -- intros e [<-|He]; simpl; auto. right. right. apply in_map; auto.
        -- intros e [<-|He]; simpl; auto. right. apply in_map; auto.
        -- intros e [<-|He]; simpl; auto. right. right. apply in_map; auto.
      * destruct (same_q prevq q); simpl; split.
        -- intros e [<-|He]; simpl; auto. right. apply in_map; auto.
        -- intros e [<-|He]; simpl; auto. right. right. apply in_map; auto.
        -- intros e [<-|He]; simpl; auto. right. right. apply in_map; auto.
        -- intros e [<-|[<-|He]]; simpl; auto. right. right. apply in_map; auto.
Qed.

(* the time points are exactly the times at which some object is registered *)
Lemma points_exactly_lemma p : Inv p -> forall t,
  (exists q, In q (points p) /\ pt q = t) <-> (exists o, ostart p o = Some t \/ oend p o = Some t).
Proof.
  intros [I N] t. split.
  - intros [q [Hq Et]]. rewrite Forall_forall in N. destruct (N q Hq) as [H|H].
    + destruct (pstart q) as [|o l] eqn:E; [congruence|]. exists o. left.
      apply (iw_reg p I SStart). apply regs_In. exists q. simpl. rewrite E. simpl. auto.
    + destruct (pend q) as [|o l] eqn:E; [congruence|]. exists o. right.
      apply (iw_reg p I SEnd). apply regs_In. exists q. simpl. rewrite E. simpl. auto.
  - intros [o [H|H]].
    + apply (iw_reg p I SStart) in H. apply regs_In in H as [q [A [B _]]]. eauto.
    + apply (iw_reg p I SEnd) in H. apply regs_In in H as [q [A [B _]]]. eauto.
Qed.

(* every point's links are its true neighbours, stated by index *)
Lemma chain_index a ps b : chain a ps b -> forall i q, nth_error ps i = Some q ->
  pprev q = match i with O => a | S j => option_map pt (nth_error ps j) end /\
  pnext q = match nth_error ps (S i) with Some x => Some (pt x) | None => b end.
Proof.
  revert a. induction ps as [|x r IH]; intros a C i q Hn.
  - destruct i; discriminate.
  - simpl in C. destruct C as [C1 [C2 C3]]. destruct i as [|i].
    + simpl in Hn. inversion Hn; subst. split; auto. simpl. rewrite C2. destruct r; auto.
    + simpl in Hn. destruct (IH _ C3 i q Hn) as [A B]. split; auto.
      rewrite A. destruct i; simpl; auto.
Qed.

Lemma links_by_index_lemma p : InvW p -> forall i q, nth_error (points p) i = Some q ->
  pprev q = match i with O => None | S j => option_map pt (nth_error (points p) j) end /\
  pnext q = option_map pt (nth_error (points p) (S i)).
Proof.
  intros I i q Hn. destruct (chain_index None (points p) None (iw_links p I) i q Hn) as [A B].
  split; [exact A|]. rewrite B. destruct (nth_error (points p) (S i)); auto.
Qed.

(* ---------------------------------------------------------------- the hypotheses are satisfiable *)
Definition ex_ops : list op :=
  [OAdd (1, 0) (Some 0) (Some 4); OAdd (2, 1) (Some 4) (Some 8); OAdd (3, 2) (Some 4) (Some 4);
   OSetQ 4 2; OAdd (22, 3) (Some 8) (Some 12); OGetOrAdd 4; ORemove (3, 2) WStart; OSetQ 4 1].

Lemma ex_valid : valid_run (init 1) ex_ops /\ strict_run (init 1) ex_ops.
Proof.
  split.
  - unfold ex_ops.
    repeat (split; [first [exact I | (unfold valid_op; lia)
                          | (split; intros t E; inversion E; subst; (split; [lia | vm_compute; reflexivity]))]|]).
    exact I.
  - unfold ex_ops. repeat (split; [first [exact I | (vm_compute; discriminate)]|]). exact I.
Qed.

Lemma inv_nontrivial_lemma :
  Inv (run (init 1) ex_ops) /\
  map (fun q => (pt q, pq q, pprev q, pnext q, List.length (pstart q), List.length (pend q))) (points (run (init 1) ex_ops))
  = [(0, 1, None, Some 4, 1%nat, 0%nat); (4, 1, Some 0, Some 8, 1%nat, 2%nat);
     (8, 1, Some 4, Some 12, 1%nat, 1%nat); (12, 1, Some 8, None, 0%nat, 1%nat)] /\
  qtab (run (init 1) ex_ops) = [(0, 1); (4, 1)].
Proof.
  split; [apply run_inv_lemma; [apply inv_init_lemma | apply ex_valid | apply ex_valid]|].
  vm_compute. auto.
Qed.

(* ---------------------------------------------------------------- from a new part *)
Lemma reachable_inv_lemma q0 ops :
  valid_run (init q0) ops -> strict_run (init q0) ops -> Inv (run (init q0) ops).
Proof. exact (run_inv_lemma ops (init q0) (inv_init_lemma q0)). Qed.

Lemma reachable_invw_lemma q0 ops : valid_run (init q0) ops -> InvW (run (init q0) ops).
Proof. exact (run_invw_lemma ops (init q0) (proj1 (inv_init_lemma q0))). Qed.

Lemma reachable_total_lemma q0 ops : valid_run (init q0) ops ->
  forall pre o post, ops = pre ++ o :: post -> snd (step (run (init q0) pre) o) = OutOk.
Proof. intros V. exact (run_total_lemma ops (init q0) (proj1 (inv_init_lemma q0)) V). Qed.

Lemma reachable_mixed_lemma q0 ops : mixed_run (init q0) ops ->
  InvW (run (init q0) ops) /\ (strict_run (init q0) ops -> Inv (run (init q0) ops)).
Proof.
  intros V. split.
  - exact (mixed_run_invw_lemma ops (init q0) (proj1 (inv_init_lemma q0)) V).
  - exact (mixed_run_inv_lemma ops (init q0) (inv_init_lemma q0) V).
Qed.
