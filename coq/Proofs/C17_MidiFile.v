(* C17 -- the reader (Model.C17_MidiParse) in front of the importer's pitch path (Model.C17_Midi): from the messages of a
   file to the notes of the score. *)
From PV Require Import Lib.Base Gen.C17_PS13 Gen.C17_MidiTab Model.C17_Spelling Model.C17_Midi Model.C17_MidiParse
  Proofs.C17_lib Proofs.C17_Midi Proofs.C17_MidiParse.
#[local] Open Scope Z_scope.

Definition rows_of (gs : list (Z * list row)) : list row := flat_map (fun g => snd g) gs.

Lemma dd_append_rows : forall r ch r0 d,
  In r (rows_of (dd_append ch r0 d)) <-> In r (rows_of d) \/ r = r0.
Proof.
  unfold rows_of. induction d as [|[c l] rest IH]; cbn.
  - intuition.
  - destruct (c =? ch); cbn; rewrite ?in_app_iff.
    + cbn. intuition.
    + rewrite IH. intuition.
Qed.

Lemma notes_by_channel_rows_from : forall r em d,
  In r (rows_of (fold_left (fun d x => dd_append (fst x) (snd x) d) em d)) <-> In r (rows_of d) \/ In r (map (fun x => snd x) em).
Proof.
  induction em as [|x em IH]; intros d; cbn.
  - intuition.
  - rewrite IH, dd_append_rows. intuition.
Qed.

Lemma notes_by_channel_rows : forall r em,
  In r (rows_of (notes_by_channel em)) <-> In r (map (fun x => snd x) em).
Proof.
  intros. unfold notes_by_channel. rewrite notes_by_channel_rows_from. cbn. intuition.
Qed.

Lemma groups_from_rows : forall r tracks tr,
  In r (flat_map (fun g : mgroup => snd g) (groups_from tr tracks)) <->
  exists ms, In ms tracks /\ In r (map (fun x => snd x) (parse_track ms)).
Proof.
  induction tracks as [|ms rest IH]; intros tr; cbn.
  - split; [intros []|intros (ms & [] & _)].
  - rewrite flat_map_app, in_app_iff, IH.
    match goal with |- In r ?X \/ _ <-> _ =>
      assert (E : X = rows_of (notes_by_channel (parse_track ms)))
        by (unfold rows_of; induction (notes_by_channel (parse_track ms)) as [|a l IHl]; cbn; [reflexivity|rewrite IHl; reflexivity])
    end.
    rewrite E, notes_by_channel_rows. split.
    + intros [H|(ms' & H1 & H2)]; [exists ms; split; [left; reflexivity|exact H]|exists ms'; split; [right; exact H1|exact H2]].
    + intros (ms' & [<-|H1] & H2); [left; exact H2|right; exists ms'; split; assumption].
Qed.

Lemma g_insert_rows : forall r g l,
  In r (flat_map (fun g : mgroup => snd g) (g_insert g l)) <-> In r (snd g) \/ In r (flat_map (fun g : mgroup => snd g) l).
Proof.
  induction l as [|h t IH]; cbn.
  - rewrite app_nil_r. intuition.
  - destruct (trch_ltb (fst h) (fst g)); cbn; rewrite ?in_app_iff.
    + rewrite IH. intuition.
    + intuition.
Qed.

Lemma sorted_groups_rows : forall r l,
  In r (flat_map (fun g : mgroup => snd g) (fold_right g_insert [] l)) <-> In r (flat_map (fun g : mgroup => snd g) l).
Proof.
  induction l as [|g t IH]; cbn; [intuition|]. rewrite g_insert_rows, in_app_iff, IH. intuition.
Qed.

(* the notes of the file's (track, channel) groups are the notes the reader emitted for its tracks *)
Lemma parse_file_rows : forall r tracks,
  In r (flat_map (fun g : mgroup => snd g) (parse_file tracks)) <->
  exists ms, In ms tracks /\ In r (map (fun x => snd x) (parse_track ms)).
Proof. intros. unfold parse_file. rewrite sorted_groups_rows. apply groups_from_rows. Qed.

(* a note the reader emits has the note number of a note end of the track *)
Lemma read_note_pitch : forall ms x, In x (parse_track ms) -> exists m, In m ms /\ is_end m = true /\ r_pitch (snd x) = m_note m.
Proof.
  intros ms x Hin. destruct (read_note_was_written ms x Hin) as (pre & mon & mid & moff & post & -> & _ & He & _ & _ & ->).
  exists moff. split; [|split; [exact He|reflexivity]].
  apply in_or_app. right. right. apply in_or_app. right. left. reflexivity.
Qed.

(* FROM THE MESSAGES TO THE SCORE *)
Lemma file_import_spec : forall mode tracks, 0 <= mode <= 5 ->
  (forall ms m, In ms tracks -> In m ms -> is_end m = true -> 21 <= m_note m <= 108) ->
  exists out, import_notes mode (parse_file tracks) = Some out /\
    Forall (fun x => fst x <> None) out /\
    forall o p, In (o, p) (map (fun x => snd x) out) <->
                exists ms x, In ms tracks /\ In x (parse_track ms) /\ o = r_onset (snd x) /\ p = Some (r_pitch (snd x)).
Proof.
  intros mode tracks Hm Hp.
  destruct (import_notes_spec mode (parse_file tracks) Hm) as (out & E & Hmap & Hparts).
  - intros g r Hg Hr.
    assert (Hin : In r (flat_map (fun g : mgroup => snd g) (parse_file tracks))) by (apply in_flat_map; exists g; split; assumption).
    apply parse_file_rows in Hin. destruct Hin as (ms & Hms & Hr2).
    apply in_map_iff in Hr2. destruct Hr2 as (x & <- & Hx).
    destruct (read_note_pitch ms x Hx) as (m & Hmin & He & ->). apply (Hp ms m); assumption.
  - exists out. split; [exact E|]. split; [exact Hparts|].
    intros o p. rewrite Hmap, in_map_iff. split.
    + intros (r & Heq & Hr). apply parse_file_rows in Hr. destruct Hr as (ms & Hms & Hr2).
      apply in_map_iff in Hr2. destruct Hr2 as (x & <- & Hx).
      exists ms, x. injection Heq as <- <-. repeat split; assumption.
    + intros (ms & x & Hms & Hx & -> & ->). exists (snd x). split; [reflexivity|].
      apply parse_file_rows. exists ms. split; [exact Hms|]. apply in_map. exact Hx.
Qed.

(* the headline: a note written into some track of the file is a note of the score, at its onset, with its pitch *)
Lemma written_note_is_in_the_score : forall mode tracks pre mon mid moff post, 0 <= mode <= 5 ->
  (forall ms m, In ms tracks -> In m ms -> is_end m = true -> 21 <= m_note m <= 108) ->
  In (pre ++ mon :: mid ++ moff :: post) tracks ->
  is_start mon = true -> is_end moff = true -> m_chan moff = m_chan mon -> m_note moff = m_note mon ->
  (forall m, In m mid -> is_start m = true \/ is_end m = true ->
             0 <= m_note m < 128 /\ ~ (m_chan m = m_chan mon /\ m_note m = m_note mon)) ->
  exists out, import_notes mode (parse_file tracks) = Some out /\
    Forall (fun x => fst x <> None) out /\
    In (time_after 0 (pre ++ [mon]), Some (m_note mon)) (map (fun x => snd x) out).
Proof.
  intros mode tracks pre mon mid moff post Hm Hp Hin Hs He Hc Hn Hmid.
  destruct (file_import_spec mode tracks Hm Hp) as (out & E & Hparts & Hiff).
  exists out. split; [exact E|]. split; [exact Hparts|].
  apply Hiff. exists (pre ++ mon :: mid ++ moff :: post), (m_chan mon, (time_after 0 (pre ++ [mon]), m_note mon, time_after 0 (mid ++ [moff]))).
  split; [exact Hin|]. split; [|split; reflexivity].
  apply written_note_is_read; try assumption.
  assert (H : 21 <= m_note moff <= 108).
  { apply (Hp _ moff Hin); [|exact He]. apply in_or_app. right. right. apply in_or_app. right. left. reflexivity. }
  lia.
Qed.
