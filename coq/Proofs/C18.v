From Coq Require Import ZArith QArith Qabs Qround List Bool Lia.
From PV Require Import Lib.Base Lib.Round Model.C18.
Import ListNotations.
#[local] Open Scope Q_scope.

Lemma meanQ_single_placeholder : sumQ [1] == 1.
Proof. simpl. ring. Qed.
