(* C18 -- proofs about the codec model (Model/C18.v).  Everything here is over exact rationals and
   closed under the global context; the real-number facts are in Proofs/C18_real.v. *)
From Coq Require Import ZArith QArith Qabs Qround List Bool Lia Sorting.Sorted Sorting.Permutation Setoid.
From PV Require Import Lib.Base Lib.Round Model.C18.
Import ListNotations.
#[local] Open Scope Q_scope.

(* ---------- lists ---------- *)
Lemma nth_map_seq {A} (f : nat -> A) n j d : (j < n)%nat -> nth j (map f (seq 0 n)) d = f j.
Proof.
  intros H. rewrite (nth_indep _ d (f O)) by (rewrite map_length, seq_length; exact H).
  rewrite map_nth. rewrite seq_nth by exact H. reflexivity.
Qed.

Lemma map_const_repeat {A B} (c : B) (l : list A) : map (fun _ => c) l = repeat c (List.length l).
Proof. induction l; simpl; congruence. Qed.

Lemma map_repeat' {A B} (f : A -> B) x k : map f (repeat x k) = repeat (f x) k.
Proof. induction k; simpl; congruence. Qed.

Lemma sumQ_repeat x k : sumQ (repeat x k) == inject_Z (Z.of_nat k) * x.
Proof.
  induction k as [|k IH].
  - simpl. ring.
  - cbn [repeat sumQ]. rewrite IH. rewrite Nat2Z.inj_succ. unfold Z.succ. rewrite inject_Z_plus. ring.
Qed.

Lemma meanQ_repeat x k : meanQ (repeat x (S k)) == x.
Proof.
  unfold meanQ, lenQ. rewrite Qred_correct. rewrite sumQ_repeat. rewrite repeat_length.
  field. intro H.
  unfold Qeq in H. cbn [Qnum Qden inject_Z] in H. lia.
Qed.

(* ---------- groups_ok unpacked ---------- *)
Lemma groups_ok_gidx G n j : groups_ok G n = true -> (j < n)%nat -> (gidx G j < List.length G)%nat.
Proof.
  unfold groups_ok. intros H Hj. apply andb_true_iff in H as [H _].
  rewrite forallb_forall in H. specialize (H j). rewrite in_seq in H.
  apply Nat.ltb_lt. apply H. lia.
Qed.

Lemma groups_ok_member G n i m :
  groups_ok G n = true -> (i < List.length G)%nat -> In m (nth i G []) -> gidx G m = i /\ (m < n)%nat.
Proof.
  unfold groups_ok. intros H Hi Hm. apply andb_true_iff in H as [_ H].
  rewrite forallb_forall in H. specialize (H i). rewrite in_seq in H.
  assert (Hi' : (0 <= i < 0 + List.length G)%nat) by lia.
  specialize (H Hi'). apply andb_true_iff in H as [H _].
  rewrite forallb_forall in H. specialize (H m Hm). apply andb_true_iff in H as [H1 H2].
  split; [apply Nat.eqb_eq; exact H1 | apply Nat.ltb_lt; exact H2].
Qed.

Lemma groups_ok_nonempty G n i :
  groups_ok G n = true -> (i < List.length G)%nat -> exists k, List.length (nth i G []) = S k.
Proof.
  unfold groups_ok. intros H Hi. apply andb_true_iff in H as [_ H].
  rewrite forallb_forall in H. specialize (H i). rewrite in_seq in H.
  assert (Hi' : (0 <= i < 0 + List.length G)%nat) by lia.
  specialize (H Hi'). apply andb_true_iff in H as [_ H].
  apply negb_true_iff in H. apply Nat.eqb_neq in H.
  destruct (List.length (nth i G [])) as [|k]; [congruence | exists k; reflexivity].
Qed.

(* ---------- cumulative onsets ---------- *)
Lemma eq_on_shift first b1 b2 ds i :
  (forall k, (k < i)%nat -> nthQ b1 k == nthQ b2 k) ->
  eq_on 0 b1 ds i == eq_on first b2 ds i - first.
Proof.
  induction i as [|i IH]; intros H.
  - simpl. ring.
  - cbn [eq_on]. rewrite !Qred_correct. rewrite IH by (intros k Hk; apply H; lia).
    rewrite (H i) by lia. ring.
Qed.

(* ================= the codec, for any normalisation with a left inverse ================= *)
Section CodecProofs.
  Variable NP : Type.
  Variable scale : Q -> NP.
  Variable pmean : list NP -> NP.
  Variable rescale : NP -> Q.
  Variable npdefault : NP.
  Variables log2 exp2 : Q -> Q.
  (* rescale inverts scale on positive beat periods (after the per-chord mean of equal parameters) *)
  Hypothesis norm_inv : forall x k, 0 < x -> rescale (pmean (repeat (scale x) (S k))) == x.
  (* 2 ** (log2 x) = x on positives *)
  Hypothesis exp_log : forall x, 0 < x -> exp2 (log2 x) == x.

  Variables (so sd po pd : list Q) (vel : list Z) (G : list (list nat)) (bp : list Q).
  Hypothesis HG : groups_ok G (List.length so) = true.
  Hypothesis Hbp : forall i, (i < List.length G)%nat -> 0 < nthQ bp i.

  Let P := encode NP scale log2 so sd po pd vel G bp.
  Let n := List.length so.

  Lemma P_nth j : (j < n)%nat -> nth j P (pdefault NP npdefault) = enc_note NP scale log2 so sd po pd vel G bp j.
  Proof. intros H. unfold P, encode. apply nth_map_seq. exact H. Qed.

  Lemma dec_bp_ok i : (i < List.length G)%nat ->
    dec_bp NP pmean rescale npdefault G P i == nthQ bp i.
  Proof.
    intros Hi. unfold dec_bp.
    destruct (groups_ok_nonempty G n i HG Hi) as [k Hk].
    rewrite (map_ext_in _ (fun _ => scale (nthQ bp i))).
    - rewrite map_const_repeat, Hk. apply norm_inv. apply Hbp. exact Hi.
    - intros m Hm. destruct (groups_ok_member G n i m HG Hi Hm) as [E Hmn].
      rewrite P_nth by exact Hmn. unfold enc_note. cbn [p_np]. rewrite E. reflexivity.
  Qed.

  Lemma dec_bps_nth i : (i < List.length G)%nat ->
    nthQ (dec_bps NP pmean rescale npdefault G P) i == nthQ bp i.
  Proof.
    intros Hi. unfold nthQ at 1, dec_bps. rewrite nth_map_seq by exact Hi. apply dec_bp_ok. exact Hi.
  Qed.

  Lemma dec_raw_ok j : (j < n)%nat ->
    dec_raw NP pmean rescale npdefault so sd G P j == nthQ po j - enc_first po G.
  Proof.
    intros Hj. unfold dec_raw, dec_eq, dec_x.
    rewrite P_nth by exact Hj. unfold enc_note. cbn [p_timing]. unfold enc_timing, enc_eq, enc_x.
    pose proof (groups_ok_gidx G n j HG Hj) as Hg.
    rewrite (eq_on_shift (enc_first po G) _ bp).
    - ring.
    - intros k Hk. apply dec_bps_nth. lia.
  Qed.

  (* O1, onsets: ONE shift for all notes, whatever the (positive) tempo curve *)
  Lemma decode_encode_onsets_lemma :
    exists shift, forall j, (j < n)%nat ->
      fst (fst (nth j (decode NP pmean rescale npdefault exp2 so sd G P) (0, 0, 0%Z))) == nthQ po j + shift.
  Proof.
    exists (- enc_first po G - minl (dec_raws NP pmean rescale npdefault so sd G P)).
    intros j Hj. unfold decode. rewrite nth_map_seq by exact Hj. cbn [fst].
    unfold nthQ at 1, dec_raws at 1. rewrite nth_map_seq by exact Hj.
    rewrite dec_raw_ok by exact Hj. ring.
  Qed.

  (* O1, durations of notes that have a score duration *)
  Lemma decode_encode_duration_lemma j :
    (j < n)%nat -> 0 < nthQ sd j -> 0 < nthQ pd j ->
    snd (fst (nth j (decode NP pmean rescale npdefault exp2 so sd G P) (0, 0, 0%Z))) == nthQ pd j.
  Proof.
    intros Hj Hsd Hpd. unfold decode. rewrite nth_map_seq by exact Hj. cbn [fst snd].
    unfold dec_dur_with. rewrite P_nth by exact Hj. unfold enc_note. cbn [p_art].
    pose proof (groups_ok_gidx G n j HG Hj) as Hg.
    rewrite dec_bps_nth by exact Hg.
    pose proof (Hbp _ Hg) as Hb.
    unfold enc_ratio.
    destruct (Qle_bool (nthQ sd j) 0) eqn:E.
    - apply Qle_bool_iff in E. exfalso. exact (Qlt_irrefl 0 (Qlt_le_trans _ _ _ Hsd E)).
    - set (b := nthQ bp (gidx G j)) in *. set (s := nthQ sd j) in *. set (d := nthQ pd j) in *.
      assert (Hbs : 0 < b * s).
      { setoid_replace 0 with (0 * s) by ring. apply Qmult_lt_compat_r; assumption. }
      assert (Hr : 0 < d / (b * s)).
      { apply Qlt_shift_div_l; [exact Hbs | ]. setoid_replace (0 * (b * s)) with 0 by ring. exact Hpd. }
      rewrite (exp_log _ Hr). field. split; intro Z0.
      + rewrite Z0 in Hsd. exact (Qlt_irrefl _ Hsd).
      + rewrite Z0 in Hb. exact (Qlt_irrefl _ Hb).
  Qed.

  (* boundary (known finding C18-K1): a note without score duration decodes to duration 0 *)
  Lemma decode_grace_duration_lemma j :
    (j < n)%nat -> nthQ sd j == 0 ->
    snd (fst (nth j (decode NP pmean rescale npdefault exp2 so sd G P) (0, 0, 0%Z))) == 0.
  Proof.
    intros Hj Hsd. unfold decode. rewrite nth_map_seq by exact Hj. cbn [fst snd].
    unfold dec_dur_with. rewrite Hsd. ring.
  Qed.

  Lemma decode_velocity_row j :
    (j < n)%nat ->
    snd (nth j (decode NP pmean rescale npdefault exp2 so sd G P) (0, 0, 0%Z)) = dec_vel (enc_vel (nth j vel 0%Z)).
  Proof.
    intros Hj. unfold decode. rewrite nth_map_seq by exact Hj. cbn [snd].
    rewrite P_nth by exact Hj. reflexivity.
  Qed.
End CodecProofs.

(* O1, velocity *)
Lemma dec_enc_vel v : (1 <= v <= 127)%Z -> dec_vel (enc_vel v) = v.
Proof.
  intros H. unfold dec_vel, enc_vel.
  assert (E : inject_Z v / 127 * 127 == inject_Z v) by (field; discriminate).
  rewrite E. rewrite round_half_even_Z. lia.
Qed.

(* the floor of to_matched_score (known finding C18-K2) is the identity from 0.075 s on *)
Lemma floor_pdur_id d : floor_pdur <= d -> Qmaxb d floor_pdur == d.
Proof.
  intros H. unfold Qmaxb. destruct (Qle_bool d floor_pdur) eqn:E; [|reflexivity].
  apply Qle_bool_iff in E. apply Qle_antisym; assumption.
Qed.
Lemma floor_pdur_short d : d < floor_pdur -> Qmaxb d floor_pdur == floor_pdur.
Proof.
  intros H. unfold Qmaxb. destruct (Qle_bool d floor_pdur) eqn:E; [reflexivity|].
  exfalso. assert (Qle_bool d floor_pdur = true) by (apply Qle_bool_iff, Qlt_le_weak; exact H). congruence.
Qed.

(* the rational normalisations satisfy the hypothesis *)
Lemma norm_inv_id x k : 0 < x -> (fun y : Q => y) (meanQ (repeat (id_scale x) (S k))) == x.
Proof. intros _. cbv beta. unfold id_scale. apply meanQ_repeat. Qed.

Lemma norm_inv_ratio mu x k : ~ mu == 0 -> 0 < x ->
  ratio_rescale (ratio_pmean (repeat (ratio_scale mu x) (S k))) == x.
Proof.
  intros Hmu _. unfold ratio_rescale, ratio_pmean, ratio_scale. cbn [fst snd].
  rewrite !map_repeat'. cbn [fst snd]. rewrite !meanQ_repeat. field. exact Hmu.
Qed.

(* ---------- piecewise linear interpolation passes through its knots ---------- *)
Definition fst_lt (a b : Q * Q) : Prop := fst a < fst b.

Lemma seg_left x0 y0 x1 y1 : seg x0 y0 x1 y1 x0 == y0.
Proof. unfold seg. rewrite Qred_correct. unfold Qdiv. ring. Qed.
Lemma seg_right x0 y0 x1 y1 : x0 < x1 -> seg x0 y0 x1 y1 x1 == y1.
Proof.
  intros H. unfold seg. rewrite Qred_correct. field. intro E.
  assert (E' : x1 == x0) by (setoid_replace x1 with ((x1 - x0) + x0) by ring; rewrite E; ring).
  rewrite E' in H. exact (Qlt_irrefl _ H).
Qed.

Lemma seg_comp_x x0 y0 x1 y1 x x' : x == x' -> seg x0 y0 x1 y1 x == seg x0 y0 x1 y1 x'.
Proof. intros E. unfold seg. rewrite !Qred_correct. rewrite E. reflexivity. Qed.

Lemma interp_from_knot rest : forall x0 y0,
  StronglySorted fst_lt ((x0, y0) :: rest) ->
  forall x y, In (x, y) ((x0, y0) :: rest) -> interp_from x0 y0 rest x == y.
Proof.
  induction rest as [|[x1 y1] rest' IH]; intros x0 y0 HS x y HIn.
  - destruct HIn as [E | []]. inversion E; subst. simpl. reflexivity.
  - inversion HS as [|? ? HS' HF]; subst.
    assert (H01 : x0 < x1).
    { rewrite Forall_forall in HF. apply (HF (x1, y1)). left; reflexivity. }
    destruct HIn as [E | HIn].
    + inversion E; subst. cbn [interp_from].
      destruct rest' as [|k r].
      * apply seg_left.
      * assert (T : Qle_bool x x1 = true) by (apply Qle_bool_iff, Qlt_le_weak; exact H01).
        rewrite T. apply seg_left.
    + cbn [interp_from]. destruct rest' as [|k r].
      * destruct HIn as [E | []]. inversion E; subst. apply seg_right. exact H01.
      * destruct (Qle_bool x x1) eqn:T.
        -- apply Qle_bool_iff in T.
           destruct HIn as [E | HIn].
           ++ inversion E; subst. apply seg_right. exact H01.
           ++ exfalso. inversion HS' as [|? ? _ HF']; subst.
              rewrite Forall_forall in HF'. specialize (HF' (x, y) HIn). unfold fst_lt in HF'. cbn [fst] in HF'.
              apply (Qlt_irrefl x). eapply Qle_lt_trans; eauto.
        -- apply (IH x1 y1 HS' x y). exact HIn.
  Qed.

Lemma lin_interp_knot K x y : StronglySorted fst_lt K -> In (x, y) K -> lin_interp K x == y.
Proof.
  destruct K as [|[x0 y0] r]; intros HS HIn; [destruct HIn|].
  unfold lin_interp. apply interp_from_knot; assumption.
Qed.

(* ---------- insertion sort ---------- *)
Section SortP.
  Context {A : Type} (leb : A -> A -> bool).
  Hypothesis leb_total : forall a b, leb a b = true \/ leb b a = true.
  Let R (x y : A) := leb x y = true.

  Lemma insert_perm a l : Permutation (insert_s leb a l) (a :: l).
  Proof.
    induction l as [|y r IH]; simpl; [reflexivity|].
    destruct (leb a y); [reflexivity|]. rewrite IH. apply perm_swap.
  Qed.
  Lemma isort_perm l : Permutation (isort leb l) l.
  Proof. induction l as [|a r IH]; simpl; [constructor|]. rewrite insert_perm. constructor. exact IH. Qed.

  Lemma insert_sorted a l : Sorted R l -> Sorted R (insert_s leb a l).
  Proof.
    induction l as [|y r IH]; intros H; simpl.
    - repeat constructor.
    - destruct (leb a y) eqn:E.
      + constructor; [exact H | constructor; exact E].
      + inversion H as [|? ? Hs Hh]; subst. constructor; [apply IH; exact Hs|].
        assert (Hya : R y a) by (destruct (leb_total a y) as [X|X]; [congruence | exact X]).
        destruct r as [|z r']; simpl.
        * constructor. exact Hya.
        * destruct (leb a z); constructor; [exact Hya | inversion Hh; assumption].
  Qed.
  Lemma isort_sorted l : Sorted R (isort leb l).
  Proof. induction l as [|a r IH]; simpl; [constructor | apply insert_sorted; exact IH]. Qed.

  (* sorting a strictly sorted list changes nothing *)
  Lemma insert_head a l : Forall (fun y => leb a y = true) l -> insert_s leb a l = a :: l.
  Proof. intros H. destruct l as [|y r]; simpl; [reflexivity|]. inversion H; subst. rewrite H2. reflexivity. Qed.
  Lemma isort_id l : StronglySorted R l -> isort leb l = l.
  Proof.
    induction 1 as [|a l HS IH HF]; simpl; [reflexivity|].
    rewrite IH. apply insert_head. exact HF.
  Qed.
End SortP.

(* ---------- time maps: both directions pass through the knots ---------- *)
Definition snd_lt (a b : Q * Q) : Prop := snd a < snd b.

Lemma SS_map_swap K : StronglySorted snd_lt K -> StronglySorted fst_lt (map swap K).
Proof.
  induction 1 as [|a l HS IH HF]; simpl; constructor; [exact IH|].
  rewrite Forall_forall in *. intros b Hb. apply in_map_iff in Hb as [c [E Hc]]. subst b.
  unfold fst_lt, swap; cbn [fst snd]. apply (HF c Hc).
Qed.

Lemma SS_fst_lt_leb K : StronglySorted fst_lt K -> StronglySorted (fun x y => qkey_leb fst x y = true) K.
Proof.
  induction 1 as [|a l HS IH HF]; constructor; [exact IH|].
  rewrite Forall_forall in *. intros b Hb. unfold qkey_leb. apply Qle_bool_iff, Qlt_le_weak. exact (HF b Hb).
Qed.

Lemma time_maps_lemma K :
  StronglySorted fst_lt K -> StronglySorted snd_lt K ->
  forall u p, In (u, p) K -> stime_to_ptime K u == p /\ ptime_to_stime K p == u.
Proof.
  intros H1 H2 u p HIn. split.
  - apply lin_interp_knot; assumption.
  - unfold ptime_to_stime. pose proof (SS_map_swap K H2) as H3.
    rewrite (isort_id _ _ (SS_fst_lt_leb _ H3)).
    apply lin_interp_knot; [exact H3|].
    apply in_map_iff. exists (u, p). split; [reflexivity | exact HIn].
Qed.

(* ---------- matched-note table ---------- *)
Lemma find_idx_Some id ids i : find_idx id ids = Some i ->
  (i < List.length ids)%nat /\ nth i ids (-1)%Z = id /\ forall k, (k < i)%nat -> nth k ids (-1)%Z <> id.
Proof.
  revert i. induction ids as [|x r IH]; intros i H; simpl in H; [discriminate|].
  destruct (Z.eqb id x) eqn:E.
  - inversion H; subst. apply Z.eqb_eq in E. subst. simpl. repeat split; [lia | intros k Hk; lia].
  - destruct (find_idx id r) as [i'|] eqn:F; simpl in H; [|discriminate]. inversion H; subst.
    destruct (IH i' eq_refl) as [A [B C]]. simpl. repeat split; [lia | exact B |].
    intros k Hk. destruct k as [|k]; [apply Z.eqb_neq in E; congruence | apply C; lia].
Qed.
Lemma find_idx_None id ids : find_idx id ids = None <-> ~ In id ids.
Proof.
  induction ids as [|x r IH]; simpl; [tauto|].
  destruct (Z.eqb id x) eqn:E.
  - apply Z.eqb_eq in E. subst. split; [discriminate | intros H; exfalso; apply H; left; reflexivity].
  - apply Z.eqb_neq in E. destruct (find_idx id r); simpl; split; intros H; try discriminate.
    + exfalso. destruct IH as [_ IH]. assert (X : ~ In id r) by (intros Y; apply H; right; exact Y).
      specialize (IH X). discriminate.
    + intros [X | X]; [congruence | apply IH in X; [exact X | reflexivity]].
    + reflexivity.
Qed.

(* exactly the alignment's matches whose ids exist on both sides (as first positions in the id columns) *)
Lemma matched_idx_spec sids pids al i j :
  In (i, j) (matched_idx sids pids al) <->
  exists s p, In (0%Z, s, p) al /\ find_idx s sids = Some i /\ find_idx p pids = Some j.
Proof.
  unfold matched_idx. rewrite in_flat_map. split.
  - intros [[[lab s] p] [Ha Hin]].
    destruct (Z.eqb lab 0) eqn:E; [|destruct Hin].
    apply Z.eqb_eq in E. subst lab.
    destruct (find_idx s sids) as [i'|] eqn:F1; [|destruct Hin].
    destruct (find_idx p pids) as [j'|] eqn:F2; [|destruct Hin].
    destruct Hin as [X | []]. inversion X; subst. exists s, p. auto.
  - intros [s [p [Ha [F1 F2]]]]. exists (0%Z, s, p). split; [exact Ha|].
    simpl. rewrite F1, F2. left; reflexivity.
Qed.

(* in alignment order: one entry more in the alignment adds (at most) its pair at the end *)
Lemma matched_idx_app sids pids al1 al2 :
  matched_idx sids pids (al1 ++ al2) = matched_idx sids pids al1 ++ matched_idx sids pids al2.
Proof. unfold matched_idx. apply flat_map_app. Qed.

Lemma lex3_total a b : lex3_leb a b = true \/ lex3_leb b a = true.
Proof. destruct a as [[a1 a2] a3], b as [[b1 b2] b3]. unfold lex3_leb. lia. Qed.

Lemma matched_sorted_spec sna pna al :
  Permutation (matched_sorted sna pna al) (matched_idx (map s_id sna) (map p_id pna) al) /\
  Sorted (fun a b => lex3_leb (key3 sna a) (key3 sna b) = true) (matched_sorted sna pna al).
Proof.
  unfold matched_sorted. split.
  - apply isort_perm.
  - apply isort_sorted. intros a b. apply lex3_total.
Qed.

(* ---------- get_unique_onset_idxs always returns a partition of the note indices into non-empty groups ---------- *)
Lemma split_groups_concat key eps l : forall prev cur,
  List.concat (split_groups key eps prev cur l) = rev cur ++ l.
Proof.
  induction l as [|j r IH]; intros prev cur; simpl.
  - rewrite app_nil_r. reflexivity.
  - destruct (Qle_bool (key j - key prev) eps).
    + rewrite IH. simpl. rewrite <- app_assoc. reflexivity.
    + simpl. rewrite IH. reflexivity.
Qed.

Lemma split_groups_nonempty key eps l : forall prev cur, cur <> [] ->
  Forall (fun g => g <> []) (split_groups key eps prev cur l).
Proof.
  induction l as [|j r IH]; intros prev cur Hc; simpl.
  - constructor; [|constructor]. intro E. apply Hc. destruct cur; [reflexivity|].
    simpl in E. apply app_eq_nil in E as [_ E]. discriminate.
  - destruct (Qle_bool (key j - key prev) eps).
    + apply IH. discriminate.
    + constructor.
      * intro E. apply Hc. destruct cur; [reflexivity|]. simpl in E. apply app_eq_nil in E as [_ E]. discriminate.
      * apply IH. discriminate.
Qed.

Lemma existsb_eqb_In m g : existsb (Nat.eqb m) g = true <-> In m g.
Proof.
  rewrite existsb_exists. split.
  - intros [x [Hx E]]. apply Nat.eqb_eq in E. subst. exact Hx.
  - intros H. exists m. split; [exact H | apply Nat.eqb_refl].
Qed.

Lemma NoDup_app_r' {A} (a b : list A) : NoDup (a ++ b) -> NoDup b.
Proof. induction a as [|x a IH]; simpl; intros H; [exact H|]. inversion H; subst. apply IH. assumption. Qed.
Lemma NoDup_app_disj {A} (a b : list A) x : NoDup (a ++ b) -> In x a -> In x b -> False.
Proof.
  induction a as [|y a IH]; simpl; intros H Ha Hb; [destruct Ha|].
  inversion H; subst. destruct Ha as [E | Ha].
  - subst. apply H2. apply in_or_app. right. exact Hb.
  - apply IH; assumption.
Qed.

Lemma gidx_member G : NoDup (List.concat G) -> forall i m, (i < List.length G)%nat -> In m (nth i G []) -> gidx G m = i.
Proof.
  induction G as [|g r IH]; intros ND i m Hi Hm; simpl in *; [lia|].
  destruct i as [|i].
  - apply existsb_eqb_In in Hm. rewrite Hm. reflexivity.
  - assert (Hc : In m (List.concat r)).
    { apply in_concat. exists (nth i r []). split; [apply nth_In; lia | exact Hm]. }
    destruct (existsb (Nat.eqb m) g) eqn:E.
    + apply existsb_eqb_In in E. exfalso. exact (NoDup_app_disj g (List.concat r) m ND E Hc).
    + f_equal. apply IH; [exact (NoDup_app_r' _ _ ND) | lia | exact Hm].
Qed.

Lemma in_concat_nth (G : list (list nat)) j : In j (List.concat G) -> exists i, (i < List.length G)%nat /\ In j (nth i G []).
Proof.
  induction G as [|g r IH]; simpl; intros H; [destruct H|].
  apply in_app_or in H as [H | H].
  - exists O. split; [lia | exact H].
  - destruct (IH H) as [i [Hi Hj]]. exists (S i). split; [lia | exact Hj].
Qed.

Lemma groups_partition keys eps : groups_ok (groups keys eps) (List.length keys) = true.
Proof.
  set (n := List.length keys).
  assert (HP : Permutation (List.concat (groups keys eps)) (seq 0 n)).
  { unfold groups. pose proof (isort_perm (qkey_leb (nthQ keys)) (seq 0 n)) as HP.
    change (isort (qkey_leb (nthQ keys)) (seq 0 n)) with (sort_idx keys) in HP.
    destruct (sort_idx keys) as [|j r].
    - simpl. exact HP.
    - rewrite split_groups_concat. simpl. exact HP. }
  assert (HN : Forall (fun g => g <> []) (groups keys eps)).
  { unfold groups. destruct (sort_idx keys) as [|j r]; [constructor|].
    apply split_groups_nonempty. discriminate. }
  assert (ND : NoDup (List.concat (groups keys eps))).
  { apply (Permutation_NoDup (Permutation_sym HP)). apply seq_NoDup. }
  set (G := groups keys eps) in *.
  unfold groups_ok. apply andb_true_iff. split.
  - apply forallb_forall. intros j Hj. apply Nat.ltb_lt.
    assert (Hc : In j (List.concat G)) by (apply (Permutation_in _ (Permutation_sym HP)); exact Hj).
    destruct (in_concat_nth G j Hc) as [i [Hi Hm]].
    rewrite (gidx_member G ND i j Hi Hm). exact Hi.
  - apply forallb_forall. intros i Hi. apply in_seq in Hi. apply andb_true_iff. split.
    + apply forallb_forall. intros m Hm. apply andb_true_iff. split.
      * apply Nat.eqb_eq. apply gidx_member; [exact ND | lia | exact Hm].
      * apply Nat.ltb_lt.
        assert (Hc : In m (List.concat G)).
        { apply in_concat. exists (nth i G []). split; [apply nth_In; lia | exact Hm]. }
        apply (Permutation_in _ HP) in Hc. apply in_seq in Hc. lia.
    + apply negb_true_iff. apply Nat.eqb_neq.
      assert (Hlt : (i < List.length G)%nat) by lia.
      rewrite Forall_forall in HN. specialize (HN (nth i G []) (nth_In G [] Hlt)).
      destruct (nth i G []); [congruence | simpl; lia].
Qed.

Lemma codec_groups_partition so :
  groups_ok (enc_groups so) (List.length so) = true /\ groups_ok (dec_groups so) (List.length so) = true.
Proof.
  split.
  - unfold enc_groups. rewrite <- (map_length quantise so). apply groups_partition.
  - unfold dec_groups. apply groups_partition.
Qed.

(* ---------- the hypotheses are satisfiable by a non-trivial state ----------
   pickup note, a three-note chord, a grace note with its main note, a final note; performed with rubato *)
Definition ex_so : list Q := [-1; 0; 0; 0; 1; 1; 2 # 1].
Definition ex_sd : list Q := [1; 2; 1; 1; 0; 1; 2].
Definition ex_po : list Q := [1 # 2; 11 # 10; 9 # 8; 23 # 20; 17 # 10; 7 # 4; 5 # 2].
Definition ex_pd : list Q := [4 # 5; 1; 1 # 4; 1 # 2; 1 # 2; 3 # 4; 1].
Definition ex_G := enc_groups ex_so.
Definition ex_x := u_onsets ex_so (map2 Qplus ex_so ex_sd) ex_G.
Definition ex_s := u_onsets ex_po (map2 Qplus ex_po ex_pd) ex_G.
Example codec_example :
  ex_G = [[0]; [1; 2; 3]; [4; 5]; [6]]%nat /\
  dec_groups ex_so = ex_G /\ groups_ok ex_G (List.length ex_so) = true /\
  forallb (fun b => negb (Qle_bool b 0)) (tempo_average ex_x ex_s) = true /\
  forallb (fun b => negb (Qle_bool b 0)) (tempo_derivative ex_x ex_s) = true /\
  map (fun r => Qred (fst (fst r)))
      (decode Q meanQ (fun y => y) 0 (fun y => y) ex_so ex_sd ex_G
         (encode Q id_scale (fun y => y) ex_so ex_sd ex_po ex_pd [64; 1; 127; 30; 31; 32; 33]%Z ex_G
            (tempo_derivative ex_x ex_s)))
  = [0; 3 # 5; 5 # 8; 13 # 20; 6 # 5; 5 # 4; 2].
Proof. vm_compute. repeat split; reflexivity. Qed.
