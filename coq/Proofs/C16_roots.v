(* C16 -- chord roots and local keys (Model/C16_Roots.v):
   (1) the machine over the module-level tables: no call of the code changes them, so after ANY history every call
       returns what it returns in a fresh interpreter -- a function of its own arguments; a variant that keeps shared
       Interval objects per local-key degree and changes their quality in place does not;
   (2) that function is the diatonic arithmetic: process_local_key, find_root_note and find_bass_note move the key
       note by the staff steps and semitones of the interval the degree denotes (tr_spec of Model/C16.v). *)
From PV Require Import Lib.Base Model.C16 Model.C16_Roots Proofs.C16.
#[local] Open Scope Z_scope.

(* ---------- (1) histories ---------- *)
Lemma step_code_state o t : fst (step_code o t) = t.
Proof. destruct o; reflexivity. Qed.

Lemma run_code ops t : run step_code ops t = (map (fun o => snd (step_code o t)) ops, t).
Proof.
  induction ops as [|o r IH]; cbn [run map]; [reflexivity|].
  rewrite (surjective_pairing (step_code o t)), step_code_state, IH. reflexivity.
Qed.

Lemma roots_history_pure_lemma ops :
  fst (run step_code ops init_tables) = map obs_fresh ops /\ snd (run step_code ops init_tables) = init_tables.
Proof. rewrite run_code. split; reflexivity. Qed.

Lemma roots_history_after_any_lemma pre o :
  fst (run step_code (pre ++ [o]) init_tables) = fst (run step_code pre init_tables) ++ [obs_fresh o].
Proof. rewrite !run_code. cbn [fst]. rewrite map_app. reflexivity. Qed.

Lemma roots_history_reversed_lemma ops :
  fst (run step_code (rev ops) init_tables) = rev (fst (run step_code ops init_tables)).
Proof. rewrite !run_code. cbn [fst]. apply map_rev. Qed.

(* from any state of the tables (not only the initial one) the tables are left alone *)
Lemma roots_tables_untouched_lemma ops t : snd (run step_code ops t) = t.
Proof. rewrite run_code. reflexivity. Qed.

(* the table-mutating variant: bVII of C major, then VII of C major comes back as B flat *)
Lemma roots_history_shared_refuted_lemma :
  let bVII := mk_deg None (Some 7) (-1) false false in
  let VII := mk_deg None (Some 7) 0 false false in
  let C := (0, 0, false) in
  fst (run step_shared [OPlk bVII C false; OPlk VII C false] init_tables)
    = [BRes (RName (6, -1, false)); BRes (RName (6, -1, false))] /\
  obs_fresh (OPlk VII C false) = BRes (RName (6, 0, false)) /\
  snd (run step_shared [OPlk bVII C false] init_tables) <> init_tables.
Proof. vm_compute. repeat split. discriminate. Qed.

(* ---------- (2) change_quality moves the size by num ---------- *)
Lemma qual_offset_range n q o : qual_offset n q = Some o -> 0 <= q <= 6.
Proof.
  unfold qual_offset. destruct (perfect_number n); destruct q as [|p|p]; try discriminate; try (intros; lia).
  all: destruct p as [p|p|]; try discriminate; try (intros; lia).
  all: destruct p as [p|p|]; try discriminate; try (intros; lia).
  all: destruct p as [p|p|]; try discriminate; try (intros; lia).
Qed.

Lemma iv_semitones_range n q s : iv_semitones n q = Some s -> 1 <= n <= 7 /\ 0 <= q <= 6.
Proof.
  unfold iv_semitones. destruct ((1 <=? n) && (n <=? 7)) eqn:E; [|discriminate].
  destruct (qual_offset n q) as [o|] eqn:O; [|discriminate]. intros _.
  split; [lia | eapply qual_offset_range; eassumption].
Qed.

Lemma zindex_range x l i c : zindex x l i = Some c -> i <= c < i + Z.of_nat (List.length l).
Proof.
  revert i. induction l as [|y r IH]; intros i; cbn [zindex List.length]; [discriminate|].
  destruct (x =? y); [intros [= <-]; lia|]. intros H. apply IH in H. lia.
Qed.

Lemma znth_range l j v : znth l j = Some v -> 0 <= j < Z.of_nat (List.length l).
Proof.
  unfold znth. destruct (Z.ltb_spec j 0); [discriminate|]. intros E.
  assert (L : (Z.to_nat j < List.length l)%nat) by (apply nth_error_Some; congruence). lia.
Qed.

Lemma ladder_len n : Z.of_nat (List.length (ladder n)) <= 6.
Proof. unfold ladder. destruct (perfect8 n); cbn; lia. Qed.

Lemma cq_bounds n q k q' : change_quality n q k = Some q' -> -5 <= k <= 5.
Proof.
  unfold change_quality. destruct (Z.eqb_spec k 0); [lia|].
  destruct (zindex q (ladder n) 0) as [ci|] eqn:I; [|discriminate]. cbn [opt_bind].
  intros E. apply zindex_range in I. apply znth_range in E. pose proof (ladder_len n). lia.
Qed.

Definition cq_ok (x : Z * Z * Z) : bool :=
  let '(n, q, k) := x in
  match change_quality n q k, iv_semitones n q with
  | Some q', Some s => zopt_eqb (iv_semitones n q') (Some (s + k))
  | _, _ => true
  end.

Lemma cq_table : forallb cq_ok (list_prod (list_prod (zrange 1 7) (zrange 0 7)) (zrange (-5) 11)) = true.
Proof. vm_compute. reflexivity. Qed.

Lemma zopt_eqb_eq' a b : zopt_eqb a b = true -> a = b.
Proof. destruct a, b; cbn; try discriminate; try reflexivity. intros E. apply Z.eqb_eq in E. congruence. Qed.

Lemma change_quality_size_lemma n q k q' s :
  change_quality n q k = Some q' -> iv_semitones n q = Some s -> iv_semitones n q' = Some (s + k).
Proof.
  intros C S. destruct (iv_semitones_range _ _ _ S) as [Hn Hq].
  pose proof (cq_bounds _ _ _ _ C) as Hk.
  assert (I : In (n, q, k) (list_prod (list_prod (zrange 1 7) (zrange 0 7)) (zrange (-5) 11))).
  { apply in_prod; [apply in_prod|]; apply zrange_In; simpl; lia. }
  pose proof (forallb_In _ _ cq_table _ I) as E. unfold cq_ok in E. rewrite C, S in E.
  apply zopt_eqb_eq' in E. exact E.
Qed.

(* ---------- transpose_note with an interval value ---------- *)
Lemma tn_note_out_range n sem up i a i' a' : tn_note n sem up i a = Some (i', a') -> 0 <= i' <= 6.
Proof.
  unfold tn_note. destruct (up && (-3 <? a) && (a <? 3) && (n <? 8) && (0 <=? i) && (i <=? 6)); [|discriminate].
  destruct ((-3 <? _) && (_ <? 3)); [|discriminate]. intros [= <- _]. lia.
Qed.

Lemma tn_iv_spec iv i a i' a' :
  tn_iv iv i a = Some (i', a') ->
  exists sem, iv_semitones (fst iv) (snd iv) = Some sem /\ 0 <= i' <= 6 /\
    forall o, exists o', tr_spec (fst iv) sem true (i, a, o) = (i', a', o').
Proof.
  unfold tn_iv. destruct (iv_semitones (fst iv) (snd iv)) as [sem|] eqn:S; [|discriminate]. cbn [opt_bind].
  intros T. exists sem. split; [reflexivity|]. split; [eapply tn_note_out_range; eassumption|].
  destruct (iv_semitones_range _ _ _ S) as [Hn _].
  destruct (tn_note_agrees_lemma false (fst iv) sem true i a i' a' ltac:(lia) ltac:(discriminate) T) as (_ & Hi & _ & _ & H).
  intros o. destruct (H o) as [o' E]. exists o'. rewrite <- E. symmetry. apply tr_note_spec_lemma; [lia | lia | discriminate].
Qed.

(* ---------- process_local_key ---------- *)
Lemma lk_lookup minor n iv :
  zlookup n (lk_of init_tables minor) = Some iv ->
  1 <= n <= 7 /\ fst iv = n /\ iv_semitones n (snd iv) = Some (scale_size minor n).
Proof.
  destruct minor; cbn [lk_of init_tables t_lkmin t_lkmaj]; unfold lk_min, lk_maj; cbn [zlookup].
  all: repeat match goal with |- context [?x =? ?c] => destruct (Z.eqb_spec x c) as [->|_];
         [intros H; vm_compute in H; injection H as <-; split; [lia|split; [reflexivity|vm_compute; reflexivity]]|] end.
  all: discriminate.
Qed.

Lemma local_key_spec_lemma d k rsa n i' a' :
  plk_identity d k rsa = false -> d_num d = Some n ->
  (plk init_tables d k rsa = RPair i' a' \/ exists l, plk init_tables d k rsa = RName (i', a', l)) ->
  1 <= n <= 7 /\ 0 <= i' <= 6 /\
  forall o, exists o', tr_spec n (scale_size (snd k) n + d_acc d) true (fst (fst k), snd (fst k), o) = (i', a', o').
Proof.
  intros Hid Hn. unfold plk. rewrite Hid, Hn.
  destruct (zlookup n (lk_of init_tables (snd k))) as [iv|] eqn:L; [|intros [H|[l H]]; discriminate].
  destruct (lk_lookup _ _ _ L) as (Rn & Fn & S).
  destruct (change_quality (fst iv) (snd iv) (d_acc d)) as [q'|] eqn:C; [|intros [H|[l H]]; discriminate].
  rewrite Fn in C. pose proof (change_quality_size_lemma _ _ _ _ _ C S) as S'.
  destruct k as [[ki ka] kmin]. unfold plk_with. cbn [fst snd] in *. rewrite Fn.
  destruct (tn_iv (n, q') ki ka) as [[i2 a2]|] eqn:T; [|intros [H|[l H]]; discriminate].
  intros H. assert (i2 = i' /\ a2 = a') as [-> ->].
  { destruct rsa; destruct H as [H|[l H]]; try discriminate; injection H; auto. }
  destruct (tn_iv_spec _ _ _ _ _ T) as (sem & Hs & Hi & Ho). cbn [fst snd] in Hs, Ho.
  rewrite S' in Hs. injection Hs as <-. split; [exact Rn|]. split; [exact Hi|]. exact Ho.
Qed.

(* ---------- find_root_note ---------- *)
Lemma tr_spec_unison i a o : 0 <= i <= 6 -> tr_spec 1 0 true (i, a, o) = (i, a, o).
Proof.
  intros Hi. unfold tr_spec, diat. cbv zeta. replace (7 * o + i + (1 - 1)) with (7 * o + i) by lia.
  assert (E1 : (7 * o + i) mod 7 = i) by lia. assert (E2 : (7 * o + i) / 7 = o) by lia.
  rewrite E1, E2. unfold midi. f_equal; try f_equal; lia.
Qed.

Lemma sym_deg_size minor d iv i a i' a' :
  sym_iv init_tables minor d = Some iv -> tn_iv iv i a = Some (i', a') ->
  exists n s, deg_size minor d = Some (n, s) /\ 0 <= i' <= 6 /\
    forall o, exists o', tr_spec n s true (i, a, o) = (i', a', o').
Proof.
  intros Hs T. destruct (tn_iv_spec _ _ _ _ _ T) as (sem & S & Hi & Ho).
  exists (fst iv), sem. unfold deg_size. rewrite Hs, S. cbn [opt_bind]. auto.
Qed.

Lemma plk_deg_size d k rsa i' a' :
  sym_iv init_tables (snd k) d = None -> 0 <= fst (fst k) <= 6 ->
  (plk init_tables d k rsa = RPair i' a' \/ exists l, plk init_tables d k rsa = RName (i', a', l)) ->
  exists n s, deg_size (snd k) d = Some (n, s) /\ 0 <= i' <= 6 /\
    forall o, exists o', tr_spec n s true (fst (fst k), snd (fst k), o) = (i', a', o').
Proof.
  intros Hs Hk H. unfold deg_size. rewrite Hs.
  destruct (plk_identity d k rsa) eqn:Hid.
  - (* the shortcut: the key itself; the degree is "I" / "i" without accidentals *)
    unfold plk in H. rewrite Hid in H. destruct H as [H|[l H]]; [discriminate|].
    destruct k as [[ki ka] kmin]. injection H as -> -> _. cbn [fst snd] in *.
    unfold plk_identity in Hid. apply andb_true_iff in Hid as [Hid _]. apply andb_true_iff in Hid as [Hid Hacc].
    apply andb_true_iff in Hid as [_ H1]. apply Z.eqb_eq in Hacc.
    destruct (d_num d) as [n|]; [|discriminate]. assert (n = 1) as -> by (destruct n as [|[p|p|]|p]; try discriminate; reflexivity).
    cbn [opt_bind]. exists 1, (scale_size kmin 1 + d_acc d). split; [reflexivity|]. split; [lia|].
    intros o. exists o. rewrite Hacc. replace (scale_size kmin 1 + 0) with 0 by (destruct kmin; reflexivity).
    apply tr_spec_unison. lia.
  - unfold plk in H. rewrite Hid in H. destruct (d_num d) as [n|] eqn:Hn.
    + assert (H' : plk init_tables d k rsa = RPair i' a' \/ exists l, plk init_tables d k rsa = RName (i', a', l)).
      { unfold plk. rewrite Hid, Hn. exact H. }
      destruct (local_key_spec_lemma d k rsa n i' a' Hid Hn H') as (_ & Hi & Ho).
      cbn [opt_bind]. exists n, (scale_size (snd k) n + d_acc d). auto.
    + destruct H as [H|[l H]]; discriminate.
Qed.

Lemma root_spec_lemma k d1 d2 ri ra rl :
  0 <= fst (fst k) <= 6 ->
  find_root init_tables k d1 d2 = Some (ri, ra, rl) ->
  exists n2 s2 n1 s1 si sa,
    deg_size (snd k) d2 = Some (n2, s2) /\ deg_size (d_lower_all d2) d1 = Some (n1, s1) /\
    forall o, exists o' o'', tr_spec n2 s2 true (fst (fst k), snd (fst k), o) = (si, sa, o') /\
                             tr_spec n1 s1 true (si, sa, o') = (ri, ra, o'').
Proof.
  intros Hk. unfold find_root. destruct (stage1 init_tables k d2) as [[si sa]|] eqn:S1; [|discriminate].
  cbn [opt_bind fst snd].
  assert (A : exists n2 s2, deg_size (snd k) d2 = Some (n2, s2) /\ 0 <= si <= 6 /\
                forall o, exists o', tr_spec n2 s2 true (fst (fst k), snd (fst k), o) = (si, sa, o')).
  { unfold stage1 in S1. destruct (sym_iv init_tables (snd k) d2) as [iv|] eqn:Y.
    - eapply sym_deg_size; eassumption.
    - apply (plk_deg_size d2 k true si sa Y Hk). left.
      destruct (plk init_tables d2 k true); try discriminate. injection S1 as -> ->. reflexivity. }
  destruct A as (n2 & s2 & D2 & Hsi & O2).
  intros R.
  assert (B : exists n1 s1, deg_size (d_lower_all d2) d1 = Some (n1, s1) /\
                forall o, exists o', tr_spec n1 s1 true (si, sa, o) = (ri, ra, o')).
  { destruct (sym_iv init_tables (d_lower_all d2) d1) as [iv|] eqn:Y.
    - destruct (tn_iv iv si sa) as [[i2 a2]|] eqn:T; [|discriminate]. cbn [opt_bind fst snd] in R.
      injection R as -> -> _.
      destruct (sym_deg_size _ _ _ _ _ _ _ Y T) as (n1 & s1 & D1 & _ & O1). exists n1, s1. auto.
    - destruct (plk init_tables d1 (si, sa, d_lower_all d2) false) as [nm| |] eqn:P; try discriminate.
      injection R as ->.
      destruct (plk_deg_size d1 (si, sa, d_lower_all d2) false ri ra Y Hsi) as (n1 & s1 & D1 & _ & O1).
      { right. exists rl. exact P. }
      exists n1, s1. cbn [fst snd] in D1, O1. auto. }
  destruct B as (n1 & s1 & D1 & O1).
  exists n2, s2, n1, s1, si, sa. split; [exact D2|]. split; [exact D1|].
  intros o. destruct (O2 o) as [o' E2]. destruct (O1 o') as [o'' E1]. exists o', o''. auto.
Qed.

(* ---------- find_bass_note ---------- *)
Definition bass_interval (inv : Z) (prim_lower : bool) : Z * Z :=   (* number, semitones *)
  if inv =? 1 then (3, if prim_lower then 3 else 4) else if inv =? 2 then (5, 7) else if inv =? 3 then (7, 10) else (1, 0).

Lemma bass_spec_lemma ri ra rl inv pl bi ba bl :
  0 <= ri <= 6 -> find_bass (ri, ra, rl) inv pl = Some (bi, ba, bl) ->
  forall o, exists o', tr_spec (fst (bass_interval inv pl)) (snd (bass_interval inv pl)) true (ri, ra, o) = (bi, ba, o').
Proof.
  intros Hr. unfold find_bass, bass_interval.
  destruct (inv =? 1); [|destruct (inv =? 2); [|destruct (inv =? 3)]].
  1-3: match goal with |- context [tn_iv ?iv ?x ?y] => destruct (tn_iv iv x y) as [[i2 a2]|] eqn:T end; [|discriminate];
       cbn [opt_bind fst snd]; intros [= -> -> _]; destruct (tn_iv_spec _ _ _ _ _ T) as (sem & S & _ & O); cbn [fst snd] in S, O.
  - destruct pl; vm_compute in S; injection S as <-; exact O.
  - vm_compute in S; injection S as <-; exact O.
  - vm_compute in S; injection S as <-; exact O.
  - destruct ((-3 <? ra) && (ra <? 3)); [|discriminate]. intros [= -> -> _] o. exists o. cbn [fst snd]. apply tr_spec_unison. exact Hr.
Qed.

(* non-vacuity: V65/bVII in C major -- the dominant of B flat: root F, bass A; bII in a minor: B flat *)
Lemma roots_example_lemma :
  let C := (0, 0, false) in
  let V := mk_deg (Some 5) (Some 5) 0 false false in
  let bVII := mk_deg None (Some 7) (-1) false false in
  find_root init_tables C V bVII = Some (3, 0, false) /\
  find_bass (3, 0, false) 1 false = Some (5, 0, false) /\
  plk init_tables (mk_deg None (Some 2) (-1) false false) (5, 0, true) false = RName (6, -1, false).
Proof. vm_compute. repeat split. Qed.
