(* C02_api -- proofs about Model/C02_Api.v:
   (1) the loop of Part._time_interpolator (dict of keypoints, sweep with running cur_div / cur_bt, cumsum)
       computes exactly the table-lookup form base_pts / time_pts of Model/C02.v, so every map theorem
       of Proofs/C02.v is a theorem about the loop; no keypoint is dropped;
   (2) parts built by ANY history of add(Note) / add(Measure) / add(TimeSignature) / remove(TimeSignature) /
       set_quarter_duration / musical-beat switches are well-formed; first / last point = smallest / largest
       time at which a present object starts or ends (every signature change lies on the timeline); the
       opening measure is the first measure, in call order, starting at the first point; remove undoes add;
   (3) the quarter map and the beat map take the same decision about the pickup when no other signature
       takes effect inside the first measure;
   (4) the interpolation wrapper: the time maps always take scipy's branch (>= 2 keypoints); quarter_duration_map
       as built returns the divisions in force at any rational time and is single-point safe. *)
From PV Require Import Lib.Base Model.C02 Model.C02_Hist Model.C02_Api Proofs.C02_lib Proofs.C02 Proofs.C02_hist.
From Coq Require Import QArith Qround Qfield Lqa.
#[local] Open Scope Z_scope.

(* ------------------------------------------------------------ the dict *)
Lemma dict_get_some {A} t : forall (tbl : list (Z * A)) acc v,
  dict_get tbl t acc = Some v -> In (t, v) tbl \/ acc = Some v.
Proof.
  induction tbl as [|[k v0] r IH]; intros acc v H; simpl in H; auto.
  apply IH in H as [H|H]; [left; right; auto|].
  destruct (k =? t) eqn:E; auto. inversion H; subst. left; left. f_equal. lia.
Qed.

Lemma dict_get_none {A} t : forall (tbl : list (Z * A)) acc,
  dict_get tbl t acc = None -> acc = None /\ forall k v, In (k, v) tbl -> k <> t.
Proof.
  induction tbl as [|[k v0] r IH]; intros acc H; simpl in H.
  - split; [auto|intros k v []].
  - apply IH in H as [Hacc Hr]. destruct (k =? t) eqn:E; [discriminate|].
    split; auto. intros k' v' [Ein|Hin]; [inversion Ein; subst; lia|eauto].
Qed.

Lemma prev_lookup_at_key {A} t v : forall (tbl : list (Z * A)) d,
  keys_incr tbl -> In (t, v) tbl -> prev_lookup tbl t d = v.
Proof.
  induction tbl as [|[k v0] r IH]; intros d Hs Hin; [inversion Hin|]. simpl.
  destruct Hin as [E|Hin].
  - inversion E; subst. replace (t <=? t) with true by lia.
    apply prev_lookup_default. intros k' v' H. exact (keys_incr_gt _ _ _ Hs _ _ H).
  - pose proof (keys_incr_gt _ _ _ Hs _ _ Hin). replace (k <=? t) with true by lia.
    apply IH; auto. eapply keys_incr_tail; eauto.
Qed.

(* the running value: what the entry at t says, else what was in force at the previous key *)
Lemma get_or_carry {A} (tbl : list (Z * A)) t a d : keys_incr tbl -> a < t ->
  (forall k v, In (k, v) tbl -> k <= a \/ t <= k) ->
  match dict_get tbl t None with Some v => v | None => prev_lookup tbl a d end = prev_lookup tbl t d.
Proof.
  intros Hs Hat Hno. destruct (dict_get tbl t None) as [v|] eqn:E.
  - apply dict_get_some in E as [E|E]; [|discriminate]. symmetry. apply prev_lookup_at_key; auto.
  - apply dict_get_none in E as [_ E]. symmetry. apply prev_lookup_same; [|lia].
    intros k v Hin Hk. destruct (Hno k v Hin); [lia|]. specialize (E k v Hin). lia.
Qed.

Lemma sweep_lookup (tq : list (Z * Z)) (tb : list (Z * Q)) : keys_incr tq -> keys_incr tb ->
  forall xs a, zincr (a :: xs) ->
  (forall k v, In (k, v) tq -> k <= a \/ In k xs) -> (forall k v, In (k, v) tb -> k <= a \/ In k xs) ->
  sweep (fun t => dict_get tq t None) (fun t => dict_get tb t None) (prev_lookup tq a 1) (prev_lookup tb a 1%Q) xs =
  map (fun t => (t, prev_lookup tq t 1, prev_lookup tb t 1%Q)) xs.
Proof.
  intros Hq Hb. induction xs as [|t r IH]; intros a Hinc Hkq Hkb; simpl; auto.
  destruct (zincr_inv _ _ Hinc) as [Hlt Hr]. assert (Hat : a < t) by (apply Hlt; left; auto).
  destruct (zincr_inv _ _ Hr) as [Hlt' _].
  assert (Eq : match dict_get tq t None with Some v => v | None => prev_lookup tq a 1 end = prev_lookup tq t 1).
  { apply get_or_carry; auto. intros k v Hin. destruct (Hkq k v Hin) as [H|[H|H]]; [left; auto|right; lia|].
    right. specialize (Hlt' k H). lia. }
  assert (Eb : match dict_get tb t None with Some v => v | None => prev_lookup tb a 1%Q end = prev_lookup tb t 1%Q).
  { apply get_or_carry; auto. intros k v Hin. destruct (Hkb k v Hin) as [H|[H|H]]; [left; auto|right; lia|].
    right. specialize (Hlt' k H). lia. }
  rewrite Eq, Eb. f_equal. apply IH; auto.
  - intros k v Hin. destruct (Hkq k v Hin) as [H|[H|H]]; [left; lia|left; lia|right; auto].
  - intros k v Hin. destruct (Hkb k v Hin) as [H|[H|H]]; [left; lia|left; lia|right; auto].
Qed.

Lemma bt_table_incr m p : keys_incr (map (fun ts => (ts_t ts, ts)) (p_tss p)) -> keys_incr (bt_table m p).
Proof.
  intros Hs. destruct m; simpl; auto.
  - exact (keys_incr_map (ts_factor Beat) ts_t _ Hs).
  - exact (keys_incr_map (ts_factor Musical) ts_t _ Hs).
Qed.

(* the rows the loop appends: one per sorted key, none dropped, carrying the values in force *)
Theorem sweep_rows m p : keys_incr (p_qs p) -> keys_incr (map (fun ts => (ts_t ts, ts)) (p_tss p)) ->
  kp_rows m p = map (fun t => (t, div_at p t, bt_at m p t)) (kp_xs m p).
Proof.
  intros Hq Hts. pose proof (bt_table_incr m p Hts) as Hb.
  unfold kp_rows, div_at, bt_at.
  pose proof (zsort_dedup_incr (p_first p :: p_last p :: map fst (p_qs p) ++ map fst (bt_table m p))) as Hinc.
  fold (kp_xs m p) in Hinc.
  assert (Kq : forall k v, In (k, v) (p_qs p) -> In k (kp_xs m p)).
  { intros k v H. apply zsort_dedup_In. right; right. apply in_or_app. left.
    change k with (fst (k, v)). apply in_map; auto. }
  assert (Kb : forall k v, In (k, v) (bt_table m p) -> In k (kp_xs m p)).
  { intros k v H. apply zsort_dedup_In. right; right. apply in_or_app. right.
    change k with (fst (k, v)). apply in_map; auto. }
  destruct (kp_xs m p) as [|x0 rest] eqn:E; [reflexivity|].
  destruct (zincr_inv _ _ Hinc) as [Hlt _].
  assert (Hall : forall z, In z (x0 :: rest) -> x0 - 1 < z).
  { intros z [->|Hz]; [lia|]. specialize (Hlt z Hz). lia. }
  rewrite <- (sweep_lookup (p_qs p) (bt_table m p) Hq Hb (x0 :: rest) (x0 - 1)).
  - rewrite !prev_lookup_default; auto.
    + intros k v H. apply Hall. eapply Kb; eauto.
    + intros k v H. apply Hall. eapply Kq; eauto.
  - constructor; auto.
  - intros k v H. right. eapply Kq; eauto.
  - intros k v H. right. eapply Kb; eauto.
Qed.

Lemma cumsum_rows_cum (D : Z -> Z) (B : Z -> Q) : forall xs x0 y0,
  cumsum_rows y0 (map (fun t => (t, D t, B t)) (x0 :: xs)) =
  cum (fun t => (B t / inject_Z (D t))%Q) x0 y0 xs.
Proof.
  induction xs as [|x1 r IH]; intros x0 y0; [reflexivity|].
  change (map (fun t => (t, D t, B t)) (x0 :: x1 :: r)) with ((x0, D x0, B x0) :: map (fun t => (t, D t, B t)) (x1 :: r)).
  simpl cumsum_rows at 1. cbn [map]. simpl cum. f_equal. rewrite <- IH. reflexivity.
Qed.

(* the loop of the code computes the table-lookup form the theorems are about *)
Theorem sweep_refines m p : keys_incr (p_qs p) -> keys_incr (map (fun ts => (ts_t ts, ts)) (p_tss p)) ->
  sweep_pts m p = base_pts m p /\ sweep_time_pts m p = time_pts m p.
Proof.
  intros Hq Hts.
  assert (E : sweep_pts m p = base_pts m p).
  { unfold sweep_pts, base_pts. f_equal. rewrite (sweep_rows m p Hq Hts).
    destruct (kp_xs m p) as [|x0 rest]; [reflexivity|].
    unfold knots. cbn [map sweep_knots]. f_equal.
    exact (cumsum_rows_cum (div_at p) (bt_at m p) rest x0 0%Q). }
  split; auto. unfold sweep_time_pts, time_pts. rewrite E. reflexivity.
Qed.

(* no row is dropped: one row per keypoint (the `kp != keypoints_list[-1]` of the code never fires) *)
Theorem sweep_keeps_every_keypoint m p : map (fun r => fst (fst r)) (kp_rows m p) = kp_xs m p.
Proof.
  unfold kp_rows. generalize 1 1%Q. induction (kp_xs m p) as [|t r IH]; intros cd cb; simpl; auto.
  f_equal. apply IH.
Qed.

(* ------------------------------------------------------------ min / max of the time points *)
Lemma fold_min_le : forall r x, fold_left Z.min r x <= x /\ forall z, In z r -> fold_left Z.min r x <= z.
Proof.
  induction r as [|y r IH]; intros x; simpl; [split; [lia|intros z []]|].
  destruct (IH (Z.min x y)) as [H1 H2]. split; [lia|].
  intros z [->|Hz]; [lia|auto].
Qed.

Lemma fold_min_In : forall r x, In (fold_left Z.min r x) (x :: r).
Proof.
  induction r as [|y r IH]; intros x; simpl; auto.
  destruct (IH (Z.min x y)) as [H|H]; [|right; right; auto].
  rewrite <- H. destruct (Z.min_spec x y) as [[_ E]|[_ E]]; rewrite E; auto.
Qed.

Lemma fold_max_ge : forall r x, x <= fold_left Z.max r x /\ forall z, In z r -> z <= fold_left Z.max r x.
Proof.
  induction r as [|y r IH]; intros x; simpl; [split; [lia|intros z []]|].
  destruct (IH (Z.max x y)) as [H1 H2]. split; [lia|].
  intros z [->|Hz]; [lia|auto].
Qed.

Lemma fold_max_In : forall r x, In (fold_left Z.max r x) (x :: r).
Proof.
  induction r as [|y r IH]; intros x; simpl; auto.
  destruct (IH (Z.max x y)) as [H|H]; [|right; right; auto].
  rewrite <- H. destruct (Z.max_spec x y) as [[_ E]|[_ E]]; rewrite E; auto.
Qed.

Lemma zmin_of_le l z : In z l -> zmin_of l <= z.
Proof.
  destruct l as [|x r]; [intros []|]. simpl. destruct (fold_min_le r x) as [H1 H2].
  intros [->|Hz]; auto.
Qed.
Lemma zmax_of_ge l z : In z l -> z <= zmax_of l.
Proof.
  destruct l as [|x r]; [intros []|]. simpl. destruct (fold_max_ge r x) as [H1 H2].
  intros [->|Hz]; auto.
Qed.
Lemma zmin_of_In l : l <> [] -> In (zmin_of l) l.
Proof. destruct l as [|x r]; [congruence|]. intros _. apply fold_min_In. Qed.
Lemma zmax_of_In l : l <> [] -> In (zmax_of l) l.
Proof. destruct l as [|x r]; [congruence|]. intros _. apply fold_max_In. Qed.

Lemma ends_of_In l s e : In (s, e) l -> In s (ends_of l) /\ In e (ends_of l).
Proof.
  intros H. unfold ends_of. split; apply in_flat_map; exists (s, e); simpl; auto.
Qed.

Lemma ends_of_inv l t : In t (ends_of l) -> exists s e, In (s, e) l /\ (t = s \/ t = e).
Proof.
  unfold ends_of. intros H. apply in_flat_map in H as [[s e] [Hin H]]. simpl in H.
  exists s, e. split; auto. destruct H as [H|[H|[]]]; auto.
Qed.

(* ------------------------------------------------------------ remove(TimeSignature) *)
Lemma rem_ts_In t l ts : In ts (rem_ts t l) <-> In ts l /\ ts_t ts <> t.
Proof.
  unfold rem_ts. rewrite filter_In. split; intros [H1 H2]; split; auto.
  - destruct (ts_t ts =? t) eqn:E; [discriminate|lia].
  - destruct (ts_t ts =? t) eqn:E; auto. lia.
Qed.

Lemma filter_all {A} (f : A -> bool) : forall l, (forall x, In x l -> f x = true) -> filter f l = l.
Proof.
  induction l as [|x r IH]; intros H; simpl; auto.
  rewrite (H x (or_introl eq_refl)). f_equal. apply IH. intros y Hy. apply H. right; auto.
Qed.

(* adding a signature and removing it again leaves the signatures as they were *)
Lemma rem_insert_id x : forall l, (forall y, In y l -> ts_t y <> ts_t x) -> rem_ts (ts_t x) (insert_ts x l) = l.
Proof.
  assert (All : forall l, (forall y, In y l -> ts_t y <> ts_t x) -> rem_ts (ts_t x) l = l).
  { intros l H. apply filter_all. intros y Hy. specialize (H y Hy). destruct (ts_t y =? ts_t x) eqn:E; auto. lia. }
  induction l as [|y r IH]; intros H; simpl.
  - unfold rem_ts. simpl. rewrite Z.eqb_refl. reflexivity.
  - destruct (ts_t x <? ts_t y).
    + unfold rem_ts. simpl filter. rewrite Z.eqb_refl. simpl negb. cbv iota. apply (All (y :: r)); auto.
    + unfold rem_ts. simpl filter. pose proof (H y (or_introl eq_refl)).
      replace (ts_t y =? ts_t x) with false by lia. simpl negb. cbv iota. f_equal.
      apply IH. intros z Hz. apply H. right; auto.
Qed.

Lemma rem_ts_incr t : forall l, keys_incr (map tkey l) -> keys_incr (map tkey (rem_ts t l)).
Proof.
  induction l as [|x r IH]; intros Hs; simpl; auto.
  change (keys_incr (tkey x :: map tkey r)) in Hs. unfold tkey at 1 in Hs.
  pose proof (keys_incr_tail _ _ _ Hs) as Hr.
  destruct (negb (ts_t x =? t)); auto.
  change (keys_incr (tkey x :: map tkey (rem_ts t r))). unfold tkey at 1.
  apply keys_incr_cons_all; auto.
  intros k' v' H. apply in_map_iff in H as [y [Ey Hy]]. inversion Ey; subst.
  apply rem_ts_In in Hy as [Hy _].
  exact (keys_incr_gt _ _ _ Hs (ts_t v') v' ltac:(apply in_map_iff; exists v'; auto)).
Qed.

(* ------------------------------------------------------------ API histories *)
(* what the harness generates: non-negative times, positive values, a signature is added only where
   none is present (after remove(...) the time is free again), notes and measures with start <= end *)
Definition aop_ok (st : astate) (op : aop) : Prop :=
  match op with
  | ASetQ t q => 0 <= t /\ 0 < q
  | AAddTs t b bt => 0 <= t /\ 0 < b /\ 0 < bt /\ forall ts, In ts (h_tss (a_h st)) -> ts_t ts <> t
  | ARemTs t => True
  | AAddNote s e => 0 <= s <= e
  | AAddMeasure s e => 0 <= s <= e
  | ABeat o => forall b bt v, In (b, bt, v) (tab_of o) -> 0 < v
  end.

Fixpoint ahist_ok (st : astate) (h : list aop) : Prop :=
  match h with
  | [] => True
  | op :: r => aop_ok st op /\ ahist_ok (astep st op) r
  end.

Definition ainv (st : astate) : Prop :=
  hinv (a_h st) /\ (forall s e, In (s, e) (a_notes st) -> 0 <= s <= e) /\
  (forall s e, In (s, e) (a_meas st) -> 0 <= s <= e).

Lemma astep_inv st op : ainv st -> aop_ok st op -> ainv (astep st op).
Proof.
  intros [Hh [Hn Hm]] Hop. destruct op as [t q|t b bt|t|s e|s e|o]; simpl in *.
  - split; [|split; auto].
    apply (hstep_inv (a_h st) (HSetQ t q)); auto. intros t' b' bt' E; discriminate.
  - destruct Hop as [H0 [Hb [Hbt Hfresh]]]. split; [|split; auto].
    apply (hstep_inv (a_h st) (HAddTs t b bt)); auto; [simpl; auto|].
    intros t' b' bt' E. inversion E; subst. auto.
  - split; [|split; auto]. destruct Hh as [Hq [Hpos [Hhd [Hts Hok]]]].
    unfold hinv; simpl. refine (conj Hq (conj Hpos (conj Hhd (conj _ _)))).
    + apply rem_ts_incr; auto.
    + intros ts Hin. apply rem_ts_In in Hin as [Hin _]. auto.
  - split; [auto|split; auto]. intros s' e' Hin. apply in_app_or in Hin as [Hin|[E|[]]]; auto.
    inversion E; subst; auto.
  - split; [auto|split; auto]. intros s' e' Hin. apply in_app_or in Hin as [Hin|[E|[]]]; auto.
    inversion E; subst; auto.
  - split; [|split; auto].
    apply (hstep_inv (a_h st) (HBeat o)); auto. intros t' b' bt' E; discriminate.
Qed.

Lemma arun_inv : forall h st, ainv st -> ahist_ok st h -> ainv (fold_left astep h st).
Proof.
  induction h as [|op h IH]; intros st Hinv Hok; simpl; auto.
  destruct Hok as [Hop Hok]. apply IH; auto. apply astep_inv; auto.
Qed.

Lemma ainit_inv q0 : 0 < q0 -> ainv (ainit q0).
Proof. intros H. split; [apply hinit_inv; auto|]. split; intros s e []. Qed.

(* the notes / measures of the final state are the ones added, in call order *)
Fixpoint notes_of (h : list aop) : list (Z * Z) :=
  match h with [] => [] | AAddNote s e :: r => (s, e) :: notes_of r | _ :: r => notes_of r end.
Fixpoint meas_of (h : list aop) : list (Z * Z) :=
  match h with [] => [] | AAddMeasure s e :: r => (s, e) :: meas_of r | _ :: r => meas_of r end.

Lemma fold_notes : forall h st, a_notes (fold_left astep h st) = a_notes st ++ notes_of h.
Proof.
  induction h as [|op h IH]; intros st; simpl; [rewrite app_nil_r; auto|].
  rewrite IH. destruct op; simpl; auto. rewrite <- app_assoc. reflexivity.
Qed.
Lemma fold_meas : forall h st, a_meas (fold_left astep h st) = a_meas st ++ meas_of h.
Proof.
  induction h as [|op h IH]; intros st; simpl; [rewrite app_nil_r; auto|].
  rewrite IH. destruct op; simpl; auto. rewrite <- app_assoc. reflexivity.
Qed.
Lemma notes_of_In s e : forall h, In (s, e) (notes_of h) <-> In (AAddNote s e) h.
Proof.
  induction h as [|op h IH]; simpl; [tauto|].
  destruct op; simpl; rewrite ?IH; try (split; [auto|intros [H|H]; [discriminate|auto]]).
  split; intros [H|H]; auto; inversion H; auto.
Qed.
Lemma meas_of_In s e : forall h, In (s, e) (meas_of h) <-> In (AAddMeasure s e) h.
Proof.
  induction h as [|op h IH]; simpl; [tauto|].
  destruct op; simpl; rewrite ?IH; try (split; [auto|intros [H|H]; [discriminate|auto]]).
  split; intros [H|H]; auto; inversion H; auto.
Qed.
Lemma meas_of_app h1 h2 : meas_of (h1 ++ h2) = meas_of h1 ++ meas_of h2.
Proof. induction h1 as [|op h IH]; simpl; auto. destruct op; simpl; auto. f_equal; auto. Qed.

Lemma arun_notes q0 h : a_notes (arun q0 h) = notes_of h.
Proof. unfold arun. rewrite fold_notes. reflexivity. Qed.
Lemma arun_meas q0 h : a_meas (arun q0 h) = meas_of h.
Proof. unfold arun. rewrite fold_meas. reflexivity. Qed.

Lemma ahist_inv q0 h : 0 < q0 -> ahist_ok (ainit q0) h -> ainv (arun q0 h).
Proof. intros Hq Hok. apply arun_inv; auto. apply ainit_inv; auto. Qed.

(* ---- the extent of the timeline *)
Lemma a_times_cases st t : In t (a_times st) <->
  (exists s e, In (s, e) (a_notes st) /\ (t = s \/ t = e)) \/
  (exists s e, In (s, e) (a_meas st) /\ (t = s \/ t = e)) \/
  (exists ts, In ts (h_tss (a_h st)) /\ t = ts_t ts).
Proof.
  unfold a_times. rewrite !in_app_iff. split.
  - intros [H|[H|H]].
    + left. apply ends_of_inv; auto.
    + right; left. apply ends_of_inv; auto.
    + right; right. apply in_map_iff in H as [ts [E Hin]]. exists ts; auto.
  - intros [[s [e [Hin [->| ->]]]]|[[s [e [Hin [->| ->]]]]|[ts [Hin ->]]]].
    + left. apply (ends_of_In _ s e); auto.
    + left. apply (ends_of_In _ s e); auto.
    + right; left. apply (ends_of_In _ s e); auto.
    + right; left. apply (ends_of_In _ s e); auto.
    + right; right. apply in_map; auto.
Qed.

Lemma a_times_range st t : In t (a_times st) -> afirst st <= t <= alast st.
Proof. intros H. split; [apply zmin_of_le|apply zmax_of_ge]; auto. Qed.

Lemma ainv_times_nonneg st : ainv st -> forall t, In t (a_times st) -> 0 <= t.
Proof.
  intros [[_ [_ [_ [_ Hts]]]] [Hn Hm]] t H. apply a_times_cases in H.
  destruct H as [[s [e [Hin [->| ->]]]]|[[s [e [Hin [->| ->]]]]|[ts [Hin ->]]]].
  - specialize (Hn s e Hin); lia.
  - specialize (Hn s e Hin); lia.
  - specialize (Hm s e Hin); lia.
  - specialize (Hm s e Hin); lia.
  - apply Hts; auto.
Qed.

Definition has_note (h : list aop) : Prop := exists s e, In (AAddNote s e) h /\ s < e.

Lemma has_note_extent q0 h : has_note h ->
  a_times (arun q0 h) <> [] /\ afirst (arun q0 h) < alast (arun q0 h).
Proof.
  intros [s [e [Hin Hlt]]].
  assert (Hn : In (s, e) (a_notes (arun q0 h))) by (rewrite arun_notes; apply notes_of_In; auto).
  assert (Hs : In s (a_times (arun q0 h))) by (apply a_times_cases; left; exists s, e; auto).
  assert (He : In e (a_times (arun q0 h))) by (apply a_times_cases; left; exists s, e; auto).
  split; [intros E; rewrite E in Hs; inversion Hs|].
  pose proof (a_times_range _ _ Hs). pose proof (a_times_range _ _ He). lia.
Qed.

(* every part the public API builds (notes, measures, signatures added and removed, quarter durations,
   beat switches, in any order) satisfies the hypothesis of the map theorems *)
Theorem api_wf q0 h : 0 < q0 -> ahist_ok (ainit q0) h -> has_note h -> wf (apart q0 h).
Proof.
  intros Hq0 Hok Hn. destruct (ahist_inv q0 h Hq0 Hok) as [[Hq [Hpos [_ [Hts Hok']]]] _].
  destruct (has_note_extent q0 h Hn) as [_ Hfl].
  unfold wf, apart, apart_of; simpl. split; auto. split; auto. split; auto. split; auto.
  intros ts Hin. apply Hok'; auto.
Qed.

(* division 0 (the entry Part.__init__ creates) is the smallest keypoint *)
Lemma kp_min_zero m p : wf p -> (exists v0 r, p_qs p = (0, v0) :: r) ->
  (forall ts, In ts (p_tss p) -> 0 <= ts_t ts) -> 0 <= p_first p -> kp_min m p = 0.
Proof.
  intros Hwf [v0 [r0 Hhd]] Hts Hf.
  destruct (xs_shape m _ Hwf) as [x0 [rest [E [Hne [Hinc [Hf' [Hl Hmin]]]]]]].
  rewrite Hmin.
  assert (Hin0 : In 0 (kp_xs m p)) by (apply (kp_qkey m _ 0 v0); rewrite Hhd; left; auto).
  assert (Hx0 : In x0 (kp_xs m p)) by (rewrite E; left; auto).
  assert (Hge : 0 <= x0).
  { unfold kp_xs in Hx0. apply (proj1 (zsort_dedup_In _ _)) in Hx0.
    destruct Hwf as [Hq [_ [_ [_ Hfl]]]].
    destruct Hx0 as [Ex|[Ex|Hx0]]; [lia|lia|].
    apply in_app_or in Hx0 as [Hx0|Hx0].
    - apply in_map_iff in Hx0 as [[k q] [Ek Hk]]. simpl in Ek. subst k.
      rewrite Hhd in Hk. destruct Hk as [Ek|Hk]; [inversion Ek; lia|].
      rewrite Hhd in Hq. pose proof (keys_incr_gt _ _ _ Hq _ _ Hk). lia.
    - apply in_map_iff in Hx0 as [[k f] [Ek Hk]]. simpl in Ek. subst k.
      apply bt_table_In in Hk as [ts [Hin [-> _]]]. apply Hts; auto. }
  rewrite E in Hin0. destruct Hin0 as [->|Hin0]; auto.
  destruct (zincr_inv _ _ Hinc) as [Hlt _]. specialize (Hlt 0 Hin0). lia.
Qed.

Theorem api_kp_min m q0 h : 0 < q0 -> ahist_ok (ainit q0) h -> has_note h ->
  kp_min m (apart q0 h) = 0 /\ 0 <= p_first (apart q0 h).
Proof.
  intros Hq0 Hok Hn. pose proof (api_wf q0 h Hq0 Hok Hn) as Hwf.
  pose proof (ahist_inv q0 h Hq0 Hok) as Hinv.
  destruct (has_note_extent q0 h Hn) as [Hne _].
  assert (H0 : 0 <= p_first (apart q0 h)).
  { apply (ainv_times_nonneg _ Hinv). apply zmin_of_In; auto. }
  split; auto. destruct Hinv as [[_ [_ [Hhd [_ Hts]]]] _].
  apply kp_min_zero; auto. intros ts Hin. apply Hts; auto.
Qed.

(* first_point / last_point: the smallest / largest time at which an object present in the part starts
   or ends; in particular every time signature change lies ON the timeline *)
Theorem api_extent q0 h : has_note h -> let p := apart q0 h in
  (forall s e, In (AAddNote s e) h \/ In (AAddMeasure s e) h -> p_first p <= s <= p_last p /\ p_first p <= e <= p_last p) /\
  (forall ts, In ts (p_tss p) -> p_first p <= ts_t ts <= p_last p) /\
  In (p_first p) (a_times (arun q0 h)) /\ In (p_last p) (a_times (arun q0 h)).
Proof.
  intros Hn p. destruct (has_note_extent q0 h Hn) as [Hne _].
  split; [|split; [|split]].
  - intros s e H.
    assert (In s (a_times (arun q0 h)) /\ In e (a_times (arun q0 h))) as [Hs He].
    { destruct H as [H|H].
      - apply notes_of_In in H. rewrite <- (arun_notes q0) in H.
        split; apply a_times_cases; left; exists s, e; auto.
      - apply meas_of_In in H. rewrite <- (arun_meas q0) in H.
        split; apply a_times_cases; right; left; exists s, e; auto. }
    split; apply a_times_range; auto.
  - intros ts Hin. apply a_times_range. apply a_times_cases. right; right. exists ts; auto.
  - apply zmin_of_In; auto.
  - apply zmax_of_In; auto.
Qed.

(* ---- the opening measure *)
Lemma find_first_app {A} (f : A -> bool) x : forall l1 l2,
  (forall y, In y l1 -> f y = false) -> f x = true -> find f (l1 ++ x :: l2) = Some x.
Proof.
  induction l1 as [|y r IH]; intros l2 H Hx; simpl; [rewrite Hx; auto|].
  rewrite (H y (or_introl eq_refl)). apply IH; auto. intros z Hz. apply H. right; auto.
Qed.

(* m1 is a measure that starts at the first time point: the first such measure in call order;
   without one there is no pickup shift *)
Theorem api_m1 q0 h : let p := apart q0 h in
  (forall s e, p_m1 p = Some (s, e) -> s = p_first p /\ In (AAddMeasure s e) h) /\
  ((forall s e, In (AAddMeasure s e) h -> s <> p_first p) -> p_m1 p = None) /\
  (forall h1 h2 s e, h = h1 ++ AAddMeasure s e :: h2 -> s = p_first p ->
     (forall s' e', In (AAddMeasure s' e') h1 -> s' <> p_first p) -> p_m1 p = Some (s, e)).
Proof.
  intros p. unfold p, apart, apart_of; simpl. unfold am1. rewrite arun_meas.
  split; [|split].
  - intros s e H. apply find_some in H as [Hin E]. simpl in E. split; [lia|]. apply meas_of_In; auto.
  - intros H. destruct (find _ (meas_of h)) as [[s e]|] eqn:E; auto.
    apply find_some in E as [Hin E]. simpl in E. apply meas_of_In in Hin. specialize (H s e Hin). lia.
  - intros h1 h2 s e -> Hs Hno. rewrite meas_of_app. simpl meas_of. apply find_first_app.
    + intros [s' e'] Hin. apply meas_of_In in Hin. specialize (Hno s' e' Hin). simpl. lia.
    + simpl. lia.
Qed.

(* the part opens without a measure (measures may follow later): zero lies at the first time point *)
Theorem api_origin_no_opening_measure m q0 h v : 0 < q0 -> ahist_ok (ainit q0) h -> has_note h ->
  let p := apart q0 h in p_first p = 0 ->
  (forall s e, In (AAddMeasure s e) h -> s <> 0) -> tmapz m p 0 = Some v -> (v == 0)%Q.
Proof.
  intros Hq0 Hok Hn p Hf Hno Hv.
  pose proof (api_wf q0 h Hq0 Hok Hn) as Hwf. fold p in Hwf.
  destruct (api_kp_min m q0 h Hq0 Hok Hn) as [Hmin _]. fold p in Hmin.
  destruct (api_m1 q0 h) as [_ [Hnone _]]. fold p in Hnone.
  apply (origin_no_pickup m p Hwf v); try congruence.
  rewrite (pickup_shift_none m p); [reflexivity|]. left. apply Hnone. rewrite Hf. auto.
Qed.

(* ---- remove(TimeSignature) *)
Theorem api_rem_ts_spec st t ts :
  In ts (h_tss (a_h (astep st (ARemTs t)))) <-> In ts (h_tss (a_h st)) /\ ts_t ts <> t.
Proof. simpl. apply rem_ts_In. Qed.

Theorem api_add_remove_ts st t b bt : aop_ok st (AAddTs t b bt) ->
  h_tss (a_h (astep (astep st (AAddTs t b bt)) (ARemTs t))) = h_tss (a_h st) /\
  h_qs (a_h (astep (astep st (AAddTs t b bt)) (ARemTs t))) = h_qs (a_h st) /\
  h_flag (a_h (astep (astep st (AAddTs t b bt)) (ARemTs t))) = h_flag (a_h st).
Proof.
  intros [_ [_ [_ Hfresh]]]. simpl. split; auto.
  apply (rem_insert_id (mk_tsig t b bt (musical_default b))). exact Hfresh.
Qed.

(* ---- the maps of every API-built part *)
Theorem api_maps q0 h : 0 < q0 -> ahist_ok (ainit q0) h -> has_note h ->
  let p := apart q0 h in let m := amode q0 h in
  (forall a b va vb, 0 <= a <= b /\ b <= kp_max Quarter p ->
     tmapz Quarter p a = Some va -> tmapz Quarter p b = Some vb -> (vb - va == quarters_between p a b)%Q) /\
  (forall a b va vb, 0 <= a <= b /\ b <= kp_max m p ->
     tmapz m p a = Some va -> tmapz m p b = Some vb -> (vb - va == beats_between m p a b)%Q) /\
  (forall t, p_first p <= t <= p_last p -> exists vq vb, tmapz Quarter p t = Some vq /\ tmapz m p t = Some vb) /\
  (forall (t v : Q), tmap m p t = Some v -> exists t', tinv m p v = Some t' /\ (t' == t)%Q) /\
  (forall (t v : Q), tmap Quarter p t = Some v -> exists t', tinv Quarter p v = Some t' /\ (t' == t)%Q) /\
  sweep_time_pts Quarter p = time_pts Quarter p /\ sweep_time_pts m p = time_pts m p.
Proof.
  intros Hq0 Hok Hn p m.
  assert (Hwf : wf p) by (apply api_wf; auto).
  split; [|split; [|split; [|split; [|split]]]].
  - intros a b va vb Hab Ha Hb. rewrite quarters_are_beats_between.
    apply (tmap_diff_all Quarter p Hwf a b va vb); auto.
    unfold p. rewrite (proj1 (api_kp_min Quarter q0 h Hq0 Hok Hn)); auto.
  - intros a b va vb Hab Ha Hb. apply (tmap_diff_all m p Hwf a b va vb); auto.
    unfold p. rewrite (proj1 (api_kp_min m q0 h Hq0 Hok Hn)); auto.
  - intros t Ht. destruct (tmap_value Quarter p Hwf t Ht) as [vq [Eq _]].
    destruct (tmap_value m p Hwf t Ht) as [vb [Eb _]]. exists vq, vb; auto.
  - intros t v. apply inv_fwd; auto.
  - intros t v. apply inv_fwd; auto.
  - destruct Hwf as [Hq [_ [Hts _]]]. split; apply sweep_refines; auto.
Qed.

(* ------------------------------------------------------------ one origin for both maps *)
Lemma sum_steps_scale (g h : Z -> Q) (c : Q) : forall n a,
  (forall k, a <= k < a + Z.of_nat n -> (g k == c * h k)%Q) ->
  (sum_steps g a n == c * sum_steps h a n)%Q.
Proof.
  induction n as [|n IH]; intros a H; simpl sum_steps; [ring|].
  rewrite (H a) by lia. rewrite (IH (a + 1)) by (intros k Hk; apply H; lia). ring.
Qed.

Lemma normal_dur_scale m ts : ts_ok ts -> (normal_dur m ts == ts_factor m ts * normal_dur Quarter ts)%Q.
Proof.
  intros [Hb [Ht Hm]].
  assert (0 < inject_Z (ts_beats ts))%Q by (change 0%Q with (inject_Z 0); apply inject_Z_lt; auto).
  assert (0 < inject_Z (ts_type ts))%Q by (change 0%Q with (inject_Z 0); apply inject_Z_lt; auto).
  destruct m; simpl; field; repeat split; lra.
Qed.

Section SameOrigin.
  Variable m : tmode.
  Variable p : part.
  Hypothesis Hwf : wf p.

  Lemma beats_scale a b f : a <= b -> (forall k, a <= k < b -> bt_at m p k = f) ->
    (beats_between m p a b == f * quarters_between p a b)%Q.
  Proof.
    intros Hab Hc. unfold beats_between, quarters_between. apply sum_steps_scale.
    intros k Hk. unfold rate. rewrite Hc by lia.
    pose proof (div_at_pos p Hwf k) as Hd.
    assert (0 < inject_Z (div_at p k))%Q by (change 0%Q with (inject_Z 0); apply inject_Z_lt; auto).
    field. lra.
  Qed.

  (* the first measure opens the part under a signature and no other signature takes effect inside it:
     the quarter map and the beat map (notated or musical) take the same decision about the pickup, so
     their zeros lie at the same timeline position *)
  Theorem origin_same_position e ts : m <> Quarter ->
    p_m1 p = Some (p_first p, e) -> ts_at_first p = Some ts -> p_first p < e <= p_last p ->
    (forall ts', In ts' (p_tss p) -> ts_t ts' <= p_first p \/ e <= ts_t ts') ->
    ((pickup_shift Quarter p == 0)%Q <-> (pickup_shift m p == 0)%Q) /\
    ((quarters_between p (p_first p) e < normal_dur Quarter ts)%Q <->
     (beats_between m p (p_first p) e < normal_dur m ts)%Q).
  Proof.
    intros Hm Hm1 Hts He Hno.
    apply find_some in Hts as Hts'. destruct Hts' as [Hin Et].
    assert (Es : ts_t ts = p_first p) by lia.
    destruct Hwf as [Hq [Hpos [Hsorted [Hok Hfl]]]].
    pose proof (Hok ts Hin) as Htsok.
    assert (Hbt : forall k, p_first p <= k < e -> bt_at m p k = ts_factor m ts).
    { intros k Hk. apply bt_at_spec; auto. exists (ts_t ts). split; [|split; [lia|]].
      - apply in_map_iff. exists ts; auto.
      - intros k' v' Hin' Hle. apply in_map_iff in Hin' as [ts' [E Hin']]. inversion E; subst.
        destruct (Hno v' Hin'); lia. }
    pose proof (beats_scale (p_first p) e (ts_factor m ts) ltac:(lia) Hbt) as Hscale.
    pose proof (normal_dur_scale m ts Htsok) as Hnorm.
    pose proof (ts_factor_pos m p ts Htsok) as Hf.
    assert (Hposq : (0 < quarters_between p (p_first p) e)%Q).
    { rewrite quarters_are_beats_between. apply sum_steps_pos; [lia|]. intros k _. apply rate_pos; auto. }
    assert (Hposb : (0 < beats_between m p (p_first p) e)%Q).
    { apply sum_steps_pos; [lia|]. intros k _. apply rate_pos; auto. }
    assert (Dec : (quarters_between p (p_first p) e < normal_dur Quarter ts)%Q <->
                  (beats_between m p (p_first p) e < normal_dur m ts)%Q).
    { rewrite Hscale, Hnorm. split; intros H.
      - apply Qmult_lt_l; auto.
      - apply Qmult_lt_l in H; auto. }
    split; auto.
    pose proof (pickup_shift_spec Quarter p Hwf (p_first p) e ts Hm1 Hts ltac:(lia)) as Sq.
    pose proof (pickup_shift_spec m p Hwf (p_first p) e ts Hm1 Hts ltac:(lia)) as Sm.
    rewrite <- quarters_are_beats_between in Sq.
    rewrite Sq, Sm.
    destruct (Qle_bool (normal_dur Quarter ts) (quarters_between p (p_first p) e)) eqn:E1;
      destruct (Qle_bool (normal_dur m ts) (beats_between m p (p_first p) e)) eqn:E2.
    - tauto.
    - apply Qle_bool_iff in E1. exfalso.
      assert (~ (normal_dur m ts <= beats_between m p (p_first p) e)%Q) by (rewrite <- Qle_bool_iff; congruence).
      apply H. apply Qnot_lt_le. intros C. apply Dec in C. lra.
    - apply Qle_bool_iff in E2. exfalso.
      assert (~ (normal_dur Quarter ts <= quarters_between p (p_first p) e)%Q) by (rewrite <- Qle_bool_iff; congruence).
      apply H. apply Qnot_lt_le. intros C. apply Dec in C. lra.
    - split; intros H; lra.
  Qed.
End SameOrigin.

(* ------------------------------------------------------------ an example *)
(* a later measure entered before the opening one, a second measure at the first point entered later,
   a signature beyond the last note added and removed again, a change of meter and divisions inside *)
Definition ex_api : list aop :=
  [AAddNote 0 48; AAddTs 0 4 4; AAddMeasure 16 32; AAddMeasure 0 8; AAddTs 56 3 4; ARemTs 56;
   AAddTs 24 6 8; ASetQ 24 8; ABeat (UseMusical []); AAddMeasure 0 16].

Lemma ex_api_ok : ahist_ok (ainit 4) ex_api /\ has_note ex_api.
Proof.
  split.
  - simpl. repeat split; try lia; try (intros b bt v []);
      intros ts H; simpl in H; repeat (destruct H as [<-|H]; [simpl; lia|]); contradiction.
  - exists 0, 48. split; [left; auto|lia].
Qed.

Example ex_api_values :
  p_first (apart 4 ex_api) = 0 /\ p_last (apart 4 ex_api) = 48 /\ p_m1 (apart 4 ex_api) = Some (0, 8) /\
  map ts_t (p_tss (apart 4 ex_api)) = [0; 24] /\ amode 4 ex_api = Musical /\
  map (fun r => fst (fst r)) (kp_rows Musical (apart 4 ex_api)) = [0; 24; 48] /\
  (exists v, tmapz Quarter (apart 4 ex_api) 8 = Some v /\ (v == 0)%Q) /\
  (exists v, tmapz Quarter (apart 4 ex_api) 48 = Some v /\ (v == 7)%Q) /\
  (exists v, tmapz Musical (apart 4 ex_api) 48 = Some v /\ (v == 6)%Q).
Proof.
  repeat (split; [reflexivity|]).
  repeat split; eexists; (split; [vm_compute; reflexivity|reflexivity]).
Qed.

(* ------------------------------------------------------------ the interpolation wrapper *)
(* the time maps always have at least two keypoints, so generic.interp1d takes scipy's branch *)
Theorem time_maps_use_scipy m p : wf p -> (2 <= List.length (time_pts m p))%nat /\
  (forall t, wrap_linear (time_pts m p) t = tmap m p t) /\
  (forall v, wrap_linear (swap_pts (time_pts m p)) v = tinv m p v).
Proof.
  intros Hwf. destruct (xs_shape m p Hwf) as [x0 [rest [E [Hne _]]]].
  unfold tmap, tinv, time_pts, base_pts. rewrite E.
  destruct rest as [|x1 r]; [congruence|]. simpl. split; [lia|]. split; reflexivity.
Qed.

Lemma Qle_floor k t : Qle_bool (inject_Z k) t = (k <=? Qfloor t).
Proof.
  pose proof (Qfloor_le t) as H1. pose proof (Qlt_floor t) as H2.
  destruct (k <=? Qfloor t) eqn:E.
  - apply Qle_bool_iff. apply Qle_trans with (inject_Z (Qfloor t)); auto.
    rewrite <- Zle_Qle. lia.
  - destruct (Qle_bool (inject_Z k) t) eqn:B; auto. apply Qle_bool_iff in B.
    assert (inject_Z (Qfloor t + 1) <= inject_Z k)%Q by (rewrite <- Zle_Qle; lia). lra.
Qed.

Lemma prev_q_lookup t : forall tbl d, prev_q tbl t d = prev_lookup tbl (Qfloor t) d.
Proof.
  induction tbl as [|[k v] r IH]; intros d; simpl; auto.
  rewrite Qle_floor. destruct (k <=? Qfloor t); auto.
Qed.

Lemma last_key_max : forall (tbl : list (Z * Z)) d, keys_incr tbl ->
  forall k v, In (k, v) tbl -> k <= fst (last tbl d).
Proof.
  induction tbl as [|[k0 v0] r IH]; intros d Hs k v Hin; [inversion Hin|].
  destruct r as [|[k1 v1] r1].
  - destruct Hin as [E|[]]. inversion E; subst. simpl. lia.
  - change (last ((k0, v0) :: (k1, v1) :: r1) d) with (last ((k1, v1) :: r1) d).
    destruct Hin as [E|Hin].
    + inversion E; subst. pose proof (keys_incr_gt _ _ _ Hs k1 v1 (or_introl eq_refl)).
      pose proof (IH d (keys_incr_tail _ _ _ Hs) k1 v1 (or_introl eq_refl)). lia.
    + apply (IH d (keys_incr_tail _ _ _ Hs) k v Hin).
Qed.

Lemma prev_lookup_all_le s : forall (tbl : list (Z * Z)) d dd, tbl <> [] ->
  (forall k v, In (k, v) tbl -> k <= s) -> prev_lookup tbl s d = snd (last tbl dd).
Proof.
  induction tbl as [|[k0 v0] r IH]; intros d dd Hne Hall; [congruence|].
  simpl prev_lookup. pose proof (Hall k0 v0 (or_introl eq_refl)). replace (k0 <=? s) with true by lia.
  destruct r as [|[k1 v1] r1]; [reflexivity|].
  change (last ((k0, v0) :: (k1, v1) :: r1) dd) with (last ((k1, v1) :: r1) dd).
  apply IH; [congruence|]. intros k v Hin. apply (Hall k v). right; auto.
Qed.

(* quarter_duration_map as the code builds it (doubling of a single entry, the wrapper, scipy "previous" with
   the two fill values) returns, at ANY rational time, the divisions in force: the value of the last change
   at or before the time, the first entry's value before it *)
Theorem qd_map_impl_spec p t : keys_incr (p_qs p) -> qd_map_impl (p_qs p) t = qd_map p (Qfloor t).
Proof.
  intros Hs. unfold qd_map. destruct (p_qs p) as [|[k0 v0] r] eqn:E; [reflexivity|].
  destruct r as [|[k1 v1] r1].
  - (* a single entry, doubled *)
    unfold qd_map_impl, wrap_previous, sc_previous. simpl last. simpl fst. simpl snd.
    simpl prev_q. simpl prev_lookup. rewrite !Qle_floor.
    destruct (k0 <=? Qfloor t); destruct (Qle_bool t (inject_Z k0)); reflexivity.
  - unfold qd_map_impl, wrap_previous, sc_previous.
    set (tbl := (k0, v0) :: (k1, v1) :: r1) in *.
    rewrite Qle_floor. destruct (k0 <=? Qfloor t) eqn:E0.
    + destruct (Qle_bool t (inject_Z (fst (last tbl (0, 0))))) eqn:E1.
      * apply prev_q_lookup.
      * symmetry. rewrite (prev_lookup_all_le (Qfloor t) tbl v0 (0, 1)); [reflexivity|unfold tbl; congruence|].
        intros k v Hin. pose proof (last_key_max tbl (0, 0) Hs k v Hin) as Hk.
        assert (Hlt : (inject_Z (fst (last tbl (0%Z, 0%Z))) < t)%Q).
        { apply Qnot_le_lt. intros C. apply Qle_bool_iff in C. congruence. }
        assert (B : Qle_bool (inject_Z (fst (last tbl (0%Z, 0%Z)))) t = true) by (apply Qle_bool_iff; lra).
        rewrite Qle_floor in B. lia.
    + unfold tbl. simpl prev_lookup. rewrite E0. reflexivity.
Qed.

(* single-point safety: with a single entry the map is that entry's value at every time -- through the
   doubling of quarter_duration_map and through the single-sample branch of the wrapper alike *)
Theorem qd_map_single k v t lo hi : qd_map_impl [(k, v)] t = v /\ wrap_previous [(k, v)] lo hi t = v.
Proof.
  split; [|reflexivity].
  unfold qd_map_impl, wrap_previous, sc_previous. simpl.
  destruct (Qle_bool (inject_Z k) t); destruct (Qle_bool t (inject_Z k)); reflexivity.
Qed.
