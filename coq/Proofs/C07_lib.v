(* C07 -- general lemmas on strings used by Proofs/C07.v *)
From PV Require Import Lib.Base Model.C07.
From Coq Require Import Ascii.
#[local] Open Scope string_scope.

Lemma app_assoc_s (a b c : string) : (a ++ b) ++ c = a ++ (b ++ c).
Proof. induction a; simpl; congruence. Qed.

Lemma app_nil_r_s (a : string) : a ++ "" = a.
Proof. induction a; simpl; congruence. Qed.

Lemma length_app_s (a b : string) : String.length (a ++ b) = (String.length a + String.length b)%nat.
Proof. induction a; simpl; congruence. Qed.

Lemma strip_prefix_app l s : strip_prefix l (l ++ s) = Some s.
Proof. induction l; simpl; auto. rewrite Ascii.eqb_refl. auto. Qed.

Lemma eqb_length_neq (a b : string) : String.length a <> String.length b -> String.eqb a b = false.
Proof.
  intros H. destruct (String.eqb a b) eqn:E; auto. apply String.eqb_eq in E. subst. congruence.
Qed.

Lemma strip_suffix_app l a : strip_suffix l (a ++ l) = Some a.
Proof.
  induction a as [|c a IH]; simpl.
  - destruct l; simpl; [reflexivity|]. rewrite Ascii.eqb_refl, String.eqb_refl. reflexivity.
  - assert (E : String.eqb (String c (a ++ l)) l = false).
    { apply eqb_length_neq. simpl. rewrite length_app_s. lia. }
    destruct l as [|d l'].
    + simpl in *. rewrite IH. reflexivity.
    + change ((if String.eqb (String c (a ++ String d l')) (String d l') then Some "" else
               match strip_suffix (String d l') (a ++ String d l') with Some a0 => Some (String c a0) | None => None end)
              = Some (String c a)).
      rewrite E, IH. reflexivity.
Qed.

Lemma span_app p a b :
  all_chars p a = true ->
  match b with String c _ => p c = false | EmptyString => True end ->
  span p (a ++ b) = (a, b).
Proof.
  intros Ha Hb. induction a as [|c a IH]; simpl in *.
  - destruct b; simpl; auto. rewrite Hb. reflexivity.
  - apply andb_true_iff in Ha as [Hc Ha]. rewrite Hc, (IH Ha). reflexivity.
Qed.

Lemma count_char_app c a b : count_char c (a ++ b) = (count_char c a + count_char c b)%nat.
Proof. induction a as [|d a IH]; simpl; auto. destruct (Ascii.eqb d c); simpl; congruence. Qed.

Lemma count_char_none c p s : all_chars p s = true -> p c = false -> count_char c s = O.
Proof.
  intros H Hc. induction s as [|d s IH]; simpl in *; auto.
  apply andb_true_iff in H as [Hd H].
  destruct (Ascii.eqb d c) eqn:E; [apply Ascii.eqb_eq in E; congruence | auto].
Qed.

(* the greedy split: a is arbitrary, the tail starts with a comma and holds exactly k commas *)
Lemma split_k_app k a t :
  count_char comma (String comma t) = k ->
  split_k k (a ++ String comma t) = Some (a, String comma t).
Proof.
  intros Hk.
  assert (Hk' : S (count_char comma t) = k).
  { cbn [count_char] in Hk. rewrite Ascii.eqb_refl in Hk. exact Hk. }
  induction a as [|c a IH].
  - cbn [append split_k]. rewrite Ascii.eqb_refl, Hk', Nat.eqb_refl. reflexivity.
  - cbn [append split_k]. rewrite IH.
    destruct (Ascii.eqb c comma && Nat.eqb (S (count_char comma (a ++ String comma t))) k) eqn:E; auto.
    apply andb_true_iff in E as [_ E]. apply Nat.eqb_eq in E.
    rewrite count_char_app in E. cbn [count_char] in E. rewrite Ascii.eqb_refl in E. lia.
Qed.

(* split / join *)
Lemma split_on_app c a r :
  count_char c a = O -> split_on c (a ++ String c r) = a :: split_on c r.
Proof.
  induction a as [|d a IH]; simpl; intros H.
  - rewrite Ascii.eqb_refl. reflexivity.
  - destruct (Ascii.eqb d c) eqn:E; [discriminate|]. rewrite (IH H). reflexivity.
Qed.

Lemma split_on_none c a : count_char c a = O -> split_on c a = [a].
Proof.
  induction a as [|d a IH]; simpl; intros H; auto.
  destruct (Ascii.eqb d c) eqn:E; [discriminate|]. rewrite (IH H). reflexivity.
Qed.

Lemma split_join c l :
  l <> [] -> Forall (fun s => count_char c s = O) l -> split_on c (join c l) = l.
Proof.
  induction l as [|x l IH]; intros Hne H; [congruence|].
  inversion H as [|? ? Hx Hl]; subst.
  destruct l as [|y l'].
  - simpl. apply split_on_none; auto.
  - change (join c (x :: y :: l')) with (x ++ String c (join c (y :: l'))).
    rewrite split_on_app by auto. rewrite IH; auto. discriminate.
Qed.

Lemma map_opt_map {A B} (f : A -> option B) (g : B -> A) l :
  Forall (fun y => f (g y) = Some y) l -> map_opt f (map g l) = Some l.
Proof.
  induction 1 as [|y l Hy Hl IH]; simpl; auto. rewrite Hy, IH. reflexivity.
Qed.

Lemma all_chars_app p a b : all_chars p (a ++ b) = all_chars p a && all_chars p b.
Proof. induction a as [|c a IH]; simpl; auto. rewrite IH, andb_assoc. reflexivity. Qed.

Lemma all_chars_weaken (p q : ascii -> bool) s :
  (forall c, p c = true -> q c = true) -> all_chars p s = true -> all_chars q s = true.
Proof.
  intros H. induction s as [|c s IH]; simpl; auto. intros E. apply andb_true_iff in E as [E1 E2].
  rewrite (H _ E1), (IH E2). reflexivity.
Qed.
