(* C19 -- the MEI loader's traversal in ticks (Model/C19_mei.v) computes divs x what the notation denotes (Model/C19.v). *)
From PV Require Import Lib.Base Model.C19 Model.C19_mei Proofs.C19.
From Coq Require Import QArith Qround Qfield Lqa.
#[local] Open Scope Z_scope.

(* the tick value a represents the quarter value q at divs divisions per quarter *)
Definition repr (divs a : Z) (q : Q) : Prop := (inject_Z a == inject_Z divs * q)%Q.
(* a loaded row (start, end) represents a denoted row (onset, duration, event) *)
Definition row_rel (divs : Z) (ab : Z * Z) (r : Q * Q * event) : Prop :=
  repr divs (fst ab) (fst (fst r)) /\ repr divs (snd ab - fst ab) (snd (fst r)).

(* what the theorem asks of the document: written values are positive, a measure rest is not a grace note, a declared
   @dur.ppq is the written value at the declared divisions, and every declared meter c/u has a measure of a whole
   number of divisions (mei_ppq_mrest_exact: what the inferred divisions guarantee) *)
Definition wf_mel (divs : Z) (m : mel) : Prop :=
  let e := ml_ev m in
  (e_kind e = 3 -> e_grace e = false) /\ 0 < e_val e /\ 0 < e_num e /\
  (forall p, ml_ppq m = Some p -> repr divs p (den_dur (e_val e) (e_dots e) (e_num e) (e_base e))).
Definition wf_meter (divs c u : Z) : Prop := 0 < u /\ (u | divs * 4 * c).
Definition wf_item (divs : Z) (it : item) : Prop :=
  match it with
  | IMeter c u => wf_meter divs c u
  | IKey _ => True
  | IMeasure staves => Forall (Forall (fun l => Forall (wf_mel divs) (snd l))) staves
  end.

Section Refine.
Variable divs : Z.
Hypothesis Hdivs : 0 < divs.

Lemma repr_proper a q q' : (q == q')%Q -> repr divs a q -> repr divs a q'.
Proof. unfold repr. intros E H. rewrite H, E. reflexivity. Qed.

Lemma repr_plus a b x y : repr divs a x -> repr divs b y -> repr divs (a + b) (x + y)%Q.
Proof. unfold repr. intros H1 H2. rewrite inject_Z_plus, H1, H2. ring. Qed.

Lemma repr_0 : repr divs 0 0%Q.
Proof. unfold repr. change (inject_Z 0) with 0%Q. ring. Qed.

Lemma repr_le a b x y : repr divs a x -> repr divs b y -> (a <= b <-> (x <= y)%Q).
Proof.
  unfold repr. intros H1 H2. pose proof (inject_Z_pos _ Hdivs) as HD.
  rewrite (Zle_Qle a b), H1, H2. split; intros H.
  - apply Qmult_le_l in H; assumption.
  - apply Qmult_le_l; assumption.
Qed.

Lemma repr_max a b x y : repr divs a x -> repr divs b y -> repr divs (Z.max a b) (qmax x y).
Proof.
  intros H1 H2. pose proof (repr_le _ _ _ _ H1 H2) as Hle. unfold qmax.
  destruct (Qle_bool x y) eqn:E.
  - apply Qle_bool_iff in E. apply Hle in E. rewrite Z.max_r by assumption. assumption.
  - destruct (Z_le_gt_dec a b) as [L|G].
    + apply Hle in L. apply Qle_bool_iff in L. congruence.
    + rewrite Z.max_l by lia. assumption.
Qed.

Lemma repr_fold p t zs qs : repr divs p t -> Forall2 (repr divs) zs qs ->
  repr divs (fold_right Z.max p zs) (fold_right qmax t qs).
Proof. intros Hp H. induction H; simpl; [assumption|]. apply repr_max; assumption. Qed.

(* ---------------------------------------------------------------- one element *)
Lemma el_ticks_repr mr mlen m d : wf_mel divs m -> repr divs mr mlen ->
  el_ticks divs mr m = Some d -> repr divs d (ev_dur mlen (ml_ev m)).
Proof.
  intros [Hk [Hv [Hn Hp]]] Hmr. unfold el_ticks, ev_dur.
  destruct (e_kind (ml_ev m) =? 3) eqn:K.
  - apply Z.eqb_eq in K. rewrite (Hk K). intros H; inversion H; subst. assumption.
  - destruct (e_grace (ml_ev m)) eqn:G.
    + intros H; inversion H; subst. apply repr_0.
    + destruct (ml_ppq m) as [p|] eqn:P.
      * intros H; inversion H; subst. apply Hp. reflexivity.
      * intros H. apply mei_ticks_exact_lemma in H; try assumption. rewrite G in H. exact H.
Qed.

(* ---------------------------------------------------------------- one layer: position from the order *)
Definition den_rows (mlen t : Q) (evs : list event) : list (Q * Q * event) :=
  filter (fun r => visible (snd r)) (map (fun oe => (fst oe, ev_dur mlen (snd oe), snd oe)) (layer_onsets mlen t evs)).

Lemma layer_run_sim mr mlen : repr divs mr mlen -> forall els pos t rows pos',
  Forall (wf_mel divs) els -> repr divs pos t ->
  layer_run divs mr pos els = Some (rows, pos') ->
  Forall2 (row_rel divs) rows (den_rows mlen t (map ml_ev els)) /\ repr divs pos' (layer_end mlen t (map ml_ev els)).
Proof.
  intros Hmr. induction els as [|m r IH]; intros pos t rows pos' Hwf Hpos H.
  - simpl in H. inversion H; subst. split; [constructor|]. unfold layer_end. simpl.
    eapply repr_proper; [|exact Hpos]. ring.
  - inversion Hwf as [|? ? H1 H2]; subst. cbn [layer_run] in H. unfold opt_bind in H.
    destruct (el_ticks divs mr m) as [d|] eqn:Ed; [|discriminate].
    destruct (layer_run divs mr (pos + d) r) as [[rows1 pos1]|] eqn:Er; [|discriminate].
    inversion H; subst; clear H. cbn [fst snd].
    pose proof (el_ticks_repr _ _ _ _ H1 Hmr Ed) as Hd.
    assert (Hnext : repr divs (pos + d) (t + ev_dur mlen (ml_ev m))%Q) by (apply repr_plus; assumption).
    destruct (IH _ _ _ _ H2 Hnext Er) as [IH1 IH2]. split.
    + unfold den_rows. cbn [map layer_onsets filter fst snd].
      destruct (visible (ml_ev m)); cbn [app].
      * constructor; [|exact IH1]. split; cbn [fst snd]; [assumption|].
        replace (pos + d - pos) with d by lia. assumption.
      * exact IH1.
    + unfold layer_end in *. cbn [map sum_dur]. eapply repr_proper; [|exact IH2]. ring.
Qed.

(* ---------------------------------------------------------------- the layers of a staff *)
Definition lay_evs (l : option Z * list mel) : list event := map ml_ev (snd l).

Lemma layers_run_sim mr mlen pos t : repr divs mr mlen -> repr divs pos t -> forall layers i outs ends,
  Forall (fun l => Forall (wf_mel divs) (snd l)) layers ->
  layers_run divs mr pos i layers = Some (outs, ends) ->
  Forall2 (fun l o => Forall2 (row_rel divs) (snd o) (den_rows mlen t (lay_evs l))) layers outs
  /\ Forall2 (repr divs) ends (map (fun l => layer_end mlen t (lay_evs l)) layers).
Proof.
  intros Hmr Hpos. induction layers as [|[n els] r IH]; intros i outs ends Hwf H.
  - simpl in H. inversion H; subst. split; constructor.
  - inversion Hwf as [|? ? H1 H2]; subst. cbn [layers_run] in H. unfold opt_bind in H.
    destruct (layer_run divs mr pos els) as [[rows pos1]|] eqn:El; [|discriminate].
    destruct (layers_run divs mr pos (i + 1) r) as [[outs1 ends1]|] eqn:Er; [|discriminate].
    inversion H; subst; clear H. cbn [fst snd] in *.
    destruct (layer_run_sim _ _ Hmr _ _ _ _ _ H1 Hpos El) as [L1 L2].
    destruct (IH _ _ _ H2 Er) as [I1 I2]. split; constructor; assumption.
Qed.

Lemma mrest_ticks_repr ts c u : last_meter ts = (c, u) -> wf_meter divs c u ->
  repr divs (mrest_ticks divs ts) (4 * inject_Z c / inject_Z u)%Q.
Proof.
  intros L [Hu [k Hk]]. unfold mrest_ticks. rewrite L. rewrite Hk, Z.div_mul by lia.
  unfold repr.
  assert (HQ : (inject_Z divs * 4 * inject_Z c == inject_Z k * inject_Z u)%Q).
  { change 4%Q with (inject_Z 4). rewrite <- !inject_Z_mult. rewrite Hk. reflexivity. }
  assert (Hun : ~ (inject_Z u == 0)%Q) by (apply Qpos_neq, inject_Z_pos; assumption).
  assert (HK : (inject_Z k == inject_Z divs * 4 * inject_Z c / inject_Z u)%Q) by (rewrite HQ; field; assumption).
  rewrite HK. field. assumption.
Qed.

Definition staff_evs (st : list (option Z * list mel)) : list (list event) := map lay_evs st.

Lemma staff_run_sim pos t ts c u st outs e : last_meter ts = (c, u) -> wf_meter divs c u -> repr divs pos t ->
  Forall (fun l => Forall (wf_mel divs) (snd l)) st ->
  staff_run divs pos ts st = Some (outs, e) ->
  let mlen := (4 * inject_Z c / inject_Z u)%Q in
  Forall2 (fun l o => Forall2 (row_rel divs) (snd o) (den_rows mlen t (lay_evs l))) st outs
  /\ repr divs e (fold_right qmax t (map (layer_end mlen t) (staff_evs st))).
Proof.
  intros L Hm Hpos Hwf H mlen. unfold staff_run, opt_bind in H.
  destruct (layers_run divs (mrest_ticks divs ts) pos 0 st) as [[o1 ends]|] eqn:E; [|discriminate].
  inversion H; subst; clear H. cbn [fst snd].
  pose proof (mrest_ticks_repr _ _ _ L Hm) as Hmr.
  destruct (layers_run_sim _ mlen _ _ Hmr Hpos _ _ _ _ Hwf E) as [A B]. split; [assumption|].
  apply repr_fold; [assumption|]. unfold staff_evs. rewrite map_map. exact B.
Qed.

(* ---------------------------------------------------------------- the staves of a measure *)
Lemma measure_run_sim pos t c u : wf_meter divs c u -> repr divs pos t -> forall tss staves parts ends,
  Forall (fun ts => last_meter ts = (c, u)) tss ->
  Forall (Forall (fun l => Forall (wf_mel divs) (snd l))) staves ->
  measure_run divs pos tss staves = Some (parts, ends) ->
  let mlen := (4 * inject_Z c / inject_Z u)%Q in
  Forall2 (fun st part => Forall2 (fun l o => Forall2 (row_rel divs) (snd o) (den_rows mlen t (lay_evs l))) st part) staves parts
  /\ Forall2 (repr divs) ends (map (fun st => fold_right qmax t (map (layer_end mlen t) (staff_evs st))) staves).
Proof.
  intros Hm Hpos. induction tss as [|ts tr IH]; intros staves parts ends Hts Hwf H mlen.
  - destruct staves; simpl in H; [|discriminate]. inversion H; subst. split; constructor.
  - destruct staves as [|st sr]; [simpl in H; discriminate|].
    inversion Hts as [|? ? H1 H2]; subst. inversion Hwf as [|? ? H4 H5]; subst. cbn [measure_run] in H. unfold opt_bind in H.
    destruct (staff_run divs pos ts st) as [[o e]|] eqn:Es; [|discriminate].
    destruct (measure_run divs pos tr sr) as [[p1 e1]|] eqn:Er; [|discriminate].
    inversion H; subst; clear H. cbn [fst snd].
    destruct (staff_run_sim _ _ _ _ _ _ _ _ H1 Hm Hpos H4 Es) as [A B].
    destruct (IH _ _ _ H2 H5 Er) as [C D]. split; constructor; assumption.
Qed.

(* max over the staves of the max over their layers = max over all layers of all staves *)
Lemma qfold_nested t (f : list event -> Q) sts :
  (fold_right qmax t (map (fun st => fold_right qmax t (map f st)) sts) == fold_right qmax t (map f (List.concat sts)))%Q.
Proof.
  set (N := fold_right qmax t (map (fun st => fold_right qmax t (map f st)) sts)).
  set (F := fold_right qmax t (map f (List.concat sts))).
  destruct (fold_qmax_ub t (map (fun st => fold_right qmax t (map f st)) sts)) as [N1 N2]. fold N in N1, N2.
  destruct (fold_qmax_ub t (map f (List.concat sts))) as [F1 F2]. fold F in F1, F2.
  apply Qle_antisym.
  - destruct (fold_qmax_attained t (map (fun st => fold_right qmax t (map f st)) sts)) as [E|E]; fold N in E.
    + rewrite E. assumption.
    + apply in_map_iff in E. destruct E as [st [E Hst]].
      destruct (fold_qmax_attained t (map f st)) as [E2|E2]; rewrite E in E2.
      * rewrite E2. assumption.
      * apply in_map_iff in E2. destruct E2 as [x [E2 Hx]]. apply F2. apply in_map_iff. exists x. split; [assumption|].
        apply in_concat. exists st. split; assumption.
  - destruct (fold_qmax_attained t (map f (List.concat sts))) as [E|E]; fold F in E.
    + rewrite E. assumption.
    + apply in_map_iff in E. destruct E as [x [E Hx]]. apply in_concat in Hx. destruct Hx as [st [Hst Hx]].
      rewrite <- E. eapply Qle_trans.
      * destruct (fold_qmax_ub t (map f st)) as [_ U]. apply U. apply in_map. exact Hx.
      * apply N2. apply in_map_iff. exists st. split; [reflexivity|assumption].
Qed.

Lemma Forall2_nth {A B} (P : A -> B -> Prop) xs : forall ys n dx dy, Forall2 P xs ys -> P dx dy -> P (nth n xs dx) (nth n ys dy).
Proof.
  induction xs as [|x xs IH]; intros ys n dx dy H Hd; inversion H; subst.
  - destruct n; assumption.
  - destruct n; simpl; [assumption|]. apply IH; assumption.
Qed.

(* ---------------------------------------------------------------- the section *)
Definition meas_evs (staves : list (list (option Z * list mel))) : list (list (list event)) := map staff_evs staves.

Lemma resolve_measure c u staves r :
  resolve c u (IMeasure staves :: r) = Me (4 * inject_Z c / inject_Z u)%Q (meas_evs staves) :: resolve c u r.
Proof. reflexivity. Qed.

Lemma mei_run_sim : forall items pos t tss kss c u out,
  wf_meter divs c u ->
  Forall (fun ts => last_meter ts = (c, u)) tss ->
  Forall (wf_item divs) items ->
  repr divs pos t ->
  mei_run divs pos tss kss items = Some out ->
  Forall2 (repr divs) (map fst (o_meas out)) (measure_starts t (resolve c u items))
  /\ (forall s l, Forall2 (row_rel divs) (part_layer_rows s l (o_meas out))
                   (filter (fun r => visible (snd r)) (denote_layer s l t (resolve c u items))))
  /\ repr divs (o_end out) (fold_left measure_end (resolve c u items) t).
Proof.
  induction items as [|it r IH]; intros pos t tss kss c u out Hm Hts Hwf Hpos H.
  - simpl in H. inversion H; subst. simpl. split; [constructor|]. split; [intros; constructor|assumption].
  - inversion Hwf as [|? ? H1 H2]; subst. destruct it as [c' u'|f|staves].
    + cbn [mei_run] in H. cbn [resolve].
      apply (IH pos t (map (fun ts => ts ++ [(pos, c', u')]) tss) kss c' u' out); try assumption.
      apply Forall_forall. intros ts' Hin. apply in_map_iff in Hin. destruct Hin as [ts [<- _]].
        unfold last_meter. rewrite last_last. reflexivity.
    + cbn [mei_run] in H. cbn [resolve].
      apply (IH pos t tss (map (fun ks => ks ++ [(pos, f)]) kss) c u out); assumption.
    + cbn [mei_run] in H. unfold opt_bind in H.
      destruct (measure_run divs pos tss staves) as [[parts ends]|] eqn:Em; [|discriminate].
      cbn [fst snd] in H.
      destruct (mei_run divs (fold_right Z.max pos ends) tss kss r) as [out'|] eqn:Er; [|discriminate].
      inversion H; subst; clear H. cbn [o_meas o_end].
      rewrite resolve_measure. set (mlen := (4 * inject_Z c / inject_Z u)%Q).
      set (m := Me mlen (meas_evs staves)).
      destruct (measure_run_sim _ _ _ _ Hm Hpos _ _ _ _ Hts H1 Em) as [A B]. fold mlen in A, B.
      assert (Hend : repr divs (fold_right Z.max pos ends) (measure_end t m)).
      { eapply repr_proper; [|apply repr_fold; [exact Hpos|exact B]].
        unfold measure_end, m. cbn [m_len m_staves]. unfold meas_evs.
        rewrite <- (map_map staff_evs (fun st => fold_right qmax t (map (layer_end mlen t) st))).
        apply qfold_nested. }
      destruct (IH _ _ _ _ _ _ _ Hm Hts H2 Hend Er) as [I1 [I2 I3]].
      split; [|split].
      * cbn [map fst measure_starts]. constructor; assumption.
      * intros s l. unfold part_layer_rows. cbn [map List.concat snd]. cbn [denote_layer]. rewrite filter_app.
        apply Forall2_app; [|apply I2].
        assert (Hl : Forall2 (row_rel divs) (snd (nth l (nth s parts []) (0, [])))
                       (den_rows mlen t (lay_evs (nth l (nth s staves []) (None, []))))).
        { apply (Forall2_nth (fun lay o => Forall2 (row_rel divs) (snd o) (den_rows mlen t (lay_evs lay)))
                   (nth s staves []) (nth s parts []) l (None, []) (0, [])); [|constructor].
          apply (Forall2_nth (fun st part => Forall2 (fun lay o => Forall2 (row_rel divs) (snd o) (den_rows mlen t (lay_evs lay))) st part)
                   staves parts s [] []); [exact A|constructor]. }
        unfold den_rows in Hl. unfold get_layer, m. cbn [m_len m_staves]. unfold meas_evs.
        change (nth s (map staff_evs staves) []) with (nth s (map staff_evs staves) (staff_evs [])).
        rewrite (map_nth staff_evs). unfold staff_evs at 1.
        change (nth l (map lay_evs (nth s staves [])) []) with (nth l (map lay_evs (nth s staves [])) (lay_evs (None, []))).
        rewrite (map_nth lay_evs). exact Hl.
      * cbn [fold_left]. exact I3.
Qed.

End Refine.

(* ---------------------------------------------------------------- the document *)
Lemma mei_load_refines_lemma divs c0 u0 init items out :
  0 < divs -> wf_meter divs c0 u0 ->
  Forall (fun i => fst (fst i) = c0 /\ snd (fst i) = u0) init ->
  Forall (wf_item divs) items ->
  mei_load divs init items = Some out ->
  Forall2 (repr divs) (map fst (o_meas out)) (measure_starts 0 (resolve c0 u0 items))
  /\ (forall s l, Forall2 (row_rel divs) (part_layer_rows s l (o_meas out))
                   (filter (fun r => visible (snd r)) (denote_layer s l 0 (resolve c0 u0 items))))
  /\ repr divs (o_end out) (fold_left measure_end (resolve c0 u0 items) 0%Q).
Proof.
  intros Hd Hm Hinit Hwf H. unfold mei_load in H.
  eapply (mei_run_sim divs Hd); try eassumption.
  - apply Forall_forall. intros ts Hin. apply in_map_iff in Hin. destruct Hin as [[[c u] f] [<- Hin]].
    rewrite Forall_forall in Hinit. destruct (Hinit _ Hin) as [E1 E2]. cbn in E1, E2. subst. reflexivity.
  - apply repr_0.
Qed.

(* ---------------------------------------------------------------- the loader's assertion never fires at exact divisions *)
#[local] Open Scope Z_scope.

Lemma Qred_inject_Z k : Qred (inject_Z k) = inject_Z k.
Proof.
  unfold Qred, inject_Z. pose proof (Z.ggcd_gcd k 1) as G. pose proof (Z.ggcd_correct_divisors k 1) as C.
  change (Z.pos 1) with 1. destruct (Z.ggcd k 1) as [g [aa bb]]. cbn [fst snd] in *.
  rewrite Z.gcd_1_r in G. destruct C as [C1 C2]. rewrite G in C1, C2.
  assert (Ha : aa = k) by lia. assert (Hb : bb = 1) by lia. rewrite Ha, Hb. reflexivity.
Qed.

Lemma q_int_complete q k : (q == inject_Z k)%Q -> q_int q = Some k.
Proof. intros H. unfold q_int. rewrite (Qred_complete _ _ H), Qred_inject_Z. reflexivity. Qed.

(* every written value of the element is a whole number of divisions *)
Definition exact_mel (divs : Z) (m : mel) : Prop :=
  let e := ml_ev m in
  0 < e_val e /\ 0 < e_num e /\
  exists k : Z, (inject_Z divs * den_dur (e_val e) (e_dots e) (e_num e) (e_base e) == inject_Z k)%Q.

Lemma el_ticks_total divs mr m : exact_mel divs m -> exists d, el_ticks divs mr m = Some d.
Proof.
  intros [Hv [Hn [k Hk]]]. unfold el_ticks.
  destruct (e_kind (ml_ev m) =? 3); [eexists; reflexivity|].
  destruct (e_grace (ml_ev m)) eqn:G; [eexists; reflexivity|].
  destruct (ml_ppq m); [eexists; reflexivity|].
  exists k. unfold mei_ticks. rewrite G. apply q_int_complete.
  rewrite mei_duration_denotes_lemma by assumption. exact Hk.
Qed.

Lemma layer_run_total divs mr els : Forall (exact_mel divs) els -> forall pos, exists res, layer_run divs mr pos els = Some res.
Proof.
  induction 1 as [|m r Hm _ IH]; intros pos; [eexists; reflexivity|].
  cbn [layer_run]. destruct (el_ticks_total divs mr m Hm) as [d ->]. cbn [opt_bind].
  destruct (IH (pos + d)) as [res ->]. cbn [opt_bind]. eexists; reflexivity.
Qed.

Lemma layers_run_total divs mr pos layers : Forall (fun l => Forall (exact_mel divs) (snd l)) layers ->
  forall i, exists res, layers_run divs mr pos i layers = Some res.
Proof.
  induction 1 as [|[n els] r Hl _ IH]; intros i; [eexists; reflexivity|].
  cbn [layers_run]. destruct (layer_run_total divs mr els Hl pos) as [lr ->]. cbn [opt_bind].
  destruct (IH (i + 1)) as [res ->]. cbn [opt_bind]. eexists; reflexivity.
Qed.

Lemma measure_run_total divs pos : forall tss staves, List.length staves = List.length tss ->
  Forall (Forall (fun l => Forall (exact_mel divs) (snd l))) staves ->
  exists res, measure_run divs pos tss staves = Some res.
Proof.
  induction tss as [|ts tr IH]; intros [|st sr] Hlen Hs; try discriminate; [eexists; reflexivity|].
  inversion Hs as [|? ? H1 H2]; subst. cbn [measure_run]. unfold staff_run.
  destruct (layers_run_total divs (mrest_ticks divs ts) pos st H1 0) as [lr ->]. cbn [opt_bind].
  destruct (IH sr) as [res ->]; [simpl in Hlen; lia|assumption|]. cbn [opt_bind]. eexists; reflexivity.
Qed.

Definition item_total (divs : Z) (n : nat) (it : item) : Prop :=
  match it with
  | IMeasure staves => List.length staves = n /\ Forall (Forall (fun l => Forall (exact_mel divs) (snd l))) staves
  | _ => True
  end.

Lemma mei_run_total divs : forall items pos tss kss, Forall (item_total divs (List.length tss)) items ->
  exists out, mei_run divs pos tss kss items = Some out.
Proof.
  induction items as [|it r IH]; intros pos tss kss H; [eexists; reflexivity|].
  inversion H as [|? ? H1 H2]; subst. destruct it as [c u|f|staves]; cbn [mei_run].
  - apply IH. rewrite map_length. assumption.
  - apply IH. assumption.
  - destruct H1 as [Hlen Hs]. destruct (measure_run_total divs pos tss staves Hlen Hs) as [res ->]. cbn [opt_bind].
    destruct (IH (fold_right Z.max pos (snd res)) tss kss H2) as [out ->]. cbn [opt_bind]. eexists; reflexivity.
Qed.

Lemma mei_load_total_lemma divs init items : Forall (item_total divs (List.length init)) items ->
  exists out, mei_load divs init items = Some out.
Proof. intros H. unfold mei_load. apply mei_run_total. rewrite map_length. assumption. Qed.

(* the inferred divisions (lcm rule of _find_ppq over all elements with @dur) are exact for every element of the document *)
Lemma find_ppq_exact_mel units evs m : In (ml_ev m) evs -> 0 < e_val (ml_ev m) -> 0 < e_num (ml_ev m) -> 0 < e_base (ml_ev m) ->
  exact_mel (find_ppq units evs) m.
Proof. intros Hin Hv Hn Hb. split; [assumption|]. split; [assumption|]. apply mei_ppq_exact_lemma; assumption. Qed.

Lemma find_ppq_wf_meter units evs c u : In u units -> 0 < u -> wf_meter (find_ppq units evs) c u.
Proof.
  intros Hin Hu. split; [assumption|].
  pose proof (find_ppq_times4 units evs) as H4.
  assert (Hdiv : (u | lcm_list (4 :: units ++ map ppq_term evs))).
  { apply lcm_list_divide. right. apply in_or_app. left. assumption. }
  destruct Hdiv as [m Hm]. exists (m * c). rewrite Hm in H4. nia.
Qed.

(* ---------------------------------------------------------------- examples: hypotheses are satisfiable; the state matters *)
Definition ex_mrest := Mel (Ev 3 1 0 1 1 false false []) None.
Definition ex_q (v : Z) (d : nat) := Mel (Ev 0 v d 1 1 false false [(0, 0, 4)]) None.
(* two parts; measure rest in 4/4, then 3/4: a measure rest again (upper part) against a dotted half, then 6/8 with a
   dotted-quarter + space + eighth in a layer numbered 5 *)
Definition ex_items : list item :=
  [IMeasure [[(Some 1, [ex_mrest])]; [(None, [ex_q 1 0])]];
   IMeter 3 4;
   IMeasure [[(Some 1, [ex_mrest])]; [(None, [ex_q 2 1])]];
   IMeter 6 8; IKey (-2);
   IMeasure [[(Some 5, [ex_q 4 1; Mel (Ev 4 4 0 1 1 false false []) None; ex_q 8 0])]; [(None, [ex_mrest])]]].

Example ex_mei_load :
  option_map (fun o => (o_meas o, o_end o, o_ts o, o_ks o)) (mei_load 2 [(4, 4, 0); (4, 4, 0)] ex_items)
  = Some ([(0, [[(1, [(0, 8)])]; [(1, [(0, 8)])]]);
           (8, [[(1, [(8, 14)])]; [(1, [(8, 14)])]]);
           (14, [[(5, [(14, 17); (19, 20)])]; [(1, [(14, 20)])]])],
          20,
          [[(0, 4, 4); (8, 3, 4); (14, 6, 8)]; [(0, 4, 4); (8, 3, 4); (14, 6, 8)]],
          [[(0, 0); (14, -2)]; [(0, 0); (14, -2)]]).
Proof. vm_compute. reflexivity. Qed.

Example ex_mei_wf : wf_meter 2 4 4 /\ Forall (wf_item 2) ex_items.
Proof.
  assert (Hm : wf_mel 2 ex_mrest) by (repeat split; try reflexivity; try lia; intros p Hp; discriminate).
  assert (Hq : forall v d, 0 < v -> wf_mel 2 (ex_q v d)).
  { intros v d Hv. repeat split; try assumption; try lia; try (intros K; discriminate). }
  assert (Hs : wf_mel 2 (Mel (Ev 4 4 0 1 1 false false []) None)).
  { repeat split; try lia; try (intros K; discriminate). }
  split; [split; [lia|exists 8; reflexivity]|].
  unfold ex_items. repeat (constructor; cbn [wf_item snd]); try exact Hm; try exact Hs; try (apply Hq; lia); try lia.
  all: exists 6; reflexivity.
Qed.

(* the class of seeded change d: a measure rest that keeps the length computed for the FIRST measure rest of the part
   (any caching of mrest_ticks across a meter change) contradicts the denotation *)
Lemma mrest_cached_refuted_lemma :
  exists divs ts c u, last_meter (ts ++ [(8, c, u)]) = (c, u) /\ wf_meter divs c u /\
    ~ repr divs (mrest_ticks divs ts) (4 * inject_Z c / inject_Z u)%Q.
Proof.
  exists 2, [(0, 4, 4)], 3, 4. split; [reflexivity|]. split; [split; [lia|exists 6; reflexivity]|].
  unfold repr. vm_compute. discriminate.
Qed.
