(* C15, round j extension: the tables and mappings merge_parts builds (Model/C15_Code.v) refine the
   closed forms of Model/C15.v, for all inputs. *)
From PV Require Import Lib.Base Model.C05 Model.C15 Model.C15_Spec Proofs.C15 Proofs.C15_ext.
From PV Require Import Model.C15_Code.
From Coq Require Import QArith Permutation Sorted.
#[local] Open Scope Z_scope.

(* ------------------------------------------------------------------ np.unique *)

Lemma ins_u_In x y s : In y (ins_u x s) <-> y = x \/ In y s.
Proof.
  induction s as [|a r IH]; simpl; [intuition|].
  destruct (x <? a) eqn:E1; simpl; [intuition|].
  destruct (x =? a) eqn:E2; simpl.
  - assert (x = a) by lia. subst. intuition.
  - rewrite IH. intuition.
Qed.

Lemma ins_u_sorted x s : StronglySorted Z.lt s -> StronglySorted Z.lt (ins_u x s).
Proof.
  induction s as [|a r IH]; simpl; intros H.
  - constructor; constructor.
  - inversion H as [|a' r' Hr Ha]; subst.
    destruct (x <? a) eqn:E1.
    + constructor; [exact H|]. constructor; [lia|].
      eapply Forall_impl; [|exact Ha]. simpl. intros; lia.
    + destruct (x =? a) eqn:E2; [exact H|].
      constructor; [apply IH; exact Hr|].
      rewrite Forall_forall. intros y Hy. apply ins_u_In in Hy. destruct Hy as [->|Hy]; [lia|].
      rewrite Forall_forall in Ha. apply Ha; exact Hy.
Qed.

Lemma np_unique_In y l : In y (np_unique l) <-> In y l.
Proof.
  induction l as [|a r IH]; simpl; [intuition|].
  rewrite ins_u_In, IH. intuition.
Qed.

Lemma np_unique_sorted l : StronglySorted Z.lt (np_unique l).
Proof. induction l as [|a r IH]; simpl; [constructor|apply ins_u_sorted; exact IH]. Qed.

Lemma sorted_NoDup s : StronglySorted Z.lt s -> NoDup s.
Proof.
  induction 1 as [|a r Hr IH Ha]; constructor; [|exact IH].
  intros Hin. rewrite Forall_forall in Ha. specialize (Ha a Hin). lia.
Qed.

Lemma perm_filter_length (f : Z -> bool) a b :
  Permutation a b -> List.length (filter f a) = List.length (filter f b).
Proof.
  induction 1; simpl; auto.
  - destruct (f x); simpl; congruence.
  - destruct (f x), (f y); simpl; reflexivity.
  - congruence.
Qed.

Lemma np_unique_perm l : Permutation (np_unique l) (uniq l).
Proof.
  apply NoDup_Permutation.
  - apply sorted_NoDup, np_unique_sorted.
  - apply NoDup_nodup.
  - intros x. rewrite np_unique_In, uniq_In. reflexivity.
Qed.

Lemma rank_np_unique v l : rank v (np_unique l) = rank v (uniq l).
Proof. unfold rank. f_equal. apply perm_filter_length, np_unique_perm. Qed.

Lemma length_np_unique l : List.length (np_unique l) = List.length (uniq l).
Proof. apply Permutation_length, np_unique_perm. Qed.

(* ------------------------------------------------------------------ max(unique, default=1) *)

Lemma fold_max_in l : forall a, fold_left Z.max l a = a \/ In (fold_left Z.max l a) l.
Proof.
  induction l as [|x r IH]; simpl; intros a; [auto|].
  destruct (IH (Z.max a x)) as [E|E]; [|auto].
  rewrite E. destruct (Z.max_spec a x) as [[_ ->]|[_ ->]]; auto.
Qed.

Lemma zmax_list_in d l : l <> [] -> In (zmax_list d l) l.
Proof.
  destruct l as [|x r]; [congruence|]. intros _. unfold zmax_list.
  destruct (fold_max_in r x) as [E|E]; [rewrite E; left; reflexivity|right; exact E].
Qed.

Lemma zmax_list_members d a b : (forall x, In x a <-> In x b) -> zmax_list d a = zmax_list d b.
Proof.
  intros H.
  destruct a as [|xa ra].
  - destruct b as [|xb rb]; [reflexivity|]. exfalso. apply (H xb). left; reflexivity.
  - destruct b as [|xb rb]; [exfalso; apply (H xa); left; reflexivity|].
    assert (A : In (zmax_list d (xa :: ra)) (xa :: ra)) by (apply zmax_list_in; congruence).
    assert (B : In (zmax_list d (xb :: rb)) (xb :: rb)) by (apply zmax_list_in; congruence).
    apply H in A. apply H in B.
    pose proof (zmax_list_ge d _ _ A). pose proof (zmax_list_ge d _ _ B). lia.
Qed.

Lemma zmax_np_unique l : zmax_list 1 (np_unique l) = zmax_list 1 l.
Proof. apply zmax_list_members. intros x. apply np_unique_In. Qed.

(* ------------------------------------------------------------------ dict(zip(sorted keys, arange)) *)

Lemma dict_get_not_in ks : forall vs k, ~ In k ks -> dict_get (combine ks vs) k = None.
Proof.
  induction ks as [|a r IH]; intros vs k H; [reflexivity|].
  destruct vs as [|v vs]; [reflexivity|]. simpl.
  rewrite IH by (intros Hin; apply H; right; exact Hin).
  destruct (a =? k) eqn:E; [|reflexivity]. exfalso. apply H. left. lia.
Qed.

Lemma dict_get_sorted s : StronglySorted Z.lt s -> forall (f : nat -> Z) k0 v, In v s ->
  dict_get (combine s (map f (seq k0 (List.length s)))) v =
  Some (f (k0 + List.length (filter (fun x => (x <? v)%Z) s))%nat).
Proof.
  induction 1 as [|a r Hr IH Ha]; intros f k0 v Hin; [destruct Hin|].
  simpl List.length. simpl seq. simpl map. simpl combine. simpl dict_get.
  rewrite Forall_forall in Ha.
  destruct (in_dec Z.eq_dec v r) as [Hv|Hv].
  - rewrite (IH f (S k0) v Hv). specialize (Ha v Hv). simpl filter.
    replace (a <? v) with true by lia. simpl List.length. do 2 f_equal. lia.
  - destruct Hin as [->|Hin]; [|contradiction].
    rewrite dict_get_not_in by exact Hv. rewrite Z.eqb_refl. simpl filter.
    replace (v <? v) with false by lia.
    rewrite (filter_nil (fun x => x <? v) r).
    + simpl. do 2 f_equal. lia.
    + intros x Hx. specialize (Ha x Hx). lia.
Qed.

(* the mapping the code builds = the closed form: a key in use goes to base + 1 + (number of smaller
   numbers in use); any other key raises KeyError *)
Lemma mapping_lookup_lemma l base v :
  (In v l -> dict_get (dict_zip (np_unique l) (arange1 base (List.length (np_unique l)))) v
             = Some (base + 1 + rank v (uniq l))) /\
  (~ In v l -> dict_get (dict_zip (np_unique l) (arange1 base (List.length (np_unique l)))) v = None).
Proof.
  split; intros H; unfold dict_zip, arange1.
  - rewrite (dict_get_sorted _ (np_unique_sorted l) (fun i => base + Z.of_nat i) 1%nat v)
      by (apply np_unique_In; exact H).
    rewrite <- rank_np_unique. unfold rank. f_equal. lia.
  - apply dict_get_not_in. rewrite np_unique_In. exact H.
Qed.

(* the values of the mapping are the contiguous window base+1 .. base+n, each once, in key order *)
Lemma mapping_window_lemma l base :
  map fst (mapping_from (np_unique l) base) = np_unique l /\
  map snd (mapping_from (np_unique l) base) = arange1 base (List.length (uniq l)) /\
  NoDup (map snd (mapping_from (np_unique l) base)).
Proof.
  unfold mapping_from, dict_zip.
  assert (E : List.length (arange1 base (List.length (np_unique l))) = List.length (np_unique l))
    by (unfold arange1; rewrite map_length, seq_length; reflexivity).
  assert (A : forall (a b : list Z), List.length b = List.length a ->
              map fst (combine a b) = a /\ map snd (combine a b) = b).
  { induction a as [|x a IH]; destruct b as [|y b]; simpl; intros Hl; try discriminate; [auto|].
    destruct (IH b) as [P Q]; [lia|]. rewrite P, Q. auto. }
  destruct (A _ _ E) as [P Q]. rewrite P, Q, length_np_unique. repeat split.
  unfold arange1. apply FinFun.Injective_map_NoDup; [|apply seq_NoDup].
  intros i j Hij. lia.
Qed.

(* ------------------------------------------------------------------ the tables, indexed by p_ind *)

Lemma nth_map_mid {A B} (f : A -> B) (pre : list A) (p : A) (rest : list A) (d : B) :
  nth (List.length pre) (map f (pre ++ p :: rest)) d = f p.
Proof.
  rewrite map_app. rewrite app_nth2 by (rewrite map_length; lia).
  rewrite map_length, Nat.sub_diag. reflexivity.
Qed.

Lemma firstn_map_pre {A B} (f : A -> B) (pre : list A) (rest : list A) :
  firstn (List.length pre) (map f (pre ++ rest)) = map f pre.
Proof.
  rewrite map_app. rewrite firstn_app. rewrite map_length, Nat.sub_diag. simpl.
  rewrite app_nil_r. rewrite <- (map_length f pre). apply firstn_all.
Qed.

Lemma firstn_pre {A} (pre rest : list A) : firstn (List.length pre) (pre ++ rest) = pre.
Proof. rewrite firstn_app, Nat.sub_diag, firstn_all. simpl. apply app_nil_r. Qed.

Section Tables.
  Variable all : list part.
  Variables (pre : list part) (p : part) (rest : list part).
  Hypothesis Hall : all = pre ++ p :: rest.
  Let T := tables_of all.
  Let i := List.length pre.

  Lemma tbl_mult : nth i (t_mult T) 0 = merge_lcm all / snd p.
  Proof.
    unfold T, tables_of, i; simpl. generalize (merge_lcm all) as L; intro L. rewrite Hall.
    apply (nth_map_mid (fun q : part => L / snd q)).
  Qed.

  Lemma tbl_uv : nth i (t_uv T) [] = np_unique (voices_of (fst p)).
  Proof. unfold T, tables_of, i; simpl. rewrite Hall. apply (nth_map_mid (fun q : part => np_unique (voices_of (fst q)))). Qed.

  Lemma tbl_us : nth i (t_us T) [] = np_unique (staves_of (fst p)).
  Proof. unfold T, tables_of, i; simpl. rewrite Hall. apply (nth_map_mid (fun q : part => np_unique (staves_of (fst q)))). Qed.

  Lemma tbl_sum_maxv : zsum (firstn i (t_maxv T)) = o_voice (offs_at all i).
  Proof.
    destruct (offs_at_sums all i) as [A _]. rewrite A.
    unfold T, tables_of, i; simpl. rewrite Hall. rewrite map_map, firstn_map_pre, firstn_pre.
    rewrite map_map. f_equal. apply map_ext. intros q. unfold maxv. apply zmax_np_unique.
  Qed.

  Lemma tbl_sum_maxs : zsum (firstn i (t_maxs T)) = o_staff (offs_at all i).
  Proof.
    destruct (offs_at_sums all i) as [_ [A _]]. rewrite A.
    unfold T, tables_of, i; simpl. rewrite Hall. rewrite map_map, firstn_map_pre, firstn_pre.
    rewrite map_map. f_equal. apply map_ext. intros q. unfold maxs. apply zmax_np_unique.
  Qed.

  Lemma tbl_nprev : n_prev_staves T i = o_nstaves (offs_at all i).
  Proof.
    destruct (offs_at_sums all i) as [_ [_ A]]. rewrite A.
    unfold n_prev_staves. destruct (Nat.eqb i 0) eqn:E.
    - apply Nat.eqb_eq in E. rewrite E. reflexivity.
    - unfold T, tables_of, i; simpl. rewrite Hall. rewrite firstn_map_pre, firstn_pre.
      rewrite !map_map. f_equal. apply map_ext. intros q. unfold zlen, nstaves. f_equal. apply length_np_unique.
  Qed.

  (* one element of the part: the loop body as written = renumber with the closed forms *)
  Lemma renumber_code_eq m e k :
    (is_generic (e_kind e) = true -> forall v, e_voice e = Some v -> In v (voices_of (fst p))) ->
    (is_staffed (e_kind e) = true -> In (staff1 e) (staves_of (fst p))) ->
    renumber_code m T i (voice_mapping T i) (staff_mapping T i) (rescale_elem k e) =
    renumber m (offs_at all i) (uniq (voices_of (fst p))) (uniq (staves_of (fst p))) (rescale_elem k e).
  Proof.
    intros HV HS. unfold renumber_code, renumber.
    change (e_kind (rescale_elem k e)) with (e_kind e).
    change (e_voice (rescale_elem k e)) with (e_voice e).
    change (staff1 (rescale_elem k e)) with (staff1 e).
    destruct m.
    - rewrite tbl_sum_maxv. reflexivity.
    - rewrite tbl_sum_maxs. reflexivity.
    - unfold voice_mapping, staff_mapping. rewrite tbl_uv, tbl_us, tbl_nprev.
      destruct (is_generic (e_kind e)) eqn:G.
      + destruct (e_voice e) as [v|] eqn:V; [|reflexivity].
        destruct (mapping_lookup_lemma (voices_of (fst p)) (o_nstaves (offs_at all i) * 4) v) as [A _].
        rewrite (A (HV eq_refl v eq_refl)).
        replace (o_nstaves (offs_at all i) * 4 + 1) with (4 * o_nstaves (offs_at all i) + 1) by lia.
        destruct (is_staffed (e_kind e)) eqn:S; [|reflexivity].
        destruct (mapping_lookup_lemma (staves_of (fst p)) (o_nstaves (offs_at all i)) (staff1 e)) as [B _].
        rewrite (B (HS eq_refl)). reflexivity.
      + destruct (is_staffed (e_kind e)) eqn:S; [|reflexivity].
        destruct (mapping_lookup_lemma (staves_of (fst p)) (o_nstaves (offs_at all i)) (staff1 e)) as [B _].
        rewrite (B (HS eq_refl)). reflexivity.
  Qed.

  Lemma xform_code_eq m : forall es, incl es (fst p) ->
    xform_elems_code m T i (voice_mapping T i) (staff_mapping T i) es =
    xform_elems m (merge_lcm all / snd p) (Nat.eqb i 0) (offs_at all i)
                (uniq (voices_of (fst p))) (uniq (staves_of (fst p))) es.
  Proof.
    induction es as [|e r IH]; intros Hi; [reflexivity|]. cbn [xform_elems_code xform_elems].
    assert (He : In e (fst p)) by (apply Hi; left; reflexivity).
    rewrite IH by (intros x Hx; apply Hi; right; exact Hx).
    rewrite tbl_mult. rewrite renumber_code_eq; [reflexivity| |].
    - intros G v V. unfold voices_of. apply in_flat_map. exists e. split; [exact He|].
      rewrite G, V. left; reflexivity.
    - intros S. unfold staves_of. apply in_flat_map. exists e. split; [exact He|].
      rewrite S. left; reflexivity.
  Qed.
End Tables.

Lemma offs_at_S (pre : list part) p rest :
  offs_at (pre ++ p :: rest) (S (List.length pre)) = next_offs (offs_at (pre ++ p :: rest) (List.length pre)) (fst p).
Proof.
  unfold offs_at. rewrite firstn_pre.
  replace (S (List.length pre)) with (List.length (pre ++ [p])) by (rewrite app_length; simpl; lia).
  replace (pre ++ p :: rest) with ((pre ++ [p]) ++ rest) by (rewrite <- app_assoc; reflexivity).
  rewrite firstn_pre. rewrite map_app, fold_left_app. reflexivity.
Qed.

Lemma loop_code_eq m all : forall ps pre, all = pre ++ ps ->
  loop_code m (tables_of all) (List.length pre) ps =
  merge_from m (merge_lcm all) (List.length pre) (offs_at all (List.length pre)) ps.
Proof.
  induction ps as [|p rest IH]; intros pre H; [reflexivity|]. cbn [loop_code merge_from].
  rewrite (xform_code_eq all pre p rest H m (fst p)) by apply incl_refl.
  assert (H2 : all = (pre ++ [p]) ++ rest) by (rewrite <- app_assoc; exact H).
  specialize (IH (pre ++ [p]) H2).
  replace (List.length (pre ++ [p])) with (S (List.length pre)) in IH by (rewrite app_length; simpl; lia).
  rewrite IH.
  assert (O : offs_at all (S (List.length pre)) = next_offs (offs_at all (List.length pre)) (fst p))
    by (rewrite H; apply offs_at_S).
  rewrite O. unfold xform_part. destruct p as [es d]. reflexivity.
Qed.

(* the code-level model = the model of Model/C15.v, for every mode and argument *)
Lemma code_refines_lemma m ts : merge_parts_code m ts = merge_parts m ts.
Proof.
  unfold merge_parts_code, merge_parts.
  destruct (flat_map flatten ts) as [|p0 [|p1 r]] eqn:E; [reflexivity|reflexivity|].
  pose proof (loop_code_eq m (p0 :: p1 :: r) (p0 :: p1 :: r) [] eq_refl) as Q.
  change (List.length (@nil part)) with 0%nat in Q. cbv zeta. rewrite Q.
  reflexivity.
Qed.

Lemma np_unique_spec_lemma l :
  StronglySorted Z.lt (np_unique l) /\ (forall x, In x (np_unique l) <-> In x l) /\
  List.length (np_unique l) = List.length (uniq l) /\ zmax_list 1 (np_unique l) = zmax_list 1 l.
Proof.
  split; [apply np_unique_sorted|]. split; [intros x; apply np_unique_In|].
  split; [apply length_np_unique|apply zmax_np_unique].
Qed.

(* the tables indexed by p_ind are the state the closed forms name *)
Lemma code_tables_lemma (all pre : list part) (p : part) (rest : list part) :
  all = pre ++ p :: rest ->
  let T := tables_of all in
  let i := List.length pre in
  t_lcm T = merge_lcm all /\
  nth i (t_mult T) 0 = merge_lcm all / snd p /\
  nth i (t_uv T) [] = np_unique (voices_of (fst p)) /\
  nth i (t_us T) [] = np_unique (staves_of (fst p)) /\
  zsum (firstn i (t_maxv T)) = zsum (map maxv (map fst pre)) /\
  zsum (firstn i (t_maxs T)) = zsum (map maxs (map fst pre)) /\
  n_prev_staves T i = zsum (map nstaves (map fst pre)).
Proof.
  intros H T i. split; [reflexivity|].
  split; [apply (tbl_mult all pre p rest H)|].
  split; [apply (tbl_uv all pre p rest H)|].
  split; [apply (tbl_us all pre p rest H)|].
  destruct (offs_at_sums all i) as [A [B C]].
  assert (F : firstn i all = pre) by (unfold i; rewrite H; apply firstn_pre).
  rewrite F in A, B, C.
  split; [rewrite <- A; apply (tbl_sum_maxv all pre p rest H)|].
  split; [rewrite <- B; apply (tbl_sum_maxs all pre p rest H)|].
  rewrite <- C; apply (tbl_nprev all pre p rest H).
Qed.

(* every theorem about the model of Model/C15.v holds for the code-level model *)
Lemma code_inherits_lemma (P : mode -> list tree -> result -> Prop) :
  (forall m ts, P m ts (merge_parts m ts)) -> forall m ts, P m ts (merge_parts_code m ts).
Proof. intros H m ts. rewrite code_refines_lemma. apply H. Qed.

(* ------------------------------------------------------------------ non-vacuity and refuted variants *)

Definition cx_note (oid v : Z) (st : option Z) (s e : Z) : elem :=
  mkElem oid KNote s (Some e) (Some v) st 60 None None.
(* voices first seen as 5, 2, 5, 1 (unsorted, a gap, a duplicate); staves None, 3, 1 (None = 1) *)
Definition cx_p0 : part :=
  ([cx_note 1 5 None 0 2; cx_note 2 2 (Some 3) 0 2; cx_note 3 5 (Some 1) 2 4; cx_note 4 1 (Some 3) 2 4], 2).
Definition cx_p1 : part := ([cx_note 5 7 (Some 2) 0 3; cx_note 6 3 (Some 2) 3 6], 3).

Lemma code_examples :
  np_unique [5; 2; 5; 1] = [1; 2; 5] /\
  np_unique (staves_of (fst cx_p0)) = [1; 3] /\
  (let T := tables_of [cx_p0; cx_p1] in
   t_lcm T = 6 /\ t_mult T = [3; 2] /\ t_uv T = [[1; 2; 5]; [3; 7]] /\ t_us T = [[1; 3]; [2]] /\
   t_maxv T = [5; 7] /\ t_maxs T = [3; 2] /\
   voice_mapping T 0 = [(1, 1); (2, 2); (5, 3)] /\ staff_mapping T 0 = [(1, 1); (3, 2)] /\
   voice_mapping T 1 = [(3, 9); (7, 10)] /\ staff_mapping T 1 = [(2, 3)] /\
   dict_get (voice_mapping T 0) 5 = Some 3 /\ dict_get (voice_mapping T 0) 3 = None) /\
  (exists out, merge_parts_code MAuto [TPart cx_p0; TPart cx_p1] = RMerged 6 out /\
     map (fun x : nat * elem => (fst x, e_oid (snd x), e_start (snd x), e_voice (snd x), e_staff (snd x))) out =
     [(0%nat, 1, 0, Some 3, Some 1); (0%nat, 2, 0, Some 2, Some 2); (0%nat, 3, 6, Some 3, Some 1);
      (0%nat, 4, 6, Some 1, Some 2); (1%nat, 5, 0, Some 10, Some 3); (1%nat, 6, 6, Some 9, Some 3)]).
Proof.
  split; [reflexivity|]. split; [reflexivity|]. split; [vm_compute; repeat split; reflexivity|].
  eexists. split; vm_compute; reflexivity.
Qed.

(* keys sorted but NOT deduplicated (sorted(...) for np.unique): the later pair of a repeated key wins,
   the key in use does not get base + 1 + rank and the numbers leave the window of the part *)
Lemma sorted_dups_refuted :
  exists l base v, In v l /\
    dict_get (mapping_from (np_unique l) base) v = Some (base + 1 + rank v (uniq l)) /\
    dict_get (mapping_from (sorted_dups l) base) v <> Some (base + 1 + rank v (uniq l)) /\
    ~ (exists w, dict_get (mapping_from (sorted_dups l) base) v = Some w /\ w <= base + Z.of_nat (List.length (uniq l))).
Proof.
  exists [2; 1; 2], 0, 2. split; [left; reflexivity|]. split; [reflexivity|].
  split; [vm_compute; congruence|]. intros [w [A B]]. vm_compute in A. injection A as <-. vm_compute in B. apply B; reflexivity.
Qed.

(* np.arange(1, n): zip drops the largest key -- KeyError for a number in use *)
Lemma arange_short_refuted :
  exists l base v, In v l /\ dict_get (mapping_short (np_unique l) base) v = None /\
    dict_get (mapping_from (np_unique l) base) v = Some (base + 1 + rank v (uniq l)).
Proof. exists [1; 2], 0, 2. split; [right; left; reflexivity|]. split; reflexivity. Qed.

(* keys in the order of first appearance: still one number per key, but not the documented ones *)
Lemma first_seen_refuted :
  exists l base v, In v l /\ dict_get (mapping_from (first_seen l) base) v <> Some (base + 1 + rank v (uniq l)).
Proof. exists [5; 2], 0, 5. split; [left; reflexivity|]. vm_compute. congruence. Qed.
