(* C11 -- lemmas on pieces, tie chains, order_splits and find_tie_split (Model/C11.v) *)
From PV Require Import Lib.Base Lib.Round Gen.C11_Tables Model.C11 Model.C11_Spec.
From Coq Require Import QArith Qabs Qround Qminmax Sorting.Sorted.
#[local] Open Scope Z_scope.

(* --- generic lemmas *)
Lemma iter2_inv {X R} (I : X -> Prop) (P : R -> Prop) (step : X -> X + R) :
  (forall x, I x -> match step x with inl x' => I x' | inr r => P r end) ->
  forall k x, I x -> match iter2 k step x with inl x' => I x' | inr r => P r end.
Proof.
  intros H k. induction k as [|k IH]; intros x Hx; simpl.
  - apply H; assumption.
  - pose proof (IH x Hx) as H1. destruct (iter2 k step x) as [x'|r]; [apply IH; exact H1 | exact H1].
Qed.

Lemma zrange_In_inv lo n x : In x (zrange lo n) -> lo <= x < lo + Z.of_nat n.
Proof.
  revert lo; induction n as [|n IH]; intros lo H; simpl in H; [contradiction|].
  destruct H as [H|H]; [lia|]. apply IH in H. lia.
Qed.

(* --- pieces *)
Lemma total_dur_pieces : forall cuts s e, total_dur (pieces s cuts e) = e - s.
Proof. induction cuts as [|c r IH]; intros s e; simpl; [lia | rewrite IH; lia]. Qed.

Lemma onset_pieces cuts s e : onset_of (pieces s cuts e) = s.
Proof. destruct cuts; reflexivity. Qed.

Lemma pieces_nonnil cuts s e : pieces s cuts e <> [].
Proof. destruct cuts; discriminate. Qed.

Definition last_end (l : list (Z * Z)) (d : Z) : Z := snd (last l (d, d)).

Lemma pieces_contiguous : forall cuts s e, contiguous (pieces s cuts e).
Proof.
  induction cuts as [|c r IH]; intros s e; simpl; [auto|].
  split; [|apply IH]. destruct r; reflexivity.
Qed.

Lemma pieces_last_end : forall cuts s e d, last_end (pieces s cuts e) d = e.
Proof.
  unfold last_end. induction cuts as [|c r IH]; intros s e d; [reflexivity|].
  change (pieces s (c :: r) e) with ((s, c) :: pieces c r e).
  specialize (IH c e d). destruct (pieces c r e) eqn:E; [destruct r; discriminate|].
  exact IH.
Qed.

(* a piece-wise refinement f that keeps onset, end, total duration and contiguity *)
Definition refines (f : Z * Z -> list (Z * Z)) : Prop :=
  forall p, f p <> [] /\ onset_of (f p) = fst p /\ total_dur (f p) = snd p - fst p
            /\ contiguous (f p) /\ (forall d, last_end (f p) d = snd p).

Lemma total_dur_app a b : total_dur (a ++ b) = total_dur a + total_dur b.
Proof. induction a as [|x a IH]; simpl; [lia | rewrite IH; lia]. Qed.

Lemma flat_map_total f : refines f -> forall ps, total_dur (flat_map f ps) = total_dur ps.
Proof.
  intros H ps; induction ps as [|p ps IH]; simpl; [reflexivity|].
  rewrite total_dur_app, IH. destruct (H p) as (_ & _ & E & _). lia.
Qed.

Lemma flat_map_onset f : refines f -> forall ps, onset_of (flat_map f ps) = onset_of ps.
Proof.
  intros H [|p ps]; simpl; [reflexivity|].
  destruct (H p) as (N & O & _). destruct (f p) eqn:E; [congruence|]. simpl in *. exact O.
Qed.

Lemma contiguous_app a b :
  contiguous a -> contiguous b ->
  (a <> [] -> b <> [] -> forall d, last_end a d = onset_of b) ->
  contiguous (a ++ b).
Proof.
  induction a as [|x a IH]; intros Ha Hb Hj; simpl; [assumption|].
  destruct Ha as [Hx Ha]. split.
  - destruct a as [|y a']; simpl.
    + destruct b as [|z b']; [exact I|].
      specialize (Hj ltac:(discriminate) ltac:(discriminate) 0). unfold last_end in Hj; simpl in Hj. exact Hj.
    + exact Hx.
  - apply IH; auto. intros Na Nb d. specialize (Hj ltac:(discriminate) Nb d).
    unfold last_end in *. destruct a; [congruence|]. exact Hj.
Qed.

Lemma flat_map_nonnil f : refines f -> forall ps, ps <> [] -> flat_map f ps <> [].
Proof.
  intros H [|p ps] N; [congruence|]. simpl. destruct (H p) as (Nf & _).
  destruct (f p); [congruence|discriminate].
Qed.

Lemma last_end_app a b d : b <> [] -> last_end (a ++ b) d = last_end b d.
Proof.
  intros N. unfold last_end. induction a as [|x a IH]; simpl; [reflexivity|].
  destruct (a ++ b) eqn:E; [destruct a; [simpl in E; congruence | discriminate]|]. exact IH.
Qed.

Lemma flat_map_contiguous f : refines f -> forall ps, contiguous ps ->
  contiguous (flat_map f ps) /\ (ps <> [] -> forall d, last_end (flat_map f ps) d = last_end ps d).
Proof.
  intros H ps; induction ps as [|p ps IH]; intros C; simpl.
  - split; [exact I | congruence].
  - destruct C as [Cp C]. destruct (IH C) as [IH1 IH2]. destruct (H p) as (Nf & Of & _ & Cf & Lf).
    split.
    + apply contiguous_app; auto. intros _ Nb d. rewrite Lf.
      destruct ps as [|q ps']; [simpl in Nb; congruence|].
      rewrite (flat_map_onset f H). simpl. exact Cp.
    + intros _ d. destruct ps as [|q ps'].
      * simpl. rewrite app_nil_r. rewrite Lf. reflexivity.
      * rewrite last_end_app by (apply flat_map_nonnil; [assumption|discriminate]).
        rewrite IH2 by discriminate. unfold last_end. reflexivity.
Qed.

Lemma pieces_refines_gen (cutf : Z -> Z -> list Z) : refines (fun p => pieces (fst p) (cutf (fst p) (snd p)) (snd p)).
Proof.
  intros p. repeat split.
  - apply pieces_nonnil.
  - apply onset_pieces.
  - apply total_dur_pieces.
  - apply pieces_contiguous.
  - intros d. apply pieces_last_end.
Qed.

Lemma single_refines_facts p : [p] <> [] /\ onset_of [p] = fst p /\ total_dur [p] = snd p - fst p
            /\ contiguous [p] /\ (forall d, last_end [p] d = snd p).
Proof. repeat split; try discriminate; simpl; auto; lia. Qed.

Lemma stage2_refines div : refines (stage2_piece div).
Proof.
  intros p. unfold stage2_piece.
  destruct (estimate (snd p - fst p) div); try apply single_refines_facts.
  destruct (find_tie_split (fst p) (snd p) div) as [[cuts|]|]; try apply single_refines_facts.
  apply (pieces_refines_gen (fun _ _ => cuts) p).
Qed.

Lemma stage1_refines bars : refines (fun p => pieces (fst p) (cuts_in bars (fst p) (snd p)) (snd p)).
Proof. apply (pieces_refines_gen (cuts_in bars)). Qed.

(* sounding preserved, for every chain: also one whose pieces are already tied *)
Lemma tie_sounding bars div c : sounding (tie_chain bars div c) = sounding c.
Proof.
  destruct c as [[[p v] st] ps]. unfold tie_chain, sounding, tie_pieces, stage2_pieces, stage1_pieces.
  rewrite (flat_map_onset _ (stage2_refines div)), (flat_map_total _ (stage2_refines div)).
  rewrite (flat_map_onset _ (stage1_refines bars)), (flat_map_total _ (stage1_refines bars)).
  reflexivity.
Qed.

Lemma stage1_sounding bars ps :
  onset_of (stage1_pieces bars ps) = onset_of ps /\ total_dur (stage1_pieces bars ps) = total_dur ps.
Proof.
  unfold stage1_pieces.
  rewrite (flat_map_onset _ (stage1_refines bars)), (flat_map_total _ (stage1_refines bars)). auto.
Qed.

Lemma tie_contiguous bars div ps : contiguous ps -> contiguous (tie_pieces bars div ps).
Proof.
  intros C. unfold tie_pieces, stage2_pieces, stage1_pieces.
  apply (flat_map_contiguous _ (stage2_refines div)).
  apply (flat_map_contiguous _ (stage1_refines bars)). exact C.
Qed.

(* ---------- chain_from facts *)
Lemma chain_from_le : forall l a b, chain_from a l b -> a <= b.
Proof.
  induction l as [|p r IH]; intros a b H; simpl in H; [lia|].
  destruct H as (E & L & C). apply IH in C. lia.
Qed.

Lemma chain_from_bounds : forall l a b p, chain_from a l b -> In p l -> a <= fst p /\ fst p < snd p /\ snd p <= b.
Proof.
  induction l as [|q r IH]; intros a b p H Hin; [contradiction|].
  simpl in H. destruct H as (E & L & C). destruct Hin as [->|Hin].
  - apply chain_from_le in C. lia.
  - destruct (IH _ _ _ C Hin) as (A1 & A2 & A3). lia.
Qed.

(* point location in a tiling, and the end of the located interval is the start of another
   interval unless it is the end of the tiling *)
Lemma chain_from_locate : forall l a b x, chain_from a l b -> a <= x < b ->
  exists m, In m l /\ fst m <= x < snd m /\ (snd m = b \/ In (snd m) (map fst l)).
Proof.
  induction l as [|q r IH]; intros a b x H Hx; simpl in H; [lia|].
  destruct H as (E & L & C).
  destruct (Z_lt_dec x (snd q)) as [Hlt|Hge].
  - exists q. split; [left; reflexivity|]. split; [lia|].
    destruct r as [|q' r'].
    + simpl in C. left; exact C.
    + simpl in C. destruct C as (E' & _). right. simpl. right. left. exact E'.
  - destruct (IH (snd q) b x C ltac:(lia)) as (m & Hin & Hm & Hend).
    exists m. split; [right; exact Hin|]. split; [exact Hm|].
    destruct Hend as [?|?]; [left; assumption | right; simpl; right; assumption].
Qed.

Lemma chain_from_starts_sorted : forall l a b, chain_from a l b -> StronglySorted Z.lt (map fst l).
Proof.
  induction l as [|q r IH]; intros a b H; simpl; [constructor|].
  simpl in H. destruct H as (E & L & C). constructor; [eapply IH; eassumption|].
  apply Forall_forall. intros x Hx. apply in_map_iff in Hx as (m & <- & Hm).
  destruct (chain_from_bounds _ _ _ _ C Hm). lia.
Qed.

(* ---------- stage 1: pieces between bars *)
Lemma cuts_in_shift : forall L s s' e, s <= s' -> Forall (fun m => s' < m) L -> cuts_in L s e = cuts_in L s' e.
Proof.
  induction L as [|m L IH]; intros s s' e Hs F; [reflexivity|].
  inversion F as [|? ? Hm F']; subst. unfold cuts_in in *. simpl.
  rewrite (IH s s' e Hs F').
  destruct (s <? m) eqn:E1, (s' <? m) eqn:E2; try reflexivity; lia.
Qed.

Lemma pieces_between_bars : forall L s e, StronglySorted Z.lt L -> s < e ->
  forall p, In p (pieces s (cuts_in L s e) e) ->
    s <= fst p /\ fst p < snd p /\ snd p <= e /\ forall m, In m L -> ~ (fst p < m < snd p).
Proof.
  induction L as [|l0 L IH]; intros s e S Hse p Hin.
  - simpl in Hin. destruct Hin as [<-|[]]. simpl. repeat split; try lia.
  - inversion S as [|? ? S' F]; subst.
    unfold cuts_in in Hin. simpl in Hin.
    destruct ((s <? l0) && (l0 <? e)) eqn:B.
    + assert (Hl : s < l0 < e) by lia.
      change (filter (fun m => (s <? m) && (m <? e)) L) with (cuts_in L s e) in Hin.
      rewrite (cuts_in_shift L s l0 e) in Hin by (try lia; exact F).
      simpl in Hin. destruct Hin as [<-|Hin].
      * simpl. repeat split; try lia. intros m [<-|Hm]; [lia|].
        rewrite Forall_forall in F. specialize (F m Hm). lia.
      * destruct (IH l0 e S' ltac:(lia) p Hin) as (A1 & A2 & A3 & A4).
        repeat split; try lia. intros m [<-|Hm]; [lia|]. apply A4; assumption.
    + change (filter (fun m => (s <? m) && (m <? e)) L) with (cuts_in L s e) in Hin.
      destruct (IH s e S' Hse p Hin) as (A1 & A2 & A3 & A4).
      repeat split; try lia. intros m [<-|Hm]; [lia|]. apply A4; assumption.
Qed.

Lemma stage1_within ms a b s e :
  chain_from a ms b -> a <= s -> s < e -> e <= b ->
  forall p, In p (pieces s (cuts_in (map fst ms) s e) e) -> within_one ms p.
Proof.
  intros C Ha Hse Hb p Hin.
  destruct (pieces_between_bars (map fst ms) s e (chain_from_starts_sorted _ _ _ C) Hse p Hin) as (A1 & A2 & A3 & A4).
  destruct (chain_from_locate ms a b (fst p) C ltac:(lia)) as (m & Hm & Hx & Hend).
  exists m. split; [exact Hm|]. split; [lia|].
  destruct (Z_le_dec (snd p) (snd m)) as [|Hgt]; [assumption|exfalso].
  destruct Hend as [Hend|Hend]; [lia|].
  apply (A4 (snd m) Hend). lia.
Qed.

(* ---------- order_splits *)
Lemma level_splits_spec s e b x : 0 < b -> In x (level_splits s e b) -> s < x < e /\ (b | x).
Proof.
  intros Hb Hin. unfold level_splits in Hin.
  set (B := 2 * b) in *. set (q := (s + b) / B) in *.
  assert (HB : 0 < B) by (unfold B; lia).
  pose proof (Z.mul_div_le (s + b) B HB) as D1. fold q in D1.
  pose proof (Z.mul_succ_div_gt (s + b) B HB) as D2. fold q in D2.
  set (x0 := B * (1 + q) - b) in *.
  destruct (x0 <? e) eqn:E0; [|contradiction].
  apply in_map_iff in Hin as (k & <- & Hk). apply zrange_In_inv in Hk.
  set (cnt := (e - x0 + B - 1) / B) in *.
  pose proof (Z.mul_div_le (e - x0 + B - 1) B HB) as D3. fold cnt in D3.
  assert (Hcnt : 0 <= cnt) by (apply Z.div_pos; lia).
  rewrite Z2Nat.id in Hk by assumption.
  assert (Hk1 : B * k <= B * (cnt - 1)) by (apply Z.mul_le_mono_nonneg_l; lia).
  assert (Hk0 : 0 <= B * k) by (apply Z.mul_nonneg_nonneg; lia).
  split.
  - unfold x0 in *. lia.
  - unfold x0, B. exists (2 * (1 + q) - 1 + 2 * k). ring.
Qed.

Lemma order_splits_aux_spec : forall fuel s e b u acc x,
  0 < b -> (u | b) ->
  (forall y, In y acc -> s < y < e /\ (u | y)) ->
  In x (order_splits_aux fuel s e b acc) -> s < x < e /\ (u | x).
Proof.
  induction fuel as [|f IH]; intros s e b u acc x Hb Hu Hacc Hin; cbn [order_splits_aux] in Hin.
  - apply Hacc; assumption.
  - destruct ((b * (1 + s / b) <? e) && (s <? b * (e / b))).
    + apply (IH s e (2 * b) u (level_splits s e b ++ acc) x); try lia.
      * apply Z.divide_mul_r; assumption.
      * intros y Hy. apply in_app_or in Hy as [Hy|Hy]; [|apply Hacc; assumption].
        destruct (level_splits_spec s e b y Hb Hy) as [A1 A2]. split; [assumption|].
        eapply Z.divide_trans; eassumption.
      * assumption.
    + apply Hacc; assumption.
Qed.

Lemma order_splits_on_grid_lemma s e u x : 0 < u -> In x (order_splits s e u) -> s < x < e /\ (u | x).
Proof.
  intros Hu Hin. unfold order_splits in Hin.
  apply (order_splits_aux_spec 64 s e u u [] x); auto.
  - apply Z.divide_refl.
  - intros y [].
Qed.

(* ---------- find_tie_split *)
Lemma find_smallest_unit_pos div u : 0 < div -> find_smallest_unit div = Some u -> 0 < u.
Proof.
  intros Hd H. unfold find_smallest_unit in H.
  assert (Hs : forall x, 0 < x -> match unit_step x with inl x' => 0 < x' | inr r => 0 < r end).
  { intros x Hx. unfold unit_step. destruct ((0 <? x) && (x mod 2 =? 0)) eqn:E; [|assumption].
    apply andb_true_iff in E as [_ E]. apply Z.eqb_eq in E.
    pose proof (Z.div_mod x 2 ltac:(lia)). lia. }
  pose proof (iter2_inv (fun x => 0 < x) (fun r => 0 < r) unit_step Hs 7%nat div Hd) as L.
  destruct (iter2 7 unit_step div); simpl in H; [discriminate|]. injection H as <-. exact L.
Qed.

Lemma last_cons {A} (c : A) r d : last (c :: r) d = last r c.
Proof. revert c; induction r as [|x r IH]; intros c; [reflexivity|]. simpl in *. destruct r; [reflexivity|]. apply IH. Qed.

Lemma chain_pieces_snoc : forall st s e x,
  chain_from s (pieces s st e) e -> last st s < x < e -> chain_from s (pieces s (st ++ [x]) e) e.
Proof.
  induction st as [|c r IH]; intros s e x C Hx.
  - simpl in *. repeat split; lia.
  - rewrite last_cons in Hx. simpl in C. destruct C as (E & L & C).
    simpl. repeat split; try lia. apply IH; assumption.
Qed.

Definition good_state (s e : Z) (st : list Z) : Prop :=
  chain_from s (pieces s st e) e /\ (List.length st <= max_splits)%nat.

Lemma expand_good s e u st st' : 0 < u -> good_state s e st -> In st' (expand s e u st) -> good_state s e st'.
Proof.
  intros Hu [C Hl] Hin. unfold expand in Hin.
  destruct (Nat.leb max_splits (List.length st)) eqn:E; [contradiction|].
  apply Nat.leb_gt in E.
  apply filter_In in Hin as [Hin _]. apply in_map_iff in Hin as (x & <- & Hx).
  apply order_splits_on_grid_lemma in Hx as [Hx _]; [|assumption].
  split; [apply chain_pieces_snoc; assumption|].
  rewrite app_length. simpl. lia.
Qed.

Lemma find_tie_split_sound_lemma s e div cuts :
  0 < div -> s < e -> find_tie_split s e div = Some (Some cuts) ->
  chain_from s (pieces s cuts e) e
  /\ Forall (fun p => has_sym (estimate (snd p - fst p) div) = true) (pieces s cuts e)
  /\ (List.length cuts <= 3)%nat.
Proof.
  intros Hd Hse H. unfold find_tie_split in H.
  destruct (find_smallest_unit div) as [u|] eqn:EU; [|discriminate].
  pose proof (find_smallest_unit_pos _ _ Hd EU) as Hu.
  pose proof (iter2_inv (fun q => Forall (good_state s e) q)
      (fun r => match r with
                | Some st => good_state s e st /\ success div s e st = true
                | None => True end)
      (search_step div s e u)) as L.
  assert (Hstep : forall q, Forall (good_state s e) q ->
            match search_step div s e u q with
            | inl q' => Forall (good_state s e) q'
            | inr r => match r with Some st => good_state s e st /\ success div s e st = true | None => True end
            end).
  { intros q Hq. unfold search_step. destruct q as [|st rest]; [exact I|].
    inversion Hq as [|? ? Hst Hrest]; subst.
    destruct (success div s e st) eqn:ES; [split; assumption|].
    apply Forall_app. split; [assumption|].
    apply Forall_forall. intros st' Hin. eapply expand_good; eassumption. }
  specialize (L Hstep search_fuel [[]]).
  assert (H0 : Forall (good_state s e) [[]]).
  { constructor; [|constructor]. split; simpl; [repeat split; lia | unfold max_splits; lia]. }
  specialize (L H0).
  destruct (iter2 search_fuel (search_step div s e u) [[]]) as [q|r]; simpl in H; [discriminate|].
  injection H as ->. destruct L as [[C Hl] S].
  split; [exact C|]. split; [|exact Hl].
  unfold success in S. rewrite forallb_forall in S. apply Forall_forall. exact S.
Qed.

(* stage 2 keeps every piece inside the piece it refines *)
Lemma stage2_piece_inside div p q : 0 < div -> fst p < snd p -> In q (stage2_piece div p) ->
  fst p <= fst q /\ fst q < snd q /\ snd q <= snd p.
Proof.
  intros Hd Hp Hin. unfold stage2_piece in Hin.
  destruct (estimate (snd p - fst p) div); try (destruct Hin as [<-|[]]; lia).
  destruct (find_tie_split (fst p) (snd p) div) as [[cuts|]|] eqn:E; try (destruct Hin as [<-|[]]; lia).
  destruct (find_tie_split_sound_lemma _ _ _ _ Hd Hp E) as (C & _).
  apply (chain_from_bounds _ _ _ _ C Hin).
Qed.

Lemma tie_within_measure_lemma ms a b bars div ps :
  0 < div -> chain_from a ms b -> bars = map fst ms ->
  Forall (fun p => a <= fst p /\ fst p < snd p /\ snd p <= b) ps ->
  Forall (within_one ms) (tie_pieces bars div ps).
Proof.
  intros Hd C -> F. apply Forall_forall. intros q Hq.
  unfold tie_pieces, stage2_pieces in Hq. apply in_flat_map in Hq as (p1 & Hp1 & Hq).
  unfold stage1_pieces in Hp1. apply in_flat_map in Hp1 as (p & Hp & Hp1).
  rewrite Forall_forall in F. destruct (F p Hp) as (A1 & A2 & A3).
  pose proof (stage1_within ms a b (fst p) (snd p) C A1 A2 A3 p1 Hp1) as (m & Hm & M1 & M2).
  destruct (pieces_between_bars (map fst ms) (fst p) (snd p) (chain_from_starts_sorted _ _ _ C) A2 p1 Hp1) as (B1 & B2 & _).
  destruct (stage2_piece_inside div p1 q Hd B2 Hq) as (D1 & D2 & D3).
  exists m. split; [exact Hm|]. lia.
Qed.
