(* C13 -- proofs about Model.C13.make_pianoroll: cell specification, index rows, shape, row-order invariance. *)
From PV Require Import Lib.Base Lib.Round Model.C13.
From Coq Require Import QArith Qround Qabs Permutation.
From PV Require Import Proofs.C13_lib.
#[local] Open Scope Z_scope.

(* ---------- which notes sound in a cell ---------- *)
Definition covers (o : opts) (mt : Q) (lo : Z) (n : note) (r c : Z) : bool :=
  (row_full o lo n =? r) && (fr_on o mt n <=? c) && (c <? fr_end o mt n).

Definition cov_vels (o : opts) (mt : Q) (lo : Z) (ns : list note) (r c : Z) : list Z :=
  flat_map (fun n => if covers o mt lo n r c then [n_vel n] else []) ns.

Lemma covers_comp o mt mt' lo n r c : (mt == mt')%Q -> covers o mt lo n r c = covers o mt' lo n r c.
Proof. intros E. unfold covers. rewrite (fr_on_comp _ _ _ _ E), (fr_end_comp _ _ _ _ E). reflexivity. Qed.

Lemma cov_vels_comp o mt mt' lo ns r c : (mt == mt')%Q -> cov_vels o mt lo ns r c = cov_vels o mt' lo ns r c.
Proof.
  intros E. unfold cov_vels. apply flat_map_ext. intros n. rewrite (covers_comp _ _ _ _ _ _ _ E). reflexivity.
Qed.

Lemma cov_vels_perm o mt lo ns ns' r c :
  Permutation ns ns' -> Permutation (cov_vels o mt lo ns r c) (cov_vels o mt lo ns' r c).
Proof. intros P. unfold cov_vels. apply Permutation_flat_map, P. Qed.

Lemma In_cov_vels o mt lo ns r c v :
  In v (cov_vels o mt lo ns r c) <-> exists n, In n ns /\ covers o mt lo n r c = true /\ n_vel n = v.
Proof.
  unfold cov_vels. rewrite in_flat_map. split.
  - intros [n [Hn Hv]]. destruct (covers o mt lo n r c) eqn:E; [|destruct Hv].
    destruct Hv as [<-|[]]. exists n. auto.
  - intros [n [Hn [E <-]]]. exists n. split; [exact Hn|]. rewrite E. left. reflexivity.
Qed.

Lemma vals_at_note_cells o mt lo n r c :
  vals_at r c (note_cells o mt lo n) = if covers o mt lo n r c then [n_vel n] else [].
Proof.
  unfold note_cells. rewrite vals_at_span. unfold covers.
  pose proof (fr_end_gt o mt n) as G.
  rewrite Z2Nat.id by lia.
  destruct ((r =? row_full o lo n) && (fr_on o mt n <=? c) && (c <? fr_on o mt n + (fr_end o mt n - fr_on o mt n))) eqn:E1;
  destruct ((row_full o lo n =? r) && (fr_on o mt n <=? c) && (c <? fr_end o mt n)) eqn:E2; try reflexivity; exfalso; lia.
Qed.

Lemma get_filled o mt lo l r c :
  get (fill (flat_map (note_cells o mt lo) l)) r c = vmax (cov_vels o mt lo l r c).
Proof.
  rewrite get_fill, vals_at_flat_map. unfold cov_vels. f_equal.
  apply flat_map_ext. intros n. apply vals_at_note_cells.
Qed.

(* ---------- post-processing of the stored cells ---------- *)
Lemma get_map_val (f : Z -> Z) m r c :
  get (map (fun x : cell => let '(r, c, v) := x in (r, c, f v)) m) r c = option_map f (get m r c).
Proof.
  induction m as [|[[r0 c0] v0] m IH]; simpl; [reflexivity|].
  destruct ((r =? r0) && (c =? c0)); [reflexivity | exact IH].
Qed.

Lemma get_slice o m r c :
  get (slice_rows o m) r c =
    if o_piano_range o then (if (0 <=? r) && (r <? 88) then get m (r + 21) c else None) else get m r c.
Proof.
  unfold slice_rows. destruct (o_piano_range o); [|reflexivity].
  induction m as [|[[r0 c0] v0] m IH]; simpl.
  - destruct ((0 <=? r) && (r <? 88)); reflexivity.
  - destruct ((21 <=? r0) && (r0 <? 109)) eqn:E; simpl.
    + destruct ((r =? r0 - 21) && (c =? c0)) eqn:E1.
      * destruct ((0 <=? r) && (r <? 88)) eqn:E2; [|exfalso; lia].
        destruct ((r + 21 =? r0) && (c =? c0)) eqn:E3; [reflexivity | exfalso; lia].
      * rewrite IH. destruct ((0 <=? r) && (r <? 88)) eqn:E2; [|reflexivity].
        destruct ((r + 21 =? r0) && (c =? c0)) eqn:E3; [exfalso; lia | reflexivity].
    + rewrite IH. destruct ((0 <=? r) && (r <? 88)) eqn:E2; [|reflexivity].
      destruct ((r + 21 =? r0) && (c =? c0)) eqn:E3; [exfalso; lia | reflexivity].
Qed.

(* ---------- inversion of a successful run ---------- *)
Definition bin_cells (o : opts) (m : list cell) : list cell :=
  map (fun x : cell => let '(r, c, v) := x in (r, c, binarize (o_binary o) v)) m.

Definition idx_of (o : opts) (mt : Q) (lo : Z) (n : note) : idxrow :=
  (row_full o lo n - pr_start o, fr_on o mt n, fr_off o mt n, n_pitch n).

Lemma make_pianoroll_inv o ns R : make_pianoroll o ns = Some R ->
  let tagged := sort_on ns in
  let sorted := map snd tagged in
  let mt := min_time o sorted in
  let lo := lowest_pitch o ns in
  let m := n_rows_full o ns in
  ns <> [] /\ existsb (fun n => negb (Qle_bool 0 (n_dur n))) ns = false /\
  exists n, n_cols o mt sorted = Some n /\
    forallb (in_shape m n) (fill (flat_map (note_cells o mt lo) sorted)) = true /\
    R = mkRoll (n_rows_out o m) n
          (slice_rows o (bin_cells o (fill (flat_map (note_cells o mt lo) sorted))))
          (map (fun i => nth (pos_of i (map fst tagged)) (map (idx_of o mt lo) sorted) (0, 0, 0, 0))
               (seq 0 (List.length ns))).
Proof.
  unfold make_pianoroll. destruct ns as [|n0 ns']; [discriminate|].
  set (ns := n0 :: ns').
  destruct (existsb (fun n => negb (Qle_bool 0 (n_dur n))) ns) eqn:E1; [discriminate|].
  cbv zeta.
  destruct (n_cols o (min_time o (map snd (sort_on ns))) (map snd (sort_on ns))) as [n|] eqn:E2; [|discriminate].
  destruct (forallb (in_shape (n_rows_full o ns) n) _) eqn:E3; [|discriminate].
  intros H. injection H as <-.
  split; [discriminate|]. split; [reflexivity|].
  exists n. split; [reflexivity|]. split; [exact E3|]. reflexivity.
Qed.

(* ---------- the cell specification ---------- *)
Definition sounding_max (o : opts) (ns : list note) (r c : Z) : option Z :=
  vmax (cov_vels o (spec_min_time o ns) (lowest_pitch o ns) ns (r + pr_start o) c).

Definition cell_spec (o : opts) (ns : list note) (r c : Z) : Z :=
  binarize (o_binary o) (match sounding_max o ns r c with Some v => v | None => 0 end).

Lemma binarize_0 b : binarize b 0 = 0.
Proof. destruct b; reflexivity. Qed.

Lemma roll_spec_lemma o ns R : make_pianoroll o ns = Some R ->
  forall r c, 0 <= r < r_rows R -> cell_at (r_cells R) r c = cell_spec o ns r c.
Proof.
  intros H r c Hr. apply make_pianoroll_inv in H. cbv zeta in H.
  destruct H as [Hne [_ [n [_ [_ ->]]]]]. cbn [r_cells r_rows] in *.
  unfold cell_at, cell_spec, sounding_max, bin_cells.
  assert (G : get (slice_rows o (map (fun x : cell => let '(r, c, v) := x in (r, c, binarize (o_binary o) v))
               (fill (flat_map (note_cells o (min_time o (map snd (sort_on ns))) (lowest_pitch o ns)) (map snd (sort_on ns)))))) r c
            = option_map (binarize (o_binary o))
                (vmax (cov_vels o (spec_min_time o ns) (lowest_pitch o ns) ns (r + pr_start o) c))).
  { rewrite get_slice. unfold pr_start, n_rows_out in *.
    destruct (o_piano_range o).
    - destruct ((0 <=? r) && (r <? 88)) eqn:E; [|exfalso; lia].
      rewrite get_map_val, get_filled. f_equal.
      rewrite (cov_vels_comp _ _ _ _ _ _ _ (min_time_spec o ns Hne)).
      apply vmax_perm, cov_vels_perm, sorted_perm.
    - rewrite get_map_val, get_filled. f_equal. rewrite Z.add_0_r.
      rewrite (cov_vels_comp _ _ _ _ _ _ _ (min_time_spec o ns Hne)).
      apply vmax_perm, cov_vels_perm, sorted_perm. }
  rewrite G. destruct (vmax _); simpl; [reflexivity | symmetry; apply binarize_0].
Qed.

(* ---------- value of a cell: the velocity of a sounding note, the largest one ---------- *)
Lemma sounding_max_spec o ns r c :
  let mt := spec_min_time o ns in
  let lo := lowest_pitch o ns in
  match sounding_max o ns r c with
  | None => forall n, In n ns -> covers o mt lo n (r + pr_start o) c = false
  | Some v => (exists n, In n ns /\ covers o mt lo n (r + pr_start o) c = true /\ n_vel n = v) /\
              forall n, In n ns -> covers o mt lo n (r + pr_start o) c = true -> n_vel n <= v
  end.
Proof.
  cbv zeta. unfold sounding_max.
  destruct (cov_vels o (spec_min_time o ns) (lowest_pitch o ns) ns (r + pr_start o) c) as [|x l] eqn:E.
  - rewrite vmax_nil. intros n Hn.
    destruct (covers o (spec_min_time o ns) (lowest_pitch o ns) n (r + pr_start o) c) eqn:Ec; [|reflexivity].
    assert (In (n_vel n) []) as []. rewrite <- E. apply In_cov_vels. exists n. auto.
  - destruct (vmax_cons x l) as [m [Em [Hin Hall]]]. rewrite Em. rewrite <- E in *. split.
    + apply In_cov_vels in Hin. exact Hin.
    + intros n Hn Hc. apply Hall. apply In_cov_vels. exists n. auto.
Qed.

Lemma binarize_nonzero b v : binarize b v <> 0 <-> v <> 0.
Proof. unfold binarize. destruct b; [|tauto]. destruct (v =? 0) eqn:E; lia. Qed.

Lemma cell_nonzero_iff_lemma o ns r c :
  (forall n, In n ns -> 0 < n_vel n) ->
  (cell_spec o ns r c <> 0 <->
   exists n, In n ns /\ covers o (spec_min_time o ns) (lowest_pitch o ns) n (r + pr_start o) c = true).
Proof.
  intros Hv. unfold cell_spec. rewrite binarize_nonzero.
  pose proof (sounding_max_spec o ns r c) as S. cbv zeta in S.
  destruct (sounding_max o ns r c) as [v|].
  - destruct S as [[n [Hn [Hc Ev]]] _]. split.
    + intros _. exists n. auto.
    + intros _. specialize (Hv n Hn). lia.
  - split; [intros H; exfalso; apply H; reflexivity|].
    intros [n [Hn Hc]]. rewrite (S n Hn) in Hc. discriminate.
Qed.

Lemma binary_cell_lemma o ns r c : o_binary o = true ->
  cell_spec o ns r c = 0 \/ cell_spec o ns r c = 1.
Proof. intros B. unfold cell_spec, binarize. rewrite B. destruct (_ =? 0); auto. Qed.

Lemma min_one_frame_lemma o mt lo n :
  fr_on o mt n < fr_end o mt n /\ covers o mt lo n (row_full o lo n) (fr_on o mt n) = true.
Proof.
  pose proof (fr_end_gt o mt n). split; [lia|]. unfold covers. lia.
Qed.

(* ---------- index rows ---------- *)
Lemma nth_pos {B} (g : note -> B) (d : B) (l : list (nat * note)) i x :
  NoDup (map fst l) -> In (i, x) l ->
  nth (pos_of i (map fst l)) (map g (map snd l)) d = g x.
Proof.
  induction l as [|[j y] l IH]; intros ND Hin; [destruct Hin|].
  simpl in *. inversion ND as [|? ? Hnotin ND']; subst.
  destruct (Nat.eqb i j) eqn:E.
  - apply Nat.eqb_eq in E. subst j. destruct Hin as [Hin|Hin]; [congruence|].
    exfalso. apply Hnotin. apply (in_map fst) in Hin. exact Hin.
  - apply Nat.eqb_neq in E. destruct Hin as [Hin|Hin]; [congruence|]. apply IH; assumption.
Qed.

Lemma In_combine_seq {A} (l : list A) : forall s i x,
  nth_error l i = Some x -> In ((s + i)%nat, x) (combine (seq s (List.length l)) l).
Proof.
  induction l as [|y l IH]; intros s i x H; [destruct i; discriminate|].
  destruct i; simpl in *.
  - injection H as ->. left. f_equal. lia.
  - right. replace (s + S i)%nat with (S s + i)%nat by lia. apply IH. exact H.
Qed.

Lemma map_seq_nth {A B} (f : nat -> B) (g : A -> B) (l : list A) : forall s,
  (forall i x, nth_error l i = Some x -> f (s + i)%nat = g x) ->
  map f (seq s (List.length l)) = map g l.
Proof.
  induction l as [|y l IH]; intros s H; [reflexivity|].
  simpl. f_equal.
  - rewrite <- (H O y eq_refl). f_equal. lia.
  - apply IH. intros i x Hi. rewrite <- (H (S i) x Hi). f_equal. lia.
Qed.

Lemma idx_of_comp o mt mt' lo n : (mt == mt')%Q -> idx_of o mt lo n = idx_of o mt' lo n.
Proof. intros E. unfold idx_of. rewrite (fr_on_comp _ _ _ _ E), (fr_off_comp _ _ _ _ E). reflexivity. Qed.

Lemma idx_rows_lemma o ns R : make_pianoroll o ns = Some R ->
  r_idx R = map (idx_of o (spec_min_time o ns) (lowest_pitch o ns)) ns.
Proof.
  intros H. apply make_pianoroll_inv in H. cbv zeta in H.
  destruct H as [Hne [_ [n [_ [_ ->]]]]]. cbn [r_idx].
  apply map_seq_nth. intros i x Hi. simpl.
  rewrite (nth_pos (idx_of o (min_time o (map snd (sort_on ns))) (lowest_pitch o ns)) (0,0,0,0) (sort_on ns) i x).
  - apply idx_of_comp, min_time_spec, Hne.
  - eapply Permutation_NoDup; [apply Permutation_sym, sorted_idx_perm | apply seq_NoDup].
  - eapply Permutation_in; [apply Permutation_sym, sort_on_perm|].
    apply (In_combine_seq ns 0 i x Hi).
Qed.

(* the offset column is one past the last frame the note fills, in every mode *)
Lemma fr_end_off o mt n : fr_end o mt n = fr_off o mt n.
Proof. unfold fr_end, fr_off. destruct (o_onset_only o); reflexivity. Qed.

(* what an index row says about the cells of its note: row, [onset column, offset column) *)
Lemma idx_designates_lemma o mt lo n r c :
  let '(r0, a, b, p) := idx_of o mt lo n in
  p = n_pitch n /\
  (covers o mt lo n r c = true <-> r = r0 + pr_start o /\ a <= c < b).
Proof.
  unfold idx_of. split; [reflexivity|]. unfold covers. rewrite fr_end_off. lia.
Qed.

(* onset-only mode: every index row spans exactly one frame *)
Lemma idx_onset_only_lemma o ns R : make_pianoroll o ns = Some R -> o_onset_only o = true ->
  forall r a b p, In (r, a, b, p) (r_idx R) -> b = a + 1.
Proof.
  intros H Ho r a b p Hin. rewrite (idx_rows_lemma _ _ _ H) in Hin.
  apply in_map_iff in Hin as [n [E _]]. unfold idx_of, fr_off in E. rewrite Ho in E.
  injection E as <- <- <- <-. reflexivity.
Qed.

Lemma length_idx_lemma o ns R : make_pianoroll o ns = Some R -> List.length (r_idx R) = List.length ns.
Proof. intros H. rewrite (idx_rows_lemma _ _ _ H). apply map_length. Qed.

(* ---------- extrema of integer lists ---------- *)
Lemma zmax_list_spec l : forall d,
  (zmax_list l d = d \/ In (zmax_list l d) l) /\ d <= zmax_list l d /\ forall x, In x l -> x <= zmax_list l d.
Proof.
  unfold zmax_list. induction l as [|x l IH]; intros d; simpl.
  - split; [left; reflexivity|]. split; [lia | intros x []].
  - destruct (IH (Z.max d x)) as [Hin [Hle Hall]]. split; [|split].
    + destruct Hin as [E|Hin]; [|right; right; exact Hin].
      rewrite E. destruct (Z.max_spec d x) as [[_ ->]|[_ ->]]; [right; left; reflexivity | left; reflexivity].
    + lia.
    + intros y [<-|Hy]; [lia | auto].
Qed.

Lemma zmin_list_spec l : forall d,
  (zmin_list l d = d \/ In (zmin_list l d) l) /\ zmin_list l d <= d /\ forall x, In x l -> zmin_list l d <= x.
Proof.
  unfold zmin_list. induction l as [|x l IH]; intros d; simpl.
  - split; [left; reflexivity|]. split; [lia | intros x []].
  - destruct (IH (Z.min d x)) as [Hin [Hle Hall]]. split; [|split].
    + destruct Hin as [E|Hin]; [|right; right; exact Hin].
      rewrite E. destruct (Z.min_spec d x) as [[_ ->]|[_ ->]]; [left; reflexivity | right; left; reflexivity].
    + lia.
    + intros y [<-|Hy]; [lia | auto].
Qed.

(* greatest / least value of a function over a note list *)
Definition greatest (f : note -> Z) (ns : list note) (m : Z) : Prop :=
  (exists n, In n ns /\ f n = m) /\ forall n, In n ns -> f n <= m.
Definition least (f : note -> Z) (ns : list note) (m : Z) : Prop :=
  (exists n, In n ns /\ f n = m) /\ forall n, In n ns -> m <= f n.

Lemma greatest_unique f g ns ns' m m' :
  Permutation ns ns' -> (forall n, f n = g n) -> greatest f ns m -> greatest g ns' m' -> m = m'.
Proof.
  intros P Efg [[n [Hn En]] Hall] [[n' [Hn' En']] Hall'].
  assert (m <= m') by (rewrite <- En, Efg; apply Hall'; eapply Permutation_in; eauto).
  assert (m' <= m) by (rewrite <- En', <- Efg; apply Hall; eapply Permutation_in; [apply Permutation_sym|]; eauto).
  lia.
Qed.

Lemma least_unique f ns ns' m m' :
  Permutation ns ns' -> least f ns m -> least f ns' m' -> m = m'.
Proof.
  intros P [[n [Hn En]] Hall] [[n' [Hn' En']] Hall'].
  assert (m <= m') by (rewrite <- En'; apply Hall; eapply Permutation_in; [apply Permutation_sym|]; eauto).
  assert (m' <= m) by (rewrite <- En; apply Hall'; eapply Permutation_in; eauto).
  lia.
Qed.

Lemma zmax_list_greatest f n0 ns : greatest f (n0 :: ns) (zmax_list (map f (n0 :: ns)) (f n0)).
Proof.
  destruct (zmax_list_spec (map f (n0 :: ns)) (f n0)) as [Hin [Hle Hall]]. split.
  - destruct Hin as [E|Hin].
    + exists n0. split; [left; reflexivity | symmetry; exact E].
    + apply in_map_iff in Hin as [n [E Hn]]. exists n. auto.
  - intros n Hn. apply Hall, in_map, Hn.
Qed.

Lemma zmin_list_least f n0 ns : least f (n0 :: ns) (zmin_list (map f (n0 :: ns)) (f n0)).
Proof.
  destruct (zmin_list_spec (map f (n0 :: ns)) (f n0)) as [Hin [Hle Hall]]. split.
  - destruct Hin as [E|Hin].
    + exists n0. split; [left; reflexivity | symmetry; exact E].
    + apply in_map_iff in Hin as [n [E Hn]]. exists n. auto.
  - intros n Hn. apply Hall, in_map, Hn.
Qed.

Lemma lowest_pitch_perm o ns ns' : Permutation ns ns' -> lowest_pitch o ns = lowest_pitch o ns'.
Proof.
  intros P. unfold lowest_pitch. destruct (-1 <? o_pitch_margin o); [|reflexivity].
  destruct ns as [|n0 ns]; [apply Permutation_nil in P; subst; reflexivity|].
  destruct ns' as [|n0' ns']; [apply Permutation_sym, Permutation_nil in P; discriminate|].
  eapply least_unique; [exact P | apply zmin_list_least | apply zmin_list_least].
Qed.

Lemma highest_pitch_perm o ns ns' : Permutation ns ns' -> highest_pitch o ns = highest_pitch o ns'.
Proof.
  intros P. unfold highest_pitch. destruct (-1 <? o_pitch_margin o); [|reflexivity].
  destruct ns as [|n0 ns]; [apply Permutation_nil in P; subst; reflexivity|].
  destruct ns' as [|n0' ns']; [apply Permutation_sym, Permutation_nil in P; discriminate|].
  eapply greatest_unique; [exact P | reflexivity | apply zmax_list_greatest | apply zmax_list_greatest].
Qed.

Lemma n_rows_full_perm o ns ns' : Permutation ns ns' -> n_rows_full o ns = n_rows_full o ns'.
Proof. intros P. unfold n_rows_full. rewrite (lowest_pitch_perm _ _ _ P), (highest_pitch_perm _ _ _ P). reflexivity. Qed.

Lemma spec_min_time_perm o ns ns' : Permutation ns ns' -> (spec_min_time o ns == spec_min_time o ns')%Q.
Proof.
  intros P. unfold spec_min_time.
  destruct ns as [|n0 ns]; [apply Permutation_nil in P; subst; reflexivity|].
  destruct ns' as [|n0' ns']; [apply Permutation_sym, Permutation_nil in P; discriminate|].
  assert (Q : (qmin_list (map n_onset (n0 :: ns)) (n_onset n0) == qmin_list (map n_onset (n0' :: ns')) (n_onset n0'))%Q)
    by (eapply least_onset_unique; [exact P | apply qmin_list_least | apply qmin_list_least]).
  cbv zeta. destruct (o_remove_silence o); [exact Q|].
  rewrite (Qle_bool_comp _ 0 _ _ (Qeq_refl 0) Q). destruct (Qle_bool 0 _); [reflexivity | exact Q].
Qed.

(* ---------- the shape ---------- *)
Definition n_cols_of (o : opts) (mt : Q) (last : Z) : option Z :=
  let td := o_time_div o in
  let tm := o_time_margin o in
  match o_end_time o with
  | None => Some (td * tm + last)
  | Some e =>
      let e' := (e - mt)%Q in
      if Qle_bool (inject_Z last) (e' * inject_Z td + inject_Z (tm * td))
      then Some (Qceiling (inject_Z (2 * td * tm) + inject_Z td * e'))
      else None
  end.

Lemma n_cols_eq o mt s : n_cols o mt s = n_cols_of o mt (max_off_nom o mt s).
Proof. reflexivity. Qed.

Lemma n_cols_of_comp o mt mt' last : (mt == mt')%Q -> n_cols_of o mt last = n_cols_of o mt' last.
Proof.
  intros E. unfold n_cols_of. destruct (o_end_time o) as [e|]; [|reflexivity].
  assert (E1 : ((e - mt) * inject_Z (o_time_div o) + inject_Z (o_time_margin o * o_time_div o) ==
                (e - mt') * inject_Z (o_time_div o) + inject_Z (o_time_margin o * o_time_div o))%Q) by (rewrite E; reflexivity).
  rewrite (Qle_bool_comp _ _ _ _ (Qeq_refl (inject_Z last)) E1).
  destruct (Qle_bool _ _); [|reflexivity]. f_equal. apply Qceiling_comp. rewrite E. reflexivity.
Qed.

Lemma max_off_nom_greatest o mt s0 s : greatest (fr_off_nom o mt) (s0 :: s) (max_off_nom o mt (s0 :: s)).
Proof. unfold max_off_nom. apply zmax_list_greatest. Qed.

(* last nominal offset frame over the input rows, with the specification's time origin *)
Definition last_off (o : opts) (ns : list note) (l : Z) : Prop :=
  greatest (fr_off_nom o (spec_min_time o ns)) ns l.

Lemma sorted_nonempty ns : ns <> [] -> map snd (sort_on ns) <> [].
Proof.
  intros Hne E. pose proof (sorted_perm ns) as P. rewrite E in P. apply Permutation_nil in P. congruence.
Qed.

Lemma model_last_off o ns : ns <> [] ->
  last_off o ns (max_off_nom o (min_time o (map snd (sort_on ns))) (map snd (sort_on ns))).
Proof.
  intros Hne. pose proof (sorted_nonempty ns Hne) as Hs. pose proof (sorted_perm ns) as P.
  pose proof (min_time_spec o ns Hne) as Q.
  destruct (map snd (sort_on ns)) as [|s0 s] eqn:E; [congruence|].
  pose proof (max_off_nom_greatest o (min_time o (s0 :: s)) s0 s) as [[n [Hn En]] Hall].
  unfold last_off. split.
  - exists n. split; [eapply Permutation_in; eauto|]. rewrite <- En. symmetry. apply fr_off_nom_comp, Q.
  - intros n' Hn'. rewrite <- (fr_off_nom_comp _ _ _ _ Q). apply Hall.
    eapply Permutation_in; [apply Permutation_sym|]; eauto.
Qed.

Lemma last_off_unique o ns ns' l l' : Permutation ns ns' -> last_off o ns l -> last_off o ns' l' -> l = l'.
Proof.
  intros P. unfold last_off. apply greatest_unique; [exact P|].
  intros n. apply fr_off_nom_comp, spec_min_time_perm, P.
Qed.

Lemma shape_lemma o ns R : make_pianoroll o ns = Some R ->
  r_rows R = n_rows_out o (n_rows_full o ns) /\
  exists l, last_off o ns l /\ n_cols_of o (spec_min_time o ns) l = Some (r_cols R).
Proof.
  intros H. apply make_pianoroll_inv in H. cbv zeta in H.
  destruct H as [Hne [_ [n [Hc [_ ->]]]]]. cbn [r_rows r_cols]. split; [reflexivity|].
  eexists. split; [apply (model_last_off o ns Hne)|].
  rewrite n_cols_eq in Hc. rewrite <- Hc. symmetry. apply n_cols_of_comp, min_time_spec, Hne.
Qed.

Lemma rows_default_lemma o ns R : make_pianoroll o ns = Some R -> o_pitch_margin o <= -1 ->
  r_rows R = if o_piano_range o then 88 else 128.
Proof.
  intros H Hp. destruct (shape_lemma _ _ _ H) as [-> _].
  unfold n_rows_out, n_rows_full, highest_pitch, lowest_pitch.
  destruct (-1 <? o_pitch_margin o) eqn:E; [lia|]. destruct (o_piano_range o); reflexivity.
Qed.

Lemma rows_margin_lemma o ns R : make_pianoroll o ns = Some R -> -1 < o_pitch_margin o -> o_piano_range o = false ->
  exists lo hi, least n_pitch ns lo /\ greatest n_pitch ns hi /\ r_rows R = hi - lo + 1 + 2 * o_pitch_margin o.
Proof.
  intros H Hp Hr. destruct (shape_lemma _ _ _ H) as [-> _].
  apply make_pianoroll_inv in H. cbv zeta in H. destruct H as [Hne _].
  destruct ns as [|n0 ns]; [congruence|].
  exists (zmin_list (map n_pitch (n0 :: ns)) (n_pitch n0)), (zmax_list (map n_pitch (n0 :: ns)) (n_pitch n0)).
  split; [apply zmin_list_least|]. split; [apply zmax_list_greatest|].
  unfold n_rows_out, n_rows_full, highest_pitch, lowest_pitch. rewrite Hr.
  destruct (-1 <? o_pitch_margin o) eqn:E; [reflexivity | lia].
Qed.

Lemma cols_lemma o ns R : make_pianoroll o ns = Some R ->
  exists l, last_off o ns l /\
    match o_end_time o with
    | None => r_cols R = o_time_div o * o_time_margin o + l
    | Some e =>
        (inject_Z l <= (e - spec_min_time o ns) * inject_Z (o_time_div o) + inject_Z (o_time_margin o * o_time_div o))%Q /\
        r_cols R = Qceiling (inject_Z (2 * o_time_div o * o_time_margin o) + inject_Z (o_time_div o) * (e - spec_min_time o ns))
    end.
Proof.
  intros H. destruct (shape_lemma _ _ _ H) as [_ [l [Hl Hc]]]. exists l. split; [exact Hl|].
  unfold n_cols_of in Hc. destruct (o_end_time o) as [e|].
  - destruct (Qle_bool _ _) eqn:E; [|discriminate]. apply Qle_bool_iff in E. split; [exact E | congruence].
  - congruence.
Qed.

Lemma In_vals_at r c v cs : In v (vals_at r c cs) <-> In (r, c, v) cs.
Proof.
  unfold vals_at. rewrite in_flat_map. split.
  - intros [[[r0 c0] v0] [Hin Hv]]. destruct ((r =? r0) && (c =? c0)) eqn:E; [|destruct Hv].
    destruct Hv as [<-|[]]. assert (r = r0 /\ c = c0) as [-> ->] by lia. exact Hin.
  - intros Hin. exists (r, c, v). split; [exact Hin|]. rewrite !Z.eqb_refl. left. reflexivity.
Qed.

Lemma get_some_In m r c v : get m r c = Some v -> In (r, c, v) m.
Proof.
  induction m as [|[[r0 c0] v0] m IH]; simpl; [discriminate|].
  destruct ((r =? r0) && (c =? c0)) eqn:E.
  - intros H. injection H as <-. left. assert (r = r0 /\ c = c0) as [-> ->] by lia. reflexivity.
  - intros H. right. apply IH, H.
Qed.

Lemma In_get m r c v : In (r, c, v) m -> get m r c <> None.
Proof.
  induction m as [|[[r0 c0] v0] m IH]; simpl; [intros []|].
  intros [H|H].
  - injection H as -> -> ->. rewrite !Z.eqb_refl. discriminate.
  - destruct ((r =? r0) && (c =? c0)); [discriminate | apply IH, H].
Qed.

Lemma fill_in_shape M N cs : forallb (in_shape M N) (fill cs) = forallb (in_shape M N) cs.
Proof.
  apply eq_true_iff_eq. rewrite !forallb_forall. split; intros H [[r c] v] Hin.
  - destruct (get (fill cs) r c) as [v'|] eqn:G.
    + apply get_some_In in G. exact (H _ G).
    + rewrite get_fill in G. apply vmax_none_iff in G.
      apply In_vals_at in Hin. rewrite G in Hin. destruct Hin.
  - apply In_get in Hin. rewrite get_fill in Hin.
    destruct (vals_at r c cs) as [|v' l] eqn:G; [exfalso; apply Hin; reflexivity|].
    assert (Hv : In v' (vals_at r c cs)) by (rewrite G; left; reflexivity).
    apply In_vals_at in Hv. exact (H _ Hv).
Qed.

Lemma note_cells_comp o mt mt' lo n : (mt == mt')%Q -> note_cells o mt lo n = note_cells o mt' lo n.
Proof. intros E. unfold note_cells. rewrite (fr_on_comp _ _ _ _ E), (fr_end_comp _ _ _ _ E). reflexivity. Qed.

Lemma make_pianoroll_some o ns n :
  let tagged := sort_on ns in
  let sorted := map snd tagged in
  let mt := min_time o sorted in
  let lo := lowest_pitch o ns in
  let m := n_rows_full o ns in
  ns <> [] -> existsb (fun n => negb (Qle_bool 0 (n_dur n))) ns = false ->
  n_cols o mt sorted = Some n ->
  forallb (in_shape m n) (fill (flat_map (note_cells o mt lo) sorted)) = true ->
  exists R, make_pianoroll o ns = Some R.
Proof.
  cbv zeta. intros Hne E1 E2 E3. unfold make_pianoroll.
  destruct ns as [|n0 ns']; [congruence|].
  rewrite E1. cbv zeta. rewrite E2, E3. eexists. reflexivity.
Qed.

Lemma existsb_perm {A} (p : A -> bool) l l' : Permutation l l' -> existsb p l = existsb p l'.
Proof.
  intros P. apply eq_true_iff_eq. rewrite !existsb_exists.
  split; intros [x [Hx Hp]]; exists x; split; auto.
  - eapply Permutation_in; eauto.
  - eapply Permutation_in; [apply Permutation_sym; exact P | exact Hx].
Qed.

(* general value of a stored cell, also outside the row range *)
Lemma cell_at_general o ns R : make_pianoroll o ns = Some R ->
  forall r c, cell_at (r_cells R) r c =
    if o_piano_range o && negb ((0 <=? r) && (r <? 88)) then 0 else cell_spec o ns r c.
Proof.
  intros H r c. apply make_pianoroll_inv in H. cbv zeta in H.
  destruct H as [Hne [_ [n [_ [_ ->]]]]]. cbn [r_cells].
  unfold cell_at, cell_spec, sounding_max, bin_cells. rewrite get_slice. unfold pr_start.
  assert (G : forall r', get (map (fun x : cell => let '(r, c, v) := x in (r, c, binarize (o_binary o) v))
               (fill (flat_map (note_cells o (min_time o (map snd (sort_on ns))) (lowest_pitch o ns)) (map snd (sort_on ns))))) r' c
            = option_map (binarize (o_binary o)) (vmax (cov_vels o (spec_min_time o ns) (lowest_pitch o ns) ns r' c))).
  { intros r'. rewrite get_map_val, get_filled. f_equal.
    rewrite (cov_vels_comp _ _ _ _ _ _ _ (min_time_spec o ns Hne)).
    apply vmax_perm, cov_vels_perm, sorted_perm. }
  destruct (o_piano_range o); simpl.
  - destruct ((0 <=? r) && (r <? 88)); simpl; [|reflexivity].
    rewrite G. destruct (vmax _); simpl; [reflexivity | symmetry; apply binarize_0].
  - rewrite G, Z.add_0_r. destruct (vmax _); simpl; [reflexivity | symmetry; apply binarize_0].
Qed.

Lemma cell_spec_perm o ns ns' r c : Permutation ns ns' -> cell_spec o ns r c = cell_spec o ns' r c.
Proof.
  intros P. unfold cell_spec, sounding_max.
  rewrite (cov_vels_comp _ _ _ _ _ _ _ (spec_min_time_perm o _ _ P)), (lowest_pitch_perm o _ _ P).
  rewrite (vmax_perm _ _ (cov_vels_perm o (spec_min_time o ns') (lowest_pitch o ns') ns ns' (r + pr_start o) c P)).
  reflexivity.
Qed.

Lemma defined_perm o ns ns' R : Permutation ns ns' -> make_pianoroll o ns = Some R ->
  exists R', make_pianoroll o ns' = Some R'.
Proof.
  intros P H. apply make_pianoroll_inv in H. cbv zeta in H.
  destruct H as [Hne [Hd [n [Hc [Hs _]]]]].
  assert (Hne' : ns' <> []) by (intros ->; apply Permutation_sym, Permutation_nil in P; congruence).
  assert (Q : (min_time o (map snd (sort_on ns')) == min_time o (map snd (sort_on ns)))%Q).
  { rewrite (min_time_spec o ns' Hne'), (min_time_spec o ns Hne). symmetry. apply spec_min_time_perm, P. }
  apply (make_pianoroll_some o ns' n); [exact Hne' | | | ].
  - rewrite <- (existsb_perm _ _ _ P). exact Hd.
  - rewrite n_cols_eq in *. rewrite (n_cols_of_comp _ _ _ _ Q).
    rewrite (last_off_unique o ns' ns _ _ (Permutation_sym P) (model_last_off o ns' Hne') (model_last_off o ns Hne)).
    exact Hc.
  - rewrite fill_in_shape in *. rewrite forallb_forall in *. intros x Hx.
    apply in_flat_map in Hx as [s [Hs' Hx]].
    rewrite <- (n_rows_full_perm o _ _ P). apply Hs. apply in_flat_map. exists s. split.
    + eapply Permutation_in; [apply Permutation_sym, sorted_perm|].
      eapply Permutation_in; [apply Permutation_sym, P|].
      eapply Permutation_in; [apply sorted_perm | exact Hs'].
    + rewrite <- (note_cells_comp _ _ _ _ _ Q), (lowest_pitch_perm o _ _ P). exact Hx.
Qed.

Lemma roll_perm_invariant_lemma o ns ns' R : Permutation ns ns' -> make_pianoroll o ns = Some R ->
  exists R', make_pianoroll o ns' = Some R' /\ r_rows R' = r_rows R /\ r_cols R' = r_cols R /\
             forall r c, cell_at (r_cells R') r c = cell_at (r_cells R) r c.
Proof.
  intros P H. destruct (defined_perm _ _ _ _ P H) as [R' H']. exists R'. split; [exact H'|].
  destruct (shape_lemma _ _ _ H) as [Hr [l [Hl Hc]]]. destruct (shape_lemma _ _ _ H') as [Hr' [l' [Hl' Hc']]].
  split; [|split].
  - rewrite Hr, Hr', (n_rows_full_perm o _ _ P). reflexivity.
  - rewrite (last_off_unique _ _ _ _ _ P Hl Hl') in Hc.
    rewrite (n_cols_of_comp _ _ _ _ (spec_min_time_perm o _ _ P)) in Hc. congruence.
  - intros r c. rewrite (cell_at_general _ _ _ H), (cell_at_general _ _ _ H'), (cell_spec_perm o _ _ r c P). reflexivity.
Qed.

Lemma rejected_perm_lemma o ns ns' : Permutation ns ns' -> make_pianoroll o ns = None -> make_pianoroll o ns' = None.
Proof.
  intros P H. destruct (make_pianoroll o ns') as [R'|] eqn:E; [|reflexivity].
  destruct (defined_perm _ _ _ _ (Permutation_sym P) E) as [R H']. congruence.
Qed.

(* stored cells lie inside the shape and occupy distinct positions *)
Lemma cells_in_shape_lemma o ns R : make_pianoroll o ns = Some R ->
  forall r c v, In (r, c, v) (r_cells R) -> 0 <= r < r_rows R /\ 0 <= c < r_cols R.
Proof.
  intros H r c v Hin. apply make_pianoroll_inv in H. cbv zeta in H.
  destruct H as [_ [_ [n [_ [Hs ->]]]]]. cbn [r_cells r_rows r_cols] in *.
  rewrite forallb_forall in Hs. unfold slice_rows, bin_cells, n_rows_out in *.
  destruct (o_piano_range o).
  - apply in_map_iff in Hin as [[[r0 c0] v0] [E Hin]]. apply filter_In in Hin as [Hin Hr].
    apply in_map_iff in Hin as [[[r1 c1] v1] [E1 Hin]]. specialize (Hs _ Hin). unfold in_shape in Hs.
    injection E as <- <- <-. injection E1 as <- <- <-. lia.
  - apply in_map_iff in Hin as [[[r1 c1] v1] [E1 Hin]]. specialize (Hs _ Hin). unfold in_shape in Hs.
    injection E1 as <- <- <-. lia.
Qed.

(* ---------- compute_pianoroll = selection, then make_pianoroll ---------- *)
Lemma all_some_Forall2 {A B} (f : A -> option B) l : forall l',
  all_some (map f l) = Some l' -> Forall2 (fun x y => f x = Some y) l l'.
Proof.
  induction l as [|x l IH]; intros l' H; simpl in H.
  - injection H as <-. constructor.
  - destruct (f x) as [y|] eqn:E; [|discriminate].
    destruct (all_some (map f l)) as [r|]; [|discriminate]. injection H as <-.
    constructor; [exact E | apply IH; reflexivity].
Qed.

Definition row_note (k : nat) (has_vel : bool) (r : arow) : option note :=
  let '(p, ts, v, _) := r in
  match nth_error ts k with
  | Some (on, du) => Some (p, on, du, if has_vel then v else 1)
  | None => None
  end.

Definition kept_rows (has_chan remove_drums : bool) (rows : list arow) : list arow :=
  if has_chan && remove_drums
  then filter (fun r : arow => let '(_, _, _, ch) := r in negb (ch =? 9)) rows else rows.

Lemma select_rows_lemma us hv hc rows u rd ns :
  select_rows (us, hv, hc, rows) u rd = Some ns ->
  exists k, unit_pos u us = Some k /\
            Forall2 (fun r n => row_note k hv r = Some n) (kept_rows hc rd rows) ns.
Proof.
  unfold select_rows. destruct (unit_pos u us) as [k|]; [|discriminate].
  intros H. exists k. split; [reflexivity|].
  apply (all_some_Forall2 (row_note k hv)). exact H.
Qed.

Lemma compute_pianoroll_lemma c a R : compute_pianoroll c a = Some R ->
  exists u ns, resolve_unit a (c_time_unit c) = Some u /\
    select_rows a u (c_remove_drums c) = Some ns /\
    make_pianoroll (with_div (c_opts c) (match c_time_div c with Some d => d | None => auto_div u end)) ns = Some R.
Proof.
  unfold compute_pianoroll. destruct (resolve_unit a (c_time_unit c)) as [u|] eqn:E1; [|discriminate].
  destruct (select_rows a u (c_remove_drums c)) as [ns|] eqn:E2; [|discriminate].
  intros H. exists u, ns. split; [reflexivity|]. split; [exact E2 | exact H].
Qed.

(* ---------- witnesses ---------- *)
(* two rows given in non-onset order with different velocities (the input on which velocities used to
   land on the wrong notes), time_div 1 *)
Definition ex_opts : opts := mkOpts 1 false false (-1) 0 false true None false.
Definition ex_notes : list note := [(60, 1%Q, 1%Q, 100); (62, 0%Q, 1%Q, 20)].

Lemma example_unsorted_lemma :
  exists R, make_pianoroll ex_opts ex_notes = Some R /\ r_rows R = 128 /\ r_cols R = 2 /\
    cell_at (r_cells R) 60 1 = 100 /\ cell_at (r_cells R) 62 0 = 20 /\
    cell_at (r_cells R) 60 0 = 0 /\ cell_at (r_cells R) 62 1 = 0 /\
    r_idx R = [(60, 1, 2, 60); (62, 0, 1, 62)].
Proof. eexists. split; [vm_compute; reflexivity|]. vm_compute. repeat split; reflexivity. Qed.

(* the former known finding C13-K1 (repaired in /repo): in onset-only mode the third column of an index
   row is onset + 1 -- concrete instance *)
Lemma example_onset_only_idx_lemma :
  exists R, make_pianoroll (mkOpts 2 true false (-1) 0 false true None false) [(60, 0%Q, 2%Q, 1)] = Some R /\
    r_idx R = [(60, 0, 1, 60)] /\ r_cols R = 4 /\ cell_at (r_cells R) 60 0 = 1 /\ cell_at (r_cells R) 60 1 = 0.
Proof. eexists. split; [vm_compute; reflexivity|]. vm_compute. repeat split; reflexivity. Qed.
