(* C18 -- hardening round 2: (1) encoder and decoder group the score onsets identically when distinct onsets are
   >= 2e-4 beat apart (closes the last hypothesis of codec_roundtrip_builtin); (2) decode_performance's glue (np.isin
   filter, stable lexsort of score columns and parameters, positional labelling by snote_ids) pairs every id with its
   own rows; (3) the two time maps are inverse to each other at EVERY time and stay between neighbouring knots;
   (4) rows of the matched score; (5) 'within single-precision rounding': the decoder is Lipschitz in the stored
   parameters (a bound on how far rounding the timing and beat-period columns can move a decoded onset / duration). *)
From Coq Require Import ZArith QArith Qabs Qround List Bool Lia Lqa Sorting.Sorted Sorting.Permutation.
From PV Require Import Lib.Base Lib.Round Model.C18 Model.C18_Check Proofs.C18 Proofs.C18_spec Proofs.C18_tempo.
Import ListNotations.
#[local] Open Scope Q_scope.

(* ================= encoder and decoder group the score onsets identically ================= *)

Lemma insert_ext {A} (f g : A -> A -> bool) a l :
  (forall y, In y l -> f a y = g a y) -> insert_s f a l = insert_s g a l.
Proof.
  induction l as [|y r IH]; intros H; simpl; [reflexivity|].
  rewrite <- (H y (or_introl eq_refl)). destruct (f a y); [reflexivity|].
  f_equal. apply IH. intros z Hz. apply H. right. exact Hz.
Qed.

Lemma isort_In {A} (f : A -> A -> bool) l x : In x (isort f l) <-> In x l.
Proof.
  split; intros H.
  - eapply Permutation_in; [apply isort_perm | exact H].
  - eapply Permutation_in; [apply Permutation_sym, isort_perm | exact H].
Qed.

Lemma isort_ext {A} (f g : A -> A -> bool) l :
  (forall a b, In a l -> In b l -> f a b = g a b) -> isort f l = isort g l.
Proof.
  induction l as [|a r IH]; intros H; simpl; [reflexivity|].
  rewrite <- IH by (intros x y Hx Hy; apply H; right; assumption).
  apply insert_ext. intros y Hy. apply H; [left; reflexivity | right; apply (isort_In f r y); exact Hy].
Qed.

Lemma split_groups_ext k1 k2 eps l : forall prev cur,
  (forall a b, In a (prev :: l) -> In b (prev :: l) -> Qle_bool (k1 b - k1 a) eps = Qle_bool (k2 b - k2 a) eps) ->
  split_groups k1 eps prev cur l = split_groups k2 eps prev cur l.
Proof.
  induction l as [|j r IH]; intros prev cur H; cbn [split_groups]; [reflexivity|].
  rewrite (H prev j) by (cbn; auto).
  assert (H' : forall a b, In a (j :: r) -> In b (j :: r) -> Qle_bool (k1 b - k1 a) eps = Qle_bool (k2 b - k2 a) eps).
  { intros a b Ha Hb. apply H; right; assumption. }
  destruct (Qle_bool (k2 j - k2 prev) eps); [apply IH; exact H' | f_equal; apply IH; exact H'].
Qed.

(* order-equivalent keys with the same gaps w.r.t. eps give the same groups *)
Lemma groups_ext (ka kb : list Q) eps : List.length ka = List.length kb ->
  (forall i j, (i < List.length ka)%nat -> (j < List.length ka)%nat ->
     Qle_bool (nthQ ka i) (nthQ ka j) = Qle_bool (nthQ kb i) (nthQ kb j) /\
     Qle_bool (nthQ ka j - nthQ ka i) eps = Qle_bool (nthQ kb j - nthQ kb i) eps) ->
  groups ka eps = groups kb eps.
Proof.
  intros HL H. unfold groups, sort_idx. rewrite <- HL.
  assert (E : isort (qkey_leb (nthQ ka)) (seq 0 (List.length ka)) = isort (qkey_leb (nthQ kb)) (seq 0 (List.length ka))).
  { apply isort_ext. intros a b Ha Hb. apply in_seq in Ha, Hb. unfold qkey_leb. apply H; lia. }
  rewrite <- E.
  destruct (isort (qkey_leb (nthQ ka)) (seq 0 (List.length ka))) as [|j r] eqn:ES; [reflexivity|].
  apply split_groups_ext. intros a b Ha Hb.
  assert (Ia : In a (seq 0 (List.length ka))) by (apply (isort_In (qkey_leb (nthQ ka))); rewrite ES; exact Ha).
  assert (Ib : In b (seq 0 (List.length ka))) by (apply (isort_In (qkey_leb (nthQ ka))); rewrite ES; exact Hb).
  apply in_seq in Ia, Ib. apply H; lia.
Qed.

Lemma trunc_comp a b : a == b -> trunc a = trunc b.
Proof.
  intros E. unfold trunc.
  assert (Qle_bool 0 a = Qle_bool 0 b).
  { destruct (Qle_bool 0 a) eqn:Ea; destruct (Qle_bool 0 b) eqn:Eb; try reflexivity.
    - apply Qle_bool_iff in Ea. rewrite E in Ea. apply Qle_bool_iff in Ea. congruence.
    - apply Qle_bool_iff in Eb. rewrite <- E in Eb. apply Qle_bool_iff in Eb. congruence. }
  rewrite H. destruct (Qle_bool 0 b); [apply Qfloor_comp | apply Qceiling_comp]; exact E.
Qed.

Lemma trunc_bounds x : inject_Z (trunc x) - 1 < x /\ x < inject_Z (trunc x) + 1.
Proof.
  unfold trunc. destruct (Qle_bool 0 x) eqn:E.
  - destruct (Qfloor_bounds x). lra.
  - pose proof (Qle_ceiling x). pose proof (Qceiling_lt x) as H1. unfold Z.sub in H1. rewrite inject_Z_plus in H1. assert (E1 : inject_Z (-1) == -(1)) by reflexivity. rewrite E1 in H1. lra.
Qed.

(* onsets two quantisation steps apart fall into different quantisation cells *)
Lemma trunc_step x y : x + 2 <= y -> (trunc x + 1 <= trunc y)%Z.
Proof.
  intros H. destruct (trunc_bounds x) as [Hx _]. destruct (trunc_bounds y) as [_ Hy].
  assert (L : inject_Z (trunc x) < inject_Z (trunc y)) by lra.
  rewrite <- Zlt_Qlt in L. lia.
Qed.

Lemma quantise_step a b : sep_min <= b - a -> quantise a + 1 <= quantise b.
Proof.
  intros H. unfold quantise, sep_min in *.
  assert (T : (trunc (10000 * a) + 1 <= trunc (10000 * b))%Z) by (apply trunc_step; lra).
  rewrite Zle_Qle in T. rewrite inject_Z_plus in T. exact T.
Qed.

Lemma quantise_comp a b : a == b -> quantise a = quantise b.
Proof. intros E. unfold quantise. f_equal. apply trunc_comp. rewrite E. reflexivity. Qed.

Definition onsets_separated (so : list Q) : Prop :=
  forall i j, (i < List.length so)%nat -> (j < List.length so)%nat ->
    nthQ so i == nthQ so j \/ sep_min <= Qabs (nthQ so i - nthQ so j).

Lemma sep_b_spec so : sep_b so = true -> onsets_separated so.
Proof.
  intros H i j Hi Hj. unfold sep_b in H. rewrite forallb_forall in H.
  specialize (H (nthQ so i) (nth_In so 0 Hi)). rewrite forallb_forall in H.
  specialize (H (nthQ so j) (nth_In so 0 Hj)).
  apply orb_true_iff in H as [H | H]; [left; apply Qeq_bool_iff; exact H | right; apply Qle_bool_iff; exact H].
Qed.

Lemma Qle_bool_false a b : Qle_bool a b = false <-> b < a.
Proof.
  split; intros H.
  - destruct (Qlt_le_dec b a) as [L | L]; [exact L|]. apply Qle_bool_iff in L. congruence.
  - destruct (Qle_bool a b) eqn:E; [|reflexivity]. apply Qle_bool_iff in E. lra.
Qed.

Lemma groups_agree so : onsets_separated so -> dec_groups so = enc_groups so.
Proof.
  intros Hsep. unfold dec_groups, enc_groups. apply groups_ext; [rewrite map_length; reflexivity|].
  intros i j Hi Hj. rewrite !nthQ_map_quantise.
  set (a := nthQ so i). set (b := nthQ so j).
  assert (Heps : onset_eps < 1) by reflexivity. assert (Heps0 : 0 < onset_eps) by reflexivity.
  assert (Hs : 0 < sep_min) by reflexivity.
  destruct (Hsep i j Hi Hj) as [E | S]; [fold a b in E | fold a b in S].
  - rewrite (quantise_comp a b E). split.
    + assert (Qle_bool a b = true) by (apply Qle_bool_iff; lra).
      assert (Qle_bool (quantise b) (quantise b) = true) by (apply Qle_bool_iff; lra). congruence.
    + assert (Qle_bool (b - a) onset_eps = true) by (apply Qle_bool_iff; lra).
      assert (Qle_bool (quantise b - quantise b) onset_eps = true) by (apply Qle_bool_iff; lra). congruence.
  - destruct (Qlt_le_dec a b) as [L | L].
    + assert (S' : sep_min <= b - a).
      { revert S. apply Qabs_case; intros; lra. }
      pose proof (quantise_step a b S') as Q1. split.
      * assert (Qle_bool a b = true) by (apply Qle_bool_iff; lra).
        assert (Qle_bool (quantise a) (quantise b) = true) by (apply Qle_bool_iff; lra). congruence.
      * assert (Qle_bool (b - a) onset_eps = false) by (apply Qle_bool_false; unfold sep_min, onset_eps in *; lra).
        assert (Qle_bool (quantise b - quantise a) onset_eps = false) by (apply Qle_bool_false; lra). congruence.
    + assert (S' : sep_min <= a - b).
      { revert S. apply Qabs_case; intros; lra. }
      pose proof (quantise_step b a S') as Q1. split.
      * assert (Qle_bool a b = false) by (apply Qle_bool_false; lra).
        assert (Qle_bool (quantise a) (quantise b) = false) by (apply Qle_bool_false; lra). congruence.
      * assert (Qle_bool (b - a) onset_eps = true) by (apply Qle_bool_iff; lra).
        assert (Qle_bool (quantise b - quantise a) onset_eps = true) by (apply Qle_bool_iff; lra). congruence.
Qed.

(* score onsets on a grid of 1/k beat, k <= 5000 (divisions per beat), are separated *)
Lemma grid_separated (k : positive) (zs : list Z) : (Zpos k <= 5000)%Z ->
  onsets_separated (map (fun z => z # k) zs).
Proof.
  intros Hk i j Hi Hj. rewrite map_length in Hi, Hj. unfold nthQ.
  rewrite (nth_indep _ 0 ((fun z => z # k) 0%Z)) by (rewrite map_length; exact Hi).
  rewrite (nth_indep (map _ zs) 0 ((fun z => z # k) 0%Z)) by (rewrite map_length; exact Hj).
  rewrite !(map_nth (fun z => z # k)).
  set (a := nth i zs 0%Z). set (b := nth j zs 0%Z).
  destruct (Z.eq_dec a b) as [E | N]; [left; rewrite E; reflexivity | right].
  assert (Esub : (a # k) - (b # k) == (a - b) # k).
  { unfold Qeq, Qminus, Qplus, Qopp. cbn. rewrite Pos2Z.inj_mul. ring. }
  unfold sep_min. rewrite Esub.
  apply Qabs_case; intros H.
  - unfold Qle in *. cbn in *. nia.
  - unfold Qle, Qopp in *. cbn in *. nia.
Qed.

(* ================= decode_performance's glue pairs every snote id with its own rows ================= *)

Lemma nodupb_NoDup l : nodupb l = true -> NoDup l.
Proof.
  induction l as [|x r IH]; intros H; [constructor|].
  cbn in H. apply andb_true_iff in H as [H1 H2]. constructor; [|apply IH; exact H2].
  intros Hin. apply negb_true_iff in H1.
  assert (existsb (Z.eqb x) r = true) by (apply existsb_exists; exists x; split; [exact Hin | apply Z.eqb_refl]).
  congruence.
Qed.

Lemma row_leb_trans a b c : row_leb a b = true -> row_leb b c = true -> row_leb a c = true.
Proof. unfold row_leb, row_key, lex2_leb. lia. Qed.

Lemma lex3_trans a b c : lex3_leb a b = true -> lex3_leb b c = true -> lex3_leb a c = true.
Proof. destruct a as [[a1 a2] a3], b as [[b1 b2] b3], c as [[c1 c2] c3]. unfold lex3_leb. lia. Qed.

Lemma SS_nth {A} (R : A -> A -> Prop) (d : A) l : StronglySorted R l ->
  forall i j, (i < j)%nat -> (j < List.length l)%nat -> R (nth i l d) (nth j l d).
Proof.
  induction 1 as [|a l HS IH HF]; intros i j Hij Hj; [cbn in Hj; lia|].
  destruct j as [|j]; [lia|]. cbn in Hj. destruct i as [|i]; cbn.
  - rewrite Forall_forall in HF. apply HF. apply nth_In. lia.
  - apply IH; lia.
Qed.

Lemma SS_seq (R : nat -> nat -> Prop) n : forall s,
  (forall i j, (s <= i)%nat -> (i < j)%nat -> (j < s + n)%nat -> R i j) -> StronglySorted R (seq s n).
Proof.
  induction n as [|n IH]; intros s H; cbn; constructor.
  - apply IH. intros i j Hi Hij Hj. apply H; lia.
  - rewrite Forall_forall. intros j Hj. apply in_seq in Hj. apply H; lia.
Qed.

Lemma SS_filter {A} (R : A -> A -> Prop) (p : A -> bool) l : StronglySorted R l -> StronglySorted R (filter p l).
Proof.
  induction 1 as [|a l HS IH HF]; cbn; [constructor|].
  destruct (p a); [constructor; [exact IH|] | exact IH].
  rewrite Forall_forall in *. intros x Hx. apply filter_In in Hx as [Hx _]. apply HF. exact Hx.
Qed.

Lemma dp_take_id {A} (d : A) l : dp_take d l (seq 0 (List.length l)) = l.
Proof.
  unfold dp_take. apply (nth_ext _ _ d d).
  - rewrite map_length, seq_length. reflexivity.
  - intros n Hn. rewrite map_length, seq_length in Hn. rewrite (nth_map_seq (fun i => nth i l d)) by exact Hn. reflexivity.
Qed.

(* the sort index of a sorted table is the identity (stable sort) *)
Lemma dp_sort_idx_sorted info : StronglySorted (fun a b => row_leb a b = true) info ->
  dp_sort_idx info = seq 0 (List.length info).
Proof.
  intros H. unfold dp_sort_idx. apply isort_id. apply SS_seq. intros i j _ Hij Hj.
  apply (SS_nth _ sdefault info H i j Hij). lia.
Qed.

(* rows selected by id = rows at the (increasing) positions of these ids *)
Lemma isin_cons_notin x S l : ~ In x (map s_id l) -> filter (isin (x :: S)) l = filter (isin S) l.
Proof.
  intros H. apply filter_ext_in. intros r Hr. unfold isin. cbn [existsb].
  destruct (Z.eqb (s_id r) x) eqn:E; [|reflexivity].
  apply Z.eqb_eq in E. exfalso. apply H. rewrite <- E. apply in_map. exact Hr.
Qed.

Definition Nlt (a b : nat) : Prop := (a < b)%nat.

Lemma filter_by_positions (l : list srow) : NoDup (map s_id l) -> forall I,
  StronglySorted Nlt I -> Forall (fun i => (i < List.length l)%nat) I ->
  filter (isin (map (fun i => s_id (nth i l sdefault)) I)) l = map (fun i => nth i l sdefault) I.
Proof.
  induction l as [|r l IH]; intros ND I HS HB.
  - destruct I as [|i I]; [reflexivity|]. inversion HB; subst. cbn in *. lia.
  - cbn [map] in ND. inversion ND as [|? ? Hnotin ND']; subst.
    (* positions >= 1 are successors *)
    assert (Hshift : forall J : list nat, Forall (fun i => (1 <= i)%nat) J -> J = map S (map pred J)).
    { induction J as [|j J IHJ]; intros HJ; [reflexivity|]. inversion HJ; subst. cbn. f_equal; [lia | apply IHJ; assumption]. }
    assert (Htail : forall J, StronglySorted Nlt J -> Forall (fun i => (1 <= i)%nat) J -> Forall (fun i => (i < List.length (r :: l))%nat) J ->
              filter (isin (map (fun i => s_id (nth i (r :: l) sdefault)) J)) l = map (fun i => nth i (r :: l) sdefault) J).
    { intros J HSJ HJ1 HJB. rewrite (Hshift J HJ1). rewrite !map_map. cbn [nth].
      rewrite <- (map_map pred (fun i => s_id (nth i l sdefault))). rewrite <- (map_map pred (fun i => nth i l sdefault)).
      apply IH; [exact ND' | |].
      - clear - HSJ HJ1. induction HSJ as [|a J HSJ IHJ HF]; cbn; constructor.
        + apply IHJ. inversion HJ1; assumption.
        + inversion HJ1; subst. rewrite Forall_forall in *. intros x Hx. apply in_map_iff in Hx as [y [E Hy]]. subst x.
          specialize (HF y Hy). specialize (H2 y Hy). unfold Nlt in *. lia.
      - rewrite Forall_forall in *. intros x Hx. apply in_map_iff in Hx as [y [E Hy]]. subst x.
        specialize (HJ1 y Hy). specialize (HJB y Hy). cbn in HJB. lia. }
    destruct I as [|i I].
    + cbn. destruct l; reflexivity || (cbn; apply (IH ND' [] (SSorted_nil _) (Forall_nil _))).
    + inversion HS as [|? ? HS' HF]; subst. inversion HB as [|? ? Hi HB']; subst.
      assert (HI1 : Forall (fun k => (1 <= k)%nat) I).
      { rewrite Forall_forall in *. intros k Hk. specialize (HF k Hk). unfold Nlt in HF. lia. }
      destruct i as [|i].
      * (* the first row is selected *)
        cbn [map nth filter]. unfold isin at 1. cbn [existsb]. rewrite Z.eqb_refl. cbn [orb]. f_equal.
        rewrite isin_cons_notin by exact Hnotin. apply Htail; assumption.
      * (* the first row is not selected: none of the selected positions is 0 *)
        assert (HJ1 : Forall (fun k => (1 <= k)%nat) (S i :: I)) by (constructor; [lia | exact HI1]).
        cbn [filter].
        assert (Hno : isin (map (fun k => s_id (nth k (r :: l) sdefault)) (S i :: I)) r = false).
        { unfold isin. apply not_true_iff_false. intros Hex. apply existsb_exists in Hex as [x [Hx Ex]].
          apply Z.eqb_eq in Ex. apply in_map_iff in Hx as [k [Ek Hk]]. subst x.
          rewrite Forall_forall in HJ1, HB. specialize (HJ1 k Hk). specialize (HB k Hk).
          destruct k as [|k]; [lia|]. cbn [nth] in Ex. apply Hnotin. rewrite Ex. apply in_map. apply nth_In. cbn in HB. lia. }
        rewrite Hno. apply Htail; [exact HS | exact HJ1 | exact HB].
Qed.

Lemma find_unique {A} (p : A -> bool) l m : In m l -> p m = true -> (forall m', In m' l -> p m' = true -> m' = m) ->
  find p l = Some m.
Proof.
  induction l as [|x r IH]; intros Hin Hp Hu; [destruct Hin|]. cbn.
  destruct (p x) eqn:E.
  - f_equal. apply Hu; [left; reflexivity | exact E].
  - destruct Hin as [-> | Hin]; [congruence|]. apply IH; [exact Hin | exact Hp |]. intros m' Hm'. apply Hu. right. exact Hm'.
Qed.

Lemma NoDup_map_inj {A B} (f : A -> B) l a b : NoDup (map f l) -> In a l -> In b l -> f a = f b -> a = b.
Proof.
  induction l as [|x r IH]; intros ND Ha Hb E; [destruct Ha|]. cbn in ND. inversion ND as [|? ? Hn ND']; subst.
  destruct Ha as [-> | Ha], Hb as [-> | Hb]; try reflexivity.
  - exfalso. apply Hn. rewrite E. apply in_map. exact Hb.
  - exfalso. apply Hn. rewrite <- E. apply in_map. exact Ha.
  - apply IH; assumption.
Qed.

Lemma NoDup_nth_inj (l : list Z) i j d : NoDup l -> (i < List.length l)%nat -> (j < List.length l)%nat -> nth i l d = nth j l d -> i = j.
Proof. intros ND Hi Hj E. apply (proj1 (NoDup_nth l d) ND i j Hi Hj E). Qed.

Section Glue.
  Variables (sna : list srow) (pna : list prow) (al : list al_entry).
  Let M := matched_idx (map s_id sna) (map C18.p_id pna) al.
  Let Ms := matched_sorted sna pna al.
  Let sids := ms_ids sna pna al.
  Hypothesis Hsorted : sna_sorted sna = true.
  Hypothesis Hids : nodupb (map s_id sna) = true.
  Hypothesis Honce : nodupb (map (fun m => Z.of_nat (fst m)) M) = true.

  Lemma M_bound m : In m M -> (fst m < List.length sna)%nat.
  Proof.
    intros H. destruct m as [i j]. apply matched_idx_spec in H as [s [p [_ [F _]]]].
    apply find_idx_Some in F as [F _]. rewrite map_length in F. exact F.
  Qed.
  Lemma M_fst_NoDup : NoDup (map fst M).
  Proof.
    apply nodupb_NoDup in Honce. rewrite <- (map_map fst Z.of_nat) in Honce.
    apply NoDup_map_inv in Honce. exact Honce.
  Qed.
  Lemma sna_SS : StronglySorted (fun a b => row_leb a b = true) sna.
  Proof.
    apply Sorted_StronglySorted; [intros a b c; apply row_leb_trans|].
    apply sorted_by_Sorted. exact Hsorted.
  Qed.
  Lemma Ms_perm : Permutation Ms M.
  Proof. apply matched_sorted_spec. Qed.
  Lemma Ms_In m : In m Ms <-> In m M.
  Proof. split; intros H; [eapply Permutation_in; [apply Ms_perm | exact H] | eapply Permutation_in; [apply Permutation_sym, Ms_perm | exact H]]. Qed.

  (* in a table sorted by (onset_div, pitch) the order (onset_div, pitch, position) is the order of the positions *)
  Lemma key3_positions a b : (fst a < List.length sna)%nat -> (fst b < List.length sna)%nat ->
    lex3_leb (key3 sna a) (key3 sna b) = true -> (fst a <= fst b)%nat.
  Proof.
    intros Ha Hb H. destruct (Nat.le_gt_cases (fst a) (fst b)) as [L | L]; [exact L | exfalso].
    pose proof (SS_nth _ sdefault sna sna_SS (fst b) (fst a) L Ha) as R.
    unfold key3, lex3_leb in H. unfold row_leb, row_key, lex2_leb in R.
    destruct (nth (fst a) sna sdefault) as [[[[ia oa] da] va] pa].
    destruct (nth (fst b) sna sdefault) as [[[[ib ob] db] vb] pb]. cbn in *. lia.
  Qed.

  Lemma positions_increasing (L : list (nat * nat)) :
    StronglySorted (fun a b => lex3_leb (key3 sna a) (key3 sna b) = true) L -> NoDup (map fst L) ->
    (forall m, In m L -> (fst m < List.length sna)%nat) -> StronglySorted Nlt (map fst L).
  Proof.
    intros SS. induction SS as [|a l HS IH HF]; intros ND HB; cbn; constructor.
    - apply IH; [inversion ND; assumption | intros m Hm; apply HB; right; exact Hm].
    - cbn in ND. inversion ND as [|? ? Hn ND']; subst.
      rewrite Forall_forall in *. intros x Hx. apply in_map_iff in Hx as [b [E Hb]]. subst x.
      assert (fst a <= fst b)%nat by (apply key3_positions; [apply HB; left; reflexivity | apply HB; right; exact Hb | apply HF; exact Hb]).
      assert (fst a <> fst b) by (intros E; apply Hn; rewrite E; apply in_map; exact Hb).
      unfold Nlt. lia.
  Qed.

  Lemma Ms_positions : StronglySorted Nlt (map fst Ms).
  Proof.
    apply positions_increasing.
    - apply Sorted_StronglySorted; [intros a b c; apply lex3_trans | apply matched_sorted_spec].
    - eapply Permutation_NoDup; [apply Permutation_map, Permutation_sym, Ms_perm | apply M_fst_NoDup].
    - intros m Hm; apply M_bound, Ms_In; exact Hm.
  Qed.

  Lemma sids_eq : sids = map (fun i => s_id (nth i sna sdefault)) (map fst Ms).
  Proof. unfold sids, ms_ids, r_ids, r_srow, ms_pairs. fold Ms. rewrite map_map. reflexivity. Qed.

  (* snote_info: the selected rows are the rows of the matched score, in its order *)
  Lemma dp_info_rows : dp_info sna sids = map (r_srow sna) Ms.
  Proof.
    unfold dp_info. rewrite sids_eq. rewrite filter_by_positions.
    - rewrite map_map. reflexivity.
    - apply nodupb_NoDup. exact Hids.
    - apply Ms_positions.
    - rewrite Forall_forall. intros i Hi. apply in_map_iff in Hi as [m [E Hm]]. subst i. apply M_bound, Ms_In. exact Hm.
  Qed.

  Lemma dp_info_sorted : StronglySorted (fun a b => row_leb a b = true) (dp_info sna sids).
  Proof. apply SS_filter. apply sna_SS. Qed.

  (* the pairs the PROPERTY comparisons rebuild from the ids are the matched score's *)
  Lemma pairs_by_ids_ms : pairs_by_ids sna M sids = Ms.
  Proof.
    unfold pairs_by_ids, sids, ms_ids, r_ids, ms_pairs. fold Ms. rewrite map_map.
    rewrite <- (map_id Ms) at 2. apply map_ext_in. intros m Hm. unfold pair_of, r_srow.
    apply Ms_In in Hm.
    rewrite (find_unique _ M m Hm); [reflexivity | apply Z.eqb_refl |].
    intros m' Hm' E. apply Z.eqb_eq in E.
    assert (F : fst m' = fst m).
    { apply (NoDup_nth_inj (map s_id sna) _ _ (s_id sdefault)); [apply nodupb_NoDup; exact Hids | | |].
      - rewrite map_length. apply M_bound. exact Hm'.
      - rewrite map_length. apply M_bound. exact Hm.
      - rewrite !(map_nth s_id). exact E. }
    apply (NoDup_map_inj fst M); [apply M_fst_NoDup | exact Hm' | exact Hm | exact F].
  Qed.

  Lemma decode_glue_refines_lemma normd prm ncols :
    List.length (mkparams normd prm ncols) = List.length sids ->
    dp_decode normd sna sids prm ncols = direct_decode normd sna (pairs_by_ids sna M sids) sids prm ncols.
  Proof.
    intros HL. unfold dp_decode, direct_decode. rewrite pairs_by_ids_ms.
    rewrite (dp_sort_idx_sorted _ dp_info_sorted).
    assert (Hlen : List.length (dp_info sna sids) = List.length sids).
    { rewrite dp_info_rows. unfold sids, ms_ids, r_ids, ms_pairs. fold Ms. rewrite !map_length. reflexivity. }
    rewrite dp_take_id. rewrite Hlen, <- HL, dp_take_id.
    rewrite dp_info_rows. unfold r_so, r_sd. rewrite !map_map. reflexivity.
  Qed.
End Glue.

(* without the tie-break by position the glue is NOT the identity: two notes sharing onset and pitch, snote ids in
   the other (still sorted) order -- the defect class of 8007b35 / 1b32994 *)
Example decode_glue_needs_tiebreak :
  let sna := [(1%Z, 0, 1, 0%Z, 60%Z); (2%Z, 0, 2, 0%Z, 60%Z)] in
  let pna := [(11%Z, 0, 1 # 2, 64%Z); (12%Z, 1 # 10, 1, 70%Z)] in
  let al := [(0%Z, 2%Z, 12%Z); (0%Z, 1%Z, 11%Z)] in
  let sids := [2%Z; 1%Z] in
  let prm := [(1, 70 # 127, 0, 1 # 2); (1, 64 # 127, 1 # 10, 1 # 2)] in
  sids_ok sna pna al sids = true /\
  dp_decode 0 sna sids prm [[]; []] <>
  direct_decode 0 sna (pairs_by_ids sna (matched_idx (map s_id sna) (map C18.p_id pna) al) sids) sids prm [[]; []].
Proof. cbv zeta. split; [vm_compute; reflexivity | vm_compute; discriminate]. Qed.

Example decode_glue_example :
  let sna := [(1%Z, 0, 1, 0%Z, 60%Z); (2%Z, 0, 2, 0%Z, 60%Z); (3%Z, 1, 1, 4%Z, 55%Z); (4%Z, 1, 0, 4%Z, 57%Z)] in
  let pna := [(11%Z, 0, 1 # 2, 64%Z); (12%Z, 1 # 10, 1, 70%Z); (13%Z, 1, 1, 30%Z)] in
  let al := [(0%Z, 4%Z, 13%Z); (0%Z, 2%Z, 12%Z); (1%Z, 3%Z, (-3)%Z); (0%Z, 1%Z, 11%Z)] in
  sna_sorted sna = true /\ nodupb (map s_id sna) = true /\
  nodupb (map (fun m => Z.of_nat (fst m)) (matched_idx (map s_id sna) (map C18.p_id pna) al)) = true /\
  ms_ids sna pna al = [1%Z; 2%Z; 4%Z].
Proof. cbv zeta. repeat split; vm_compute; reflexivity. Qed.

(* ================= time maps: inverse of each other everywhere, interpolation between the knots ================= *)

Lemma seg_inverse x0 y0 x1 y1 x : x0 < x1 -> y0 < y1 -> seg y0 x0 y1 x1 (seg x0 y0 x1 y1 x) == x.
Proof.
  intros Hx Hy. rewrite (seg_val y0 x0 y1 x1). rewrite (seg_val x0 y0 x1 y1 x). field. split; lra.
Qed.

Lemma seg_comp_x' x0 y0 x1 y1 x x' : x == x' -> seg x0 y0 x1 y1 x == seg x0 y0 x1 y1 x'.
Proof. intros E. rewrite !seg_val. rewrite E. reflexivity. Qed.

Lemma hd_lt (R : Q * Q -> Q * Q -> Prop) a b l : StronglySorted R (a :: b :: l) -> R a b.
Proof. intros H. inversion H as [|? ? _ F]; subst. rewrite Forall_forall in F. apply F. left. reflexivity. Qed.

Lemma interp_from_comp rest : forall x0 y0 a b, a == b -> interp_from x0 y0 rest a == interp_from x0 y0 rest b.
Proof.
  induction rest as [|[x1 y1] rest' IH]; intros x0 y0 a b E; cbn [interp_from]; [reflexivity|].
  destruct rest' as [|k r]; [apply seg_comp_x'; exact E|].
  assert (Qle_bool a x1 = Qle_bool b x1).
  { destruct (Qle_bool a x1) eqn:Ea; destruct (Qle_bool b x1) eqn:Eb; try reflexivity.
    - apply Qle_bool_iff in Ea. rewrite E in Ea. apply Qle_bool_iff in Ea. congruence.
    - apply Qle_bool_iff in Eb. rewrite <- E in Eb. apply Qle_bool_iff in Eb. congruence. }
  rewrite H. destruct (Qle_bool b x1); [apply seg_comp_x'; exact E | apply IH; exact E].
Qed.

(* knots increasing in both coordinates, at least two: interpolating the swapped knots inverts the interpolation --
   at every time, between the knots and where the end segments extrapolate *)
Lemma interp_from_inverse rest : forall x0 y0 x1 y1,
  StronglySorted fst_lt ((x0, y0) :: (x1, y1) :: rest) ->
  StronglySorted snd_lt ((x0, y0) :: (x1, y1) :: rest) ->
  forall x, interp_from y0 x0 (map swap ((x1, y1) :: rest)) (interp_from x0 y0 ((x1, y1) :: rest) x) == x.
Proof.
  induction rest as [|[x2 y2] rest' IH]; intros x0 y0 x1 y1 HF HS x.
  - cbn. apply seg_inverse; [apply (hd_lt fst_lt _ _ _ HF) | apply (hd_lt snd_lt _ _ _ HS)].
  - pose proof (hd_lt fst_lt _ _ _ HF) as Hx. pose proof (hd_lt snd_lt _ _ _ HS) as Hy. cbn [fst_lt snd_lt fst snd] in Hx, Hy.
    assert (HF' : StronglySorted fst_lt ((x1, y1) :: (x2, y2) :: rest')) by (inversion HF; assumption).
    assert (HS' : StronglySorted snd_lt ((x1, y1) :: (x2, y2) :: rest')) by (inversion HS; assumption).
    change (interp_from x0 y0 ((x1, y1) :: (x2, y2) :: rest') x)
      with (if Qle_bool x x1 then seg x0 y0 x1 y1 x else interp_from x1 y1 ((x2, y2) :: rest') x).
    change (map swap ((x1, y1) :: (x2, y2) :: rest')) with ((y1, x1) :: (y2, x2) :: map swap rest').
    destruct (Qle_bool x x1) eqn:Ex.
    + (* left of the second knot: the value is at most y1, the inverse takes its first segment *)
      apply Qle_bool_iff in Ex.
      assert (Hv : seg x0 y0 x1 y1 x <= y1).
      { apply Qle_lteq in Ex as [L | E].
        - apply Qlt_le_weak. rewrite <- (seg_at_right x0 y0 x1 y1 Hx) at 2. apply seg_mono; assumption.
        - rewrite (seg_comp_x' x0 y0 x1 y1 x x1 E), (seg_at_right x0 y0 x1 y1 Hx). apply Qle_refl. }
      change (interp_from y0 x0 ((y1, x1) :: (y2, x2) :: map swap rest') (seg x0 y0 x1 y1 x))
        with (if Qle_bool (seg x0 y0 x1 y1 x) y1 then seg y0 x0 y1 x1 (seg x0 y0 x1 y1 x)
              else interp_from y1 x1 ((y2, x2) :: map swap rest') (seg x0 y0 x1 y1 x)).
      apply Qle_bool_iff in Hv. rewrite Hv. apply seg_inverse; assumption.
    + assert (Hgt : x1 < x).
      { destruct (Qlt_le_dec x1 x) as [L | L]; [exact L|]. apply Qle_bool_iff in L. congruence. }
      set (v := interp_from x1 y1 ((x2, y2) :: rest') x).
      assert (Hv : y1 < v).
      { unfold v. rewrite <- (interp_from_first ((x2, y2) :: rest') x1 y1 HF') at 1. apply interp_from_mono; assumption. }
      change (interp_from y0 x0 ((y1, x1) :: (y2, x2) :: map swap rest') v)
        with (if Qle_bool v y1 then seg y0 x0 y1 x1 v else interp_from y1 x1 ((y2, x2) :: map swap rest') v).
      assert (Eb : Qle_bool v y1 = false).
      { destruct (Qle_bool v y1) eqn:E; [|reflexivity]. apply Qle_bool_iff in E. lra. }
      rewrite Eb. change ((y2, x2) :: map swap rest') with (map swap ((x2, y2) :: rest')). unfold v. apply IH; assumption.
Qed.

Lemma time_maps_inverse_lemma k0 k1 K :
  StronglySorted fst_lt (k0 :: k1 :: K) -> StronglySorted snd_lt (k0 :: k1 :: K) ->
  (forall x, ptime_to_stime (k0 :: k1 :: K) (stime_to_ptime (k0 :: k1 :: K) x) == x) /\
  (forall y, stime_to_ptime (k0 :: k1 :: K) (ptime_to_stime (k0 :: k1 :: K) y) == y).
Proof.
  intros HF HS.
  pose proof (SS_map_swap _ HS) as H3.
  assert (Eso : isort (qkey_leb fst) (map swap (k0 :: k1 :: K)) = map swap (k0 :: k1 :: K))
    by (apply isort_id, SS_fst_lt_leb; exact H3).
  unfold ptime_to_stime, stime_to_ptime. rewrite Eso.
  destruct k0 as [x0 y0], k1 as [x1 y1]. split.
  - intros x. unfold lin_interp. cbn [map swap fst snd]. apply (interp_from_inverse K x0 y0 x1 y1 HF HS).
  - intros y. unfold lin_interp. cbn [map swap fst snd].
    (* the same lemma on the swapped knots *)
    assert (HF2 : StronglySorted fst_lt ((y0, x0) :: (y1, x1) :: map swap K)) by exact H3.
    assert (HS2 : StronglySorted snd_lt ((y0, x0) :: (y1, x1) :: map swap K)).
    { clear - HF. change ((y0, x0) :: (y1, x1) :: map swap K) with (map swap ((x0, y0) :: (x1, y1) :: K)).
      induction HF as [|a l HSl IH HFa]; cbn; constructor; [exact IH|].
      rewrite Forall_forall in *. intros b Hb. apply in_map_iff in Hb as [c [E Hc]]. subst b. unfold snd_lt, swap. cbn. apply (HFa c Hc). }
    pose proof (interp_from_inverse (map swap K) y0 x0 y1 x1 HF2 HS2 y) as H.
    assert (Esw : map swap ((y1, x1) :: map swap K) = (x1, y1) :: K).
    { cbn. f_equal. rewrite map_map. rewrite <- (map_id K) at 2. apply map_ext. intros [a b]. reflexivity. }
    rewrite Esw in H. exact H.
Qed.

(* between two neighbouring knots the map stays between their values (whatever the order of the values) *)
Lemma seg_between x0 y0 x1 y1 x : x0 < x1 -> x0 <= x <= x1 ->
  Qminb y0 y1 <= seg x0 y0 x1 y1 x <= Qmaxb y0 y1.
Proof.
  intros Hx [Hl Hr]. rewrite seg_val.
  assert (Ht : (y1 - y0) / (x1 - x0) * (x - x0) == (y1 - y0) * ((x - x0) / (x1 - x0))) by (field; lra).
  rewrite Ht. set (t := (x - x0) / (x1 - x0)).
  assert (T0 : 0 <= t) by (unfold t; apply Qle_shift_div_l; lra).
  assert (T1 : t <= 1) by (unfold t; apply Qle_shift_div_r; lra).
  unfold Qminb, Qmaxb. destruct (Qle_bool y0 y1) eqn:E.
  - apply Qle_bool_iff in E. split; nra.
  - assert (L : y1 < y0) by (destruct (Qlt_le_dec y1 y0) as [L | L]; [exact L | apply Qle_bool_iff in L; congruence]).
    split; nra.
Qed.

Lemma Qminb_le_l a b : Qminb a b <= a. Proof. unfold Qminb. destruct (Qle_bool a b) eqn:E; [lra|]. destruct (Qlt_le_dec b a) as [L|L]; [lra | apply Qle_bool_iff in L; congruence]. Qed.
Lemma Qmaxb_ge_l a b : a <= Qmaxb a b. Proof. unfold Qmaxb. destruct (Qle_bool a b) eqn:E; [apply Qle_bool_iff in E; exact E | lra]. Qed.

Lemma interp_from_between rest : forall x0 y0 A u0 p0 u1 p1 B x,
  StronglySorted fst_lt ((x0, y0) :: rest) ->
  (x0, y0) :: rest = A ++ (u0, p0) :: (u1, p1) :: B -> u0 <= x <= u1 ->
  Qminb p0 p1 <= interp_from x0 y0 rest x <= Qmaxb p0 p1.
Proof.
  induction rest as [|[x1 y1] rest' IH]; intros x0 y0 A u0 p0 u1 p1 B x HS E Hx.
  - destruct A as [|a [|a' A']]; cbn in E; discriminate.
  - destruct A as [|a A'].
    + cbn in E. inversion E; subst. pose proof (hd_lt fst_lt _ _ _ HS) as Hu. unfold fst_lt in Hu; cbn [fst] in Hu.
      cbn [interp_from]. destruct B as [|k B'].
      * apply seg_between; assumption.
      * assert (Eb : Qle_bool x u1 = true) by (apply Qle_bool_iff; apply Hx). rewrite Eb. apply seg_between; assumption.
    + cbn in E. inversion E as [[Ea Er]]. subst a.
      assert (HS' : StronglySorted fst_lt ((x1, y1) :: rest')) by (inversion HS; assumption).
      pose proof (hd_lt fst_lt _ _ _ HS) as H01. unfold fst_lt in H01; cbn [fst] in H01.
      destruct rest' as [|k r'].
      { destruct A' as [|a1 [|a2 A2]]; cbn in Er; discriminate. }
      change (interp_from x0 y0 ((x1, y1) :: k :: r') x)
        with (if Qle_bool x x1 then seg x0 y0 x1 y1 x else interp_from x1 y1 (k :: r') x).
      destruct (Qle_bool x x1) eqn:Ex.
      * apply Qle_bool_iff in Ex. destruct Hx as [Hxl Hxr].
        (* x1 <= u0: only possible with x == x1 == u0, the knot itself *)
        destruct A' as [|a1 A2].
        -- cbn in Er. inversion Er; subst. unfold fst_lt in H01; cbn [fst] in H01. assert (Exx : x == u0) by (apply Qle_antisym; assumption).
           rewrite (seg_comp_x' x0 y0 u0 p0 x u0 Exx), (seg_at_right x0 y0 u0 p0 H01).
           split; [apply Qminb_le_l | apply Qmaxb_ge_l].
        -- exfalso. cbn in Er. inversion Er as [[E1 E2]]. subst a1.
           inversion HS' as [|? ? _ F]; subst. rewrite Forall_forall in F.
           assert (Hin : In (u0, p0) (k :: r')) by (rewrite E2; apply in_or_app; right; left; reflexivity).
           specialize (F _ Hin). unfold fst_lt in F; cbn [fst] in F. lra.
      * apply (IH x1 y1 A' u0 p0 u1 p1 B x HS' Er Hx).
Qed.

Lemma lin_interp_between K A u0 p0 u1 p1 B x :
  StronglySorted fst_lt K -> K = A ++ (u0, p0) :: (u1, p1) :: B -> u0 <= x <= u1 ->
  Qminb p0 p1 <= lin_interp K x <= Qmaxb p0 p1.
Proof.
  intros HS E Hx. destruct K as [|[x0 y0] rest].
  - destruct A; discriminate.
  - unfold lin_interp. apply (interp_from_between rest x0 y0 A u0 p0 u1 p1 B x HS E Hx).
Qed.

(* ================= "within single-precision rounding": the decoder is Lipschitz in the stored parameters ================= *)

(* total absolute score interval up to onset i *)
Fixpoint abs_sum (ds : list Q) (i : nat) : Q :=
  match i with O => 0 | S k => abs_sum ds k + Qabs (nthQ ds k) end.

Lemma abs_sum_nonneg ds i : 0 <= abs_sum ds i.
Proof. induction i as [|i IH]; cbn; [lra|]. pose proof (Qabs_nonneg (nthQ ds i)). lra. Qed.

Lemma abs_sum_mono ds i j : (i <= j)%nat -> abs_sum ds i <= abs_sum ds j.
Proof.
  induction 1 as [|j H IH]; [lra|]. cbn. pose proof (Qabs_nonneg (nthQ ds j)). lra.
Qed.

Lemma Qabs_le_iff x y : Qabs x <= y <-> - y <= x /\ x <= y.
Proof. apply Qabs_Qle_condition. Qed.

Lemma eq_on_perturb first b b' ds e i :
  (forall k, (k < i)%nat -> Qabs (nthQ b' k - nthQ b k) <= e) ->
  Qabs (eq_on first b' ds i - eq_on first b ds i) <= e * abs_sum ds i.
Proof.
  induction i as [|i IH]; intros H.
  - cbn [eq_on abs_sum]. assert (E0 : first - first == 0) by ring. rewrite E0. change (Qabs 0) with 0. lra.
  - cbn [eq_on abs_sum]. rewrite !Qred_correct.
    specialize (IH (fun k Hk => H k (Nat.lt_lt_succ_r _ _ Hk))).
    pose proof (H i (Nat.lt_succ_diag_r i)) as Hi.
    set (A := eq_on first b' ds i) in *. set (B := eq_on first b ds i) in *.
    set (d := nthQ ds i). set (u := nthQ b' i - nthQ b i) in *.
    setoid_replace (A + nthQ b' i * d - (B + nthQ b i * d)) with ((A - B) + u * d) by (unfold u; ring).
    eapply Qle_trans; [apply Qabs_triangle|].
    rewrite Qabs_Qmult.
    assert (Qabs u * Qabs d <= e * Qabs d) by (apply Qmult_le_compat_r; [exact Hi | apply Qabs_nonneg]).
    lra.
Qed.

Lemma fold_min_le r : forall x, fold_left Qminb r x <= x /\ Forall (fun e => fold_left Qminb r x <= e) r.
Proof.
  induction r as [|a r IH]; intros x; cbn; [split; [lra | constructor]|].
  destruct (IH (Qminb x a)) as [H1 H2].
  assert (Qminb x a <= x /\ Qminb x a <= a).
  { unfold Qminb. destruct (Qle_bool x a) eqn:E; [apply Qle_bool_iff in E; lra|].
    destruct (Qlt_le_dec a x) as [L|L]; [lra | apply Qle_bool_iff in L; congruence]. }
  split; [lra|]. constructor; [lra | exact H2].
Qed.

Lemma fold_min_in r : forall x, fold_left Qminb r x = x \/ In (fold_left Qminb r x) r.
Proof.
  induction r as [|a r IH]; intros x; cbn; [left; reflexivity|].
  destruct (IH (Qminb x a)) as [H | H].
  - rewrite H. unfold Qminb. destruct (Qle_bool x a); [left; reflexivity | right; left; reflexivity].
  - right. right. exact H.
Qed.

Lemma minl_le l j : (j < List.length l)%nat -> minl l <= nthQ l j.
Proof.
  destruct l as [|x r]; intros H; [cbn in H; lia|]. unfold minl.
  destruct (fold_min_le r x) as [H1 H2]. destruct j as [|j]; [exact H1|].
  rewrite Forall_forall in H2. unfold nthQ. cbn [nth]. apply H2. apply nth_In. cbn in H. lia.
Qed.

Lemma minl_in l : l <> [] -> exists j, (j < List.length l)%nat /\ minl l = nthQ l j.
Proof.
  destruct l as [|x r]; intros H; [congruence|]. unfold minl.
  destruct (fold_min_in r x) as [E | E].
  - exists O. split; [cbn; lia | exact E].
  - destruct (In_nth r _ 0 E) as [j [Hj Ej]]. exists (S j). split; [cbn; lia | symmetry; exact Ej].
Qed.

(* the minimum moves by at most the largest pointwise change *)
Lemma minl_perturb a b e : List.length a = List.length b -> a <> [] ->
  (forall j, (j < List.length a)%nat -> Qabs (nthQ a j - nthQ b j) <= e) ->
  Qabs (minl a - minl b) <= e.
Proof.
  intros HL Hne H. assert (Hneb : b <> []) by (destruct a, b; cbn in HL; congruence).
  destruct (minl_in a Hne) as [ja [Hja Ea]]. destruct (minl_in b Hneb) as [jb [Hjb Eb]].
  apply Qabs_le_iff. split.
  - (* minl b <= b_ja <= a_ja + e = minl a + e *)
    pose proof (minl_le b ja ltac:(lia)) as L. pose proof (H ja Hja) as P. apply Qabs_le_iff in P. rewrite Ea. lra.
  - pose proof (minl_le a jb ltac:(lia)) as L. pose proof (H jb ltac:(lia)) as P. apply Qabs_le_iff in P. rewrite Eb. lra.
Qed.

Section Perturb.
  Variable NP : Type.
  Variable pmean : list NP -> NP.
  Variable rescale : NP -> Q.
  Variable npdefault : NP.
  Variable exp2 : Q -> Q.
  Variables (so sd : list Q) (G : list (list nat)) (P P' : list (params NP)).
  Variables (et eb : Q).
  Let n := List.length so.
  Let ds := diffs (dec_x so sd G).
  (* the stored timing of every note and the beat period read for every score onset are off by at most et, eb *)
  Hypothesis Ht : forall j, (j < n)%nat ->
    Qabs (p_timing NP (nth j P' (pdefault NP npdefault)) - p_timing NP (nth j P (pdefault NP npdefault))) <= et.
  Hypothesis Hb : forall i, (i < List.length G)%nat ->
    Qabs (dec_bp NP pmean rescale npdefault G P' i - dec_bp NP pmean rescale npdefault G P i) <= eb.
  Hypothesis Hg : forall j, (j < n)%nat -> (gidx G j < List.length G)%nat.
  Hypothesis Heb : 0 <= eb.

  Let span := abs_sum ds (List.length G).

  Lemma dec_raw_perturb j : (j < n)%nat ->
    Qabs (dec_raw NP pmean rescale npdefault so sd G P' j - dec_raw NP pmean rescale npdefault so sd G P j) <= et + eb * span.
  Proof.
    intros Hj. unfold dec_raw, dec_eq. fold ds.
    set (i := gidx G j). pose proof (Hg j Hj) as Hi. fold i in Hi.
    set (E' := eq_on 0 (dec_bps NP pmean rescale npdefault G P') ds i).
    set (E := eq_on 0 (dec_bps NP pmean rescale npdefault G P) ds i).
    set (t' := p_timing NP (nth j P' (pdefault NP npdefault))). set (t := p_timing NP (nth j P (pdefault NP npdefault))).
    setoid_replace (E' - t' - (E - t)) with ((E' - E) + - (t' - t)) by ring.
    eapply Qle_trans; [apply Qabs_triangle|]. rewrite Qabs_opp.
    assert (A : Qabs (E' - E) <= eb * abs_sum ds i).
    { apply eq_on_perturb. intros k Hk. unfold nthQ, dec_bps. rewrite !nth_map_seq by lia. apply Hb. lia. }
    assert (B : eb * abs_sum ds i <= eb * span).
    { unfold span. pose proof (abs_sum_mono ds i (List.length G) ltac:(lia)). nra. }
    pose proof (Ht j Hj) as C. fold t' t in C. lra.
  Qed.

  (* every decoded onset (after the common shift to 0) moves by at most 2 (et + eb * total score interval) *)
  Lemma decode_onset_perturb j : (j < n)%nat ->
    Qabs (fst (fst (nth j (decode NP pmean rescale npdefault exp2 so sd G P') (0, 0, 0%Z)))
          - fst (fst (nth j (decode NP pmean rescale npdefault exp2 so sd G P) (0, 0, 0%Z))))
    <= 2 * (et + eb * span).
  Proof.
    intros Hj. unfold decode. rewrite !nth_map_seq by exact Hj. cbn [fst].
    set (R' := dec_raws NP pmean rescale npdefault so sd G P'). set (R := dec_raws NP pmean rescale npdefault so sd G P).
    assert (HR : forall k, (k < n)%nat -> Qabs (nthQ R' k - nthQ R k) <= et + eb * span).
    { intros k Hk. unfold R', R, nthQ, dec_raws. rewrite !nth_map_seq by exact Hk. apply dec_raw_perturb. exact Hk. }
    assert (HLen : List.length R' = n /\ List.length R = n) by (unfold R', R, dec_raws; rewrite !map_length, !seq_length; auto).
    destruct HLen as [L1 L2].
    assert (Hmin : Qabs (minl R' - minl R) <= et + eb * span).
    { apply minl_perturb; [lia | intros E0; rewrite E0 in L1; cbn in L1; lia | intros k Hk; apply HR; lia]. }
    setoid_replace (nthQ R' j - minl R' - (nthQ R j - minl R)) with ((nthQ R' j - nthQ R j) + - (minl R' - minl R)) by ring.
    eapply Qle_trans; [apply Qabs_triangle|]. rewrite Qabs_opp. pose proof (HR j Hj). lra.
  Qed.

  (* decoded durations with the same articulation parameter: proportional to the change of the beat period *)
  Lemma decode_duration_perturb j : (j < n)%nat ->
    p_art NP (nth j P' (pdefault NP npdefault)) = p_art NP (nth j P (pdefault NP npdefault)) ->
    Qabs (snd (fst (nth j (decode NP pmean rescale npdefault exp2 so sd G P') (0, 0, 0%Z)))
          - snd (fst (nth j (decode NP pmean rescale npdefault exp2 so sd G P) (0, 0, 0%Z))))
    <= Qabs (exp2 (p_art NP (nth j P (pdefault NP npdefault))) * nthQ sd j) * eb.
  Proof.
    intros Hj Ea. unfold decode. rewrite !nth_map_seq by exact Hj. cbn [fst snd]. unfold dec_dur_with. rewrite Ea.
    set (c := exp2 (p_art NP (nth j P (pdefault NP npdefault))) * nthQ sd j).
    pose proof (Hg j Hj) as Hi.
    assert (Enth : forall Q0, nthQ (dec_bps NP pmean rescale npdefault G Q0) (gidx G j) = dec_bp NP pmean rescale npdefault G Q0 (gidx G j)).
    { intros Q0. unfold nthQ, dec_bps. apply nth_map_seq. exact Hi. }
    rewrite !Enth.
    set (b' := dec_bp NP pmean rescale npdefault G P' (gidx G j)). set (b := dec_bp NP pmean rescale npdefault G P (gidx G j)).
    setoid_replace (c * b' - c * b) with (c * (b' - b)) by ring.
    rewrite Qabs_Qmult. pose proof (Hb _ Hi) as B. fold b' b in B. pose proof (Qabs_nonneg c). nra.
  Qed.
End Perturb.

Lemma nth_diffs x : forall k, (S k < List.length x)%nat -> nthQ (diffs x) k = nthQ x (S k) - nthQ x k.
Proof.
  induction x as [|a x IH]; intros k H; [cbn in H; lia|].
  destruct x as [|b x']; [cbn in H; lia|].
  destruct k as [|k]; [reflexivity|].
  change (diffs (a :: b :: x')) with ((b - a) :: diffs (b :: x')).
  unfold nthQ in *. cbn [nth]. apply IH. cbn in *. lia.
Qed.

(* for increasing unique score onsets the total absolute interval is the span of the score *)
Lemma abs_sum_sorted x : StronglySorted Qlt_r x -> forall k, (k < List.length x)%nat ->
  abs_sum (diffs x) k == nthQ x k - nthQ x 0.
Proof.
  intros HS. induction k as [|k IH]; intros Hk; cbn [abs_sum]; [ring|].
  rewrite IH by lia. rewrite nth_diffs by exact Hk.
  assert (L : nthQ x k < nthQ x (S k)) by (apply (SS_nth Qlt_r 0 x HS k (S k)); lia).
  rewrite Qabs_pos by lra. ring.
Qed.

Lemma decode_rounding_bound_lemma :
  forall (NP : Type) (pmean : list NP -> NP) (rescale : NP -> Q) (npdefault : NP) (exp2 : Q -> Q)
         (so sd : list Q) (G : list (list nat)) (P P' : list (params NP)) (et eb : Q),
    (forall j, (j < List.length so)%nat ->
       Qabs (p_timing NP (nth j P' (pdefault NP npdefault)) - p_timing NP (nth j P (pdefault NP npdefault))) <= et) ->
    (forall i, (i < List.length G)%nat ->
       Qabs (dec_bp NP pmean rescale npdefault G P' i - dec_bp NP pmean rescale npdefault G P i) <= eb) ->
    (forall j, (j < List.length so)%nat -> (gidx G j < List.length G)%nat) -> 0 <= eb ->
    let span := abs_sum (diffs (dec_x so sd G)) (List.length G) in
    (forall j, (j < List.length so)%nat ->
       Qabs (fst (fst (nth j (decode NP pmean rescale npdefault exp2 so sd G P') (0, 0, 0%Z)))
             - fst (fst (nth j (decode NP pmean rescale npdefault exp2 so sd G P) (0, 0, 0%Z)))) <= 2 * (et + eb * span)) /\
    (forall j, (j < List.length so)%nat ->
       p_art NP (nth j P' (pdefault NP npdefault)) = p_art NP (nth j P (pdefault NP npdefault)) ->
       Qabs (snd (fst (nth j (decode NP pmean rescale npdefault exp2 so sd G P') (0, 0, 0%Z)))
             - snd (fst (nth j (decode NP pmean rescale npdefault exp2 so sd G P) (0, 0, 0%Z))))
       <= Qabs (exp2 (p_art NP (nth j P (pdefault NP npdefault))) * nthQ sd j) * eb) /\
    (forall x, StronglySorted Qlt_r x -> forall k, (k < List.length x)%nat -> abs_sum (diffs x) k == nthQ x k - nthQ x 0).
Proof.
  intros NP pmean rescale npdefault exp2 so sd G P P' et eb Ht Hb Hg Heb span. split; [|split].
  - intros j Hj. apply decode_onset_perturb; assumption.
  - intros j Hj Ea. eapply decode_duration_perturb; eassumption.
  - exact abs_sum_sorted.
Qed.

(* the bound is not vacuous: beat periods 1/2, 1 read as 1/2 + 1/100, 1 - 1/100, timings off by 1/1000 *)
Example rounding_example :
  let so := [0; 0; 1; 3] in let sd := [1; 1; 2; 1] in let G := dec_groups so in
  let P := [mkP Q (1 # 2) (1 # 2) 0 0 0; mkP Q (1 # 2) (1 # 2) (1 # 10) 0 0; mkP Q 1 1 0 0 0; mkP Q 1 1 (-(1 # 5)) 0 0] in
  let P' := [mkP Q (1 # 2) (51 # 100) (1 # 1000) 0 0; mkP Q (1 # 2) (51 # 100) (1 # 10) 0 0; mkP Q 1 (99 # 100) 0 0 0; mkP Q 1 1 (-(1 # 5) - (1 # 1000)) 0 0] in
  abs_sum (diffs (dec_x so sd G)) (List.length G) == 4 /\
  forallb (fun j => Qle_bool (Qabs (fst (fst (nth j (decode Q meanQ (fun x => x) 0 (fun x => x) so sd G P') (0, 0, 0%Z)))
                                    - fst (fst (nth j (decode Q meanQ (fun x => x) 0 (fun x => x) so sd G P) (0, 0, 0%Z)))))
                             (2 * ((1 # 1000) + (1 # 100) * 4))) (seq 0 4) = true /\
  Qle_bool (9 # 1000) (Qabs (fst (fst (nth 3 (decode Q meanQ (fun x => x) 0 (fun x => x) so sd G P') (0, 0, 0%Z)))
        - fst (fst (nth 3 (decode Q meanQ (fun x => x) 0 (fun x => x) so sd G P) (0, 0, 0%Z))))) = true.
Proof. cbv zeta. repeat split; vm_compute; reflexivity. Qed.

(* ================= end to end without a grouping hypothesis ================= *)
Lemma codec_roundtrip_separated_lemma :
  forall (NP : Type) (scale : Q -> NP) (pmean : list NP -> NP) (rescale : NP -> Q) (npdefault : NP)
         (log2 exp2 : Q -> Q),
    (forall x k, 0 < x -> rescale (pmean (repeat (scale x) (S k))) == x) ->
    (forall x, 0 < x -> exp2 (log2 x) == x) ->
  forall (method : Z) (so sd po pd : list Q) (vel : list Z),
    so <> [] -> List.length po = List.length so ->
    onsets_separated so ->
    let G := enc_groups so in
    let bp := tempo_curve method (u_onsets so (map2 Qplus so sd) G) (u_onsets po (map2 Qplus po pd) G) in
    let out := decode NP pmean rescale npdefault exp2 so sd (dec_groups so) (encode NP scale log2 so sd po pd vel G bp) in
    (exists shift : Q, forall j, (j < List.length so)%nat -> fst (fst (nth j out (0, 0, 0%Z))) == nthQ po j + shift) /\
    (forall j, (j < List.length so)%nat -> 0 < nthQ sd j -> 0 < nthQ pd j -> snd (fst (nth j out (0, 0, 0%Z))) == nthQ pd j) /\
    (forall j, (j < List.length so)%nat -> snd (nth j out (0, 0, 0%Z)) = dec_vel (enc_vel (nth j vel 0%Z))).
Proof.
  intros NP scale pmean rescale npdefault log2 exp2 Hn He method so sd po pd vel Hne Hlen Hsep.
  apply (codec_roundtrip_builtin_tc NP scale pmean rescale npdefault log2 exp2 Hn He method so sd po pd vel Hne Hlen).
  apply groups_agree. exact Hsep.
Qed.

Example separated_example :
  sep_b [0; 0; 1 # 480; 1; 1; 4 # 3; -(1 # 2)] = true /\ sep_b [0; 1 # 10000] = false /\
  dec_groups [0; 1 # 20000] <> enc_groups [0; 1 # 20000].
Proof. repeat split; vm_compute; congruence. Qed.

(* ================= rows of the matched score ================= *)
Lemma mscore_rows_spec sna pna (Ms : list (nat * nat)) :
  List.length (mscore_rows sna pna Ms) = List.length Ms /\
  forall k, (k < List.length Ms)%nat ->
    let m := nth k Ms (O, O) in
    let s := nth (fst m) sna sdefault in let p := nth (snd m) pna pdefault_row in
    nth k (mscore_rows sna pna Ms) (mscore_row sna pna (O, O)) =
      (s_on s, s_dur s, s_pitch s, p_on p, Qmaxb (p_dur p) floor_pdur, p_velo p).
Proof.
  split; [apply map_length|]. intros k Hk. cbv zeta. unfold mscore_rows.
  rewrite (map_nth (mscore_row sna pna)). reflexivity.
Qed.
