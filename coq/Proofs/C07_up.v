(* C07 -- proofs about to_v1 of info and meta lines (Model/C07_Up.v) *)
From PV Require Import Lib.Base Model.C07 Model.C07_Disp Model.C07_Up Proofs.C07_lib Gen.C07_Schemas Gen.C07_Parsers.
From Coq Require Import Ascii.
#[local] Open Scope string_scope.
#[local] Open Scope Z_scope.

Definition line_attr (l : v1line) : string :=
  match l with L1Info a _ | L1ScoreProp a _ _ _ _ _ => a end.
Definition line_value (l : v1line) : option value :=
  match l with L1Info _ v | L1ScoreProp _ v _ _ _ _ => v end.
Definition is_info (l : v1line) : bool := match l with L1Info _ _ => true | _ => false end.

(* the kind and the attribute of the converted line do not depend on the value *)
Lemma info_to_v1_shape t a v w :
  option_map (fun l => (is_info l, line_attr l)) (info_to_v1 t a v) =
  option_map (fun l => (is_info l, line_attr l)) (info_to_v1 t a w).
Proof.
  unfold info_to_v1.
  destruct (mem_s a (ut_info1 t) || has_key a (ut_ieq t)).
  - destruct (mem_s (rename (ut_ieq t) a) (ut_info1 t)); reflexivity.
  - destruct (mem_s a (ut_sp1 t) || has_key a (ut_speq t)); [|reflexivity].
    destruct (mem_s (rename (ut_speq t) a) (ut_sp1 t)); reflexivity.
Qed.

(* the converted line has an attribute of 1.0.0 (of the kind it has), namely the old one after renaming *)
Theorem info_to_v1_attr_lemma t a v l :
  info_to_v1 t a v = Some l ->
  (is_info l = true /\ line_attr l = rename (ut_ieq t) a /\ mem_s (line_attr l) (ut_info1 t) = true) \/
  (is_info l = false /\ line_attr l = rename (ut_speq t) a /\ mem_s (line_attr l) (ut_sp1 t) = true).
Proof.
  unfold info_to_v1.
  destruct (mem_s a (ut_info1 t) || has_key a (ut_ieq t)).
  - destruct (mem_s (rename (ut_ieq t) a) (ut_info1 t)) eqn:E; [|discriminate].
    intros H. inversion H; subst. left. simpl. auto.
  - destruct (mem_s a (ut_sp1 t) || has_key a (ut_speq t)); [|discriminate].
    destruct (mem_s (rename (ut_speq t) a) (ut_sp1 t)) eqn:E; [|discriminate].
    intros H. inversion H; subst. right. simpl. auto.
Qed.

(* every value is carried over unchanged, except the word lists of subtitle and tempoIndication *)
Theorem info_to_v1_value_lemma t a v l :
  info_to_v1 t a v = Some l ->
  line_attr l <> "subtitle" -> line_attr l <> "tempoIndication" -> line_value l = Some v.
Proof.
  unfold info_to_v1.
  destruct (mem_s a (ut_info1 t) || has_key a (ut_ieq t)).
  - destruct (mem_s (rename (ut_ieq t) a) (ut_info1 t)); [|discriminate].
    intros H. inversion H; subst. simpl. intros N _. unfold info_value.
    apply String.eqb_neq in N. rewrite N. reflexivity.
  - destruct (mem_s a (ut_sp1 t) || has_key a (ut_speq t)); [|discriminate].
    destruct (mem_s (rename (ut_speq t) a) (ut_sp1 t)); [|discriminate].
    intros H. inversion H; subst. simpl. intros _ N. unfold prop_value.
    apply String.eqb_neq in N. rewrite N. reflexivity.
Qed.

(* a value that is no word list is kept for every attribute *)
Theorem info_to_v1_scalar_lemma t a v l :
  info_to_v1 t a v = Some l -> (forall ws, v <> VList ws) -> line_value l = Some v.
Proof.
  unfold info_to_v1. intros H Hv.
  destruct (mem_s a (ut_info1 t) || has_key a (ut_ieq t)).
  - destruct (mem_s (rename (ut_ieq t) a) (ut_info1 t)); [|discriminate].
    inversion H; subst. simpl. unfold info_value.
    destruct (String.eqb _ "subtitle"); auto. destruct v; auto. exfalso. eapply Hv; eauto.
  - destruct (mem_s a (ut_sp1 t) || has_key a (ut_speq t)); [|discriminate].
    destruct (mem_s (rename (ut_speq t) a) (ut_sp1 t)); [|discriminate].
    inversion H; subst. simpl. unfold prop_value.
    destruct (String.eqb _ "tempoIndication"); auto. destruct v; auto. exfalso. eapply Hv; eauto.
Qed.

(* a meta line: a score property with the same value, measure and time, on beat 1 with offset 0 *)
Theorem meta_to_v1_content_lemma t a v me ti l :
  meta_to_v1 t a v me ti = Some l -> line_attr l <> "tempoIndication" ->
  l = L1ScoreProp (rename (ut_speq t) a) (Some v) me 1 frac_zero ti /\ mem_s (line_attr l) (ut_sp1 t) = true.
Proof.
  unfold meta_to_v1.
  destruct (mem_s a (ut_sp1 t) || has_key a (ut_speq t)); [|discriminate].
  destruct (mem_s (rename (ut_speq t) a) (ut_sp1 t)) eqn:E; [|discriminate].
  intros H. inversion H; subst. simpl. intros N. unfold prop_value.
  apply String.eqb_neq in N. rewrite N. auto.
Qed.

(* ------------------------------------------------------------------ on the reflected tables: which old attributes go where *)

Definition dest (a : string) : option (bool * string) :=
  option_map (fun l => (is_info l, line_attr l)) (info_to_v1 up_tabs a VNone).

(* the old info attributes, all versions: every one with an equivalent keeps its name up to the two
   renamings (midiFilename, beatSubdivision); the ones without are exactly partSequence and mergedFrom *)
Definition info_dest_ok (a : string) : bool :=
  match dest a with
  | Some (_, a') => String.eqb a' a || String.eqb a "midiFilename" && String.eqb a' "midiFileName"
                    || String.eqb a "beatSubdivision" && String.eqb a' "beatSubDivision"
  | None => String.eqb a "partSequence" || String.eqb a "mergedFrom"
  end.

Lemma old_info_attrs_dest_ok :
  forallb (fun va : version * list string => forallb info_dest_ok (snd va)) old_info_attrs = true.
Proof. vm_compute. reflexivity. Qed.

Theorem old_info_attrs_dest_lemma ver attrs a v :
  In (ver, attrs) old_info_attrs -> In a attrs ->
  match info_to_v1 up_tabs a v with
  | Some l => line_attr l = a \/ (a = "midiFilename" /\ line_attr l = "midiFileName")
              \/ (a = "beatSubdivision" /\ line_attr l = "beatSubDivision")
  | None => a = "partSequence" \/ a = "mergedFrom"
  end.
Proof.
  intros Hv Ha. pose proof old_info_attrs_dest_ok as T.
  rewrite forallb_forall in T. specialize (T _ Hv). simpl in T.
  rewrite forallb_forall in T. specialize (T _ Ha).
  unfold info_dest_ok, dest in T. pose proof (info_to_v1_shape up_tabs a VNone v) as S.
  destruct (info_to_v1 up_tabs a VNone) as [l0|]; destruct (info_to_v1 up_tabs a v) as [l|]; simpl in S; try discriminate.
  - injection S as S1 S2. simpl in T. rewrite S2 in T.
    apply orb_true_iff in T as [T | T]; [apply orb_true_iff in T as [T | T]|].
    + left. apply String.eqb_eq in T. auto.
    + right. left. apply andb_true_iff in T as [T1 T2]. apply String.eqb_eq in T1, T2. auto.
    + right. right. apply andb_true_iff in T as [T1 T2]. apply String.eqb_eq in T1, T2. auto.
  - apply orb_true_iff in T as [T | T]; apply String.eqb_eq in T; auto.
Qed.

(* every old meta attribute has a score property of the same name *)
Lemma old_meta_attrs_ok :
  forallb (fun va : version * list string =>
             forallb (fun a => match meta_to_v1 up_tabs a VNone 0 VNone with
                               | Some l => String.eqb (line_attr l) a
                               | None => false end) (snd va)) old_meta_attrs = true.
Proof. vm_compute. reflexivity. Qed.

(* the words of a tempo indication *)
Theorem tempo_words_lemma ws :
  info_to_v1 up_tabs "tempoIndication" (VList ws) =
  Some (L1ScoreProp "tempoIndication" (Some (VStr (join sp ws))) 1 1 frac_zero float_zero).
Proof. reflexivity. Qed.
