(* C01 -- facts about the reflected class tree (Gen/C01_ClassTree.v), decided by vm_compute over the
   complete finite tree, lifted to all class ids. *)
From PV Require Import Lib.Base Gen.C01_ClassTree Model.C01 Model.C01_Tree.
From Coq Require Import Sorting.Permutation.

(* issubclass(d, c) and d is not c, read off d.__mro__ *)
Definition strict_descendant (d c : Z) : Prop := d <> c /\ In c (anc_of d).
Definition valid_cls (c : Z) : Prop := 0 <= c < ct_n.

Lemma zmem_In x l : zmem x l = true <-> In x l.
Proof.
  unfold zmem. rewrite existsb_exists. split.
  - intros [y [Hy E]]. apply Z.eqb_eq in E. subst. auto.
  - intros H. exists x. split; auto. apply Z.eqb_refl.
Qed.

Lemma zmem_false x l : zmem x l = false <-> ~ In x l.
Proof. rewrite <- zmem_In. destruct (zmem x l); split; intros; try discriminate; auto. exfalso; auto. Qed.

Lemma nodup_b_NoDup l : nodup_b l = true -> NoDup l.
Proof.
  induction l as [|x r IH]; simpl; intros H; [constructor|].
  apply andb_true_iff in H as [H1 H2]. constructor; auto.
  apply negb_true_iff in H1. apply zmem_false in H1. auto.
Qed.

Lemma classes_In c : valid_cls c <-> In c classes.
Proof.
  unfold valid_cls, classes. split.
  - intros H. apply zrange_In. change (Z.of_nat ct_n_nat) with ct_n. lia.
  - assert (G : forall n lo x, In x (zrange lo n) -> lo <= x < lo + Z.of_nat n).
    { induction n as [|n IH]; simpl; intros lo x Hx; [tauto|].
      destruct Hx as [->|Hx]; [lia|]. apply IH in Hx. lia. }
    intros H. apply G in H. change (Z.of_nat ct_n_nat) with ct_n in H. lia.
Qed.

Lemma zlookup_not_key {A} k (l : list (Z * A)) : ~ In k (map fst l) -> zlookup k l = None.
Proof.
  induction l as [|[k' v] r IH]; simpl; intros H; auto.
  destruct (Z.eqb_spec k k'); [subst; tauto|]. apply IH. tauto.
Qed.

(* the three tables have exactly the keys 0 .. ct_n-1 *)
Lemma tree_keys : map fst ct_subs = classes /\ map fst ct_anc = classes /\ map fst ct_itersub = classes.
Proof. vm_compute. repeat split. Qed.

Lemma closed_all : forallb (fun c => closed_list_b (iter_subclasses c) c) classes = true.
Proof. vm_cast_no_check (eq_refl true). Qed.

Lemma strict_desc_b_iff d c : strict_desc_b d c = true <-> strict_descendant d c.
Proof.
  unfold strict_desc_b, strict_descendant. rewrite andb_true_iff, negb_true_iff, Z.eqb_neq, zmem_In. tauto.
Qed.

Lemma closed_list_sound l c : closed_list_b l c = true ->
  NoDup l /\ (forall d, In d l <-> strict_descendant d c).
Proof.
  unfold closed_list_b. intros H.
  apply andb_true_iff in H as [H H3]. apply andb_true_iff in H as [H1 H2].
  split; [apply nodup_b_NoDup; auto|].
  intros d. destruct (in_dec Z.eq_dec d classes) as [Hd|Hd].
  - pose proof (forallb_In _ _ H3 d Hd) as E. cbv beta in E. apply eqb_prop in E.
    rewrite <- zmem_In, E. apply strict_desc_b_iff.
  - split.
    + intros Hin. exfalso. apply Hd. apply zmem_In. exact (forallb_In _ _ H2 d Hin).
    + intros [_ Hin]. exfalso. unfold anc_of in Hin. rewrite zlookup_not_key in Hin; [inversion Hin|].
      destruct tree_keys as [_ [E _]]. rewrite E. exact Hd.
Qed.

(* what partitura's iter_subclasses really returned (reflected into ct_itersub) is, for every class of the
   tree, the list of its strict descendants, each exactly once -- decided directly on the reflected lists *)
Lemma impl_closed_all : forallb (fun c => closed_list_b (impl_itersub c) c) classes = true.
Proof. vm_cast_no_check (eq_refl true). Qed.

Lemma impl_itersub_closed_lemma : forall c, valid_cls c ->
  NoDup (impl_itersub c) /\ (forall d, In d (impl_itersub c) <-> strict_descendant d c).
Proof.
  intros c Hc. apply classes_In in Hc.
  pose proof (forallb_In _ _ impl_closed_all c Hc) as H. cbv beta in H.
  apply closed_list_sound in H. exact H.
Qed.

Lemma subclasses_closed_lemma : forall c, valid_cls c ->
  NoDup (iter_subclasses c) /\
  (forall d, In d (iter_subclasses c) <-> strict_descendant d c) /\
  ~ In c (iter_subclasses c).
Proof.
  intros c Hc. apply classes_In in Hc.
  pose proof (forallb_In _ _ closed_all c Hc) as H. cbv beta in H.
  apply closed_list_sound in H. destruct H as [A B].
  split; [exact A|]. split; [exact B|].
  intros Hin. apply B in Hin. destruct Hin as [Hne _]. congruence.
Qed.

(* outside the reflected tree a class has no subclasses *)
Lemma iter_subclasses_outside c : ~ valid_cls c -> iter_subclasses c = [].
Proof.
  intros H. unfold iter_subclasses, subs_of. rewrite zlookup_not_key.
  - unfold ct_fuel. destruct (2 * List.length (flat_map snd ct_subs) + 2)%nat; reflexivity.
  - destruct tree_keys as [E _]. rewrite E. rewrite <- classes_In. exact H.
Qed.

(* for every class id whatsoever: no duplicates, and the class itself is not among its subclasses *)
Lemma iter_subclasses_nodup c : NoDup (iter_subclasses c) /\ ~ In c (iter_subclasses c).
Proof.
  destruct (Z_lt_le_dec c 0) as [H|H]; [rewrite iter_subclasses_outside by (unfold valid_cls; lia); split; [constructor|auto]|].
  destruct (Z_lt_le_dec c ct_n) as [H'|H'].
  - destruct (subclasses_closed_lemma c (conj H H')) as [A [_ B]]. auto.
  - rewrite iter_subclasses_outside by (unfold valid_cls; lia). split; [constructor|auto].
Qed.

(* the diamond: ConstantLoudnessDirection is reached through ConstantDirection and LoudnessDirection, once *)
Lemma diamond_lemma :
  match cls_named "Direction", cls_named "ConstantLoudnessDirection", cls_named "LoudnessDirection", cls_named "ConstantDirection" with
  | Some d, Some cl, Some l, Some c =>
      count_occ Z.eq_dec (iter_subclasses d) cl = 1%nat /\ In cl (subs_of l) /\ In cl (subs_of c)
  | _, _, _, _ => False
  end.
Proof. vm_compute. repeat split; auto 10. Qed.

(* ---------------------------------------------------------------- model and implementation agree *)
(* the model's iter_subclasses enumerates the same classes as partitura's, each once: one is a permutation of
   the other (the order of the enumeration is not observable through the property) *)
Lemma itersub_matches_impl_lemma : forall c, valid_cls c -> Permutation (impl_itersub c) (iter_subclasses c).
Proof.
  intros c Hc. destruct (impl_itersub_closed_lemma c Hc) as [A B].
  destruct (subclasses_closed_lemma c Hc) as [A' [B' _]].
  apply NoDup_Permutation; auto. intros d. rewrite B, B'. tauto.
Qed.

Lemma count_z_count_occ x l : count_z x l = count_occ Z.eq_dec l x.
Proof.
  induction l as [|y r IH]; simpl; auto.
  destruct (Z.eq_dec y x) as [->|N]; [rewrite Z.eqb_refl; auto|].
  destruct (Z.eqb_spec x y); [congruence|auto].
Qed.

(* every strict descendant -- in particular every class reached along two inheritance paths -- is
   enumerated exactly once, by the model and by the implementation *)
Lemma descendant_once_lemma : forall c d, valid_cls c -> strict_descendant d c ->
  count_occ Z.eq_dec (iter_subclasses c) d = 1%nat /\ count_occ Z.eq_dec (impl_itersub c) d = 1%nat.
Proof.
  intros c d Hc Hd.
  destruct (subclasses_closed_lemma c Hc) as [A [B _]].
  destruct (impl_itersub_closed_lemma c Hc) as [A' B'].
  split; apply NoDup_count_occ'; auto; [apply B | apply B']; auto.
Qed.

(* the tree does contain multiply-inherited classes, and above each of them a class reaching it twice *)
Definition two_paths_b (c d : Z) : bool :=
  Nat.leb 2 (List.length (filter (fun s => (s =? d) || strict_desc_b d s) (subs_of c))).
Lemma multi_parent_exists_lemma :
  multi_parent <> [] /\
  forallb (fun d => existsb (fun c => strict_desc_b d c && two_paths_b c d) classes) multi_parent = true.
Proof. split; [vm_compute; discriminate | vm_cast_no_check (eq_refl true)]. Qed.
