(* C02 -- proofs about the time-map model (Model/C02.v). *)
From PV Require Import Lib.Base Model.C02 Proofs.C02_lib.
From Coq Require Import QArith Qfield Lqa.
#[local] Open Scope Z_scope.

(* smallest keypoint *)
Definition kp_min (m : tmode) (p : part) : Z := hd 0 (kp_xs m p).

Lemma bt_table_In m p k v : In (k, v) (bt_table m p) ->
  exists ts, In ts (p_tss p) /\ k = ts_t ts /\ v = ts_factor m ts.
Proof.
  destruct m; simpl; intros H; try contradiction;
    apply in_map_iff in H as [ts [E Hin]]; inversion E; eauto.
Qed.

Section Maps.
  Variable m : tmode.
  Variable p : part.
  Hypothesis Hwf : wf p.

  Let xs := kp_xs m p.

  Lemma kp_first : In (p_first p) xs.
  Proof. apply zsort_dedup_In. left; auto. Qed.
  Lemma kp_last : In (p_last p) xs.
  Proof. apply zsort_dedup_In. right; left; auto. Qed.
  Lemma kp_qkey k q : In (k, q) (p_qs p) -> In k xs.
  Proof.
    intros H. apply zsort_dedup_In. right; right. apply in_or_app. left.
    change k with (fst (k, q)). apply in_map; auto.
  Qed.
  Lemma kp_btkey k f : In (k, f) (bt_table m p) -> In k xs.
  Proof.
    intros H. apply zsort_dedup_In. right; right. apply in_or_app. right.
    change k with (fst (k, f)). apply in_map; auto.
  Qed.

  Lemma rate_change a k : a <= k -> (forall z, In z xs -> ~ (a < z <= k)) -> rate m p k = rate m p a.
  Proof.
    intros Hak Hno. unfold rate, div_at, bt_at.
    rewrite (prev_lookup_same (p_qs p) a k) by (auto; intros k' v' Hin; apply Hno; eapply kp_qkey; eauto).
    rewrite (prev_lookup_same (bt_table m p) a k) by (auto; intros k' v' Hin; apply Hno; eapply kp_btkey; eauto).
    reflexivity.
  Qed.

  Lemma xs_shape : exists x0 rest, xs = x0 :: rest /\ rest <> [] /\ zincr (x0 :: rest) /\
    x0 <= p_first p /\ p_last p <= lastz x0 rest /\ kp_min m p = x0.
  Proof.
    pose proof (zsort_dedup_incr (p_first p :: p_last p :: map fst (p_qs p) ++ map fst (bt_table m p))) as Hinc.
    fold (kp_xs m p) in Hinc. fold xs in Hinc.
    pose proof kp_first as Hf. pose proof kp_last as Hl.
    destruct Hwf as [_ [_ [_ [_ Hfl]]]].
    unfold kp_min. fold xs.
    destruct xs as [|x0 rest] eqn:E; [inversion Hf|].
    exists x0, rest. split; auto.
    destruct (zincr_inv _ _ Hinc) as [Hlt _].
    assert (Hx0 : forall z, In z (x0 :: rest) -> x0 <= z).
    { intros z [->|Hz]; [lia|]. specialize (Hlt z Hz). lia. }
    split.
    - intros ->. destruct Hf as [Ef|[]]. destruct Hl as [El|[]]. lia.
    - split; auto. split; [apply Hx0; auto|]. split; auto.
      apply chainZ_le_last; auto. apply zincr_chain; auto.
  Qed.

  (* integral of the rate from the smallest keypoint *)
  Definition Fint (t : Z) : Q := sum_steps (rate m p) (kp_min m p) (Z.to_nat (t - kp_min m p)).

  Lemma base_value t : p_first p <= t <= p_last p ->
    exists v, interp (base_pts m p) (inject_Z t) = Some v /\ (v == Fint t)%Q.
  Proof.
    intros Ht. destruct xs_shape as [x0 [rest [E [Hne [Hinc [Hf [Hl Hmin]]]]]]].
    unfold base_pts, Fint. fold xs. rewrite E, Hmin. simpl.
    assert (Hb : Qle_bool (inject_Z x0) (inject_Z t) = true).
    { apply Qle_bool_iff. apply inject_Z_le. lia. }
    rewrite Hb.
    destruct (interp_cum (rate m p) rest x0 0%Q t) as [v [Hv Heq]]; auto.
    - apply zincr_chain; auto.
    - apply (steps_const_of_keys (rate m p) (x0 :: rest)); auto.
      intros a k Hak Hno. apply rate_change; auto. rewrite E; auto.
    - lia.
    - exists v. split; auto. rewrite Heq. ring.
  Qed.

  Lemma shift_value (t : Q) :
    match interp (base_pts m p) t, tmap m p t with
    | Some a, Some b => (b == a - pickup_shift m p)%Q
    | None, None => True
    | _, _ => False
    end.
  Proof.
    unfold tmap, time_pts. destruct (base_pts m p) as [|[x0 y0] rest]; simpl; auto.
    destruct (Qle_bool x0 t); auto. apply interp_from_shift.
  Qed.

  Theorem tmap_value t : p_first p <= t <= p_last p ->
    exists v, tmapz m p t = Some v /\ (v == Fint t - pickup_shift m p)%Q.
  Proof.
    intros Ht. destruct (base_value t Ht) as [a [Ha Heq]].
    pose proof (shift_value (inject_Z t)) as H. rewrite Ha in H. unfold tmapz.
    destruct (tmap m p (inject_Z t)) as [b|]; [|contradiction].
    exists b. split; auto. rewrite H, Heq. reflexivity.
  Qed.

  Lemma kp_min_le_first : kp_min m p <= p_first p.
  Proof. destruct xs_shape as [x0 [rest [E [Hne [Hinc [Hf [Hl Hmin]]]]]]]. lia. Qed.

  Lemma Fint_diff a b : kp_min m p <= a <= b -> (Fint b - Fint a == beats_between m p a b)%Q.
  Proof.
    intros H. unfold Fint, beats_between.
    rewrite (sum_steps_split (rate m p) (kp_min m p) a b) by lia. ring.
  Qed.

  Theorem tmap_diff a b va vb : p_first p <= a <= b /\ b <= p_last p ->
    tmapz m p a = Some va -> tmapz m p b = Some vb -> (vb - va == beats_between m p a b)%Q.
  Proof.
    intros [Hab Hb] Ha Hvb. pose proof kp_min_le_first.
    destruct (tmap_value a ltac:(lia)) as [va' [Ea Hva]].
    destruct (tmap_value b ltac:(lia)) as [vb' [Eb Hvb']].
    rewrite Ha in Ea. rewrite Hvb in Eb. inversion Ea; inversion Eb; subst.
    rewrite Hva, Hvb'. rewrite <- (Fint_diff a b) by lia. ring.
  Qed.

  (* positivity of the rate *)
  Lemma div_at_pos k : 0 < div_at p k.
  Proof.
    destruct Hwf as [_ [Hq _]]. unfold div_at. apply prev_lookup_pos_Z; [lia|]. exact Hq.
  Qed.

  Lemma ts_factor_pos ts : ts_ok ts -> (0 < ts_factor m ts)%Q.
  Proof.
    intros [Hb [Ht Hm]].
    assert (0 < inject_Z (ts_beats ts))%Q by (change 0%Q with (inject_Z 0); apply inject_Z_lt; auto).
    assert (0 < inject_Z (ts_type ts))%Q by (change 0%Q with (inject_Z 0); apply inject_Z_lt; auto).
    assert (0 < inject_Z (ts_mus ts))%Q by (change 0%Q with (inject_Z 0); apply inject_Z_lt; auto).
    destruct m; simpl.
    - reflexivity.
    - apply Qlt_shift_div_l; [reflexivity|lra].
    - apply Qmult_lt_0_compat; apply Qlt_shift_div_l; try reflexivity; try lra; auto.
  Qed.

  Lemma bt_at_pos k : (0 < bt_at m p k)%Q.
  Proof.
    unfold bt_at. apply prev_lookup_pos_Q; [reflexivity|].
    intros k' v' Hin. destruct Hwf as [_ [_ [_ [Hts _]]]].
    apply bt_table_In in Hin as [ts [Hin [_ ->]]]. apply ts_factor_pos; auto.
  Qed.

  Lemma rate_pos k : (0 < rate m p k)%Q.
  Proof.
    unfold rate. apply Qlt_shift_div_l.
    - change 0%Q with (inject_Z 0). apply inject_Z_lt. apply div_at_pos.
    - pose proof (bt_at_pos k). lra.
  Qed.

  Theorem tmap_monotone a b va vb : p_first p <= a <= b /\ b <= p_last p ->
    tmapz m p a = Some va -> tmapz m p b = Some vb -> (va <= vb)%Q.
  Proof.
    intros H Ha Hb. pose proof (tmap_diff a b va vb H Ha Hb) as D.
    assert (0 <= beats_between m p a b)%Q.
    { apply sum_steps_nonneg. intros k _. apply Qlt_le_weak. apply rate_pos. }
    lra.
  Qed.

  Theorem tmap_strict a b va vb : p_first p <= a < b /\ b <= p_last p ->
    tmapz m p a = Some va -> tmapz m p b = Some vb -> (va < vb)%Q.
  Proof.
    intros H Ha Hb. pose proof (tmap_diff a b va vb ltac:(lia) Ha Hb) as D.
    assert (0 < beats_between m p a b)%Q.
    { apply sum_steps_pos; [lia|]. intros k _. apply rate_pos. }
    lra.
  Qed.

  (* ------------------------------------------------------------ inverse *)
  Lemma cum_chainQ : forall l x0 y0, chainZ x0 l ->
    chainQ (inject_Z x0) y0 (injx (cum (rate m p) x0 y0 l)).
  Proof.
    induction l as [|x1 r IH]; intros x0 y0 H; simpl; auto.
    destruct H as [H01 H]. split; [apply inject_Z_lt; auto|]. split; [|apply IH; auto].
    assert (0 < rate m p x0 * inject_Z (x1 - x0))%Q.
    { apply Qmult_lt_0_compat; [apply rate_pos|]. change 0%Q with (inject_Z 0). apply inject_Z_lt. lia. }
    lra.
  Qed.

  Lemma shift_chainQ s : forall rest x0 y0, chainQ x0 y0 rest -> chainQ x0 (y0 - s) (shift_pts s rest).
  Proof.
    induction rest as [|[x1 y1] r IH]; intros x0 y0 H; simpl in *; auto.
    destruct H as [Hx [Hy H]]. split; auto. split; [lra|]. apply IH; auto.
  Qed.

  Theorem inv_fwd (t v : Q) : tmap m p t = Some v ->
    exists t', tinv m p v = Some t' /\ (t' == t)%Q.
  Proof.
    destruct xs_shape as [x0 [rest [E [Hne [Hinc [Hf [Hl Hmin]]]]]]].
    unfold tmap, tinv, time_pts, base_pts. fold xs. rewrite E. simpl.
    destruct (Qle_bool (inject_Z x0) t) eqn:Hb; [|discriminate].
    apply Qle_bool_iff in Hb. intros Hv.
    pose proof (shift_chainQ (pickup_shift m p) _ _ _ (cum_chainQ rest x0 0%Q (zincr_chain _ _ Hinc))) as Hch.
    destruct (interp_from_inverse _ _ _ _ _ Hch Hb Hv) as [Hle [_ [t' [Ht' Heq]]]].
    apply Qle_bool_iff in Hle. rewrite Hle. exists t'. split; auto.
  Qed.

  (* ------------------------------------------------------------- origin *)
  Theorem origin_general v : tmapz m p (p_first p) = Some v ->
    (v == beats_between m p (kp_min m p) (p_first p) - pickup_shift m p)%Q.
  Proof.
    intros Hv. destruct Hwf as [_ [_ [_ [_ Hfl]]]].
    destruct (tmap_value (p_first p) ltac:(lia)) as [v' [E Hv']]. rewrite Hv in E. inversion E; subst.
    rewrite Hv'. unfold Fint, beats_between. reflexivity.
  Qed.

  (* the pickup test of the code in terms of the spec *)
  Lemma pickup_shift_spec s e ts : p_m1 p = Some (s, e) -> ts_at_first p = Some ts ->
    p_first p <= s <= e /\ e <= p_last p ->
    (pickup_shift m p == if Qle_bool (normal_dur m ts) (beats_between m p s e) then 0 else beats_between m p s e)%Q.
  Proof.
    intros Hm Hts Hr. unfold pickup_shift. rewrite Hm, Hts.
    destruct (base_value s ltac:(lia)) as [a [Ha Hae]].
    destruct (base_value e ltac:(lia)) as [b [Hb Hbe]].
    rewrite Ha, Hb. pose proof kp_min_le_first.
    assert (D : (b - a == beats_between m p s e)%Q).
    { rewrite Hae, Hbe. apply Fint_diff. lia. }
    destruct (Qle_bool (normal_dur m ts) (b - a)) eqn:E1;
      destruct (Qle_bool (normal_dur m ts) (beats_between m p s e)) eqn:E2; try reflexivity; auto.
    - apply Qle_bool_iff in E1. rewrite D in E1. apply Qle_bool_iff in E1. congruence.
    - apply Qle_bool_iff in E2. rewrite <- D in E2. apply Qle_bool_iff in E2. congruence.
  Qed.

  Lemma pickup_shift_none : (p_m1 p = None \/ ts_at_first p = None) -> pickup_shift m p = 0%Q.
  Proof.
    unfold pickup_shift. intros [->| H]; auto. rewrite H. destruct (p_m1 p) as [[s e]|]; auto.
  Qed.

  (* no pickup (no first measure / no signature at the first point / a complete first measure)
     and nothing before the first point: zero lies at the first time point *)
  Theorem origin_no_pickup v : kp_min m p = p_first p -> (pickup_shift m p == 0)%Q ->
    tmapz m p (p_first p) = Some v -> (v == 0)%Q.
  Proof.
    intros Hmin Hs Hv. rewrite (origin_general v Hv), Hs, Hmin.
    unfold beats_between. replace (p_first p - p_first p) with 0 by lia. simpl. ring.
  Qed.

  (* pickup: zero lies at the end of the pickup measure = start of the first full measure *)
  Theorem origin_pickup e ts v : kp_min m p = p_first p ->
    p_m1 p = Some (p_first p, e) -> ts_at_first p = Some ts -> p_first p <= e <= p_last p ->
    (beats_between m p (p_first p) e < normal_dur m ts)%Q ->
    tmapz m p e = Some v -> (v == 0)%Q.
  Proof.
    intros Hmin Hm Hts He Hlt Hv.
    destruct (tmap_value e ltac:(lia)) as [v' [E Hv']]. rewrite Hv in E. inversion E; subst v'.
    rewrite Hv'. rewrite (pickup_shift_spec (p_first p) e ts Hm Hts ltac:(lia)).
    destruct (Qle_bool (normal_dur m ts) (beats_between m p (p_first p) e)) eqn:E1.
    - apply Qle_bool_iff in E1. lra.
    - unfold Fint, beats_between. rewrite Hmin. ring.
  Qed.

  Theorem origin_full_bar e ts v : kp_min m p = p_first p ->
    p_m1 p = Some (p_first p, e) -> ts_at_first p = Some ts -> p_first p <= e <= p_last p ->
    (normal_dur m ts <= beats_between m p (p_first p) e)%Q ->
    tmapz m p (p_first p) = Some v -> (v == 0)%Q.
  Proof.
    intros Hmin Hm Hts He Hle Hv. apply origin_no_pickup; auto.
    rewrite (pickup_shift_spec (p_first p) e ts Hm Hts ltac:(lia)).
    apply Qle_bool_iff in Hle. rewrite Hle. reflexivity.
  Qed.
End Maps.

(* ------------------------------------------------------- spec-level facts *)

Lemma quarters_are_beats_between p a b : quarters_between p a b = beats_between Quarter p a b.
Proof. reflexivity. Qed.

Theorem qmap_diff p a b va vb : wf p -> p_first p <= a <= b /\ b <= p_last p ->
  tmapz Quarter p a = Some va -> tmapz Quarter p b = Some vb -> (vb - va == quarters_between p a b)%Q.
Proof. intros Hwf. rewrite quarters_are_beats_between. apply tmap_diff; auto. Qed.

(* a stretch under constant quarter duration q and beat factor f lasts (b-a)/q * f *)
Lemma beats_between_const m p a b q f : a <= b ->
  (forall k, a <= k < b -> div_at p k = q /\ (bt_at m p k == f)%Q) -> 0 < q ->
  (beats_between m p a b == (inject_Z (b - a) / inject_Z q) * f)%Q.
Proof.
  intros Hab Hc Hq. unfold beats_between.
  rewrite (sum_steps_constZ (rate m p) (f / inject_Z q)%Q a b Hab).
  - rewrite inject_Z_sub. field.
    assert (inject_Z 0 < inject_Z q)%Q by (apply inject_Z_lt; auto). change (inject_Z 0) with 0%Q in *. lra.
  - intros k Hk. destruct (Hc k Hk) as [Hd Hb]. unfold rate. rewrite Hd, Hb. reflexivity.
Qed.

Lemma quarters_between_const p a b q : a <= b -> (forall k, a <= k < b -> div_at p k = q) -> 0 < q ->
  (quarters_between p a b == inject_Z (b - a) / inject_Z q)%Q.
Proof.
  intros Hab Hc Hq. rewrite quarters_are_beats_between.
  rewrite (beats_between_const Quarter p a b q 1%Q Hab); [ring| |auto].
  intros k Hk. split; auto. reflexivity.
Qed.

Lemma beats_between_split m p a b c : a <= b <= c ->
  (beats_between m p a c == beats_between m p a b + beats_between m p b c)%Q.
Proof. intros H. unfold beats_between. apply sum_steps_split; auto. Qed.

(* the quarter duration / the beat factor in force *)
Lemma div_at_spec p k q : keys_incr (p_qs p) -> in_force (p_qs p) k q -> div_at p k = q.
Proof.
  intros Hs Hf. destruct Hf as [k0 [Hin [Hle Hmax]]]. unfold div_at.
  eapply in_force_unique; eauto.
  - eapply prev_lookup_in_force; eauto.
  - exists k0; auto.
Qed.

Lemma keys_incr_map {A B} (f : A -> B) (g : A -> Z) : forall l,
  keys_incr (map (fun x => (g x, x)) l) -> keys_incr (map (fun x => (g x, f x)) l).
Proof.
  induction l as [|x r IH]; simpl; auto. intros [H1 H2]. split; auto.
  destruct r; simpl in *; auto.
Qed.

Lemma bt_at_spec m p k ts : m <> Quarter ->
  keys_incr (map (fun ts => (ts_t ts, ts)) (p_tss p)) ->
  in_force (map (fun ts => (ts_t ts, ts)) (p_tss p)) k ts -> bt_at m p k = ts_factor m ts.
Proof.
  intros Hm Hs [k0 [Hin [Hle Hmax]]].
  apply in_map_iff in Hin as [ts' [E Hin]]. inversion E. subst ts' k0.
  assert (Hf : in_force (bt_table m p) k (ts_factor m ts)).
  { exists (ts_t ts). split; [|split; auto].
    - destruct m; try congruence; simpl; apply in_map_iff; exists ts; auto.
    - intros k' v' Hin' Hle'. apply bt_table_In in Hin' as [ts2 [Hin2 [-> _]]].
      apply (Hmax (ts_t ts2) ts2); auto. apply in_map_iff. exists ts2; auto. }
  assert (Hs' : keys_incr (bt_table m p)).
  { destruct m; try congruence;
      [exact (keys_incr_map (ts_factor Beat) ts_t _ Hs) | exact (keys_incr_map (ts_factor Musical) ts_t _ Hs)]. }
  unfold bt_at. destruct Hf as [k1 [Hin1 [Hle1 Hmax1]]].
  eapply in_force_unique; eauto.
  - eapply prev_lookup_in_force; eauto.
  - exists k1; auto.
Qed.

Lemma bt_at_before m p k : (forall ts, In ts (p_tss p) -> k < ts_t ts) -> bt_at m p k = 1%Q.
Proof.
  intros H. unfold bt_at. apply prev_lookup_default. intros k' v' Hin.
  apply bt_table_In in Hin as [ts [Hin [-> _]]]. auto.
Qed.

(* quarter_duration_map = divisions in force; the first entry's value before it *)
Theorem qd_map_spec p t : keys_incr (p_qs p) ->
  (forall q, in_force (p_qs p) t q -> qd_map p t = q) /\
  ((forall k v, In (k, v) (p_qs p) -> t < k) -> forall k0 v0 r, p_qs p = (k0, v0) :: r -> qd_map p t = v0).
Proof.
  intros Hs. split.
  - intros q [k0 [Hin [Hle Hmax]]]. unfold qd_map.
    eapply in_force_unique; eauto.
    + eapply prev_lookup_in_force; eauto.
    + exists k0; auto.
  - intros Hall k0 v0 r E. unfold qd_map. rewrite prev_lookup_default; auto. rewrite E. reflexivity.
Qed.

(* ---------------------------------------------------------- musical beats *)
Lemma musical_default_spec b :
  musical_default b = if b =? 6 then 2 else if b =? 9 then 3 else if b =? 12 then 4 else b.
Proof.
  destruct (b =? 6) eqn:E6; [assert (b = 6) by lia; subst; reflexivity|].
  destruct (b =? 9) eqn:E9; [assert (b = 9) by lia; subst; reflexivity|].
  destruct (b =? 12) eqn:E12; [assert (b = 12) by lia; subst; reflexivity|].
  unfold musical_default.
  destruct b as [|b|b]; auto.
  repeat (match goal with b : positive |- _ => destruct b end; try reflexivity; try (exfalso; lia)).
Qed.

Lemma set_mus_spec tab ts :
  ts_mus (set_mus tab ts) = match tab_lookup (ts_beats ts) (ts_type ts) tab with
                            | Some v => v | None => musical_default (ts_beats ts) end /\
  ts_t (set_mus tab ts) = ts_t ts /\ ts_beats (set_mus tab ts) = ts_beats ts /\ ts_type (set_mus tab ts) = ts_type ts.
Proof. unfold set_mus; simpl; auto. Qed.

(* ----------------------------------------- D04: origin when first point > 0 *)
Definition d04_part : part := mk_part 5 21 [(0, 4)] [mk_tsig 5 4 4 4] (Some (5, 21)).

Lemma d04_wf : wf d04_part.
Proof.
  unfold wf, d04_part; simpl. repeat split; auto; try lia.
  - intros k q [E|[]]; inversion E; lia.
  - destruct H as [<-|[]]; simpl; lia.
  - destruct H as [<-|[]]; simpl; lia.
  - destruct H as [<-|[]]; simpl; lia.
Qed.

(* the full statement "zero lies at the first time point when there is no pickup" fails when
   the first time point is later than division 0 *)
Lemma origin_first_gt0_refuted :
  exists p v, wf p /\ 0 < p_first p /\ (pickup_shift Quarter p == 0)%Q /\
              tmapz Quarter p (p_first p) = Some v /\ ~ (v == 0)%Q.
Proof.
  exists d04_part, (25 # 20)%Q. split; [exact d04_wf|]. split; [simpl; lia|].
  split; [vm_compute; reflexivity|]. split; [vm_compute|intros H; vm_compute in H; discriminate].
  reflexivity.
Qed.

(* the hypotheses of the theorems are satisfiable by a non-trivial part: two division changes,
   a change of meter, a pickup of one quarter *)
Definition ex_part : part :=
  mk_part 0 40 [(0, 4); (12, 6); (30, 2)] [mk_tsig 0 4 4 4; mk_tsig 20 6 8 2] (Some (0, 4)).

Lemma ex_part_wf : wf ex_part.
Proof.
  unfold wf, ex_part; simpl. repeat split; auto; try lia.
  - intros k q [E|[E|[E|[]]]]; inversion E; lia.
  - destruct H as [<-|[<-|[]]]; simpl; lia.
  - destruct H as [<-|[<-|[]]]; simpl; lia.
  - destruct H as [<-|[<-|[]]]; simpl; lia.
Qed.

Example ex_part_values :
  (exists v, tmapz Quarter ex_part 0 = Some v /\ (v == -1 # 1)%Q) /\ kp_min Quarter ex_part = p_first ex_part /\
  (exists v, tmapz Quarter ex_part 4 = Some v /\ (v == 0)%Q) /\
  (exists v, tmapz Musical ex_part 40 = Some v /\ (v == 70 # 9)%Q).
Proof.
  split; [eexists; (split; [vm_compute; reflexivity|reflexivity])|]. split; [reflexivity|].
  split; eexists; (split; [vm_compute; reflexivity|reflexivity]).
Qed.

(* ------------------------------- T2: the implementation's musical-beat default *)
From PV Require Import Gen.C02_Tab.

Definition zz_mem (x : Z * Z) (l : list (Z * Z)) : bool :=
  existsb (fun y => (fst x =? fst y) && (snd x =? snd y)) l.

Lemma zz_mem_In x l : zz_mem x l = true -> In x l.
Proof.
  unfold zz_mem. intros H. apply existsb_exists in H as [[a b] [Hin E]].
  destruct x as [c d]. simpl in E. assert (c = a /\ d = b) as [-> ->] by lia. exact Hin.
Qed.

Lemma impl_musical_default b : 1 <= b <= 64 ->
  In (b, musical_default b) tab_ts_musical /\ In (b, musical_default b) tab_ts_reset.
Proof.
  intros H.
  assert (T : forallb (fun b => zz_mem (b, musical_default b) tab_ts_musical &&
                                zz_mem (b, musical_default b) tab_ts_reset) (zrange 1 64) = true)
    by (vm_compute; reflexivity).
  pose proof (forallb_In _ _ T b (zrange_In 1 64 b ltac:(lia))) as Hb. simpl in Hb.
  apply andb_true_iff in Hb as [H1 H2]. split; apply zz_mem_In; assumption.
Qed.
