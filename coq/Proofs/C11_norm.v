(* C11 -- proofs about Model/C11_Norm.v: tie_notes under a divisions map, sanitize_part. *)
From PV Require Import Lib.Base Lib.Round Gen.C11_Tables Model.C11 Model.C11_Spec Model.C11_Norm
  Proofs.C11_lib Proofs.C11_est Proofs.C11.
From Coq Require Import QArith Qabs Sorting.Sorted.
#[local] Open Scope Z_scope.

(* ------------------------------------------------------------------ divisions map *)

Lemma div_at_from_pos : forall dm d t, 0 < d -> Forall (fun e => 0 < snd e) dm -> 0 < div_at_from d dm t.
Proof.
  induction dm as [|[a v] dm IH]; intros d t Hd F; simpl; [assumption|].
  inversion F as [|? ? Hv F']; subst. simpl in Hv.
  destruct (a <=? t); [apply IH; assumption | assumption].
Qed.

Lemma div_at_pos dm t : Forall (fun e => 0 < snd e) dm -> 0 < div_at dm t.
Proof.
  intros F. unfold div_at. destruct dm as [|[a v] dm]; [lia|].
  inversion F as [|? ? Hv F']; subst. apply div_at_from_pos; assumption.
Qed.

(* the divisions value does not change between a and b when no entry lies in (a, b] *)
Lemma div_at_from_stable : forall dm d a b,
  Forall (fun e => ~ (a < fst e <= b)) dm -> a <= b -> div_at_from d dm a = div_at_from d dm b.
Proof.
  induction dm as [|[c v] dm IH]; intros d a b F Hab; simpl; [reflexivity|].
  inversion F as [|? ? Hc F']; subst. simpl in Hc.
  destruct (c <=? a) eqn:E1, (c <=? b) eqn:E2; try lia; auto.
Qed.

Lemma div_at_stable dm a b :
  Forall (fun e => ~ (a < fst e <= b)) (tl dm) -> a <= b -> div_at dm a = div_at dm b.
Proof.
  intros F Hab. unfold div_at. destruct dm as [|[c v] dm]; [reflexivity|]. simpl in F.
  apply div_at_from_stable; assumption.
Qed.

Lemma div_at_single t0 div t : div_at [(t0, div)] t = div.
Proof. reflexivity. Qed.

(* ------------------------------------------------------------------ tie_notes under a divisions map *)

Lemma stage2_dm_refines dm : refines (fun p => stage2_piece (div_at dm (fst p)) p).
Proof. intros p. apply (stage2_refines (div_at dm (fst p)) p). Qed.

Lemma tie_sounding_dm bars dm c : sounding (tie_chain_dm bars dm c) = sounding c.
Proof.
  destruct c as [[[p v] st] ps]. unfold tie_chain_dm, sounding, tie_pieces_dm, stage2_pieces_dm, stage1_pieces.
  rewrite (flat_map_onset _ (stage2_dm_refines dm)), (flat_map_total _ (stage2_dm_refines dm)).
  rewrite (flat_map_onset _ (stage1_refines bars)), (flat_map_total _ (stage1_refines bars)).
  reflexivity.
Qed.

Lemma tie_contiguous_dm bars dm ps : contiguous ps -> contiguous (tie_pieces_dm bars dm ps).
Proof.
  intros C. unfold tie_pieces_dm, stage2_pieces_dm, stage1_pieces.
  apply (flat_map_contiguous _ (stage2_dm_refines dm)).
  apply (flat_map_contiguous _ (stage1_refines bars)). exact C.
Qed.

Lemma tie_pieces_wf_dm ms a b bars dm ps :
  Forall (fun e => 0 < snd e) dm -> chain_from a ms b -> bars = map fst ms ->
  Forall (fun p => a <= fst p /\ fst p < snd p /\ snd p <= b) ps ->
  Forall (fun q => within_one ms q /\ fst q < snd q) (tie_pieces_dm bars dm ps).
Proof.
  intros Hd C -> F. apply Forall_forall. intros q Hq.
  unfold tie_pieces_dm, stage2_pieces_dm in Hq. apply in_flat_map in Hq as (p1 & Hp1 & Hq).
  unfold stage1_pieces in Hp1. apply in_flat_map in Hp1 as (p & Hp & Hp1).
  rewrite Forall_forall in F. destruct (F p Hp) as (A1 & A2 & A3).
  pose proof (stage1_within ms a b (fst p) (snd p) C A1 A2 A3 p1 Hp1) as (m & Hm & M1 & M2).
  destruct (pieces_between_bars (map fst ms) (fst p) (snd p) (chain_from_starts_sorted _ _ _ C) A2 p1 Hp1) as (B1 & B2 & _).
  destruct (stage2_piece_inside (div_at dm (fst p1)) p1 q (div_at_pos dm _ Hd) B2 Hq) as (D1 & D2 & D3).
  split; [|exact D2]. exists m. split; [exact Hm|]. lia.
Qed.

Lemma tie_chain_identity_dm bars dm p v st ps :
  exists ps', tie_chain_dm bars dm (p, v, st, ps) = (p, v, st, ps').
Proof. eexists. reflexivity. Qed.

(* the list of pieces with their symbolic durations is about the same pieces *)
Lemma stage2_piece_sym_fst d p : map fst (stage2_piece_sym d p) = stage2_piece d p.
Proof. unfold stage2_piece_sym. rewrite map_map. simpl. apply map_id. Qed.

Lemma tie_pieces_sym_fst bars dm ps : map fst (tie_pieces_sym_dm bars dm ps) = tie_pieces_dm bars dm ps.
Proof.
  unfold tie_pieces_sym_dm, tie_pieces_dm, stage2_pieces_dm.
  induction (stage1_pieces bars ps) as [|p l IH]; simpl; [reflexivity|].
  rewrite map_app, IH, stage2_piece_sym_fst. reflexivity.
Qed.

(* one divisions value throughout: the model of Model.C11 *)
Lemma tie_pieces_dm_const bars t0 div ps : tie_pieces_dm bars [(t0, div)] ps = tie_pieces bars div ps.
Proof. reflexivity. Qed.

Lemma tie_sym_dm_const bars t0 div ps q e :
  In (q, e) (tie_pieces_sym_dm bars [(t0, div)] ps) -> In q (tie_pieces bars div ps) /\ e = piece_sym div q.
Proof.
  intros H. unfold tie_pieces_sym_dm in H. apply in_flat_map in H as (p1 & Hp1 & H).
  unfold stage2_piece_sym in H. apply in_map_iff in H as (q' & E & Hq'). inversion E; subst.
  split; [|reflexivity].
  unfold tie_pieces, stage2_pieces. apply in_flat_map. exists p1. split; assumption.
Qed.

Lemma tie_one_divisions_lemma bars t0 div ps :
  tie_pieces_dm bars [(t0, div)] ps = tie_pieces bars div ps
  /\ forall q e, In (q, e) (tie_pieces_sym_dm bars [(t0, div)] ps) -> e = piece_sym div q.
Proof.
  split; [exact (tie_pieces_dm_const bars t0 div ps)|].
  intros q e H. exact (proj2 (tie_sym_dm_const bars t0 div ps q e H)).
Qed.

Lemma ex_tie_dm :
  tie_pieces_sym_dm [0; 16] [(0, 4); (16, 8)] [(12, 24)]
  = [((12, 16), ESome ("quarter"%string, 0, None)); ((16, 24), ESome ("quarter"%string, 0, None))].
Proof. vm_compute. reflexivity. Qed.

(* every symbolic duration assigned evaluates to the piece's numeric duration under the divisions in
   force at the piece's own start -- when every change of divisions is at a bar line (and the
   estimator hit its value exactly) *)
Lemma tie_symbolic_in_force_lemma bars dm ps q sd :
  StronglySorted Z.lt bars -> Forall (fun e => 0 < snd e) dm ->
  Forall (fun e => In (fst e) bars) (tl dm) ->
  Forall (fun p => fst p < snd p) ps ->
  In (q, ESome sd) (tie_pieces_sym_dm bars dm ps) ->
  exact_hit (snd q - fst q) (div_at dm (fst q)) = true ->
  exists v, sym_to_num sd (div_at dm (fst q)) = Some v /\ (v == inject_Z (snd q - fst q))%Q.
Proof.
  intros S Hd Hc F Hin Hx.
  unfold tie_pieces_sym_dm in Hin. apply in_flat_map in Hin as (p1 & Hp1 & Hin).
  unfold stage1_pieces in Hp1. apply in_flat_map in Hp1 as (p & Hp & Hp1).
  rewrite Forall_forall in F. pose proof (F p Hp) as A2.
  destruct (pieces_between_bars bars (fst p) (snd p) S A2 p1 Hp1) as (_ & B2 & _ & B4).
  unfold stage2_piece_sym in Hin. apply in_map_iff in Hin as (q' & E & Hq'). inversion E; subst q'. clear E.
  destruct (stage2_piece_inside (div_at dm (fst p1)) p1 q (div_at_pos dm _ Hd) B2 Hq') as (D1 & D2 & D3).
  assert (Hsame : div_at dm (fst p1) = div_at dm (fst q)).
  { apply div_at_stable; [|lia]. apply Forall_forall. intros e He Hr.
    rewrite Forall_forall in Hc. apply (B4 (fst e) (Hc e He)). lia. }
  rewrite Hsame in *.
  apply estimate_exact_lemma; try lia; try assumption. apply div_at_pos; assumption.
Qed.

(* the boundary (known finding C11-K4): 4 divisions per quarter, 8 from time 2 on (not a bar line), a note
   (0, 10): the second stage reads it as 2.5 quarters and splits it at 8; the piece (8, 10) carries
   "eighth", which is 4 divisions under the 8 divisions per quarter in force at its start *)
Lemma tie_mixed_units_refuted_lemma :
  exists bars dm ps q sd v,
    In (q, ESome sd) (tie_pieces_sym_dm bars dm ps)
    /\ exact_hit (snd q - fst q) (div_at dm (fst q)) = true
    /\ sym_to_num sd (div_at dm (fst q)) = Some v /\ Qeq_bool v (inject_Z (snd q - fst q)) = false.
Proof.
  exists [0], [(0, 4); (2, 8)], [(0, 10)], (8, 10), ("eighth"%string, 0, None), (8 # 2)%Q.
  split; [vm_compute; right; left; reflexivity|].
  split; [vm_compute; reflexivity|].
  split; vm_compute; reflexivity.
Qed.

(* afterwards a piece has a notated value, or it is a stage-1 piece the splitter could not split *)
Lemma tie_outcome_dm_lemma bars dm ps q e :
  Forall (fun x => 0 < snd x) dm -> StronglySorted Z.lt bars -> Forall (fun p => fst p < snd p) ps ->
  In (q, e) (tie_pieces_sym_dm bars dm ps) ->
  has_sym e = true
  \/ (In q (stage1_pieces bars ps)
      /\ ((forall cuts, find_tie_split (fst q) (snd q) (div_at dm (fst q)) <> Some (Some cuts))
          \/ estimate (snd q - fst q) (div_at dm (fst q)) = EFuel)).
Proof.
  intros Hd S F Hin.
  unfold tie_pieces_sym_dm in Hin. apply in_flat_map in Hin as (p1 & Hp1 & Hin).
  pose proof Hp1 as Hp1'.
  unfold stage1_pieces in Hp1. apply in_flat_map in Hp1 as (p & Hp & Hp1).
  rewrite Forall_forall in F. pose proof (F p Hp) as A2.
  destruct (pieces_between_bars bars (fst p) (snd p) S A2 p1 Hp1) as (_ & B2 & _).
  unfold stage2_piece_sym in Hin. apply in_map_iff in Hin as (q' & E & Hq'). inversion E; subst. clear E.
  destruct (stage2_outcome_lemma (div_at dm (fst p1)) p1 q (div_at_pos dm _ Hd) B2 Hq') as [L|[-> R]].
  - left. exact L.
  - right. split; assumption.
Qed.

(* ------------------------------------------------------------------ sanitize_part: grace notes *)

Lemma cand_at_spec notes t v i :
  cand_at notes t v = Some i -> exists n, In n notes /\ fst (fst n) = i /\ snd (fst n) = t /\ snd n = v.
Proof.
  unfold cand_at. destruct (rev (filter (cn_matches t v) notes)) as [|n r] eqn:E; [discriminate|].
  intros H. inversion H; subst. exists n.
  assert (Hin : In n (filter (cn_matches t v) notes)).
  { apply in_rev. rewrite E. left. reflexivity. }
  apply filter_In in Hin as [Hin Hm]. unfold cn_matches in Hm.
  repeat split; try assumption; lia.
Qed.

Lemma cand_at_none notes t v :
  cand_at notes t v = None -> forall n, In n notes -> ~ (snd (fst n) = t /\ snd n = v).
Proof.
  unfold cand_at. destruct (rev (filter (cn_matches t v) notes)) as [|n r] eqn:E; [|discriminate].
  intros _ n Hin [H1 H2].
  assert (Hf : In n (filter (cn_matches t v) notes)).
  { apply filter_In. split; [assumption|]. unfold cn_matches. lia. }
  apply in_rev in Hf. rewrite E in Hf. destruct Hf.
Qed.

Lemma san_members_linked notes ms n : san_members notes ms (Some n) = ([], Some n).
Proof. induction ms as [|m r IH]; simpl; [reflexivity|]. rewrite IH. reflexivity. Qed.

(* exactly the members visited before the first one for which a note of its voice starts at its
   time are removed (none when the sequence has a main note) *)
Lemma san_removed_spec notes ms lnk :
  fst (san_members notes ms lnk)
  = match lnk with
    | Some _ => []
    | None => map gm_id (take_while (fun m => is_none (cand_at notes (gm_t m) (gm_v m))) ms)
    end.
Proof.
  destruct lnk as [n|]; [rewrite san_members_linked; reflexivity|].
  induction ms as [|m r IH]; simpl; [reflexivity|].
  destruct (cand_at notes (gm_t m) (gm_v m)) as [n|] eqn:E; simpl.
  - rewrite san_members_linked. reflexivity.
  - rewrite IH. reflexivity.
Qed.

(* the main note afterwards: the one the sequence had; otherwise the candidate of the first member
   that has one *)
Lemma san_link_spec notes ms lnk :
  snd (san_members notes ms lnk)
  = match lnk with
    | Some n => Some n
    | None => match drop_while (fun m => is_none (cand_at notes (gm_t m) (gm_v m))) ms with
              | [] => None
              | m :: _ => cand_at notes (gm_t m) (gm_v m)
              end
    end.
Proof.
  destruct lnk as [n|]; [rewrite san_members_linked; reflexivity|].
  induction ms as [|m r IH]; simpl; [reflexivity|].
  destruct (cand_at notes (gm_t m) (gm_v m)) as [n|] eqn:E; simpl.
  - rewrite san_members_linked. simpl. symmetry. exact E.
  - exact IH.
Qed.

(* nothing is removed from a sequence that has a main note or whose first visited member can be
   given one *)
Lemma san_keeps_lemma notes ms lnk :
  linkable notes (ms, lnk) -> fst (san_members notes ms lnk) = [].
Proof.
  unfold linkable. simpl. intros H. rewrite san_removed_spec.
  destruct lnk as [n|]; [reflexivity|].
  destruct H as [H|H]; [congruence|].
  destruct ms as [|m r]; [reflexivity|]. simpl in *.
  destruct (cand_at notes (gm_t m) (gm_v m)); [reflexivity|]. simpl in H. congruence.
Qed.

Lemma filter_all_true {A} (f : A -> bool) l : (forall x, In x l -> f x = true) -> filter f l = l.
Proof.
  induction l as [|x l IH]; intros H; simpl; [reflexivity|].
  rewrite (H x (or_introl eq_refl)). f_equal. apply IH. intros y Hy. apply H. right. exact Hy.
Qed.

(* ... so the note-array rows of the grace notes are the same before and after *)
Lemma sanitize_grace_rows_lemma notes seqs :
  Forall (linkable notes) seqs -> grace_rows_after notes seqs = grace_rows seqs.
Proof.
  intros F. unfold grace_rows_after, grace_rows.
  induction seqs as [|s seqs IH]; simpl; [reflexivity|].
  inversion F as [|? ? Hs F']; subst. rewrite (IH F'). f_equal.
  destruct s as [ms lnk]. simpl. rewrite (san_keeps_lemma notes ms lnk Hs). simpl.
  rewrite filter_all_true; [reflexivity|]. intros; reflexivity.
Qed.

(* the boundary (known finding C11-K3): a sequence without main note and without a note of its
   voice at its time loses its members *)
Lemma sanitize_orphan_refuted_lemma :
  exists notes seqs, grace_rows_after notes seqs <> grace_rows seqs.
Proof.
  exists [(0, 4, 1)], [([(0, 4, 2)], None)]. vm_compute. discriminate.
Qed.

(* the case of seed d: two chained grace notes, the last one without main note, a note of their voice
   at their time: both are kept and get that note *)
Lemma sanitize_chain_of_two_example :
  san_members [(7, 4, 1)] [(0, 4, 1); (1, 4, 1)] None = ([], Some 7).
Proof. reflexivity. Qed.

(* ------------------------------------------------------------------ sanitize_part: ties *)

Lemma contiguous_span_aux : forall r p, contiguous (p :: r) -> snd (List.last r p) - fst p = total_dur (p :: r).
Proof.
  induction r as [|q r IH]; intros p C.
  - simpl. lia.
  - rewrite last_cons. destruct C as [E C]. specialize (IH q C).
    change (total_dur (p :: q :: r)) with ((snd p - fst p) + total_dur (q :: r)). lia.
Qed.

Lemma contiguous_span : forall ps, contiguous ps -> ps <> [] -> end_of ps - onset_of ps = total_dur ps.
Proof.
  intros [|p r] C N; [congruence|]. unfold end_of, onset_of. apply contiguous_span_aux. exact C.
Qed.

Lemma sanitize_chain_contiguous_lemma tol p v st ps :
  0 <= tol -> contiguous ps -> sanitize_chain tol (p, v, st, ps) = [(p, v, st, ps)].
Proof.
  intros Ht C. unfold sanitize_chain.
  destruct ps as [|a [|b r]]; try reflexivity.
  unfold chain_span_ok. rewrite (contiguous_span _ C ltac:(discriminate)).
  replace (total_dur (a :: b :: r) - total_dur (a :: b :: r)) with 0 by lia.
  simpl Z.abs. destruct (0 <=? tol) eqn:E; [reflexivity|lia].
Qed.

(* after tie_notes, sanitize_part leaves every chain (that was contiguous before) as it is *)
Lemma sanitize_after_tie_lemma tol bars dm p v st ps :
  0 <= tol -> contiguous ps ->
  sanitize_chain tol (tie_chain_dm bars dm (p, v, st, ps)) = [tie_chain_dm bars dm (p, v, st, ps)].
Proof.
  intros Ht C. simpl. apply sanitize_chain_contiguous_lemma; [assumption|]. apply tie_contiguous_dm. exact C.
Qed.

Lemma sanitize_chains_rows_lemma tol cs :
  0 <= tol -> Forall (fun c => contiguous (snd c)) cs -> sanitize_chains tol cs = cs.
Proof.
  intros Ht F. unfold sanitize_chains. induction cs as [|c cs IH]; simpl; [reflexivity|].
  inversion F as [|? ? Hc F']; subst. rewrite (IH F').
  destruct c as [[[p v] st] ps]. simpl in Hc.
  rewrite (sanitize_chain_contiguous_lemma tol p v st ps Ht Hc). reflexivity.
Qed.

(* what is left after sanitize_part: single notes, and chains whose extent equals their summed duration
   up to the tolerance *)
Lemma sanitize_chain_result_lemma tol c c' :
  In c' (sanitize_chain tol c) ->
  (List.length (snd c') <= 1)%nat \/ chain_span_ok tol (snd c') = true.
Proof.
  destruct c as [[[p v] st] ps]. unfold sanitize_chain.
  destruct ps as [|a [|b r]].
  - intros [<-|[]]. left. simpl. lia.
  - intros [<-|[]]. left. simpl. lia.
  - destruct (chain_span_ok tol (a :: b :: r)) eqn:E.
    + intros [<-|[]]. right. exact E.
    + intros H. apply in_map_iff in H as (q & <- & _). left. simpl. lia.
Qed.
