(* C09 -- proofs about the variant construction (ScoreVariant.create_variant_part model). *)
From PV Require Import Lib.Base Model.C09 Proofs.C09.
From Coq Require Import ZArith List Bool Lia.
Import ListNotations.
#[local] Open Scope Z_scope.

(* visits with their index and offset *)
Fixpoint with_off (vs : list (Z * Z)) (k off : Z) : list (Z * Z * Z * Z) :=
  match vs with
  | [] => []
  | (s, e) :: r => (k, s, e, off) :: with_off r (k + 1) (off + (e - s))
  end.

Definition is_notecls (c : Z) : bool := (c =? cls_note) || (c =? cls_rest) || (c =? cls_grace).

(* n is the copy made in visit v = (k, s, e, off) of an original object o: same identity, class
   and attributes (pitch, voice, staff), start and end shifted by off - s; either a regular copy
   of an object starting inside [s, e), or the extra copy of a fermata sitting at e *)
Definition origin (objs : list obj) (v : Z * Z * Z * Z) (n : nobj) : Prop :=
  let '(k, s, e, off) := v in
  exists o, In o objs /\ n_id n = o_id o /\ n_cls n = o_cls o /\ n_visit n = k /\
    n_start n = o_start o + (off - s) /\ n_end n = shift_opt (off - s) (o_end o) /\
    n_attrs n = o_attrs o /\ is_skip (o_cls o) = false /\
    ((n_extra n = false /\ in_seg s e o = true) \/
     (n_extra n = true /\ o_cls o = cls_fermata /\ o_start o = e)).

(* ------------------------------------------------------------------ *)
(* replace_refs touches only the references *)

Lemma rr_fields k c n :
  let m := replace_refs k c n in
  n_id m = n_id n /\ n_cls m = n_cls n /\ n_visit m = n_visit n /\ n_start m = n_start n /\
  n_end m = n_end n /\ n_attrs m = n_attrs n /\ n_extra m = n_extra n /\ n_sig m = n_sig n.
Proof. unfold replace_refs. destruct (n_extra n || negb (n_visit n =? k)); simpl; repeat split. Qed.

Lemma rr_other k c n : n_visit n <> k -> replace_refs k c n = n.
Proof.
  intros H. unfold replace_refs. destruct (n_visit n =? k) eqn:E; [lia|].
  rewrite orb_true_r. reflexivity.
Qed.

Lemma rr_extra k c n : n_extra n = true -> replace_refs k c n = n.
Proof. intros H. unfold replace_refs. rewrite H. reflexivity. Qed.

Lemma origin_rr objs v k c n : origin objs v n -> origin objs v (replace_refs k c n).
Proof.
  destruct v as [[[k0 s] e] off]. intros (o & H). exists o.
  destruct (rr_fields k c n) as (-> & -> & -> & -> & -> & -> & -> & _). exact H.
Qed.

(* ------------------------------------------------------------------ *)
(* the first pass of a visit *)

Lemma copy_fold k s e d objs : forall acc,
  exists news, fold_left (copy_step k s e d) objs acc = acc ++ news /\
    (forall n, In n news -> exists o, In o objs /\ in_seg s e o = true /\ is_skip (o_cls o) = false /\
                                      n = raw_copy k d false o) /\
    (forall o, In o objs -> in_seg s e o = true -> is_skip (o_cls o) = false -> is_sigcls (o_cls o) = false ->
               In (raw_copy k d false o) news).
Proof.
  induction objs as [|o r IH]; intros acc.
  - exists []. rewrite app_nil_r. simpl. repeat split; intros; contradiction.
  - simpl. unfold copy_step at 2.
    destruct (in_seg s e o) eqn:Ei; simpl.
    2:{ destruct (IH acc) as (news & E & H1 & H2). exists news. split; [auto|]. split.
        - intros n Hn. destruct (H1 n Hn) as (o' & ? & ?). exists o'. split; [right; auto|auto].
        - intros o' [<-|Ho] Hi; [congruence|]. auto. }
    destruct (is_skip (o_cls o)) eqn:Es; simpl.
    { destruct (IH acc) as (news & E & H1 & H2). exists news. split; [auto|]. split.
      - intros n Hn. destruct (H1 n Hn) as (o' & ? & ?). exists o'. split; [right; auto|auto].
      - intros o' [<-|Ho] Hi Hs; [congruence|]. auto. }
    destruct (is_sigcls (o_cls o) &&
              match prev_of (o_cls o) (o_start o + d) acc with Some p => n_sig p =? o_sig o | None => false end) eqn:Eg.
    { destruct (IH acc) as (news & E & H1 & H2). exists news. split; [auto|]. split.
      - intros n Hn. destruct (H1 n Hn) as (o' & ? & ?). exists o'. split; [right; auto|auto].
      - intros o' [<-|Ho] Hi Hs Hg; [rewrite Hg in Eg; discriminate|]. auto. }
    destruct (IH (acc ++ [raw_copy k d false o])) as (news & E & H1 & H2).
    exists (raw_copy k d false o :: news). split; [rewrite E, <- app_assoc; reflexivity|]. split.
    + intros n [<-|Hn]; [exists o; repeat split; auto; left; auto|].
      destruct (H1 n Hn) as (o' & ? & ?). exists o'. split; [right; auto|auto].
    + intros o' [<-|Ho] Hi Hs Hg; [left; auto|right; auto].
Qed.

Lemma raw_origin objs k s e off o :
  In o objs -> in_seg s e o = true -> is_skip (o_cls o) = false ->
  origin objs (k, s, e, off) (raw_copy k (off - s) false o).
Proof. intros. exists o. simpl. repeat split; auto. Qed.

Lemma extra_origin objs k s e off n :
  In n (fermata_extras k e (off - s) objs) -> origin objs (k, s, e, off) n.
Proof.
  unfold fermata_extras. intros H. apply in_map_iff in H as (o & <- & Ho).
  apply filter_In in Ho as [Ho Hc].
  apply andb_true_iff in Hc as [Hc _]. apply andb_true_iff in Hc as [Hc He].
  apply Z.eqb_eq in Hc, He. exists o. simpl. repeat split; auto.
  rewrite Hc. reflexivity.
Qed.

(* elements of the result of one visit *)
Lemma visit_elems objs k s e off acc n :
  In n (visit objs k s e off acc) ->
  (exists m, In m acc /\ n = replace_refs k (map n_id (filter (fun n => (n_visit n =? k) && negb (n_extra n))
             (fold_left (copy_step k s e (off - s)) objs acc))) m) \/
  origin objs (k, s, e, off) n.
Proof.
  unfold visit. intros H. apply in_map_iff in H as (m & <- & Hm).
  destruct (copy_fold k s e (off - s) objs acc) as (news & E & H1 & _).
  rewrite E in *. apply in_app_or in Hm as [Hm|Hm].
  - apply in_app_or in Hm as [Hm|Hm].
    + left. exists m. split; auto.
    + right. apply origin_rr. destruct (H1 m Hm) as (o & Ho & Hi & Hs & ->). apply raw_origin; auto.
  - right. apply origin_rr. apply extra_origin; auto.
Qed.

(* ------------------------------------------------------------------ *)
(* every object of the variant is the shifted copy of an original object in some visit *)

Lemma variant_go_origin objs : forall vs k off acc (Q : nobj -> Prop),
  (forall n k c, Q n -> Q (replace_refs k c n)) ->
  (forall n, In n acc -> Q n) ->
  forall n, In n (variant_go objs vs k off acc) ->
    Q n \/ exists v, In v (with_off vs k off) /\ origin objs v n.
Proof.
  induction vs as [|[s e] r IH]; intros k off acc Q HQ Hacc n Hn; simpl in *.
  - left; auto.
  - set (Q' := fun n => Q n \/ origin objs (k, s, e, off) n).
    assert (HQ' : forall n k c, Q' n -> Q' (replace_refs k c n)).
    { intros m k' c [H|H]; [left; auto|right; apply origin_rr; auto]. }
    assert (Hacc' : forall m, In m (visit objs k s e off acc) -> Q' m).
    { intros m Hm. apply visit_elems in Hm as [(m0 & Hm0 & ->)|Hm]; [left; auto|right; auto]. }
    destruct (IH (k + 1) (off + (e - s)) _ Q' HQ' Hacc' n Hn) as [[H|H]|(v & Hv & H)].
    + left; auto.
    + right. exists (k, s, e, off). split; [left; auto|auto].
    + right. exists v. split; [right; auto|auto].
Qed.

Theorem variant_origin_raw : forall objs vs n, In n (variant_raw objs vs) ->
  exists v, In v (with_off vs 0 0) /\ origin objs v n.
Proof.
  intros objs vs n Hn. unfold variant_raw in Hn.
  assert (H : False \/ exists v, In v (with_off vs 0 0) /\ origin objs v n).
  { apply (variant_go_origin objs vs 0 0 [] (fun _ => False)); auto. }
  destruct H as [[]|H]; auto.
Qed.

(* no repeat/ending brackets, jump instructions (or segments, systems, pages) remain *)
Theorem variant_no_nav_raw : forall objs vs n, In n (variant_raw objs vs) -> is_skip (n_cls n) = false.
Proof.
  intros objs vs n Hn. destruct (variant_origin_raw _ _ _ Hn) as ([[[k s] e] off] & _ & o & _ & _ & Hc & _ & _ & _ & _ & Hs & _).
  rewrite Hc. exact Hs.
Qed.

(* ------------------------------------------------------------------ *)
(* positions: every copy lies inside its visit's window, windows tile [0, total_len) *)

Lemma with_off_bounds : forall vs k off v,
  Forall (fun v => fst v <= snd v) vs -> In v (with_off vs k off) ->
  let '(_, s, e, o) := v in off <= o /\ o + (e - s) <= off + total_len vs /\ s <= e.
Proof.
  induction vs as [|[s e] r IH]; intros k off v Hf Hv; simpl in *; [contradiction|].
  inversion Hf as [|? ? Hse Hr]; subst. simpl in Hse.
  destruct Hv as [<-|Hv].
  - assert (0 <= total_len r).
    { clear -Hr. induction r as [|[a b] r IH]; simpl; [lia|]. inversion Hr; subst. simpl in *. specialize (IH H2). lia. }
    lia.
  - specialize (IH _ _ _ Hr Hv). destruct v as [[[k' s'] e'] o']. lia.
Qed.

Theorem variant_positions_raw : forall objs vs n,
  Forall (fun v => fst v <= snd v) vs -> In n (variant_raw objs vs) ->
  0 <= n_start n <= total_len vs.
Proof.
  intros objs vs n Hf Hn.
  destruct (variant_origin_raw _ _ _ Hn) as ([[[k s] e] off] & Hv & o & _ & _ & _ & _ & Hst & _ & _ & _ & Hk).
  pose proof (with_off_bounds _ _ _ _ Hf Hv) as Hb. simpl in Hb.
  destruct Hk as [[_ Hi]|[_ [_ He]]].
  - unfold in_seg in Hi. apply andb_true_iff in Hi as [H1 H2]. lia.
  - lia.
Qed.

(* when no copied object sticks out of its segment, no copy ends after the sum of the lengths *)
Definition contained (objs : list obj) (vs : list (Z * Z)) : Prop :=
  forall o s e x, In o objs -> In (s, e) vs -> in_seg s e o = true -> is_skip (o_cls o) = false ->
                  o_end o = Some x -> x <= e.

Lemma with_off_In : forall vs k off v, In v (with_off vs k off) ->
  let '(_, s, e, _) := v in In (s, e) vs.
Proof.
  induction vs as [|[s e] r IH]; intros k off v Hv; simpl in *; [contradiction|].
  destruct Hv as [<-|Hv]; [left; auto|].
  specialize (IH _ _ _ Hv). destruct v as [[[? ?] ?] ?]. right; auto.
Qed.

Theorem variant_ends_raw : forall objs vs n x,
  Forall (fun v => fst v <= snd v) vs -> contained objs vs ->
  In n (variant_raw objs vs) -> n_end n = Some x -> n_start n <= total_len vs /\ x <= total_len vs \/ n_extra n = true.
Proof.
  intros objs vs n x Hf Hc Hn Hx.
  destruct (variant_origin_raw _ _ _ Hn) as ([[[k s] e] off] & Hv & o & Ho & _ & _ & _ & Hst & Hen & _ & Hs & Hk).
  pose proof (with_off_bounds _ _ _ _ Hf Hv) as Hb. simpl in Hb.
  pose proof (with_off_In _ _ _ _ Hv) as Hin. simpl in Hin.
  destruct Hk as [[_ Hi]|[He _]]; [left|right; auto].
  rewrite Hx in Hen. destruct (o_end o) as [y|] eqn:Ey; simpl in Hen; [|discriminate].
  injection Hen as ->. specialize (Hc o s e y Ho Hin Hi Hs Ey).
  unfold in_seg in Hi. apply andb_true_iff in Hi as [H1 H2]. lia.
Qed.

(* ------------------------------------------------------------------ *)
(* notes: exactly the shifted copies per visit, in visit order *)

Definition note_view (n : nobj) := (n_id n, n_start n, n_end n, n_attrs n).
Definition note_copy (d : Z) (o : obj) := (o_id o, o_start o + d, shift_opt d (o_end o), o_attrs o).

Definition expected_notes (objs : list obj) (vs : list (Z * Z)) (k off : Z) :=
  flat_map (fun v => let '(_, s, e, o) := v in
                     map (note_copy (o - s)) (filter (fun ob => in_seg s e ob && is_notecls (o_cls ob)) objs))
           (with_off vs k off).

Definition notes_of (l : list nobj) := map note_view (filter (fun n => is_notecls (n_cls n)) l).

Lemma notecls_plain c : is_notecls c = true -> is_skip c = false /\ is_sigcls c = false /\ c <> cls_fermata.
Proof.
  unfold is_notecls. intros H.
  apply orb_true_iff in H as [H|H]; [apply orb_true_iff in H as [H|H]|]; apply Z.eqb_eq in H; subst c;
    repeat split; try reflexivity; discriminate.
Qed.

Lemma notes_copy_fold k s e d objs : forall acc,
  notes_of (fold_left (copy_step k s e d) objs acc) =
  notes_of acc ++ map (note_copy d) (filter (fun ob => in_seg s e ob && is_notecls (o_cls ob)) objs).
Proof.
  induction objs as [|o r IH]; intros acc; simpl; [rewrite app_nil_r; auto|].
  rewrite IH. unfold copy_step.
  destruct (in_seg s e o) eqn:Ei; simpl; [|reflexivity].
  destruct (is_notecls (o_cls o)) eqn:En.
  - destruct (notecls_plain _ En) as (Hs & Hg & _). rewrite Hs, Hg. simpl.
    unfold notes_of. rewrite filter_app, map_app. simpl. rewrite En. simpl.
    rewrite <- app_assoc. reflexivity.
  - destruct (is_skip (o_cls o)); simpl; [reflexivity|].
    destruct (is_sigcls (o_cls o) && _); [reflexivity|].
    unfold notes_of. rewrite filter_app, map_app. simpl. rewrite En. simpl. rewrite app_nil_r. reflexivity.
Qed.

Lemma notes_of_map_rr k c l : notes_of (map (replace_refs k c) l) = notes_of l.
Proof.
  unfold notes_of. induction l as [|n l IH]; simpl; [auto|].
  destruct (rr_fields k c n) as (Hi & Hc & _ & Hs & He & Ha & _). rewrite Hc.
  destruct (is_notecls (n_cls n)); simpl; [|auto]. rewrite IH. f_equal.
  unfold note_view. rewrite Hi, Hs, He, Ha. reflexivity.
Qed.

Lemma notes_of_extras k e d objs : notes_of (fermata_extras k e d objs) = [].
Proof.
  unfold notes_of, fermata_extras. induction objs as [|o r IH]; simpl; [auto|].
  destruct ((o_cls o =? cls_fermata) && (o_start o =? e) && (o_sig o =? 1)) eqn:E; [|auto].
  simpl. apply andb_true_iff in E as [E _]. apply andb_true_iff in E as [E _]. apply Z.eqb_eq in E.
  rewrite E. simpl. auto.
Qed.

Lemma notes_variant_go objs : forall vs k off acc,
  notes_of (variant_go objs vs k off acc) = notes_of acc ++ expected_notes objs vs k off.
Proof.
  induction vs as [|[s e] r IH]; intros k off acc; simpl.
  - unfold expected_notes. simpl. rewrite app_nil_r. reflexivity.
  - rewrite IH. unfold visit. rewrite notes_of_map_rr.
    unfold notes_of at 1. rewrite filter_app, map_app. fold (notes_of (fermata_extras k e (off - s) objs)).
    rewrite notes_of_extras, app_nil_r.
    fold (notes_of (fold_left (copy_step k s e (off - s)) objs acc)).
    rewrite notes_copy_fold. unfold expected_notes. simpl. rewrite <- app_assoc. reflexivity.
Qed.

Theorem variant_notes_raw : forall objs vs,
  notes_of (variant_raw objs vs) = expected_notes objs vs 0 0.
Proof. intros. unfold variant_raw. rewrite notes_variant_go. reflexivity. Qed.

(* ------------------------------------------------------------------ *)
(* references stay inside the copy *)

(* every reference of n is None or a regular copy, present in l, made in n's own visit *)
Definition closed_in (l : list nobj) (n : nobj) : Prop :=
  forall a tg t, In (a, tg) (n_refs n) -> In t tg ->
    t = None \/ exists i, t = Some (i, n_visit n) /\
                          exists m, In m l /\ n_id m = i /\ n_visit m = n_visit n /\ n_extra m = false.

Definition ident3 (n m : nobj) : Prop := n_id n = n_id m /\ n_visit n = n_visit m /\ n_extra n = n_extra m.

Lemma closed_in_mono l l' n :
  (forall m, In m l -> exists m', In m' l' /\ ident3 m' m) -> closed_in l n -> closed_in l' n.
Proof.
  intros H Hc a tg t Ha Ht. destruct (Hc a tg t Ha Ht) as [->|(i & -> & m & Hm & H1 & H2 & H3)]; [left; auto|].
  right. exists i. split; [auto|]. destruct (H m Hm) as (m' & Hm' & (E1 & E2 & E3)).
  exists m'. repeat split; auto; congruence.
Qed.

Lemma zmem_In x l : zmem x l = true -> In x l.
Proof.
  induction l as [|y l IH]; simpl; [discriminate|]. intros H. apply orb_true_iff in H as [H|H].
  - apply Z.eqb_eq in H. left; auto.
  - right; auto.
Qed.

(* after replace_refs k, an object of visit k is closed in any list holding the copied objects *)
Lemma rr_closed k copied l n :
  n_visit n = k -> n_extra n = false ->
  (forall i, In i copied -> exists m, In m l /\ n_id m = i /\ n_visit m = k /\ n_extra m = false) ->
  closed_in l (replace_refs k copied n).
Proof.
  intros Hk He Hcop a tg t Ha Ht.
  destruct (rr_fields k copied n) as (_ & _ & Hv & _). rewrite Hv, Hk.
  unfold replace_refs in Ha. rewrite He, Hk, Z.eqb_refl in Ha. simpl in Ha.
  apply in_map_iff in Ha as ([a0 tg0] & E & _). unfold replace_ref in E. simpl in E.
  injection E as <- <-.
  assert (Hin : In t (map (fun t0 => match t0 with
                                     | Some (i, _) => if zmem i copied then Some (i, k) else None
                                     | None => None end) tg0)).
  { match type of Ht with In _ (if ?c then _ else _) => destruct c end;
      [apply filter_In in Ht as [Ht _]|]; exact Ht. }
  apply in_map_iff in Hin as (t0 & <- & _).
  destruct t0 as [[i v]|]; [|left; auto].
  destruct (zmem i copied) eqn:Ez; [|left; auto].
  right. exists i. split; [auto|]. apply Hcop. apply zmem_In; auto.
Qed.

(* invariant of the visit loop: regular objects in acc belong to earlier visits and are closed *)
Definition refs_inv (k : Z) (acc : list nobj) : Prop :=
  forall n, In n acc -> n_visit n < k /\ (n_extra n = false -> closed_in acc n).

Lemma visit_refs_inv objs k s e off acc :
  refs_inv k acc -> refs_inv (k + 1) (visit objs k s e off acc).
Proof.
  intros Hinv n Hn. unfold visit in *.
  set (acc1 := fold_left (copy_step k s e (off - s)) objs acc) in *.
  set (copied := map n_id (filter (fun n => (n_visit n =? k) && negb (n_extra n)) acc1)) in *.
  set (res := map (replace_refs k copied) (acc1 ++ fermata_extras k e (off - s) objs)) in *.
  destruct (copy_fold k s e (off - s) objs acc) as (news & E & H1 & _). fold acc1 in E.
  (* every element of the pre-image keeps its identity in res *)
  assert (Hkeep : forall m, In m (acc1 ++ fermata_extras k e (off - s) objs) ->
                            exists m', In m' res /\ ident3 m' m).
  { intros m Hm. exists (replace_refs k copied m). split; [apply in_map; auto|].
    destruct (rr_fields k copied m) as (? & _ & ? & _ & _ & _ & ? & _). repeat split; auto. }
  assert (Hcop : forall i, In i copied -> exists m, In m res /\ n_id m = i /\ n_visit m = k /\ n_extra m = false).
  { intros i Hi. unfold copied in Hi. apply in_map_iff in Hi as (m & <- & Hm).
    apply filter_In in Hm as [Hm Hc]. apply andb_true_iff in Hc as [Hc1 Hc2].
    apply Z.eqb_eq in Hc1. apply negb_true_iff in Hc2.
    destruct (Hkeep m) as (m' & Hm' & (E1 & E2 & E3)); [apply in_or_app; left; auto|].
    exists m'. repeat split; auto; congruence. }
  apply in_map_iff in Hn as (m & <- & Hm).
  destruct (rr_fields k copied m) as (_ & _ & Hv & _ & _ & _ & Hx & _). rewrite Hv, Hx.
  apply in_app_or in Hm as [Hm|Hm].
  - rewrite E in Hm. apply in_app_or in Hm as [Hm|Hm].
    + (* old object: untouched, still closed *)
      destruct (Hinv m Hm) as [Hlt Hcl]. split; [lia|]. intros Hex.
      rewrite rr_other by lia.
      eapply closed_in_mono; [|apply Hcl; auto].
      intros m0 Hm0. apply Hkeep. apply in_or_app; left. rewrite E. apply in_or_app; left; auto.
    + (* new regular copy of this visit *)
      destruct (H1 m Hm) as (o & _ & _ & _ & ->). simpl. split; [lia|]. intros _.
      apply rr_closed; auto.
  - (* fermata extra *)
    unfold fermata_extras in Hm. apply in_map_iff in Hm as (o & <- & _). simpl. split; [lia|]. discriminate.
Qed.

Lemma variant_go_refs objs : forall vs k off acc,
  refs_inv k acc -> exists k', refs_inv k' (variant_go objs vs k off acc).
Proof.
  induction vs as [|[s e] r IH]; intros k off acc H; simpl; [exists k; auto|].
  apply IH. apply visit_refs_inv; auto.
Qed.

Theorem variant_refs_closed_raw : forall objs vs n,
  In n (variant_raw objs vs) -> n_extra n = false -> closed_in (variant_raw objs vs) n.
Proof.
  intros objs vs n Hn He. unfold variant_raw in *.
  destruct (variant_go_refs objs vs 0 0 []) as (k' & H); [intros m []|].
  destruct (H n Hn) as [_ Hc]. auto.
Qed.

(* the extra copies are fermatas only (they carry no references in partitura) *)
Theorem variant_extras_raw : forall objs vs n,
  In n (variant_raw objs vs) -> n_extra n = true -> n_cls n = cls_fermata.
Proof.
  intros objs vs n Hn He.
  destruct (variant_origin_raw _ _ _ Hn) as ([[[k s] e] off] & _ & o & _ & _ & Hc & _ & _ & _ & _ & _ & Hk).
  destruct Hk as [[H _]|[_ [H _]]]; congruence.
Qed.

(* ------------------------------------------------------------------ *)
(* every regular object of a visited segment that is not a navigation class or a signature/clef
   is present (once per visit) *)
Lemma visit_keeps objs k s e off acc m :
  In m acc -> exists m', In m' (visit objs k s e off acc) /\ ident3 m' m /\ n_start m' = n_start m /\ n_end m' = n_end m /\ n_cls m' = n_cls m.
Proof.
  intros Hm. unfold visit.
  destruct (copy_fold k s e (off - s) objs acc) as (news & E & _). rewrite E.
  eexists. split; [apply in_map; apply in_or_app; left; apply in_or_app; left; exact Hm|].
  destruct (rr_fields k (map n_id (filter (fun n => (n_visit n =? k) && negb (n_extra n)) (acc ++ news))) m)
    as (? & ? & ? & ? & ? & _ & ? & _).
  repeat split; auto.
Qed.

Lemma variant_go_keeps objs : forall vs k off acc m,
  In m acc -> exists m', In m' (variant_go objs vs k off acc) /\ ident3 m' m /\ n_start m' = n_start m /\ n_end m' = n_end m /\ n_cls m' = n_cls m.
Proof.
  induction vs as [|[s e] r IH]; intros k off acc m Hm; simpl.
  - exists m. repeat split; auto.
  - destruct (visit_keeps objs k s e off acc m Hm) as (m1 & H1 & (A1 & A2 & A3) & B1 & B2 & B3).
    destruct (IH (k + 1) (off + (e - s)) _ m1 H1) as (m2 & H2 & (C1 & C2 & C3) & D1 & D2 & D3).
    exists m2. repeat split; auto; congruence.
Qed.

Lemma variant_go_present objs o : forall vs k off acc v,
  In o objs -> is_skip (o_cls o) = false -> is_sigcls (o_cls o) = false ->
  In v (with_off vs k off) -> (let '(_, s, e, _) := v in in_seg s e o = true) ->
  let '(kv, s, e, ov) := v in
  exists n, In n (variant_go objs vs k off acc) /\ n_id n = o_id o /\ n_visit n = kv /\ n_extra n = false /\
            n_cls n = o_cls o /\ n_start n = o_start o + (ov - s) /\ n_end n = shift_opt (ov - s) (o_end o).
Proof.
  induction vs as [|[s e] r IH]; intros k off acc v Ho Hs Hg Hv Hi; simpl in *; [contradiction|].
  destruct Hv as [<-|Hv].
  - destruct (copy_fold k s e (off - s) objs acc) as (news & E & _ & H2).
    specialize (H2 o Ho Hi Hs Hg).
    assert (Hin : In (replace_refs k (map n_id (filter (fun n => (n_visit n =? k) && negb (n_extra n)) (acc ++ news)))
                                   (raw_copy k (off - s) false o)) (visit objs k s e off acc)).
    { unfold visit. rewrite E. apply in_map. apply in_or_app; left. apply in_or_app; right; auto. }
    destruct (variant_go_keeps objs r (k + 1) (off + (e - s)) _ _ Hin) as (m & Hm & (A1 & A2 & A3) & B1 & B2 & B3).
    match type of Hin with In (replace_refs ?kk ?cc ?nn) _ =>
      destruct (rr_fields kk cc nn) as (F1 & F2 & F3 & F4 & F5 & _ & F7 & _) end.
    exists m. split; [auto|]. simpl in *. repeat split; congruence.
  - specialize (IH (k + 1) (off + (e - s)) (visit objs k s e off acc) v Ho Hs Hg Hv Hi).
    destruct v as [[[kv sv] ev] ov]. exact IH.
Qed.

(* a part without repeat structure: one segment, one path, the variant is the shifted copy of
   the whole: the notes are exactly the original's notes moved by -first *)
Theorem identity_notes_raw : forall objs first last,
  notes_of (variant_raw objs [(first, last)]) =
  map (note_copy (0 - first)) (filter (fun ob => in_seg first last ob && is_notecls (o_cls ob)) objs).
Proof.
  intros. rewrite variant_notes_raw. unfold expected_notes. simpl. rewrite app_nil_r. reflexivity.
Qed.

(* id suffixes: the copies of one note get 1, 2, 3 ... in the order of the visits that contain it *)
Lemma id_suffix_pos all n : is_pitched (n_cls n) = true -> 1 <= id_suffix all n.
Proof. intros H. unfold id_suffix. rewrite H. lia. Qed.

