(* C14 -- the order in which the notes are listed does not matter: in any permutation of the note list
   every note keeps its sounding end (quantifier: "unsorted order").  Derived from the specification
   theorem: the specified end of a note depends on the other notes only through which notes there are. *)
From PV Require Import Lib.Base Lib.Round Model.C12 Model.C14 Model.C14_Spec Proofs.C14_lib Proofs.C14_pedal Proofs.C14_so Proofs.C14_spec Proofs.C14.
From Coq Require Import QArith Qminmax List Bool Lia Lqa Permutation.
#[local] Open Scope Q_scope.

Lemma pedal_down_dec thr cs x : distinct_pedal_times cs -> pedal_down_before thr cs x \/ ~ pedal_down_before thr cs x.
Proof.
  intros D. destruct (state_before false (map (pedal_row thr) (sorted_pedal cs)) x) eqn:E.
  - left. apply state_before_down. exact E.
  - right. apply state_before_up; assumption.
Qed.

Lemma closing_moment_perm ns ns' cs t : Permutation ns ns' -> closing_moment ns cs t -> closing_moment ns' cs t.
Proof.
  intros P (H1 & H2 & H3). split; [exact H1|]. split.
  - intros n Hn. apply H2. apply (Permutation_in n (Permutation_sym P)). exact Hn.
  - destruct H3 as [H3|(n & Hn & E)]; [left; exact H3|]. right. exists n. split; [|exact E].
    apply (Permutation_in n P). exact Hn.
Qed.

Lemma end_candidate_perm thr ns ns' cs i i' n t :
  Permutation ns ns' -> no_zero_length_tie ns' -> n_on n <= n_off n ->
  nth_error ns i = Some n -> nth_error ns' i' = Some n ->
  end_candidate thr ns' cs i' n t -> end_candidate thr ns cs i n t.
Proof.
  intros P T Hle Hi Hi' (Hge & C). split; [exact Hge|].
  destruct C as [C|[C|(j & m & Hj & Hm & Hp & Ho)]].
  - left. exact C.
  - right. left. apply (closing_moment_perm ns' ns cs t (Permutation_sym P)). exact C.
  - right. right.
    assert (Hin : In m ns). { apply (Permutation_in m (Permutation_sym P)). eapply nth_error_In. exact Hm. }
    apply In_nth_error in Hin as [j2 Hj2]. exists j2, m. split; [|auto].
    intros ->. assert (m = n) by congruence. subst m.
    assert (Hz : n_on n == n_off n) by lra.
    apply (T i' n j n); auto. reflexivity.
Qed.

Lemma note_order_irrelevant_lemma thr ns ns' cs :
  Permutation ns ns' -> distinct_pedal_times cs ->
  no_zero_length_tie ns -> no_zero_length_tie ns' -> released_after_onset ns ->
  forall i i' n s s', nth_error ns i = Some n -> nth_error ns' i' = Some n ->
  nth_error (sound_offs thr ns cs) i = Some s -> nth_error (sound_offs thr ns' cs) i' = Some s' -> s == s'.
Proof.
  intros P D T T' R i i' n s s' Hi Hi' Hs Hs'.
  assert (R' : released_after_onset ns').
  { intros m Hm. apply R. apply (Permutation_in m (Permutation_sym P)). exact Hm. }
  destruct (sound_off_is_spec_lemma thr ns cs D T R i n Hi) as (x & Ex & (U & Dn)).
  destruct (sound_off_is_spec_lemma thr ns' cs D T' R' i' n Hi') as (x' & Ex' & (U' & Dn')).
  assert (x = s) by congruence. assert (x' = s') by congruence. subst x x'.
  assert (Hle : n_on n <= n_off n) by (apply R; eapply nth_error_In; exact Hi).
  destruct (pedal_down_dec thr cs (n_off n) D) as [Pd|Pu].
  - destruct (Dn Pd) as (C & L). destruct (Dn' Pd) as (C' & L').
    assert (s <= s') by (apply L; apply (end_candidate_perm thr ns ns' cs i i' n s' P T' Hle Hi Hi' C')).
    assert (s' <= s) by (apply L'; apply (end_candidate_perm thr ns' ns cs i' i n s (Permutation_sym P) T Hle Hi' Hi C)).
    lra.
  - rewrite (U Pu), (U' Pu). reflexivity.
Qed.

(* non-vacuity: the worked example of the specification theorem, listed backwards *)
Lemma note_order_example_lemma :
  Permutation ex_notes (rev ex_notes) /\ no_zero_length_tie (rev ex_notes) /\
  sound_offs 64 ex_notes ex_ctrls = [3; 5; 6] /\ sound_offs 64 (rev ex_notes) ex_ctrls = [6; 5; 3].
Proof.
  split; [apply Permutation_rev|]. split.
  - intros i n j m Hij Hn Hm Hp Hz.
    destruct i as [|[|[|i]]]; vm_compute in Hn;
      [injection Hn as <-; vm_compute in Hz; discriminate Hz ..|destruct i; discriminate Hn].
  - vm_compute. split; reflexivity.
Qed.
