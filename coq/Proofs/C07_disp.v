(* C07 -- proofs about the regular-expression matcher, the dispatch over the ordered parser lists
   and the version detection of Model/C07_Disp.v *)
From PV Require Import Lib.Base Model.C07 Model.C07_Disp Proofs.C07_lib Proofs.C07 Gen.C07_Schemas Gen.C07_Parsers.
From Coq Require Import Ascii.
#[local] Open Scope string_scope.
#[local] Open Scope Z_scope.

(* ------------------------------------------------------------------ what a match is (specification) *)

(* [rmatch pat s gs rest]: s = (a text matched by pat, with the groups gs) ++ rest *)
Inductive rmatch : rpat -> string -> list string -> string -> Prop :=
| rm_nil s : rmatch [] s [] s
| rm_lit l r s gs rest : rmatch r s gs rest -> rmatch (RLit l :: r) (l ++ s) gs rest
| rm_dot c r s gs rest : rmatch r s gs rest -> rmatch (RDot :: r) (String c s) gs rest
| rm_grp cl m r g s gs rest :
    all_chars (rc_in cl) g = true -> (m <= String.length g)%nat -> rmatch r s gs rest ->
    rmatch (RGrp cl m :: r) (g ++ s) (g :: gs) rest.

Definition occurs (l s : string) : Prop := exists a b, s = a ++ l ++ b.
Definition starts_with (l s : string) : Prop := exists b, s = l ++ b.

(* ------------------------------------------------------------------ strings *)

Lemma stake_sdrop k s : stake k s ++ sdrop k s = s.
Proof. revert s; induction k as [|k IH]; intros [|c s]; simpl; auto. rewrite IH. reflexivity. Qed.

Lemma stake_length k s : (k <= String.length s)%nat -> String.length (stake k s) = k.
Proof.
  revert s; induction k as [|k IH]; intros [|c s]; simpl; intros H; auto; try lia.
  rewrite IH; lia.
Qed.

Lemma run_len_le p s : (run_len p s <= String.length s)%nat.
Proof. induction s as [|c s IH]; simpl; auto. destruct (p c); simpl; lia. Qed.

Lemma stake_run p s k : (k <= run_len p s)%nat -> all_chars p (stake k s) = true.
Proof.
  revert s; induction k as [|k IH]; intros [|c s]; simpl; intros H; auto.
  destruct (p c) eqn:E; [|lia]. simpl. apply IH. simpl in H. lia.
Qed.

Lemma run_len_app p g s : all_chars p g = true -> (String.length g <= run_len p (g ++ s))%nat.
Proof.
  induction g as [|c g IH]; simpl; intros H; [lia|].
  apply andb_true_iff in H as [Hc Hg]. rewrite Hc. specialize (IH Hg). lia.
Qed.

Lemma run_len_app_stop p g s :
  all_chars p g = true ->
  match s with String c _ => p c = false | EmptyString => True end ->
  run_len p (g ++ s) = String.length g.
Proof.
  induction g as [|c g IH]; simpl; intros H Hs.
  - destruct s as [|d s]; simpl; auto. rewrite Hs. reflexivity.
  - apply andb_true_iff in H as [Hc Hg]. rewrite Hc, IH; auto.
Qed.

Lemma sdrop_app g s : sdrop (String.length g) (g ++ s) = s.
Proof. induction g; simpl; auto. Qed.

Lemma stake_app g s : stake (String.length g) (g ++ s) = g.
Proof. induction g; simpl; auto. congruence. Qed.

Lemma strip_prefix_some l s s' : strip_prefix l s = Some s' -> s = l ++ s'.
Proof.
  revert s; induction l as [|c l IH]; simpl; intros s H; [congruence|].
  destruct s as [|d s]; [discriminate|]. destruct (Ascii.eqb c d) eqn:E; [|discriminate].
  apply Ascii.eqb_eq in E. subst. f_equal. auto.
Qed.

Lemma strip_prefix_short l s : (String.length s < String.length l)%nat -> strip_prefix l s = None.
Proof.
  revert s; induction l as [|c l IH]; simpl; intros s H; [lia|].
  destruct s as [|d s]; auto. destruct (Ascii.eqb c d); auto. apply IH. simpl in H. lia.
Qed.

Lemma sdrop_length k s : String.length (sdrop k s) = (String.length s - k)%nat.
Proof. revert s; induction k as [|k IH]; intros [|c s]; simpl; auto. Qed.

(* ------------------------------------------------------------------ the greedy loop *)

Lemma try_lens_some cont m s k gs rest :
  try_lens cont m s k = Some (gs, rest) ->
  exists j gs', (m <= j <= k)%nat /\ cont (sdrop j s) = Some (gs', rest) /\ gs = stake j s :: gs' /\
                (forall j', (j < j' <= k)%nat -> cont (sdrop j' s) = None).
Proof.
  induction k as [|k IH]; cbn [try_lens].
  - destruct (Nat.ltb 0 m) eqn:E; [intros H; discriminate H|]. apply Nat.ltb_ge in E.
    destruct (cont (sdrop 0 s)) as [[gs' rest']|] eqn:C; [|intros H; discriminate H].
    intros H. inversion H; subst. exists O, gs'.
    split; [lia|]. split; [auto|]. split; [auto|]. intros j' Hj. lia.
  - destruct (Nat.ltb (S k) m) eqn:E; [intros H; discriminate H|]. apply Nat.ltb_ge in E.
    destruct (cont (sdrop (S k) s)) as [[gs' rest']|] eqn:C.
    + intros H. inversion H; subst. exists (S k), gs'.
      split; [lia|]. split; [auto|]. split; [auto|]. intros j' Hj. lia.
    + intros H. destruct (IH H) as (j & gs' & Hj & Hc & Hg & Hn).
      exists j, gs'. split; [lia|]. split; [auto|]. split; [auto|].
      intros j' Hj'. destruct (Nat.eq_dec j' (S k)); [subst; auto | apply Hn; lia].
Qed.

Lemma try_lens_none cont m s k :
  try_lens cont m s k = None -> forall j, (m <= j <= k)%nat -> cont (sdrop j s) = None.
Proof.
  induction k as [|k IH]; cbn [try_lens].
  - destruct (Nat.ltb 0 m) eqn:E.
    + apply Nat.ltb_lt in E. intros _ j Hj. lia.
    + destruct (cont (sdrop 0 s)) as [[gs' rest']|] eqn:C; [intros H; discriminate H|].
      intros _ j Hj. assert (j = O) by lia. subst. auto.
  - destruct (Nat.ltb (S k) m) eqn:E.
    + apply Nat.ltb_lt in E. intros _ j Hj. lia.
    + destruct (cont (sdrop (S k) s)) as [[gs' rest']|] eqn:C; [intros H; discriminate H|].
      intros H j Hj. destruct (Nat.eq_dec j (S k)); [subst; auto | apply IH; auto; lia].
Qed.

(* the first length, from the top, at which the rest of the pattern matches is taken *)
Lemma try_lens_first cont m s k j gs rest :
  (m <= j <= k)%nat -> cont (sdrop j s) = Some (gs, rest) ->
  (forall j', (j < j' <= k)%nat -> cont (sdrop j' s) = None) ->
  try_lens cont m s k = Some (stake j s :: gs, rest).
Proof.
  intros Hj Hc Hn. induction k as [|k IH]; cbn [try_lens].
  - assert (j = O) by lia. subst. destruct (Nat.ltb 0 m) eqn:E; [apply Nat.ltb_lt in E; lia|].
    rewrite Hc. reflexivity.
  - destruct (Nat.ltb (S k) m) eqn:E; [apply Nat.ltb_lt in E; lia|].
    destruct (Nat.eq_dec j (S k)) as [->|Hne].
    + rewrite Hc. reflexivity.
    + rewrite (Hn (S k)) by lia. apply IH; [lia|]. intros j' Hj'. apply Hn. lia.
Qed.

(* ------------------------------------------------------------------ soundness and completeness of the matcher *)

Theorem bt_sound_lemma pat : forall s gs rest, bt pat s = Some (gs, rest) -> rmatch pat s gs rest.
Proof.
  induction pat as [|it r IH]; intros s gs rest H; simpl in H.
  - inversion H; subst. constructor.
  - destruct it as [l | | cl m].
    + destruct (strip_prefix l s) as [s'|] eqn:E; [|discriminate].
      apply strip_prefix_some in E. subst. constructor. auto.
    + destruct s as [|c s]; [discriminate|]. constructor. auto.
    + apply try_lens_some in H as (j & gs' & Hj & Hc & Hg & _). subst gs.
      rewrite <- (stake_sdrop j s) at 1. constructor; auto.
      * apply stake_run. lia.
      * rewrite stake_length; [lia|]. pose proof (run_len_le (rc_in cl) s). lia.
Qed.

Theorem bt_complete_lemma pat s gs rest : rmatch pat s gs rest -> bt pat s <> None.
Proof.
  induction 1 as [s | l r s gs rest H IH | c r s gs rest H IH | cl m r g s gs rest Hg Hm H IH]; simpl.
  - discriminate.
  - rewrite strip_prefix_app. auto.
  - auto.
  - intros E. pose proof (try_lens_none _ _ _ _ E (String.length g)) as N.
    rewrite sdrop_app in N. apply IH, N. split; auto. apply run_len_app; auto.
Qed.

(* greedy: no longer text of the group's class lets the rest of the pattern match *)
Theorem bt_greedy_lemma cl m r s g gs rest :
  bt (RGrp cl m :: r) s = Some (g :: gs, rest) ->
  forall g' s', s = g' ++ s' -> all_chars (rc_in cl) g' = true ->
                (String.length g < String.length g')%nat -> bt r s' = None.
Proof.
  simpl. intros H g' s' Hs Hg' Hlen.
  apply try_lens_some in H as (j & gs' & Hj & Hc & Hg & Hn).
  inversion Hg; subst g gs'. clear Hg.
  assert (Hjl : String.length (stake j s) = j).
  { apply stake_length. pose proof (run_len_le (rc_in cl) s). lia. }
  rewrite Hjl in Hlen.
  specialize (Hn (String.length g')).
  subst s. rewrite sdrop_app in Hn. apply Hn. split; auto. apply run_len_app; auto.
Qed.

(* ------------------------------------------------------------------ search: leftmost *)

Lemma search_from_some pat : forall s i j gs rest,
  search_from pat s i = Some (j, gs, rest) ->
  exists pre mid, s = pre ++ mid /\ j = (i + String.length pre)%nat /\ bt pat mid = Some (gs, rest) /\
                  (forall pre' mid', s = pre' ++ mid' -> (String.length pre' < String.length pre)%nat -> bt pat mid' = None).
Proof.
  induction s as [|c s IH]; intros i j gs rest; simpl.
  - destruct (bt pat "") as [[gs' rest']|] eqn:E; [|discriminate].
    intros H. inversion H; subst. exists "", "".
    split; [reflexivity|]. split; [simpl; lia|]. split; [auto|]. intros pre' mid' _ Hl. simpl in Hl. lia.
  - destruct (bt pat (String c s)) as [[gs' rest']|] eqn:E.
    + intros H. inversion H; subst. exists "", (String c s).
      split; [reflexivity|]. split; [simpl; lia|]. split; [auto|]. intros pre' mid' _ Hl. simpl in Hl. lia.
    + intros H. destruct (IH _ _ _ _ H) as (pre & mid & Hs & Hj & Hb & Hn).
      exists (String c pre), mid.
      split; [simpl; congruence|]. split; [simpl; lia|]. split; [auto|].
      intros pre' mid' Hs' Hl. destruct pre' as [|d pre']; simpl in Hs', Hl.
      * subst mid'. auto.
      * inversion Hs'; subst. apply (Hn pre' mid'); auto. lia.
Qed.

Lemma search_from_none pat : forall s i, search_from pat s i = None ->
  forall pre mid, s = pre ++ mid -> bt pat mid = None.
Proof.
  induction s as [|c s IH]; intros i; simpl.
  - destruct (bt pat "") as [[gs' rest']|] eqn:E; [discriminate|].
    intros _ pre mid Hs. destruct pre; destruct mid; simpl in Hs; try discriminate. auto.
  - destruct (bt pat (String c s)) as [[gs' rest']|] eqn:E; [discriminate|].
    intros H pre mid Hs. destruct pre as [|d pre]; simpl in Hs.
    + subst. auto.
    + inversion Hs; subst. eapply IH; eauto.
Qed.

(* ------------------------------------------------------------------ literals of a pattern occur in what it matches *)

Lemma occurs_app_l l a s : occurs l s -> occurs l (a ++ s).
Proof. intros (x & y & ->). exists (a ++ x), y. rewrite app_assoc_s. reflexivity. Qed.

Lemma rmatch_lit_occurs pat s gs rest l :
  rmatch pat s gs rest -> In (RLit l) pat -> occurs l s.
Proof.
  induction 1 as [s | l0 r s gs rest H IH | c r s gs rest H IH | cl m r g s gs rest Hg Hm H IH]; simpl; intros Hin.
  - contradiction.
  - destruct Hin as [E | Hin].
    + inversion E; subst. exists "", s. reflexivity.
    + apply occurs_app_l. auto.
  - destruct Hin as [E | Hin]; [discriminate|].
    destruct (IH Hin) as (x & y & ->). exists (String c x), y. reflexivity.
  - destruct Hin as [E | Hin]; [discriminate|]. apply occurs_app_l. auto.
Qed.

Lemma bt_lit_occurs pat s gs rest l : bt pat s = Some (gs, rest) -> In (RLit l) pat -> occurs l s.
Proof. intros H. apply rmatch_lit_occurs with (gs := gs) (rest := rest). apply bt_sound_lemma; auto. Qed.

Lemma search_lit_occurs pat s r l : re_search pat s = Some r -> In (RLit l) pat -> occurs l s.
Proof.
  destruct r as [[j gs] rest]. unfold re_search. intros H Hin.
  apply search_from_some in H as (pre & mid & -> & _ & Hb & _).
  apply occurs_app_l. eapply bt_lit_occurs; eauto.
Qed.

Lemma bt_head pat l s r : bt (RLit l :: pat) s = Some r -> starts_with l s.
Proof.
  simpl. destruct (strip_prefix l s) as [s'|] eqn:E; [|discriminate].
  intros _. apply strip_prefix_some in E. exists s'. auto.
Qed.

(* ------------------------------------------------------------------ counting: the literal characters of a pattern are in what it matches *)

Fixpoint lit_count (c : ascii) (pat : rpat) : nat :=
  match pat with
  | [] => O
  | RLit l :: r => (count_char c l + lit_count c r)%nat
  | _ :: r => lit_count c r
  end.

Lemma rmatch_count c pat s gs rest : rmatch pat s gs rest -> (lit_count c pat <= count_char c s)%nat.
Proof.
  induction 1 as [s | l r s gs rest H IH | d r s gs rest H IH | cl m r g s gs rest Hg Hm H IH]; simpl.
  - lia.
  - rewrite count_char_app. lia.
  - destruct (Ascii.eqb d c); lia.
  - rewrite count_char_app. lia.
Qed.

(* ------------------------------------------------------------------ deterministic steps of the matcher *)

Lemma bt_lit l r s : bt (RLit l :: r) (l ++ s) = bt r s.
Proof. simpl. rewrite strip_prefix_app. reflexivity. Qed.

(* a group whose text is followed by a character outside its class (or by the end) is read in one go *)
Lemma bt_grp_exact cl m r g s' gs rest :
  all_chars (rc_in cl) g = true -> (m <= String.length g)%nat ->
  match s' with String c _ => rc_in cl c = false | EmptyString => True end ->
  bt r s' = Some (gs, rest) ->
  bt (RGrp cl m :: r) (g ++ s') = Some (g :: gs, rest).
Proof.
  intros Hg Hm Hs Hr. cbn [bt]. rewrite (run_len_app_stop _ _ _ Hg Hs).
  replace (g :: gs) with (stake (String.length g) (g ++ s') :: gs) by (rewrite stake_app; reflexivity).
  apply try_lens_first.
  - lia.
  - rewrite sdrop_app. exact Hr.
  - intros j' Hj. lia.
Qed.

Lemma strip_prefix_refl l : strip_prefix l l = Some "".
Proof. induction l; simpl; auto. rewrite Ascii.eqb_refl. auto. Qed.

(* a final '.*' / '.+' group followed by the closing literal takes everything up to that literal *)
Lemma bt_any_last m l v :
  l <> "" -> (m <= String.length v)%nat -> bt [RGrp RAnyC m; RLit l] (v ++ l) = Some ([v], "").
Proof.
  intros Hl Hm. cbn [bt].
  replace [v] with (stake (String.length v) (v ++ l) :: []) by (rewrite stake_app; reflexivity).
  apply try_lens_first.
  - split; auto. apply run_len_app.
    clear. induction v; simpl; auto.
  - rewrite sdrop_app. cbn [bt]. rewrite strip_prefix_refl. reflexivity.
  - intros j' Hj. rewrite strip_prefix_short; auto.
    rewrite sdrop_length, length_app_s. destruct l; [congruence|]. simpl. simpl in Hj.
    pose proof (run_len_le (rc_in RAnyC) (v ++ String a l)) as Hle. rewrite length_app_s in Hle. simpl in Hle. lia.
Qed.

(* ------------------------------------------------------------------ versions *)

Definition digits : rclass := RIn "0123456789".

Lemma digits_class c : rc_in digits c = is_digit c.
Proof. destruct c as [[] [] [] [] [] [] [] []]; reflexivity. Qed.

Lemma all_digits s : all_chars (rc_in digits) s = all_chars is_digit s.
Proof. induction s as [|c s IH]; simpl; auto. rewrite IH. f_equal. apply digits_class. Qed.

Lemma version_pat_shape : version_pat = [RGrp digits 1; RLit "."; RGrp digits 1; RLit "."; RGrp digits 1].
Proof. reflexivity. Qed.
Lemma old_version_pat_shape : old_version_pat = [RGrp digits 1; RLit "."; RGrp digits 1].
Proof. reflexivity. Qed.

(* the text after the version: nothing, or something that does not start with a digit *)
Definition nondigit_start (t : string) : Prop :=
  match t with String c _ => is_digit c = false | EmptyString => True end.

Lemma print_N_len n : (1 <= String.length (print_N n))%nat.
Proof. pose proof (print_N_nonempty n) as H. destruct (print_N n); [discriminate | simpl; lia]. Qed.

Lemma no_dot_digits s : all_chars is_digit s = true -> count_char "."%char s = O.
Proof. intros H. apply count_char_none with (p := is_digit); auto. Qed.

Lemma bt_digits_dot r n s' gs rest :
  bt r s' = Some (gs, rest) ->
  bt (RGrp digits 1 :: RLit "." :: r) (print_N n ++ String "."%char s') = Some (print_N n :: gs, rest).
Proof.
  intros H. apply bt_grp_exact.
  - rewrite all_digits. apply print_N_digits.
  - apply print_N_len.
  - reflexivity.
  - cbn [bt strip_prefix]. rewrite Ascii.eqb_refl. exact H.
Qed.

Lemma bt_digits_end n t :
  nondigit_start t -> bt [RGrp digits 1] (print_N n ++ t) = Some ([print_N n], t).
Proof.
  intros Ht. apply bt_grp_exact.
  - rewrite all_digits. apply print_N_digits.
  - apply print_N_len.
  - destruct t as [|c t]; auto. rewrite digits_class. exact Ht.
  - reflexivity.
Qed.

(* "major.minor.patch", whatever follows *)
Theorem interpret_version_canonical_lemma a b c t :
  0 <= a -> 0 <= b -> 0 <= c -> nondigit_start t ->
  interpret_version version_pat old_version_pat
    (print_N a ++ "." ++ print_N b ++ "." ++ print_N c ++ t) = Some (a, b, c).
Proof.
  intros Ha Hb Hc Ht. unfold interpret_version. rewrite version_pat_shape.
  change ("." ++ print_N b ++ "." ++ print_N c ++ t) with (String "."%char (print_N b ++ String "."%char (print_N c ++ t))).
  rewrite (bt_digits_dot _ a _ [print_N b; print_N c] t).
  - rewrite !parse_print_N; auto.
  - apply bt_digits_dot. apply bt_digits_end. exact Ht.
Qed.

(* the form of the versions before 1.0.0: "minor.patch" stands for 0.minor.patch *)
Theorem interpret_version_old_lemma b c t :
  0 <= b -> 0 <= c -> nondigit_start t -> count_char "."%char t = O ->
  interpret_version version_pat old_version_pat (print_N b ++ "." ++ print_N c ++ t) = Some (0, b, c).
Proof.
  intros Hb Hc Ht Hdots. unfold interpret_version.
  change ("." ++ print_N c ++ t) with (String "."%char (print_N c ++ t)).
  assert (N : bt version_pat (print_N b ++ String "."%char (print_N c ++ t)) = None).
  { destruct (bt version_pat _) as [[gs rest]|] eqn:E; auto.
    apply bt_sound_lemma in E. apply (rmatch_count "."%char) in E.
    rewrite version_pat_shape in E. cbn [lit_count count_char] in E.
    rewrite count_char_app in E. cbn [count_char] in E. rewrite count_char_app in E.
    rewrite !no_dot_digits in E by apply print_N_digits. rewrite Hdots in E.
    cbn in E. lia. }
  rewrite N, old_version_pat_shape.
  rewrite (bt_digits_dot _ b _ [print_N c] t).
  - rewrite !parse_print_N; auto.
  - apply bt_digits_end. exact Ht.
Qed.

(* get_version *)
Definition info_pat : rpat := [RLit "info("; RGrp (RNot ",") 1; RLit ","; RGrp RAnyC 0; RLit ")."].

Lemma version_infos_shape :
  version_infos = [(info_pat, ["matchFileVersion"]); (info_pat, ["matchFileVersion"])].
Proof. reflexivity. Qed.

(* the info pattern on info(<attribute without comma>,<value>). *)
Lemma bt_info_line a v :
  all_chars (rc_in (RNot ",")) a = true -> (1 <= String.length a)%nat ->
  bt info_pat ("info(" ++ a ++ "," ++ v ++ ").") = Some ([a; v], "").
Proof.
  intros Ha Hl. unfold info_pat. rewrite bt_lit.
  apply bt_grp_exact; auto.
  - reflexivity.
  - change ("," ++ v ++ ").") with ("," ++ (v ++ ").")). rewrite bt_lit.
    apply bt_any_last; [discriminate | lia].
Qed.

Lemma get_version_info_version v ver :
  interpret_version version_pat old_version_pat v = Some ver ->
  get_version version_pat old_version_pat version_infos ("info(" ++ "matchFileVersion" ++ "," ++ v ++ ").") = ver.
Proof.
  intros H. rewrite version_infos_shape. cbn [get_version]. unfold re_search.
  assert (B : bt info_pat ("info(" ++ "matchFileVersion" ++ "," ++ v ++ ").") = Some (["matchFileVersion"; v], "")).
  { apply bt_info_line; [reflexivity | simpl; lia]. }
  destruct ("info(" ++ "matchFileVersion" ++ "," ++ v ++ ").") eqn:E; cbn [search_from]; rewrite B.
  - cbn [existsb]. rewrite String.eqb_refl. cbn [orb]. rewrite H. reflexivity.
  - cbn [existsb]. rewrite String.eqb_refl. cbn [orb]. rewrite H. reflexivity.
Qed.

(* a version line is read as the version it states (by the 1.0.0 info parser, which get_version tries first,
   whatever the version is) *)
Theorem get_version_version_line_lemma a b c :
  0 <= a -> 0 <= b -> 0 <= c ->
  get_version version_pat old_version_pat version_infos
    ("info(matchFileVersion," ++ print_N a ++ "." ++ print_N b ++ "." ++ print_N c ++ ").") = (a, b, c).
Proof.
  intros Ha Hb Hc.
  assert (E : "info(matchFileVersion," ++ print_N a ++ "." ++ print_N b ++ "." ++ print_N c ++ ")."
              = "info(" ++ "matchFileVersion" ++ "," ++ (print_N a ++ "." ++ print_N b ++ "." ++ print_N c ++ "") ++ ").").
  { rewrite app_nil_r_s. do 3 (cbn [append]; rewrite ?app_assoc_s). reflexivity. }
  rewrite E. apply get_version_info_version. apply interpret_version_canonical_lemma; simpl; auto.
Qed.

(* the pre-1.0 spelling "info(matchFileVersion,5.0)." *)
Theorem get_version_old_version_line_lemma b c :
  0 <= b -> 0 <= c ->
  get_version version_pat old_version_pat version_infos
    ("info(matchFileVersion," ++ print_N b ++ "." ++ print_N c ++ ").") = (0, b, c).
Proof.
  intros Hb Hc.
  assert (E : "info(matchFileVersion," ++ print_N b ++ "." ++ print_N c ++ ")."
              = "info(" ++ "matchFileVersion" ++ "," ++ (print_N b ++ "." ++ print_N c ++ "") ++ ").").
  { rewrite app_nil_r_s. do 3 (cbn [append]; rewrite ?app_assoc_s). reflexivity. }
  rewrite E. apply get_version_info_version. apply interpret_version_old_lemma; simpl; auto.
Qed.

(* a first line that is no info line, or an info line with another attribute: version 0.1.0 *)
Theorem get_version_default_lemma s :
  (re_search info_pat s = None \/
   exists i a v rest, re_search info_pat s = Some (i, [a; v], rest) /\ a <> "matchFileVersion") ->
  get_version version_pat old_version_pat version_infos s = (0, 1, 0).
Proof.
  rewrite version_infos_shape. cbn [get_version].
  intros [H | (i & a & v & rest & H & Ha)]; rewrite H.
  - reflexivity.
  - cbn [existsb]. apply String.eqb_neq in Ha. rewrite Ha. reflexivity.
Qed.

(* in particular every first line that does not hold the text "info(" at all (a note, a pedal line, nothing) *)
Theorem get_version_no_info_lemma s :
  ~ occurs "info(" s -> get_version version_pat old_version_pat version_infos s = (0, 1, 0).
Proof.
  intros H. apply get_version_default_lemma. left.
  destruct (re_search info_pat s) as [r|] eqn:E; auto. exfalso. apply H.
  eapply search_lit_occurs; eauto. simpl. auto.
Qed.

(* ------------------------------------------------------------------ dispatch *)

Lemma dispatch_from_some tab ps : forall s i j gs vs,
  dispatch_from tab ps s i = Some (j, gs, vs) ->
  exists k p, j = (i + k)%nat /\ nth_error ps k = Some p /\ run_parser tab p s = Some (gs, vs) /\
              (forall k' p', (k' < k)%nat -> nth_error ps k' = Some p' -> run_parser tab p' s = None).
Proof.
  induction ps as [|p ps IH]; intros s i j gs vs; simpl; [discriminate|].
  destruct (run_parser tab p s) as [[gs' vs']|] eqn:E.
  - intros H. inversion H; subst. exists O, p.
    split; [lia|]. split; [reflexivity|]. split; [auto|]. intros k' p' Hk. lia.
  - intros H. destruct (IH _ _ _ _ _ H) as (k & q & Hj & Hn & Hr & Hf).
    exists (S k), q. split; [lia|]. split; [exact Hn|]. split; [exact Hr|].
    intros k' p' Hk Hn'. destruct k' as [|k']; simpl in Hn'.
    + inversion Hn'; subst. exact E.
    + apply (Hf k' p'); auto. lia.
Qed.

(* the first method of the list that raises nothing, and every method before it raises *)
Theorem dispatch_first_lemma tab ps s j gs vs :
  dispatch tab ps s = Some (j, gs, vs) ->
  exists p, nth_error ps j = Some p /\ run_parser tab p s = Some (gs, vs) /\
            (forall k' p', (k' < j)%nat -> nth_error ps k' = Some p' -> run_parser tab p' s = None).
Proof.
  unfold dispatch. intros H. apply dispatch_from_some in H as (k & p & Hj & Hn & Hr & Hf).
  simpl in Hj. subst k. exists p. auto.
Qed.

(* literals a parser cannot do without *)
Fixpoint pat_lits (p : rpat) : list string :=
  match p with [] => [] | RLit l :: r => l :: pat_lits r | _ :: r => pat_lits r end.
Definition step_lits (st : pstep) : list string :=
  match st with PSearch p | PMatch p => pat_lits p | PSearchThen p q => (pat_lits p ++ pat_lits q)%list end.

Lemma pat_lits_In l p : In l (pat_lits p) -> In (RLit l) p.
Proof.
  induction p as [|it p IH]; simpl; auto. destruct it; simpl; intros H; auto.
  destruct H; [left; congruence | right; auto].
Qed.

Lemma rmatch_rest_suffix pat s gs rest : rmatch pat s gs rest -> exists x, s = x ++ rest.
Proof.
  induction 1 as [s | l r s gs rest H [x IH] | c r s gs rest H [x IH] | cl m r g s gs rest Hg Hm H [x IH]].
  - exists "". reflexivity.
  - exists (l ++ x). rewrite app_assoc_s. congruence.
  - exists (String c x). simpl. congruence.
  - exists (g ++ x). rewrite app_assoc_s. congruence.
Qed.

Lemma occurs_suffix l x s : occurs l s -> occurs l (x ++ s).
Proof. apply occurs_app_l. Qed.

Lemma run_step_lits st s gs l : run_step st s = Some gs -> In l (step_lits st) -> occurs l s.
Proof.
  destruct st as [p | p | p q]; simpl.
  - destruct (re_search p s) as [[[j gs'] rest]|] eqn:E; [|discriminate]. intros _ Hin.
    eapply search_lit_occurs; eauto. apply pat_lits_In; auto.
  - destruct (bt p s) as [[gs' rest]|] eqn:E; [|discriminate]. intros _ Hin.
    eapply bt_lit_occurs; eauto. apply pat_lits_In; auto.
  - destruct (re_search p s) as [[[j gs'] rest]|] eqn:E; [|discriminate].
    destruct (bt q rest) as [[gs2 rest2]|] eqn:E2; [|discriminate]. intros _ Hin.
    apply in_app_or in Hin as [Hin | Hin].
    + eapply search_lit_occurs; eauto. apply pat_lits_In; auto.
    + unfold re_search in E. apply search_from_some in E as (pre & mid & -> & _ & Hb & _).
      apply bt_sound_lemma in Hb. apply rmatch_rest_suffix in Hb as [x ->].
      apply occurs_app_l, occurs_app_l. eapply bt_lit_occurs; eauto. apply pat_lits_In; auto.
Qed.

Lemma run_steps_step sts : forall s gs st, run_steps sts s = Some gs -> In st sts -> exists g, run_step st s = Some g.
Proof.
  induction sts as [|st0 sts IH]; simpl; intros s gs st H Hin; [contradiction|].
  destruct (run_step st0 s) as [a|] eqn:E; [|discriminate].
  destruct (run_steps sts s) as [b|] eqn:E2; [|discriminate].
  destruct Hin as [-> | Hin]; eauto.
Qed.

Lemma run_parser_steps tab p s r : run_parser tab p s = Some r -> exists gs, run_steps (lp_steps p) s = Some gs.
Proof. unfold run_parser. destruct (run_steps (lp_steps p) s); [eauto | discriminate]. Qed.

(* whatever the line is: a method that reads it found every literal of every pattern it uses in it,
   and the line starts with the first literal of a pattern it matches at the start *)
Theorem parser_needs_literals_lemma tab p s r :
  run_parser tab p s = Some r ->
  (forall st l, In st (lp_steps p) -> In l (step_lits st) -> occurs l s) /\
  (forall h q, In (PMatch (RLit h :: q)) (lp_steps p) -> starts_with h s).
Proof.
  intros H. apply run_parser_steps in H as [gs H]. split.
  - intros st l Hst Hl. destruct (run_steps_step _ _ _ _ H Hst) as [g Hg]. eapply run_step_lits; eauto.
  - intros h q Hst. destruct (run_steps_step _ _ _ _ H Hst) as [g Hg]. simpl in Hg.
    destruct (strip_prefix h s) as [s'|] eqn:E; [|discriminate]. apply strip_prefix_some in E. exists s'. auto.
Qed.

(* ------------------------------------------------------------------ the kinds of one family exclude each other *)

Definition prefixb (a b : string) : bool := match strip_prefix a b with Some _ => true | None => false end.

Lemma prefixb_app a x : prefixb a (a ++ x) = true.
Proof. unfold prefixb. rewrite strip_prefix_app. reflexivity. Qed.

Lemma starts_comparable a b s : starts_with a s -> starts_with b s -> prefixb a b = true \/ prefixb b a = true.
Proof.
  intros [x ->]. revert b. induction a as [|c a IH]; intros b [y H]; simpl in *.
  - left. reflexivity.
  - destruct b as [|d b]; [right; reflexivity|]. simpl in H. inversion H; subst.
    destruct (IH b) as [E | E]; [exists y; auto | |]; unfold prefixb in *; simpl; rewrite Ascii.eqb_refl; auto.
Qed.

Definition ritem_eqb (a b : ritem) : bool :=
  match a, b with
  | RLit x, RLit y => String.eqb x y
  | RDot, RDot => true
  | RGrp (RNot x) m, RGrp (RNot y) n | RGrp (RIn x) m, RGrp (RIn y) n => String.eqb x y && Nat.eqb m n
  | RGrp RAnyC m, RGrp RAnyC n => Nat.eqb m n
  | _, _ => false
  end.
Lemma ritem_eqb_eq a b : ritem_eqb a b = true -> a = b.
Proof.
  destruct a as [x| |[x|x|] m], b as [y| |[y|y|] n]; simpl; try discriminate; auto; intros H.
  - apply String.eqb_eq in H. congruence.
  - apply andb_true_iff in H as [H1 H2]. apply String.eqb_eq in H1. apply Nat.eqb_eq in H2. congruence.
  - apply andb_true_iff in H as [H1 H2]. apply String.eqb_eq in H1. apply Nat.eqb_eq in H2. congruence.
  - apply Nat.eqb_eq in H. congruence.
Qed.

(* what tells the kinds of a family apart: the literal that must start the line (insertion,
   hammer bounce, trailing played note), or the literal that must follow the score note
   (deletion, trailing score note, no played note) *)
Definition head_of (p : lparser) : option string :=
  match lp_steps p with PMatch (RLit h :: _) :: _ => Some h | _ => None end.
Definition tail_of (p : lparser) : option (rpat * string) :=
  match lp_steps p with [PSearchThen q (RLit h :: _)] => Some (q, h) | _ => None end.

Definition apart (h1 h2 : string) : bool := negb (prefixb h1 h2) && negb (prefixb h2 h1).

Definition clash_ok (p1 p2 : lparser) : bool :=
  String.eqb (lp_name p1) (lp_name p2) ||
  (match head_of p1, head_of p2 with Some h1, Some h2 => apart h1 h2 | _, _ => true end &&
   match tail_of p1, tail_of p2 with
   | Some (q1, h1), Some (q2, h2) => list_eqb ritem_eqb q1 q2 && apart h1 h2
   | _, _ => true
   end).

Lemma head_starts tab p s r h : run_parser tab p s = Some r -> head_of p = Some h -> starts_with h s.
Proof.
  intros H Hh. unfold head_of in Hh.
  destruct (lp_steps p) as [|[q|[|[l| |] q]|] sts] eqn:E; try discriminate. inversion Hh; subst.
  apply parser_needs_literals_lemma in H as [_ H]. apply (H h q). rewrite E. left. reflexivity.
Qed.

Lemma tail_starts tab p s r q h :
  run_parser tab p s = Some r -> tail_of p = Some (q, h) ->
  exists j gs rest, re_search q s = Some (j, gs, rest) /\ starts_with h rest.
Proof.
  intros H Ht. unfold tail_of in Ht.
  destruct (lp_steps p) as [|[|q0|q0 [|[l| |] q1]] [|st sts]] eqn:E; try discriminate. inversion Ht; subst.
  apply run_parser_steps in H as [gs H]. rewrite E in H. cbn [run_steps run_step] in H.
  destruct (re_search q s) as [[[j gs'] rest]|] eqn:R; [|discriminate].
  exists j, gs', rest. split; auto.
  destruct (bt (RLit h :: q1) rest) as [[g2 r2]|] eqn:B; [|discriminate].
  eapply bt_head; eauto.
Qed.

Theorem family_exclusive_lemma tab p1 p2 s :
  clash_ok p1 p2 = true -> lp_name p1 <> lp_name p2 ->
  (head_of p1 <> None /\ head_of p2 <> None) \/ (tail_of p1 <> None /\ tail_of p2 <> None) ->
  run_parser tab p1 s <> None -> run_parser tab p2 s = None.
Proof.
  intros Hc Hn Hfam H1.
  destruct (run_parser tab p1 s) as [r1|] eqn:E1; [|congruence].
  destruct (run_parser tab p2 s) as [r2|] eqn:E2; auto. exfalso.
  unfold clash_ok in Hc. apply String.eqb_neq in Hn. rewrite Hn in Hc. simpl in Hc.
  apply andb_true_iff in Hc as [Hh Ht].
  destruct Hfam as [[F1 F2] | [F1 F2]].
  - destruct (head_of p1) as [h1|] eqn:A1; [|congruence]. destruct (head_of p2) as [h2|] eqn:A2; [|congruence].
    pose proof (head_starts _ _ _ _ _ E1 A1) as S1. pose proof (head_starts _ _ _ _ _ E2 A2) as S2.
    unfold apart in Hh. apply andb_true_iff in Hh as [X Y].
    destruct (starts_comparable _ _ _ S1 S2) as [C | C]; rewrite C in *; discriminate.
  - destruct (tail_of p1) as [[q1 h1]|] eqn:A1; [|congruence]. destruct (tail_of p2) as [[q2 h2]|] eqn:A2; [|congruence].
    apply andb_true_iff in Ht as [Hq Ha].
    apply (list_eqb_eq ritem_eqb ritem_eqb_eq) in Hq. subst q2.
    destruct (tail_starts _ _ _ _ _ _ E1 A1) as (j1 & g1 & rest1 & R1 & S1).
    destruct (tail_starts _ _ _ _ _ _ E2 A2) as (j2 & g2 & rest2 & R2 & S2).
    rewrite R1 in R2. inversion R2; subst.
    unfold apart in Ha. apply andb_true_iff in Ha as [X Y].
    destruct (starts_comparable _ _ _ S1 S2) as [C | C]; rewrite C in *; discriminate.
Qed.

(* decided on the parser lists reflected from the live classes, all versions *)
Definition table_clash_free : bool :=
  forallb (fun vp : version * list lparser =>
             forallb (fun p1 => forallb (fun p2 => clash_ok p1 p2) (snd vp)) (snd vp)) parser_table.

Lemma table_clash_free_ok : table_clash_free = true.
Proof. vm_compute. reflexivity. Qed.

Theorem reflected_families_exclusive_lemma v ps p1 p2 s :
  In (v, ps) parser_table -> In p1 ps -> In p2 ps -> lp_name p1 <> lp_name p2 ->
  (head_of p1 <> None /\ head_of p2 <> None) \/ (tail_of p1 <> None /\ tail_of p2 <> None) ->
  run_parser key_tab p1 s <> None -> run_parser key_tab p2 s = None.
Proof.
  intros Hv H1 H2. apply family_exclusive_lemma.
  pose proof table_clash_free_ok as T. unfold table_clash_free in T.
  rewrite forallb_forall in T. specialize (T _ Hv). simpl in T.
  rewrite forallb_forall in T. specialize (T _ H1).
  rewrite forallb_forall in T. apply T. exact H2.
Qed.

(* ------------------------------------------------------------------ files: repeated lines *)

Lemma existsb_eqb_In x l : existsb (String.eqb x) l = true <-> In x l.
Proof.
  rewrite existsb_exists. split.
  - intros (y & Hy & E). apply String.eqb_eq in E. subst. auto.
  - intros H. exists x. split; auto. apply String.eqb_refl.
Qed.

Lemma dedup_first_In l : forall seen x, In x (dedup_first seen l) <-> In x l /\ ~ In x seen.
Proof.
  induction l as [|y l IH]; intros seen x; simpl.
  - tauto.
  - destruct (existsb (String.eqb y) seen) eqn:E.
    + apply existsb_eqb_In in E. rewrite IH. split.
      * intros [H1 H2]. auto.
      * intros [[-> | H1] H2]; [contradiction | auto].
    + assert (N : ~ In y seen). { intros H. apply existsb_eqb_In in H. congruence. }
      simpl. rewrite IH. simpl. split.
      * intros [-> | [H1 H2]]; [auto | split; auto].
      * intros [[-> | H1] H2]; [auto|]. destruct (string_dec y x) as [->|Hne]; [auto | right; split; auto].
        intros [H | H]; auto.
Qed.

Lemma dedup_first_NoDup l : forall seen, NoDup (dedup_first seen l).
Proof.
  induction l as [|y l IH]; intros seen; simpl; [constructor|].
  destruct (existsb (String.eqb y) seen); auto.
  constructor; auto. rewrite dedup_first_In. simpl. tauto.
Qed.

(* every distinct line of the file is looked at exactly once *)
Theorem dedup_first_spec_lemma l :
  NoDup (dedup_first [] l) /\ forall x, In x (dedup_first [] l) <-> In x l.
Proof.
  split; [apply dedup_first_NoDup|]. intros x. rewrite dedup_first_In. simpl. tauto.
Qed.

(* ------------------------------------------------------------------ examples (computed) *)

(* what tells the kinds of the two families apart, as reflected on this run (whatever the order of the lists) *)
Definition has_head (ps : list lparser) (h : string) : bool :=
  existsb (fun p => match head_of p with Some x => String.eqb x h | None => false end) ps.
Definition has_tail (ps : list lparser) (h : string) : bool :=
  existsb (fun p => match tail_of p with Some (_, x) => String.eqb x h | None => false end) ps.

Lemma family_markers_example :
  forallb (has_head parsers_v0_5_0) ["insertion-"; "hammer_bounce-"; "trailing_played_note-"] = true /\
  forallb (has_tail parsers_v0_5_0) ["-deletion."; "-trailing_score_note."; "-no_played_note."] = true /\
  has_head parsers_v1_0_0 "insertion-" = true /\ has_tail parsers_v1_0_0 "-deletion." = true.
Proof. vm_compute. repeat split; reflexivity. Qed.

Definition disp_kind (ps : list lparser) (s : string) : option string :=
  match dispatch key_tab ps s with
  | Some (i, _, _) => match nth_error ps i with Some p => Some (lp_name p) | None => None end
  | None => None
  end.

(* identifiers that hold the identifier of another kind of line do not change what the line is read as *)
Lemma dispatch_examples :
  disp_kind parsers_v0_5_0 "trill(insertion-1)-note(1,[C,n],4,1,2,5,3)." = Some "MatchTrillNote" /\
  disp_kind parsers_v0_5_0 "snote(x-deletion.,[C,n],4,1:1,0,1/4,0.0,1.0,[v1])-trailing_score_note." = Some "MatchSnoteTrailingScore" /\
  disp_kind parsers_v0_5_0 "trailing_played_note-note(hammer_bounce-2,[C,n],4,1,2,5,3)." = Some "MatchTrailingPlayedNote" /\
  disp_kind parsers_v0_1_0 "hammer_bounce-note(insertion-1,[c,n],4,1.00,2.00,3)." = Some "MatchHammerBounceNote" /\
  disp_kind parsers_v1_0_0 "ornament(insertion-1,[trill])-note(n1,60,1,2,3,1,0)." = Some "MatchOrnamentNote" /\
  disp_kind parsers_v1_0_0 "snote(n1,[C,n],4,1:1,0,1/4,0.0000,1.0000,[v1])-note(n1,60,1,2,3,1,0)." = Some "MatchSnoteNote" /\
  disp_kind parsers_v1_0_0 "snote(n1,[C,n],4,1:1,0,1/4,0.0000,1.0000,[v1])-deletion." = Some "MatchSnoteDeletion" /\
  disp_kind parsers_v1_0_0 "scoreprop(keySignature,E/C#m,1:1,0,0.0000)." = Some "MatchScoreProp" /\
  disp_kind parsers_v1_0_0 "info(keySignature,E)." = None.
Proof. vm_compute. repeat split; reflexivity. Qed.

Definition kept_names (ps : list lparser) (res : list (option (nat * list string * list value))) : list string :=
  map (fun i => match nth_error ps i with Some p => lp_name p | None => "?" end) (kept_kinds res).

Lemma load_lines_example :
  let '(v, res) := load_lines key_tab version_pat old_version_pat version_infos parser_table
                     ["info(matchFileVersion,0.5.0)."; "sustain(1,2)."; ""; "sustain(1,2)."; "soft(3,4)."; "nonsense"] in
  v = (0, 5, 0) /\ kept_names parsers_v0_5_0 res = ["MatchInfo"; "MatchSustainPedal"; "MatchSoftPedal"].
Proof. vm_compute. split; reflexivity. Qed.
