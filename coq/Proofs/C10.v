(* C10 -- proofs about the signature / clef / measure map model (Model/C10.v). *)
From PV Require Import Lib.Base Lib.Round Model.C02 Model.C10 Proofs.C02_lib Gen.C10_Tab.
From Coq Require Import QArith Qabs.
#[local] Open Scope Z_scope.

(* the back-filled lookup is the plain scan with the first element's value as default *)
Lemma lookup_bf_prev {A} first (tbl : list (Z * A)) d t t0 v0 r :
  tbl = (t0, v0) :: r -> lookup_bf first tbl d t = prev_lookup tbl t v0.
Proof.
  intros ->. unfold lookup_bf, backfill.
  destruct (first <? t0) eqn:E; auto.
  change (prev_lookup ((first, v0) :: (t0, v0) :: r) t v0)
    with (if first <=? t then prev_lookup ((t0, v0) :: r) t v0 else v0).
  destruct (first <=? t) eqn:E2; auto.
  simpl. destruct (t0 <=? t) eqn:E3; auto. lia.
Qed.

(* SPEC of all "previous" maps: the value of the latest element starting at or before t;
   of the first element for positions before it; the documented default when there is none *)
Theorem lookup_bf_spec {A} first (tbl : list (Z * A)) d t : keys_incr tbl ->
  (tbl = [] -> lookup_bf first tbl d t = d) /\
  (forall v, in_force tbl t v -> lookup_bf first tbl d t = v) /\
  (forall t0 v0 r, tbl = (t0, v0) :: r -> (forall k v, In (k, v) tbl -> t < k) -> lookup_bf first tbl d t = v0).
Proof.
  intros Hs. split; [intros ->; reflexivity|]. split.
  - intros v Hf. destruct tbl as [|[t0 v0] r]; [destruct Hf as [k [[] _]]|].
    rewrite (lookup_bf_prev first _ d t t0 v0 r eq_refl).
    destruct Hf as [k [Hin [Hle Hmax]]].
    eapply in_force_unique; eauto.
    + eapply prev_lookup_in_force; eauto.
    + exists k; auto.
  - intros t0 v0 r E Hall. rewrite (lookup_bf_prev first _ d t t0 v0 r E).
    apply prev_lookup_default; auto.
Qed.

Lemma zrange_length : forall n lo, List.length (zrange lo n) = n.
Proof. induction n; intros; simpl; auto. Qed.

Lemma clef_map_length cp t : List.length (clef_map cp t) = Z.to_nat (c_nstaves cp).
Proof. unfold clef_map. rewrite map_length. apply zrange_length. Qed.

Lemma zrange_nth : forall n lo i, (i < n)%nat -> nth i (zrange lo n) 0 = lo + Z.of_nat i.
Proof.
  induction n as [|n IH]; intros lo i Hi; [lia|].
  destruct i as [|i]; simpl; [lia|]. rewrite IH by lia. lia.
Qed.

(* row s-1 of clef_map is the lookup in the clefs of staff s *)
Lemma clef_map_row cp t s : 1 <= s <= c_nstaves cp ->
  nth (Z.to_nat (s - 1)) (clef_map cp t) (clef_staff cp 0 t) = clef_staff cp s t.
Proof.
  intros Hs. unfold clef_map.
  rewrite (map_nth (fun s => clef_staff cp s t)). rewrite zrange_nth by lia. f_equal. lia.
Qed.

(* every entry of the table of staff s is a clef of that staff, and every clef of staff s is in it *)
Lemma staff_tbl_In cp s k st sg ln oc :
  In (k, (st, sg, ln, oc)) (staff_tbl cp s) <-> In (k, (st, sg, ln, oc)) (c_clefs cp) /\ st = s.
Proof.
  unfold staff_tbl. rewrite filter_In. simpl. split; intros [H1 H2]; split; auto; lia.
Qed.

(* ------------------------------------------------------------- measures *)
Lemma pickup_len_cases cp len :
  pickup_len cp = Some len <->
  exists s0 x e0 n0 r fb, c_meas cp = (s0, (x, e0, n0)) :: r /\ full_bar cp s0 = Some fb /\
    (inject_Z (e0 - s0) < fb)%Q /\ len = round_half_even fb.
Proof.
  unfold pickup_len. split.
  - destruct (c_meas cp) as [|[s0 [[x e0] n0]] r]; [discriminate|].
    destruct (full_bar cp s0) as [fb|] eqn:Ef; [|discriminate].
    destruct (Qltb (inject_Z (e0 - s0)) fb) eqn:E; [|discriminate].
    intros H; inversion H; subst. exists s0, x, e0, n0, r, fb.
    split; [reflexivity|]. split; [exact Ef|]. split; [|reflexivity].
    unfold Qltb in E. apply negb_true_iff in E. apply Qle_bool_false. exact E.
  - intros [s0 [x [e0 [n0 [r [fb [E [Ef [Hlt ->]]]]]]]]]. rewrite E, Ef.
    unfold Qltb. destruct (Qle_bool fb (inject_Z (e0 - s0))) eqn:E2; [|reflexivity].
    apply Qle_bool_iff in E2. exfalso. apply (Qlt_not_le _ _ Hlt). exact E2.
Qed.

Lemma meas_tbl_cases cp :
  meas_tbl cp = c_meas cp \/
  exists s0 x e0 n0 r fb, c_meas cp = (s0, (x, e0, n0)) :: r /\ full_bar cp s0 = Some fb /\
    (inject_Z (e0 - s0) < fb)%Q /\
    meas_tbl cp = (e0 - round_half_even fb, (e0 - round_half_even fb, e0, n0)) :: r.
Proof.
  unfold meas_tbl. destruct (pickup_len cp) as [len|] eqn:Ep.
  - right. apply pickup_len_cases in Ep. destruct Ep as [s0 [x [e0 [n0 [r [fb [E [Ef [Hlt ->]]]]]]]]].
    exists s0, x, e0, n0, r, fb. rewrite E. auto.
  - left. destruct (c_meas cp) as [|[s0 [[x e0] n0]] r]; reflexivity.
Qed.

Lemma meas_tbl_pickup cp s0 x e0 n0 r len : c_meas cp = (s0, (x, e0, n0)) :: r ->
  pickup_len cp = Some len -> meas_tbl cp = (e0 - len, (e0 - len, e0, n0)) :: r.
Proof. intros E Ep. unfold meas_tbl. rewrite E, Ep. reflexivity. Qed.

Lemma meas_tbl_nopickup cp : pickup_len cp = None -> meas_tbl cp = c_meas cp.
Proof. intros Ep. unfold meas_tbl. rewrite Ep. destruct (c_meas cp) as [|[s0 [[x e0] n0]] r]; reflexivity. Qed.

(* an integer below q is at most round(q) *)
Lemma round_ge_of_lt z q : (inject_Z z < q)%Q -> z <= round_half_even q.
Proof.
  intros H. pose proof (round_half_even_near q) as N.
  set (r := round_half_even q) in *.
  apply Qabs_Qle_condition in N. destruct N as [N1 N2].
  (* q - r <= 1/2  ->  z < q <= r + 1/2 *)
  assert (inject_Z z < inject_Z r + half)%Q as L.
  { eapply Qlt_le_trans; [exact H|].
    setoid_replace q with ((q - inject_Z r) + inject_Z r)%Q by ring.
    setoid_replace (inject_Z r + half)%Q with (half + inject_Z r)%Q by ring.
    apply Qplus_le_compat; [exact N2 | apply Qle_refl]. }
  unfold Qlt, Qplus, half, inject_Z in L. simpl in L. lia.
Qed.

(* the extent and number of the measure in force (the pickup row having been moved back a full bar) *)
Theorem measure_maps_spec cp t s e n : keys_incr (meas_tbl cp) ->
  in_force (meas_tbl cp) t (s, e, n) ->
  measure_map cp t = Some (s, e) /\ measure_number_map cp t = n.
Proof.
  intros Hs Hf. unfold measure_map, measure_number_map, meas_row, meas_row_of.
  destruct (meas_tbl cp) as [|[k0 v0] r] eqn:E; [destruct Hf as [k [[] _]]|].
  assert (prev_lookup ((k0, v0) :: r) t v0 = (s, e, n)) as ->.
  { destruct Hf as [k [Hin [Hle Hmax]]]. eapply in_force_unique; eauto.
    - eapply prev_lookup_in_force; eauto.
    - exists k; auto. }
  simpl. auto.
Qed.

(* ---- well-formed measure lists: the row whose extent contains t is the row in force *)
Lemma meas_wf_later : forall r k s e n, meas_wf ((k, (s, e, n)) :: r) ->
  forall k' v', In (k', v') r -> e <= k'.
Proof.
  induction r as [|[k1 [[s1 e1] n1]] r IH]; intros k s e n H k' v' Hin; [inversion Hin|].
  destruct H as [Hk [Hse [Hnext Hr]]]. destruct Hin as [E|Hin].
  - inversion E; subst; auto.
  - pose proof (IH k1 s1 e1 n1 Hr k' v' Hin). destruct Hr as [Hk1 [Hse1 _]]. lia.
Qed.

Lemma meas_wf_keys_incr : forall l, meas_wf l -> keys_incr l.
Proof.
  induction l as [|[k [[s e] n]] r IH]; intros H; [exact I|].
  pose proof H as H'. destruct H as [Hk [Hse [Hnext Hr]]]. split; [|auto].
  destruct r as [|[k1 v1] r']; [exact I|]. lia.
Qed.

Lemma meas_wf_row : forall l k s e n, meas_wf l -> In (k, (s, e, n)) l -> k = s /\ s < e.
Proof.
  induction l as [|[k0 [[s0 e0] n0]] r IH]; intros k s e n H Hin; [inversion Hin|].
  destruct H as [Hk [Hse [_ Hr]]]. destruct Hin as [E|Hin]; [inversion E; subst; auto | eauto].
Qed.

Lemma meas_wf_max : forall l k s e n t, meas_wf l -> In (k, (s, e, n)) l -> s <= t < e ->
  forall k' v', In (k', v') l -> k' <= t -> k' <= k.
Proof.
  induction l as [|[k0 [[s0 e0] n0]] r IH]; intros k s e n t H Hin Ht k' v' Hin' Hle; [inversion Hin|].
  pose proof H as H'. destruct H as [Hk [Hse [Hnext Hr]]].
  destruct Hin as [E|Hin]; destruct Hin' as [E'|Hin'].
  - inversion E; inversion E'; subst; lia.
  - inversion E; subst. pose proof (meas_wf_later _ _ _ _ _ H' _ _ Hin'). lia.
  - inversion E'; subst. pose proof (meas_wf_later _ _ _ _ _ H' _ _ Hin).
    destruct (meas_wf_row _ _ _ _ _ Hr Hin). lia.
  - eapply IH; eauto.
Qed.

Lemma meas_wf_in_force l k s e n t : meas_wf l -> In (k, (s, e, n)) l -> s <= t < e ->
  in_force l t (s, e, n).
Proof.
  intros H Hin Ht. destruct (meas_wf_row _ _ _ _ _ H Hin) as [-> Hse].
  exists s. split; auto. split; [lia|]. eapply meas_wf_max; eauto.
Qed.

(* measure_map / measure_number_map return extent and number of the measure CONTAINING t *)
Theorem measure_containing cp t k s e n : meas_wf (meas_tbl cp) ->
  In (k, (s, e, n)) (meas_tbl cp) -> s <= t < e ->
  measure_map cp t = Some (s, e) /\ measure_number_map cp t = n.
Proof.
  intros Hw Hin Ht. apply measure_maps_spec; [apply meas_wf_keys_incr; auto|].
  eapply meas_wf_in_force; eauto.
Qed.

(* the pickup correction keeps the list well-formed / contiguous, and the corrected first measure
   still covers the written one *)
Lemma pickup_len_ge cp s0 x e0 n0 r len : c_meas cp = (s0, (x, e0, n0)) :: r ->
  pickup_len cp = Some len -> e0 - s0 <= len.
Proof.
  intros E Ep. apply pickup_len_cases in Ep.
  destruct Ep as [s0' [x' [e0' [n0' [r' [fb [E' [Ef [Hlt ->]]]]]]]]].
  rewrite E in E'. inversion E'; subst. apply round_ge_of_lt. exact Hlt.
Qed.

Lemma meas_tbl_wf cp : meas_wf (c_meas cp) -> meas_wf (meas_tbl cp).
Proof.
  intros H. destruct (pickup_len cp) as [len|] eqn:Ep.
  - destruct (c_meas cp) as [|[s0 [[x e0] n0]] r] eqn:E.
    + unfold pickup_len in Ep. rewrite E in Ep. discriminate.
    + rewrite (meas_tbl_pickup _ _ _ _ _ _ _ E Ep).
      pose proof (pickup_len_ge _ _ _ _ _ _ _ E Ep) as Hge.
      destruct H as [Hk [Hse [Hnext Hr]]]. simpl. repeat split; auto. lia.
  - rewrite (meas_tbl_nopickup _ Ep). exact H.
Qed.

Lemma meas_tbl_contig cp : meas_contig (c_meas cp) -> meas_contig (meas_tbl cp).
Proof.
  intros H. destruct (pickup_len cp) as [len|] eqn:Ep.
  - destruct (c_meas cp) as [|[s0 [[x e0] n0]] r] eqn:E.
    + unfold pickup_len in Ep. rewrite E in Ep. discriminate.
    + rewrite (meas_tbl_pickup _ _ _ _ _ _ _ E Ep). exact H.
  - rewrite (meas_tbl_nopickup _ Ep). exact H.
Qed.

(* bars: consecutive barlines *)
Lemma bar_tbl_In : forall bl b b' d, In (b, (b', d)) (bar_tbl bl) ->
  b' = b /\ exists l1 b1 l2, bl = l1 ++ b :: b1 :: l2 /\ d = b1 - b.
Proof.
  induction bl as [|b0 r IH]; intros b b' d H; [inversion H|].
  simpl in H. destruct r as [|b1 r']; [inversion H|].
  destruct H as [E|H].
  - inversion E; subst. split; auto. exists [], b1, r'. auto.
  - destruct (IH _ _ _ H) as [E' [l1 [b2 [l2 [Hl Hd]]]]]. split; auto.
    exists (b0 :: l1), b2, l2. rewrite Hl. auto.
Qed.

Theorem metpos_spec cp t b d m1 m2 r : meas_tbl cp = m1 :: m2 :: r ->
  keys_incr (bar_tbl (barlines cp)) -> in_force (bar_tbl (barlines cp)) t (b, d) ->
  metpos cp t = (t - b, d).
Proof.
  intros E Hs Hf. unfold metpos, metpos_of. rewrite E.
  destruct (bar_tbl (barlines cp)) as [|[k0 v0] bt] eqn:Eb; [destruct Hf as [k [[] _]]|].
  assert (prev_lookup ((k0, v0) :: bt) t v0 = (b, d)) as ->.
  { destruct Hf as [k [Hin [Hle Hmax]]]. eapply in_force_unique; eauto.
    - eapply prev_lookup_in_force; eauto.
    - exists k; auto. }
  reflexivity.
Qed.

Lemma metpos_few cp t : (List.length (meas_tbl cp) < 2)%nat -> metpos cp t = (0, 0).
Proof.
  unfold metpos, metpos_of. destruct (meas_tbl cp) as [|m1 [|m2 r]]; simpl; auto; lia.
Qed.

(* for contiguous measures the bar table has one row per measure: (start, (start, end - start)) *)
Definition bar_row (row : Z * (Z * Z * option Z)) : Z * (Z * Z) :=
  let '(k, (_, e, _)) := row in (k, (k, e - k)).

Lemma bar_tbl_contig : forall mt d, meas_contig mt ->
  bar_tbl (map fst mt ++ [last_end mt d]) = map bar_row mt.
Proof.
  induction mt as [|[k [[s e] n]] r IH]; intros d H; [reflexivity|].
  destruct H as [Hnext Hr]. destruct r as [|[k1 [[s1 e1] n1]] r'].
  - reflexivity.
  - subst k1. specialize (IH e Hr).
    change (map fst ((k, (s, e, n)) :: (e, (s1, e1, n1)) :: r') ++ [last_end ((k, (s, e, n)) :: (e, (s1, e1, n1)) :: r') d])
      with (k :: (map fst ((e, (s1, e1, n1)) :: r') ++ [last_end ((e, (s1, e1, n1)) :: r') e])).
    change (map bar_row ((k, (s, e, n)) :: (e, (s1, e1, n1)) :: r'))
      with ((k, (k, e - k)) :: map bar_row ((e, (s1, e1, n1)) :: r')).
    rewrite <- IH. reflexivity.
Qed.

Lemma bar_row_keys_incr : forall mt, keys_incr mt -> keys_incr (map bar_row mt).
Proof.
  induction mt as [|[k [[s e] n]] r IH]; intros H; [exact I|].
  destruct H as [H1 H2]. split; [|auto].
  destruct r as [|[k1 [[s1 e1] n1]] r']; [exact I|]. exact H1.
Qed.

(* metrical position = (distance of t from the start of the measure containing it, length of that measure) *)
Theorem metpos_containing cp t k s e n m1 m2 r : meas_tbl cp = m1 :: m2 :: r ->
  meas_wf (meas_tbl cp) -> meas_contig (meas_tbl cp) ->
  In (k, (s, e, n)) (meas_tbl cp) -> s <= t < e ->
  metpos cp t = (t - s, e - s).
Proof.
  intros E Hw Hc Hin Ht.
  destruct (meas_wf_row _ _ _ _ _ Hw Hin) as [-> Hse].
  assert (barlines cp = map fst (meas_tbl cp) ++ [last_end (meas_tbl cp) 0]) as Eb by reflexivity.
  eapply metpos_spec; eauto.
  - rewrite Eb, bar_tbl_contig by auto. apply bar_row_keys_incr, meas_wf_keys_incr; auto.
  - rewrite Eb, bar_tbl_contig by auto.
    exists s. split; [apply in_map_iff; exists (s, (s, e, n)); auto|]. split; [lia|].
    intros k' v' Hin' Hle'. apply in_map_iff in Hin'.
    destruct Hin' as [[k2 [[s2 e2] n2]] [E2 Hin2]]. inversion E2; subst.
    eapply meas_wf_max; eauto.
Qed.

(* ---- the statement on the measures as written *)
(* a measure after the first: its own extent and number, position counted from its start *)
Theorem later_measure_spec cp t m0 r k s e n : c_meas cp = m0 :: r -> meas_wf (c_meas cp) ->
  In (k, (s, e, n)) r -> s <= t < e ->
  measure_map cp t = Some (s, e) /\ measure_number_map cp t = n /\
  (meas_contig (c_meas cp) -> metpos cp t = (t - s, e - s)).
Proof.
  intros E Hw Hin Ht.
  assert (exists m0', meas_tbl cp = m0' :: r) as [m0' Et].
  { destruct (pickup_len cp) as [len|] eqn:Ep.
    - destruct m0 as [s0 [[x e0] n0]]. rewrite (meas_tbl_pickup _ _ _ _ _ _ _ E Ep). eauto.
    - rewrite (meas_tbl_nopickup _ Ep), E. eauto. }
  pose proof (meas_tbl_wf _ Hw) as Hw'.
  assert (In (k, (s, e, n)) (meas_tbl cp)) as Hin' by (rewrite Et; right; auto).
  destruct (measure_containing cp t k s e n Hw' Hin' Ht) as [A B].
  split; auto. split; auto. intros Hc.
  destruct r as [|m1 r']; [inversion Hin|].
  eapply metpos_containing; eauto. apply meas_tbl_contig; auto.
Qed.

(* the first measure: as written when it is not shorter than a full bar; otherwise it is taken to
   start one (rounded) full bar before its end -- "a pickup is treated as ending a full bar" *)
Theorem first_measure_spec cp t s0 e0 n0 r : c_meas cp = (s0, (s0, e0, n0)) :: r -> meas_wf (c_meas cp) ->
  s0 <= t < e0 ->
  (pickup_len cp = None ->
     measure_map cp t = Some (s0, e0) /\ measure_number_map cp t = n0 /\
     (r <> [] -> meas_contig (c_meas cp) -> metpos cp t = (t - s0, e0 - s0))) /\
  (forall len, pickup_len cp = Some len ->
     e0 - s0 <= len /\
     measure_map cp t = Some (e0 - len, e0) /\ measure_number_map cp t = n0 /\
     (r <> [] -> meas_contig (c_meas cp) -> metpos cp t = (t - (e0 - len), len))).
Proof.
  intros E Hw Ht. pose proof (meas_tbl_wf _ Hw) as Hw'. split.
  - intros Ep. pose proof (meas_tbl_nopickup _ Ep) as Et. rewrite E in Et.
    assert (In (s0, (s0, e0, n0)) (meas_tbl cp)) as Hin by (rewrite Et; left; auto).
    destruct (measure_containing cp t _ _ _ _ Hw' Hin Ht) as [A B].
    split; auto. split; auto. intros Hr Hc. destruct r as [|m1 r']; [congruence|].
    eapply metpos_containing; eauto. apply meas_tbl_contig; auto.
  - intros len Ep. pose proof (pickup_len_ge _ _ _ _ _ _ _ E Ep) as Hge.
    pose proof (meas_tbl_pickup _ _ _ _ _ _ _ E Ep) as Et.
    assert (In (e0 - len, (e0 - len, e0, n0)) (meas_tbl cp)) as Hin by (rewrite Et; left; auto).
    assert (e0 - len <= t < e0) as Ht' by lia.
    destruct (measure_containing cp t _ _ _ _ Hw' Hin Ht') as [A B].
    split; auto. split; auto. split; auto. intros Hr Hc. destruct r as [|m1 r']; [congruence|].
    replace len with (e0 - (e0 - len)) at 2 by lia.
    eapply metpos_containing; eauto. apply meas_tbl_contig; auto.
Qed.

(* ---- measure numbers: a numbered measure keeps its number, an un-numbered one after a numbered
   one takes that number *)
Lemma fill_nums_length : forall l p, List.length (fill_nums p l) = List.length l.
Proof. induction l; intros; simpl; auto. Qed.

Lemma fill_nums_nth : forall l p i x, nth_error l i = Some x ->
  nth_error (fill_nums p l) i =
  Some (match x with
        | Some n => Some n
        | None => match i with O => p | S j => match nth_error l j with Some y => y | None => None end end
        end).
Proof.
  induction l as [|a l IH]; intros p i x H; [destruct i; inversion H|].
  destruct i as [|i]; simpl in *.
  - inversion H; subst. reflexivity.
  - rewrite (IH a i x H). destruct x; auto. destruct i; reflexivity.
Qed.

Theorem measure_numbers_spec l i :
  List.length (eff_nums l) = List.length l /\
  (forall n, nth_error l i = Some (Some n) -> nth_error (eff_nums l) i = Some (Some n)) /\
  (forall j y, i = S j -> nth_error l i = Some None -> nth_error l j = Some y ->
     nth_error (eff_nums l) i = Some y).
Proof.
  unfold eff_nums. split; [apply fill_nums_length|]. split.
  - intros n H. rewrite (fill_nums_nth _ _ _ _ H). reflexivity.
  - intros j y -> H Hj. rewrite (fill_nums_nth _ _ _ _ H), Hj. reflexivity.
Qed.

(* ---- note-array columns *)
Theorem na_columns_spec cp t :
  na_ts cp t = ts_map cp t /\ na_ks cp t = ks_map cp t /\
  (let '(down, pos, len) := na_metrical cp t in (pos, len) = metpos cp t /\ (down = 1 <-> pos = 0) /\ (down = 0 \/ down = 1)).
Proof.
  split; [reflexivity|]. split; [reflexivity|].
  unfold na_metrical. destruct (metpos cp t) as [pos len].
  split; [reflexivity|]. destruct (pos =? 0) eqn:E; lia.
Qed.

(* a table with a single element is constant (interp1d's single-sample branch) *)
Lemma lookup_single {A} first (t0 : Z) (v0 d : A) t : lookup_bf first [(t0, v0)] d t = v0.
Proof.
  unfold lookup_bf, backfill. destruct (first <? t0); simpl.
  - destruct (first <=? t); [destruct (t0 <=? t)|]; reflexivity.
  - destruct (t0 <=? t); reflexivity.
Qed.

(* ---- worked example: pickup of 4 divisions in 4/4 at 4 divisions per quarter, then two full bars *)
Definition ex10 : cpart :=
  mk_cpart (mk_part 0 36 [(0, 4)] [mk_tsig 0 4 4 4] (Some (0, 4))) false
    [(0, (-3, -1)); (20, (2, 1))] 2 [(0, (1, 0, 2, 0)); (20, (1, 1, 4, 0))]
    [(0, (0, 4, Some 0)); (4, (4, 20, Some 1)); (20, (20, 36, Some 1))].

Example ex10_values :
  measure_map ex10 2 = Some (-12, 4) /\ measure_number_map ex10 2 = Some 0 /\ metpos ex10 2 = (14, 16) /\
  measure_map ex10 25 = Some (20, 36) /\ metpos ex10 25 = (5, 16) /\
  ts_map ex10 25 = (4, 4, 4) /\ ks_map ex10 19 = (-3, -1) /\ ks_map ex10 20 = (2, 1) /\
  clef_map ex10 25 = [(1, 1, 4, 0); (2, 6, 0, 0)].
Proof. vm_compute. repeat split; reflexivity. Qed.

(* the hypotheses of first_measure_spec / later_measure_spec are satisfiable: ex10 is well-formed, contiguous,
   its first measure is a pickup taken to be 16 divisions long; numbering 0, 1, 1 (number 0, repeated number) *)
Example ex10_hyps :
  meas_wf (c_meas ex10) /\ meas_contig (c_meas ex10) /\ pickup_len ex10 = Some 16 /\
  measure_number_map ex10 25 = Some 1 /\ measure_number_map ex10 0 = Some 0.
Proof. vm_compute. repeat split; try reflexivity; try discriminate. Qed.

(* numbers as written 0, None, 7, None, None: the second takes 0, the fourth 7, the fifth stays without;
   a first un-numbered measure takes the last one's number as written *)
Example eff_nums_example :
  eff_nums [Some 0; None; Some 7; None; None] = [Some 0; Some 0; Some 7; Some 7; None] /\
  eff_nums [None; Some 3; Some (-2)] = [Some (-2); Some 3; Some (-2)].
Proof. vm_compute. split; reflexivity. Qed.

(* known finding C10-K1: with a single measure the metrical position is (0, 0), not (t - start, length) *)
Definition ex10_single : cpart :=
  mk_cpart (mk_part 0 16 [(0, 4)] [mk_tsig 0 4 4 4] (Some (0, 16))) false [] 1 [] [(0, (0, 16, Some 1))].

Lemma metpos_single_measure_refuted :
  exists cp t s e n, c_meas cp = [(s, (s, e, n))] /\ s <= t < e /\ metpos cp t <> (t - s, e - s).
Proof. exists ex10_single, 3, 0, 16, (Some 1). split; [reflexivity|]. split; [lia|]. vm_compute. discriminate. Qed.

(* ---- T2: mode and clef-sign codes as the implementation computes them *)
Definition mode_name (code : Z) : string := if code =? -1 then "minor"%string else "major"%string.

Lemma impl_mode_codes : forall sp, 0 <= sp <= 5 ->
  In (sp, Some (mode_code sp), Some (mode_name (mode_code sp))) tab_mode.
Proof.
  intros sp H. assert (sp = 0 \/ sp = 1 \/ sp = 2 \/ sp = 3 \/ sp = 4 \/ sp = 5) as Hc by lia.
  destruct Hc as [->|[->|[->|[->|[->| ->]]]]]; vm_compute; tauto.
Qed.

(* clef_sign_to_int numbers the signs 0..6 in the order of clef_signs and clef_int_to_sign is its inverse *)
Lemma impl_clef_codes : forall i s, nth_error clef_signs i = Some s ->
  In (s, Some (Z.of_nat i), Some s) tab_clef.
Proof.
  intros i s H. do 7 (destruct i as [|i]; [inversion H; subst; vm_compute; tauto|]).
  destruct i; inversion H.
Qed.

(* ---- the three "previous" maps are instances of lookup_bf *)
Lemma ts_map_spec cp t : keys_incr (ts_tbl cp) ->
  (ts_tbl cp = [] -> ts_map cp t = (4, 4, 4)) /\
  (forall v, in_force (ts_tbl cp) t v -> ts_map cp t = v) /\
  (forall t0 v0 r, ts_tbl cp = (t0, v0) :: r -> (forall k v, In (k, v) (ts_tbl cp) -> t < k) -> ts_map cp t = v0).
Proof. apply lookup_bf_spec. Qed.

Lemma ks_map_spec cp t : keys_incr (c_kss cp) ->
  (c_kss cp = [] -> ks_map cp t = (0, 1)) /\
  (forall v, in_force (c_kss cp) t v -> ks_map cp t = v) /\
  (forall t0 v0 r, c_kss cp = (t0, v0) :: r -> (forall k v, In (k, v) (c_kss cp) -> t < k) -> ks_map cp t = v0).
Proof. apply lookup_bf_spec. Qed.

Lemma clef_staff_spec cp s t : keys_incr (staff_tbl cp s) ->
  (staff_tbl cp s = [] -> clef_staff cp s t = (s, 6, 0, 0)) /\
  (forall v, in_force (staff_tbl cp s) t v -> clef_staff cp s t = v) /\
  (forall t0 v0 r, staff_tbl cp s = (t0, v0) :: r -> (forall k v, In (k, v) (staff_tbl cp s) -> t < k) -> clef_staff cp s t = v0).
Proof. apply lookup_bf_spec. Qed.
