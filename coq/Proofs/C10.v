(* C10 -- proofs about the signature / clef / measure map model (Model/C10.v). *)
From PV Require Import Lib.Base Lib.Round Model.C02 Model.C10 Proofs.C02_lib Gen.C10_Tab.
From Coq Require Import QArith.
#[local] Open Scope Z_scope.

(* the back-filled lookup is the plain scan with the first element's value as default *)
Lemma lookup_bf_prev {A} first (tbl : list (Z * A)) d t t0 v0 r :
  tbl = (t0, v0) :: r -> lookup_bf first tbl d t = prev_lookup tbl t v0.
Proof.
  intros ->. unfold lookup_bf, backfill.
  destruct (first <? t0) eqn:E; auto.
  change (prev_lookup ((first, v0) :: (t0, v0) :: r) t v0)
    with (if first <=? t then prev_lookup ((t0, v0) :: r) t v0 else v0).
  destruct (first <=? t) eqn:E2; auto.
  simpl. destruct (t0 <=? t) eqn:E3; auto. lia.
Qed.

(* SPEC of all "previous" maps: the value of the latest element starting at or before t;
   of the first element for positions before it; the documented default when there is none *)
Theorem lookup_bf_spec {A} first (tbl : list (Z * A)) d t : keys_incr tbl ->
  (tbl = [] -> lookup_bf first tbl d t = d) /\
  (forall v, in_force tbl t v -> lookup_bf first tbl d t = v) /\
  (forall t0 v0 r, tbl = (t0, v0) :: r -> (forall k v, In (k, v) tbl -> t < k) -> lookup_bf first tbl d t = v0).
Proof.
  intros Hs. split; [intros ->; reflexivity|]. split.
  - intros v Hf. destruct tbl as [|[t0 v0] r]; [destruct Hf as [k [[] _]]|].
    rewrite (lookup_bf_prev first _ d t t0 v0 r eq_refl).
    destruct Hf as [k [Hin [Hle Hmax]]].
    eapply in_force_unique; eauto.
    + eapply prev_lookup_in_force; eauto.
    + exists k; auto.
  - intros t0 v0 r E Hall. rewrite (lookup_bf_prev first _ d t t0 v0 r E).
    apply prev_lookup_default; auto.
Qed.

Lemma zrange_length : forall n lo, List.length (zrange lo n) = n.
Proof. induction n; intros; simpl; auto. Qed.

Lemma clef_map_length cp t : List.length (clef_map cp t) = Z.to_nat (c_nstaves cp).
Proof. unfold clef_map. rewrite map_length. apply zrange_length. Qed.

Lemma zrange_nth : forall n lo i, (i < n)%nat -> nth i (zrange lo n) 0 = lo + Z.of_nat i.
Proof.
  induction n as [|n IH]; intros lo i Hi; [lia|].
  destruct i as [|i]; simpl; [lia|]. rewrite IH by lia. lia.
Qed.

(* row s-1 of clef_map is the lookup in the clefs of staff s *)
Lemma clef_map_row cp t s : 1 <= s <= c_nstaves cp ->
  nth (Z.to_nat (s - 1)) (clef_map cp t) (clef_staff cp 0 t) = clef_staff cp s t.
Proof.
  intros Hs. unfold clef_map.
  rewrite (map_nth (fun s => clef_staff cp s t)). rewrite zrange_nth by lia. f_equal. lia.
Qed.

(* every entry of the table of staff s is a clef of that staff, and every clef of staff s is in it *)
Lemma staff_tbl_In cp s k st sg ln oc :
  In (k, (st, sg, ln, oc)) (staff_tbl cp s) <-> In (k, (st, sg, ln, oc)) (c_clefs cp) /\ st = s.
Proof.
  unfold staff_tbl. rewrite filter_In. simpl. split; intros [H1 H2]; split; auto; lia.
Qed.

(* ------------------------------------------------------------- measures *)
Lemma meas_tbl_cases cp :
  meas_tbl cp = c_meas cp \/
  exists s0 x e0 n0 r fb, c_meas cp = (s0, (x, e0, n0)) :: r /\ full_bar cp s0 = Some fb /\
    (inject_Z (e0 - s0) < fb)%Q /\
    meas_tbl cp = (e0 - round_half_even fb, (e0 - round_half_even fb, e0, n0)) :: r.
Proof.
  unfold meas_tbl. destruct (c_meas cp) as [|[s0 [[x e0] n0]] r]; auto.
  destruct (full_bar cp s0) as [fb|] eqn:Ef; auto.
  destruct (Qltb (inject_Z (e0 - s0)) fb) eqn:E; auto.
  right. exists s0, x, e0, n0, r, fb.
  split; [reflexivity|]. split; [exact Ef|]. split; [|reflexivity].
  unfold Qltb in E. apply negb_true_iff in E. apply Qle_bool_false. exact E.
Qed.

(* extent and number of the measure in force (the pickup row having been moved back a full bar) *)
Theorem measure_maps_spec cp t s e n : keys_incr (meas_tbl cp) ->
  in_force (meas_tbl cp) t (s, e, n) ->
  measure_map cp t = Some (s, e) /\ measure_number_map cp t = Some n.
Proof.
  intros Hs Hf. unfold measure_map, measure_number_map, meas_row, meas_row_of.
  destruct (meas_tbl cp) as [|[k0 v0] r] eqn:E; [destruct Hf as [k [[] _]]|].
  assert (prev_lookup ((k0, v0) :: r) t v0 = (s, e, n)) as ->.
  { destruct Hf as [k [Hin [Hle Hmax]]]. eapply in_force_unique; eauto.
    - eapply prev_lookup_in_force; eauto.
    - exists k; auto. }
  simpl. auto.
Qed.

(* bars: consecutive barlines *)
Lemma bar_tbl_In : forall bl b b' d, In (b, (b', d)) (bar_tbl bl) ->
  b' = b /\ exists l1 b1 l2, bl = l1 ++ b :: b1 :: l2 /\ d = b1 - b.
Proof.
  induction bl as [|b0 r IH]; intros b b' d H; [inversion H|].
  simpl in H. destruct r as [|b1 r']; [inversion H|].
  destruct H as [E|H].
  - inversion E; subst. split; auto. exists [], b1, r'. auto.
  - destruct (IH _ _ _ H) as [E' [l1 [b2 [l2 [Hl Hd]]]]]. split; auto.
    exists (b0 :: l1), b2, l2. rewrite Hl. auto.
Qed.

Theorem metpos_spec cp t b d m1 m2 r : meas_tbl cp = m1 :: m2 :: r ->
  keys_incr (bar_tbl (barlines cp)) -> in_force (bar_tbl (barlines cp)) t (b, d) ->
  metpos cp t = (t - b, d).
Proof.
  intros E Hs Hf. unfold metpos, metpos_of. rewrite E.
  destruct (bar_tbl (barlines cp)) as [|[k0 v0] bt] eqn:Eb; [destruct Hf as [k [[] _]]|].
  assert (prev_lookup ((k0, v0) :: bt) t v0 = (b, d)) as ->.
  { destruct Hf as [k [Hin [Hle Hmax]]]. eapply in_force_unique; eauto.
    - eapply prev_lookup_in_force; eauto.
    - exists k; auto. }
  reflexivity.
Qed.

Lemma metpos_few cp t : (List.length (meas_tbl cp) < 2)%nat -> metpos cp t = (0, 0).
Proof.
  unfold metpos, metpos_of. destruct (meas_tbl cp) as [|m1 [|m2 r]]; simpl; auto; lia.
Qed.

(* ---- worked example: pickup of 4 divisions in 4/4 at 4 divisions per quarter, then two full bars *)
Definition ex10 : cpart :=
  mk_cpart (mk_part 0 36 [(0, 4)] [mk_tsig 0 4 4 4] (Some (0, 4))) false
    [(0, (-3, -1)); (20, (2, 1))] 2 [(0, (1, 0, 2, 0)); (20, (1, 1, 4, 0))]
    [(0, (0, 4, 1)); (4, (4, 20, 2)); (20, (20, 36, 3))].

Example ex10_values :
  measure_map ex10 2 = Some (-12, 4) /\ measure_number_map ex10 2 = Some 1 /\ metpos ex10 2 = (14, 16) /\
  measure_map ex10 25 = Some (20, 36) /\ metpos ex10 25 = (5, 16) /\
  ts_map ex10 25 = (4, 4, 4) /\ ks_map ex10 19 = (-3, -1) /\ ks_map ex10 20 = (2, 1) /\
  clef_map ex10 25 = [(1, 1, 4, 0); (2, 6, 0, 0)].
Proof. vm_compute. repeat split; reflexivity. Qed.

(* known finding C10-K1: with a single measure the metrical position is (0, 0), not (t - start, length) *)
Definition ex10_single : cpart :=
  mk_cpart (mk_part 0 16 [(0, 4)] [mk_tsig 0 4 4 4] (Some (0, 16))) false [] 1 [] [(0, (0, 16, 1))].

Lemma metpos_single_measure_refuted :
  exists cp t s e n, c_meas cp = [(s, (s, e, n))] /\ s <= t < e /\ metpos cp t <> (t - s, e - s).
Proof. exists ex10_single, 3, 0, 16, 1. split; [reflexivity|]. split; [lia|]. vm_compute. discriminate. Qed.

(* ---- T2: mode and clef-sign codes as the implementation computes them *)
Definition mode_name (code : Z) : string := if code =? -1 then "minor"%string else "major"%string.

Lemma impl_mode_codes : forall sp, 0 <= sp <= 5 ->
  In (sp, Some (mode_code sp), Some (mode_name (mode_code sp))) tab_mode.
Proof.
  intros sp H. assert (sp = 0 \/ sp = 1 \/ sp = 2 \/ sp = 3 \/ sp = 4 \/ sp = 5) as Hc by lia.
  destruct Hc as [->|[->|[->|[->|[->| ->]]]]]; vm_compute; tauto.
Qed.

(* clef_sign_to_int numbers the signs 0..6 in the order of clef_signs and clef_int_to_sign is its inverse *)
Lemma impl_clef_codes : forall i s, nth_error clef_signs i = Some s ->
  In (s, Some (Z.of_nat i), Some s) tab_clef.
Proof.
  intros i s H. do 7 (destruct i as [|i]; [inversion H; subst; vm_compute; tauto|]).
  destruct i; inversion H.
Qed.

(* ---- the three "previous" maps are instances of lookup_bf *)
Lemma ts_map_spec cp t : keys_incr (ts_tbl cp) ->
  (ts_tbl cp = [] -> ts_map cp t = (4, 4, 4)) /\
  (forall v, in_force (ts_tbl cp) t v -> ts_map cp t = v) /\
  (forall t0 v0 r, ts_tbl cp = (t0, v0) :: r -> (forall k v, In (k, v) (ts_tbl cp) -> t < k) -> ts_map cp t = v0).
Proof. apply lookup_bf_spec. Qed.

Lemma ks_map_spec cp t : keys_incr (c_kss cp) ->
  (c_kss cp = [] -> ks_map cp t = (0, 1)) /\
  (forall v, in_force (c_kss cp) t v -> ks_map cp t = v) /\
  (forall t0 v0 r, c_kss cp = (t0, v0) :: r -> (forall k v, In (k, v) (c_kss cp) -> t < k) -> ks_map cp t = v0).
Proof. apply lookup_bf_spec. Qed.

Lemma clef_staff_spec cp s t : keys_incr (staff_tbl cp s) ->
  (staff_tbl cp s = [] -> clef_staff cp s t = (s, 6, 0, 0)) /\
  (forall v, in_force (staff_tbl cp s) t v -> clef_staff cp s t = v) /\
  (forall t0 v0 r, staff_tbl cp s = (t0, v0) :: r -> (forall k v, In (k, v) (staff_tbl cp s) -> t < k) -> clef_staff cp s t = v0).
Proof. apply lookup_bf_spec. Qed.
