(* C03 -- proofs, part 4: the IMPORTER's measure reader (Model/C03_Imp.v: imp, the transcription of
   _handle_measure/_handle_note) reads the exporter's stream of a measure exactly as the independent
   spec reader (interp) does -- same objects, same order, same start times and durations -- and gives
   the measure its extent [ms, me].  Together with interp_linearize this is the timing half of
   "saving and loading yields an equal score". *)
From PV Require Import Lib.Base Model.C03 Model.C03_Imp Proofs.C03 Proofs.C03_Seq.
From Coq Require Import Permutation.
#[local] Open Scope Z_scope.

Lemma imp_app a b s :
  imp (a ++ b) s = match imp a s with
                   | Some (x, s1) => match imp b s1 with
                                     | Some (y, s2) => Some (x ++ y, s2)
                                     | None => None
                                     end
                   | None => None
                   end.
Proof.
  revert s; induction a as [|e a IH]; intros s; simpl.
  - destruct (imp b s) as [[y s2]|]; reflexivity.
  - destruct (mstep e s) as [[p s1]|]; [|reflexivity].
    rewrite IH. destruct (imp a s1) as [[x s2]|]; [|reflexivity].
    destruct (imp b s2) as [[y s3]|]; [|reflexivity].
    rewrite app_assoc. reflexivity.
Qed.

(* the importer's loop invariant inside the measure [ms, B] *)
Definition st_ok (ms B : Z) (s : mst) : Prop :=
  mstart s = ms /\ ms <= mpos s /\ mpos s <= mmax s /\ mmax s <= B.

Lemma imp_fb ms B t s :
  st_ok ms B s -> ms <= t <= B ->
  imp (fb t (mpos s)) s = Some ([], mkM t (mprev s) (Z.max (mmax s) t) ms).
Proof.
  intros (H1 & H2 & H3 & H4) Ht. unfold fb.
  destruct (t >? mpos s) eqn:E1; [|destruct (t <? mpos s) eqn:E2]; simpl.
  - rewrite H1. f_equal. f_equal. f_equal; lia.
  - rewrite H1. destruct (mpos s - (mpos s - t) <? ms) eqn:E3; [lia|].
    f_equal. f_equal. f_equal; lia.
  - destruct s as [p pv m st]; simpl in *. subst st. f_equal. f_equal. f_equal; lia.
Qed.

Lemma st_ok_fb ms B t s :
  st_ok ms B s -> ms <= t <= B -> st_ok ms B (mkM t (mprev s) (Z.max (mmax s) t) ms).
Proof. intros (H1 & H2 & H3 & H4) Ht. unfold st_ok; simpl. lia. Qed.

Lemma mstep_other ms B o s :
  st_ok ms B s -> mpos s = o_onset o -> ms <= o_onset o <= B -> loc_ok ms B o ->
  mstep (oelem o) s = Some ([place_other o], s).
Proof.
  intros (H1 & H2 & H3 & H4) Hp Hb Hl. unfold oelem, place_other.
  destruct (o_div o) eqn:D; simpl; [rewrite Hp; reflexivity|].
  destruct (Hl D) as (L1 & L2 & L3). unfold mplaces.
  destruct (o_tag o =? TAG_LEFT) eqn:E1.
  - assert (o_onset o = ms) by (apply L1; lia).
    destruct (mstart s =? mpos s) eqn:E; [|lia]. simpl. rewrite Hp. reflexivity.
  - destruct (o_tag o =? TAG_RIGHT) eqn:E2.
    + assert (o_onset o = B) by (apply L2; lia).
      destruct (mmax s =? mpos s) eqn:E; [|lia]. simpl. rewrite Hp. reflexivity.
    + destruct (o_tag o =? TAG_PRINT) eqn:E3.
      * assert (Hx : o_onset o = ms) by (apply L3; lia). simpl. rewrite H1, Hx. reflexivity.
      * simpl. rewrite Hp. reflexivity.
Qed.

Lemma emit_others_imp ms B : forall Os s,
  st_ok ms B s -> others_in ms B Os ->
  match emit_others Os (mpos s) (mmax s) with
  | (es, t', mx') =>
      imp es s = Some (map place_other Os, mkM t' (mprev s) mx' ms) /\
      st_ok ms B (mkM t' (mprev s) mx' ms)
  end.
Proof.
  induction Os as [|o r IH]; intros s Hs Ho; simpl.
  - destruct s as [p pv m st]. destruct Hs as (H1 & H2 & H3 & H4). simpl in *. subst st.
    split; [reflexivity|]. unfold st_ok; simpl. lia.
  - inversion Ho as [|x y [Hb Hl] Hr]; subst x y.
    set (s1 := mkM (o_onset o) (mprev s) (Z.max (mmax s) (o_onset o)) ms).
    assert (Hs1 : st_ok ms B s1) by (apply st_ok_fb; assumption).
    specialize (IH s1 Hs1 Hr). simpl in IH.
    destruct (emit_others r (o_onset o) (Z.max (mmax s) (o_onset o))) as [[es t'] mx'].
    destruct IH as [IH1 IH2]. split; [|exact IH2].
    rewrite imp_app, (imp_fb ms B) by assumption. fold s1.
    change (imp (oelem o :: es) s1) with
      (match mstep (oelem o) s1 with
       | None => None
       | Some (a, s2) => match imp es s2 with None => None | Some (b, s3) => Some (a ++ b, s3) end
       end).
    rewrite (mstep_other ms B o s1 Hs1 eq_refl Hb Hl), IH1. reflexivity.
Qed.

(* tagged notes of the measure *)
Definition tn_in (ms B : Z) (N : list (note * bool)) : Prop :=
  Forall (fun p => ms <= onset (fst p) /\ 0 <= ndur (fst p) /\ onset (fst p) + ndur (fst p) <= B) N.

(* the importer's state when the note after [prev] is chord-tagged: prev_note is that note *)
Definition ready_m (prev : option note) (Os : list other) (last_t lno : Z) (s : mst) : Prop :=
  match prev with
  | Some p => lno = onset p /\ mprev s = Some (onset p, ndur p) /\ last_t = onset p + ndur p /\
              fst (span_le (onset p) Os) = []
  | None => True
  end.

Lemma others_in_span ms B t Os :
  others_in ms B Os -> others_in ms B (fst (span_le t Os)) /\ others_in ms B (snd (span_le t Os)).
Proof.
  intros H. unfold others_in in *. rewrite <- (span_le_app t Os) in H.
  apply Forall_app in H. exact H.
Qed.

Lemma mwv_imp ms B : forall N Os v last_t lno mx s prev,
  chord_ok prev N -> tn_in ms B N -> others_in ms B Os ->
  st_ok ms B s -> mpos s = last_t -> mmax s = mx ->
  ready_m prev Os last_t lno s ->
  match mwv v N Os last_t lno mx with
  | (es, t', mx') =>
      exists pv, imp es s = Some (mwv_placed N Os, mkM t' pv mx' ms) /\
                 st_ok ms B (mkM t' pv mx' ms)
  end.
Proof.
  induction N as [|[n ch] r IH]; intros Os v last_t lno mx s prev Hc Hn Ho Hs Hp Hm Hr.
  - simpl. subst last_t mx.
    pose proof (emit_others_imp ms B Os s Hs Ho) as H.
    destruct (emit_others Os (mpos s) (mmax s)) as [[es t'] mx'].
    destruct H as [H1 H2]. exists (mprev s). split; assumption.
  - simpl in Hc. destruct Hc as [Hch Hc]. inversion Hn as [|x y Hd Hn']; subst x y. simpl in Hd.
    destruct Hd as (Hd1 & Hd2 & Hd3).
    destruct (others_in_span ms B (onset n) Os Ho) as [Ho1 Ho2].
    pose proof (span_le_idem (onset n) Os) as Hidem.
    simpl.
    destruct ch.
    + (* chord-tagged: the importer takes start and duration from prev_note *)
      destruct (Hch eq_refl) as (p & -> & Hg & Hon & Hdur).
      destruct Hr as (Hl1 & Hl2 & Hl3 & Hsp).
      rewrite Hon in Hsp.
      destruct (span_le (onset n) Os) as [Os1 Os2] eqn:ES. simpl in Hsp, Ho2, Hidem. subst Os1.
      simpl.
      set (mx1 := Z.max mx (onset n + ndur n)).
      set (s1 := mkM (onset n + ndur n) (Some (onset n, ndur n)) (Z.max (mmax s) (onset n + ndur n)) ms).
      assert (Hs1 : st_ok ms B s1).
      { destruct Hs as (A1 & A2 & A3 & A4). unfold st_ok, s1; simpl. lia. }
      specialize (IH Os2 v (onset n + ndur n) (onset n) mx1 s1 (Some n) Hc Hn' Ho2 Hs1 eq_refl).
      destruct (mwv v r Os2 (onset n + ndur n) (onset n) mx1) as [[es2 t2] mx2].
      destruct IH as (pv & IH1 & IH2).
      * unfold s1, mx1; simpl. rewrite Hm. reflexivity.
      * unfold ready_m, s1; simpl. repeat split; assumption.
      * exists pv. split; [|assumption].
        replace lno with (onset n) by lia.
        assert (Hfb : fb (onset n) (onset n) = []).
        { unfold fb. rewrite Z.gtb_ltb, !Z.ltb_irrefl. reflexivity. }
        rewrite Hfb. simpl. rewrite Hl2.
        destruct Hs as (A1 & A2 & A3 & A4).
        rewrite A1, Hon, Hdur. fold s1. rewrite IH1. reflexivity.
    + (* ordinary note *)
      destruct (span_le (onset n) Os) as [Os1 Os2] eqn:ES. simpl in Ho1, Ho2, Hidem. simpl.
      subst last_t mx.
      pose proof (emit_others_imp ms B Os1 s Hs Ho1) as HE.
      destruct (emit_others Os1 (mpos s) (mmax s)) as [[es1 t1] mx1].
      destruct HE as [HE1 HE2].
      set (sa := mkM t1 (mprev s) mx1 ms) in *.
      set (sb := mkM (onset n) (mprev s) (Z.max mx1 (onset n)) ms).
      assert (Hsb : st_ok ms B sb) by (apply (st_ok_fb ms B (onset n) sa HE2); lia).
      set (mx2 := Z.max mx1 (onset n + ndur n)).
      set (sc := mkM (onset n + ndur n) (Some (onset n, ndur n))
                     (Z.max (Z.max mx1 (onset n)) (onset n + ndur n)) ms).
      assert (Hsc : st_ok ms B sc).
      { destruct Hsb as (A1 & A2 & A3 & A4). unfold st_ok, sb, sc in *; simpl in *. lia. }
      specialize (IH Os2 v (onset n + ndur n) (onset n) mx2 sc (Some n) Hc Hn' Ho2 Hsc eq_refl).
      destruct (mwv v r Os2 (onset n + ndur n) (onset n) mx2) as [[es2 t2] mx3].
      destruct IH as (pv & IH1 & IH2).
      * unfold sc, mx2; simpl. lia.
      * unfold ready_m, sc; simpl. repeat split; assumption.
      * exists pv. split; [|assumption].
        rewrite imp_app, HE1.
        assert (Hfb : imp (fb (onset n) t1) sa = Some ([], sb)).
        { change t1 with (mpos sa). rewrite (imp_fb ms B) by (try assumption; lia). reflexivity. }
        rewrite imp_app, Hfb. simpl. fold sc. rewrite IH1. reflexivity.
Qed.

(* ------------------------------------------------------------------ voices, segments, the measure *)

Lemma tn_in_tag ms B l prev : notes_in ms B l -> tn_in ms B (tag_chords prev l).
Proof.
  intros H. unfold tn_in. rewrite <- (tag_chords_fst l prev) in H.
  unfold notes_in in H. rewrite Forall_map in H.
  eapply Forall_impl; [|exact H]. intros [n ch] (H1 & H2 & H3); simpl in *.
  repeat split; try assumption. unfold ndur. destruct (grace n); lia.
Qed.

Lemma notes_in_perm ms B a b : Permutation a b -> notes_in ms B a -> notes_in ms B b.
Proof. intros P H. unfold notes_in in *. eapply Permutation_Forall; eassumption. Qed.

Lemma lin_voices_imp ms B : forall vs first Os pos mx s,
  Forall (fun vl => notes_in ms B (snd vl)) vs -> others_in ms B Os ->
  st_ok ms B s -> mpos s = pos -> mmax s = mx ->
  match lin_voices first vs Os pos mx with
  | (es, p', m') => exists pv, imp es s = Some (lv_placed first vs Os, mkM p' pv m' ms) /\
                               st_ok ms B (mkM p' pv m' ms)
  end.
Proof.
  induction vs as [|[v l] r IH]; intros first Os pos mx s Hd Ho Hs Hp Hm; simpl.
  - exists (mprev s). destruct s as [p pv m st]. destruct Hs as (A1 & A2 & A3 & A4).
    simpl in *; subst. split; [reflexivity|]. unfold st_ok; simpl. lia.
  - inversion Hd as [|x y Hd1 Hd2]; subst x y. simpl in Hd1.
    set (N := tag_chords None (sort_notes l)).
    set (Os' := if first then Os else []).
    assert (Ho' : others_in ms B Os') by (unfold Os'; destruct first; [assumption|constructor]).
    pose proof (mwv_imp ms B N Os' v pos pos mx s None) as HM.
    destruct (mwv v N Os' pos pos mx) as [[es p] m].
    destruct HM as (pv1 & HM1 & HM2); try assumption.
    + apply tag_chords_ok. exact I.
    + apply tn_in_tag. eapply notes_in_perm; [apply Permutation_sym, sort_notes_perm|assumption].
    + exact I.
    + specialize (IH false Os p m (mkM p pv1 m ms) Hd2 Ho HM2 eq_refl eq_refl).
      destruct (lin_voices false r Os p m) as [[es' p'] m'].
      destruct IH as (pv2 & IH1 & IH2).
      exists pv2. split; [|assumption].
      rewrite imp_app, HM1, IH1. reflexivity.
Qed.

(* what both readers output for the segments of a measure *)
Fixpoint ls_placed (segs : list (list note * list other)) : list placed :=
  match segs with
  | [] => []
  | (ns, Os) :: r => lv_placed true (voices_of ns) (sort_others Os) ++ ls_placed r
  end.

Lemma voices_notes_in ms B ns :
  notes_in ms B ns -> Forall (fun vl => notes_in ms B (snd vl)) (voices_of ns).
Proof.
  intros H. apply Forall_forall. intros [v l] Hin. simpl.
  unfold notes_in in *. apply Forall_forall. intros n Hn.
  assert (Hf : In n (flat_map snd (voices_of ns))).
  { apply in_flat_map. exists (v, l). split; assumption. }
  eapply Permutation_in in Hf; [|apply voices_of_perm].
  rewrite Forall_forall in H. auto.
Qed.

Lemma lin_segs_imp ms B : forall segs pos mx s,
  segs_in ms B segs -> st_ok ms B s -> mpos s = pos -> mmax s = mx ->
  match lin_segs segs pos mx with
  | (es, p', m') => exists pv, imp es s = Some (ls_placed segs, mkM p' pv m' ms) /\
                               st_ok ms B (mkM p' pv m' ms)
  end.
Proof.
  induction segs as [|[ns Os] r IH]; intros pos mx s Hin Hs Hp Hm; simpl.
  - exists (mprev s). destruct s as [p pv m st]. destruct Hs as (A1 & A2 & A3 & A4).
    simpl in *; subst. split; [reflexivity|]. unfold st_ok; simpl. lia.
  - inversion Hin as [|x y [Hn Ho] Hin']; subst x y. simpl in Hn, Ho.
    unfold lin_segment.
    assert (Ho' : others_in ms B (sort_others Os)).
    { unfold others_in in *. eapply Permutation_Forall; [apply Permutation_sym, sort_others_perm|assumption]. }
    pose proof (lin_voices_imp ms B (voices_of ns) true (sort_others Os) pos mx s
                  (voices_notes_in ms B ns Hn) Ho' Hs Hp Hm) as H.
    destruct (lin_voices true (voices_of ns) (sort_others Os) pos mx) as [[es p] m].
    destruct H as (pv1 & H1 & H2).
    specialize (IH p m (mkM p pv1 m ms) Hin' H2 eq_refl eq_refl).
    destruct (lin_segs r p m) as [[es' p'] m'].
    destruct IH as (pv2 & I1 & I2).
    exists pv2. split; [|assumption].
    rewrite imp_app, H1, I1. reflexivity.
Qed.

(* the spec reader outputs the same list (exact order) *)
Lemma durs_of_in ms B l : notes_in ms B l -> durs_ok l.
Proof.
  intros H. unfold notes_in, durs_ok in *. eapply Forall_impl; [|exact H].
  intros n (H1 & H2 & H3). exact H2.
Qed.

Lemma lin_segs_interp_exact ms B : forall segs pos mx s,
  segs_in ms B segs -> ipos s = pos -> imax s = mx -> pos <= mx ->
  match lin_segs segs pos mx with
  | (es, p', m') => exists l', interp es s = (ls_placed segs, mkI p' l' m') /\ p' <= m'
  end.
Proof.
  induction segs as [|[ns Os] r IH]; intros pos mx s Hin Hp Hm Hle; simpl.
  - exists (ilast s). destruct s; simpl in *; subst. split; [reflexivity|assumption].
  - inversion Hin as [|x y [Hn Ho] Hin']; subst x y. simpl in Hn, Ho.
    unfold lin_segment.
    pose proof (lin_voices_interp (voices_of ns) true (sort_others Os) pos mx s
                  (voices_durs_ok ns (durs_of_in ms B ns Hn)) Hp Hm Hle) as H.
    destruct (lin_voices true (voices_of ns) (sort_others Os) pos mx) as [[es p] m].
    destruct H as (l1 & H1 & H2).
    specialize (IH p m (mkI p l1 m) Hin' eq_refl eq_refl H2).
    destruct (lin_segs r p m) as [[es' p'] m'].
    destruct IH as (l2 & I1 & I2).
    exists l2. split; [|assumption].
    rewrite interp_app, H1, I1. reflexivity.
Qed.

(* O2, timing: the importer reads the exporter's measure as the spec reader does, and the loaded
   measure has the extent [ms, me] *)
Lemma importer_reads_measure_lemma : forall segs ms me,
  ms <= me -> segs_in ms me segs ->
  exists s', imp (lin_measure segs ms me) (mkM ms None ms ms) =
             Some (fst (interp (lin_measure segs ms me) (mkI ms ms ms)), s') /\
             mstart s' = ms /\ mmax s' = me.
Proof.
  intros segs ms me Hle Hin. unfold lin_measure.
  assert (Hs0 : st_ok ms me (mkM ms None ms ms)) by (unfold st_ok; simpl; lia).
  pose proof (lin_segs_imp ms me segs ms ms (mkM ms None ms ms) Hin Hs0 eq_refl eq_refl) as HI.
  pose proof (lin_segs_interp_exact ms me segs ms ms (mkI ms ms ms) Hin eq_refl eq_refl (Z.le_refl _)) as HS.
  destruct (lin_segs segs ms ms) as [[es p] m].
  destruct HI as (pv & HI1 & HI2). destruct HS as (l' & HS1 & HS2).
  destruct (m <? me) eqn:E.
  - exists (mkM me pv (Z.max m me) ms). repeat split; simpl; try lia.
    assert (F1 : imp (fb me p) (mkM p pv m ms) = Some ([], mkM me pv (Z.max m me) ms)).
    { change p with (mpos (mkM p pv m ms)) at 1. rewrite (imp_fb ms me) by (try assumption; lia). reflexivity. }
    assert (F2 : interp (fb me p) (mkI p l' m) = ([], mkI me l' (Z.max m me))).
    { change p with (ipos (mkI p l' m)) at 1. rewrite interp_fb by (simpl; lia). reflexivity. }
    rewrite imp_app, HI1, F1, interp_app, HS1, F2. simpl. reflexivity.
  - exists (mkM p pv m ms). rewrite HI1, HS1. simpl. repeat split.
    destruct HI2 as (A1 & A2 & A3 & A4). simpl in *. lia.
Qed.

(* ... and therefore places every note of the measure at its onset with its duration (multiset) *)
Lemma importer_places_notes_lemma : forall segs ms me,
  ms <= me -> segs_in ms me segs ->
  exists pl s', imp (lin_measure segs ms me) (mkM ms None ms ms) = Some (pl, s') /\
                Permutation pl (flat_map seg_placed segs) /\ mmax s' = me.
Proof.
  intros segs ms me Hle Hin.
  destruct (importer_reads_measure_lemma segs ms me Hle Hin) as (s' & H1 & H2 & H3).
  assert (Hok : segs_ok segs).
  { unfold segs_ok, segs_in in *. eapply Forall_impl; [|exact Hin].
    intros seg [Hn _]. exact (durs_of_in ms me _ Hn). }
  destruct (interp_linearize_lemma segs ms me Hok) as (pl & si & I1 & I2 & _).
  exists pl, s'. rewrite H1, I1. simpl. repeat split; assumption.
Qed.

Lemma segs_in_b_true ms me segs : segs_in_b ms me segs = true -> segs_in ms me segs.
Proof.
  unfold segs_in_b, segs_in. rewrite forallb_forall. intros H.
  apply Forall_forall. intros seg Hs. specialize (H seg Hs).
  apply andb_true_iff in H as [Hn Ho]. split.
  - unfold notes_in. apply Forall_forall. intros n Hi.
    rewrite forallb_forall in Hn. specialize (Hn n Hi). lia.
  - unfold others_in. apply Forall_forall. intros o Hi.
    rewrite forallb_forall in Ho. specialize (Ho o Hi).
    apply andb_true_iff in Ho as [Hb Hl]. split; [lia|].
    unfold loc_ok_b in Hl. unfold loc_ok. intros D. rewrite D in Hl.
    apply andb_true_iff in Hl as [Hl L3]. apply andb_true_iff in Hl as [L1 L2].
    repeat split; intros E; rewrite E in *; simpl in *; lia.
Qed.

Lemma placed_eqb_refl p : placed_eqb p p = true.
Proof. destruct p; simpl; rewrite ?Z.eqb_refl; reflexivity. Qed.

Lemma placed_list_eqb_refl l : placed_list_eqb l l = true.
Proof.
  unfold placed_list_eqb. induction l as [|p r IH]; simpl; [reflexivity|].
  rewrite placed_eqb_refl, IH. reflexivity.
Qed.

(* the checker evaluated on every written measure is passed by the model's stream *)
Lemma lin_measure_passes_imp_lemma : forall segs ms me,
  ms <= me -> segs_in_b ms me segs = true ->
  imp_measure_b (segs, ms, me, lin_measure segs ms me) = true.
Proof.
  intros segs ms me Hle Hb. apply segs_in_b_true in Hb.
  destruct (importer_reads_measure_lemma segs ms me Hle Hb) as (s' & H1 & H2 & H3).
  unfold imp_measure_b. rewrite H1, placed_list_eqb_refl, H3, Z.eqb_refl. reflexivity.
Qed.

Lemma segs_in_ok ms me segs : segs_in ms me segs ->
  segs_ok segs /\ Forall (fun seg => notes_le me (fst seg) /\ others_le me (snd seg)) segs.
Proof.
  intros H. split.
  - unfold segs_ok, segs_in in *. eapply Forall_impl; [|exact H].
    intros seg [Hn _]. exact (durs_of_in ms me _ Hn).
  - unfold segs_in in H. eapply Forall_impl; [|exact H].
    intros seg [Hn Ho]. split.
    + unfold notes_le, notes_in in *. eapply Forall_impl; [|exact Hn]. intros n (A & B & C). exact C.
    + unfold others_le, others_in in *. eapply Forall_impl; [|exact Ho]. intros o [[A B] _]. exact B.
Qed.

(* the whole per-measure checker of the correspondence (spec, exporter model, importer model, hypotheses) *)
Lemma lin_measure_passes_all_lemma : forall segs ms me,
  ms <= me -> segs_in_b ms me segs = true ->
  check_measure_all (segs, ms, me, lin_measure segs ms me) = true.
Proof.
  intros segs ms me Hle Hb. unfold check_measure_all.
  pose proof (segs_in_b_true ms me segs Hb) as Hin.
  destruct (segs_in_ok ms me segs Hin) as [Hok Hall].
  rewrite (lin_measure_passes_check_lemma segs ms me Hok Hle Hall).
  rewrite (lin_measure_passes_imp_lemma segs ms me Hle Hb).
  unfold imp_hyp_b. rewrite Hb. destruct (ms <=? me) eqn:E; [reflexivity|lia].
Qed.

(* ------------------------------------------------------------------ non-vacuity / boundary *)

(* a measure with an equal-duration chord, a grace note, a gap, a second voice, a left and a right
   barline and a <print> *)
Definition imp_ex_seg : list note * list other :=
  ([mkN 1 8 4 1 false (-480); mkN 2 8 4 1 false (-500); mkN 3 12 0 1 true 0; mkN 4 12 4 1 false (-480);
    mkN 5 10 6 2 false (-400)],
   [mkO 8 TAG_LEFT None; mkO 8 TAG_PRINT None; mkO 8 1 (Some 4); mkO 24 TAG_RIGHT None]).

Example imp_ex_hyp : segs_in 8 24 [imp_ex_seg].
Proof. apply segs_in_b_true. vm_compute. reflexivity. Qed.

Example imp_ex_run :
  lin_measure [imp_ex_seg] 8 24 =
    [EOther TAG_LEFT; EDivisions 4; EOther TAG_PRINT; ENote 2 4 false false 1; ENote 1 4 true false 1;
     ENote 3 0 false true 1; ENote 4 4 false false 1; EForward 8; EOther TAG_RIGHT;
     EBackup 14; ENote 5 6 false false 2] /\
  imp (lin_measure [imp_ex_seg] 8 24) (mkM 8 None 8 8) =
    Some ([POther TAG_LEFT 8; POther 1 8; POther TAG_PRINT 8; PNote 2 8 4; PNote 1 8 4; PNote 3 12 0;
           PNote 4 12 4; POther TAG_RIGHT 24; PNote 5 10 6], mkM 16 (Some (10, 6)) 24 8).
Proof. split; vm_compute; reflexivity. Qed.

(* where the importer's reader and the spec reader part: a <chord/> after a <backup> (the importer goes
   back to prev_note, the spec reader too -- but the importer's position afterwards is prev_note's end) *)
Example imp_differs_from_interp :
  imp [ENote 1 4 false false 1; EBackup 2; ENote 2 4 true false 1; ENote 3 2 false false 1] (mkM 0 None 0 0) =
    Some ([PNote 1 0 4; PNote 2 0 4; PNote 3 4 2], mkM 6 (Some (4, 2)) 6 0) /\
  fst (interp [ENote 1 4 false false 1; EBackup 2; ENote 2 4 true false 1; ENote 3 2 false false 1] (mkI 0 0 0)) =
    [PNote 1 0 4; PNote 2 0 4; PNote 3 2 2].
Proof. split; vm_compute; reflexivity. Qed.

(* ------------------------------------------------------------------ whole parts *)

Lemma imp_part_app : forall es s pl s' rest st,
  imp es s = Some (pl, s') ->
  imp_part (es ++ rest) s st =
  match imp_part rest s' st with Some (pl', mm) => Some (pl ++ pl', mm) | None => None end.
Proof.
  induction es as [|e r IH]; intros s pl s' rest st H.
  - simpl in H. inversion H; subst. simpl. destruct (imp_part rest s' st) as [[pl' mm]|]; reflexivity.
  - simpl in H. destruct (mstep e s) as [[a s1]|] eqn:E; [|discriminate].
    destruct (imp r s1) as [[b s2]|] eqn:E2; [|discriminate].
    inversion H; subst. specialize (IH s1 b s' rest st E2).
    destruct e; try discriminate E;
      (cbn [app imp_part]; rewrite E, IH;
       destruct (imp_part rest s' st) as [[pl' mm]|]; [rewrite app_assoc|]; reflexivity).
Qed.

(* the importer reads a whole written part measure by measure as the spec reader does, and the loaded
   measures have exactly the extents of the score's measures *)
Lemma importer_reads_part_lemma : forall M t s started,
  contiguous t M -> mmax s = t ->
  imp_part (part_stream M) s started =
  Some (part_placed M, (if started then [(mstart s, mmax s)] else []) ++ part_extents M).
Proof.
  induction M as [|[[segs ms] me] r IH]; intros t s started Hc Hm.
  - simpl. rewrite app_nil_r. destruct started; reflexivity.
  - simpl in Hc. destruct Hc as (E & Hle & Hin & Hc). subst ms.
    destruct (importer_reads_measure_lemma segs t me Hle Hin) as (s' & H1 & H2 & H3).
    change (part_stream ((segs, t, me) :: r)) with (EBar :: (lin_measure segs t me ++ part_stream r)).
    cbn [imp_part]. rewrite Hm.
    rewrite (imp_part_app _ _ _ _ (part_stream r) true H1).
    rewrite (IH me s' true Hc H3). rewrite H2, H3.
    simpl. reflexivity.
Qed.
