(* C01 -- Part._add_point / _remove_point / _cleanup_point keep the time-point list well formed. *)
From PV Require Import Lib.Base Gen.C01_ClassTree Model.C01 Model.C01_Spec Proofs.C01_lib.
From Coq Require Import Sorting.Sorted.

(* the part of the invariant that talks about the point list alone *)
Record PInv (tab : list (Z * Z)) (ps : list point) : Prop := mkPInv {
  pi_nonneg : Forall (fun q => 0 <= pt q) ps;
  pi_sorted : StronglySorted Z.lt (map pt ps);
  pi_links : chain None ps None;
  pi_nodup : Forall (fun q => NoDup (pstart q) /\ NoDup (pend q)) ps;
  pi_quarter : Forall (fun q => pq q = qd_at tab (pt q)) ps }.

(* predicates that do not look at the links *)
Definition linkfree (P : point -> Prop) : Prop :=
  forall v q, P q -> P (set_next v q) /\ P (set_prev v q).

Lemma linkfree_nonneg : linkfree (fun q => 0 <= pt q).
Proof. intros v q H; auto. Qed.
Lemma linkfree_nodup : linkfree (fun q => NoDup (pstart q) /\ NoDup (pend q)).
Proof. intros v q H; auto. Qed.
Lemma linkfree_quarter tab : linkfree (fun q => pq q = qd_at tab (pt q)).
Proof. intros v q H; auto. Qed.
Lemma linkfree_nonempty : linkfree nonempty_point.
Proof. intros v q H; auto. Qed.
Lemma linkfree_or_at t P : linkfree P -> linkfree (fun q => pt q = t \/ P q).
Proof. intros L v q [H|H]; [auto|]. destruct (L v q H). auto. Qed.

Lemma Forall_relink_ins P l r x v w : linkfree P -> Forall P (l ++ r) -> P x ->
  Forall P (upd_last (set_next v) l ++ x :: upd_head (set_prev w) r).
Proof.
  intros L F Hx. apply Forall_app in F as [Fl Fr]. apply Forall_app. split.
  - apply Forall_upd_last; auto. intros a Ha. apply L; auto.
  - constructor; auto. apply Forall_upd_head; auto. intros a Ha. apply L; auto.
Qed.

Lemma Forall_relink_del P l q r v w : linkfree P -> Forall P (l ++ q :: r) ->
  Forall P (upd_last (set_next v) l ++ upd_head (set_prev w) r).
Proof.
  intros L F. apply Forall_app in F as [Fl Fr]. inversion Fr; subst. apply Forall_app. split.
  - apply Forall_upd_last; auto. intros a Ha. apply L; auto.
  - apply Forall_upd_head; auto. intros a Ha. apply L; auto.
Qed.

Lemma pt_set_next v x : pt (set_next v x) = pt x. Proof. reflexivity. Qed.
Lemma pt_set_prev v x : pt (set_prev v x) = pt x. Proof. reflexivity. Qed.

(* ---------------------------------------------------------------- _add_point *)
Lemma add_point_fresh t qd ps :
  get_point t ps = None ->
  exists tp',
    add_point (fresh_point t qd) ps =
      upd_last (set_next (Some t)) (before t ps) ++ tp' :: upd_head (set_prev (Some t)) (from t ps)
    /\ pt tp' = t /\ pq tp' = qd /\ pstart tp' = [] /\ pend tp' = []
    /\ pprev tp' = lastt (before t ps) None /\ pnext tp' = hdt (from t ps) None.
Proof.
  intros G. unfold add_point. simpl pt.
  assert (C : match from t ps with q :: _ => negb (pt q =? t) | [] => true end = true).
  { unfold get_point in G. destruct (from t ps) as [|q r]; auto. destruct (pt q =? t); [discriminate|auto]. }
  rewrite C. eexists. split; [reflexivity|].
  unfold lastt. destruct (last_opt (before t ps)); destruct (from t ps); simpl; repeat split; auto.
Qed.

Lemma add_point_PInv tab t ps :
  PInv tab ps -> 0 <= t -> get_point t ps = None ->
  PInv tab (add_point (fresh_point t (qd_at tab t)) ps).
Proof.
  intros [H1 H2 H3 H4 H5] Ht G.
  destruct (add_point_fresh t (qd_at tab t) ps G) as [tp' [E [Et [Eq [Es [Ee [Ep En]]]]]]].
  rewrite E. pose proof (before_from t ps) as BF.
  split.
  - apply Forall_relink_ins; [apply linkfree_nonneg | rewrite BF; auto | lia].
  - rewrite map_app. simpl. rewrite (map_upd_last pt), (map_upd_head pt), Et by (intros; reflexivity).
    rewrite <- BF, map_app in H2. apply SS_app_iff in H2 as [A [B C]].
    assert (SSps : StronglySorted Z.lt (map pt ps)) by (rewrite <- BF, map_app; apply SS_app_iff; auto).
    pose proof (get_point_None t ps SSps G) as Gt'.
    apply SS_app_iff. split; auto. split.
    + constructor; auto. apply Forall_forall. intros y Hy. apply in_map_iff in Hy as [q [<- Hq]].
      rewrite Forall_forall in Gt'. apply Gt'; auto.
    + intros x y Hx Hy. apply in_map_iff in Hx as [q [<- Hq]].
      pose proof (before_lt t ps) as BL. rewrite Forall_forall in BL. specialize (BL q Hq).
      destruct Hy as [<-|Hy]; [lia|]. apply in_map_iff in Hy as [q' [<- Hq']].
      rewrite Forall_forall in Gt'. specialize (Gt' q' Hq'). lia.
  - rewrite <- BF in H3. apply chain_app in H3 as [A B].
    apply chain_app. split.
    + simpl. rewrite Et. eapply chain_upd_last; eauto.
    + rewrite lastt_upd_last by apply pt_set_next. simpl. split; auto. split.
      * rewrite hdt_upd_head by apply pt_set_prev. auto.
      * rewrite Et. eapply chain_upd_head; eauto.
  - apply Forall_relink_ins; [apply linkfree_nodup | rewrite BF; auto |]. rewrite Es, Ee. split; constructor.
  - apply Forall_relink_ins; [apply linkfree_quarter | rewrite BF; auto |]. rewrite Eq, Et. auto.
Qed.

Lemma add_point_regs s t qd ps :
  get_point t ps = None -> regs s (add_point (fresh_point t qd) ps) = regs s ps.
Proof.
  intros G. destruct (add_point_fresh t qd ps G) as [tp' [E [Et [Eq [Es [Ee _]]]]]]. rewrite E.
  rewrite regs_app. change (tp' :: upd_head (set_prev (Some t)) (from t ps)) with ([tp'] ++ upd_head (set_prev (Some t)) (from t ps)).
  rewrite regs_app, regs_links_last, regs_links_head by (intros; first [apply preg_set_next | apply preg_set_prev]).
  assert (R : regs s [tp'] = []) by (unfold regs; simpl; destruct s; simpl; [rewrite Es | rewrite Ee]; auto).
  rewrite R. simpl. rewrite <- regs_app, before_from. auto.
Qed.

Lemma add_point_has t qd ps :
  get_point t ps = None -> exists q, In q (add_point (fresh_point t qd) ps) /\ pt q = t.
Proof.
  intros G. destruct (add_point_fresh t qd ps G) as [tp' [E [Et _]]]. rewrite E.
  exists tp'. split; auto. apply in_app_iff. right. left. auto.
Qed.

Lemma add_point_Forall P t qd ps :
  linkfree P -> Forall P ps -> get_point t ps = None ->
  Forall (fun q => pt q = t \/ P q) (add_point (fresh_point t qd) ps).
Proof.
  intros L F G. destruct (add_point_fresh t qd ps G) as [tp' [E [Et _]]]. rewrite E.
  apply Forall_relink_ins; [apply linkfree_or_at; auto | | auto].
  rewrite before_from. eapply Forall_impl; [|exact F]. auto.
Qed.

(* ---------------------------------------------------------------- _remove_point *)
Lemma remove_point_member ps q :
  StronglySorted Z.lt (map pt ps) -> In q ps ->
  exists r, ps = before (pt q) ps ++ q :: r /\
    remove_point (pt q) ps =
      Some (upd_last (set_next (hdt r None)) (before (pt q) ps)
            ++ upd_head (set_prev (lastt (before (pt q) ps) None)) r).
Proof.
  intros S Hin. destruct (from_member ps q S Hin) as [r Hr]. exists r. split.
  - rewrite <- Hr. symmetry. apply before_from.
  - unfold remove_point. rewrite Hr, Z.eqb_refl. auto.
Qed.

Lemma Forall_relink_del' P l r v w : linkfree P -> Forall P l -> Forall P r ->
  Forall P (upd_last (set_next v) l ++ upd_head (set_prev w) r).
Proof.
  intros L Fl Fr. apply Forall_app. split.
  - apply Forall_upd_last; auto. intros a Ha. apply L; auto.
  - apply Forall_upd_head; auto. intros a Ha. apply L; auto.
Qed.

Lemma remove_point_PInv tab ps q ps' :
  PInv tab ps -> In q ps -> remove_point (pt q) ps = Some ps' -> PInv tab ps'.
Proof.
  intros [H1 H2 H3 H4 H5] Hin R.
  destruct (remove_point_member ps q H2 Hin) as [r [E R']]. rewrite R' in R. inversion R; subst ps'. clear R R'.
  set (l := before (pt q) ps) in *.
  assert (Fsplit : forall P, Forall P ps -> Forall P l /\ Forall P r).
  { intros P F. rewrite E in F. apply Forall_app in F as [A B]. inversion B; auto. }
  split.
  - destruct (Fsplit _ H1). apply Forall_relink_del'; auto. apply linkfree_nonneg.
  - rewrite map_app, (map_upd_last pt), (map_upd_head pt) by (intros; reflexivity).
    rewrite E, map_app in H2. simpl in H2. apply SS_app_iff in H2 as [A [B C]].
    apply SS_cons_inv in B as [B1 B2]. apply SS_app_iff. split; auto. split; auto.
    intros x y Hx Hy. apply C; auto. right; auto.
  - rewrite E in H3. apply chain_app in H3 as [A B]. simpl in B. destruct B as [B1 [B2 B3]].
    apply chain_app. split.
    + rewrite hdt_upd_head by apply pt_set_prev. eapply chain_upd_last; eauto.
    + rewrite lastt_upd_last by apply pt_set_next. eapply chain_upd_head; eauto.
  - destruct (Fsplit _ H4). apply Forall_relink_del'; auto. apply linkfree_nodup.
  - destruct (Fsplit _ H5). apply Forall_relink_del'; auto. apply linkfree_quarter.
Qed.

Lemma remove_point_regs s ps q ps' :
  StronglySorted Z.lt (map pt ps) -> In q ps -> preg s q = [] ->
  remove_point (pt q) ps = Some ps' -> regs s ps' = regs s ps.
Proof.
  intros S Hin Hq R. destruct (remove_point_member ps q S Hin) as [r [E R']]. rewrite R' in R. inversion R; subst ps'.
  rewrite regs_app, regs_links_last, regs_links_head by (intros; first [apply preg_set_next | apply preg_set_prev]).
  transitivity (regs s (before (pt q) ps ++ [q] ++ r)); [|simpl; rewrite <- E; auto].
  rewrite !regs_app.
  assert (Rq : regs s [q] = []) by (unfold regs; simpl; rewrite Hq; auto). rewrite Rq. auto.
Qed.

Lemma remove_point_Forall P ps q ps' :
  StronglySorted Z.lt (map pt ps) -> linkfree P -> Forall (fun x => pt x = pt q \/ P x) ps -> In q ps ->
  remove_point (pt q) ps = Some ps' -> Forall P ps'.
Proof.
  intros S L F Hin R. destruct (remove_point_member ps q S Hin) as [r [E R']]. rewrite R' in R. inversion R; subst ps'.
  rewrite E, map_app in S. simpl in S. apply SS_app_iff in S as [A [B C]]. apply SS_cons_inv in B as [B1 B2].
  rewrite E in F. apply Forall_app in F as [Fl Fr]. inversion Fr as [|? ? _ Fr']; subst.
  apply Forall_relink_del'; auto; apply Forall_forall; intros x Hx.
  - rewrite Forall_forall in Fl. destruct (Fl x Hx) as [Ex|Px]; auto.
    assert (pt x < pt q) by (apply C; [apply in_map; auto | left; auto]). lia.
  - rewrite Forall_forall in Fr'. destruct (Fr' x Hx) as [Ex|Px]; auto.
    assert (pt q < pt x) by (apply B2; apply in_map; auto). lia.
Qed.

(* ---------------------------------------------------------------- _cleanup_point *)
Lemma is_empty_true q : is_empty q = true <-> pstart q = [] /\ pend q = [].
Proof. unfold is_empty. destruct (pstart q), (pend q); split; intros; try discriminate; intuition discriminate. Qed.

Lemma is_empty_false q : is_empty q = false <-> nonempty_point q.
Proof.
  unfold is_empty, nonempty_point. destruct (pstart q), (pend q); split; intros; try discriminate; auto;
    try (right; discriminate); try (left; discriminate). destruct H; congruence.
Qed.

(* cleaning up the point at the time of a member never fails and keeps everything *)
Lemma cleanup_point_ok tab ps q :
  PInv tab ps -> In q ps ->
  exists ps', cleanup_point (pt q) ps = Some ps' /\ PInv tab ps' /\
    (forall s, regs s ps' = regs s ps) /\
    (forall P, linkfree P -> Forall (fun x => pt x = pt q \/ P x) ps -> (is_empty q = false -> P q) -> Forall P ps').
Proof.
  intros PI Hin. pose proof (pi_sorted _ _ PI) as S.
  unfold cleanup_point. rewrite (find_pt_member ps q S Hin).
  destruct (is_empty q) eqn:Em.
  - destruct (remove_point_member ps q S Hin) as [r [E R]]. rewrite R. eexists. split; [reflexivity|].
    apply is_empty_true in Em as [Es Ee]. split; [|split].
    + eapply remove_point_PInv; eauto.
    + intros s. eapply remove_point_regs; eauto. destruct s; auto.
    + intros P L F _. eapply remove_point_Forall; eauto.
  - exists ps. split; auto. split; auto. split; auto.
    intros P L F Hq. apply Forall_forall. intros x Hx. rewrite Forall_forall in F.
    destruct (F x Hx) as [Ex|Px]; auto. rewrite (pt_unique ps x q S Hx Hin Ex). auto.
Qed.
