(* C13 -- general lemmas: cell maps (put/get/fill), maxima, the onset sort, time origin. *)
From PV Require Import Lib.Base Lib.Round Model.C13.
From Coq Require Import QArith Qround Qabs Permutation.
#[local] Open Scope Z_scope.

(* ---------- put / get / fill ---------- *)
Definition omax (a : option Z) (v : Z) : option Z :=
  Some (match a with Some x => Z.max x v | None => v end).
Definition vmax (l : list Z) : option Z := fold_left omax l None.

Definition vals_at (r c : Z) (cs : list cell) : list Z :=
  flat_map (fun x : cell => let '(r', c', v) := x in if (r =? r') && (c =? c') then [v] else []) cs.

Lemma get_put m r c v r' c' :
  get (put m r c v) r' c' =
    if (r' =? r) && (c' =? c) then omax (get m r c) v else get m r' c'.
Proof.
  induction m as [|[[r0 c0] v0] m IH]; simpl.
  - destruct ((r' =? r) && (c' =? c)) eqn:E; reflexivity.
  - destruct ((r =? r0) && (c =? c0)) eqn:E0; simpl.
    + destruct ((r' =? r0) && (c' =? c0)) eqn:E1; destruct ((r' =? r) && (c' =? c)) eqn:E2;
        try reflexivity; exfalso; lia.
    + destruct ((r' =? r0) && (c' =? c0)) eqn:E1.
      * destruct ((r' =? r) && (c' =? c)) eqn:E2; [exfalso; lia | reflexivity].
      * apply IH.
Qed.

Lemma get_fold_put cs : forall m r c,
  get (fold_left (fun m x => let '(r, c, v) := x in put m r c v) cs m) r c =
  fold_left omax (vals_at r c cs) (get m r c).
Proof.
  induction cs as [|[[r0 c0] v0] cs IH]; intros m r c; simpl; [reflexivity|].
  rewrite IH, get_put.
  destruct ((r =? r0) && (c =? c0)) eqn:E; simpl.
  - assert (r = r0 /\ c = c0) as [-> ->] by lia. reflexivity.
  - reflexivity.
Qed.

Lemma get_fill cs r c : get (fill cs) r c = vmax (vals_at r c cs).
Proof. unfold fill, vmax. rewrite get_fold_put. reflexivity. Qed.

Lemma vals_at_app r c a b : vals_at r c (a ++ b) = vals_at r c a ++ vals_at r c b.
Proof. unfold vals_at. apply flat_map_app. Qed.

Lemma vals_at_flat_map {A} r c (f : A -> list cell) l :
  vals_at r c (flat_map f l) = flat_map (fun n => vals_at r c (f n)) l.
Proof.
  induction l as [|x l IH]; simpl; [reflexivity|]. rewrite vals_at_app, IH. reflexivity.
Qed.

Lemma vals_at_span r c r0 v k : forall a,
  vals_at r c (map (fun c' => (r0, c', v)) (zrange a k)) =
  if (r =? r0) && (a <=? c) && (c <? a + Z.of_nat k) then [v] else [].
Proof.
  induction k as [|k IH]; intros a.
  - cbn [zrange map vals_at flat_map]. destruct ((r =? r0) && (a <=? c) && (c <? a + Z.of_nat 0)) eqn:E; [exfalso; lia | reflexivity].
  - cbn [zrange map]. change (vals_at r c ((r0, a, v) :: ?l)) with
      ((if (r =? r0) && (c =? a) then [v] else []) ++ vals_at r c l).
    rewrite IH.
    destruct ((r =? r0) && (c =? a)) eqn:E1;
    destruct ((r =? r0) && (a + 1 <=? c) && (c <? a + 1 + Z.of_nat k)) eqn:E2;
    destruct ((r =? r0) && (a <=? c) && (c <? a + Z.of_nat (S k))) eqn:E3; try reflexivity; exfalso; lia.
Qed.

(* ---------- vmax ---------- *)
Lemma fold_omax_some l : forall a, exists m, fold_left omax l (Some a) = Some m /\
  (m = a \/ In m l) /\ a <= m /\ forall y, In y l -> y <= m.
Proof.
  induction l as [|x l IH]; intros a; simpl.
  - exists a. split; [reflexivity|]. split; [left; reflexivity|]. split; [lia|]. intros y [].
  - destruct (IH (Z.max a x)) as [m [E [Hin [Hle Hall]]]].
    exists m. split; [exact E|]. split; [|split].
    + destruct Hin as [->|Hin]; [|right; right; exact Hin].
      destruct (Z.max_spec a x) as [[_ ->]|[_ ->]]; [right; left; reflexivity | left; reflexivity].
    + lia.
    + intros y [<-|Hy]; [lia | auto].
Qed.

Lemma vmax_nil : vmax [] = None.
Proof. reflexivity. Qed.

Lemma vmax_cons x l : exists m, vmax (x :: l) = Some m /\ In m (x :: l) /\ forall y, In y (x :: l) -> y <= m.
Proof.
  unfold vmax. simpl. destruct (fold_omax_some l x) as [m [E [Hin [Hle Hall]]]].
  exists m. split; [exact E|]. split.
  - destruct Hin as [->|Hin]; [left; reflexivity | right; exact Hin].
  - intros y [<-|Hy]; [exact Hle | auto].
Qed.

Lemma vmax_perm l l' : Permutation l l' -> vmax l = vmax l'.
Proof.
  intros P. destruct l as [|x l].
  - apply Permutation_nil in P. subst. reflexivity.
  - destruct l' as [|x' l']; [apply Permutation_sym, Permutation_nil in P; discriminate|].
    destruct (vmax_cons x l) as [m [E [Hin Hall]]].
    destruct (vmax_cons x' l') as [m' [E' [Hin' Hall']]].
    rewrite E, E'. f_equal.
    assert (m <= m') by (apply Hall'; eapply Permutation_in; eauto).
    assert (m' <= m) by (apply Hall; eapply Permutation_in; [apply Permutation_sym|]; eauto).
    lia.
Qed.

Lemma vmax_none_iff l : vmax l = None <-> l = [].
Proof.
  split; [|intros ->; reflexivity].
  destruct l as [|x l]; [reflexivity|]. destruct (vmax_cons x l) as [m [E _]]. rewrite E. discriminate.
Qed.

(* ---------- the sort is a permutation; its head is a least onset ---------- *)
Lemma ins_on_perm x l : Permutation (ins_on x l) (x :: l).
Proof.
  induction l as [|y r IH]; simpl; [apply Permutation_refl|].
  destruct (Qle_bool (n_onset (snd x)) (n_onset (snd y))); [apply Permutation_refl|].
  eapply Permutation_trans; [apply perm_skip, IH | apply perm_swap].
Qed.

Lemma sort_on_perm ns : Permutation (sort_on ns) (combine (seq 0 (List.length ns)) ns).
Proof.
  unfold sort_on. induction (combine (seq 0 (List.length ns)) ns) as [|x l IH]; simpl; [constructor|].
  eapply Permutation_trans; [apply ins_on_perm | apply perm_skip, IH].
Qed.

Lemma map_snd_combine_seq {A} (l : list A) : forall s, map snd (combine (seq s (List.length l)) l) = l.
Proof. induction l as [|x l IH]; intros s; simpl; [reflexivity | rewrite IH; reflexivity]. Qed.

Lemma map_fst_combine_seq {A} (l : list A) : forall s, map fst (combine (seq s (List.length l)) l) = seq s (List.length l).
Proof. induction l as [|x l IH]; intros s; simpl; [reflexivity | rewrite IH; reflexivity]. Qed.

Lemma sorted_perm ns : Permutation (map snd (sort_on ns)) ns.
Proof.
  rewrite <- (map_snd_combine_seq ns 0) at 2. apply Permutation_map, sort_on_perm.
Qed.

Lemma sorted_idx_perm ns : Permutation (map fst (sort_on ns)) (seq 0 (List.length ns)).
Proof.
  rewrite <- (map_fst_combine_seq ns 0). apply Permutation_map, sort_on_perm.
Qed.

Definition head_min (l : list (nat * note)) : Prop :=
  match l with [] => True | h :: _ => forall y, In y l -> (n_onset (snd h) <= n_onset (snd y))%Q end.

Lemma Qle_bool_false a b : Qle_bool a b = false -> (b <= a)%Q.
Proof.
  intros H. destruct (Qlt_le_dec b a) as [L|L]; [apply Qlt_le_weak; exact L|].
  apply Qle_bool_iff in L. congruence.
Qed.

Lemma ins_on_head_min x l : head_min l -> head_min (ins_on x l).
Proof.
  destruct l as [|y r]; simpl; intros H.
  - intros z [<-|[]]. apply Qle_refl.
  - destruct (Qle_bool (n_onset (snd x)) (n_onset (snd y))) eqn:E; simpl.
    + apply Qle_bool_iff in E. intros z [<-|Hz]; [apply Qle_refl|].
      eapply Qle_trans; [exact E | apply H; exact Hz].
    + apply Qle_bool_false in E. intros z [<-|Hz]; [apply Qle_refl|].
      apply (Permutation_in _ (ins_on_perm x r)) in Hz. destruct Hz as [<-|Hz]; [exact E|].
      apply H. right. exact Hz.
Qed.

Lemma sort_on_head_min ns : head_min (sort_on ns).
Proof.
  unfold sort_on. induction (combine (seq 0 (List.length ns)) ns) as [|x l IH]; simpl; [exact I|].
  apply ins_on_head_min, IH.
Qed.

(* ---------- minima ---------- *)
Lemma qmin_cases a b : (qmin a b = a /\ (a <= b)%Q) \/ (qmin a b = b /\ (b <= a)%Q).
Proof.
  unfold qmin. destruct (Qle_bool a b) eqn:E.
  - left. split; [reflexivity | apply Qle_bool_iff; exact E].
  - right. split; [reflexivity | apply Qle_bool_false; exact E].
Qed.

Lemma qmin_list_spec l : forall d,
  (qmin_list l d = d \/ In (qmin_list l d) l) /\ (qmin_list l d <= d)%Q /\
  forall x, In x l -> (qmin_list l d <= x)%Q.
Proof.
  induction l as [|x l IH]; intros d; unfold qmin_list in *; simpl.
  - split; [left; reflexivity|]. split; [apply Qle_refl | intros x []].
  - destruct (IH (qmin d x)) as [Hin [Hle Hall]].
    destruct (qmin_cases d x) as [[E L]|[E L]]; rewrite E in *.
    + split; [destruct Hin; auto|]. split; [exact Hle|].
      intros y [<-|Hy]; [eapply Qle_trans; eauto | auto].
    + split; [destruct Hin as [->|Hin]; auto|]. split; [eapply Qle_trans; eauto|].
      intros y [<-|Hy]; [exact Hle | auto].
Qed.

(* a least onset of a note list *)
Definition least_onset (ns : list note) (m : Q) : Prop :=
  (exists n, In n ns /\ n_onset n = m) /\ forall n, In n ns -> (m <= n_onset n)%Q.

Lemma least_onset_unique ns ns' m m' :
  Permutation ns ns' -> least_onset ns m -> least_onset ns' m' -> (m == m')%Q.
Proof.
  intros P [[n [Hn En]] Hall] [[n' [Hn' En']] Hall'].
  apply Qle_antisym.
  - rewrite <- En'. apply Hall. eapply Permutation_in; [apply Permutation_sym|]; eauto.
  - rewrite <- En. apply Hall'. eapply Permutation_in; eauto.
Qed.

Lemma qmin_list_least n0 ns : least_onset (n0 :: ns) (qmin_list (map n_onset (n0 :: ns)) (n_onset n0)).
Proof.
  destruct (qmin_list_spec (map n_onset (n0 :: ns)) (n_onset n0)) as [Hin [Hle Hall]].
  split.
  - destruct Hin as [E|Hin].
    + exists n0. split; [left; reflexivity | symmetry; exact E].
    + apply in_map_iff in Hin as [n [E Hn]]. exists n. split; [exact Hn | exact E].
  - intros n Hn. apply Hall. apply in_map. exact Hn.
Qed.

Lemma sorted_head_least ns t n0 rest :
  sort_on ns = (t, n0) :: rest -> least_onset (map snd (sort_on ns)) (n_onset n0).
Proof.
  intros E. pose proof (sort_on_head_min ns) as H. rewrite E in *. simpl in H.
  split.
  - exists n0. split; [left; reflexivity | reflexivity].
  - intros n Hn. simpl in Hn. destruct Hn as [<-|Hn]; [apply Qle_refl|].
    apply in_map_iff in Hn as [[t' n'] [<- Hn]]. apply (H (t', n')). right. exact Hn.
Qed.

(* the specification's time origin, over the rows in input order *)
Definition spec_min_time (o : opts) (ns : list note) : Q :=
  match ns with
  | [] => 0%Q
  | n0 :: _ =>
      let m := qmin_list (map n_onset ns) (n_onset n0) in
      if o_remove_silence o then m else if Qle_bool 0 m then 0%Q else m
  end.

Lemma Qle_bool_comp a a' b b' : (a == a')%Q -> (b == b')%Q -> Qle_bool a b = Qle_bool a' b'.
Proof.
  intros Ea Eb. destruct (Qle_bool a b) eqn:E1; destruct (Qle_bool a' b') eqn:E2; try reflexivity.
  - apply Qle_bool_iff in E1. rewrite Ea, Eb in E1. apply Qle_bool_iff in E1. congruence.
  - apply Qle_bool_iff in E2. rewrite <- Ea, <- Eb in E2. apply Qle_bool_iff in E2. congruence.
Qed.

Lemma min_time_spec o ns : ns <> [] ->
  (min_time o (map snd (sort_on ns)) == spec_min_time o ns)%Q.
Proof.
  intros Hne. destruct ns as [|n0 ns]; [congruence|].
  destruct (sort_on (n0 :: ns)) as [|[t s0] rest] eqn:E.
  - pose proof (sort_on_perm (n0 :: ns)) as P. rewrite E in P. apply Permutation_nil in P. discriminate.
  - pose proof (sorted_perm (n0 :: ns)) as P. rewrite E in P.
    pose proof (sorted_head_least _ _ _ _ E) as L1. rewrite E in L1.
    pose proof (qmin_list_least n0 ns) as L2.
    change (map snd ((t, s0) :: rest)) with (s0 :: map snd rest) in *.
    pose proof (qmin_list_least s0 (map snd rest)) as L3.
    unfold min_time, spec_min_time.
    destruct (o_remove_silence o).
    + eapply least_onset_unique; eauto.
    + assert (Q : (qmin_list (map n_onset (s0 :: map snd rest)) (n_onset s0) ==
                   qmin_list (map n_onset (n0 :: ns)) (n_onset n0))%Q)
        by (eapply least_onset_unique; eauto).
      rewrite (Qle_bool_comp _ 0 _ _ (Qeq_refl 0) Q).
      destruct (Qle_bool 0 _); [reflexivity | exact Q].
Qed.

(* ---------- frames depend on the time origin only up to == ---------- *)
Lemma fr_on_comp o mt mt' n : (mt == mt')%Q -> fr_on o mt n = fr_on o mt' n.
Proof.
  intros E. unfold fr_on. f_equal. apply round_half_even_comp. rewrite E. reflexivity.
Qed.
Lemma fr_off_nom_comp o mt mt' n : (mt == mt')%Q -> fr_off_nom o mt n = fr_off_nom o mt' n.
Proof. intros E. unfold fr_off_nom. rewrite (fr_on_comp _ _ _ _ E). reflexivity. Qed.
Lemma fr_off_comp o mt mt' n : (mt == mt')%Q -> fr_off o mt n = fr_off o mt' n.
Proof. intros E. unfold fr_off. rewrite (fr_on_comp _ _ _ _ E), (fr_off_nom_comp _ _ _ _ E). reflexivity. Qed.
Lemma fr_end_comp o mt mt' n : (mt == mt')%Q -> fr_end o mt n = fr_end o mt' n.
Proof. intros E. unfold fr_end. rewrite (fr_on_comp _ _ _ _ E), (fr_off_comp _ _ _ _ E). reflexivity. Qed.

Lemma fr_dur_pos o n : 1 <= fr_dur o n.
Proof. unfold fr_dur. lia. Qed.

Lemma fr_end_gt o mt n : fr_on o mt n + 1 <= fr_end o mt n.
Proof.
  unfold fr_end, fr_off. destruct (o_onset_only o); lia.
Qed.

