(* T1 tie, shared part: facts about the module-level tables reflected into Gen/T1_music.v
   (MIDI_BASE_CLASS, BASE_PC, STEPS, INTERVAL_TO_SEMITONES, INTERVALCLASSES -- for ALL strings and
   ALL integers) and the equivalence of the translated definitions that both C12 and C16 use with
   the hand models (Model/T1_spec.v).  The T1 definitions are regenerated from the source text on
   every run; if a function fell outside the translator's subset its T1 name is a stub (= the spec)
   and the proof is [t1_by_stub]. *)
From PV Require Import Lib.Base Lib.Tab Lib.Py Proofs.T1_lib.
From PV Require Model.C12 Model.C16 Gen.T1_music.
From PV Require Import Model.T1_spec.
From Coq Require Import QArith Ascii.
#[local] Open Scope Z_scope.

Lemma lower_lookup_midi_base_class s : slookup (py_lower s) T1_music.MIDI_BASE_CLASS = C12.base_pc s.
Proof.
  unfold C12.base_pc. string_cases s; try (vm_compute; reflexivity).
  rewrite py_lower_cons, (py_lower_cons d). rewrite !slookup_long by reflexivity. reflexivity.
Qed.


(* BASE_PC[step]: the seven upper-case letters *)
Lemma lookup_base_pc s : slookup s T1_music.BASE_PC = if py_in_strs s C12.steps7 then C12.base_pc s else None.
Proof.
  unfold C12.base_pc. string_cases s; try (vm_compute; reflexivity).
  rewrite in_strs_long by reflexivity. rewrite !slookup_long by reflexivity. reflexivity.
Qed.

Theorem t1_step2pc_eq s a : T1_music.step2pc s a = spec_step2pc s a.
Proof.
  t1_by_stub T1_music.step2pc_is_translated ||
  (unfold T1_music.step2pc, spec_step2pc, C12.step2pc; rewrite ?lookup_base_pc; t1_finish).
Qed.

(* STEPS *)
Lemma lookup_steps_str s : slookup s T1_music.STEPS_str = step_index s.
Proof.
  unfold step_index. string_cases s; try (vm_compute; reflexivity).
Qed.
Lemma lookup_steps_int i : zlookup i T1_music.STEPS_int = if (0 <=? i) && (i <=? 6) then Some (step_name i) else None.
Proof.
  unfold T1_music.STEPS_int. cbn [zlookup]. z_lit_left i.
  case_int_lit 0 i; [reflexivity|]. case_int_lit 1 i; [reflexivity|]. case_int_lit 2 i; [reflexivity|].
  case_int_lit 3 i; [reflexivity|]. case_int_lit 4 i; [reflexivity|]. case_int_lit 5 i; [reflexivity|].
  case_int_lit 6 i; [reflexivity|]. replace ((0 <=? i) && (i <=? 6)) with false by lia. reflexivity.
Qed.
Lemma step_index_range s i : step_index s = Some i -> 0 <= i <= 6 /\ s = step_name i.
Proof.
  unfold step_index. cbn [C12.steps7 C12.index_of]. str_lit_left s.
  repeat match goal with |- context [String.eqb ?l s] => case_str_lit l s; [intros H; injection H as <-; split; [lia | reflexivity] | ] end.
  discriminate.
Qed.


Ltac split_table_compute :=
  match goal with |- context [split_table ?t] =>
    let v := eval vm_compute in (split_table t) in change (split_table t) with v end.

Lemma lookup_interval_to_semitones q n :
  slookup (q ++ py_str_Z n) T1_music.INTERVAL_TO_SEMITONES = C12.interval_semitones n q.
Proof.
  rewrite slookup_app_str_Z. split_table_compute.
  unfold C12.interval_semitones, C12.major_size, C12.quality_offset, C12.is_perfect.
  cbn [lookup_splits split_matches existsb fst snd slookup zlookup orb].
  str_lit_left q. z_lit_left n.
  case_str_lit "dd"%string q; [|case_str_lit "d"%string q; [|case_str_lit "m"%string q; [|case_str_lit "M"%string q;
    [|case_str_lit "P"%string q; [|case_str_lit "A"%string q; [|case_str_lit "AA"%string q]]]]]];
  cbn [String.eqb Ascii.eqb Bool.eqb andb orb];
  (case_int_lit 1 n; [reflexivity|]; case_int_lit 2 n; [reflexivity|]; case_int_lit 3 n; [reflexivity|];
   case_int_lit 4 n; [reflexivity|]; case_int_lit 5 n; [reflexivity|]; case_int_lit 6 n; [reflexivity|];
   case_int_lit 7 n; [reflexivity|]; cbn; reflexivity).
Qed.

#[global] Hint Rewrite lower_lookup_midi_base_class lookup_base_pc lookup_steps_str lookup_steps_int lookup_interval_to_semitones : t1.

Lemma step_index_name i : 0 <= i <= 6 -> step_index (step_name i) = Some i.
Proof. intros H. assert (C : i = 0 \/ i = 1 \/ i = 2 \/ i = 3 \/ i = 4 \/ i = 5 \/ i = 6) by lia.
  repeat (destruct C as [->|C]; [reflexivity|]). subst. reflexivity. Qed.
Lemma base_pc_name i : 0 <= i <= 6 -> C12.base_pc (step_name i) = Some (C16.base_pc i).
Proof. intros H. assert (C : i = 0 \/ i = 1 \/ i = 2 \/ i = 3 \/ i = 4 \/ i = 5 \/ i = 6) by lia.
  repeat (destruct C as [->|C]; [reflexivity|]). subst. reflexivity. Qed.
Lemma capitalize_name i : py_capitalize (step_name i) = step_name i.
Proof. unfold step_name. repeat (destruct i as [|i|i]; try reflexivity). Qed.
Lemma step_index_name_mod x : step_index (step_name (x mod 7)) = Some (x mod 7).
Proof. apply step_index_name. pose proof (Z.mod_pos_bound x 7). lia. Qed.
Lemma base_pc_name_mod x : C12.base_pc (step_name (x mod 7)) = Some (C16.base_pc (x mod 7)).
Proof. apply base_pc_name. pose proof (Z.mod_pos_bound x 7). lia. Qed.
#[global] Hint Rewrite step_index_name_mod base_pc_name_mod capitalize_name : t1.
Lemma mod7_range x : 0 <= x mod 7 <= 6.
Proof. pose proof (Z.mod_pos_bound x 7). lia. Qed.


Theorem t1_Interval_semitones_eq iv : T1_music.Interval_semitones iv = spec_Interval_semitones iv.
Proof.
  t1_by_stub T1_music.Interval_semitones_is_translated ||
  (unfold T1_music.Interval_semitones, spec_Interval_semitones; autorewrite with t1; t1_finish).
Qed.

Ltac map_splits_compute :=
  match goal with |- context [map int_suffix_splits ?t] =>
    let v := eval vm_compute in (map int_suffix_splits t) in change (map int_suffix_splits t) with v end.

(* membership in INTERVALCLASSES = the class has a size *)
Lemma in_intervalclasses q n :
  py_in_strs (q ++ py_str_Z n) T1_music.INTERVALCLASSES = match C12.interval_semitones n q with Some _ => true | None => false end.
Proof.
  rewrite in_strs_app_str_Z. map_splits_compute.
  unfold C12.interval_semitones, C12.major_size, C12.quality_offset, C12.is_perfect.
  cbn [split_matches existsb fst snd slookup zlookup orb].
  str_lit_left q. z_lit_left n.
  case_str_lit "dd"%string q; [|case_str_lit "d"%string q; [|case_str_lit "m"%string q; [|case_str_lit "M"%string q;
    [|case_str_lit "P"%string q; [|case_str_lit "A"%string q; [|case_str_lit "AA"%string q]]]]]];
  cbn [String.eqb Ascii.eqb Bool.eqb andb orb];
  (case_int_lit 1 n; [reflexivity|]; case_int_lit 2 n; [reflexivity|]; case_int_lit 3 n; [reflexivity|];
   case_int_lit 4 n; [reflexivity|]; case_int_lit 5 n; [reflexivity|]; case_int_lit 6 n; [reflexivity|];
   case_int_lit 7 n; [reflexivity|]; cbn; reflexivity).
Qed.
#[global] Hint Rewrite in_intervalclasses : t1.

Theorem t1_Interval_validate_eq iv : T1_music.Interval_validate iv = spec_Interval_validate iv.
Proof.
  t1_by_stub T1_music.Interval_validate_is_translated ||
  (unfold T1_music.Interval_validate, spec_Interval_validate, py_or_int; cbv zeta; autorewrite with t1; t1_finish).
Qed.

Lemma skeys_base_pc : skeys T1_music.BASE_PC = C12.steps7.
Proof. reflexivity. Qed.
Lemma in_steps7_name i : 0 <= i <= 6 -> py_in_strs (step_name i) C12.steps7 = true.
Proof. intros H. assert (C : i = 0 \/ i = 1 \/ i = 2 \/ i = 3 \/ i = 4 \/ i = 5 \/ i = 6) by lia.
  repeat (destruct C as [->|C]; [reflexivity|]). subst. reflexivity. Qed.
Lemma in_steps7_name_mod x : py_in_strs (step_name (x mod 7)) C12.steps7 = true.
Proof. apply in_steps7_name. pose proof (Z.mod_pos_bound x 7). lia. Qed.
Lemma mod7_in_range x : (0 <=? x mod 7) && (x mod 7 <=? 6) = true.
Proof. pose proof (Z.mod_pos_bound x 7). lia. Qed.
#[global] Hint Rewrite skeys_base_pc in_steps7_name_mod mod7_in_range : t1.
Ltac t1_rewrite := repeat (progress (autorewrite with t1; t1_cbn)).


Theorem t1_pitch_spelling_to_midi_pitch_eq s a o :
  T1_music.pitch_spelling_to_midi_pitch s a o = spec_pitch_spelling_to_midi_pitch s a o.
Proof.
  t1_by_stub T1_music.pitch_spelling_to_midi_pitch_is_translated ||
  (unfold T1_music.pitch_spelling_to_midi_pitch, spec_pitch_spelling_to_midi_pitch, C12.ps_to_midi, alter_or_0, py_or_optint;
   rewrite ?lower_lookup_midi_base_class; t1_finish).
Qed.
