(* C19 -- proofs about the attribute-level decoding of one MEI element (Model/C19_attr.v). *)
From PV Require Import Lib.Base Model.C19 Model.C19_kern Model.C19_disp Gen.C19_tables Model.C19_mei Model.C19_attr Proofs.C19 Proofs.C19_mei.
From Coq Require Import QArith Qround Ascii Lqa.
#[local] Open Scope Z_scope.
#[local] Arguments mei_durs_to_symbolic : simpl never.
#[local] Arguments symbolic_to_int_durs : simpl never.
#[local] Arguments sign_to_alter : simpl never.
#[local] Arguments slookup : simpl never.

(* ---------------------------------------------------------------- the enclosing tuplet, at any depth *)

Lemma filter_no_tuplet l : Forall (fun n => is_tuplet n = false) l -> filter is_tuplet l = [].
Proof. induction 1 as [|n l H _ IH]; simpl; [reflexivity|]. rewrite H. exact IH. Qed.

Lemma filter_one_tuplet pre t post :
  Forall (fun n => is_tuplet n = false) pre -> Forall (fun n => is_tuplet n = false) post -> is_tuplet t = true ->
  filter is_tuplet (pre ++ t :: post) = [t].
Proof.
  intros H1 H2 Ht. rewrite filter_app. simpl. rewrite Ht, (filter_no_tuplet _ H1), (filter_no_tuplet _ H2). reflexivity.
Qed.

Lemma mei_tuplet_any_depth_lemma self children pre post t d ty dots r :
  attr "dur" self = Some d -> slookup d mei_durs_to_symbolic = Some ty -> dots_attr self = Some dots ->
  Forall (fun n => is_tuplet n = false) pre -> Forall (fun n => is_tuplet n = false) post ->
  is_tuplet t = true -> tuplet_ratio t = Some r ->
  get_symbolic_duration (El self children (pre ++ t :: post)) = Some (SD ty dots (Some r)).
Proof.
  intros Hd Hty Hdots H1 H2 Ht Hr. unfold get_symbolic_duration. simpl.
  rewrite Hd. simpl. rewrite Hty. simpl. rewrite Hdots. simpl.
  rewrite (filter_one_tuplet _ _ _ H1 H2 Ht). simpl. rewrite Hr. reflexivity.
Qed.

Lemma mei_no_tuplet_lemma self children anc d ty dots :
  attr "dur" self = Some d -> slookup d mei_durs_to_symbolic = Some ty -> dots_attr self = Some dots ->
  Forall (fun n => is_tuplet n = false) anc ->
  get_symbolic_duration (El self children anc) = Some (SD ty dots None).
Proof.
  intros Hd Hty Hdots H1. unfold get_symbolic_duration. simpl.
  rewrite Hd. simpl. rewrite Hty. simpl. rewrite Hdots. simpl. rewrite (filter_no_tuplet _ H1). reflexivity.
Qed.

Lemma ratio_of_two x t1 y t2 z : ratio_of (x ++ t1 :: y ++ t2 :: z) = None.
Proof.
  destruct x as [|n x]; simpl.
  - destruct y; reflexivity.
  - destruct x; reflexivity.
Qed.

Lemma mei_nested_tuplets_rejected_lemma self children a t1 b t2 c :
  is_tuplet t1 = true -> is_tuplet t2 = true ->
  get_symbolic_duration (El self children (a ++ t1 :: b ++ t2 :: c)) = None.
Proof.
  intros H1 H2. unfold get_symbolic_duration. simpl.
  rewrite filter_app. simpl. rewrite H1. rewrite filter_app. simpl. rewrite H2. rewrite ratio_of_two.
  destruct (attr "dur" self); simpl; [|reflexivity].
  destruct (slookup s mei_durs_to_symbolic); simpl; [|reflexivity].
  destruct (dots_attr self); reflexivity.
Qed.

(* seeded change b: the lookup on the direct parent misses the tuplet behind a beam *)
Lemma mei_tuplet_parent_only_refuted_lemma :
  exists self children pre post t d ty dots r,
    attr "dur" self = Some d /\ slookup d mei_durs_to_symbolic = Some ty /\ dots_attr self = Some dots /\
    Forall (fun n => is_tuplet n = false) pre /\ Forall (fun n => is_tuplet n = false) post /\
    is_tuplet t = true /\ tuplet_ratio t = Some r /\
    get_symbolic_duration_parent_only (El self children (pre ++ t :: post)) <> Some (SD ty dots (Some r)).
Proof.
  exists (Nd "note" [("dur", "8"); ("pname", "c"); ("oct", "4")]%string), [], [Nd "beam" []],
         [Nd "layer" [("n", "1")]%string], (Nd "tuplet" [("num", "3"); ("numbase", "2")]%string),
         "8"%string, "eighth"%string, None, (3, 2).
  repeat split; try reflexivity.
  - repeat constructor.
  - repeat constructor.
  - vm_compute. discriminate.
Qed.

(* ---------------------------------------------------------------- tick duration = divs x what the attributes denote *)

Lemma duration_info_formula divs e k sd :
  duration_info divs e = Some (k, sd) -> attr "grace" (el_self e) = None -> attr "dur.ppq" (el_self e) = None ->
  get_symbolic_duration e = Some sd /\ formula_ticks divs sd = Some k.
Proof.
  unfold duration_info. intros H Hg Hp. destruct (get_symbolic_duration e) as [sd0|]; simpl in H; [|discriminate].
  rewrite Hg, Hp in H. destruct (formula_ticks divs sd0) as [t|] eqn:E; simpl in H; [|discriminate].
  inversion H; subst. split; [reflexivity | assumption].
Qed.

Lemma mei_attr_duration_denotes_q_lemma divs e k sd q :
  duration_info divs e = Some (k, sd) -> attr "grace" (el_self e) = None -> attr "dur.ppq" (el_self e) = None ->
  slookup (sd_type sd) symbolic_to_int_durs = Some q -> (0 < q)%Q -> 0 < sd_actual sd ->
  (inject_Z k == inject_Z divs *
     ((4 / q) * dot_factor (sd_dots0 sd) * (inject_Z (sd_normal sd) / inject_Z (sd_actual sd))))%Q.
Proof.
  intros H Hg Hp Hq Hq0 Ha. destruct (duration_info_formula _ _ _ _ H Hg Hp) as [_ F].
  unfold formula_ticks in F. rewrite Hq in F. simpl in F.
  destruct (Qeq_bool (q * inject_Z (sd_actual sd)) 0); [discriminate|].
  apply q_int_spec in F. rewrite <- F. unfold dot_factor. rewrite qpow_half. rewrite !inject_Z_mult.
  pose proof (Qpos_neq _ Hq0). pose proof (Qpos_neq _ (inject_Z_pos _ Ha)).
  assert (0 < qpow 2 (sd_dots0 sd))%Q by (apply qpow_pos; reflexivity).
  change (inject_Z 4) with 4%Q. field. repeat split; try assumption. apply Qpos_neq; assumption.
Qed.

Lemma mei_attr_duration_denotes_lemma divs e k sd v :
  duration_info divs e = Some (k, sd) -> attr "grace" (el_self e) = None -> attr "dur.ppq" (el_self e) = None ->
  slookup (sd_type sd) symbolic_to_int_durs = Some (inject_Z v) -> 0 < v -> 0 < sd_actual sd ->
  (inject_Z k == inject_Z divs * den_dur v (sd_dots0 sd) (sd_actual sd) (sd_normal sd))%Q.
Proof.
  intros H Hg Hp Hq Hv Ha. unfold den_dur.
  apply (mei_attr_duration_denotes_q_lemma divs e k sd (inject_Z v)); try assumption.
  apply inject_Z_pos; assumption.
Qed.

Lemma mei_attr_grace_zero_lemma divs e k sd g :
  attr "grace" (el_self e) = Some g -> duration_info divs e = Some (k, sd) -> k = 0.
Proof.
  intros Hg H. unfold duration_info in H. destruct (get_symbolic_duration e); simpl in H; [|discriminate].
  rewrite Hg in H. inversion H. reflexivity.
Qed.

(* ---------------------------------------------------------------- the reflected tables (complete finite domains) *)

Lemma mei_dur_values_denote_lemma :
  forallb (fun p : string * Q =>
             match (ty <- slookup (fst p) mei_durs_to_symbolic ;; slookup ty symbolic_to_int_durs) with
             | Some q => Qeq_bool q (snd p) | None => false end) mei_dur_spec = true.
Proof. vm_compute. reflexivity. Qed.

Lemma mei_accid_values_denote_lemma :
  forallb (fun p : string * Z => match sign_alter (fst p) with Some (Some a) => a =? snd p | _ => false end)
          mei_accid_spec = true.
Proof. vm_compute. reflexivity. Qed.

(* ---------------------------------------------------------------- the accidental, wherever it is written *)

Lemma Forall_eq_head {A} (s x : A) l : Forall (eq s) (x :: l) -> x = s.
Proof. intros H. inversion H; subst. reflexivity. Qed.

Lemma mei_accid_wherever_written_lemma e s a :
  sign_alter s = Some a -> accid_sources e <> [] -> Forall (eq s) (accid_sources e) -> accid_int e = Some a.
Proof.
  intros Hs Hne Hall. unfold accid_int, accid_sources in *.
  destruct (attr "accid" (el_self e)) as [x|]; simpl in *.
  { apply Forall_eq_head in Hall. subst. exact Hs. }
  destruct (attr "accid.ges" (el_self e)) as [x|]; simpl in *.
  { apply Forall_eq_head in Hall. subst. exact Hs. }
  destruct (find is_accid (el_children e)) as [c|]; [|congruence].
  destruct (attr "accid" c) as [x|]; simpl in *.
  { apply Forall_eq_head in Hall. subst. exact Hs. }
  destruct (attr "accid.ges" c) as [x|]; simpl in *.
  { apply Forall_eq_head in Hall. subst. exact Hs. }
  congruence.
Qed.

Lemma mei_no_accid_lemma e :
  attr "accid" (el_self e) = None -> attr "accid.ges" (el_self e) = None -> find is_accid (el_children e) = None ->
  accid_int e = Some None.
Proof. intros H1 H2 H3. unfold accid_int. rewrite H1, H2, H3. reflexivity. Qed.

Lemma mei_accid_child_written_only_refuted_lemma :
  exists e s a, sign_alter s = Some a /\ accid_sources e <> [] /\ Forall (eq s) (accid_sources e) /\
                accid_int_child_written_only e <> Some a.
Proof.
  exists (El (Nd "note" [("dur", "4"); ("pname", "b"); ("oct", "3")]%string)
             [Nd "artic" [("artic", "stacc")]%string; Nd "accid" [("accid.ges", "f")]%string] []),
         "f"%string, (Some (-1)).
  repeat split.
  - vm_compute. discriminate.
  - vm_compute. repeat constructor.
  - vm_compute. discriminate.
Qed.

(* ---------------------------------------------------------------- non-vacuity *)

(* a member of a dotted chord inside beam inside tuplet 3:2, gestural accidental on a child that follows an <artic>,
   chord on staff 2, at 96 divisions: an eighth with a dot in a triplet lasts 96 * 1/2 * 3/2 * 2/3 = 48 ticks *)
Definition ex_chord : elem :=
  El (Nd "chord" [("dur", "8"); ("dots", "1"); ("staff", "2")]%string) []
     [Nd "beam" []; Nd "tuplet" [("num", "3"); ("numbase", "2")]%string; Nd "layer" [("n", "1")]%string].
Definition ex_member : elem :=
  El (Nd "note" [("pname", "e"); ("oct", "5")]%string)
     [Nd "artic" []; Nd "accid" [("accid.ges", "s")]%string]
     [Nd "chord" [("dur", "8"); ("dots", "1"); ("staff", "2")]%string; Nd "beam" [];
      Nd "tuplet" [("num", "3"); ("numbase", "2")]%string; Nd "layer" [("n", "1")]%string].

Example ex_attr_handle_note :
  handle_note 96 1 (Some ex_chord) ex_member
  = Some (Dec "e" 5 (Some 1) 48 (SD "eighth" (Some 1) (Some (3, 2))) 2 None).
Proof. vm_compute. reflexivity. Qed.

Example ex_attr_denotes :
  exists k sd, duration_info 96 ex_chord = Some (k, sd) /\ attr "grace" (el_self ex_chord) = None /\
               attr "dur.ppq" (el_self ex_chord) = None /\
               slookup (sd_type sd) symbolic_to_int_durs = Some (inject_Z 8) /\ 0 < sd_actual sd /\ k = 48.
Proof. exists 48, (SD "eighth" (Some 1) (Some (3, 2))). vm_compute. repeat split; reflexivity. Qed.

(* ---------------------------------------------------------------- glue: the layer of XML elements = the layer of the traversal model *)

Lemma q_int_proper p q : (p == q)%Q -> q_int p = q_int q.
Proof. intros H. unfold q_int. rewrite (Qred_complete p q H). reflexivity. Qed.

Lemma tag_kind_not3 t k : tag_kind t = Some k -> (k =? 3) = false /\ (k =? 4) = String.eqb t "space".
Proof.
  unfold tag_kind. destruct (String.eqb t "note") eqn:E1.
  { intros H; inversion H; subst. apply String.eqb_eq in E1. subst. split; reflexivity. }
  destruct (String.eqb t "chord") eqn:E2.
  { intros H; inversion H; subst. apply String.eqb_eq in E2. subst. split; reflexivity. }
  destruct (String.eqb t "rest") eqn:E3.
  { intros H; inversion H; subst. apply String.eqb_eq in E3. subst. split; reflexivity. }
  destruct (String.eqb t "space") eqn:E4; [|discriminate].
  intros H; inversion H; subst. split; reflexivity.
Qed.

Lemma el_ticks_attr divs mr e m :
  mel_of e = Some m -> option_map fst (duration_info divs e) = el_ticks divs mr m /\ visible (ml_ev m) = negb (is_space e).
Proof.
  unfold mel_of. destruct (tag_kind (n_tag (el_self e))) as [k|] eqn:Ek; simpl; [|discriminate].
  destruct (get_symbolic_duration e) as [sd|] eqn:Esd; simpl; [|discriminate].
  destruct (slookup (sd_type sd) symbolic_to_int_durs) as [q|] eqn:Eq; simpl; [|discriminate].
  destruct (q_int q) as [v|] eqn:Ev; simpl; [|discriminate].
  destruct (ppq_attr (el_self e)) as [ppq|] eqn:Ep; simpl; [|discriminate].
  destruct ((0 <? v) && (0 <? sd_actual sd)) eqn:Epos; [|discriminate].
  intros H; inversion H; subst; clear H.
  apply andb_true_iff in Epos as [Hv Ha]. apply Z.ltb_lt in Hv. apply Z.ltb_lt in Ha.
  destruct (tag_kind_not3 _ _ Ek) as [K3 K4].
  split.
  2:{ unfold visible, is_space. simpl. rewrite K4. reflexivity. }
  unfold el_ticks, duration_info. simpl. rewrite K3, Esd. simpl.
  destruct (attr "grace" (el_self e)); [reflexivity|].
  unfold ppq_attr in Ep. destruct (attr "dur.ppq" (el_self e)) as [p|].
  { destruct (py_int p); simpl in *; [|discriminate]. inversion Ep; subst. reflexivity. }
  inversion Ep; subst. unfold mei_ticks. simpl.
  unfold formula_ticks. rewrite Eq. simpl.
  apply q_int_spec in Ev.
  assert (Hden : (q * inject_Z (sd_actual sd) == inject_Z (v * sd_actual sd))%Q) by (rewrite inject_Z_mult, Ev; reflexivity).
  assert (Hpos : (0 < inject_Z (v * sd_actual sd))%Q) by (apply inject_Z_pos; lia).
  destruct (Qeq_bool (q * inject_Z (sd_actual sd)) 0) eqn:Ez.
  { apply Qeq_bool_iff in Ez. rewrite Hden in Ez. rewrite Ez in Hpos. inversion Hpos. }
  destruct (q_int (inject_Z (divs * 4 * sd_normal sd) / (q * inject_Z (sd_actual sd)) * (2 - qpow (1 # 2) (sd_dots0 sd)))) eqn:E1;
  (rewrite (q_int_proper _ (mei_duration divs v (sd_dots0 sd) (sd_actual sd) (sd_normal sd))) in E1;
   [rewrite E1; reflexivity | unfold mei_duration; rewrite Hden; reflexivity]).
Qed.

Lemma layer_run_attr_refines divs mr : forall es ms pos,
  mels_of es = Some ms -> layer_run_attr divs pos es = layer_run divs mr pos ms.
Proof.
  induction es as [|e r IH]; intros ms pos H; simpl in H.
  - inversion H; subst. reflexivity.
  - destruct (mel_of e) as [m|] eqn:Em; simpl in H; [|discriminate].
    destruct (mels_of r) as [ms'|] eqn:Er; simpl in H; [|discriminate].
    inversion H; subst; clear H.
    destruct (el_ticks_attr divs mr e m Em) as [Ht Hvis].
    simpl. rewrite <- Ht. destruct (duration_info divs e) as [[t sd]|]; simpl; [|reflexivity].
    rewrite (IH ms' (pos + t) eq_refl). rewrite Hvis. destruct (is_space e); reflexivity.
Qed.

Lemma mel_of_wf divs e m : mel_of e = Some m -> attr "dur.ppq" (el_self e) = None -> wf_mel divs m.
Proof.
  unfold mel_of. intros H Hp.
  destruct (tag_kind (n_tag (el_self e))) as [k|] eqn:Ek; simpl in H; [|discriminate].
  destruct (get_symbolic_duration e) as [sd|] eqn:Esd; simpl in H; [|discriminate].
  destruct (slookup (sd_type sd) symbolic_to_int_durs) as [q|] eqn:Eq; simpl in H; [|discriminate].
  destruct (q_int q) as [v|] eqn:Ev; simpl in H; [|discriminate].
  unfold ppq_attr in H. rewrite Hp in H. simpl in H.
  destruct ((0 <? v) && (0 <? sd_actual sd)) eqn:Epos; [|discriminate].
  inversion H; subst; clear H.
  apply andb_true_iff in Epos as [Hv Ha]. apply Z.ltb_lt in Hv. apply Z.ltb_lt in Ha.
  destruct (tag_kind_not3 _ _ Ek) as [K3 _].
  unfold wf_mel. simpl. repeat split; try assumption.
  - intros K. subst. discriminate.
  - intros p Hpp. discriminate.
Qed.

Lemma mels_of_wf divs : forall es ms, mels_of es = Some ms ->
  Forall (fun e => attr "dur.ppq" (el_self e) = None) es -> Forall (wf_mel divs) ms.
Proof.
  induction es as [|e r IH]; intros ms H Hall; simpl in H.
  - inversion H. constructor.
  - destruct (mel_of e) as [m|] eqn:Em; simpl in H; [|discriminate].
    destruct (mels_of r) as [ms'|] eqn:Er; simpl in H; [|discriminate].
    inversion H; subst. inversion Hall; subst. constructor.
    + eapply mel_of_wf; eassumption.
    + apply IH; [reflexivity | assumption].
Qed.

Lemma mei_layer_attr_denotes_lemma divs mr mlen es ms pos t rows pos' :
  0 < divs -> repr divs mr mlen -> mels_of es = Some ms ->
  Forall (fun e => attr "dur.ppq" (el_self e) = None) es -> repr divs pos t ->
  layer_run_attr divs pos es = Some (rows, pos') ->
  Forall2 (row_rel divs) rows (den_rows mlen t (map ml_ev ms)) /\ repr divs pos' (layer_end mlen t (map ml_ev ms)).
Proof.
  intros Hd Hmr Hms Hp Hpos Hrun.
  rewrite (layer_run_attr_refines divs mr es ms pos Hms) in Hrun.
  eapply layer_run_sim; eauto. eapply mels_of_wf; eassumption.
Qed.

(* non-vacuity: tuplet 3:2 of three eighths (the middle one behind a beam), then a dotted quarter, at 12 divisions *)
Definition ex_tup := Nd "tuplet" [("num", "3"); ("numbase", "2")]%string.
Definition ex_layer : list elem :=
  [El (Nd "note" [("dur", "8"); ("pname", "c"); ("oct", "4")]%string) [] [ex_tup; Nd "layer" []];
   El (Nd "rest" [("dur", "8")]%string) [] [Nd "beam" []; ex_tup; Nd "layer" []];
   El (Nd "space" [("dur", "8")]%string) [] [ex_tup; Nd "layer" []];
   El (Nd "chord" [("dur", "4"); ("dots", "1")]%string) [] [Nd "layer" []]].
Example ex_layer_run_attr :
  layer_run_attr 12 24 ex_layer = Some ([(24, 28); (28, 32); (36, 54)], 54) /\
  (exists ms, mels_of ex_layer = Some ms) /\ Forall (fun e => attr "dur.ppq" (el_self e) = None) ex_layer.
Proof. split; [vm_compute; reflexivity|]. split; [eexists; vm_compute; reflexivity|]. repeat constructor. Qed.

