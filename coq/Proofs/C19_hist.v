(* C19: the observation of every export in every history is a function of the current notes only. *)
From Coq Require Import ZArith List String Bool Lia.
From PV Require Import Lib.Base Model.C19 Model.C19_kern Model.C19_hist.
Import ListNotations.
Open Scope Z_scope.

Lemma h_apply_notes : forall o s,
  h_notes (h_apply o s) = h_notes (h_apply o (HS (h_notes s) [] false)).
Proof.
  intros o s. destruct o as [i st al oc | i v d a n | i | keeps]; simpl; try reflexivity.
  destruct keeps; reflexivity.
Qed.

(* whatever earlier exports left in the part, the exports of a history are those of a fresh part with the same notes *)
Lemma h_run_ref_lemma : forall ops s, h_run s ops = h_ref (h_notes s) ops.
Proof.
  induction ops as [| o r IH]; intros s; simpl; [reflexivity |].
  rewrite <- (h_apply_notes o s).
  destruct o; rewrite IH; reflexivity.
Qed.

Lemma h_run_state_independent_lemma : forall ops s1 s2,
  h_notes s1 = h_notes s2 -> h_run s1 ops = h_run s2 ops.
Proof. intros ops s1 s2 H. rewrite !h_run_ref_lemma, H. reflexivity. Qed.

Lemma h_notes_after_app : forall pre post notes,
  h_notes_after notes (pre ++ post) = h_notes_after (h_notes_after notes pre) post.
Proof. induction pre as [| o r IH]; intros; simpl; [reflexivity | apply IH]. Qed.

Lemma h_ref_app : forall pre post notes,
  h_ref notes (pre ++ post) = h_ref notes pre ++ h_ref (h_notes_after notes pre) post.
Proof.
  induction pre as [| o r IH]; intros post notes; simpl; [reflexivity |].
  destruct o; rewrite IH; reflexivity.
Qed.

Lemma h_save_notes : forall keeps notes, h_notes (h_apply (HSave keeps) (HS notes [] false)) = notes.
Proof. intros [|] notes; reflexivity. Qed.

(* the export that ends a history writes the tokens of the notes the part holds at that moment: forall histories *)
Lemma h_obs_current_lemma : forall pre keeps s,
  last (h_run s (pre ++ [HSave keeps])) [] = h_view (h_notes_after (h_notes s) pre).
Proof.
  intros pre keeps s. rewrite h_run_ref_lemma, h_ref_app.
  destruct keeps; simpl; apply last_last.
Qed.

(* an export changes no note, so exporting twice in a row observes the same *)
Lemma h_save_idempotent_lemma : forall k1 k2 s pre,
  h_run s (pre ++ [HSave k1; HSave k2]) = h_run s (pre ++ [HSave k1]) ++ [last (h_run s (pre ++ [HSave k1])) []].
Proof.
  intros k1 k2 s pre. rewrite !h_run_ref_lemma, !h_ref_app.
  destruct k1, k2; simpl; rewrite <- app_assoc; simpl; rewrite last_last; reflexivity.
Qed.

Definition ex_notes : list hnote := [(0, None, 4, 4, 0, 0, 0); (2, Some 1, 5, 8, 1, 0, 0); (4, Some (-1), 2, 8, 0, 3, 2)].
Definition ex_ops : list hop := [HSave true; HPitch 0 6 (Some 2) 3; HSave true; HDur 1 16 0 0 0; HDrop 2; HSave false].

Example ex_hist_run : h_run (HS ex_notes [] false) ex_ops =
  [[Some "4c"; Some "8.ee#"; Some "12GG-"]; [Some "4B##"; Some "8.ee#"; Some "12GG-"]; [Some "4B##"; Some "16ee#"]]%string.
Proof. vm_compute. reflexivity. Qed.

(* the memoising writer hands out the first export after the pitch was changed *)
Lemma m_run_refuted_lemma : exists notes ops, m_run None (HS notes [] false) ops <> h_run (HS notes [] false) ops.
Proof. exists ex_notes, ex_ops. vm_compute. discriminate. Qed.

(* the cache keyed by the position only is right on every single export of a fresh part and wrong in a history *)
Lemma k_run_single_ok_lemma : forall notes keeps, k_run [] (HS notes [] false) [HSave keeps] = h_run (HS notes [] false) [HSave keeps].
Proof. intros notes keeps. destruct keeps; simpl; rewrite firstn_nil, app_nil_l; reflexivity. Qed.

Lemma k_run_refuted_lemma : exists notes ops, k_run [] (HS notes [] false) ops <> h_run (HS notes [] false) ops.
Proof. exists ex_notes, ex_ops. vm_compute. discriminate. Qed.
