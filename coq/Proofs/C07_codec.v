(* C07 -- field codecs proved for all values: fixed-point decimals, FractionalSymbolicDuration text
   (plain and with additive components), values of sums, time signatures.  Definitions used by the
   theorem statements (triple_ok, nz, add_within, fold_within, frac_inv, simple_ok) are here. *)
From PV Require Import Lib.Base Lib.Round Model.C07 Proofs.C07_lib Gen.C07_Schemas Proofs.C07.
From Coq Require Import QArith Qround Ascii DecimalString DecimalN DecimalPos.
#[local] Open Scope string_scope.
#[local] Open Scope Z_scope.

(* ------------------------------------------------------------------ fixed-point decimals *)

Lemma pow10_pos d : 0 < pow10 d.
Proof. induction d; cbn [pow10]; lia. Qed.

Lemma print_width_length w : forall n, String.length (print_width w n) = w.
Proof.
  induction w as [|w IH]; intros n; simpl; auto.
  rewrite length_app_s, IH. simpl. lia.
Qed.

Lemma parse_digits_app a : forall acc b,
  parse_digits acc (a ++ b) =
  match parse_digits acc a with Some x => parse_digits x b | None => None end.
Proof.
  induction a as [|c a IH]; intros acc b; simpl; auto.
  destruct (is_digit c); auto.
Qed.

Lemma digit_char_ok k : 0 <= k < 10 -> is_digit (digit_char k) = true /\ digit_val (digit_char k) = k.
Proof.
  intros H.
  assert (E : k = 0 \/ k = 1 \/ k = 2 \/ k = 3 \/ k = 4 \/ k = 5 \/ k = 6 \/ k = 7 \/ k = 8 \/ k = 9) by lia.
  repeat (destruct E as [E|E]; [subst; split; reflexivity|]). subst; split; reflexivity.
Qed.

Lemma parse_print_width w : forall acc n, 0 <= n ->
  parse_digits acc (print_width w n) = Some (acc * pow10 w + n mod pow10 w).
Proof.
  induction w as [|w IH]; intros acc n Hn.
  - simpl. rewrite Z.mod_1_r. f_equal. lia.
  - cbn [print_width]. rewrite parse_digits_app, IH by (apply Z.div_pos; lia).
    cbn [parse_digits].
    destruct (digit_char_ok (n mod 10)) as [Hd Hv]; [apply Z.mod_pos_bound; lia|].
    rewrite Hd, Hv. f_equal. cbn [pow10].
    pose proof (pow10_pos w) as Hp.
    rewrite Z.rem_mul_r by lia. lia.
Qed.

Lemma print_N_not_minus n : exists c r, print_N n = String c r /\ c <> "-"%char /\ is_digit c = true.
Proof.
  destruct (print_N_first n) as [c [r [E1 E2]]]. exists c, r. repeat split; auto.
  intros ->. discriminate.
Qed.

Lemma is_digit_dot : is_digit "."%char = false.
Proof. reflexivity. Qed.

Lemma parse_fix_body d i f :
  0 <= i -> 0 <= f < pow10 d ->
  (let '(ip, rest) := span is_digit (print_N i ++ String "." (print_width d f)) in
   match rest with
   | String "." fp =>
       if Nat.eqb (String.length fp) d then
         match parse_N ip, parse_digits 0 fp with
         | Some i', Some f' => Some (i' * pow10 d + f')
         | _, _ => None
         end
       else None
   | _ => None
   end) = Some (i * pow10 d + f).
Proof.
  intros Hi Hf.
  rewrite (span_app is_digit (print_N i) (String "." (print_width d f))); [|apply print_N_digits|reflexivity].
  rewrite print_width_length, Nat.eqb_refl, parse_print_N by lia.
  rewrite parse_print_width by lia. rewrite Z.mod_small by lia. reflexivity.
Qed.

Lemma parse_print_fix d neg m : 0 <= m -> parse_fix d (print_fix d neg m) = Some (neg, m).
Proof.
  intros Hm. pose proof (pow10_pos d) as Hp.
  assert (Hi : 0 <= m / pow10 d) by (apply Z.div_pos; lia).
  assert (Hf : 0 <= m mod pow10 d < pow10 d) by (apply Z.mod_pos_bound; lia).
  pose proof (parse_fix_body d (m / pow10 d) (m mod pow10 d) Hi Hf) as HB.
  assert (Em : m / pow10 d * pow10 d + m mod pow10 d = m).
  { rewrite (Z.mul_comm (m / pow10 d)). symmetry. apply Z.div_mod. lia. }
  unfold parse_fix, print_fix. destruct neg.
  - cbn [append].
    change (("-" ++ print_N (m / pow10 d) ++ String "." (print_width d (m mod pow10 d))))
      with (String "-" (print_N (m / pow10 d) ++ String "." (print_width d (m mod pow10 d)))).
    cbv iota beta.
    destruct (span is_digit (print_N (m / pow10 d) ++ String "." (print_width d (m mod pow10 d)))) as [ip rest].
    destruct rest as [|c fp]; [discriminate|].
    destruct c as [[] [] [] [] [] [] [] []]; try discriminate.
    destruct (Nat.eqb (String.length fp) d); [|discriminate].
    destruct (parse_N ip); [|discriminate]. destruct (parse_digits 0 fp); [|discriminate].
    injection HB as HB. rewrite HB, Em. reflexivity.
  - change ("" ++ print_N (m / pow10 d) ++ String "." (print_width d (m mod pow10 d)))
      with (print_N (m / pow10 d) ++ String "." (print_width d (m mod pow10 d))).
    destruct (print_N_not_minus (m / pow10 d)) as [c [r [E1 [E2 _]]]].
    rewrite E1 in *. cbn [append] in *.
    assert (Hsel : (match String c (r ++ String "." (print_width d (m mod pow10 d))) with
                    | String "-" r0 => (true, r0)
                    | _ => (false, String c (r ++ String "." (print_width d (m mod pow10 d))))
                    end) = (false, String c (r ++ String "." (print_width d (m mod pow10 d))))).
    { destruct c as [[] [] [] [] [] [] [] []]; try reflexivity. congruence. }
    rewrite Hsel.
    destruct (span is_digit (String c (r ++ String "." (print_width d (m mod pow10 d))))) as [ip rest].
    destruct rest as [|c2 fp]; [discriminate|].
    destruct c2 as [[] [] [] [] [] [] [] []]; try discriminate.
    destruct (Nat.eqb (String.length fp) d); [|discriminate].
    destruct (parse_N ip); [|discriminate]. destruct (parse_digits 0 fp); [|discriminate].
    injection HB as HB. rewrite HB, Em. reflexivity.
Qed.

Theorem fix_codec_rt_lemma tab d neg m : 0 <= m -> field_rt tab (CFix d) (VDec neg m).
Proof.
  intros Hm. exists (print_fix d neg m). cbn [enc dec norm]. rewrite parse_print_fix by exact Hm.
  split; reflexivity.
Qed.

Lemma round_half_even_nonneg q : (0 <= q)%Q -> 0 <= round_half_even q.
Proof.
  intros H. unfold round_half_even.
  assert (Hf : 0 <= Qfloor q).
  { change 0 with (Qfloor 0). apply Qfloor_resp_le. exact H. }
  destruct (Qcompare (q - inject_Z (Qfloor q)) half); [destruct (Z.even (Qfloor q))|..]; lia.
Qed.

Lemma quantize_nonneg d q : (0 <= q)%Q -> 0 <= quantize d q.
Proof.
  intros H. unfold quantize. apply round_half_even_nonneg.
  apply Qmult_le_0_compat; [exact H|].
  pose proof (pow10_pos d). unfold Qle; simpl. lia.
Qed.

(* a float +-q written with d decimals comes back as its d-decimal rounding *)
Theorem fix_codec_float_rt_lemma tab d neg q : (0 <= q)%Q -> field_rt tab (CFix d) (VQ neg q).
Proof.
  intros Hq. exists (print_fix d neg (quantize d q)). cbn [enc dec norm].
  rewrite parse_print_fix by (apply quantize_nonneg; exact Hq). split; reflexivity.
Qed.

(* ------------------------------------------------------------------ fractional durations as text *)

Definition nz (c : triple) : bool := negb (fst (fst c) =? 0).

(* what a component / a plain duration may hold: the constructor's bound (tuple divisors are not bounded) *)
Definition triple_ok (t : triple) : Prop :=
  let '(n, d, td) := t in
  0 <= n <= frac_bound /\ 0 <= d <= frac_bound /\ match td with Some x => 0 <= x | None => True end.

Lemma count_digits_0 c s : is_digit c = false -> all_chars is_digit s = true -> count_char c s = O.
Proof. intros Hc Hs. eapply count_char_none; eauto. Qed.

Lemma count_print_N c n : is_digit c = false -> count_char c (print_N n) = O.
Proof. intros Hc. apply count_digits_0; auto. apply print_N_digits. Qed.

Lemma parse_N_digits s z : parse_N s = Some z -> all_chars is_digit s = true.
Proof.
  unfold parse_N. destruct (nonempty s); simpl; [|discriminate].
  destruct (all_chars is_digit s); [reflexivity|discriminate].
Qed.

Lemma map_opt_parse_N_digits l : forall zs, map_opt parse_N l = Some zs -> forallb (all_chars is_digit) l = true.
Proof.
  induction l as [|s l IH]; intros zs H; simpl in *; auto.
  destruct (parse_N s) eqn:E; [|discriminate].
  destruct (map_opt parse_N l) eqn:E2; [|discriminate].
  rewrite (parse_N_digits _ _ E), (IH _ eq_refl). reflexivity.
Qed.

Lemma split_on_nonempty c s : split_on c s <> [].
Proof.
  induction s as [|d r IH]; simpl; [discriminate|].
  destruct (Ascii.eqb d c); [discriminate|]. destruct (split_on c r); discriminate.
Qed.

(* a text whose "/"-separated parts are digits holds no other character *)
Lemma digits_parts_no_char c s :
  is_digit c = false ->
  forallb (all_chars is_digit) (split_on "/" s) = true -> count_char c s = O \/ c = "/"%char.
Proof.
  intros Hc. destruct (Ascii.eqb c "/") eqn:Ec; [right; apply Ascii.eqb_eq; exact Ec|left].
  revert H. induction s as [|d r IH]; intros H; simpl in *; auto.
  destruct (Ascii.eqb d "/") eqn:E.
  - apply Ascii.eqb_eq in E. subst d. simpl in H.
    rewrite Ascii.eqb_sym in Ec. rewrite Ec. apply IH. exact H.
  - destruct (split_on "/" r) as [|h t] eqn:Es; [exfalso; eapply split_on_nonempty; eauto|].
    simpl in H. apply andb_true_iff in H as [H1 H2]. apply andb_true_iff in H1 as [Hd Hh].
    destruct (Ascii.eqb d c) eqn:Edc.
    + apply Ascii.eqb_eq in Edc. subst d. congruence.
    + apply IH. simpl. rewrite Hh, H2. reflexivity.
Qed.

Lemma plus_not_digit : is_digit "+"%char = false. Proof. reflexivity. Qed.
Lemma slash_not_digit : is_digit "/"%char = false. Proof. reflexivity. Qed.
Lemma comma_not_digit : is_digit comma = false. Proof. reflexivity. Qed.

Lemma parse_simple_no_plus s f : parse_simple s = Some f -> count_char "+" s = O.
Proof.
  unfold parse_simple. destruct (map_opt parse_N (split_on "/" s)) as [zs|] eqn:E; [|discriminate].
  intros _. apply map_opt_parse_N_digits in E.
  destruct (digits_parts_no_char "+" s plus_not_digit E) as [H|H]; [exact H|discriminate].
Qed.

(* n/d with digits only *)
Lemma parse_simple_nd n d : 0 <= n <= frac_bound -> 0 <= d <= frac_bound ->
  parse_simple (print_N n ++ String "/" (print_N d)) = Some (mkfrac n d None None).
Proof.
  intros Hn Hd. unfold parse_simple.
  rewrite split_on_app by (apply count_print_N; reflexivity).
  rewrite split_on_none by (apply count_print_N; reflexivity).
  simpl map_opt. rewrite !parse_print_N by lia.
  unfold mk_frac. rewrite bound_pair_noop by lia. reflexivity.
Qed.

Lemma parse_simple_triple t : triple_ok t ->
  parse_simple (print_triple t) = Some (frac_of_triple t).
Proof.
  destruct t as [[n d] td]. intros [Hn [Hd Ht]]. unfold print_triple, frac_of_triple.
  destruct td as [x|].
  - unfold parse_simple.
    rewrite split_on_app by (apply count_print_N; reflexivity).
    rewrite split_on_app by (apply count_print_N; reflexivity).
    rewrite split_on_none by (apply count_print_N; reflexivity).
    simpl map_opt. rewrite !parse_print_N by lia. reflexivity.
  - destruct (d =? 1) eqn:E.
    + apply Z.eqb_eq in E. subst d. unfold parse_simple.
      rewrite split_on_none by (apply count_print_N; reflexivity).
      simpl map_opt. rewrite parse_print_N by lia. reflexivity.
    + rewrite parse_simple_nd by assumption.
      unfold mk_frac. rewrite bound_pair_noop by lia. reflexivity.
Qed.

Lemma frac_of_triple_ok t : triple_ok t -> frac_of_triple t = let '(n, d, td) := t in mkfrac n d td None.
Proof.
  destruct t as [[n d] td]. intros [Hn [Hd _]]. unfold frac_of_triple, mk_frac.
  rewrite bound_pair_noop by lia. reflexivity.
Qed.

(* a plain duration (no additive components) within the bound: text -> the same object *)
Theorem frac_codec_rt_simple_lemma n d td :
  triple_ok (n, d, td) -> parse_frac (print_frac (mkfrac n d td None)) = Some (mkfrac n d td None).
Proof.
  intros H. unfold parse_frac, print_frac. cbn [fcomps].
  change (frac_triple (mkfrac n d td None)) with (n, d, td).
  rewrite (parse_simple_triple _ H), (frac_of_triple_ok _ H). reflexivity.
Qed.

Lemma count_print_triple c t : is_digit c = false -> c <> "/"%char -> count_char c (print_triple t) = O.
Proof.
  intros Hc Hs. destruct t as [[n d] td]. unfold print_triple.
  assert (Es : Ascii.eqb "/" c = false) by (apply Ascii.eqb_neq; congruence).
  destruct td as [x|]; [|destruct (d =? 1)];
    repeat (rewrite ?count_char_app; cbn [count_char]; rewrite ?Es); rewrite ?count_print_N by exact Hc; reflexivity.
Qed.

Lemma count_join_pos c x y l : (1 <= count_char c (join c (x :: y :: l)))%nat.
Proof.
  change (join c (x :: y :: l)) with (x ++ String c (join c (y :: l))).
  rewrite count_char_app. cbn [count_char]. rewrite Ascii.eqb_refl. lia.
Qed.

Lemma map_opt_parse_simple cs : Forall triple_ok cs ->
  map_opt parse_simple (map print_triple cs) = Some (map frac_of_triple cs).
Proof.
  induction 1 as [|t cs Ht _ IH]; simpl; auto. rewrite (parse_simple_triple _ Ht), IH. reflexivity.
Qed.

(* a sum text a+b+...: read as the left-to-right sum of its components (frac_of_comps) *)
Theorem frac_sum_text_parse_lemma cs :
  (2 <= List.length cs)%nat -> Forall triple_ok cs ->
  parse_frac (join "+" (map print_triple cs)) = Some (frac_of_comps cs).
Proof.
  intros Hlen Hok. destruct cs as [|c1 [|c2 cs]]; simpl in Hlen; try lia.
  unfold parse_frac.
  destruct (parse_simple (join "+" (map print_triple (c1 :: c2 :: cs)))) as [f|] eqn:E.
  - apply parse_simple_no_plus in E. pose proof (count_join_pos "+" (print_triple c1) (print_triple c2) (map print_triple cs)) as H.
    simpl map in E. lia.
  - rewrite split_join; [|discriminate|].
    + simpl map at 1. cbv iota beta.
      change (print_triple c1 :: print_triple c2 :: map print_triple cs) with (map print_triple (c1 :: c2 :: cs)).
      rewrite (map_opt_parse_simple _ Hok). reflexivity.
    + apply Forall_forall. intros s Hs. apply in_map_iff in Hs as [t [<- _]].
      apply count_print_triple; [reflexivity|discriminate].
Qed.

(* components of a left-to-right sum *)
Lemma filter_nz_idem l : filter nz (filter nz l) = filter nz l.
Proof. induction l as [|x l IH]; simpl; auto. destruct (nz x) eqn:E; simpl; rewrite ?E, IH; reflexivity. Qed.

Lemma frac_add_fcomps f g : fcomps (frac_add f g) = Some (filter nz (frac_comps f ++ frac_comps g)%list).
Proof. apply frac_add_components_lemma. Qed.

Lemma fold_add_comps ps : forall acc ca,
  fcomps acc = Some ca -> filter nz ca = ca ->
  fcomps (fold_left frac_add ps acc) = Some (ca ++ filter nz (flat_map frac_comps ps))%list.
Proof.
  induction ps as [|p ps IH]; intros acc ca Ha Hf; simpl.
  - rewrite app_nil_r. exact Ha.
  - rewrite (IH (frac_add acc p) (ca ++ filter nz (frac_comps p))%list).
    + rewrite <- app_assoc, filter_app. reflexivity.
    + rewrite frac_add_fcomps. unfold frac_comps at 1. rewrite Ha, filter_app, Hf. reflexivity.
    + rewrite filter_app, Hf, filter_nz_idem. reflexivity.
Qed.

Lemma frac_sum_comps p ps :
  fcomps (frac_sum (p :: ps)) = Some (filter nz (flat_map frac_comps (p :: ps))).
Proof.
  unfold frac_sum. cbn [fold_left].
  rewrite (fold_add_comps ps (frac_add frac_zero p) (filter nz (frac_comps p))).
  - cbn [flat_map]. rewrite filter_app. reflexivity.
  - rewrite frac_add_fcomps. reflexivity.
  - apply filter_nz_idem.
Qed.

Lemma flat_map_of_triples cs : Forall triple_ok cs -> flat_map frac_comps (map frac_of_triple cs) = cs.
Proof.
  induction 1 as [|t cs Ht _ IH]; simpl; auto. rewrite IH, (frac_of_triple_ok _ Ht).
  destruct t as [[n d] td]. reflexivity.
Qed.

Lemma frac_of_comps_fcomps c cs : Forall triple_ok (c :: cs) ->
  fcomps (frac_of_comps (c :: cs)) = Some (filter nz (c :: cs)).
Proof.
  intros H. unfold frac_of_comps. cbn [map]. rewrite frac_sum_comps.
  change (frac_of_triple c :: map frac_of_triple cs) with (map frac_of_triple (c :: cs)).
  rewrite (flat_map_of_triples _ H). reflexivity.
Qed.

(* O2 for durations with additive components, any number of them, whatever the bound does to the
   numeric fields: the text is read back as an object that prints the same text *)
Theorem frac_text_fixpoint_lemma f cs :
  fcomps f = Some cs -> (2 <= List.length cs)%nat -> Forall triple_ok cs -> filter nz cs = cs ->
  exists g, parse_frac (print_frac f) = Some g /\ print_frac g = print_frac f /\ fcomps g = Some cs.
Proof.
  intros Hc Hlen Hok Hnz. exists (frac_of_comps cs).
  unfold print_frac at 1 3. rewrite Hc.
  split; [apply frac_sum_text_parse_lemma; assumption|].
  destruct cs as [|c cs]; [simpl in Hlen; lia|].
  pose proof (frac_of_comps_fcomps c cs Hok) as E. rewrite Hnz in E.
  unfold print_frac. rewrite E. split; reflexivity.
Qed.

(* ------------------------------------------------------------------ values of sums *)

Definition add_within (f g : frac) : Prop :=
  let d1 := fden f * tdiv (ftd f) in
  let d2 := fden g * tdiv (ftd g) in
  0 < d1 /\ 0 < d2 /\ Z.lcm d1 d2 <= frac_bound /\
  (Z.lcm d1 d2 / d1) * fnum f + (Z.lcm d1 d2 / d2) * fnum g <= frac_bound.

(* every partial sum of a left-to-right sum stays within the bound *)
Fixpoint fold_within (acc : frac) (ps : list frac) : Prop :=
  match ps with
  | [] => True
  | p :: r => add_within acc p /\ fold_within (frac_add acc p) r
  end.

Fixpoint Qsum (l : list Q) : Q := match l with [] => 0%Q | x :: r => (x + Qsum r)%Q end.

Lemma frac_add_value f g : add_within f g -> (frac_value (frac_add f g) == frac_value f + frac_value g)%Q.
Proof. intros [H1 [H2 [H3 H4]]]. apply frac_add_exact_lemma; assumption. Qed.

Lemma fold_value ps : forall acc, fold_within acc ps ->
  (frac_value (fold_left frac_add ps acc) == frac_value acc + Qsum (map frac_value ps))%Q.
Proof.
  induction ps as [|p ps IH]; intros acc H; simpl.
  - ring.
  - destruct H as [Hw Hr]. rewrite (IH _ Hr), (frac_add_value _ _ Hw). ring.
Qed.

Definition comps_value (f : frac) : Q := Qsum (map triple_value (frac_comps f)).
(* the numeric fields of an object stand for the sum of the components it prints *)
Definition frac_inv (f : frac) : Prop := (frac_value f == comps_value f)%Q.

Lemma frac_inv_simple f : fcomps f = None -> frac_inv f.
Proof.
  intros H. unfold frac_inv, comps_value, frac_comps. rewrite H. simpl.
  unfold frac_value, frac_triple, triple_value. ring.
Qed.

Lemma Qsum_app a b : (Qsum (a ++ b)%list == Qsum a + Qsum b)%Q.
Proof. induction a as [|x a IH]; simpl; [ring|]. rewrite IH. ring. Qed.

Lemma triple_value_zero t : nz t = false -> (triple_value t == 0)%Q.
Proof.
  destruct t as [[n d] td]. unfold nz. simpl. intros H. apply negb_false_iff, Z.eqb_eq in H. subst.
  unfold Qeq. simpl. reflexivity.
Qed.

Lemma Qsum_filter_nz l : (Qsum (map triple_value (filter nz l)) == Qsum (map triple_value l))%Q.
Proof.
  induction l as [|t l IH]; simpl; [reflexivity|].
  destruct (nz t) eqn:E; simpl; rewrite IH; [reflexivity|].
  rewrite (triple_value_zero _ E). ring.
Qed.

Lemma frac_comps_add f g : frac_comps (frac_add f g) = filter nz (frac_comps f ++ frac_comps g)%list.
Proof. unfold frac_comps at 1. rewrite frac_add_fcomps. reflexivity. Qed.

(* exact addition keeps the invariant: value = sum of the printed components *)
Theorem frac_inv_add_lemma f g : frac_inv f -> frac_inv g -> add_within f g -> frac_inv (frac_add f g).
Proof.
  unfold frac_inv. intros Hf Hg Hw. rewrite (frac_add_value _ _ Hw), Hf, Hg.
  unfold comps_value. rewrite frac_comps_add, Qsum_filter_nz, map_app, Qsum_app. reflexivity.
Qed.

Lemma frac_value_of_triple t : triple_ok t -> frac_value (frac_of_triple t) = triple_value t.
Proof. intros H. rewrite (frac_of_triple_ok _ H). destruct t as [[n d] td]. reflexivity. Qed.

Lemma map_value_of_triples cs : Forall triple_ok cs ->
  map frac_value (map frac_of_triple cs) = map triple_value cs.
Proof. induction 1 as [|t cs Ht _ IH]; simpl; auto. rewrite IH, (frac_value_of_triple _ Ht). reflexivity. Qed.

(* O4: a duration with additive components keeps its value through its text, while the partial sums
   of the re-reading stay within the bound *)
Theorem frac_text_value_rt_lemma f cs :
  fcomps f = Some cs -> (2 <= List.length cs)%nat -> Forall triple_ok cs -> filter nz cs = cs ->
  frac_inv f -> fold_within frac_zero (map frac_of_triple cs) ->
  exists g, parse_frac (print_frac f) = Some g /\ (frac_value g == frac_value f)%Q /\
            print_frac g = print_frac f.
Proof.
  intros Hc Hlen Hok Hnz Hinv Hw.
  destruct (frac_text_fixpoint_lemma f cs Hc Hlen Hok Hnz) as [g [Hp [Ht Hg]]].
  exists g. repeat split; auto.
  assert (Eg : g = frac_of_comps cs).
  { unfold print_frac in Hp. rewrite Hc in Hp. rewrite (frac_sum_text_parse_lemma cs Hlen Hok) in Hp. congruence. }
  subst g. unfold frac_of_comps, frac_sum. rewrite (fold_value _ _ Hw), (map_value_of_triples _ Hok).
  unfold frac_inv, comps_value, frac_comps in Hinv. rewrite Hc in Hinv. rewrite Hinv.
  unfold frac_value, frac_zero. simpl. ring.
Qed.

(* the hypotheses are satisfiable: 1/4 + 1/16 + 1/8/3 *)
Example frac_text_value_example :
  let cs := [(1, 4, None); (1, 16, None); (1, 8, Some 3)] in
  let f := frac_of_comps cs in
  fcomps f = Some cs /\ Forall triple_ok cs /\ filter nz cs = cs /\ frac_inv f /\
  fold_within frac_zero (map frac_of_triple cs) /\ print_frac f = "1/4+1/16+1/8/3".
Proof.
  cbv zeta. split; [vm_compute; reflexivity|]. split.
  { repeat constructor; unfold frac_bound; simpl; lia. }
  split; [reflexivity|]. split; [vm_compute; reflexivity|].
  split; [|vm_compute; reflexivity].
  simpl. unfold add_within. repeat split; vm_compute; congruence.
Qed.

(* ------------------------------------------------------------------ time signatures *)

Definition simple_ok (f : frac) : Prop := fcomps f = None /\ triple_ok (frac_triple f).

Lemma parse_frac_simple_ok f : simple_ok f -> parse_frac (print_frac f) = Some f.
Proof.
  destruct f as [n d td cs]. intros [Hc Ht]. simpl in Hc. subst cs.
  apply frac_codec_rt_simple_lemma. exact Ht.
Qed.

Lemma count_print_frac_simple c f : fcomps f = None -> is_digit c = false -> c <> "/"%char ->
  count_char c (print_frac f) = O.
Proof. intros Hc Hd Hs. unfold print_frac. rewrite Hc. apply count_print_triple; assumption. Qed.

Lemma count_nd c n d : is_digit c = false -> c <> "/"%char ->
  count_char c (print_N n ++ String "/" (print_N d)) = O.
Proof.
  intros Hc Hs. rewrite count_char_app. cbn [count_char].
  replace (Ascii.eqb "/" c) with false by (symmetry; apply Ascii.eqb_neq; congruence).
  rewrite !count_print_N by exact Hc. reflexivity.
Qed.

Lemma parse_frac_nd n d : 0 <= n <= frac_bound -> 0 <= d <= frac_bound ->
  parse_frac (print_N n ++ String "/" (print_N d)) = Some (mkfrac n d None None).
Proof. intros Hn Hd. unfold parse_frac. rewrite parse_simple_nd by assumption. reflexivity. Qed.

Lemma map_opt_parse_frac others : Forall simple_ok others ->
  map_opt parse_frac (map print_frac others) = Some others.
Proof. induction 1 as [|f l Hf _ IH]; simpl; auto. rewrite (parse_frac_simple_ok _ Hf), IH. reflexivity. Qed.

Lemma dec_time_enc n d others :
  0 <= n <= frac_bound -> 0 <= d <= frac_bound -> Forall simple_ok others ->
  dec_time (join comma ((print_N n ++ String "/" (print_N d)) :: map print_frac others)) = Some (VTime n d others).
Proof.
  intros Hn Hd Ho. unfold dec_time. rewrite split_join; [|discriminate|].
  - cbn [map_opt]. rewrite parse_frac_nd by assumption. rewrite (map_opt_parse_frac _ Ho). reflexivity.
  - constructor; [apply count_nd; [reflexivity|discriminate]|].
    apply Forall_forall. intros s Hs. apply in_map_iff in Hs as [f [<- Hin]].
    rewrite Forall_forall in Ho. destruct (Ho f Hin) as [Hc _].
    apply count_print_frac_simple; [exact Hc|reflexivity|discriminate].
Qed.

(* numerator/denominator (with the beat components of the old list form), within the bound *)
Theorem timesig_codec_rt_lemma tab n d :
  0 <= n <= frac_bound -> 0 <= d <= frac_bound -> field_rt tab (CTime false) (VTime n d []).
Proof.
  intros Hn Hd. eexists. cbn [enc dec norm]. split; [reflexivity|].
  exact (dec_time_enc n d [] Hn Hd (Forall_nil _)).
Qed.

Theorem timesig_list_codec_rt_lemma tab n d others :
  0 <= n <= frac_bound -> 0 <= d <= frac_bound -> Forall simple_ok others ->
  field_rt tab (CTime true) (VTime n d others).
Proof.
  intros Hn Hd Ho. eexists. cbn [enc dec norm]. split; [reflexivity|].
  unfold unbracket. rewrite strip_suffix_app. apply dec_time_enc; assumption.
Qed.

(* above the bound the time signature does NOT survive: 2048/4 is read back as 1024/2 *)
Theorem timesig_above_bound_lemma tab :
  exists t, enc tab (CTime false) (VTime 2048 4 []) = Some t /\ dec tab (CTime false) t = Some (VTime 1024 2 []).
Proof. eexists. split; [reflexivity|]. vm_compute. reflexivity. Qed.

