(* C14 -- Performance.sanitize_track_numbers as the code does it (Model/C14_Trk.v): shape kept,
   two events share a new number exactly when they are events of one part that shared a track
   (absent key = -1), also after a second renumbering. *)
From PV Require Import Lib.Base Model.C14 Model.C14_Note Model.C14_Trk Proofs.C14.
From Coq Require Import ZArith List Lia.
#[local] Open Scope Z_scope.

Lemma insert_u_In x a l : In x (insert_u a l) <-> x = a \/ In x l.
Proof.
  induction l as [|b r IH]; simpl.
  - split; intros [H|H]; subst; auto; destruct H.
  - destruct (pair_eqb a b) eqn:E.
    + apply pair_eqb_eq in E. subst. simpl. split; intros H; [right; exact H|].
      destruct H as [->|H]; [left; reflexivity|exact H].
    + destruct (pair_ltb a b); simpl.
      * split; intros H; [destruct H as [<-|H]; auto|destruct H as [->|H]; auto].
      * rewrite IH. split; intros H.
        -- destruct H as [<-|[->|H]]; auto.
        -- destruct H as [->|[<-|H]]; auto.
Qed.

Lemma usort_In x l : In x (usort l) <-> In x l.
Proof.
  induction l as [|a r IH]; simpl; [tauto|].
  rewrite insert_u_In, IH. split; intros [H|H]; auto.
Qed.

Lemma tmap_inj ids a b : In a ids -> In b ids -> tmap ids a = tmap ids b -> a = b.
Proof.
  unfold tmap. intros Ha Hb H.
  destruct (index_of_pair_In a ids Ha) as [ka Ea]. destruct (index_of_pair_In b ids Hb) as [kb Eb].
  rewrite Ea, Eb in H. simpl in H. subst kb.
  apply index_of_pair_nth in Ea as [_ Ea]. apply index_of_pair_nth in Eb as [_ Eb]. congruence.
Qed.

Lemma events_renum ids i p :
  events (renum_part ids i p) = map (fun o => Some (tmap ids (i, tr o))) (events p).
Proof.
  destruct p as [[n c] g]. unfold renum_part, events, renum_list. rewrite !map_app. reflexivity.
Qed.

Lemma part_pairs_renum ids i p :
  part_pairs i (renum_part ids i p) = map (fun a => (fst a, tmap ids a)) (part_pairs i p).
Proof.
  unfold part_pairs. rewrite events_renum, !map_map. reflexivity.
Qed.

Lemma all_pairs_renum ids : forall ps i,
  all_pairs i (renum ids i ps) = map (fun a => (fst a, tmap ids a)) (all_pairs i ps).
Proof.
  induction ps as [|p r IH]; intros i; simpl; [reflexivity|].
  rewrite map_app, part_pairs_renum, IH. reflexivity.
Qed.

Lemma new_numbers_eq ps :
  new_numbers ps = map (tmap (usort (all_pairs 0 ps))) (all_pairs 0 ps).
Proof.
  unfold new_numbers, sanitize. rewrite all_pairs_renum, map_map. reflexivity.
Qed.

Lemma all_pairs_sanitize ps :
  all_pairs 0 (sanitize ps) = map (fun a => (fst a, tmap (usort (all_pairs 0 ps)) a)) (all_pairs 0 ps).
Proof. unfold sanitize. apply all_pairs_renum. Qed.

Lemma shape_renum ids : forall ps i, map shape (renum ids i ps) = map shape ps.
Proof.
  induction ps as [|p r IH]; intros i; simpl; [reflexivity|]. rewrite IH. f_equal.
  destruct p as [[n c] g]. unfold renum_part, renum_list, shape. rewrite !map_length. reflexivity.
Qed.

Lemma sanitize_shape_lemma ps : map shape (sanitize ps) = map shape ps.
Proof. apply shape_renum. Qed.

Lemma nth_error_map_inv {A B} (f : A -> B) l k y : nth_error (map f l) k = Some y ->
  exists x, nth_error l k = Some x /\ y = f x.
Proof.
  rewrite nth_error_map. destruct (nth_error l k) as [x|]; simpl; intros H; [|discriminate].
  inversion H. eauto.
Qed.

(* O5 about the code's own algorithm: the events at positions k1, k2 (in the order part by part,
   notes then controls then program changes) get the same new track number exactly when they
   belong to the same part and had the same track (absent = -1) before *)
Lemma sanitize_partition_lemma ps k1 k2 a b x y :
  nth_error (all_pairs 0 ps) k1 = Some a -> nth_error (all_pairs 0 ps) k2 = Some b ->
  nth_error (new_numbers ps) k1 = Some x -> nth_error (new_numbers ps) k2 = Some y ->
  (x = y <-> a = b).
Proof.
  rewrite new_numbers_eq. intros Ha Hb Hx Hy.
  apply nth_error_map_inv in Hx as (a' & Ea & ->). apply nth_error_map_inv in Hy as (b' & Eb & ->).
  assert (a' = a) by congruence. assert (b' = b) by congruence. subst a' b'.
  split; [|intros ->; reflexivity].
  apply tmap_inj; apply usort_In; eapply nth_error_In; eauto.
Qed.

Lemma sanitize_unique_across_parts_lemma ps k1 k2 a b x y :
  nth_error (all_pairs 0 ps) k1 = Some a -> nth_error (all_pairs 0 ps) k2 = Some b ->
  nth_error (new_numbers ps) k1 = Some x -> nth_error (new_numbers ps) k2 = Some y ->
  fst a <> fst b -> x <> y.
Proof.
  intros Ha Hb Hx Hy Hne E. apply (proj1 (sanitize_partition_lemma ps k1 k2 a b x y Ha Hb Hx Hy)) in E.
  subst. auto.
Qed.

(* renumbering the renumbered parts once more (sanitize_track_numbers() again, a Performance made of
   another performance's parts) keeps the partition *)
Lemma sanitize_again_partition_lemma ps k1 k2 a b x y :
  nth_error (all_pairs 0 ps) k1 = Some a -> nth_error (all_pairs 0 ps) k2 = Some b ->
  nth_error (new_numbers (sanitize ps)) k1 = Some x -> nth_error (new_numbers (sanitize ps)) k2 = Some y ->
  (x = y <-> a = b).
Proof.
  intros Ha Hb Hx Hy.
  set (ids := usort (all_pairs 0 ps)).
  assert (Ha' : nth_error (all_pairs 0 (sanitize ps)) k1 = Some (fst a, tmap ids a)).
  { rewrite all_pairs_sanitize, nth_error_map, Ha. reflexivity. }
  assert (Hb' : nth_error (all_pairs 0 (sanitize ps)) k2 = Some (fst b, tmap ids b)).
  { rewrite all_pairs_sanitize, nth_error_map, Hb. reflexivity. }
  rewrite (sanitize_partition_lemma (sanitize ps) k1 k2 _ _ x y Ha' Hb' Hx Hy).
  split; [|intros ->; reflexivity]. intros E. inversion E.
  apply (tmap_inj ids); auto; apply usort_In; eapply nth_error_In; eauto.
Qed.

(* every new number is a valid index into the sorted pair list: 0 <= number < num_tracks *)
Lemma new_numbers_range_lemma ps x : In x (new_numbers ps) -> 0 <= x < num_tracks ps.
Proof.
  rewrite new_numbers_eq. intros H. apply in_map_iff in H as (a & <- & Ha).
  unfold tmap, num_tracks. assert (Hin : In a (usort (all_pairs 0 ps))) by (apply usort_In; exact Ha).
  destruct (index_of_pair_In a _ Hin) as [k E]. rewrite E. simpl.
  apply index_of_pair_nth in E. tauto.
Qed.

(* two parts sharing track 0, a control without track key next to a note on track -1, a program
   change on the other part's track *)
Definition ex_parts : list ptracks :=
  [([Some 0; Some 1; Some (-1)], [None; Some 0], [Some 5]); ([Some 0; Some 5], [Some 1], [])].
Lemma sanitize_example :
  sanitize ex_parts = [([Some 1; Some 2; Some 0], [Some 0; Some 1], [Some 3]); ([Some 4; Some 6], [Some 5], [])] /\
  sanitize (sanitize ex_parts) = sanitize ex_parts /\ num_tracks ex_parts = 7.
Proof. vm_compute. repeat split; reflexivity. Qed.
