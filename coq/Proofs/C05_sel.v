(* C05 -- proofs about the selection of the maps for the optional columns (Model/C05_Sel.v):
   the table the entry functions build column group by column group, sanitise and sort IS the full table
   of Model/C05.v seen through the options; where exactly the entry function refuses; the columns two
   option sets have in common do not depend on the other options. *)
From PV Require Import Lib.Base Model.C05 Model.C05_Spec Model.C05_Ext Model.C05_Sel Proofs.C05_lib Proofs.C05.
From Coq Require Import QArith Sorting.Sorted Permutation.
#[local] Open Scope Z_scope.

(* the selection that corresponds to an option set: each map is there exactly when it was asked for *)
Definition sel_for (o : opts) (mp : maps) (divs : Z) : sel :=
  mkSel (if o_ks o then Some (m_ks mp) else None)
        (if o_ts o then Some (m_ts mp) else None)
        (if o_mp o then Some (m_mp mp) else None)
        (if o_divs o then Some divs else None).

Lemma obs_row_view o mp divs n d :
  obs_row (sel_for o mp divs) (o_spelling o) (o_grace o) (o_staff o) n d = view o (raw_row mp divs n d).
Proof.
  unfold obs_row, raw_row, sel_for, view.
  destruct (m_mp mp (n_start n)) as [rel tot] eqn:E.
  destruct o as [sp ks ts mpf gr st dv]; cbn [o_spelling o_ks o_ts o_mp o_grace o_staff o_divs
    s_ks s_ts s_mp s_divs r_onset r_dur r_pitch r_voice r_id r_step r_alter r_octave r_is_grace
    r_grace_type r_ks r_ts r_mp r_staff r_divs].
  destruct sp, ks, ts, mpf, gr, st, dv; cbn [omap]; rewrite ?E; reflexivity.
Qed.

Lemma obs_rows_view o mp divs ns heads :
  obs_rows (sel_for o mp divs) (o_spelling o) (o_grace o) (o_staff o) ns heads
  = option_map (map (view o)) (raw_rows ns mp divs heads).
Proof.
  induction heads as [|h r IH]; [reflexivity|].
  cbn [obs_rows raw_rows]. rewrite IH.
  destruct (duration_tied ns (List.length ns) h) as [d|]; [|reflexivity].
  destruct (raw_rows ns mp divs r) as [rows|]; [|reflexivity].
  cbn [option_map map]. rewrite obs_row_view. reflexivity.
Qed.

Lemma obs_voice_view o r : obs_voice (view o r) = r_voice r.
Proof. reflexivity. Qed.

Lemma view_set_voice o r v : view o (set_voice r v) = obs_set_voice (view o r) v.
Proof. reflexivity. Qed.

Lemma fold_max_view o l : forall a,
  fold_left (fun m x => Z.max m (obs_voice x)) (map (view o) l) a
  = fold_left (fun m x => Z.max m (r_voice x)) l a.
Proof. induction l as [|x l IH]; intros a; [reflexivity|]. cbn [map fold_left]. rewrite IH. reflexivity. Qed.

Lemma max_voice_view o rows : max_voice_o (map (view o) rows) = max_voice rows.
Proof. destruct rows as [|r l]; [reflexivity|]. cbn [map max_voice_o max_voice]. rewrite fold_max_view. reflexivity. Qed.

Lemma sanitize_view o rows : map (view o) (sanitize_voices rows) = sanitize_o (map (view o) rows).
Proof.
  unfold sanitize_voices, sanitize_o. rewrite max_voice_view, !map_map.
  apply map_ext. intros r. rewrite obs_voice_view.
  destruct (r_voice r =? -1); [apply view_set_voice | reflexivity].
Qed.

Section SortMap.
  Variables (f : row -> obs) (k : row -> Z) (k' : obs -> Z).
  Hypothesis key_f : forall x, k' (f x) = k x.

  Lemma insert_map x l : map f (insert_by k x l) = insert_g k' (f x) (map f l).
  Proof.
    induction l as [|y r IH]; [reflexivity|].
    cbn [insert_by insert_g map]. rewrite !key_f.
    destruct (k x <=? k y); [reflexivity|]. cbn [map]. rewrite IH. reflexivity.
  Qed.

  Lemma isort_map l : map f (isort_by k l) = isort_g k' (map f l).
  Proof. induction l as [|x r IH]; [reflexivity|]. cbn [isort_by isort_g map]. rewrite insert_map, IH. reflexivity. Qed.
End SortMap.

Lemma sort_rows_view o rows :
  map (view o) (sort_rows rows) = isort_g obs_onset (isort_g obs_pitch (map (view o) rows)).
Proof.
  unfold sort_rows.
  rewrite (isort_map (view o) r_onset obs_onset) by reflexivity.
  rewrite (isort_map (view o) r_pitch obs_pitch) by reflexivity. reflexivity.
Qed.

(* the row construction on tuples = the full rows seen through the options *)
Lemma note_list_array_view o mp divs ns heads :
  note_list_array (sel_for o mp divs) (o_spelling o) (o_grace o) (o_staff o) ns heads
  = option_map (map (view o)) (array_of ns mp divs heads).
Proof.
  unfold note_list_array, array_of. rewrite obs_rows_view.
  destruct (raw_rows ns mp divs heads) as [rows|]; [|reflexivity].
  cbn [option_map]. rewrite sort_rows_view, sanitize_view. reflexivity.
Qed.

Lemma select_part_sel_for o p s : select_part o p = Some s ->
  s = sel_for o (p_maps p) (first_divs p) /\ (o_divs o = true -> exists t, p_qd p = [(t, first_divs p)]).
Proof.
  unfold select_part, sel_for, first_divs. destruct (o_divs o) eqn:D.
  - destruct (p_qd p) as [|[t d] [|x r]]; try discriminate.
    intros H. injection H as <-. split; [reflexivity|]. intros _. exists t. reflexivity.
  - intros H. injection H as <-. split; [reflexivity|]. discriminate.
Qed.

Lemma select_rest_sel_for o p :
  select_rest o p = sel_for (mkOpts (o_spelling o) (o_ks o) (o_ts o) (o_mp o) (o_grace o) (o_staff o) false)
                            (p_maps p) (first_divs p).
Proof. reflexivity. Qed.

(* ---------------------------------------------------------------- the theorems *)

(* the table of Part.note_array for ANY option set is the full table seen through the options *)
Lemma entry_is_view_lemma : forall o p t, note_array_from_part_m o p = Table t ->
  exists rows, note_array (p_notes p) (p_maps p) (first_divs p) = Some rows /\ t = map (view o) rows /\
               (o_divs o = true -> exists t0, p_qd p = [(t0, first_divs p)]).
Proof.
  intros o p t. unfold note_array_from_part_m, entry_with.
  destruct (select_part o p) as [s|] eqn:S; [|discriminate].
  apply select_part_sel_for in S. destruct S as [-> Hd].
  rewrite note_list_array_view. unfold note_array, note_sel.
  destruct (array_of (p_notes p) (p_maps p) (first_divs p) _) as [rows|]; [|discriminate].
  cbn [option_map]. intros H. injection H as <-. exists rows. auto.
Qed.

Lemma rest_entry_is_view_lemma : forall o p,
  match rest_array_from_part_m o p with
  | Table t => exists rows, rest_array (p_notes p) (p_maps p) (first_divs p) = Some rows /\
                            t = map (view (rest_opts o)) rows
  | Broken => rest_array (p_notes p) (p_maps p) (first_divs p) = None
  | Refused => False
  end.
Proof.
  intros o p. unfold rest_array_from_part_m. rewrite select_rest_sel_for.
  change (o_spelling o) with (o_spelling (rest_opts o)) at 2.
  change (o_grace o) with (o_grace (rest_opts o)) at 2.
  change (o_staff o) with (o_staff (rest_opts o)) at 2.
  fold (rest_opts o).
  rewrite note_list_array_view. unfold rest_array, rest_sel.
  destruct (array_of (p_notes p) (p_maps p) (first_divs p) _) as [rows|]; cbn [option_map].
  - exists rows. auto.
  - reflexivity.
Qed.

(* the entry function refuses exactly the parts with other than one entry of divisions, and only when the
   divisions column is asked for; with well-formed tie links it returns a table in every other case *)
Lemma entry_refuses_exactly_lemma : forall o p,
  (note_array_from_part_m o p = Refused <-> o_divs o = true /\ List.length (p_qd p) <> 1%nat) /\
  (wf_ties (p_notes p) -> note_array_from_part_m o p <> Broken).
Proof.
  intros o p. split.
  - unfold note_array_from_part_m, entry_with.
    destruct (select_part o p) as [s|] eqn:S.
    + split.
      * destruct (note_list_array _ _ _ _ _ _); discriminate.
      * intros [D L]. exfalso. unfold select_part in S. rewrite D in S.
        destruct (p_qd p) as [|[t d] [|x r]]; try discriminate. apply L. reflexivity.
    + split; [|reflexivity]. intros _. unfold select_part in S.
      destruct (o_divs o); [|discriminate]. split; [reflexivity|].
      destruct (p_qd p) as [|[t d] [|x r]]; cbn [List.length]; try discriminate.
  - intros W. unfold note_array_from_part_m, entry_with.
    destruct (select_part o p) as [s|] eqn:S; [|discriminate].
    apply select_part_sel_for in S. destruct S as [-> _].
    rewrite note_list_array_view.
    destruct (note_array_total_lemma (p_notes p) (p_maps p) (first_divs p) W) as [rows R].
    unfold note_array in R. unfold note_sel. rewrite R. discriminate.
Qed.

(* every visible column of every row says what the score states at the onset of the chain head it stands for;
   the divisions column is the part's one number of divisions *)
Lemma entry_columns_lemma : forall o p t, note_array_from_part_m o p = Table t ->
  forall x, In x t ->
  exists h d r, In h (notes_tied (sounding (p_notes p))) /\
                duration_tied (p_notes p) (List.length (p_notes p)) h = Some d /\
                row_matches (p_maps p) (first_divs p) h d r /\
                voice_ok (notes_tied (sounding (p_notes p))) h r /\ x = view o r.
Proof.
  intros o p t H x Hx. destruct (entry_is_view_lemma o p t H) as (rows & R & -> & _).
  apply in_map_iff in Hx. destruct Hx as (r & <- & Hr).
  destruct (columns_spec_lemma _ _ _ _ R r Hr) as (h & d & H1 & H2 & H3 & H4).
  exists h, d, r. auto.
Qed.

Lemma if_none_comm {A} (b1 b2 : bool) (x : option A) :
  (if b2 then (if b1 then x else None) else None) = (if b1 then (if b2 then x else None) else None).
Proof. destruct b1, b2; reflexivity. Qed.

Lemma restrict_view a b r : restrict b (view a r) = view (and_opts a b) r.
Proof.
  unfold restrict, view, and_opts; cbn [o_spelling o_ks o_ts o_mp o_grace o_staff o_divs].
  repeat match goal with |- (_, _) = (_, _) => apply (f_equal2 pair) end; try reflexivity;
    match goal with |- (if ?y then (if ?x then _ else None) else None) = _ => destruct x, y; reflexivity end.
Qed.

Lemma view_and_comm a b r : view (and_opts a b) r = view (and_opts b a) r.
Proof.
  unfold view, and_opts; cbn [o_spelling o_ks o_ts o_mp o_grace o_staff o_divs].
  rewrite (andb_comm (o_spelling a)), (andb_comm (o_ks a)), (andb_comm (o_ts a)), (andb_comm (o_mp a)),
          (andb_comm (o_grace a)), (andb_comm (o_staff a)), (andb_comm (o_divs a)). reflexivity.
Qed.

(* the include_* options are independent: whatever two option sets have in common is the same in both tables
   (row by row, in the same order) -- in particular the five fixed columns never depend on an option *)
Lemma options_independent_lemma : forall o1 o2 p t1 t2,
  note_array_from_part_m o1 p = Table t1 -> note_array_from_part_m o2 p = Table t2 ->
  map (restrict o2) t1 = map (restrict o1) t2.
Proof.
  intros o1 o2 p t1 t2 H1 H2.
  destruct (entry_is_view_lemma _ _ _ H1) as (rows1 & R1 & -> & _).
  destruct (entry_is_view_lemma _ _ _ H2) as (rows2 & R2 & -> & _).
  rewrite R1 in R2. injection R2 as <-. rewrite !map_map. apply map_ext.
  intros r. rewrite !restrict_view. apply view_and_comm.
Qed.

(* ---------------------------------------------------------------- examples *)

(* not vacuous: a part with a key change; no option, the key signature alone, every option *)
Lemma ex_sel_values :
  wf_ties (p_notes ex_sel_part) /\
  note_array_from_part_m opts_none ex_sel_part
    = Table [ (0, 4, 60, 1, "a", None, None, None, None, None, None, None);
              (4, 4, 64, 2, "b", None, None, None, None, None, None, None) ]%string /\
  note_array_from_part_m opts_ks ex_sel_part
    = Table [ (0, 4, 60, 1, "a", None, None, Some (2, 1), None, None, None, None);
              (4, 4, 64, 2, "b", None, None, Some (-3, 0), None, None, None, None) ]%string /\
  note_array_from_part_m opts_all ex_sel_part
    = Table [ (0, 4, 60, 1, "a", Some ("C", 0, 4), Some (false, ""), Some (2, 1), Some (3, 4, 3), Some (1, 0, 12), Some 1, Some 4);
              (4, 4, 64, 2, "b", Some ("E", 0, 4), Some (false, ""), Some (-3, 0), Some (3, 4, 3), Some (0, 4, 12), Some 1, Some 4) ]%string /\
  note_array_from_part_m opts_all ex_sel_part2 = Refused /\
  (exists t, note_array_from_part_m opts_ks ex_sel_part2 = Table t).
Proof.
  split; [|repeat split; try (vm_compute; reflexivity); eexists; vm_compute; reflexivity].
  constructor.
  - vm_compute. apply NoDup_cons; [intros [E|[]]; discriminate E | apply NoDup_cons; [intros [] | apply NoDup_nil]].
  - intros n k [<-|[<-|[]]]; discriminate.
  - intros n k [<-|[<-|[]]]; discriminate.
  - exists (fun _ => O). intros n m [<-|[<-|[]]] _; discriminate.
Qed.

(* the statements discriminate: with the condition of the time-signature block copied to the key-signature
   block the table is no longer the full table seen through the options ... *)
Lemma copied_condition_refuted_lemma :
  ~ (forall o p t, entry_with select_part_copied o p = Table t ->
       exists rows, note_array (p_notes p) (p_maps p) (first_divs p) = Some rows /\ t = map (view o) rows).
Proof.
  intros H.
  assert (E : exists t, entry_with select_part_copied opts_ks ex_sel_part = Table t /\
                        t <> [ (0, 4, 60, 1, "a", None, None, Some (2, 1), None, None, None, None);
                               (4, 4, 64, 2, "b", None, None, Some (-3, 0), None, None, None, None) ]%string).
  { eexists. split; [vm_compute; reflexivity|]. discriminate. }
  destruct E as (t & Et & Ne). destruct (H _ _ _ Et) as (rows & R & ->).
  apply Ne. vm_compute in R. injection R as <-. vm_compute. reflexivity.
Qed.

(* ... and with the divisions taken from the first entry a part with two divisions is no longer refused *)
Lemma first_entry_refuted_lemma :
  ~ (forall o p, entry_with select_part_first o p = Refused <-> o_divs o = true /\ List.length (p_qd p) <> 1%nat).
Proof.
  intros H. destruct (H opts_divs ex_sel_part2) as [_ H2].
  assert (C : entry_with select_part_first opts_divs ex_sel_part2 = Refused).
  { apply H2. split; [reflexivity|]. cbn. discriminate. }
  vm_compute in C. discriminate C.
Qed.
